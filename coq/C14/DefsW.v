(* C14: widgets::base_text (src/form.cpp) as an OBJECT WITH STATE: one widget lives across several requests; load,
   clear, the value(v) setter, limits, validate_charset and validate are transitions on (value_, code_points_, is_set_,
   is_valid_, low_, high_, validate_charset_).  Definitions only.  The one-shot functions text_load / text_validate of
   Defs.v are what a single load / validate computes; here they are applied to the state. *)
From Coq Require Import NArith ZArith List Bool.
From CppcmsV Require Import C14.Defs.
Import ListNotations.
Local Open Scope N_scope.

Record wst := mk_wst {
  w_value : list N;      (* value_ *)
  w_cp : N;              (* code_points_ *)
  w_set : bool;          (* base_widget::is_set_ *)
  w_valid : bool;        (* base_widget::is_valid_ *)
  w_low : Z; w_high : Z; (* low_, high_ *)
  w_cs : bool            (* validate_charset_ *)
}.

(* base_widget() + base_text(): low_(0), high_(-1), validate_charset_(true), code_points_(0)  (repair eb17578) *)
Definition w_fresh : wst := mk_wst [] 0 false true 0 (-1) true.

(* what the value(v) setter counts (repair eb17578): the widget has no locale at hand, so with charset validation on and a
   value that is HTML-safe UTF-8 (encoding::valid_utf8) it is the number of code points, otherwise the number of bytes *)
Definition setter_count (cs : bool) (v : list N) : N :=
  if cs then match validate_count true v 0 with VOk n => n | _ => N.of_nat (length v) end
  else N.of_nat (length v).

Inductive wop :=
| OLoad (named : bool) (enc : list N) (req : option (list N))
    (* load(context): named = name() is not empty; enc = encoding of the context's locale; req = the field in the request *)
| OClear                     (* base_widget::clear(), also through form::clear() *)
| OSetValue (v : list N)     (* value(v) *)
| OLimits (low high : Z)     (* limits(low,high); non_empty() = limits(1,-1) *)
| OCharset (b : bool)        (* validate_charset(b) *)
| OValidate.                 (* validate(): the answer is wvalidate, the state changes too *)

(* base_text::load, statement by statement.  None: the encoding has no built-in validator (conversion fall-back, not modelled) *)
Definition wload (st : wst) (named : bool) (enc : list N) (req : option (list N)) : option wst :=
  let st1 := mk_wst [] 0 true true (w_low st) (w_high st) (w_cs st) in       (* value_.clear(); code_points_=0; set(true); valid(true) *)
  if negb named then Some st1
  else match req with
       | None => Some st1
       | Some v =>
           match text_load (w_cs st) enc v with
           | Some (ok, n) => Some (mk_wst v n true ok (w_low st) (w_high st) (w_cs st))
           | None => None
           end
       end.

(* base_text::validate: (answer, state afterwards) *)
Definition wvalidate (st : wst) : bool * wst :=
  if negb (w_valid st) then (false, st)
  else if negb (w_set st) && (w_low st =? 0)%Z && (w_high st =? -1)%Z then (true, st)
  else if (w_cp st <? size_t_of_int (w_low st)) || ((0 <=? w_high st)%Z && (size_t_of_int (w_high st) <? w_cp st))
       then (false, mk_wst (w_value st) (w_cp st) (w_set st) false (w_low st) (w_high st) (w_cs st))
       else (true, st).

Definition wstep (st : wst) (op : wop) : option wst :=
  match op with
  | OLoad named enc req => wload st named enc req
  | OClear => Some (mk_wst (w_value st) (w_cp st) false (w_valid st) (w_low st) (w_high st) (w_cs st))
  | OSetValue v =>     (* set(true); value_=v; valid(true); code_points_ recounted *)
      Some (mk_wst v (setter_count (w_cs st) v) true true (w_low st) (w_high st) (w_cs st))
  | OLimits lo hi => Some (mk_wst (w_value st) (w_cp st) (w_set st) (w_valid st) lo hi (w_cs st))
  | OCharset b => Some (mk_wst (w_value st) (w_cp st) (w_set st) (w_valid st) (w_low st) (w_high st) b)
  | OValidate => Some (snd (wvalidate st))
  end.

Fixpoint wrun (st : wst) (ops : list wop) : option wst :=
  match ops with
  | [] => Some st
  | op :: r => match wstep st op with Some st' => wrun st' r | None => None end
  end.

(* value(): throws when the widget is not set *)
Definition wget (st : wst) : option (list N) := if w_set st then Some (w_value st) else None.
