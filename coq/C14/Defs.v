(* C14: executable model of the text validators of CppCMS.
     private/utf_iterator.h      utf::valid, utf8::is_trail / trail_length / width / next / validate / encode
     booster/locale/utf.h        utf_traits<char,1>::decode / encode (and its copies of the leaf functions)
     booster/locale/encoding_utf.h  conv::utf_to_utf<char,char>
     private/encoding_validators.h  the single-byte validators
     src/encoding.cpp            encodings_comparator, validators_set, valid, validate_or_filter
   Bytes and code points are N, strings are list N.  No proofs here: this file must keep compiling
   (and extracting) when a proof breaks. *)
From Coq Require Import String Ascii.
From Coq Require Import NArith ZArith List Bool.
Import ListNotations.
Local Open Scope N_scope.

(* ---------- leaf functions (tied to the generated ones in Link.v) ---------- *)
(* utf::valid / booster is_valid_codepoint *)
Definition cp_valid (v : N) : bool :=
  if 1114111 <? v then false
  else if (55296 <=? v) && (v <=? 57343) then false
  else true.
(* (c & 0xC0) == 0x80 on an unsigned char *)
Definition is_trail (c : N) : bool := (128 <=? c) && (c <? 192).
(* int trail_length(unsigned char): -1 = not a lead byte *)
Definition trail_length (c : N) : Z :=
  if c <? 128 then 0%Z else if c <? 194 then (-1)%Z else if c <? 224 then 1%Z
  else if c <? 240 then 2%Z else if c <=? 244 then 3%Z else (-1)%Z.
Definition width (v : N) : Z :=
  if v <=? 127 then 1%Z else if v <=? 2047 then 2%Z else if v <=? 65535 then 3%Z else 4%Z.

(* ---------- the decoder ---------- *)
Inductive dres := Illegal | Incomplete | Cp (c : N).

(* the fall-through switch(trail_size): read k trail bytes, c = (c << 6) | (tmp & 0x3F) each;
   `eof` is what the decoder answers when the input ends (cppcms: illegal, booster: incomplete);
   the second component is the unread input (where the iterator is left) *)
Fixpoint read_trail (eof : dres) (k : nat) (c : N) (l : list N) : dres * list N :=
  match k with
  | O => (Cp c, l)
  | S k' =>
      match l with
      | [] => (eof, [])
      | t :: r => if is_trail t then read_trail eof k' (c * 64 + t mod 64) r else (Illegal, r)
      end
  end.

(* !html || (lead >= 0x20 && lead!=0x7F) || lead==0x9 || lead==0x0A || lead==0x0D   (html part) *)
Definition ascii_html_ok (lead : N) : bool :=
  ((32 <=? lead) && negb (lead =? 127)) || (lead =? 9) || (lead =? 10) || (lead =? 13).

(* the checks after the switch *)
Definition finish (html : bool) (ts : Z) (c : N) : dres :=
  if negb (cp_valid c) then Illegal
  else if negb (Z.eqb (width c) (ts + 1)) then Illegal
  else if html && (c <? 160) then Illegal
  else Cp c.

(* lead & ((1 << (6 - trail_size)) - 1) *)
Definition lead_bits (ts : Z) (lead : N) : N := lead mod 2 ^ Z.to_N (6 - ts).

Definition next_gen (eof : dres) (html : bool) (l : list N) : dres * list N :=
  match l with
  | [] => (eof, [])
  | lead :: r =>
      let ts := trail_length lead in
      if (ts <? 0)%Z then (Illegal, r)
      else if (ts =? 0)%Z then
        ((if negb html || ascii_html_ok lead then Cp lead else Illegal), r)
      else
        match read_trail eof (Z.to_nat ts) (lead_bits ts lead) r with
        | (Cp c, r') => (finish html ts c, r')
        | other => other
        end
  end.

(* cppcms::utf8::next(p,e,html) and booster::locale::utf::utf_traits<char>::decode(p,e) *)
Definition cppcms_next (html : bool) (l : list N) : dres * list N := next_gen Illegal html l.
Definition booster_decode (l : list N) : dres * list N := next_gen Incomplete false l.

(* ---------- whole-string validators ---------- *)
(* VFuel: the recursion ran out of fuel (never happens with fuel = length, see Proofs.validate_fuel) *)
Inductive vres := VFuel | VBad (count : N) | VOk (count : N).

(* utf8::validate(p,e,count,html): count is an in/out parameter, incremented per accepted code point *)
Fixpoint validate_f (fuel : nat) (html : bool) (l : list N) (count : N) : vres :=
  match l with
  | [] => VOk count
  | _ :: _ =>
      match fuel with
      | O => VFuel
      | S f =>
          match cppcms_next html l with
          | (Cp _, r) => validate_f f html r (count + 1)
          | _ => VBad count
          end
      end
  end.
Definition validate_count (html : bool) (l : list N) (count : N) : vres := validate_f (length l) html l count.
(* utf8::validate(p,e,html) *)
Definition validate (html : bool) (l : list N) : bool :=
  match validate_count html l 0 with VOk _ => true | _ => false end.

(* ---------- encoders (cppcms utf8::encode, booster utf_traits<char>::encode), value < 2^21 ---------- *)
Definition encode (v : N) : list N :=
  if v <=? 127 then [v]
  else if v <=? 2047 then [v / 64 + 192; v mod 64 + 128]
  else if v <=? 65535 then [v / 4096 + 224; (v / 64) mod 64 + 128; v mod 64 + 128]
  else [v / 262144 + 240; (v / 4096) mod 64 + 128; (v / 64) mod 64 + 128; v mod 64 + 128].

(* booster::locale::conv::utf_to_utf<char,char>(begin,end,how): decode, re-encode what decodes, skip or stop
   on what does not.  None = fuel exhausted (never), Some None = conversion_error thrown (how = stop) *)
Fixpoint utf_to_utf_f (fuel : nat) (stop : bool) (l : list N) : option (option (list N)) :=
  match l with
  | [] => Some (Some [])
  | _ :: _ =>
      match fuel with
      | O => None
      | S f =>
          match booster_decode l with
          | (Cp c, r) =>
              match utf_to_utf_f f stop r with
              | Some (Some o) => Some (Some (encode c ++ o))
              | other => other
              end
          | (_, r) => if stop then Some None else utf_to_utf_f f stop r
          end
      end
  end.
Definition utf_to_utf (stop : bool) (l : list N) := utf_to_utf_f (length l) stop l.

(* ---------- single-byte validators (private/encoding_validators.h) ---------- *)
Inductive sbkind :=
  SB_ascii | SB_iso | SB_iso3 | SB_iso6 | SB_iso7 | SB_iso8 | SB_iso11
| SB_1250 | SB_1251 | SB_1252 | SB_1253 | SB_1254 | SB_1255 | SB_1256 | SB_1257 | SB_1258 | SB_koi8.

Definition tlc (c : N) : bool := (c =? 9) || (c =? 10) || (c =? 13).
Definition mem (c : N) (l : list N) : bool := existsb (N.eqb c) l.
Definition iso_base (c : N) : bool := negb ((c <? 32) || ((127 <=? c) && (c <? 160))).
Definition win_base (c : N) : bool := negb ((c <? 32) || (c =? 127)).
Definition rng (a b c : N) : bool := (a <=? c) && (c <=? b).

(* true: the loop goes on to the next byte; false: the validator returns false *)
Definition byte_ok (k : sbkind) (c : N) : bool :=
  tlc c ||
  match k with
  | SB_ascii => negb ((c <? 32) || (126 <? c))
  | SB_iso => iso_base c
  | SB_iso3 => iso_base c && negb (mem c [165;174;190;195;208;227;240])
  | SB_iso6 => iso_base c && negb (rng 161 163 c || rng 165 171 c || rng 174 186 c || rng 188 190 c
                                    || (c =? 192) || rng 219 223 c || rng 243 255 c)
  | SB_iso7 => iso_base c && negb (mem c [174;210;255])
  | SB_iso8 => iso_base c && negb (mem c [161;251;252;255]) && negb (rng 191 222 c)
  | SB_iso11 => iso_base c && negb (mem c [219;220;221;222;252;253;254;255])
  | SB_1250 => win_base c && negb (mem c [129;131;136;144;152])
  | SB_1251 => win_base c && negb (c =? 152)
  | SB_1252 => win_base c && negb (mem c [129;141;143;144;157])
  | SB_1253 => win_base c && negb (mem c [129;136;138;140;141;142;143;144;152;154;156;157;158;159;170;210;255])
  | SB_1254 => win_base c && negb (mem c [129;141;142;143;144;157;158])
  | SB_1255 => win_base c && negb (mem c [129;138;140;141;142;143;144;154;156;157;158;159;
                                          217;218;219;220;221;222;223;202;251;252;255])
  | SB_1256 => win_base c
  | SB_1257 => win_base c && negb (mem c [129;131;136;138;140;144;152;154;156;159;161;165])
  | SB_1258 => win_base c && negb (mem c [129;138;141;142;143;144;154;157;158])
  | SB_koi8 => win_base c
  end.

(* the loop: count++ happens before the byte is judged *)
Fixpoint sb_validate (k : sbkind) (l : list N) (count : N) : bool * N :=
  match l with
  | [] => (true, count)
  | c :: r => if byte_ok k c then sb_validate k r (count + 1) else (false, count + 1)
  end.
Definition sb_valid (k : sbkind) (l : list N) : bool := forallb (byte_ok k) l.

(* ---------- encoding names (src/encoding.cpp: encodings_comparator, validators_set) ---------- *)
(* one character of a name: Some c = contributes c, None = skipped (encodings_comparator::next loop body) *)
Definition name_step (c : N) : option N :=
  if (48 <=? c) && (c <=? 57) then Some c
  else if (97 <=? c) && (c <=? 122) then Some c
  else if (65 <=? c) && (c <=? 90) then Some (c - 65 + 97)
  else None.
(* the sequence of characters next() yields before it returns 0 (c_str: stops at the first NUL) *)
Fixpoint norm_name (l : list N) : list N :=
  match l with
  | [] => []
  | c :: r => if c =? 0 then []
              else match name_step c with Some x => x :: norm_name r | None => norm_name r end
  end.
(* the comparator call operator on two C strings: lexicographic order of the normalised names; end (0) sorts first *)
Fixpoint lex_lt (a b : list N) : bool :=
  match a, b with
  | [], [] => false
  | [], _ :: _ => true
  | _ :: _, [] => false
  | x :: a', y :: b' => if x <? y then true else if y <? x then false else lex_lt a' b'
  end.
Definition enc_less (a b : list N) : bool := lex_lt (norm_name a) (norm_name b).
Definition enc_equiv (a b : list N) : bool := negb (enc_less a b) && negb (enc_less b a).

Definition s2b (s : string) : list N := map N_of_ascii (list_ascii_of_string s).

Inductive validator := V_utf8 | V_sb (k : sbkind).
(* validators_set::validators_set() *)
(* (Eval vm_compute: the extracted table is made of literal byte lists) *)
Definition enc_table : list (list N * validator) := Eval vm_compute in
  [ (s2b "latin1", V_sb SB_iso);
    (s2b "iso88591", V_sb SB_iso); (s2b "iso88592", V_sb SB_iso); (s2b "iso88594", V_sb SB_iso);
    (s2b "iso88595", V_sb SB_iso); (s2b "iso88599", V_sb SB_iso); (s2b "iso885910", V_sb SB_iso);
    (s2b "iso885913", V_sb SB_iso); (s2b "iso885914", V_sb SB_iso); (s2b "iso885915", V_sb SB_iso);
    (s2b "iso885916", V_sb SB_iso);
    (s2b "iso88593", V_sb SB_iso3); (s2b "iso88596", V_sb SB_iso6); (s2b "iso88597", V_sb SB_iso7);
    (s2b "iso88598", V_sb SB_iso8); (s2b "iso885911", V_sb SB_iso11);
    (s2b "windows1250", V_sb SB_1250); (s2b "windows1251", V_sb SB_1251); (s2b "windows1252", V_sb SB_1252);
    (s2b "windows1253", V_sb SB_1253); (s2b "windows1255", V_sb SB_1255); (s2b "windows1256", V_sb SB_1256);
    (s2b "windows1257", V_sb SB_1257); (s2b "windows1258", V_sb SB_1258);
    (s2b "cp1250", V_sb SB_1250); (s2b "cp1251", V_sb SB_1251); (s2b "cp1252", V_sb SB_1252);
    (s2b "cp1253", V_sb SB_1253); (s2b "cp1255", V_sb SB_1255); (s2b "cp1256", V_sb SB_1256);
    (s2b "cp1257", V_sb SB_1257); (s2b "cp1258", V_sb SB_1258);
    (s2b "koi8r", V_sb SB_koi8); (s2b "koi8u", V_sb SB_koi8);
    (s2b "utf8", V_utf8);
    (s2b "usascii", V_sb SB_ascii); (s2b "ascii", V_sb SB_ascii) ].

(* std::map<...,encodings_comparator>::find: the entry equivalent to the name under the comparator *)
Definition lookup (name : list N) : option validator :=
  match find (fun e => enc_equiv name (fst e)) enc_table with
  | Some (_, v) => Some v
  | None => None
  end.
Definition utf8_name : list N := Eval vm_compute in s2b "utf8".
Definition is_utf8 (name : list N) : bool := enc_equiv name utf8_name.

(* a tester applied to [begin,end) with a count: (result, count afterwards); None = out of fuel (never) *)
Definition tester (v : validator) (l : list N) (count : N) : option (bool * N) :=
  match v with
  | V_utf8 => match validate_count true l count with
              | VOk n => Some (true, n) | VBad n => Some (false, n) | VFuel => None end
  | V_sb k => Some (sb_validate k l count)
  end.

(* encoding::valid(std::string const &encoding, begin, end, count) for the names with a built-in validator *)
Inductive named_res := NFallback | NFuel | NRes (ok : bool) (count : N).
Definition valid_named (name l : list N) (count : N) : named_res :=
  match lookup name with
  | None => NFallback            (* conversion through iconv / ICU: not modelled *)
  | Some v => match tester v l count with Some (ok, n) => NRes ok n | None => NFuel end
  end.

(* ---------- validate_or_filter ---------- *)
Definition rp (repl : N) : list N := if repl =? 0 then [] else [repl].
(* the bytes between prev and ptr after a successful next *)
Definition consumed (l r : list N) : list N := firstn (length l - length r) l.

(* first loop of validate_or_filter_utf8: None = out of fuel; Some (good, rest): good = [begin,prev),
   rest = [prev,end), rest = [] iff the whole input is valid *)
Fixpoint scan_f (fuel : nat) (l : list N) : option (list N * list N) :=
  match l with
  | [] => Some ([], [])
  | _ :: _ =>
      match fuel with
      | O => None
      | S f =>
          match cppcms_next true l with
          | (Cp _, r) => match scan_f f r with
                         | Some (g, q) => Some (consumed l r ++ g, q)
                         | None => None
                         end
          | _ => Some ([], l)
          end
      end
  end.

(* second loop *)
Fixpoint filter2_f (fuel : nat) (repl : N) (l : list N) : option (list N) :=
  match l with
  | [] => Some []
  | _ :: tl =>
      match fuel with
      | O => None
      | S f =>
          match cppcms_next true l with
          | (Cp _, r) => option_map (app (consumed l r)) (filter2_f f repl r)
          | _ =>
              match cppcms_next false l with
              | (Cp _, r) => option_map (app (rp repl)) (filter2_f f repl r)   (* well formed but not HTML-safe *)
              | _ => option_map (app (rp repl)) (filter2_f f repl tl)          (* ptr = prev + 1 *)
              end
          end
      end
  end.

(* FValid: returned true, output untouched.  FFiltered out: returned false, output = out *)
Inductive fres := FFuel | FFallback | FValid | FFiltered (out : list N).

Definition vof_utf8 (repl : N) (l : list N) : fres :=
  match scan_f (length l) l with
  | None => FFuel
  | Some (_, []) => FValid
  | Some (good, rest) =>
      match filter2_f (length rest) repl rest with
      | Some o => FFiltered (good ++ o)
      | None => FFuel
      end
  end.

(* validate_or_filter_single_byte_charset(tester,...) : whole string first, then byte by byte *)
Definition vof_sb (v : validator) (repl : N) (l : list N) : fres :=
  match tester v l 0 with
  | None => FFuel
  | Some (true, _) => FValid
  | Some (false, _) =>
      FFiltered (flat_map (fun c => match tester v [c] 0 with
                                    | Some (true, _) => [c]
                                    | _ => rp repl
                                    end) l)
  end.

Definition validate_or_filter (name : list N) (repl : N) (l : list N) : fres :=
  if is_utf8 name then vof_utf8 repl l
  else match lookup name with
       | Some v => vof_sb v repl l
       | None => FFallback
       end.

(* what the filter hands on: the input itself when it was valid, the filtered text otherwise *)
Definition filtered_text (r : fres) (l : list N) : list N :=
  match r with FFiltered o => o | _ => l end.

(* ---------- form text widget (src/form.cpp: widgets::base_text::load and validate) ---------- *)
(* load: (valid flag, code_points_); `enc` is the encoding name of the context's locale.  None = encoding without a
   built-in validator (conversion fall-back, not modelled) or out of fuel (never) *)
Definition text_load (charset : bool) (enc value : list N) : option (bool * N) :=
  if charset then match valid_named enc value 0 with NRes ok n => Some (ok, n) | _ => None end
  else Some (true, N.of_nat (length value)).
(* validate (after a load, so set() holds): the limits are ints converted to size_t;
   code_points_ < size_t(low_) || (high_ >= 0 && code_points_ > size_t(high_)) -> invalid *)
Definition size_t_of_int (z : Z) : N := Z.to_N (z mod 2 ^ 64).
Definition text_validate (low high : Z) (st : bool * N) : bool :=
  fst st && negb ((snd st <? size_t_of_int low) || ((0 <=? high)%Z && (size_t_of_int high <? snd st))).
Definition text_widget (charset : bool) (enc value : list N) (low high : Z) : option bool :=
  option_map (text_validate low high) (text_load charset enc value).

(* ---------- booster utf_traits<char,1>::decode_valid: the unchecked decoder for input known to be valid ---------- *)
(* (on other input the C++ function may read past the end; the model then stops at the end of the list) *)
Fixpoint read_valid (k : nat) (c : N) (l : list N) : N * list N :=
  match k with
  | O => (c, l)
  | S k' => match l with
            | [] => (c, [])
            | t :: r => read_valid k' (c * 64 + t mod 64) r
            end
  end.
Definition decode_valid (l : list N) : N * list N :=
  match l with
  | [] => (0, [])
  | lead :: r =>
      if lead <? 192 then (lead, r)
      else if lead <? 224 then read_valid 1 (lead mod 32) r
      else if lead <? 240 then read_valid 2 (lead mod 16) r
      else read_valid 3 (lead mod 8) r
  end.
