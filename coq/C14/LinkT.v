(* C14: the validators table generated from validators_set::validators_set() (src/encoding.cpp) is the model's enc_table,
   entry by entry (names as bytes, validator as its index in the list of single-byte validators, 100 = utf8_valid);
   the keys are pairwise inequivalent under the comparator, so lookup by find is lookup in the std::map. *)
From CppcmsV Require Import Base.Tac Base.CSem C14.Defs C14.Link gen.Gen_C14.
Local Open Scope N_scope.

Definition kind_index (k : sbkind) : Z :=
  match k with
  | SB_ascii => 0 | SB_iso => 1 | SB_iso3 => 2 | SB_iso6 => 3 | SB_iso7 => 4 | SB_iso8 => 5 | SB_iso11 => 6
  | SB_1250 => 7 | SB_1251 => 8 | SB_1252 => 9 | SB_1253 => 10 | SB_1254 => 11 | SB_1255 => 12 | SB_1256 => 13
  | SB_1257 => 14 | SB_1258 => 15 | SB_koi8 => 16
  end%Z.
Definition validator_index (v : validator) : Z := match v with V_utf8 => 100%Z | V_sb k => kind_index k end.
Definition table_entry (e : list N * validator) : list Z * Z := (map Z.of_N (fst e), validator_index (snd e)).

(* kind_index is the position in Link.all_kinds, the order in which checks/C14.py lists the validators *)
Lemma kind_index_is_position k : nth_error all_kinds (Z.to_nat (kind_index k)) = Some k.
Proof. destruct k; reflexivity. Qed.

Lemma link_enc_table : g_enc_table = map table_entry enc_table.
Proof. vm_compute. reflexivity. Qed.

Fixpoint pairwise_distinct (l : list (list N * validator)) : bool :=
  match l with
  | [] => true
  | e :: r => forallb (fun e' => negb (enc_equiv (fst e) (fst e'))) r && pairwise_distinct r
  end.
Lemma enc_table_keys_distinct : pairwise_distinct enc_table = true.
Proof. vm_compute. reflexivity. Qed.
