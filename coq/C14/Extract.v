Require Extraction.
Require Import ExtrOcamlBasic.
From Coq Require Import NArith ZArith List.
From CppcmsV Require Import C14.Defs C14.Defs16 C14.DefsW.
Definition keep_types : (N * Z * nat) := (0%N, 0%Z, 0%nat).
Extraction "c14m.ml" keep_types cppcms_next booster_decode validate_count validate encode width utf_to_utf
  byte_ok sb_valid lookup valid_named validate_or_filter enc_less enc_equiv norm_name text_load text_widget decode_valid
  u16_decode u16_encode u16_width utf8_to_utf16 utf16_to_utf8
  w_fresh wstep wvalidate wget.
