(* C14: the encoders generated from booster/locale/utf.h (utf_traits<char,1>::encode, utf_traits<char16_t,2>::encode,
   instantiated for plain pointers in harness/C14_tu.cpp) are the model's encode / u16_encode; max_width bounds them. *)
From CppcmsV Require Import Base.Tac Base.CSem Base.CSemFacts C14.Defs C14.Spec C14.Proofs C14.Defs16 gen.Gen_C14.
Local Open Scope Z_scope.

Lemma land_shiftl_small a b k : 0 <= k -> 0 <= b < 2 ^ k -> Z.land (Z.shiftl a k) b = 0.
Proof.
  intros Hk Hb. destruct (Z.eq_dec b 0) as [->|Nz]; [apply Z.land_0_r|].
  apply Z.bits_inj'. intros n Hn. rewrite Z.land_spec, Z.bits_0.
  destruct (Z.lt_ge_cases n k) as [L|G].
  - rewrite Z.shiftl_spec_low by exact L. reflexivity.
  - rewrite (Z.bits_above_log2 b n); [apply andb_false_r|lia|].
    assert (Z.log2 b < k) by (apply Z.log2_lt_pow2; lia). lia.
Qed.
Lemma lor_shiftl_add a b k : 0 <= k -> 0 <= b < 2 ^ k -> Z.lor (Z.shiftl a k) b = a * 2 ^ k + b.
Proof.
  intros Hk Hb. rewrite <- Z.lxor_lor by (apply land_shiftl_small; assumption).
  rewrite <- Z.add_nocarry_lxor by (apply land_shiftl_small; assumption).
  rewrite Z.shiftl_mul_pow2 by lia. reflexivity.
Qed.
(* x | K for a constant K = a << k and 0 <= x < 2^k *)
Lemma lor_const x a k K : K = Z.shiftl a k -> 0 <= k -> 0 <= x < 2 ^ k -> Z.lor x K = x + K.
Proof.
  intros -> Hk Hx. rewrite Z.lor_comm, lor_shiftl_add by assumption. rewrite Z.shiftl_mul_pow2 by lia. lia.
Qed.
Lemma byte_cast y : 0 <= y < 256 -> wrapu 8 (wraps 8 y) = y.
Proof. intros H. unfold wrapu, wraps. change (2 ^ (8 - 1)) with 128. change (2 ^ 8) with 256. lia. Qed.
Lemma shr v k : 0 <= k -> Z.shiftr v k = v / 2 ^ k.
Proof. intros. apply Z.shiftr_div_pow2. assumption. Qed.
Lemma land63 v : 0 <= v -> Z.land v 63 = v mod 64.
Proof. intros. change 63 with (Z.ones 6). rewrite Z.land_ones by lia. reflexivity. Qed.

Lemma link_b_encode c : (c < 2097152)%N -> g_b_encode (Z.of_N c) = map Z.of_N (encode c).
Proof.
  intros H. unfold g_b_encode, encode. set (v := Z.of_N c). assert (0 <= v < 2097152) by (unfold v; lia).
  destruct (N.leb_spec c 127).
  { replace (v <=? 127) with true by (unfold v; lia). cbn [map app]. rewrite byte_cast by (unfold v; lia). reflexivity. }
  replace (v <=? 127) with false by (unfold v; lia).
  rewrite !shr by lia. change (2 ^ 6) with 64. change (2 ^ 12) with 4096. change (2 ^ 18) with 262144.
  rewrite ?(wrapu32_small (v / 64)), ?(wrapu32_small (v / 4096)), ?(wrapu32_small (v / 262144)) by lia.
  rewrite !land63 by lia.
  destruct (N.leb_spec c 2047).
  { replace (v <=? 2047) with true by (unfold v; lia). cbn [map app].
    rewrite (wrapu32_small (v mod 64)) by lia.
    rewrite (lor_const (v / 64) 3 6 192 eq_refl) by (cbn; lia). rewrite (lor_const (v mod 64) 2 6 128 eq_refl) by (cbn; lia).
    rewrite !wrapu32_small by lia. rewrite !byte_cast by lia. unfold v. repeat f_equal; lia. }
  replace (v <=? 2047) with false by (unfold v; lia).
  destruct (N.leb_spec c 65535).
  { replace (v <=? 65535) with true by (unfold v; lia). cbn [Z.b2z Z.eqb negb map app].
    rewrite (wrapu32_small (v / 64 mod 64)) by lia. rewrite (wrapu32_small (v mod 64)) by lia.
    rewrite (lor_const (v / 4096) 7 5 224 eq_refl) by (cbn; lia). rewrite (lor_const (v / 64 mod 64) 2 6 128 eq_refl) by (cbn; lia).
    rewrite (lor_const (v mod 64) 2 6 128 eq_refl) by (cbn; lia).
    rewrite !wrapu32_small by lia. rewrite !byte_cast by lia. unfold v. repeat f_equal; lia. }
  replace (v <=? 65535) with false by (unfold v; lia). cbn [Z.b2z Z.eqb negb map app].
  rewrite (wrapu32_small (v / 4096 mod 64)) by lia. rewrite (wrapu32_small (v / 64 mod 64)) by lia. rewrite (wrapu32_small (v mod 64)) by lia.
  rewrite (lor_const (v / 262144) 15 4 240 eq_refl) by (cbn; lia). rewrite (lor_const (v / 4096 mod 64) 2 6 128 eq_refl) by (cbn; lia).
  rewrite (lor_const (v / 64 mod 64) 2 6 128 eq_refl) by (cbn; lia). rewrite (lor_const (v mod 64) 2 6 128 eq_refl) by (cbn; lia).
  rewrite !wrapu32_small by lia. rewrite !byte_cast by lia. unfold v. repeat f_equal; lia.
Qed.

(* the framework's own encoder, cppcms::utf8::encode (private/utf_iterator.h) *)
Lemma link_encode c : (c < 2097152)%N -> g_encode (Z.of_N c) = map Z.of_N (encode c).
Proof.
  intros H. unfold g_encode, encode. set (v := Z.of_N c). assert (0 <= v < 2097152) by (unfold v; lia).
  destruct (N.leb_spec c 127).
  { replace (v <=? 127) with true by (unfold v; lia). cbn [map app]. rewrite byte_cast by (unfold v; lia). reflexivity. }
  replace (v <=? 127) with false by (unfold v; lia).
  rewrite !shr by lia. change (2 ^ 6) with 64. change (2 ^ 12) with 4096. change (2 ^ 18) with 262144.
  rewrite ?(wrapu32_small (v / 64)), ?(wrapu32_small (v / 4096)), ?(wrapu32_small (v / 262144)) by lia.
  rewrite !land63 by lia.
  destruct (N.leb_spec c 2047).
  { replace (v <=? 2047) with true by (unfold v; lia). cbn [map app].
    rewrite (wrapu32_small (v mod 64)) by lia.
    rewrite (lor_const (v / 64) 3 6 192 eq_refl) by (cbn; lia). rewrite (lor_const (v mod 64) 2 6 128 eq_refl) by (cbn; lia).
    rewrite !wrapu32_small by lia. rewrite !byte_cast by lia. unfold v. repeat f_equal; lia. }
  replace (v <=? 2047) with false by (unfold v; lia).
  destruct (N.leb_spec c 65535).
  { replace (v <=? 65535) with true by (unfold v; lia). cbn [Z.b2z Z.eqb negb map app].
    rewrite (wrapu32_small (v / 64 mod 64)) by lia. rewrite (wrapu32_small (v mod 64)) by lia.
    rewrite (lor_const (v / 4096) 7 5 224 eq_refl) by (cbn; lia). rewrite (lor_const (v / 64 mod 64) 2 6 128 eq_refl) by (cbn; lia).
    rewrite (lor_const (v mod 64) 2 6 128 eq_refl) by (cbn; lia).
    rewrite !wrapu32_small by lia. rewrite !byte_cast by lia. unfold v. repeat f_equal; lia. }
  replace (v <=? 65535) with false by (unfold v; lia). cbn [Z.b2z Z.eqb negb map app].
  rewrite (wrapu32_small (v / 4096 mod 64)) by lia. rewrite (wrapu32_small (v / 64 mod 64)) by lia. rewrite (wrapu32_small (v mod 64)) by lia.
  rewrite (lor_const (v / 262144) 15 4 240 eq_refl) by (cbn; lia). rewrite (lor_const (v / 4096 mod 64) 2 6 128 eq_refl) by (cbn; lia).
  rewrite (lor_const (v / 64 mod 64) 2 6 128 eq_refl) by (cbn; lia). rewrite (lor_const (v mod 64) 2 6 128 eq_refl) by (cbn; lia).
  rewrite !wrapu32_small by lia. rewrite !byte_cast by lia. unfold v. repeat f_equal; lia.
Qed.

Lemma unit_cast y : 0 <= y < 65536 -> wrapu 16 (wrapu 16 y) = y.
Proof. intros H. unfold wrapu. change (2 ^ 16) with 65536. lia. Qed.

Lemma link_b16_encode c : (c <= 1114111)%N -> g_b16_encode (Z.of_N c) = map Z.of_N (u16_encode c).
Proof.
  intros H. unfold g_b16_encode, u16_encode. set (v := Z.of_N c). assert (0 <= v <= 1114111) by (unfold v; lia).
  destruct (N.leb_spec c 65535).
  { replace (v <=? 65535) with true by (unfold v; lia). cbn [Z.b2z Z.eqb negb map app]. rewrite unit_cast by lia. reflexivity. }
  replace (v <=? 65535) with false by (unfold v; lia). cbn [Z.b2z Z.eqb negb map app]. cbv zeta.
  rewrite (wrapu32_small (v - 65536)) by lia.
  rewrite shr by lia. change 1023 with (Z.ones 10). rewrite Z.land_ones by lia. change (2 ^ 10) with 1024.
  rewrite (wrapu32_small ((v - 65536) / 1024)) by lia. rewrite (wrapu32_small ((v - 65536) mod 1024)) by lia.
  rewrite (Z.lor_comm 55296), (Z.lor_comm 56320).
  rewrite (lor_const ((v - 65536) / 1024) 54 10 55296 eq_refl) by (cbn; lia).
  rewrite (lor_const ((v - 65536) mod 1024) 55 10 56320 eq_refl) by (cbn; lia).
  rewrite !wrapu32_small by lia. rewrite !unit_cast by lia. unfold v. repeat f_equal; lia.
Qed.

Lemma encode_le_max_width c : (Z.of_nat (length (encode c)) <= g_b_max_width)%Z.
Proof. unfold encode, g_b_max_width. destruct (c <=? 127)%N; [cbn; lia|]. destruct (c <=? 2047)%N; [cbn; lia|]. destruct (c <=? 65535)%N; cbn; lia. Qed.
Lemma u16_encode_le_max_width c : (Z.of_nat (length (u16_encode c)) <= g_b16_max_width)%Z.
Proof. unfold u16_encode, g_b16_max_width. destruct (c <=? 65535)%N; cbn; lia. Qed.
