(* C14: the text widget as an object that lives across requests (DefsW): whatever happened to it before, after a load the
   stored count is the count of the stored value, later operations other than the value(v) setter keep it so, and
   validate() answers what the one-shot text_widget answers for the current value.  The value(v) setter and a widget that
   was never loaded break this: refuted statements with concrete witnesses (findings, replayed on the implementation). *)
From CppcmsV Require Import Base.Tac C14.Defs C14.Spec C14.Proofs C14.Proofs3 C14.Proofs4 C14.Proofs6 C14.ProofsW C14.DefsW.
Local Open Scope N_scope.

(* the stored count is what a load of the stored value computes (for the charset setting and encoding in force at that load) *)
Definition counted (st : wst) : Prop :=
  w_valid st = true -> exists cs enc, text_load cs enc (w_value st) = Some (true, w_cp st).

Lemma load_establishes_counted st named enc req st' : wload st named enc req = Some st' -> counted st'.
Proof.
  unfold wload. intros H.
  assert (E0 : forall lo hi c, counted (mk_wst [] 0 true true lo hi c)).
  { intros lo hi c _. exists false, []. reflexivity. }
  destruct (negb named); [injection H as <-; apply E0|].
  destruct req as [v|]; [|injection H as <-; apply E0].
  destruct (text_load (w_cs st) enc v) as [[ok n]|] eqn:T; [|discriminate]. injection H as <-.
  intros V. cbn in V. subst ok. exists (w_cs st), enc. exact T.
Qed.

(* the setter (after the repair): the count is the number of code points when charset validation is on and the value is
   HTML-safe UTF-8, the number of bytes otherwise; the widget is valid *)
Lemma setter_count_utf8 v cps : WF v cps -> Forall html_safe cps -> setter_count true v = N.of_nat (length cps).
Proof.
  intros W F. unfold setter_count.
  pose proof (proj2 (validate_count_iff true v 0 (0 + N.of_nat (length cps))) (ex_intro _ cps (conj W (conj (fun _ => F) eq_refl)))) as E.
  rewrite E. reflexivity.
Qed.
Lemma setter_count_other cs v : cs = false \/ validate true v = false -> setter_count cs v = N.of_nat (length v).
Proof.
  unfold setter_count, validate. intros [->|H]; [reflexivity|]. destruct cs; [|reflexivity].
  destruct (validate_count true v 0); [reflexivity|reflexivity|discriminate].
Qed.

Lemma setter_establishes_counted st v st' : wstep st (OSetValue v) = Some st' -> counted st'.
Proof.
  cbn [wstep]. intros H. injection H as <-. intros _. cbn [w_value w_cp]. unfold setter_count.
  destruct (w_cs st); [|exists false, []; reflexivity].
  destruct (validate_count true v 0) as [|n|n] eqn:E; [exists false, []; reflexivity|exists false, []; reflexivity|].
  exists true, [117;116;102;56]. unfold text_load, valid_named.
  change (lookup [117;116;102;56]) with (Some V_utf8). cbn [tester]. rewrite E. reflexivity.
Qed.

Lemma step_preserves_counted st op st' : counted st -> wstep st op = Some st' -> counted st'.
Proof.
  intros I H. destruct op; cbn [wstep] in H.
  - eapply load_establishes_counted; exact H.
  - injection H as <-. exact I.
  - eapply setter_establishes_counted. cbn [wstep]. exact H.
  - injection H as <-. exact I.
  - injection H as <-. exact I.
  - injection H as <-. unfold wvalidate.
    destruct (negb (w_valid st)); [exact I|].
    destruct (negb (w_set st) && (w_low st =? 0)%Z && (w_high st =? -1)%Z); [exact I|].
    destruct ((w_cp st <? size_t_of_int (w_low st)) || ((0 <=? w_high st)%Z && (size_t_of_int (w_high st) <? w_cp st))); [|exact I].
    intros V. discriminate V.
Qed.

(* the constructed widget: value "", count 0 *)
Lemma fresh_counted : counted w_fresh.
Proof. intros _. exists false, []. reflexivity. Qed.

(* over histories: ANY sequence of loads, clears, setters, limit / charset changes and validations, starting anywhere
   counted -- in particular from the constructed widget *)
Lemma history_counted : forall ops st st', counted st -> wrun st ops = Some st' -> counted st'.
Proof.
  induction ops as [|op ops IH]; intros st st' I H; [injection H as <-; exact I|].
  cbn [wrun] in H. destruct (wstep st op) as [st1|] eqn:S; [|discriminate].
  exact (IH st1 st' (step_preserves_counted st op st1 I S) H).
Qed.

Lemma history_from_construction_counted ops st' : wrun w_fresh ops = Some st' -> counted st'.
Proof. exact (history_counted ops w_fresh st' fresh_counted). Qed.

(* validate() answers exactly what the one-shot widget answers for the current value and the current limits *)
Lemma validate_is_text_validate st : w_valid st = true ->
  fst (wvalidate st) = text_validate (w_low st) (w_high st) (true, w_cp st).
Proof.
  intros V. unfold wvalidate, text_validate. rewrite V. cbn [negb fst snd andb].
  destruct (negb (w_set st) && (w_low st =? 0)%Z && (w_high st =? -1)%Z) eqn:E.
  - apply andb_true_iff in E. destruct E as [E E3]. apply andb_true_iff in E. destruct E as [_ E2].
    apply Z.eqb_eq in E2, E3. rewrite E2, E3. cbn [fst]. change (size_t_of_int 0) with 0. change (0 <=? -1)%Z with false.
    cbn [andb]. rewrite orb_false_r. replace (w_cp st <? 0) with false by lia. reflexivity.
  - destruct ((w_cp st <? size_t_of_int (w_low st)) || ((0 <=? w_high st)%Z && (size_t_of_int (w_high st) <? w_cp st))); reflexivity.
Qed.

Lemma validate_depends_on_current_value st cs enc : w_valid st = true ->
  text_load cs enc (w_value st) = Some (true, w_cp st) ->
  text_widget cs enc (w_value st) (w_low st) (w_high st) = Some (fst (wvalidate st)).
Proof. intros V T. unfold text_widget. rewrite T. cbn [option_map]. rewrite validate_is_text_validate by exact V. reflexivity. Qed.

Lemma validate_false_when_invalid st : w_valid st = false -> fst (wvalidate st) = false.
Proof. intros V. unfold wvalidate. rewrite V. reflexivity. Qed.

(* validate() never touches the value, the count or the set flag *)
Lemma validate_keeps_value st : w_value (snd (wvalidate st)) = w_value st /\ w_cp (snd (wvalidate st)) = w_cp st /\
                                w_set (snd (wvalidate st)) = w_set st.
Proof.
  unfold wvalidate. destruct (negb (w_valid st)); [auto|].
  destruct (negb (w_set st) && (w_low st =? 0)%Z && (w_high st =? -1)%Z); [auto|].
  destruct ((w_cp st <? size_t_of_int (w_low st)) || ((0 <=? w_high st)%Z && (size_t_of_int (w_high st) <? w_cp st))); auto.
Qed.

(* the paths of load, whatever the previous state (previous request) was *)
Lemma load_absent_resets st enc st' : wload st true enc None = Some st' ->
  w_value st' = [] /\ w_cp st' = 0 /\ w_set st' = true /\ w_valid st' = true.
Proof. cbn. intros H. injection H as <-. auto. Qed.
Lemma load_nameless_resets st enc req st' : wload st false enc req = Some st' ->
  w_value st' = [] /\ w_cp st' = 0 /\ w_set st' = true /\ w_valid st' = true.
Proof. cbn. intros H. injection H as <-. auto. Qed.
Lemma load_present_utf8 st enc v cps : w_cs st = true -> lookup enc = Some V_utf8 -> WF v cps -> Forall html_safe cps ->
  exists st', wload st true enc (Some v) = Some st' /\ w_value st' = v /\ w_cp st' = N.of_nat (length cps) /\
              w_set st' = true /\ w_valid st' = true.
Proof.
  intros C L W F. unfold wload. cbn [negb]. rewrite C, (text_load_counts_code_points enc v cps L W F).
  eexists. split; [reflexivity|]. cbn. auto.
Qed.
Lemma load_present_invalid st enc v n st' : text_load (w_cs st) enc v = Some (false, n) ->
  wload st true enc (Some v) = Some st' -> w_valid st' = false /\ fst (wvalidate st') = false.
Proof.
  intros T H. unfold wload in H. cbn [negb] in H. rewrite T in H. injection H as <-. split; reflexivity.
Qed.

(* ---------- the value(v) setter and the never-loaded widget (defective before the repair eb17578) ---------- *)
Definition utf8n : list N := [117;116;102;56].

(* validate() after a setter depends only on the value that was set and the limits: it compares setter_count with the limits,
   whatever the widget held before (count, validity of an earlier load, a failed validate()) *)
Lemma validate_after_setter st v st' : wstep st (OSetValue v) = Some st' ->
  w_value st' = v /\ w_valid st' = true /\ w_set st' = true /\ w_cp st' = setter_count (w_cs st) v /\
  fst (wvalidate st') = text_validate (w_low st) (w_high st) (true, setter_count (w_cs st) v).
Proof.
  cbn [wstep]. intros H. injection H as <-. repeat split. apply validate_is_text_validate. reflexivity.
Qed.

(* a value set by the program that is HTML-safe UTF-8 is measured in code points: validate() = the one-shot UTF-8 widget *)
Lemma validate_after_setter_utf8 st v cps st' : w_cs st = true -> WF v cps -> Forall html_safe cps ->
  wstep st (OSetValue v) = Some st' ->
  w_cp st' = N.of_nat (length cps) /\ text_widget true utf8n v (w_low st) (w_high st) = Some (fst (wvalidate st')).
Proof.
  intros C W F H. destruct (validate_after_setter st v st' H) as (Ev & Vv & _ & Ec & Ef).
  rewrite C, (setter_count_utf8 v cps W F) in Ec, Ef. split; [exact Ec|].
  unfold text_widget. rewrite (text_load_counts_code_points utf8n v cps eq_refl W F). cbn [option_map]. rewrite Ef. reflexivity.
Qed.

(* a value set by the program that is NOT valid (HTML-safe) UTF-8 -- or any value when charset validation is off -- is not
   rejected by the setter: the widget is valid and its length is measured in BYTES *)
Lemma validate_after_setter_bytes st v st' : w_cs st = false \/ validate true v = false ->
  wstep st (OSetValue v) = Some st' ->
  w_valid st' = true /\ w_cp st' = N.of_nat (length v) /\
  text_widget false utf8n v (w_low st) (w_high st) = Some (fst (wvalidate st')).
Proof.
  intros D H. destruct (validate_after_setter st v st' H) as (Ev & Vv & _ & Ec & Ef).
  rewrite (setter_count_other (w_cs st) v D) in Ec, Ef. split; [exact Vv|]. split; [exact Ec|].
  unfold text_widget, text_load. cbn [option_map]. rewrite Ef. reflexivity.
Qed.

(* a widget that was never loaded: value "", count 0, whatever the limits *)
Lemma never_loaded_validate lo hi st : wstep w_fresh (OLimits lo hi) = Some st ->
  fst (wvalidate st) = text_validate lo hi (true, 0).
Proof. cbn. intros H. injection H as <-. apply validate_is_text_validate. reflexivity. Qed.
