(* C14: the next-character function GENERATED from private/utf_iterator.h (utf8::next instantiated for char const *,
   gen.Gen_C14.g_next: rd k = the k-th byte, n = bytes available, result = (returned value, bytes consumed)) is the model's
   cppcms_next on every byte string. *)
From CppcmsV Require Import Base.Tac Base.CSem Base.CSemFacts Base.Sweep C14.Defs C14.Spec C14.Proofs C14.Proofs2 C14.Link C14.LinkE
  C14.FilterSem gen.Gen_C14.
Local Open Scope N_scope.

Definition rd_of (l : list N) (k : Z) : Z := Z.of_N (nth (Z.to_nat k) l 0).

Lemma rd_0 a r : a < 256 -> wrapu 8 (wraps 8 (rd_of (a :: r) 0)) = Z.of_N a.
Proof. intros H. unfold rd_of. change (nth (Z.to_nat 0) (a :: r) 0) with a. apply byte_cast. lia. Qed.
Lemma rd_1 a b r : b < 256 -> wrapu 8 (wraps 8 (rd_of (a :: b :: r) 1)) = Z.of_N b.
Proof. intros H. unfold rd_of. change (nth (Z.to_nat 1) (a :: b :: r) 0) with b. apply byte_cast. lia. Qed.
Lemma rd_2 a b c r : c < 256 -> wrapu 8 (wraps 8 (rd_of (a :: b :: c :: r) 2)) = Z.of_N c.
Proof. intros H. unfold rd_of. change (nth (Z.to_nat 2) (a :: b :: c :: r) 0) with c. apply byte_cast. lia. Qed.
Lemma rd_3 a b c d r : d < 256 -> wrapu 8 (wraps 8 (rd_of (a :: b :: c :: d :: r) 3)) = Z.of_N d.
Proof. intros H. unfold rd_of. change (nth (Z.to_nat 3) (a :: b :: c :: d :: r) 0) with d. apply byte_cast. lia. Qed.

Lemma acc_step c t : c < 16777216 -> t < 256 ->
  wrapu 32 (Z.lor (wrapu 32 (Z.shiftl (Z.of_N c) 6)) (wrapu 32 (Z.land (Z.of_N t) 63))) = Z.of_N (c * 64 + t mod 64).
Proof.
  intros Hc Ht. rewrite land63 by lia. rewrite (wrapu32_small (Z.of_N t mod 64)) by lia.
  rewrite (wrapu32_small (Z.shiftl (Z.of_N c) 6)) by (rewrite Z.shiftl_mul_pow2 by lia; change (2 ^ 6)%Z with 64%Z; lia).
  rewrite lor_shiftl_add by (change (2 ^ 6)%Z with 64%Z; lia). change (2 ^ 6)%Z with 64%Z.
  rewrite wrapu32_small by lia. lia.
Qed.

Lemma mask_ones a k : a < 256 -> (0 <= k <= 8)%Z -> wrapu 32 (Z.land (Z.of_N a) (Z.ones k)) = Z.of_N (a mod 2 ^ Z.to_N k).
Proof.
  intros Ha Hk. rewrite Z.land_ones by lia.
  assert (0 <= Z.of_N a mod 2 ^ k < 256)%Z.
  { pose proof (Z.mod_pos_bound (Z.of_N a) (2 ^ k) ltac:(apply Z.pow_pos_nonneg; lia)).
    pose proof (Z.mod_le (Z.of_N a) (2 ^ k) ltac:(lia) ltac:(apply Z.pow_pos_nonneg; lia)). lia. }
  rewrite wrapu32_small by lia. rewrite N2Z.inj_mod, N2Z.inj_pow, Z2N.id by lia. reflexivity.
Qed.

(* the checks after the switch *)
Lemma finish_link html ts v (k : Z) :
  (if negb (g_utf_valid (Z.of_N v)) then (g_illegal, k)
   else if negb (Z.eqb (g_width (Z.of_N v)) (ts + 1)) then (g_illegal, k)
   else if andb html (Z.ltb (Z.of_N v) 160) then (g_illegal, k) else (Z.of_N v, k)) = (code (finish html ts v), k).
Proof.
  rewrite link_utf_valid, link_width. unfold finish.
  destruct (cp_valid v); cbn [negb]; [|reflexivity].
  destruct (Z.eqb (width v) (ts + 1)); cbn [negb]; [|reflexivity].
  replace (Z.ltb (Z.of_N v) 160) with (v <? 160) by lia.
  destruct html, (v <? 160); reflexivity.
Qed.

Lemma html_ascii html a : a < 256 ->
  orb (orb (orb (orb (negb html) (andb (Z.geb (Z.of_N a) 32) (negb (Z.eqb (Z.of_N a) 127)))) (Z.eqb (Z.of_N a) 9)) (Z.eqb (Z.of_N a) 10))
      (Z.eqb (Z.of_N a) 13) = negb html || ascii_html_ok a.
Proof.
  intros H. unfold ascii_html_ok.
  replace (Z.geb (Z.of_N a) 32) with (32 <=? a) by lia. replace (Z.eqb (Z.of_N a) 127) with (a =? 127) by lia.
  replace (Z.eqb (Z.of_N a) 9) with (a =? 9) by lia. replace (Z.eqb (Z.of_N a) 10) with (a =? 10) by lia.
  replace (Z.eqb (Z.of_N a) 13) with (a =? 13) by lia.
  destruct html, (32 <=? a), (a =? 127), (a =? 9), (a =? 10), (a =? 13); reflexivity.
Qed.

Ltac lens := cbn [length]; lia.

Lemma link_next html l : bytes_ok l ->
  g_next (rd_of l) (Z.of_nat (length l)) html =
  (code (fst (cppcms_next html l)), Z.of_nat (length l - length (snd (cppcms_next html l)))).
Proof.
  intros B. destruct l as [|a r]; [reflexivity|].
  apply bytes_ok_cons in B. destruct B as [Ha Br].
  unfold g_next. cbv zeta. rewrite !rd_0 by exact Ha. rewrite (link_trail_length a Ha).
  replace (Z.eqb 0 (Z.of_nat (length (a :: r)))) with false by lens.
  unfold cppcms_next. cbn [next_gen].
  destruct (trail_length_cases a) as [[E R]|[[E R]|[[E R]|[[E R]|[E R]]]]]; rewrite E.
  - (* ASCII *)
    change (0 <? 0)%Z with false. change (0 =? 0)%Z with true. cbv iota.
    rewrite html_ascii by exact Ha. destruct (negb html || ascii_html_ok a); cbn [fst snd code]; f_equal; lens.
  - (* not a lead byte *)
    change (-1 <? 0)%Z with true. cbv iota. cbn [fst snd code]. f_equal. lens.
  - (* one trail byte *)
    change (1 <? 0)%Z with false. change (1 =? 0)%Z with false. change (1 =? 3)%Z with false. change (1 =? 2)%Z with false.
    change (1 =? 1)%Z with true. cbv iota.
    change (Z.shiftl 1 (6 - 1) - 1)%Z with (Z.ones 5). rewrite !mask_ones by lia.
    change (Z.to_nat 1) with 1%nat. change (lead_bits 1 a) with (a mod 2 ^ Z.to_N 5). cbn [read_trail].
    destruct r as [|t1 r1].
    { change (Z.eqb 1 (Z.of_nat (length [a]))) with true. cbv iota. reflexivity. }
    apply bytes_ok_cons in Br. destruct Br as [H1 Br1].
    replace (Z.eqb 1 (Z.of_nat (length (a :: t1 :: r1)))) with false by lens. cbv iota.
    rewrite !rd_1 by exact H1. rewrite (link_is_trail t1 H1).
    destruct (is_trail t1); cbn [negb]; [|cbn [fst snd code]; f_equal; lens].
    assert (a mod 2 ^ Z.to_N 5 < 32) by (change (2 ^ Z.to_N 5) with 32; lia).
    rewrite !acc_step by lia. rewrite finish_link. cbn [fst snd]. f_equal. lens.
  - (* two trail bytes *)
    change (2 <? 0)%Z with false. change (2 =? 0)%Z with false. change (2 =? 3)%Z with false. change (2 =? 2)%Z with true. cbv iota.
    change (Z.shiftl 1 (6 - 2) - 1)%Z with (Z.ones 4). rewrite !mask_ones by lia.
    change (Z.to_nat 2) with 2%nat. change (lead_bits 2 a) with (a mod 2 ^ Z.to_N 4). cbn [read_trail].
    destruct r as [|t1 r1].
    { change (Z.eqb 1 (Z.of_nat (length [a]))) with true. cbv iota. reflexivity. }
    apply bytes_ok_cons in Br. destruct Br as [H1 Br1].
    replace (Z.eqb 1 (Z.of_nat (length (a :: t1 :: r1)))) with false by lens. cbv iota.
    rewrite !rd_1 by exact H1. rewrite (link_is_trail t1 H1).
    destruct (is_trail t1); cbn [negb]; [|cbn [fst snd code]; f_equal; lens].
    cbn [read_trail]. destruct r1 as [|t2 r2].
    { change (Z.eqb 2 (Z.of_nat (length [a; t1]))) with true. cbv iota. reflexivity. }
    apply bytes_ok_cons in Br1. destruct Br1 as [H2 Br2].
    replace (Z.eqb 2 (Z.of_nat (length (a :: t1 :: t2 :: r2)))) with false by lens. cbv iota.
    rewrite !rd_2 by exact H2. rewrite (link_is_trail t2 H2).
    destruct (is_trail t2); cbn [negb]; [|cbn [fst snd code]; f_equal; lens].
    assert (a mod 2 ^ Z.to_N 4 < 16) by (change (2 ^ Z.to_N 4) with 16; lia).
    rewrite !acc_step by lia. rewrite finish_link. cbn [fst snd]. f_equal. lens.
  - (* three trail bytes *)
    change (3 <? 0)%Z with false. change (3 =? 0)%Z with false. change (3 =? 3)%Z with true. cbv iota.
    change (Z.shiftl 1 (6 - 3) - 1)%Z with (Z.ones 3). rewrite !mask_ones by lia.
    change (Z.to_nat 3) with 3%nat. change (lead_bits 3 a) with (a mod 2 ^ Z.to_N 3). cbn [read_trail].
    destruct r as [|t1 r1].
    { change (Z.eqb 1 (Z.of_nat (length [a]))) with true. cbv iota. reflexivity. }
    apply bytes_ok_cons in Br. destruct Br as [H1 Br1].
    replace (Z.eqb 1 (Z.of_nat (length (a :: t1 :: r1)))) with false by lens. cbv iota.
    rewrite !rd_1 by exact H1. rewrite (link_is_trail t1 H1).
    destruct (is_trail t1); cbn [negb]; [|cbn [fst snd code]; f_equal; lens].
    cbn [read_trail]. destruct r1 as [|t2 r2].
    { change (Z.eqb 2 (Z.of_nat (length [a; t1]))) with true. cbv iota. reflexivity. }
    apply bytes_ok_cons in Br1. destruct Br1 as [H2 Br2].
    replace (Z.eqb 2 (Z.of_nat (length (a :: t1 :: t2 :: r2)))) with false by lens. cbv iota.
    rewrite !rd_2 by exact H2. rewrite (link_is_trail t2 H2).
    destruct (is_trail t2); cbn [negb]; [|cbn [fst snd code]; f_equal; lens].
    cbn [read_trail]. destruct r2 as [|t3 r3].
    { change (Z.eqb 3 (Z.of_nat (length [a; t1; t2]))) with true. cbv iota. reflexivity. }
    apply bytes_ok_cons in Br2. destruct Br2 as [H3 Br3].
    replace (Z.eqb 3 (Z.of_nat (length (a :: t1 :: t2 :: t3 :: r3)))) with false by lens. cbv iota.
    rewrite !rd_3 by exact H3. rewrite (link_is_trail t3 H3).
    destruct (is_trail t3); cbn [negb]; [|cbn [fst snd code]; f_equal; lens].
    assert (a mod 2 ^ Z.to_N 3 < 8) by (change (2 ^ Z.to_N 3) with 8; lia).
    rewrite !acc_step by lia. rewrite finish_link. cbn [fst snd]. f_equal. lens.
Qed.

(* the property on the generated function: it returns the value c (and not utf::illegal) exactly when the input starts with
   one UTF8-char of RFC 3629 denoting c (in HTML mode: an HTML-safe one) *)
Lemma gen_next_exact html l c : bytes_ok l -> c < 4294967295 ->
  (fst (g_next (rd_of l) (Z.of_nat (length l)) html) = Z.of_N c <->
   exists e r, Seq e c /\ l = e ++ r /\ (html = true -> html_safe c)).
Proof.
  intros B Hc. rewrite (link_next html l B). cbn [fst].
  destruct (cppcms_next html l) as [d r] eqn:E. cbn [fst]. split.
  - intros H. destruct d as [| |c']; cbn [code] in H; try lia. apply N2Z.inj in H. subst c'.
    destruct (proj1 (Proofs.next_spec Illegal html l c r not_cp_Illegal) E) as (e & S & El & Hs). exists e, r. auto.
  - intros (e & r' & S & El & Hs).
    pose proof (proj2 (Proofs.next_spec Illegal html l c r' not_cp_Illegal) (ex_intro _ e (conj S (conj El Hs)))) as E'.
    unfold cppcms_next in E. rewrite E' in E. injection E as <- <-. reflexivity.
Qed.

(* ---------- the support library's decoder: utf_traits<char,1>::decode<char const *> ---------- *)
Definition codeb (r : dres) : Z :=
  match r with Cp c => Z.of_N c | Illegal => 4294967295%Z | Incomplete => 4294967294%Z end.
Lemma nz_b2z b : negb (Z.eqb (Z.b2z b) 0) = b.
Proof. destruct b; reflexivity. Qed.
Lemma finish_link_b ts v (k : Z) :
  (if negb (g_b_is_valid_codepoint (Z.of_N v)) then (g_b_illegal, k)
   else if negb (Z.eqb (g_b_width (Z.of_N v)) (ts + 1)) then (g_b_illegal, k) else (Z.of_N v, k)) = (codeb (finish false ts v), k).
Proof.
  rewrite link_b_is_valid_codepoint, link_b_width. unfold finish.
  destruct (cp_valid v); cbn [negb]; [|reflexivity].
  destruct (Z.eqb (width v) (ts + 1)); cbn [negb andb]; reflexivity.
Qed.

Lemma link_b_decode l : bytes_ok l ->
  g_b_decode (rd_of l) (Z.of_nat (length l)) =
  (codeb (fst (booster_decode l)), Z.of_nat (length l - length (snd (booster_decode l)))).
Proof.
  intros B. destruct l as [|a r]; [reflexivity|].
  apply bytes_ok_cons in B. destruct B as [Ha Br].
  unfold g_b_decode. cbv zeta. rewrite !nz_b2z. rewrite !rd_0 by exact Ha. rewrite (link_b_trail_length a Ha).
  replace (Z.eqb 0 (Z.of_nat (length (a :: r)))) with false by lens.
  unfold booster_decode. cbn [next_gen].
  destruct (trail_length_cases a) as [[E R]|[[E R]|[[E R]|[[E R]|[E R]]]]]; rewrite E.
  - (* ASCII *)
    change (0 <? 0)%Z with false. change (0 =? 0)%Z with true. cbv iota.
    cbn [negb orb fst snd codeb]. f_equal. lens.
  - (* not a lead byte *)
    change (-1 <? 0)%Z with true. cbv iota. cbn [fst snd codeb]. f_equal. lens.
  - (* one trail byte *)
    change (1 <? 0)%Z with false. change (1 =? 0)%Z with false. change (1 =? 3)%Z with false. change (1 =? 2)%Z with false.
    change (1 =? 1)%Z with true. cbv iota.
    change (Z.shiftl 1 (6 - 1) - 1)%Z with (Z.ones 5). rewrite !mask_ones by lia.
    change (Z.to_nat 1) with 1%nat. change (lead_bits 1 a) with (a mod 2 ^ Z.to_N 5). cbn [read_trail].
    destruct r as [|t1 r1].
    { change (Z.eqb 1 (Z.of_nat (length [a]))) with true. cbv iota. reflexivity. }
    apply bytes_ok_cons in Br. destruct Br as [H1 Br1].
    replace (Z.eqb 1 (Z.of_nat (length (a :: t1 :: r1)))) with false by lens. cbv iota.
    rewrite !rd_1 by exact H1. rewrite (link_b_is_trail t1 H1).
    destruct (is_trail t1); cbn [negb]; [|cbn [fst snd codeb]; f_equal; lens].
    assert (a mod 2 ^ Z.to_N 5 < 32) by (change (2 ^ Z.to_N 5) with 32; lia).
    rewrite !acc_step by lia. rewrite finish_link_b. cbn [fst snd]. f_equal. lens.
  - (* two trail bytes *)
    change (2 <? 0)%Z with false. change (2 =? 0)%Z with false. change (2 =? 3)%Z with false. change (2 =? 2)%Z with true. cbv iota.
    change (Z.shiftl 1 (6 - 2) - 1)%Z with (Z.ones 4). rewrite !mask_ones by lia.
    change (Z.to_nat 2) with 2%nat. change (lead_bits 2 a) with (a mod 2 ^ Z.to_N 4). cbn [read_trail].
    destruct r as [|t1 r1].
    { change (Z.eqb 1 (Z.of_nat (length [a]))) with true. cbv iota. reflexivity. }
    apply bytes_ok_cons in Br. destruct Br as [H1 Br1].
    replace (Z.eqb 1 (Z.of_nat (length (a :: t1 :: r1)))) with false by lens. cbv iota.
    rewrite !rd_1 by exact H1. rewrite (link_b_is_trail t1 H1).
    destruct (is_trail t1); cbn [negb]; [|cbn [fst snd codeb]; f_equal; lens].
    cbn [read_trail]. destruct r1 as [|t2 r2].
    { change (Z.eqb 2 (Z.of_nat (length [a; t1]))) with true. cbv iota. reflexivity. }
    apply bytes_ok_cons in Br1. destruct Br1 as [H2 Br2].
    replace (Z.eqb 2 (Z.of_nat (length (a :: t1 :: t2 :: r2)))) with false by lens. cbv iota.
    rewrite !rd_2 by exact H2. rewrite (link_b_is_trail t2 H2).
    destruct (is_trail t2); cbn [negb]; [|cbn [fst snd codeb]; f_equal; lens].
    assert (a mod 2 ^ Z.to_N 4 < 16) by (change (2 ^ Z.to_N 4) with 16; lia).
    rewrite !acc_step by lia. rewrite finish_link_b. cbn [fst snd]. f_equal. lens.
  - (* three trail bytes *)
    change (3 <? 0)%Z with false. change (3 =? 0)%Z with false. change (3 =? 3)%Z with true. cbv iota.
    change (Z.shiftl 1 (6 - 3) - 1)%Z with (Z.ones 3). rewrite !mask_ones by lia.
    change (Z.to_nat 3) with 3%nat. change (lead_bits 3 a) with (a mod 2 ^ Z.to_N 3). cbn [read_trail].
    destruct r as [|t1 r1].
    { change (Z.eqb 1 (Z.of_nat (length [a]))) with true. cbv iota. reflexivity. }
    apply bytes_ok_cons in Br. destruct Br as [H1 Br1].
    replace (Z.eqb 1 (Z.of_nat (length (a :: t1 :: r1)))) with false by lens. cbv iota.
    rewrite !rd_1 by exact H1. rewrite (link_b_is_trail t1 H1).
    destruct (is_trail t1); cbn [negb]; [|cbn [fst snd codeb]; f_equal; lens].
    cbn [read_trail]. destruct r1 as [|t2 r2].
    { change (Z.eqb 2 (Z.of_nat (length [a; t1]))) with true. cbv iota. reflexivity. }
    apply bytes_ok_cons in Br1. destruct Br1 as [H2 Br2].
    replace (Z.eqb 2 (Z.of_nat (length (a :: t1 :: t2 :: r2)))) with false by lens. cbv iota.
    rewrite !rd_2 by exact H2. rewrite (link_b_is_trail t2 H2).
    destruct (is_trail t2); cbn [negb]; [|cbn [fst snd codeb]; f_equal; lens].
    cbn [read_trail]. destruct r2 as [|t3 r3].
    { change (Z.eqb 3 (Z.of_nat (length [a; t1; t2]))) with true. cbv iota. reflexivity. }
    apply bytes_ok_cons in Br2. destruct Br2 as [H3 Br3].
    replace (Z.eqb 3 (Z.of_nat (length (a :: t1 :: t2 :: t3 :: r3)))) with false by lens. cbv iota.
    rewrite !rd_3 by exact H3. rewrite (link_b_is_trail t3 H3).
    destruct (is_trail t3); cbn [negb]; [|cbn [fst snd codeb]; f_equal; lens].
    assert (a mod 2 ^ Z.to_N 3 < 8) by (change (2 ^ Z.to_N 3) with 8; lia).
    rewrite !acc_step by lia. rewrite finish_link_b. cbn [fst snd]. f_equal. lens.
Qed.


(* both GENERATED decoders agree on every byte string: same value (incomplete read as illegal), same number of bytes consumed *)
Lemma gen_decoders_agree l : bytes_ok l ->
  g_next (rd_of l) (Z.of_nat (length l)) false =
  (let '(v, k) := g_b_decode (rd_of l) (Z.of_nat (length l)) in ((if Z.eqb v g_b_incomplete then g_illegal else v), k)).
Proof.
  intros B. rewrite (link_next false l B), (link_b_decode l B), (Proofs2.decoders_agree l). cbn [fst snd].
  destruct (booster_decode l) as [d r] eqn:E. cbn [fst snd]. destruct d as [| |c]; try reflexivity.
  cbn [Proofs2.collapse code codeb].
  destruct (Proofs2.encode_decode Incomplete false l c r not_cp_Incomplete E) as [_ [Hc _]].
  replace (Z.eqb (Z.of_N c) g_b_incomplete) with false by (unfold g_b_incomplete; lia). reflexivity.
Qed.
