(* C14: the validate loop GENERATED from private/utf_iterator.h (utf8::validate(p,e,count,html) instantiated for
   char const *, segments g_val_seg0 / cond1 / body1 / seg1 of gen.Gen_C14) run in source order computes exactly the
   model's validate_count: same answer, same count (as long as the count does not wrap around size_t). *)
From CppcmsV Require Import Base.Tac Base.CSem Base.CSemFacts C14.Defs C14.Spec C14.Proofs C14.Proofs2 C14.Proofs5
  C14.FilterSem C14.LinkF gen.Gen_C14.
Local Open Scope N_scope.

(* Some (returned value, count afterwards); None: out of fuel *)
Definition gen_validate (html : bool) (l : list N) (cnt : N) : option (bool * Z) :=
  let nx := nx_of l in
  let tst := fun _ _ : Z => false in
  let e := Z.of_nat (length l) in
  match g_val_seg0 nx tst e html (0%Z, Z.of_N cnt) with
  | (GReturn b, (_, c), _) => Some (b, c)
  | (_, st, _) =>
      match run_loop l (g_val_cond1 nx tst e html) (g_val_body1 nx tst e html) no_inc (S (length l)) st [] with
      | None => None
      | Some (GReturn b, (_, c), _) => Some (b, c)
      | Some (_, st, _) => match g_val_seg1 nx tst e html st with
                           | (GReturn b, (_, c), _) => Some (b, c)
                           | _ => None
                           end
      end
  end.

Definition vres_obs (r : vres) : option (bool * Z) :=
  match r with VOk n => Some (true, Z.of_N n) | VBad n => Some (false, Z.of_N n) | VFuel => None end.

Section V.
  Variables (html : bool) (l : list N).
  Let nx := nx_of l.
  Let tst := fun _ _ : Z => false.
  Let e := Z.of_nat (length l).

  Lemma val_cond_at pre s c : l = pre ++ s ->
    g_val_cond1 nx tst e html (Z.of_nat (length pre), c) = negb (match s with [] => true | _ => false end).
  Proof. intros L. unfold g_val_cond1, e. rewrite L, app_length. destruct s; cbn [length negb]; lia. Qed.

  Lemma val_body_ok pre s cnt c r : l = pre ++ s -> cppcms_next html s = (Cp c, r) -> (Z.of_N cnt + 1 < 2 ^ 64)%Z ->
    g_val_body1 nx tst e html (Z.of_nat (length pre), Z.of_N cnt) =
    (GNext, ((Z.of_nat (length pre) + Z.of_nat (length s - length r))%Z, Z.of_N (cnt + 1)), []).
  Proof.
    intros L H B. unfold g_val_body1, nx. subst l. cbv zeta. rewrite !nx_of_at, H. cbn [fst snd].
    rewrite (code_eqb _ _ _ _ H). rewrite wrapu64_small by (change (2 ^ 64)%Z with 18446744073709551616%Z in B; lia).
    repeat f_equal. lia.
  Qed.

  Lemma val_body_bad pre s cnt d r : l = pre ++ s -> cppcms_next html s = (d, r) -> not_cp d ->
    g_val_body1 nx tst e html (Z.of_nat (length pre), Z.of_N cnt) =
    (GReturn false, ((Z.of_nat (length pre) + Z.of_nat (length s - length r))%Z, Z.of_N cnt), []).
  Proof.
    intros L H ND. unfold g_val_body1, nx. subst l. cbv zeta. rewrite !nx_of_at, H. cbn [fst snd].
    rewrite (code_eqb _ _ _ _ H). destruct d as [| |x]; [reflexivity|reflexivity|exfalso; exact (ND x eq_refl)].
  Qed.

  Lemma val_loop : forall f pre s cnt, l = pre ++ s -> (length s <= f)%nat -> (Z.of_N cnt + Z.of_nat (length s) < 2 ^ 64)%Z ->
    match validate_f f html s cnt with
    | VOk n => exists p, run_loop l (g_val_cond1 nx tst e html) (g_val_body1 nx tst e html) no_inc (S f)
                           (Z.of_nat (length pre), Z.of_N cnt) [] = Some (GNext, (p, Z.of_N n), [])
    | VBad n => exists p, run_loop l (g_val_cond1 nx tst e html) (g_val_body1 nx tst e html) no_inc (S f)
                           (Z.of_nat (length pre), Z.of_N cnt) [] = Some (GReturn false, (p, Z.of_N n), [])
    | VFuel => False
    end.
  Proof.
    induction f as [|f IH]; intros pre s cnt L Len B.
    - destruct s; [|cbn in Len; lia]. cbn [validate_f]. rewrite run_loop_S, (val_cond_at pre [] _ L). cbn [negb]. eauto.
    - destruct s as [|a s'].
      + cbn [validate_f]. rewrite run_loop_S, (val_cond_at pre [] _ L). cbn [negb]. eauto.
      + cbn [validate_f]. rewrite run_loop_S, (val_cond_at pre (a :: s') _ L). cbn [negb].
        destruct (cppcms_next html (a :: s')) as [d r] eqn:H1.
        assert (Sx : exists p, s' = p ++ r) by (eapply next_suffix; exact H1). destruct Sx as [p Sp].
        destruct d as [| |c].
        * rewrite (val_body_bad pre (a :: s') cnt _ _ L H1 ltac:(intros x E; discriminate E)). cbv beta iota. eauto.
        * rewrite (val_body_bad pre (a :: s') cnt _ _ L H1 ltac:(intros x E; discriminate E)). cbv beta iota. eauto.
        * rewrite (val_body_ok pre (a :: s') cnt c r L H1) by (cbn [length] in B; lia). cbv beta iota.
          change (emits l [] []) with (@nil N). rewrite (pos_step pre a s' p r Sp).
          apply (IH (pre ++ a :: p) r (cnt + 1)).
          -- rewrite <- app_assoc. cbn. rewrite <- Sp. exact L.
          -- cbn in Len. rewrite Sp, app_length in Len. lia.
          -- cbn [length] in B. rewrite Sp, app_length in B. lia.
  Qed.

  Theorem link_validate cnt : (Z.of_N cnt + Z.of_nat (length l) < 2 ^ 64)%Z ->
    gen_validate html l cnt = vres_obs (validate_count html l cnt).
  Proof.
    intros B. unfold gen_validate, validate_count. fold nx tst e.
    unfold g_val_seg0 at 1. cbv beta iota.
    pose proof (val_loop (length l) [] l cnt eq_refl (le_n _) B) as H.
    change (Z.of_nat (length (@nil N))) with 0%Z in H.
    destruct (validate_f (length l) html l cnt) as [|n|n]; [contradiction| |]; destruct H as [p E]; rewrite E; cbn [vres_obs].
    - reflexivity.
    - unfold g_val_seg1. reflexivity.
  Qed.
End V.

(* the property on the generated loop: it returns true exactly on well-formed (HTML mode: and HTML-safe) text, and then the
   count it leaves is the incoming count plus the number of code points *)
Lemma gen_validate_spec html l cnt n : (Z.of_N cnt + Z.of_nat (length l) < 2 ^ 64)%Z ->
  (gen_validate html l cnt = Some (true, Z.of_N n) <->
   exists cps, WF l cps /\ (html = true -> Forall html_safe cps) /\ n = cnt + N.of_nat (length cps)).
Proof.
  intros B. rewrite (link_validate html l cnt B), <- validate_count_iff.
  destruct (validate_count html l cnt) as [|m|m]; cbn [vres_obs]; split; intros H; try discriminate.
  - injection H as H. apply N2Z.inj in H. congruence.
  - injection H as H. subst. reflexivity.
Qed.

(* ---------- the three-argument validate(p,e,html) (no counter) ---------- *)
Definition gen_validate3 (html : bool) (l : list N) : option bool :=
  let nx := nx_of l in
  let tst := fun _ _ : Z => false in
  let e := Z.of_nat (length l) in
  match g_val3_seg0 nx tst e html 0%Z with
  | (GReturn b, _, _) => Some b
  | (_, st, _) =>
      match run_loop l (g_val3_cond1 nx tst e html) (g_val3_body1 nx tst e html) no_inc (S (length l)) st [] with
      | None => None
      | Some (GReturn b, _, _) => Some b
      | Some (_, st, _) => match g_val3_seg1 nx tst e html st with (GReturn b, _, _) => Some b | _ => None end
      end
  end.

Section V3.
  Variables (html : bool) (l : list N).
  Let nx := nx_of l.
  Let tst := fun _ _ : Z => false.
  Let e := Z.of_nat (length l).

  Lemma val3_cond_at pre s : l = pre ++ s ->
    g_val3_cond1 nx tst e html (Z.of_nat (length pre)) = negb (match s with [] => true | _ => false end).
  Proof. intros L. unfold g_val3_cond1, e. rewrite L, app_length. destruct s; cbn [length negb]; lia. Qed.

  Lemma val3_body pre s d r : l = pre ++ s -> cppcms_next html s = (d, r) ->
    g_val3_body1 nx tst e html (Z.of_nat (length pre)) =
    ((match d with Cp _ => GNext | _ => GReturn false end), (Z.of_nat (length pre) + Z.of_nat (length s - length r))%Z, []).
  Proof.
    intros L H. unfold g_val3_body1, nx. subst l. cbv zeta. rewrite !nx_of_at, H. cbn [fst snd].
    rewrite (code_eqb _ _ _ _ H). destruct d; reflexivity.
  Qed.

  Lemma val3_loop : forall f pre s cnt, l = pre ++ s -> (length s <= f)%nat ->
    match validate_f f html s cnt with
    | VOk _ => exists p, run_loop l (g_val3_cond1 nx tst e html) (g_val3_body1 nx tst e html) no_inc (S f)
                           (Z.of_nat (length pre)) [] = Some (GNext, p, [])
    | VBad _ => exists p, run_loop l (g_val3_cond1 nx tst e html) (g_val3_body1 nx tst e html) no_inc (S f)
                           (Z.of_nat (length pre)) [] = Some (GReturn false, p, [])
    | VFuel => False
    end.
  Proof.
    induction f as [|f IH]; intros pre s cnt L Len.
    - destruct s; [|cbn in Len; lia]. cbn [validate_f]. rewrite run_loop_S, (val3_cond_at pre [] L). cbn [negb]. eauto.
    - destruct s as [|a s'].
      + cbn [validate_f]. rewrite run_loop_S, (val3_cond_at pre [] L). cbn [negb]. eauto.
      + cbn [validate_f]. rewrite run_loop_S, (val3_cond_at pre (a :: s') L). cbn [negb].
        destruct (cppcms_next html (a :: s')) as [d r] eqn:H1.
        assert (Sx : exists p, s' = p ++ r) by (eapply next_suffix; exact H1). destruct Sx as [p Sp].
        rewrite (val3_body pre (a :: s') d r L H1).
        destruct d as [| |c]; cbv beta iota; [eauto|eauto|].
        change (emits l [] []) with (@nil N). rewrite (pos_step pre a s' p r Sp).
        apply (IH (pre ++ a :: p) r (cnt + 1)).
        * rewrite <- app_assoc. cbn. rewrite <- Sp. exact L.
        * cbn in Len. rewrite Sp, app_length in Len. lia.
  Qed.

  Theorem link_validate3 : gen_validate3 html l = Some (validate html l).
  Proof.
    unfold gen_validate3, validate, validate_count. fold nx tst e.
    unfold g_val3_seg0 at 1. cbv beta iota.
    pose proof (val3_loop (length l) [] l 0 eq_refl (le_n _)) as H.
    change (Z.of_nat (length (@nil N))) with 0%Z in H.
    destruct (validate_f (length l) html l 0) as [|n|n]; [contradiction| |]; destruct H as [p E]; rewrite E.
    - reflexivity.
    - unfold g_val3_seg1. reflexivity.
  Qed.
End V3.
