(* C14 proofs, part 5: booster::locale::conv::utf_to_utf<char,char> (booster/locale/encoding_utf.h): decode with the
   support library's decoder, re-encode what decodes, skip (or stop at) what does not. *)
From CppcmsV Require Import Base.Tac C14.Defs C14.Spec C14.Proofs C14.Proofs2 C14.Proofs3 C14.Proofs4.
Local Open Scope N_scope.

Definition WFany (l : list N) : Prop := exists cps, WF l cps.

(* whatever the decoder answers, the unread input is a proper suffix *)
Lemma read_trail_suffix eof k : forall c l d r, read_trail eof k c l = (d, r) -> exists p, l = p ++ r.
Proof.
  induction k as [|k IH]; intros c l d r H; cbn [read_trail] in H.
  - inversion H; subst. exists []. reflexivity.
  - destruct l as [|t l]; [inversion H; subst; exists []; reflexivity|].
    destruct (is_trail t).
    + apply IH in H. destruct H as (p & ->). exists (t :: p). reflexivity.
    + inversion H; subst. exists [t]. reflexivity.
Qed.

Lemma next_gen_suffix eof html a l d r : next_gen eof html (a :: l) = (d, r) -> exists p, l = p ++ r.
Proof.
  cbn [next_gen].
  destruct (trail_length a <? 0)%Z; [intros H; inversion H; subst; exists []; reflexivity|].
  destruct (trail_length a =? 0)%Z; [intros H; inversion H; subst; exists []; reflexivity|].
  destruct (read_trail eof (Z.to_nat (trail_length a)) (lead_bits (trail_length a) a) l) as [d' r'] eqn:RT.
  apply read_trail_suffix in RT. destruct RT as (p & ->).
  destruct d'; intros H; inversion H; subst; exists p; reflexivity.
Qed.

(* a well-formed non-empty string starts with a sequence the decoder accepts *)
Lemma WF_head_decodes eof l cps : WF l cps -> l <> [] -> exists c r, next_gen eof false l = (Cp c, r) /\ WFany r.
Proof.
  intros W Ne. destruct W as [|e c s cps S W]; [contradiction|].
  exists c, s. split; [apply next_complete; [exact S|discriminate]|exists cps; exact W].
Qed.

Lemma WFany_tail e c r : Seq e c -> WFany (e ++ r) -> WFany r.
Proof.
  intros S (cps & W). remember (e ++ r) as l eqn:El.
  destruct W as [|e' c' s' cps' S' W'].
  - symmetry in El. apply app_eq_nil in El. destruct El as [E _]. apply Seq_nonempty in S. contradiction.
  - symmetry in El. destruct (Seq_deterministic e c r e' c' s' S S' El) as (_ & _ & ->). exists cps'. exact W'.
Qed.

Lemma utf_to_utf_f_spec fuel : forall stop l, (length l <= fuel)%nat ->
  match utf_to_utf_f fuel stop l with
  | None => False
  | Some None => stop = true /\ ~ WFany l
  | Some (Some o) => WFany o /\ subseq o l /\ (stop = true -> o = l) /\ (WFany l -> o = l)
  end.
Proof.
  induction fuel as [|f IH]; intros stop l L.
  - destruct l; [|cbn in L; lia]. cbn [utf_to_utf_f].
    split; [exists []; constructor|]. split; [constructor|]. split; reflexivity.
  - destruct l as [|b tl].
    { cbn [utf_to_utf_f]. split; [exists []; constructor|]. split; [constructor|]. split; reflexivity. }
    cbn [utf_to_utf_f]. cbn [length] in L.
    destruct (booster_decode (b :: tl)) as [d r] eqn:D.
    pose proof (next_gen_suffix _ _ _ _ _ _ D) as (p & Ep).
    assert (length r <= f)%nat as Lr by (subst tl; rewrite app_length in L; lia).
    assert ((forall c, d <> Cp c) -> ~ WFany (b :: tl)) as NotWF.
    { intros Hd (cps & W). destruct (WF_head_decodes Incomplete _ _ W ltac:(discriminate)) as (c & r' & Dc & _).
      unfold booster_decode in D. rewrite D in Dc. inversion Dc. subst d. eapply Hd. reflexivity. }
    destruct d as [| |c].
    + (* illegal *)
      destruct stop.
      * split; [reflexivity|]. apply NotWF. intros c; discriminate.
      * specialize (IH false r Lr). destruct (utf_to_utf_f f false r) as [[o|]|]; [|destruct IH; discriminate|contradiction].
        destruct IH as (Wo & So & _ & _). repeat split; [exact Wo| |discriminate|].
        -- change (b :: tl) with ([b] ++ tl). rewrite Ep, app_assoc. apply subseq_drop_prefix. exact So.
        -- intros W. exfalso. revert W. apply NotWF. intros c; discriminate.
    + (* incomplete *)
      destruct stop.
      * split; [reflexivity|]. apply NotWF. intros c; discriminate.
      * specialize (IH false r Lr). destruct (utf_to_utf_f f false r) as [[o|]|]; [|destruct IH; discriminate|contradiction].
        destruct IH as (Wo & So & _ & _). repeat split; [exact Wo| |discriminate|].
        -- change (b :: tl) with ([b] ++ tl). rewrite Ep, app_assoc. apply subseq_drop_prefix. exact So.
        -- intros W. exfalso. revert W. apply NotWF. intros c; discriminate.
    + (* a code point: re-encoded, which gives back the bytes that were read *)
      unfold booster_decode in D. apply next_sound in D; [|exact not_cp_Incomplete].
      destruct D as (e & S & El & _).
      assert (encode c = e) as Ee by (rewrite encode_is_rfc_encode; symmetry; apply Seq_is_rfc_encode; exact S).
      specialize (IH stop r Lr). destruct (utf_to_utf_f f stop r) as [[o|]|]; [| |contradiction].
      * destruct IH as ((cpo & Wo) & So & Hs & Hw). rewrite Ee, El. repeat split.
        -- exists (c :: cpo). constructor; assumption.
        -- apply subseq_app; [apply subseq_refl|exact So].
        -- intros St. rewrite (Hs St). reflexivity.
        -- intros W. rewrite (Hw (WFany_tail e c r S W)). reflexivity.
      * destruct IH as (St & Nw). split; [exact St|]. rewrite El. intros W. apply Nw. eapply WFany_tail; eauto.
Qed.

Lemma utf_to_utf_total stop l : utf_to_utf stop l <> None.
Proof.
  unfold utf_to_utf. pose proof (utf_to_utf_f_spec (length l) stop l (le_n _)) as H.
  destruct (utf_to_utf_f (length l) stop l); [discriminate|contradiction].
Qed.

(* skip mode: always answers, with well-formed text made of bytes of the input in their order;
   well-formed input comes back unchanged *)
Lemma utf_to_utf_skip l :
  exists o, utf_to_utf false l = Some (Some o) /\ validate false o = true /\ subseq o l /\ (validate false l = true -> o = l).
Proof.
  unfold utf_to_utf. pose proof (utf_to_utf_f_spec (length l) false l (le_n _)) as H.
  destruct (utf_to_utf_f (length l) false l) as [[o|]|]; [|destruct H; discriminate|contradiction].
  destruct H as ((cps & Wo) & So & _ & Hw). exists o. split; [reflexivity|].
  split; [apply validate_iff; exists cps; split; [exact Wo|discriminate]|].
  split; [exact So|]. intros V. apply Hw. apply validate_iff in V. destruct V as (cl & Wl & _). exists cl. exact Wl.
Qed.

(* stop mode: throws exactly on text that is not well-formed, otherwise the identity *)
Lemma utf_to_utf_stop l :
  (validate false l = true /\ utf_to_utf true l = Some (Some l)) \/
  (validate false l = false /\ utf_to_utf true l = Some None).
Proof.
  unfold utf_to_utf. pose proof (utf_to_utf_f_spec (length l) true l (le_n _)) as H.
  destruct (utf_to_utf_f (length l) true l) as [[o|]|]; [| |contradiction].
  - destruct H as ((cps & Wo) & _ & Hs & _). rewrite (Hs eq_refl) in *. left. split; [|reflexivity].
    apply validate_iff. exists cps. split; [exact Wo|discriminate].
  - destruct H as (_ & Nw). right. split; [|reflexivity].
    destruct (validate false l) eqn:V; [|reflexivity]. exfalso. apply Nw.
    apply validate_iff in V. destruct V as (cl & Wl & _). exists cl. exact Wl.
Qed.
