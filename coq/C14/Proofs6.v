(* C14 proofs, part 6: the form text widget (src/form.cpp base_text::load / validate): invalid text is rejected and
   the length limits count code points. *)
From CppcmsV Require Import Base.Tac C14.Defs C14.Spec C14.Proofs C14.Proofs2 C14.Proofs3 C14.Proofs4.
Local Open Scope N_scope.

Lemma size_t_of_int_small z : (0 <= z < 2 ^ 64)%Z -> size_t_of_int z = Z.to_N z.
Proof. intros H. unfold size_t_of_int. rewrite Z.mod_small by exact H. reflexivity. Qed.

(* the limit test of validate(), for limits in the range of a non-negative int (high = -1: no upper limit) *)
Lemma text_validate_spec low high ok n :
  (0 <= low < 2 ^ 31)%Z -> (-1 <= high < 2 ^ 31)%Z ->
  (text_validate low high (ok, n) = true <->
   ok = true /\ (low <= Z.of_N n)%Z /\ ((0 <= high)%Z -> (Z.of_N n <= high)%Z)).
Proof.
  intros Hl Hh. unfold text_validate. cbn [fst snd].
  rewrite (size_t_of_int_small low) by lia.
  destruct ok; cbn [andb]; [|split; [discriminate|intros [E _]; discriminate]].
  destruct (Z.leb_spec 0 high) as [H0|H0]; cbn [andb].
  - rewrite (size_t_of_int_small high) by lia. split.
    + intros H. apply negb_true_iff in H. apply orb_false_iff in H. destruct H as [H1 H2].
      split; [reflexivity|]. split; [lia|intros _; lia].
    + intros (_ & H1 & H2). specialize (H2 H0). apply negb_true_iff. apply orb_false_iff. split; lia.
  - rewrite orb_false_r. split.
    + intros H. apply negb_true_iff in H. split; [reflexivity|]. split; [lia|intros; lia].
    + intros (_ & H1 & _). apply negb_true_iff. lia.
Qed.

(* a text widget of a UTF-8 locale is valid exactly when its value is well-formed HTML-safe UTF-8 whose number of
   code points is within the limits *)
Lemma text_widget_utf8 enc value low high :
  lookup enc = Some V_utf8 -> (0 <= low < 2 ^ 31)%Z -> (-1 <= high < 2 ^ 31)%Z ->
  (text_widget true enc value low high = Some true <->
   exists cps, WF value cps /\ Forall html_safe cps /\
               (low <= Z.of_nat (length cps))%Z /\ ((0 <= high)%Z -> (Z.of_nat (length cps) <= high)%Z)).
Proof.
  intros L Hl Hh. unfold text_widget, text_load.
  destruct (valid_named_utf8 enc value 0 L) as [(cps & W & F & E)|(Nw & n & E)]; rewrite E; cbn [option_map].
  - split.
    + intros H. injection H as H'. apply (proj1 (text_validate_spec _ _ _ _ Hl Hh)) in H'.
      destruct H' as (_ & H1 & H2). exists cps. repeat split; try assumption; [lia|intros H0; specialize (H2 H0); lia].
    + intros (cps' & W' & _ & H1 & H2). rewrite (WF_unique _ _ W' _ W) in *.
      f_equal. apply (proj2 (text_validate_spec _ _ _ _ Hl Hh)). split; [reflexivity|]. split; [lia|intros H0; specialize (H2 H0); lia].
  - split.
    + unfold text_validate. cbn [fst andb]. discriminate.
    + intros (cps & W & F & _). exfalso. apply Nw. exists cps. auto.
Qed.

Lemma text_widget_single_byte enc k value low high :
  lookup enc = Some (V_sb k) -> (0 <= low < 2 ^ 31)%Z -> (-1 <= high < 2 ^ 31)%Z ->
  (text_widget true enc value low high = Some true <->
   sb_valid k value = true /\ (low <= Z.of_nat (length value))%Z /\ ((0 <= high)%Z -> (Z.of_nat (length value) <= high)%Z)).
Proof.
  intros L Hl Hh. unfold text_widget, text_load. rewrite (valid_named_sb enc k value 0 L). cbn [option_map].
  split.
  - intros H. injection H as H'. apply (proj1 (text_validate_spec _ _ _ _ Hl Hh)) in H'.
    destruct H' as (V & H1 & H2). rewrite (sb_validate_count k value 0 V) in H1, H2.
    split; [exact V|]. split; [lia|intros H0; specialize (H2 H0); lia].
  - intros (V & H1 & H2). f_equal. apply (proj2 (text_validate_spec _ _ _ _ Hl Hh)).
    rewrite (sb_validate_count k value 0 V). split; [exact V|]. split; [lia|intros H0; specialize (H2 H0); lia].
Qed.

(* without charset validation the limits count bytes *)
Lemma text_widget_no_charset enc value low high :
  (0 <= low < 2 ^ 31)%Z -> (-1 <= high < 2 ^ 31)%Z ->
  (text_widget false enc value low high = Some true <->
   (low <= Z.of_nat (length value))%Z /\ ((0 <= high)%Z -> (Z.of_nat (length value) <= high)%Z)).
Proof.
  intros Hl Hh. unfold text_widget, text_load. cbn [option_map]. split.
  - intros H. injection H as H'. apply (proj1 (text_validate_spec _ _ _ _ Hl Hh)) in H'.
    destruct H' as (_ & H1 & H2). split; [lia|intros H0; specialize (H2 H0); lia].
  - intros (H1 & H2). f_equal. apply (proj2 (text_validate_spec _ _ _ _ Hl Hh)). split; [reflexivity|]. split; [lia|intros H0; specialize (H2 H0); lia].
Qed.
