(* C14: the UTF-16 side of the support library (booster/locale/utf.h utf_traits<CharType,2>) and the conversions
   booster::locale::conv::utf_to_utf between UTF-8 and UTF-16 (booster/locale/encoding_utf.h).  Code units are N.
   Definitions only. *)
From Coq Require Import NArith ZArith List Bool.
From CppcmsV Require Import C14.Defs.
Import ListNotations.
Local Open Scope N_scope.

Definition is_first_surrogate (x : N) : bool := (55296 <=? x) && (x <=? 56319).
Definition is_second_surrogate (x : N) : bool := (56320 <=? x) && (x <=? 57343).
(* ((code_point(w1 & 0x3FF) << 10) | (w2 & 0x3FF)) + 0x10000 *)
Definition combine_surrogate (w1 w2 : N) : N := (w1 mod 1024) * 1024 + w2 mod 1024 + 65536.
Definition u16_trail_length (c : N) : Z := if is_first_surrogate c then 1%Z else if is_second_surrogate c then (-1)%Z else 0%Z.
Definition u16_width (u : N) : Z := if 65536 <=? u then 2%Z else 1%Z.

(* utf_traits<CharType,2>::decode(current,last): note that the unit after a first surrogate is consumed even when it is
   not a second surrogate *)
Definition u16_decode (l : list N) : dres * list N :=
  match l with
  | [] => (Incomplete, [])
  | w1 :: r =>
      if (w1 <? 55296) || (57343 <? w1) then (Cp w1, r)
      else if 56319 <? w1 then (Illegal, r)
      else match r with
           | [] => (Incomplete, [])
           | w2 :: r2 => if (w2 <? 56320) || (57343 <? w2) then (Illegal, r2) else (Cp (combine_surrogate w1 w2), r2)
           end
  end.
(* utf_traits<CharType,2>::encode(u,out) for a valid code point *)
Definition u16_encode (u : N) : list N :=
  if u <=? 65535 then [u] else [55296 + (u - 65536) / 1024; 56320 + (u - 65536) mod 1024].

(* utf_to_utf<CharOut,CharIn>(begin,end,how): decode with CharIn's traits, encode with CharOut's; what does not decode
   is skipped or (how = stop) makes the function throw (Some None).  None = out of fuel (never) *)
Fixpoint conv_f (dec : list N -> dres * list N) (enc : N -> list N) (fuel : nat) (stop : bool) (l : list N)
    : option (option (list N)) :=
  match l with
  | [] => Some (Some [])
  | _ :: _ =>
      match fuel with
      | O => None
      | S f =>
          match dec l with
          | (Cp c, r) => match conv_f dec enc f stop r with
                         | Some (Some o) => Some (Some (enc c ++ o))
                         | other => other
                         end
          | (_, r) => if stop then Some None else conv_f dec enc f stop r
          end
      end
  end.
Definition utf8_to_utf16 (stop : bool) (l : list N) := conv_f booster_decode u16_encode (length l) stop l.
Definition utf16_to_utf8 (stop : bool) (l : list N) := conv_f u16_decode encode (length l) stop l.
