(* C14 proofs, part 3: single-byte validators, validate_or_filter, encoding names, utf_to_utf. *)
From CppcmsV Require Import Base.Tac C14.Defs C14.Spec C14.Proofs C14.Proofs2.
Local Open Scope N_scope.

(* ---------- single-byte validators ---------- *)
Lemma sb_validate_fst k l : forall cnt, fst (sb_validate k l cnt) = sb_valid k l.
Proof.
  induction l as [|c l IH]; intros cnt; cbn [sb_validate sb_valid forallb]; [reflexivity|].
  destruct (byte_ok k c); cbn [andb fst]; [apply IH|reflexivity].
Qed.

Lemma sb_validate_count k l : forall cnt, sb_valid k l = true -> snd (sb_validate k l cnt) = cnt + N.of_nat (length l).
Proof.
  induction l as [|c l IH]; intros cnt V; cbn [sb_validate sb_valid forallb length] in *; [cbn; lia|].
  destruct (byte_ok k c); cbn [andb] in V; [|discriminate]. rewrite IH by exact V. lia.
Qed.

(* each byte is judged on its own *)
Lemma sb_context_free k a b : sb_valid k (a ++ b) = sb_valid k a && sb_valid k b.
Proof. apply forallb_app. Qed.

Lemma sb_valid_single k c : sb_valid k [c] = byte_ok k c.
Proof. cbn. apply andb_true_r. Qed.

(* ---------- validate_or_filter, UTF-8 ---------- *)
Definition WFH (l : list N) : Prop := exists cps, WF l cps /\ Forall html_safe cps.

Lemma WFH_iff l : WFH l <-> validate true l = true.
Proof.
  unfold WFH. rewrite validate_iff. split; intros (cps & W & F); exists cps; auto.
Qed.

Lemma WFH_nil : WFH [].
Proof. exists []. split; constructor. Qed.

Lemma WFH_seq e c s : Seq e c -> html_safe c -> WFH s -> WFH (e ++ s).
Proof. intros S Hc (cps & W & F). exists (c :: cps). split; constructor; assumption. Qed.

Lemma WFH_app a b : WFH a -> WFH b -> WFH (a ++ b).
Proof.
  intros (ca & Wa & Fa) (cb & Wb & Fb). exists (ca ++ cb). split; [apply WF_app; assumption|apply Forall_app; auto].
Qed.

Lemma consumed_app e r : consumed (e ++ r) r = e.
Proof.
  unfold consumed. rewrite app_length, Nat.add_sub, firstn_app, Nat.sub_diag, firstn_all. cbn. apply app_nil_r.
Qed.

(* the replacement characters for which the property is claimed: none, or an HTML-safe ASCII character *)
Definition repl_ok (repl : N) : Prop := repl = 0 \/ (repl <= 127 /\ html_safe repl).

Lemma rp_WFH repl : repl_ok repl -> WFH (rp repl).
Proof.
  intros [-> | [A Hs]]; unfold rp.
  - cbn. apply WFH_nil.
  - destruct (repl =? 0); [apply WFH_nil|].
    change [repl] with ([repl] ++ []). apply (WFH_seq [repl] repl []); [apply Seq1; exact A|exact Hs|apply WFH_nil].
Qed.

Lemma next_true_sound l c r :
  cppcms_next true l = (Cp c, r) -> exists e, Seq e c /\ l = e ++ r /\ html_safe c.
Proof.
  intros H. apply next_sound in H; [|exact not_cp_Illegal]. destruct H as (e & S & E & Hh). exists e. auto.
Qed.

Lemma filter2_f_valid fuel : forall repl l o, repl_ok repl -> filter2_f fuel repl l = Some o -> WFH o.
Proof.
  induction fuel as [|f IH]; intros repl l o R H.
  - destruct l; cbn [filter2_f] in H; [|discriminate]. inversion H. apply WFH_nil.
  - destruct l as [|b tl]; cbn [filter2_f] in H; [inversion H; apply WFH_nil|].
    destruct (cppcms_next true (b :: tl)) as [d r] eqn:N1.
    destruct d as [| |c].
    + destruct (cppcms_next false (b :: tl)) as [d2 r2] eqn:N2.
      destruct d2 as [| |c2];
        (match type of H with option_map _ ?x = _ => destruct x as [o'|] eqn:Ho end; [|discriminate];
         inversion H; subst; apply WFH_app; [apply rp_WFH; exact R|eapply IH; eauto]).
    + destruct (cppcms_next false (b :: tl)) as [d2 r2] eqn:N2.
      destruct d2 as [| |c2];
        (match type of H with option_map _ ?x = _ => destruct x as [o'|] eqn:Ho end; [|discriminate];
         inversion H; subst; apply WFH_app; [apply rp_WFH; exact R|eapply IH; eauto]).
    + destruct (filter2_f f repl r) as [o'|] eqn:Ho; [|discriminate]. inversion H; subst.
      apply next_true_sound in N1. destruct N1 as (e & S & E & Hs). rewrite E, consumed_app.
      apply (WFH_seq e c o' S Hs). eapply IH; eauto.
Qed.

Lemma filter2_f_fuel fuel : forall repl l, (length l <= fuel)%nat -> filter2_f fuel repl l <> None.
Proof.
  induction fuel as [|f IH]; intros repl l L.
  - destruct l; [cbn; discriminate|cbn in L; lia].
  - destruct l as [|b tl]; [cbn; discriminate|]. cbn [filter2_f]. cbn [length] in L.
    destruct (cppcms_next true (b :: tl)) as [d r] eqn:N1.
    assert (forall r' g, (length r' <= f)%nat -> option_map (app g) (filter2_f f repl r') <> None) as K.
    { intros r' g Lr. specialize (IH repl r' Lr). destruct (filter2_f f repl r'); [discriminate|contradiction]. }
    destruct d as [| |c].
    + destruct (cppcms_next false (b :: tl)) as [d2 r2] eqn:N2.
      destruct d2 as [| |c2]; apply K; try lia.
      apply next_consumes in N2; [|exact not_cp_Illegal]. cbn [length] in N2. lia.
    + destruct (cppcms_next false (b :: tl)) as [d2 r2] eqn:N2.
      destruct d2 as [| |c2]; apply K; try lia.
      apply next_consumes in N2; [|exact not_cp_Illegal]. cbn [length] in N2. lia.
    + apply K. apply next_consumes in N1; [|exact not_cp_Illegal]. cbn [length] in N1. lia.
Qed.

(* the second loop copies valid text unchanged *)
Lemma filter2_f_id repl l cps :
  WF l cps -> Forall html_safe cps -> forall fuel, (length l <= fuel)%nat -> filter2_f fuel repl l = Some l.
Proof.
  intros W. induction W as [|e c s cps S W IH]; intros F fuel L.
  - destruct fuel; reflexivity.
  - inversion F as [|? ? Hc F']; subst.
    pose proof (Seq_length e c S) as Le. rewrite app_length in L.
    destruct fuel as [|f]; [lia|].
    assert (exists b t, e ++ s = b :: t) as (b & t & Eb).
    { destruct e as [|b e]; [cbn in Le; lia|]. exists b, (e ++ s). reflexivity. }
    rewrite Eb. cbn [filter2_f]. rewrite <- Eb.
    unfold cppcms_next. rewrite (next_complete Illegal true e c s S (fun _ => Hc)).
    rewrite consumed_app. rewrite IH; [reflexivity|exact F'|lia].
Qed.

(* the first loop: splits the input at the first character that is not accepted *)
Lemma scan_f_spec fuel : forall l, (length l <= fuel)%nat ->
  exists g q, scan_f fuel l = Some (g, q) /\ l = g ++ q /\ WFH g /\
              (q = [] \/ (exists b t, q = b :: t) /\ forall c r, cppcms_next true q <> (Cp c, r)).
Proof.
  induction fuel as [|f IH]; intros l L.
  - destruct l; [|cbn in L; lia]. exists [], []. cbn. repeat split; [apply WFH_nil|left; reflexivity].
  - destruct l as [|b tl].
    { exists [], []. cbn. repeat split; [apply WFH_nil|left; reflexivity]. }
    cbn [scan_f]. destruct (cppcms_next true (b :: tl)) as [d r] eqn:N1.
    destruct d as [| |c].
    + exists [], (b :: tl). repeat split; [apply WFH_nil|]. right. split; [eauto|]. intros c r'. rewrite N1. discriminate.
    + exists [], (b :: tl). repeat split; [apply WFH_nil|]. right. split; [eauto|]. intros c r'. rewrite N1. discriminate.
    + pose proof (next_consumes _ _ _ _ _ not_cp_Illegal N1) as Lr. cbn [length] in L, Lr.
      destruct (IH r ltac:(lia)) as (g & q & Sc & E & Wg & Q). rewrite Sc.
      apply next_true_sound in N1. destruct N1 as (e & S & El & Hs).
      exists (consumed (b :: tl) r ++ g), q. rewrite El, consumed_app.
      repeat split; [rewrite E, app_assoc; reflexivity|apply (WFH_seq e c g S Hs Wg)|exact Q].
Qed.

(* cancellation: a valid prefix can be removed from a valid string *)
Lemma WF_cancel g cg : WF g cg -> forall q cps, WF (g ++ q) cps -> exists cq, WF q cq /\ cps = cg ++ cq.
Proof.
  intros Wg. induction Wg as [|e c s cg S Wg IH]; intros q cps W.
  - exists cps. split; [exact W|reflexivity].
  - rewrite <- app_assoc in W. remember (e ++ s ++ q) as l eqn:El.
    destruct W as [|e' c' s' cps' S' W'].
    + symmetry in El. apply app_eq_nil in El. destruct El as [E _]. apply Seq_nonempty in S. contradiction.
    + symmetry in El. destruct (Seq_deterministic e c (s ++ q) e' c' s' S S' El) as (-> & -> & <-).
      destruct (IH q cps' W') as (cq & Wq & ->). exists cq. split; [exact Wq|reflexivity].
Qed.

Lemma scan_rest_invalid g q :
  WFH g -> (exists b t, q = b :: t) -> (forall c r, cppcms_next true q <> (Cp c, r)) -> ~ WFH (g ++ q).
Proof.
  intros (cg & Wg & Fg) (b & t & Eq) Bad (cps & W & F).
  destruct (WF_cancel g cg Wg q cps W) as (cq & Wq & ->).
  apply Forall_app in F. destruct F as [_ Fq].
  destruct Wq as [|e c s cq S Wq]; [discriminate|].
  inversion Fq; subst. eapply Bad. unfold cppcms_next. apply next_complete; [exact S|auto].
Qed.

Lemma vof_utf8_cases repl l :
  (vof_utf8 repl l = FValid /\ validate true l = true) \/
  (exists o, vof_utf8 repl l = FFiltered o /\ validate true l = false /\ (repl_ok repl -> validate true o = true)).
Proof.
  unfold vof_utf8.
  destruct (scan_f_spec (length l) l (le_n _)) as (g & q & Sc & E & Wg & Q). rewrite Sc.
  destruct Q as [-> | [Ne Bad]].
  - left. split; [reflexivity|]. rewrite app_nil_r in E. subst g. apply WFH_iff. exact Wg.
  - right. destruct Ne as (b & t & ->).
    destruct (filter2_f (length (b :: t)) repl (b :: t)) as [o|] eqn:F2.
    2:{ exfalso. eapply filter2_f_fuel; [|exact F2]. lia. }
    exists (g ++ o). split; [reflexivity|]. split.
    + destruct (validate true l) eqn:V; [|reflexivity]. exfalso.
      apply WFH_iff in V. rewrite E in V.
      exact (scan_rest_invalid g (b :: t) Wg (ex_intro _ b (ex_intro _ t eq_refl)) Bad V).
    + intros R. apply WFH_iff. apply WFH_app; [exact Wg|]. eapply filter2_f_valid; eauto.
Qed.

(* ---------- validate_or_filter, single-byte ---------- *)
Definition sb_repl_ok (k : sbkind) (repl : N) : Prop := repl = 0 \/ byte_ok k repl = true.

Lemma vof_sb_cases k repl l :
  (vof_sb (V_sb k) repl l = FValid /\ sb_valid k l = true) \/
  (exists o, vof_sb (V_sb k) repl l = FFiltered o /\ sb_valid k l = false /\
             o = flat_map (fun c => if byte_ok k c then [c] else rp repl) l /\
             (sb_repl_ok k repl -> sb_valid k o = true)).
Proof.
  unfold vof_sb. change (tester (V_sb k) l 0) with (Some (sb_validate k l 0)).
  pose proof (sb_validate_fst k l 0) as F. destruct (sb_validate k l 0) as [ok n]. cbn [fst] in F. subst ok.
  destruct (sb_valid k l) eqn:V; [left; auto|right].
  eexists. split; [reflexivity|]. split; [reflexivity|].
  assert (forall l', flat_map (fun c => match tester (V_sb k) [c] 0 with Some (true, _) => [c] | _ => rp repl end) l'
          = flat_map (fun c => if byte_ok k c then [c] else rp repl) l') as Eq.
  { intros l'. apply flat_map_ext. intros c. cbn [tester sb_validate]. destruct (byte_ok k c); reflexivity. }
  split; [apply Eq|]. rewrite Eq.
  intros R. clear V Eq. induction l as [|c l IH]; [reflexivity|].
  cbn [flat_map]. rewrite sb_context_free, IH, andb_true_r.
  destruct (byte_ok k c) eqn:B; [cbn; rewrite B; reflexivity|].
  unfold rp. destruct (N.eqb_spec repl 0); [reflexivity|]. destruct R as [R|R]; [contradiction|]. cbn. rewrite R. reflexivity.
Qed.
