(* C14: the filter functions assembled from the segments GENERATED from src/encoding.cpp (FilterSem.gen_vof_utf8,
   gen_vof_sb over the g_vof definitions of gen.Gen_C14) compute exactly what the hand model (Defs.vof_utf8, vof_sb) computes, for every
   input, every replacement byte, every previous content of the output string and every initial value of the locals. *)
From CppcmsV Require Import Base.Tac Base.CSem Base.CSemFacts Base.Sweep C14.Defs C14.Spec C14.Proofs C14.Proofs2 C14.Proofs3
  C14.Proofs5 C14.FilterSem gen.Gen_C14.
Local Open Scope N_scope.

(* ---------- lists and positions ---------- *)
Lemma skipn_len_app {A} (pre s : list A) : skipn (length pre) (pre ++ s) = s.
Proof. induction pre; cbn; auto. Qed.
Lemma firstn_len_app {A} (e r : list A) : firstn (length e) (e ++ r) = e.
Proof. induction e; cbn; congruence. Qed.

Lemma sub_at l pre s n : l = pre ++ s -> sub l (Z.of_nat (length pre)) (Z.of_nat (length pre) + Z.of_nat n) = firstn n s.
Proof.
  intros ->. unfold sub. rewrite Nat2Z.id, skipn_len_app.
  replace (Z.to_nat (Z.of_nat (length pre) + Z.of_nat n - Z.of_nat (length pre))) with n by lia. reflexivity.
Qed.

Lemma sub_prefix l g q : l = g ++ q -> sub l 0 (Z.of_nat (length g)) = g.
Proof. intros ->. unfold sub. cbn [Z.to_nat skipn]. rewrite Z.sub_0_r, Nat2Z.id. apply firstn_len_app. Qed.

Lemma next_suffix html a s d r : cppcms_next html (a :: s) = (d, r) -> exists p, s = p ++ r.
Proof. apply next_gen_suffix. Qed.

Lemma nx_of_at pre s html :
  nx_of (pre ++ s) html (Z.of_nat (length pre)) =
  (code (fst (cppcms_next html s)), (Z.of_nat (length pre) + Z.of_nat (length s - length (snd (cppcms_next html s))))%Z).
Proof. unfold nx_of. rewrite Nat2Z.id, skipn_len_app. destruct (cppcms_next html s). reflexivity. Qed.

Lemma code_eqb html s d r : cppcms_next html s = (d, r) ->
  Z.eqb (code d) g_illegal = match d with Cp _ => false | _ => true end.
Proof.
  intros H. destruct d as [| |c]; try reflexivity.
  destruct (encode_decode Illegal html s c r not_cp_Illegal H) as [_ [B _]].
  unfold code, g_illegal. apply Z.eqb_neq. lia.
Qed.

(* ---------- the replacement character ---------- *)
Lemma repl_zero repl : repl < 256 -> Z.eqb (wraps 8 (Z.of_N repl)) 0 = (repl =? 0).
Proof.
  intros H. apply eqb_prop.
  apply (sweep256 (fun b => eqb (Z.eqb (wraps 8 (Z.of_N b)) 0) (b =? 0))); [vm_compute; reflexivity|exact H].
Qed.
Lemma repl_byte repl : repl < 256 -> Z.to_N (wrapu 8 (wraps 8 (Z.of_N repl))) = repl.
Proof.
  intros H. apply N.eqb_eq.
  apply (sweep256 (fun b => Z.to_N (wrapu 8 (wraps 8 (Z.of_N b))) =? b)); [vm_compute; reflexivity|exact H].
Qed.
Lemma emits_repl l out repl : repl < 256 ->
  emits l out (if negb (repl =? 0) then [GByte (wrapu 8 (wraps 8 (Z.of_N repl)))] else []) = out ++ rp repl.
Proof.
  intros H. unfold rp. destruct (repl =? 0); cbn; [now rewrite app_nil_r|]. now rewrite repl_byte.
Qed.

Lemma pos_step (pre : list N) (a : N) (s p r : list N) : s = p ++ r ->
  (Z.of_nat (length pre) + Z.of_nat (length (a :: s) - length r))%Z = Z.of_nat (length (pre ++ a :: p)).
Proof. intros ->. rewrite !app_length. cbn [length]. rewrite app_length. lia. Qed.

Lemma run_loop_S {St} (l : list N) (cond : St -> bool) body f st out :
  run_loop l cond body no_inc (S f) st out =
  if cond st then
    match body st with
    | (GNext, st1, es) => run_loop l cond body no_inc f st1 (emits l out es)
    | (c, st1, es) => Some (c, st1, emits l out es)
    end
  else Some (GNext, st, out).
Proof. cbn [run_loop]. destruct (cond st); [|reflexivity]. destruct (body st) as [[c st1] es]. destruct c; reflexivity. Qed.
Lemma run_loop_mono {St} (l : list N) (cond : St -> bool) body inc : forall f st out x,
  run_loop l cond body inc f st out = Some x -> forall f', (f <= f')%nat -> run_loop l cond body inc f' st out = Some x.
Proof.
  induction f as [|f IH]; intros st out x H f' Le; [discriminate|].
  destruct f'; [lia|]. cbn [run_loop] in *. destruct (cond st); [|exact H].
  destruct (body st) as [[c st1] es]. destruct c; try exact H.
  destruct (inc st1) as [[c2 st2] es2]. apply IH; [exact H|lia].
Qed.
Lemma emits_range l out a b : emits l out [GRange a b] = out ++ sub l a b.
Proof. reflexivity. Qed.

Section U8.
  Variables (repl : N) (l : list N).
  Hypothesis R : repl < 256.
  Let nx := nx_of l.
  Let tst := fun _ _ : Z => false.
  Let e := Z.of_nat (length l).
  Let rpz := wraps 8 (Z.of_N repl).

  (* ---- one iteration of the second loop: the three cases ---- *)
  Lemma body2_copy pre s valid prev c r : l = pre ++ s -> cppcms_next true s = (Cp c, r) ->
    g_vof_u8_body2 nx tst 0 e rpz (valid, Z.of_nat (length pre), prev) =
    (GNext, (valid, (Z.of_nat (length pre) + Z.of_nat (length s - length r))%Z, Z.of_nat (length pre)),
     [GRange (Z.of_nat (length pre)) (Z.of_nat (length pre) + Z.of_nat (length s - length r))%Z]).
  Proof.
    intros L H. unfold g_vof_u8_body2, nx. subst l. cbv zeta. rewrite !nx_of_at, H. cbn [fst snd].
    rewrite (code_eqb _ _ _ _ H). reflexivity.
  Qed.

  Lemma body2_unsafe pre s valid prev d r0 c r : l = pre ++ s -> cppcms_next true s = (d, r0) -> not_cp d ->
    cppcms_next false s = (Cp c, r) ->
    g_vof_u8_body2 nx tst 0 e rpz (valid, Z.of_nat (length pre), prev) =
    (GNext, (valid, (Z.of_nat (length pre) + Z.of_nat (length s - length r))%Z, Z.of_nat (length pre)),
     if negb (repl =? 0) then [GByte (wrapu 8 rpz)] else []).
  Proof.
    intros L H ND H2. unfold g_vof_u8_body2, nx. subst l. cbv zeta. rewrite !nx_of_at, H, H2. cbn [fst snd].
    rewrite (code_eqb _ _ _ _ H), (code_eqb _ _ _ _ H2).
    destruct d as [| |x]; [| |exfalso; exact (ND x eq_refl)]; cbn [negb]; unfold rpz; rewrite repl_zero by exact R;
      destruct (repl =? 0); reflexivity.
  Qed.

  Lemma body2_bad pre s valid prev d r0 d2 r2 : l = pre ++ s -> cppcms_next true s = (d, r0) -> not_cp d ->
    cppcms_next false s = (d2, r2) -> not_cp d2 ->
    g_vof_u8_body2 nx tst 0 e rpz (valid, Z.of_nat (length pre), prev) =
    (GNext, (valid, (Z.of_nat (length pre) + 1)%Z, Z.of_nat (length pre)),
     if negb (repl =? 0) then [GByte (wrapu 8 rpz)] else []).
  Proof.
    intros L H ND H2 ND2. unfold g_vof_u8_body2, nx. subst l. cbv zeta. rewrite !nx_of_at, H, H2. cbn [fst snd].
    rewrite (code_eqb _ _ _ _ H), (code_eqb _ _ _ _ H2).
    destruct d as [| |x]; [| |exfalso; exact (ND x eq_refl)]; (destruct d2 as [| |y]; [| |exfalso; exact (ND2 y eq_refl)]);
      cbn [negb]; unfold rpz; rewrite repl_zero by exact R; destruct (repl =? 0); reflexivity.
  Qed.

  Lemma cond_at pre s valid prev : l = pre ++ s ->
    g_vof_u8_cond2 nx tst 0 e rpz (valid, Z.of_nat (length pre), prev) = negb (match s with [] => true | _ => false end) /\
    g_vof_u8_cond1 nx tst 0 e rpz (valid, Z.of_nat (length pre), prev) = negb (match s with [] => true | _ => false end).
  Proof.
    intros L. unfold g_vof_u8_cond2, g_vof_u8_cond1, e. subst l. rewrite app_length.
    destruct s; cbn [length negb]; split; lia.
  Qed.

  Lemma not_cp_of d : match d with Cp _ => False | _ => True end -> not_cp d.
  Proof. intros H x E. subst d. exact H. Qed.

  (* ---- the second loop = filter2_f ---- *)
  Lemma loop2 : forall f pre s out valid prev o,
    l = pre ++ s -> (length s <= f)%nat -> filter2_f f repl s = Some o ->
    exists st', run_loop l (g_vof_u8_cond2 nx tst 0 e rpz) (g_vof_u8_body2 nx tst 0 e rpz) no_inc (S f)
                  (valid, Z.of_nat (length pre), prev) out = Some (GNext, st', out ++ o).
  Proof.
    induction f as [|f IH]; intros pre s out valid prev o L Len F.
    - destruct s; [|cbn in Len; lia]. cbn in F. injection F as <-.
      rewrite run_loop_S. rewrite (proj1 (cond_at pre [] valid prev L)). cbn. rewrite app_nil_r. eauto.
    - destruct s as [|a s'].
      + cbn in F. injection F as <-. rewrite run_loop_S. rewrite (proj1 (cond_at pre [] valid prev L)). cbn. rewrite app_nil_r. eauto.
      + rewrite run_loop_S. rewrite (proj1 (cond_at pre (a :: s') valid prev L)). cbn [negb].
        cbn [filter2_f] in F.
        destruct (cppcms_next true (a :: s')) as [d r] eqn:H1.
        assert (Sx : exists p, s' = p ++ r) by (eapply next_suffix; exact H1). destruct Sx as [p Sp].
        destruct d as [| |c].
        * (* not even a character in HTML mode *)
          destruct (cppcms_next false (a :: s')) as [d2 r2] eqn:H2.
          assert (Sx2 : exists p2, s' = p2 ++ r2) by (eapply next_suffix; exact H2). destruct Sx2 as [p2 Sp2].
          destruct d2 as [| |c2].
          -- rewrite (body2_bad pre (a :: s') valid prev _ _ _ _ L H1 ltac:(intros x E; discriminate E) H2 ltac:(intros x E; discriminate E)).
             cbv beta iota. destruct (filter2_f f repl s') as [o'|] eqn:F'; cbn in F; [|discriminate]. injection F as <-.
             rewrite emits_repl by exact R.
             replace (Z.of_nat (length pre) + 1)%Z with (Z.of_nat (length (pre ++ [a]))) by (rewrite app_length; cbn; lia).
             destruct (IH (pre ++ [a]) s' (out ++ rp repl) valid (Z.of_nat (length pre)) o') as [st' E];
               [rewrite <- app_assoc; exact L|cbn in Len; lia|exact F'|].
             rewrite E, <- app_assoc. eauto.
          -- rewrite (body2_bad pre (a :: s') valid prev _ _ _ _ L H1 ltac:(intros x E; discriminate E) H2 ltac:(intros x E; discriminate E)).
             cbv beta iota. destruct (filter2_f f repl s') as [o'|] eqn:F'; cbn in F; [|discriminate]. injection F as <-.
             rewrite emits_repl by exact R.
             replace (Z.of_nat (length pre) + 1)%Z with (Z.of_nat (length (pre ++ [a]))) by (rewrite app_length; cbn; lia).
             destruct (IH (pre ++ [a]) s' (out ++ rp repl) valid (Z.of_nat (length pre)) o') as [st' E];
               [rewrite <- app_assoc; exact L|cbn in Len; lia|exact F'|].
             rewrite E, <- app_assoc. eauto.
          -- rewrite (body2_unsafe pre (a :: s') valid prev _ _ _ _ L H1 ltac:(intros x E; discriminate E) H2).
             cbv beta iota. destruct (filter2_f f repl r2) as [o'|] eqn:F'; cbn in F; [|discriminate]. injection F as <-.
             rewrite emits_repl by exact R.
             rewrite (pos_step pre a s' p2 r2 Sp2).
             destruct (IH (pre ++ a :: p2) r2 (out ++ rp repl) valid (Z.of_nat (length pre)) o') as [st' E];
               [rewrite <- app_assoc; cbn; rewrite <- Sp2; exact L|cbn in Len; rewrite Sp2, app_length in Len; lia|exact F'|].
             rewrite E, <- app_assoc. eauto.
        * (* Incomplete never comes out of the framework decoder, the generated code treats it like illegal anyway *)
          destruct (cppcms_next false (a :: s')) as [d2 r2] eqn:H2.
          assert (Sx2 : exists p2, s' = p2 ++ r2) by (eapply next_suffix; exact H2). destruct Sx2 as [p2 Sp2].
          destruct d2 as [| |c2].
          -- rewrite (body2_bad pre (a :: s') valid prev _ _ _ _ L H1 ltac:(intros x E; discriminate E) H2 ltac:(intros x E; discriminate E)).
             cbv beta iota. destruct (filter2_f f repl s') as [o'|] eqn:F'; cbn in F; [|discriminate]. injection F as <-.
             rewrite emits_repl by exact R.
             replace (Z.of_nat (length pre) + 1)%Z with (Z.of_nat (length (pre ++ [a]))) by (rewrite app_length; cbn; lia).
             destruct (IH (pre ++ [a]) s' (out ++ rp repl) valid (Z.of_nat (length pre)) o') as [st' E];
               [rewrite <- app_assoc; exact L|cbn in Len; lia|exact F'|].
             rewrite E, <- app_assoc. eauto.
          -- rewrite (body2_bad pre (a :: s') valid prev _ _ _ _ L H1 ltac:(intros x E; discriminate E) H2 ltac:(intros x E; discriminate E)).
             cbv beta iota. destruct (filter2_f f repl s') as [o'|] eqn:F'; cbn in F; [|discriminate]. injection F as <-.
             rewrite emits_repl by exact R.
             replace (Z.of_nat (length pre) + 1)%Z with (Z.of_nat (length (pre ++ [a]))) by (rewrite app_length; cbn; lia).
             destruct (IH (pre ++ [a]) s' (out ++ rp repl) valid (Z.of_nat (length pre)) o') as [st' E];
               [rewrite <- app_assoc; exact L|cbn in Len; lia|exact F'|].
             rewrite E, <- app_assoc. eauto.
          -- rewrite (body2_unsafe pre (a :: s') valid prev _ _ _ _ L H1 ltac:(intros x E; discriminate E) H2).
             cbv beta iota. destruct (filter2_f f repl r2) as [o'|] eqn:F'; cbn in F; [|discriminate]. injection F as <-.
             rewrite emits_repl by exact R.
             rewrite (pos_step pre a s' p2 r2 Sp2).
             destruct (IH (pre ++ a :: p2) r2 (out ++ rp repl) valid (Z.of_nat (length pre)) o') as [st' E];
               [rewrite <- app_assoc; cbn; rewrite <- Sp2; exact L|cbn in Len; rewrite Sp2, app_length in Len; lia|exact F'|].
             rewrite E, <- app_assoc. eauto.
        * (* an HTML-safe character: copied *)
          rewrite (body2_copy pre (a :: s') valid prev c r L H1).
          cbv beta iota. destruct (filter2_f f repl r) as [o'|] eqn:F'; cbn in F; [|discriminate]. injection F as <-.
          rewrite emits_range, (sub_at l pre (a :: s') _ L).
          rewrite (pos_step pre a s' p r Sp).
          destruct (IH (pre ++ a :: p) r (out ++ firstn (length (a :: s') - length r) (a :: s')) valid (Z.of_nat (length pre)) o')
            as [st' E]; [rewrite <- app_assoc; cbn; rewrite <- Sp; exact L|cbn in Len; rewrite Sp, app_length in Len; lia|exact F'|].
          rewrite E. unfold consumed. rewrite <- app_assoc. eauto.
  Qed.

  (* ---- one iteration of the first loop ---- *)
  Lemma body1_ok pre s valid prev c r : l = pre ++ s -> cppcms_next true s = (Cp c, r) ->
    g_vof_u8_body1 nx tst 0 e rpz (valid, Z.of_nat (length pre), prev) =
    (GNext, (valid, (Z.of_nat (length pre) + Z.of_nat (length s - length r))%Z, Z.of_nat (length pre)), []).
  Proof.
    intros L H. unfold g_vof_u8_body1, nx. subst l. cbv zeta. rewrite !nx_of_at, H. cbn [fst snd].
    rewrite (code_eqb _ _ _ _ H). reflexivity.
  Qed.
  Lemma body1_bad pre s valid prev d r : l = pre ++ s -> cppcms_next true s = (d, r) -> not_cp d ->
    g_vof_u8_body1 nx tst 0 e rpz (valid, Z.of_nat (length pre), prev) =
    (GBreak, (false, (Z.of_nat (length pre) + Z.of_nat (length s - length r))%Z, Z.of_nat (length pre)), []).
  Proof.
    intros L H ND. unfold g_vof_u8_body1, nx. subst l. cbv zeta. rewrite !nx_of_at, H. cbn [fst snd].
    rewrite (code_eqb _ _ _ _ H). destruct d as [| |x]; [reflexivity|reflexivity|exfalso; exact (ND x eq_refl)].
  Qed.

  (* ---- the first loop = scan_f ---- *)
  Lemma loop1 : forall f pre s out valid prev g q,
    l = pre ++ s -> (length s <= f)%nat -> scan_f f s = Some (g, q) ->
    s = g ++ q /\
    ((q = [] /\ exists prev', run_loop l (g_vof_u8_cond1 nx tst 0 e rpz) (g_vof_u8_body1 nx tst 0 e rpz) no_inc (S f)
                   (valid, Z.of_nat (length pre), prev) out = Some (GNext, (valid, Z.of_nat (length l), prev'), out)) \/
     (q <> [] /\ exists ptr', run_loop l (g_vof_u8_cond1 nx tst 0 e rpz) (g_vof_u8_body1 nx tst 0 e rpz) no_inc (S f)
                   (valid, Z.of_nat (length pre), prev) out = Some (GBreak, (false, ptr', Z.of_nat (length (pre ++ g))), out))).
  Proof.
    induction f as [|f IH]; intros pre s out valid prev g q L Len F.
    - destruct s; [|cbn in Len; lia]. cbn in F. injection F as <- <-. split; [reflexivity|]. left. split; [reflexivity|].
      rewrite run_loop_S, (proj2 (cond_at pre [] valid prev L)). cbn [negb]. exists prev.
      replace (Z.of_nat (length l)) with (Z.of_nat (length pre)) by (rewrite L, app_nil_r; reflexivity). reflexivity.
    - destruct s as [|a s'].
      + cbn in F. injection F as <- <-. split; [reflexivity|]. left. split; [reflexivity|].
        rewrite run_loop_S, (proj2 (cond_at pre [] valid prev L)). cbn [negb]. exists prev.
        replace (Z.of_nat (length l)) with (Z.of_nat (length pre)) by (rewrite L, app_nil_r; reflexivity). reflexivity.
      + rewrite run_loop_S, (proj2 (cond_at pre (a :: s') valid prev L)). cbn [negb].
        cbn [scan_f] in F.
        destruct (cppcms_next true (a :: s')) as [d r] eqn:H1.
        assert (Sx : exists p, s' = p ++ r) by (eapply next_suffix; exact H1). destruct Sx as [p Sp].
        destruct d as [| |c].
        * injection F as <- <-. split; [reflexivity|]. right. split; [discriminate|].
          rewrite (body1_bad pre (a :: s') valid prev _ _ L H1 ltac:(intros x E; discriminate E)). cbv beta iota.
          rewrite app_nil_r. eexists. reflexivity.
        * injection F as <- <-. split; [reflexivity|]. right. split; [discriminate|].
          rewrite (body1_bad pre (a :: s') valid prev _ _ L H1 ltac:(intros x E; discriminate E)). cbv beta iota.
          rewrite app_nil_r. eexists. reflexivity.
        * rewrite (body1_ok pre (a :: s') valid prev c r L H1). cbv beta iota.
          destruct (scan_f f r) as [[g' q']|] eqn:F'; [|discriminate]. injection F as <- <-.
          rewrite (pos_step pre a s' p r Sp).
          assert (Ec : consumed (a :: s') r = a :: p).
          { rewrite Sp. change (a :: p ++ r) with ((a :: p) ++ r). apply consumed_app. }
          destruct (IH (pre ++ a :: p) r out valid (Z.of_nat (length pre)) g' q') as [Eg Cases];
            [rewrite <- app_assoc; cbn; rewrite <- Sp; exact L|cbn in Len; rewrite Sp, app_length in Len; lia|exact F'|].
          split; [rewrite Ec, Sp, Eg; cbn; rewrite <- app_assoc; reflexivity|].
          change (emits l out []) with out.
          destruct Cases as [[Q [pv E]]|[Q [pt E]]]; [left|right]; (split; [exact Q|]).
          -- exists pv. exact E.
          -- exists pt. rewrite E, Ec. rewrite <- app_assoc. reflexivity.
  Qed.

  (* ---- the whole function ---- *)
  Theorem link_vof_utf8 out0 v0 p0 q0 : gen_vof_utf8 out0 v0 p0 q0 repl l = fres_obs out0 (vof_utf8 repl l).
  Proof.
    unfold gen_vof_utf8, vof_utf8. fold nx tst e rpz.
    unfold g_vof_u8_seg0 at 1. cbn [seg_then]. change (emits l out0 []) with out0.
    destruct (scan_f_spec (length l) l (le_n _)) as (g & q & Sc & E & _ & _). rewrite Sc.
    destruct (loop1 (length l) [] l out0 true 0%Z g q eq_refl (le_n _) Sc) as [_ [[Q [pv Run]]|[Q [pt Run]]]];
      change (Z.of_nat (length (@nil N))) with 0%Z in Run; rewrite Run; cbn [loop_then].
    - subst q. unfold g_vof_u8_seg1. cbn [seg_then]. reflexivity.
    - destruct q as [|b t]; [congruence|].
      unfold g_vof_u8_seg1. cbn [seg_then app]. 
      change (emits l out0 [GClear; GRange 0 (Z.of_nat (length g))]) with ([] ++ sub l 0 (Z.of_nat (length g))).
      rewrite (sub_prefix l g _ E). cbn [app].
      destruct (filter2_f (length (b :: t)) repl (b :: t)) as [o|] eqn:F2.
      2:{ exfalso. eapply filter2_f_fuel; [|exact F2]. lia. }
      destruct (loop2 (length (b :: t)) g (b :: t) g false (Z.of_nat (length g)) o E (le_n _) F2) as [st' Run2].
      rewrite (run_loop_mono _ _ _ _ _ _ _ _ Run2 (S (length l))) by (rewrite E, app_length; lia).
      cbn [loop_then]. unfold g_vof_u8_seg2. destruct st' as [[v1 p1] q1]. cbn [seg_then]. reflexivity.
  Qed.
End U8.

(* ---------- validate_or_filter_single_byte_charset ---------- *)
Lemma run_loop_S' {St} (l : list N) (cond : St -> bool) body inc f st out :
  run_loop l cond body inc (S f) st out =
  if cond st then
    match body st with
    | (GNext, st1, es) => match inc st1 with (_, st2, es2) => run_loop l cond body inc f st2 (emits l (emits l out es) es2) end
    | (c, st1, es) => Some (c, st1, emits l out es)
    end
  else Some (GNext, st, out).
Proof. reflexivity. Qed.

Section SB.
  Variables (k : sbkind) (repl : N) (l : list N).
  Hypothesis R : repl < 256.
  Let nx := fun (_ : bool) (_ : Z) => (0%Z, 0%Z).
  Let tst := tst_of (V_sb k) l.
  Let e := Z.of_nat (length l).
  Let rpz := wraps 8 (Z.of_N repl).
  Let F := fun c : N => match tester (V_sb k) [c] 0 with Some (true, _) => [c] | _ => rp repl end.

  Lemma rz0 : Z.eqb rpz 0 = (repl =? 0).  Proof. apply repl_zero, R. Qed.
  Lemma rzb : Z.to_N (wrapu 8 rpz) = repl.  Proof. apply repl_byte, R. Qed.
  Lemma sb_cond_at pre s c : l = pre ++ s ->
    g_vof_sb_cond1 nx tst 0 e rpz (c, Z.of_nat (length pre)) = negb (match s with [] => true | _ => false end).
  Proof. intros L. unfold g_vof_sb_cond1, e. rewrite L, app_length. destruct s; cbn [length negb]; lia. Qed.

  Lemma sb_loop : forall f pre s out c,
    l = pre ++ s -> (length s <= f)%nat ->
    exists st', run_loop l (g_vof_sb_cond1 nx tst 0 e rpz) (g_vof_sb_body1 nx tst 0 e rpz) (g_vof_sb_inc1 nx tst 0 e rpz) (S f)
                  (c, Z.of_nat (length pre)) out = Some (GNext, st', out ++ flat_map F s).
  Proof.
    induction f as [|f IH]; intros pre s out c L Len.
    - destruct s; [|cbn in Len; lia]. rewrite run_loop_S', (sb_cond_at pre [] c L). cbn [negb flat_map]. rewrite app_nil_r. eauto.
    - destruct s as [|a s'].
      + rewrite run_loop_S', (sb_cond_at pre [] c L). cbn [negb flat_map]. rewrite app_nil_r. eauto.
      + rewrite run_loop_S', (sb_cond_at pre (a :: s') c L). cbn [negb].
        unfold g_vof_sb_body1 at 1. cbv zeta. unfold tst at 1. unfold tst_of.
        change (Z.of_nat (length pre) + 1)%Z with (Z.of_nat (length pre) + Z.of_nat 1)%Z.
        rewrite (sub_at l pre (a :: s') 1 L). cbn [firstn].
        unfold g_vof_sb_inc1 at 1.
        assert (L' : l = (pre ++ [a]) ++ s') by (rewrite <- app_assoc; exact L).
        cbn [flat_map]. unfold F at 1.
        destruct (tester (V_sb k) [a] 0) as [[[|] n]|] eqn:T.
        * cbv beta iota. change (emits l (emits l out [GAt (Z.of_nat (length pre))]) [])
            with (out ++ sub l (Z.of_nat (length pre)) (Z.of_nat (length pre) + Z.of_nat 1)).
          rewrite (sub_at l pre (a :: s') 1 L). cbn [firstn].
          destruct (IH (pre ++ [a]) s' (out ++ [a]) c L' ltac:(cbn in Len; lia)) as [st' E].
          replace (Z.of_nat (length pre) + 1)%Z with (Z.of_nat (length (pre ++ [a]))) by (rewrite app_length; cbn; lia). rewrite E, <- app_assoc. eauto.
        * rewrite rz0.
          destruct (IH (pre ++ [a]) s' (out ++ rp repl) c L' ltac:(cbn in Len; lia)) as [st' E].
          unfold rp in *. destruct (repl =? 0); cbv beta iota; cbn [negb emits fold_left emit1].
          -- rewrite app_nil_r in E. replace (Z.of_nat (length pre) + 1)%Z with (Z.of_nat (length (pre ++ [a]))) by (rewrite app_length; cbn; lia). rewrite E. cbn [app]. eauto.
          -- rewrite rzb. replace (Z.of_nat (length pre) + 1)%Z with (Z.of_nat (length (pre ++ [a]))) by (rewrite app_length; cbn; lia). rewrite E, <- app_assoc. eauto.
        * cbn in T. discriminate.
  Qed.

  Theorem link_vof_sb out0 c0 p0 : gen_vof_sb out0 c0 p0 (V_sb k) repl l = fres_obs out0 (vof_sb (V_sb k) repl l).
  Proof.
    unfold gen_vof_sb, vof_sb. fold nx tst e rpz.
    unfold g_vof_sb_seg0 at 1. cbv zeta. unfold tst at 1. unfold tst_of, e.
    rewrite (sub_prefix l l [] (eq_sym (app_nil_r l))).
    destruct (tester (V_sb k) l 0) as [[[|] n]|] eqn:T.
    - cbn [seg_then]. reflexivity.
    - cbn [seg_then]. change (emits l out0 [GClear]) with (@nil N).
      destruct (sb_loop (length l) [] l [] 0%Z eq_refl (le_n _)) as [st' E].
      change (Z.of_nat (length (@nil N))) with 0%Z in E. fold e. rewrite E. cbn [loop_then app].
      unfold g_vof_sb_seg1. destruct st' as [c1 p1]. cbn [seg_then]. reflexivity.
    - cbn in T. discriminate.
  Qed.
End SB.
