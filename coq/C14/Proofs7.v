(* C14 proofs, part 7: a grammar-level functional specification of validate_or_filter for UTF-8.  The input is read
   as a sequence of tokens -- an HTML-safe UTF8-char (copied), a well-formed but unsafe UTF8-char (replaced as a
   whole), or, where no UTF8-char starts, a single byte (replaced; decoding resynchronises at the next byte). *)
From CppcmsV Require Import Base.Tac C14.Defs C14.Spec C14.Proofs C14.Proofs2 C14.Proofs3 C14.Proofs4.
Local Open Scope N_scope.

Definition no_char_at (l : list N) : Prop := forall e c r, Seq e c -> l <> e ++ r.

Inductive Tok (repl : N) : list N -> list N -> Prop :=
| Tok_nil : Tok repl [] []
| Tok_keep e c s o : Seq e c -> html_safe c -> Tok repl s o -> Tok repl (e ++ s) (e ++ o)
| Tok_unsafe e c s o : Seq e c -> ~ html_safe c -> Tok repl s o -> Tok repl (e ++ s) (rp repl ++ o)
| Tok_byte b s o : no_char_at (b :: s) -> Tok repl s o -> Tok repl (b :: s) (rp repl ++ o).

Lemma next_false_fail_no_char l d r : (forall c, d <> Cp c) -> cppcms_next false l = (d, r) -> no_char_at l.
Proof.
  intros Hd H e c r' S ->. unfold cppcms_next in H.
  rewrite (next_complete Illegal false e c r' S ltac:(discriminate)) in H. inversion H. eapply Hd; eauto.
Qed.

Lemma next_true_fail_unsafe l d r e c s : (forall x, d <> Cp x) -> cppcms_next true l = (d, r) ->
  Seq e c -> l = e ++ s -> ~ html_safe c.
Proof.
  intros Hd H S -> Hs. unfold cppcms_next in H.
  rewrite (next_complete Illegal true e c s S (fun _ => Hs)) in H. inversion H. eapply Hd; eauto.
Qed.

Lemma filter2_f_Tok fuel : forall repl l o, filter2_f fuel repl l = Some o -> Tok repl l o.
Proof.
  induction fuel as [|f IH]; intros repl l o H.
  - destruct l; cbn [filter2_f] in H; [|discriminate]. inversion H. constructor.
  - destruct l as [|b tl]; cbn [filter2_f] in H; [inversion H; constructor|].
    destruct (cppcms_next true (b :: tl)) as [d r] eqn:N1.
    assert (forall d2 r2, (forall x, d <> Cp x) -> cppcms_next false (b :: tl) = (d2, r2) ->
            match d2 with
            | Cp _ => option_map (app (rp repl)) (filter2_f f repl r2)
            | _ => option_map (app (rp repl)) (filter2_f f repl tl)
            end = Some o -> Tok repl (b :: tl) o) as K.
    { intros d2 r2 Hd N2 H2. destruct d2 as [| |c2].
      - destruct (filter2_f f repl tl) as [o'|] eqn:Ho; [|discriminate]. inversion H2; subst.
        apply Tok_byte; [eapply next_false_fail_no_char; [|exact N2]; intros; discriminate|eapply IH; eauto].
      - destruct (filter2_f f repl tl) as [o'|] eqn:Ho; [|discriminate]. inversion H2; subst.
        apply Tok_byte; [eapply next_false_fail_no_char; [|exact N2]; intros; discriminate|eapply IH; eauto].
      - destruct (filter2_f f repl r2) as [o'|] eqn:Ho; [|discriminate]. inversion H2; subst.
        unfold cppcms_next in N2. apply next_sound in N2; [|exact not_cp_Illegal]. destruct N2 as (e & S & El & _).
        rewrite El. apply (Tok_unsafe repl e c2 r2 o' S); [|eapply IH; eauto].
        eapply next_true_fail_unsafe; [exact Hd|exact N1|exact S|exact El]. }
    destruct d as [| |c].
    + destruct (cppcms_next false (b :: tl)) as [d2 r2] eqn:N2.
      apply (K d2 r2); [intros; discriminate|reflexivity|]. destruct d2; exact H.
    + destruct (cppcms_next false (b :: tl)) as [d2 r2] eqn:N2.
      apply (K d2 r2); [intros; discriminate|reflexivity|]. destruct d2; exact H.
    + destruct (filter2_f f repl r) as [o'|] eqn:Ho; [|discriminate]. inversion H; subst.
      apply next_true_sound in N1. destruct N1 as (e & S & El & Hs). rewrite El, consumed_app.
      apply (Tok_keep repl e c r o' S Hs). eapply IH; eauto.
Qed.

Lemma Tok_valid_prefix repl g cg : WF g cg -> Forall html_safe cg -> forall q o, Tok repl q o -> Tok repl (g ++ q) (g ++ o).
Proof.
  intros W. induction W as [|e c s cps S W IH]; intros F q o T; [exact T|].
  inversion F; subst. rewrite <- !app_assoc. apply (Tok_keep repl e c); auto.
Qed.

(* whenever the filter returns false, its output is the token-wise image of the whole input *)
Lemma vof_utf8_Tok repl l o : vof_utf8 repl l = FFiltered o -> Tok repl l o.
Proof.
  unfold vof_utf8.
  destruct (scan_f_spec (length l) l (le_n _)) as (g & q & Sc & E & (cg & Wg & Fg) & _). rewrite Sc.
  destruct q as [|b t]; [discriminate|].
  destruct (filter2_f (length (b :: t)) repl (b :: t)) as [o'|] eqn:F2; [|discriminate].
  intros H. inversion H; subst. apply (Tok_valid_prefix repl g cg Wg Fg). eapply filter2_f_Tok; eauto.
Qed.

(* the token-wise image is unique: Tok is a function of the input (the grammar is unambiguous) *)
Lemma Tok_functional repl l o : Tok repl l o -> forall o', Tok repl l o' -> o = o'.
Proof.
  intros T. induction T as [|e c s o S Hs T IH|e c s o S Hs T IH|b s o Nc T IH]; intros o' T'.
  - remember [] as l eqn:El.
    destruct T' as [|e' c' s' o2 S' Hs' T2|e' c' s' o2 S' Hs' T2|b' s' o2 Nc' T2].
    + reflexivity.
    + destruct e'; [apply Seq_nonempty in S'; contradiction|discriminate].
    + destruct e'; [apply Seq_nonempty in S'; contradiction|discriminate].
    + discriminate.
  - remember (e ++ s) as l eqn:El.
    destruct T' as [|e' c' s' o2 S' Hs' T2|e' c' s' o2 S' Hs' T2|b' s' o2 Nc' T2].
    + symmetry in El. apply app_eq_nil in El. destruct El as [El _]. apply Seq_nonempty in S. contradiction.
    + symmetry in El. destruct (Seq_deterministic e c s e' c' s' S S' El) as (-> & -> & ->). f_equal. apply IH. exact T2.
    + symmetry in El. destruct (Seq_deterministic e c s e' c' s' S S' El) as (-> & -> & ->). contradiction.
    + exfalso. eapply Nc'; eauto.
  - remember (e ++ s) as l eqn:El.
    destruct T' as [|e' c' s' o2 S' Hs' T2|e' c' s' o2 S' Hs' T2|b' s' o2 Nc' T2].
    + symmetry in El. apply app_eq_nil in El. destruct El as [El _]. apply Seq_nonempty in S. contradiction.
    + symmetry in El. destruct (Seq_deterministic e c s e' c' s' S S' El) as (-> & -> & ->). contradiction.
    + symmetry in El. destruct (Seq_deterministic e c s e' c' s' S S' El) as (-> & -> & ->). f_equal. apply IH. exact T2.
    + exfalso. eapply Nc'; eauto.
  - remember (b :: s) as l eqn:El.
    destruct T' as [|e' c' s' o2 S' Hs' T2|e' c' s' o2 S' Hs' T2|b' s' o2 Nc' T2].
    + discriminate.
    + exfalso. eapply Nc; eauto.
    + exfalso. eapply Nc; eauto.
    + inversion El; subst. f_equal. apply IH. exact T2.
Qed.

(* the support library's decoder against the grammar, without the HTML clause *)
Lemma booster_decode_spec l c r : booster_decode l = (Cp c, r) <-> exists e, Seq e c /\ l = e ++ r.
Proof.
  unfold booster_decode. rewrite (next_spec Incomplete false l c r not_cp_Incomplete). split.
  - intros (e & S & E & _). exists e. auto.
  - intros (e & S & E). exists e. split; [exact S|]. split; [exact E|discriminate].
Qed.
