(* C14: ill-formed input through the conversions.  utf_to_utf decodes with the input traits and re-encodes with the output
   traits, so every conversion factors through the list of code points the decoder yields (conv_cps); hence
   UTF-8 -> UTF-16 throws (stop) exactly when UTF-8 -> UTF-8 does, i.e. exactly on text that is not well-formed, and in
   skip mode yields the UTF-16 form of exactly the code points that UTF-8 -> UTF-8 keeps; UTF-16 -> UTF-8 output is always
   well-formed UTF-8. *)
From CppcmsV Require Import Base.Tac C14.Defs C14.Spec C14.Proofs C14.Proofs2 C14.Proofs5 C14.Defs16 C14.Proofs16.
Local Open Scope N_scope.

Fixpoint conv_cps (dec : list N -> dres * list N) (fuel : nat) (stop : bool) (l : list N) : option (option (list N)) :=
  match l with
  | [] => Some (Some [])
  | _ :: _ =>
      match fuel with
      | O => None
      | S f =>
          match dec l with
          | (Cp c, r) => match conv_cps dec f stop r with
                         | Some (Some o) => Some (Some (c :: o))
                         | other => other
                         end
          | (_, r) => if stop then Some None else conv_cps dec f stop r
          end
      end
  end.
Definition omap (g : list N -> list N) (x : option (option (list N))) : option (option (list N)) :=
  match x with Some (Some o) => Some (Some (g o)) | Some None => Some None | None => None end.

Lemma conv_f_factors dec enc stop : forall f l, conv_f dec enc f stop l = omap (flat_map enc) (conv_cps dec f stop l).
Proof.
  induction f as [|f IH]; intros l; destruct l as [|a l]; try reflexivity.
  cbn [conv_f conv_cps]. destruct (dec (a :: l)) as [d r]. destruct d as [| |c].
  - destruct stop; [reflexivity|apply IH].
  - destruct stop; [reflexivity|apply IH].
  - rewrite IH. destruct (conv_cps dec f stop r) as [[o|]|]; reflexivity.
Qed.

Lemma utf_to_utf_is_conv stop : forall f l, utf_to_utf_f f stop l = conv_f booster_decode encode f stop l.
Proof.
  induction f as [|f IH]; intros l; destruct l as [|a l]; try reflexivity.
  cbn [utf_to_utf_f conv_f]. destruct (booster_decode (a :: l)) as [d r]. rewrite IH. reflexivity.
Qed.

(* stop: UTF-8 -> UTF-16 throws exactly on text that is not well-formed UTF-8 *)
Lemma utf8_to_utf16_stop l : utf8_to_utf16 true l = Some None <-> validate false l = false.
Proof.
  unfold utf8_to_utf16. rewrite conv_f_factors.
  pose proof (utf_to_utf_stop l) as H. unfold utf_to_utf in H. rewrite utf_to_utf_is_conv, conv_f_factors in H.
  destruct (conv_cps booster_decode (length l) true l) as [[o|]|]; cbn [omap] in *.
  - destruct H as [[V _]|[_ E]]; [|discriminate]. rewrite V. split; discriminate.
  - destruct H as [[_ E]|[V _]]; [discriminate|]. rewrite V. split; reflexivity.
  - destruct H as [[_ E]|[_ E]]; discriminate.
Qed.

(* skip: both conversions keep exactly the code points that decode (all scalar values): the UTF-8 -> UTF-8 output is
   their UTF-8 form (well-formed), the UTF-8 -> UTF-16 output their UTF-16 form (well-formed: units_ok, decodes back) *)
Lemma conv_cps_skip_total : forall f l, (length l <= f)%nat ->
  exists q, conv_cps booster_decode f false l = Some (Some q) /\ Forall scalar q.
Proof.
  induction f as [|f IH]; intros l L.
  - destruct l; [|cbn in L; lia]. exists []. split; [reflexivity|constructor].
  - destruct l as [|a tl]; [exists []; split; [reflexivity|constructor]|].
    cbn [conv_cps]. destruct (booster_decode (a :: tl)) as [d r] eqn:D.
    destruct (next_gen_suffix _ _ _ _ _ _ D) as (p & Ep).
    assert (Lr : (length r <= f)%nat) by (cbn in L; subst tl; rewrite app_length in L; lia).
    destruct (IH r Lr) as (q & E & F). destruct d as [| |c].
    + exists q. auto.
    + exists q. auto.
    + rewrite E. exists (c :: q). split; [reflexivity|]. constructor; [|exact F].
      exact (proj2 (encode_decode Incomplete false _ _ _ not_cp_Incomplete D)).
Qed.

Lemma utf8_to_utf16_skip l : exists cps,
  Forall scalar cps /\ utf_to_utf false l = Some (Some (flat_map encode cps)) /\ WF (flat_map encode cps) cps /\
  utf8_to_utf16 false l = Some (Some (flat_map u16_encode cps)) /\ units_ok (flat_map u16_encode cps) /\
  utf16_to_utf8 false (flat_map u16_encode cps) = Some (Some (flat_map encode cps)).
Proof.
  destruct (conv_cps_skip_total (length l) l (le_n _)) as (q & E & F). exists q.
  assert (W : WF (flat_map encode q) q) by (apply WF_iff_encode; split; [exact F|reflexivity]).
  split; [exact F|]. split; [unfold utf_to_utf; rewrite utf_to_utf_is_conv, conv_f_factors, E; reflexivity|].
  split; [exact W|]. split; [unfold utf8_to_utf16; rewrite conv_f_factors, E; reflexivity|].
  destruct (utf8_utf16_roundtrip false _ _ W) as (_ & B & U). split; [exact U|exact B].
Qed.

(* ---- UTF-16 input ---- *)
Lemma u16_decode_suffix a l d r : u16_decode (a :: l) = (d, r) -> exists p, l = p ++ r.
Proof.
  cbn [u16_decode]. destruct ((a <? 55296) || (57343 <? a)); [intros H; injection H as <- <-; exists []; reflexivity|].
  destruct (56319 <? a); [intros H; injection H as <- <-; exists []; reflexivity|].
  destruct l as [|w2 l2]; [intros H; injection H as <- <-; exists []; reflexivity|].
  destruct ((w2 <? 56320) || (57343 <? w2)); intros H; injection H as <- <-; exists [w2]; reflexivity.
Qed.

(* skip: whatever the code units, the UTF-8 output is the encoding of scalar values, hence well-formed *)
Lemma utf16_to_utf8_skip l : units_ok l -> exists cps,
  Forall scalar cps /\ utf16_to_utf8 false l = Some (Some (flat_map encode cps)) /\ WF (flat_map encode cps) cps.
Proof.
  intros U.
  assert (G : forall f l, units_ok l -> (length l <= f)%nat ->
              exists q, conv_cps u16_decode f false l = Some (Some q) /\ Forall scalar q).
  { clear. induction f as [|f IH]; intros l U L.
    - destruct l; [|cbn in L; lia]. exists []. split; [reflexivity|constructor].
    - destruct l as [|a tl]; [exists []; split; [reflexivity|constructor]|].
      cbn [conv_cps]. destruct (u16_decode (a :: tl)) as [d r] eqn:D.
      destruct (u16_decode_suffix _ _ _ _ D) as (p & Ep).
      assert (Lr : (length r <= f)%nat) by (cbn in L; subst tl; rewrite app_length in L; lia).
      assert (Ur : units_ok r).
      { unfold units_ok in *. inversion U as [|? ? _ U2]; subst. apply Forall_app in U2. tauto. }
      destruct (IH r Ur Lr) as (q & E & F). destruct d as [| |c].
      + exists q. auto.
      + exists q. auto.
      + rewrite E. exists (c :: q). split; [reflexivity|]. constructor; [|exact F].
        exact (proj1 (u16_decode_sound _ _ _ U D)). }
  destruct (G (length l) l U (le_n _)) as (q & E & F). exists q.
  split; [exact F|]. split; [unfold utf16_to_utf8; rewrite conv_f_factors, E; reflexivity|].
  apply WF_iff_encode. split; [exact F|reflexivity].
Qed.

(* stop: when the conversion does not throw, the input was the UTF-16 form of scalar values and the output is their UTF-8 form *)
Lemma utf16_to_utf8_stop_sound l o : units_ok l -> utf16_to_utf8 true l = Some (Some o) ->
  exists cps, Forall scalar cps /\ l = flat_map u16_encode cps /\ o = flat_map encode cps.
Proof.
  intros U H. unfold utf16_to_utf8 in H. rewrite conv_f_factors in H.
  assert (G : forall f l q, units_ok l -> conv_cps u16_decode f true l = Some (Some q) ->
              Forall scalar q /\ l = flat_map u16_encode q).
  { clear. induction f as [|f IH]; intros l q U H.
    - destruct l; [|discriminate]. injection H as <-. split; [constructor|reflexivity].
    - destruct l as [|a tl]; [injection H as <-; split; [constructor|reflexivity]|].
      cbn [conv_cps] in H. destruct (u16_decode (a :: tl)) as [d r] eqn:D. destruct d as [| |c]; try discriminate.
      destruct (u16_decode_sound _ _ _ U D) as [Sc El].
      assert (Ur : units_ok r).
      { unfold units_ok in *. rewrite El in U. apply Forall_app in U. tauto. }
      destruct (conv_cps u16_decode f true r) as [[q'|]|] eqn:E; try discriminate. injection H as <-.
      destruct (IH r q' Ur E) as [F Er]. split; [constructor; assumption|]. cbn [flat_map]. rewrite <- Er. exact El. }
  destruct (conv_cps u16_decode (length l) true l) as [[q|]|] eqn:E; cbn [omap] in H; try discriminate.
  injection H as <-. destruct (G _ _ _ U E) as [F El]. exists q. auto.
Qed.
