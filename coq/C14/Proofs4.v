(* C14 proofs, part 4: the single-byte facts stated on the predicates GENERATED from the current source,
   the named entry points (lookup / valid_named / validate_or_filter), filter idempotence, encoding names. *)
From CppcmsV Require Import Base.Tac Base.CSem Base.Sweep C14.Defs C14.Spec C14.Proofs C14.Proofs2 C14.Proofs3
  C14.Link gen.Gen_C14.
Local Open Scope N_scope.

(* ---------- single-byte validators: sweeps over the generated predicates ---------- *)
Definition iso_kind (k : sbkind) : bool :=
  match k with SB_iso | SB_iso3 | SB_iso6 | SB_iso7 | SB_iso8 | SB_iso11 => true | _ => false end.

(* what the property asks of one byte of a single-byte charset *)
Definition sb_byte_rule (k : sbkind) (b : N) : bool :=
  let v := gen_sb k (Z.of_N b) in
  (if (32 <=? b) && (b <=? 126) then v else true) &&                   (* printable ASCII accepted *)
  (if (b =? 9) || (b =? 10) || (b =? 13) then v else true) &&          (* tab, line feed, carriage return accepted *)
  (if (b <? 32) && negb ((b =? 9) || (b =? 10) || (b =? 13)) then negb v else true) &&   (* other C0 rejected *)
  (if b =? 127 then negb v else true) &&                               (* DEL rejected *)
  (if iso_kind k && (128 <=? b) && (b <=? 159) then negb v else true). (* C1 rejected, ISO-8859 family *)

Lemma sb_byte_rule_all : forallb (fun k => forallb (sb_byte_rule k) bytesN) all_kinds = true.
Proof. vm_compute. reflexivity. Qed.

Lemma sb_byte_rule_holds k b : b < 256 -> sb_byte_rule k b = true.
Proof.
  intros H. pose proof sb_byte_rule_all as A. rewrite forallb_forall in A.
  specialize (A k (all_kinds_complete k)). exact (sweep256 _ A b H).
Qed.

Lemma gen_sb_accepts_printable k b : 32 <= b <= 126 -> gen_sb k (Z.of_N b) = true.
Proof.
  intros H. pose proof (sb_byte_rule_holds k b ltac:(lia)) as R. unfold sb_byte_rule in R.
  replace ((32 <=? b) && (b <=? 126)) with true in R by lia.
  apply andb_true_iff in R. destruct R as [R _]. apply andb_true_iff in R. destruct R as [R _].
  apply andb_true_iff in R. destruct R as [R _]. apply andb_true_iff in R. destruct R as [R _]. exact R.
Qed.

Lemma gen_sb_accepts_tab_lf_cr k b : b = 9 \/ b = 10 \/ b = 13 -> gen_sb k (Z.of_N b) = true.
Proof.
  intros H. pose proof (sb_byte_rule_holds k b ltac:(lia)) as R. unfold sb_byte_rule in R.
  replace ((b =? 9) || (b =? 10) || (b =? 13)) with true in R by lia.
  apply andb_true_iff in R. destruct R as [R _]. apply andb_true_iff in R. destruct R as [R _].
  apply andb_true_iff in R. destruct R as [R _]. apply andb_true_iff in R. destruct R as [_ R]. exact R.
Qed.

Lemma gen_sb_rejects_c0 k b : b < 32 -> b <> 9 -> b <> 10 -> b <> 13 -> gen_sb k (Z.of_N b) = false.
Proof.
  intros H H9 H10 H13. pose proof (sb_byte_rule_holds k b ltac:(lia)) as R. unfold sb_byte_rule in R.
  replace ((b <? 32) && negb ((b =? 9) || (b =? 10) || (b =? 13))) with true in R by lia.
  apply andb_true_iff in R. destruct R as [R _]. apply andb_true_iff in R. destruct R as [R _].
  apply andb_true_iff in R. destruct R as [_ R]. apply negb_true_iff in R. exact R.
Qed.

Lemma gen_sb_rejects_del k : gen_sb k 127%Z = false.
Proof.
  pose proof (sb_byte_rule_holds k 127 ltac:(lia)) as R. unfold sb_byte_rule in R.
  change (127 =? 127) with true in R. cbv iota in R.
  apply andb_true_iff in R. destruct R as [R _]. apply andb_true_iff in R. destruct R as [_ R].
  apply negb_true_iff in R. exact R.
Qed.

Lemma gen_sb_rejects_c1 k b : iso_kind k = true -> 128 <= b <= 159 -> gen_sb k (Z.of_N b) = false.
Proof.
  intros I H. pose proof (sb_byte_rule_holds k b ltac:(lia)) as R. unfold sb_byte_rule in R.
  rewrite I in R. replace (true && (128 <=? b) && (b <=? 159)) with true in R by lia.
  apply andb_true_iff in R. destruct R as [_ R]. apply negb_true_iff in R. exact R.
Qed.

(* the whole-string validator of the model is `every byte passes the generated predicate` *)
Lemma sb_valid_gen k l : bytes_ok l -> sb_valid k l = forallb (fun b => gen_sb k (Z.of_N b)) l.
Proof.
  intros B. unfold sb_valid. induction B as [|b l Hb B IH]; [reflexivity|].
  cbn [forallb]. rewrite IH, (link_sb k b Hb). reflexivity.
Qed.

(* ---------- the table of names ---------- *)
Lemma find_some_In {A} (f : A -> bool) l x : find f l = Some x -> In x l /\ f x = true.
Proof. apply find_some. Qed.

Definition entry_is_utf8 (e : list N * validator) : bool :=
  match snd e with V_utf8 => leqb (fst e) utf8_name | V_sb _ => true end.
Lemma table_utf8_entry : forallb entry_is_utf8 enc_table = true.
Proof. vm_compute. reflexivity. Qed.

Lemma lookup_utf8_is_utf8 name : lookup name = Some V_utf8 -> is_utf8 name = true.
Proof.
  unfold lookup, is_utf8. destruct (find (fun e => enc_equiv name (fst e)) enc_table) as [[n v]|] eqn:F; [|discriminate].
  intros H. inversion H; subst v. apply find_some in F. destruct F as [I E]. cbn [fst] in E.
  pose proof table_utf8_entry as T. rewrite forallb_forall in T. specialize (T _ I).
  unfold entry_is_utf8 in T. cbn [fst snd] in T. apply leqb_eq in T. subst n. exact E.
Qed.

(* the ISO-8859 names (and latin1) are served by validators of the ISO family: they reject C1 *)
Definition iso_prefix : list N := [105;115;111;56;56;53;57].   (* i s o 8 8 5 9 *)
Definition latin1_name : list N := [108;97;116;105;110;49].   (* l a t i n 1 *)
Fixpoint prefixb (p l : list N) : bool :=
  match p, l with
  | [], _ => true
  | x :: p', y :: l' => (x =? y) && prefixb p' l'
  | _ :: _, [] => false
  end.
Definition iso_named (n : list N) : bool := prefixb iso_prefix n || leqb n latin1_name.
Definition entry_iso_ok (e : list N * validator) : bool :=
  if iso_named (fst e) then match snd e with V_sb k => iso_kind k | V_utf8 => false end else true.
Lemma table_iso_entries : forallb entry_iso_ok enc_table = true.
Proof. vm_compute. reflexivity. Qed.

Lemma table_entry_iso n k : In (n, V_sb k) enc_table -> iso_named n = true -> iso_kind k = true.
Proof.
  intros I Hn. pose proof table_iso_entries as T. rewrite forallb_forall in T. specialize (T _ I).
  unfold entry_iso_ok in T. cbn [fst snd] in T. rewrite Hn in T. exact T.
Qed.

(* every table entry: the rule of the property, on the generated predicate *)
Lemma table_entry_rule n k b : In (n, V_sb k) enc_table -> b < 256 ->
  (32 <= b <= 126 \/ b = 9 \/ b = 10 \/ b = 13 -> gen_sb k (Z.of_N b) = true) /\
  ((b < 32 /\ b <> 9 /\ b <> 10 /\ b <> 13) \/ b = 127 -> gen_sb k (Z.of_N b) = false) /\
  (iso_named n = true -> 128 <= b <= 159 -> gen_sb k (Z.of_N b) = false).
Proof.
  intros I Hb. split; [|split].
  - intros [H|H]; [apply gen_sb_accepts_printable; exact H|apply gen_sb_accepts_tab_lf_cr; exact H].
  - intros [(H & H9 & H10 & H13)|H]; [apply gen_sb_rejects_c0; assumption|subst b; apply gen_sb_rejects_del].
  - intros Hn H. apply gen_sb_rejects_c1; [eapply table_entry_iso; eauto|exact H].
Qed.

Lemma table_size : length enc_table = 37%nat.
Proof. reflexivity. Qed.

(* ---------- encoding::valid by name ---------- *)
Lemma valid_named_sb name k l cnt : lookup name = Some (V_sb k) ->
  valid_named name l cnt = NRes (sb_valid k l) (snd (sb_validate k l cnt)).
Proof.
  intros L. unfold valid_named. rewrite L. cbn [tester].
  pose proof (sb_validate_fst k l cnt) as F. destruct (sb_validate k l cnt) as [ok n]. cbn [fst snd] in *. subst ok. reflexivity.
Qed.

Lemma valid_named_sb_gen name k l cnt : lookup name = Some (V_sb k) -> bytes_ok l ->
  exists n, valid_named name l cnt = NRes (forallb (fun b => gen_sb k (Z.of_N b)) l) n /\
            (forallb (fun b => gen_sb k (Z.of_N b)) l = true -> n = cnt + N.of_nat (length l)).
Proof.
  intros L B. rewrite (valid_named_sb name k l cnt L). rewrite <- (sb_valid_gen k l B).
  eexists. split; [reflexivity|]. intros V. apply sb_validate_count. exact V.
Qed.

Lemma valid_named_context_free name k a b ca cb cab : lookup name = Some (V_sb k) ->
  exists na nb nab, valid_named name a ca = NRes (sb_valid k a) na /\ valid_named name b cb = NRes (sb_valid k b) nb /\
                    valid_named name (a ++ b) cab = NRes (sb_valid k a && sb_valid k b) nab.
Proof.
  intros L. rewrite !(valid_named_sb name k _ _ L). rewrite sb_context_free. do 3 eexists. repeat split; reflexivity.
Qed.

Lemma valid_named_utf8 name l cnt : lookup name = Some V_utf8 ->
  (exists cps, WF l cps /\ Forall html_safe cps /\ valid_named name l cnt = NRes true (cnt + N.of_nat (length cps))) \/
  ((~ exists cps, WF l cps /\ Forall html_safe cps) /\ exists n, valid_named name l cnt = NRes false n).
Proof.
  intros L. unfold valid_named. rewrite L. cbn [tester].
  destruct (validate_count true l cnt) as [|n|n] eqn:V.
  - exfalso. eapply validate_fuel; eauto.
  - right. split; [|eauto]. intros (cps & W & F).
    assert (validate_count true l cnt = VOk (cnt + N.of_nat (length cps))) as V2
      by (apply validate_count_iff; exists cps; auto).
    congruence.
  - left. apply validate_count_iff in V. destruct V as (cps & W & F & ->). exists cps. auto.
Qed.

(* ---------- validate_or_filter: named entry point, validity of the result, idempotence ---------- *)
Lemma vof_name_utf8 name repl l : is_utf8 name = true -> validate_or_filter name repl l = vof_utf8 repl l.
Proof. intros U. unfold validate_or_filter. rewrite U. reflexivity. Qed.

Lemma vof_name_sb name k repl l : is_utf8 name = false -> lookup name = Some (V_sb k) ->
  validate_or_filter name repl l = vof_sb (V_sb k) repl l.
Proof. intros U L. unfold validate_or_filter. rewrite U, L. reflexivity. Qed.

Lemma vof_utf8_valid_iff repl l : vof_utf8 repl l = FValid <-> validate true l = true.
Proof.
  destruct (vof_utf8_cases repl l) as [[E V]|(o & E & V & _)]; rewrite E, V; split; congruence.
Qed.

Lemma vof_utf8_result_valid repl l : repl_ok repl -> validate true (filtered_text (vof_utf8 repl l) l) = true.
Proof.
  intros R. destruct (vof_utf8_cases repl l) as [[E V]|(o & E & _ & V)]; rewrite E; cbn [filtered_text]; auto.
Qed.

Lemma vof_utf8_idempotent repl l : repl_ok repl ->
  let o := filtered_text (vof_utf8 repl l) l in
  vof_utf8 repl o = FValid /\ filtered_text (vof_utf8 repl o) o = o.
Proof.
  intros R o. assert (vof_utf8 repl o = FValid) as E by (apply vof_utf8_valid_iff; apply vof_utf8_result_valid; exact R).
  split; [exact E|]. rewrite E. reflexivity.
Qed.

Lemma vof_sb_valid_iff k repl l : vof_sb (V_sb k) repl l = FValid <-> sb_valid k l = true.
Proof.
  destruct (vof_sb_cases k repl l) as [[E V]|(o & E & V & _)]; rewrite E, V; split; congruence.
Qed.

Lemma vof_sb_result_valid k repl l : sb_repl_ok k repl -> sb_valid k (filtered_text (vof_sb (V_sb k) repl l) l) = true.
Proof.
  intros R. destruct (vof_sb_cases k repl l) as [[E V]|(o & E & _ & _ & V)]; rewrite E; cbn [filtered_text]; auto.
Qed.

Lemma vof_sb_idempotent k repl l : sb_repl_ok k repl ->
  let o := filtered_text (vof_sb (V_sb k) repl l) l in
  vof_sb (V_sb k) repl o = FValid /\ filtered_text (vof_sb (V_sb k) repl o) o = o.
Proof.
  intros R o. assert (vof_sb (V_sb k) repl o = FValid) as E by (apply vof_sb_valid_iff; apply vof_sb_result_valid; exact R).
  split; [exact E|]. rewrite E. reflexivity.
Qed.

(* the filtered UTF-8 text keeps every accepted character, in order: the output is a subsequence of the input
   interleaved with replacement characters; stated for the case without replacement *)
Inductive subseq : list N -> list N -> Prop :=
| sub_nil : subseq [] []
| sub_keep x a b : subseq a b -> subseq (x :: a) (x :: b)
| sub_drop x a b : subseq a b -> subseq a (x :: b).

Lemma subseq_refl l : subseq l l.
Proof. induction l; constructor; assumption. Qed.
Lemma subseq_nil l : subseq [] l.
Proof. induction l; constructor; assumption. Qed.
Lemma subseq_app a a' b b' : subseq a b -> subseq a' b' -> subseq (a ++ a') (b ++ b').
Proof. intros S. induction S; intros S'; cbn [app]; try constructor; auto. Qed.
Lemma subseq_drop_prefix e a b : subseq a b -> subseq a (e ++ b).
Proof. intros S. induction e; cbn [app]; [exact S|constructor; exact IHe]. Qed.

Lemma next_split eof html l c r : not_cp eof -> next_gen eof html l = (Cp c, r) -> l = consumed l r ++ r.
Proof.
  intros He H. apply next_sound in H; [|exact He]. destruct H as (e & _ & -> & _). rewrite consumed_app. reflexivity.
Qed.

Lemma filter2_f_subseq fuel : forall l o, filter2_f fuel 0 l = Some o -> subseq o l.
Proof.
  induction fuel as [|f IH]; intros l o H.
  - destruct l; cbn [filter2_f] in H; [|discriminate]. inversion H. constructor.
  - destruct l as [|b tl]; cbn [filter2_f] in H; [inversion H; constructor|].
    destruct (cppcms_next true (b :: tl)) as [d r] eqn:N1.
    destruct d as [| |c].
    + destruct (cppcms_next false (b :: tl)) as [d2 r2] eqn:N2.
      destruct d2 as [| |c2];
        (match type of H with option_map _ ?x = _ => destruct x as [o'|] eqn:Ho end; [|discriminate];
         inversion H; subst; cbn [rp N.eqb app]).
      * constructor. eapply IH; eauto.
      * constructor. eapply IH; eauto.
      * rewrite (next_split _ _ _ _ _ not_cp_Illegal N2). apply subseq_drop_prefix. eapply IH; eauto.
    + destruct (cppcms_next false (b :: tl)) as [d2 r2] eqn:N2.
      destruct d2 as [| |c2];
        (match type of H with option_map _ ?x = _ => destruct x as [o'|] eqn:Ho end; [|discriminate];
         inversion H; subst; cbn [rp N.eqb app]).
      * constructor. eapply IH; eauto.
      * constructor. eapply IH; eauto.
      * rewrite (next_split _ _ _ _ _ not_cp_Illegal N2). apply subseq_drop_prefix. eapply IH; eauto.
    + destruct (filter2_f f 0 r) as [o'|] eqn:Ho; [|discriminate]. inversion H; subst.
      rewrite (next_split _ _ _ _ _ not_cp_Illegal N1) at 2. apply subseq_app; [apply subseq_refl|]. eapply IH; eauto.
Qed.

Lemma vof_utf8_subseq l o : vof_utf8 0 l = FFiltered o -> subseq o l.
Proof.
  unfold vof_utf8.
  destruct (scan_f_spec (length l) l (le_n _)) as (g & q & Sc & E & _ & _). rewrite Sc.
  destruct q as [|b t]; [discriminate|].
  destruct (filter2_f (length (b :: t)) 0 (b :: t)) as [o'|] eqn:F2; [|discriminate].
  intros H. inversion H; subst. apply subseq_app; [apply subseq_refl|]. eapply filter2_f_subseq; eauto.
Qed.

(* ---------- encoding names ---------- *)
Lemma lex_lt_irrefl a : lex_lt a a = false.
Proof. induction a as [|x a IH]; [reflexivity|]. cbn [lex_lt]. rewrite N.ltb_irrefl. exact IH. Qed.

Lemma lex_lt_total a : forall b, lex_lt a b = false -> lex_lt b a = false -> a = b.
Proof.
  induction a as [|x a IH]; intros [|y b] H1 H2; cbn [lex_lt] in *; try reflexivity; try discriminate.
  destruct (N.ltb_spec x y); [discriminate|]. destruct (N.ltb_spec y x); [discriminate|].
  assert (x = y) by lia. subst y. f_equal. apply IH; assumption.
Qed.

(* two names are the same key of the validators map iff they normalise to the same string *)
Lemma enc_equiv_iff a b : enc_equiv a b = true <-> norm_name a = norm_name b.
Proof.
  unfold enc_equiv, enc_less. split.
  - intros H. apply andb_true_iff in H. destruct H as [H1 H2].
    apply negb_true_iff in H1. apply negb_true_iff in H2. apply lex_lt_total; assumption.
  - intros ->. rewrite lex_lt_irrefl. reflexivity.
Qed.

Lemma lex_lt_trans a : forall b c, lex_lt a b = true -> lex_lt b c = true -> lex_lt a c = true.
Proof.
  induction a as [|x a IH]; intros [|y b] [|z c] H1 H2; cbn [lex_lt] in *; try discriminate; try reflexivity.
  destruct (N.ltb_spec x y).
  - destruct (N.ltb_spec y z); [replace (x <? z) with true by lia; reflexivity|].
    destruct (N.ltb_spec z y); [discriminate|]. replace (x <? z) with true by lia. reflexivity.
  - destruct (N.ltb_spec y x); [discriminate|]. assert (x = y) by lia. subst y.
    destruct (N.ltb_spec x z); [reflexivity|]. destruct (N.ltb_spec z x); [discriminate|]. eapply IH; eauto.
Qed.

(* the comparator is a strict weak order (what std::map requires): irreflexive, transitive, and its
   incomparability relation is the equality of normalised names, hence transitive *)
Lemma enc_less_irrefl a : enc_less a a = false.
Proof. apply lex_lt_irrefl. Qed.
Lemma enc_less_trans a b c : enc_less a b = true -> enc_less b c = true -> enc_less a c = true.
Proof. apply lex_lt_trans. Qed.

(* the lookup finds an entry exactly when some table name normalises to the same string *)
Lemma lookup_some_iff name v : lookup name = Some v ->
  exists n, In (n, v) enc_table /\ norm_name name = norm_name n.
Proof.
  unfold lookup. destruct (find (fun e => enc_equiv name (fst e)) enc_table) as [[n v']|] eqn:F; [|discriminate].
  intros H. inversion H; subst v'. apply find_some in F. destruct F as [I E]. cbn [fst] in E.
  exists n. split; [exact I|apply enc_equiv_iff; exact E].
Qed.

Lemma lookup_none_iff name : lookup name = None <-> forall n v, In (n, v) enc_table -> norm_name name <> norm_name n.
Proof.
  unfold lookup. split.
  - destruct (find (fun e => enc_equiv name (fst e)) enc_table) as [[n v']|] eqn:F; [discriminate|].
    intros _ n v I E. pose proof (find_none _ _ F _ I) as Nn. cbn [fst] in Nn.
    apply enc_equiv_iff in E. congruence.
  - intros H. destruct (find (fun e => enc_equiv name (fst e)) enc_table) as [[n v']|] eqn:F; [|reflexivity].
    apply find_some in F. destruct F as [I E]. cbn [fst] in E. apply enc_equiv_iff in E. exfalso. eapply H; eauto.
Qed.

(* normalisation: only digits and lower-case letters survive; case and punctuation are ignored *)
Lemma norm_name_alphabet l : Forall (fun c => 48 <= c <= 57 \/ 97 <= c <= 122) (norm_name l).
Proof.
  induction l as [|c l IH]; cbn [norm_name]; [constructor|].
  destruct (c =? 0); [constructor|]. unfold name_step.
  destruct ((48 <=? c) && (c <=? 57)) eqn:D; [constructor; [lia|exact IH]|].
  destruct ((97 <=? c) && (c <=? 122)) eqn:L; [constructor; [lia|exact IH]|].
  destruct ((65 <=? c) && (c <=? 90)) eqn:U; [constructor; [lia|exact IH]|exact IH].
Qed.
