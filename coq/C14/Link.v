(* C14: the definitions regenerated from the current source (coq/gen/Gen_C14.v, written by checks/C14.py with
   tools/cxx2v.py) are the model's leaf functions.  Byte-indexed facts are 256-point sweeps (vm_compute) lifted by
   sweep256; facts about code points are proved for every value by case analysis. *)
From CppcmsV Require Import Base.Tac Base.CSem Base.CSemFacts Base.Sweep C14.Defs gen.Gen_C14.
Local Open Scope N_scope.

Ltac sweep_bool P H := apply eqb_prop; apply (sweep256 P); [vm_compute; reflexivity|exact H].

(* ---- cppcms: private/utf_iterator.h ---- *)
Lemma link_utf_valid v : g_utf_valid (Z.of_N v) = cp_valid v.
Proof.
  unfold g_utf_valid, cp_valid.
  destruct (N.ltb_spec 1114111 v); [replace (Z.of_N v >? 1114111)%Z with true by lia; reflexivity|].
  replace (Z.of_N v >? 1114111)%Z with false by lia.
  replace ((55296 <=? Z.of_N v)%Z && (Z.of_N v <=? 57343)%Z) with ((55296 <=? v) && (v <=? 57343)) by lia.
  reflexivity.
Qed.

(* is_trail(char): the callers pass an unsigned char, converted to char *)
Lemma link_is_trail b : b < 256 -> g_is_trail (wraps 8 (Z.of_N b)) = is_trail b.
Proof. intros H. sweep_bool (fun b => eqb (g_is_trail (wraps 8 (Z.of_N b))) (is_trail b)) H. Qed.

Lemma link_trail_length b : b < 256 -> g_trail_length (Z.of_N b) = trail_length b.
Proof.
  intros H. apply Z.eqb_eq.
  apply (sweep256 (fun b => (g_trail_length (Z.of_N b) =? trail_length b)%Z)); [vm_compute; reflexivity|exact H].
Qed.

Lemma link_width v : g_width (Z.of_N v) = width v.
Proof.
  unfold g_width, width.
  destruct (N.leb_spec v 127); [replace (Z.of_N v <=? 127)%Z with true by lia; reflexivity|].
  replace (Z.of_N v <=? 127)%Z with false by lia.
  destruct (N.leb_spec v 2047); [replace (Z.of_N v <=? 2047)%Z with true by lia; reflexivity|].
  replace (Z.of_N v <=? 2047)%Z with false by lia.
  destruct (N.leb_spec v 65535); [replace (Z.of_N v <=? 65535)%Z with true by lia; reflexivity|].
  replace (Z.of_N v <=? 65535)%Z with false by lia. reflexivity.
Qed.

(* ---- booster: booster/locale/utf.h, utf_traits<char,1> ---- *)
Lemma link_b_is_valid_codepoint v : g_b_is_valid_codepoint (Z.of_N v) = cp_valid v.
Proof.
  unfold g_b_is_valid_codepoint, cp_valid.
  destruct (N.ltb_spec 1114111 v); [replace (Z.of_N v >? 1114111)%Z with true by lia; reflexivity|].
  replace (Z.of_N v >? 1114111)%Z with false by lia.
  replace ((55296 <=? Z.of_N v)%Z && (Z.of_N v <=? 57343)%Z) with ((55296 <=? v) && (v <=? 57343)) by lia.
  reflexivity.
Qed.

Lemma link_b_is_trail b : b < 256 -> g_b_is_trail (wraps 8 (Z.of_N b)) = is_trail b.
Proof. intros H. sweep_bool (fun b => eqb (g_b_is_trail (wraps 8 (Z.of_N b))) (is_trail b)) H. Qed.

Lemma link_b_is_lead b : b < 256 -> g_b_is_lead (wraps 8 (Z.of_N b)) = negb (is_trail b).
Proof. intros H. sweep_bool (fun b => eqb (g_b_is_lead (wraps 8 (Z.of_N b))) (negb (is_trail b))) H. Qed.

(* trail_length(char_type) with char_type = char *)
Lemma link_b_trail_length b : b < 256 -> g_b_trail_length (wraps 8 (Z.of_N b)) = trail_length b.
Proof.
  intros H. apply Z.eqb_eq.
  apply (sweep256 (fun b => (g_b_trail_length (wraps 8 (Z.of_N b)) =? trail_length b)%Z)); [vm_compute; reflexivity|exact H].
Qed.

Lemma link_b_width v : g_b_width (Z.of_N v) = width v.
Proof.
  unfold g_b_width, width.
  destruct (N.leb_spec v 127); [replace (Z.of_N v <=? 127)%Z with true by lia; reflexivity|].
  replace (Z.of_N v <=? 127)%Z with false by lia.
  destruct (N.leb_spec v 2047); [replace (Z.of_N v <=? 2047)%Z with true by lia; reflexivity|].
  replace (Z.of_N v <=? 2047)%Z with false by lia.
  destruct (N.leb_spec v 65535); [replace (Z.of_N v <=? 65535)%Z with true by lia; reflexivity|].
  replace (Z.of_N v <=? 65535)%Z with false by lia. reflexivity.
Qed.

(* ---- single-byte validators: the generated loop body is the model's byte_ok ---- *)
Definition gen_sb (k : sbkind) : Z -> bool :=
  match k with
  | SB_ascii => g_sb_ascii | SB_iso => g_sb_iso_generic | SB_iso3 => g_sb_iso_3 | SB_iso6 => g_sb_iso_6
  | SB_iso7 => g_sb_iso_7 | SB_iso8 => g_sb_iso_8 | SB_iso11 => g_sb_iso_11
  | SB_1250 => g_sb_1250 | SB_1251 => g_sb_1251 | SB_1252 => g_sb_1252 | SB_1253 => g_sb_1253
  | SB_1254 => g_sb_1254 | SB_1255 => g_sb_1255 | SB_1256 => g_sb_1256 | SB_1257 => g_sb_1257
  | SB_1258 => g_sb_1258 | SB_koi8 => g_sb_koi8
  end.
Definition all_kinds : list sbkind :=
  [SB_ascii; SB_iso; SB_iso3; SB_iso6; SB_iso7; SB_iso8; SB_iso11; SB_1250; SB_1251; SB_1252; SB_1253; SB_1254;
   SB_1255; SB_1256; SB_1257; SB_1258; SB_koi8].
Lemma all_kinds_complete k : In k all_kinds.
Proof. destruct k; cbn; tauto. Qed.

Lemma link_sb k b : b < 256 -> gen_sb k (Z.of_N b) = byte_ok k b.
Proof.
  intros H.
  assert (forallb (fun k => forallb (fun b => eqb (gen_sb k (Z.of_N b)) (byte_ok k b)) bytesN) all_kinds = true) as A
    by (vm_compute; reflexivity).
  rewrite forallb_forall in A. specialize (A k (all_kinds_complete k)).
  apply eqb_prop. exact (sweep256 _ A b H).
Qed.

(* ---- encoding names: loop body of encodings_comparator::next ---- *)
Lemma link_name_step b : b < 256 ->
  g_enc_name_step (Z.of_N b) = match name_step b with Some x => Z.of_N x | None => (-1)%Z end.
Proof.
  intros H. apply Z.eqb_eq.
  apply (sweep256 (fun b => (g_enc_name_step (Z.of_N b) =? match name_step b with Some x => Z.of_N x | None => -1 end)%Z));
    [vm_compute; reflexivity|exact H].
Qed.
