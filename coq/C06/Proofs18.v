(* C06 proofs, part 18: exposed-value cookies in step with the session cookie in ALL expiration modes (/repo 75ecec5:
   update_exposed(force_update, new_session_ || how_!=fixed)).  A save that goes through either gives the session cookie a
   new lifetime - then every exposed value is sent again with it - or (fixed mode, neither new nor reset) leaves the lifetime
   as it is - then the cookies of unchanged exposed values are left as they are and the changed ones are sent with it.
   So "the cookie of every exposed value ends with the session cookie" is preserved by every save. *)
From CppcmsV Require Import Base.Tac C06.Defs C06.Proofs C06.ProofsNum C06.ProofsMap C06.Proofs2 C06.Proofs3 C06.Proofs4 C06.Proofs5 C06.Proofs6 C06.Proofs7 C06.Proofs8 C06.Proofs10 C06.Proofs12 C06.Proofs13 C06.Proofs14.
Local Open Scope N_scope.

Lemma sid_load_jexp : forall w b, j_exp (get_jar (fst (fst (sid_load w b))) b) = j_exp (get_jar w b).
Proof.
  intros. unfold sid_load. destruct (valid_sid (j_sess (get_jar w b))) as [i|]; [|reflexivity].
  destruct (st_load (w_now w) i (w_store w)) as [[dl d]|]; [|reflexivity].
  destruct (dl <? w_now w)%Z; reflexivity.
Qed.

Lemma cookies_load_jexp : forall w b, j_exp (get_jar (fst (fst (cookies_load w b))) b) = j_exp (get_jar w b).
Proof.
  intros. unfold cookies_load. destruct (j_sess (get_jar w b)) as [[[s|dl d] e]|]; cbn [fst]; try reflexivity.
  - destruct s; cbn [fst]; [reflexivity|]. rewrite get_set_jar_same. reflexivity.
  - destruct (dl <? w_now w)%Z; cbn [fst]; [|reflexivity]. rewrite get_set_jar_same. reflexivity.
Qed.

Lemma backend_load_jexp : forall c w b, j_exp (get_jar (fst (fst (backend_load c w b))) b) = j_exp (get_jar w b).
Proof.
  intros. unfold backend_load.
  destruct (c_loc c =? 0); [apply sid_load_jexp|]. destruct (c_loc c =? 1); [apply cookies_load_jexp|].
  destruct (cookie_first (j_sess (get_jar w b))) as [x|]; [|apply sid_load_jexp].
  destruct (N.eq_dec x 67) as [->|Hn]; [apply cookies_load_jexp|].
  destruct x as [|p]; [apply sid_load_jexp|].
  do 7 (destruct p as [p|p|]; try apply sid_load_jexp). contradiction Hn. reflexivity.
Qed.

Section Fresh.
Variable fresh : N -> bytes.

(* one save that goes through, any mode: the cookie of an exposed non-empty value is in the jar with the lifetime ex of the
   session cookie afterwards if it is (re)sent - the lifetime is renewed, or the entry is new / changed - or if it was there
   with that lifetime before *)
Lemma si_save_exposed_all : forall c w b s blob w1 l1 ex,
  dempty (s_data s) = false -> ssorted (s_data s) -> skipped (w_now w) s = false -> save_data (s_data s) = Some blob ->
  si_save fresh c w b s = (w1, l1, None) ->
  age_exp (w_now w) (cookie_age (w_now w) s (newsess_of s)) = Some ex ->
  (exists ck, j_sess (get_jar w1 b) = Some (ck, ex)) /\
  forall k v, dfind k (s_data s) = Some (v, true) -> v <> [] ->
    In (k, (v, ex)) (j_exp (get_jar w b)) \/ lifetime_renewed s = true \/ entry_changed (s_copy s) k v = true ->
    In (k, (v, ex)) (j_exp (get_jar w1 b)).
Proof.
  intros c w b s blob w1 l1 ex Hd Hs Hk Hb Hsave Hex.
  destruct (si_save_exposed fresh c w b s blob w1 l1 ex Hd Hs Hk Hb Hsave Hex) as [Hck Hsent].
  split; [exact Hck|].
  intros k v Hf Hv Hc.
  destruct (lifetime_renewed s) eqn:Hr; [apply Hsent; try assumption; left; reflexivity|].
  destruct (entry_changed (s_copy s) k v) eqn:Hch; [apply Hsent; try assumption; right; exact Hch|].
  destruct Hc as [Hin|[Hc|Hc]]; [|discriminate Hc|discriminate Hc].
  (* fixed, neither new nor reset, entry unchanged: nothing is sent for k, the cookie stays *)
  unfold lifetime_renewed in Hr. apply orb_false_iff in Hr. destruct Hr as [Hn Hh]. apply negb_false_iff in Hh.
  rewrite (si_save_path fresh c w b s blob Hd Hk Hb) in Hsave. rewrite Hn in Hsave.
  pose proof (backend_save_jexp fresh c w b blob (session_age (w_now w) s false) false (s_onsrv s)) as Hje.
  destruct (backend_save fresh c w b blob (session_age (w_now w) s false) false (s_onsrv s)) as [[w' l'] [ck|]]; [|discriminate Hsave].
  cbn [fst] in Hje. rewrite <- Hje in Hin. cbv zeta in Hsave. injection Hsave as <- <-.
  unfold get_jar at 1. cbn [w_jars]. rewrite nth_set_nth_same. cbn [j_exp].
  assert (dmap_eqb (s_data s) (s_copy s) = false) as K.
  { unfold skipped in Hk. cbv zeta in Hk. rewrite Hn, Hh in Hk. cbn [negb] in Hk.
    apply orb_false_iff in Hk. destruct Hk as [K _]. rewrite !andb_true_r in K. exact K. }
  rewrite K, Hh. cbn [negb andb orb].
  apply update_exposed_keeps with (v := v); try assumption.
  unfold jar_set_sess. rewrite Hn in Hex. rewrite Hex. cbn [j_exp]. exact Hin.
Qed.

(* the same for a whole request of browser b (any script, any location): `in_step` of an exposed value is re-established by
   every saving request - it is sent again, or the cookie the browser presented with the request (after dropping what had
   expired) already ended with the lifetime the session cookie keeps *)
Theorem request_keeps_in_step : forall c w b script s' blob ex,
  req_state c w b script = Some s' ->
  dempty (s_data s') = false -> skipped (w_now w) s' = false -> save_data (s_data s') = Some blob ->
  o_exc (snd (request fresh c w b script)) = None ->
  age_exp (w_now w) (cookie_age (w_now w) s' (newsess_of s')) = Some ex ->
  forall k v, dfind k (s_data s') = Some (v, true) -> v <> [] ->
    In (k, (v, ex)) (j_exp (jar_expire (w_now w) (get_jar w b))) \/ lifetime_renewed s' = true \/ entry_changed (s_copy s') k v = true ->
    in_step b k v ex (get_jar (fst (request fresh c w b script)) b).
Proof.
  intros c w b script s' blob ex Hrs Hd Hk Hb Hexc Hex k v Hf Hv Hc.
  set (w0 := set_jar w b (jar_expire (w_now w) (get_jar w b))) in *.
  unfold req_state in Hrs. fold w0 in Hrs.
  destruct (si_load c w0 b) as [[wl l1] r] eqn:Hld. destruct r as [[ld s]|e]; [|discriminate Hrs].
  injection Hrs as Hs'.
  assert (ssorted (s_data s')) as Hsort.
  { rewrite <- Hs'. apply ssorted_ops. pose proof (si_load_consistent c w0 b wl l1 ld s Hld) as Hcs. exact (proj1 Hcs). }
  assert (wl = fst (fst (backend_load c w0 b))) as Hwl.
  { pose proof (si_load_world c w0 b) as E. rewrite Hld in E. cbn [fst] in E. exact E. }
  assert (w_now wl = w_now w) as Tn.
  { pose proof (backend_load_jf c b w0) as [_ A]. rewrite <- Hwl in A. exact A. }
  assert (j_exp (get_jar wl b) = j_exp (jar_expire (w_now w) (get_jar w b))) as Hjx.
  { rewrite Hwl, backend_load_jexp. unfold w0. rewrite get_set_jar_same. reflexivity. }
  assert (skipped (w_now wl) s' = false) as Hk' by (rewrite Tn; exact Hk).
  destruct (si_save fresh c wl b s') as [[ws ls] es] eqn:Hsave.
  assert (request fresh c w b script = (ws, mkobs (Some (ld, s_data s, s_tval s, s_how s, s_onsrv s)) es (l1 ++ ls))) as Hreq.
  { unfold request. fold w0. rewrite Hld, Hs', Hsave. reflexivity. }
  rewrite Hreq in Hexc. cbn [snd o_exc] in Hexc. subst es.
  rewrite Hreq. cbn [fst].
  rewrite <- Tn in Hex.
  destruct (si_save_exposed_all c wl b s' blob ws ls ex Hd Hsort Hk' Hb Hsave Hex) as [Hck Hx].
  unfold in_step. split; [exact Hck|]. apply Hx; try assumption.
  rewrite Hjx. exact Hc.
Qed.

End Fresh.
