(* C06 proofs, part 10: end to end (server back-end) from premises that hold in every reachable world *)
From CppcmsV Require Import Base.Tac C06.Defs C06.Proofs C06.ProofsNum C06.ProofsMap C06.Proofs2 C06.Proofs3 C06.Proofs4 C06.Proofs5 C06.Proofs6 C06.Proofs7.
Local Open Scope N_scope.

Section Fresh.
Variable fresh : N -> bytes.
Hypothesis fresh_inj : forall m n, fresh m = fresh n -> m = n.

(* every well-formed id in a jar or in the store came from the random source (no guessing, no planted records) *)
Definition not_future (w : world) (id : bytes) : Prop := forall n, w_next w <= n -> fresh n <> id.
Definition store_issued (w : world) : Prop := forall id, st_find id (w_store w) <> None -> issued fresh w id.
Definition jars_not_future (w : world) : Prop := forall b id, valid_sid (j_sess (get_jar w b)) = Some id -> not_future w id.

Lemma apply_ops_copy : forall c l s, s_copy (apply_ops c s l) = s_copy s.
Proof.
  intros c l. unfold apply_ops. induction l as [|o r IH]; intros s; cbn [fold_left]; [reflexivity|].
  rewrite IH. destruct o; reflexivity.
Qed.

(* a loaded non-empty session on the server back-end was found in storage under the presented id *)
Lemma si_load_copy_hit : forall c w b w1 l ld s id,
  c_loc c = 0 -> si_load c w b = (w1, l, inl (ld, s)) -> dempty (s_copy s) = false ->
  valid_sid (j_sess (get_jar w b)) = Some id -> st_find id (w_store w) <> None.
Proof.
  intros c w b w1 l ld s id Hl H Hc Hv. unfold si_load, backend_load in H. rewrite Hl in H. cbn [N.eqb] in H.
  unfold sid_load in H. rewrite Hv in H. unfold st_load in H.
  destruct (st_find id (w_store w)) as [[dl d]|]; [discriminate|].
  cbv beta iota in H. injection H as _ _ _ <-. discriminate Hc.
Qed.

Theorem end_to_end_server2 : forall c w b script1 s' blob ex l script2,
  c_loc c = 0 ->
  sid_ok (fresh (w_next w)) = true ->
  store_issued w -> jars_not_future w ->
  (forall b' id, b' <> b -> valid_sid (j_sess (get_jar w b')) = Some id -> valid_sid (j_sess (get_jar w b)) <> Some id) ->
  req_state c w b script1 = Some s' ->
  forallb op_keeps script1 = true ->
  dempty (s_data s') = false -> skipped (w_now w) s' = false -> save_data (s_data s') = Some blob ->
  age_exp (w_now w) (cookie_age (w_now w) s' (newsess_of s')) = Some ex ->
  let w1 := fst (request fresh c w b script1) in
  (forall id, valid_sid (j_sess (get_jar w1 b)) = Some id -> Forall (foreign_step b id) l) ->
  let w2 := fst (run fresh c w1 l) in
  (w_now w2 <= session_age (w_now w) s' (newsess_of s'))%Z -> exp_live (w_now w2) ex = true ->
  o_loaded (snd (request fresh c w2 b script2)) = Some (true, s_data s', s_tval s', s_how s', s_onsrv s').
Proof.
  intros c w b script1 s' blob ex l script2 Hl Hfo Hsi Hjn Huniq Hrs Hops Hd Hk Hb Hex w1 Hfor w2 Hn Hlive.
  set (w0 := set_jar w b (jar_expire (w_now w) (get_jar w b))) in *.
  unfold req_state in Hrs. fold w0 in Hrs.
  destruct (si_load c w0 b) as [[wl l1] r] eqn:Hld. destruct r as [[ld s]|e]; [|discriminate Hrs].
  injection Hrs as Hs'.
  assert (consistent c s') as Hc.
  { rewrite <- Hs'. apply consistent_ops; [exact Hops|]. eapply si_load_consistent. exact Hld. }
  destruct Hc as (Hsort & Ht & Hh & sv & Hsv & Hodd).
  (* the world after load: only the store may differ from w0 (an expired record removed) *)
  assert (wl = fst (fst (sid_load w0 b))) as Hwl.
  { pose proof (si_load_world c w0 b) as E. rewrite Hld in E. cbn [fst] in E. rewrite E.
    unfold backend_load. rewrite Hl. reflexivity. }
  destruct (sid_load_same w0 b) as (Tn & Tx & Tj). rewrite <- Hwl in Tn, Tx, Tj.
  assert (w_now wl = w_now w) as Tn' by (rewrite Tn; reflexivity).
  assert (w_next wl = w_next w) as Tx' by (rewrite Tx; reflexivity).
  assert (forall b', get_jar wl b' = get_jar w0 b') as Tj' by (intros; unfold get_jar; rewrite Tj; reflexivity).
  (* the save *)
  assert (skipped (w_now wl) s' = false) as Hk' by (rewrite Tn'; exact Hk).
  pose proof (si_save_path fresh c wl b s' blob Hd Hk' Hb) as Hsave.
  unfold backend_save in Hsave. rewrite Hl in Hsave. cbn [N.eqb] in Hsave.
  destruct (sid_save fresh wl b blob (session_age (w_now wl) s' (newsess_of s')) (newsess_of s')) as [[ws ls] rs] eqn:Hss.
  assert (sid_ok (fresh (w_next wl)) = true) as Hfo' by (rewrite Tx'; exact Hfo).
  destruct (sid_save_stores_local fresh fresh_inj _ _ _ _ _ _ _ _ Hfo' Hss) as (id & -> & Hok & Hst & Hjs & Hns & Hdisj).
  cbv zeta in Hsave.
  (* the request as a whole *)
  assert (request fresh c w b script1 =
          (fst (fst (si_save fresh c wl b s')), mkobs (Some (ld, s_data s, s_tval s, s_how s, s_onsrv s)) None (l1 ++ ls))) as Hreq.
  { unfold request. fold w0. rewrite Hld, Hs', Hsave. reflexivity. }
  assert (w1 = fst (fst (si_save fresh c wl b s'))) as Hw1 by (unfold w1; rewrite Hreq; reflexivity).
  rewrite Hsave in Hw1. cbn [fst] in Hw1.
  rewrite Tn' in *.
  (* facts about w1 *)
  assert (st_find id (w_store w1) = Some (session_age (w_now w) s' (newsess_of s'), blob)) as R1 by (rewrite Hw1; exact Hst).
  assert (j_sess (get_jar w1 b) = Some (CRaw (73 :: id), ex)) as R2.
  { rewrite Hw1. unfold get_jar at 1. cbn [w_jars]. rewrite nth_set_nth_same. cbn [j_sess]. unfold jar_set_sess. rewrite Hex. reflexivity. }
  assert (forall b', b' <> b -> get_jar w1 b' = get_jar w b') as R3.
  { intros b' Hb'. rewrite Hw1. unfold get_jar at 1. cbn [w_jars]. rewrite nth_set_nth_other by congruence.
    rewrite Hjs. change (nth b' (w_jars wl) jar0) with (get_jar wl b'). rewrite Tj'. unfold w0. apply get_set_jar_other. congruence. }
  assert (w_next w <= w_next w1) as R4.
  { rewrite Hw1. cbn [w_next]. destruct Hdisj as [[_ E]|[_ [_ E]]]; rewrite E, Tx'; lia. }
  assert (issued fresh w1 id) as R5.
  { destruct Hdisj as [[E1 E2]|[E1' [Enew' E2]]]; [|pose proof (conj E1' Enew') as E1].
    - exists (w_next wl). split; [rewrite Hw1; cbn [w_next]; rewrite E2; lia|exact E1].
    - destruct E1 as [E1 Enew].
      assert (dempty (s_copy s) = false) as Hcopy.
      { unfold newsess_of in Enew. apply orb_false_iff in Enew. destruct Enew as [En _].
        rewrite Hd in En. cbn [negb] in En. rewrite andb_true_r in En. rewrite <- Hs', apply_ops_copy in En. exact En. }
      rewrite Tj' in E1.
      pose proof (si_load_copy_hit c w0 b wl l1 ld s id Hl Hld Hcopy E1) as Hin.
      destruct (Hsi id Hin) as (k & Hk1 & Hk2). exists k. split; [lia|exact Hk2]. }
  assert (forall b', b' <> b -> valid_sid (j_sess (get_jar w1 b')) <> Some id) as R6.
  { intros b' Hb' E. rewrite R3 in E by exact Hb'.
    destruct Hdisj as [[E1 E2]|[E1 [_ E2]]].
    - apply (Hjn b' id E (w_next wl)); [lia|symmetry; exact E1].
    - rewrite Tj' in E1. unfold w0 in E1. rewrite get_set_jar_same in E1. apply valid_sid_expire in E1.
      exact (Huniq b' id Hb' E E1). }
  (* now the history theorem *)
  assert (holds fresh b id (session_age (w_now w) s' (newsess_of s'), blob)
                (mkjar (Some (CRaw (73 :: id), ex)) (j_exp (get_jar w1 b))) w1) as Hh1.
  { unfold holds. split; [exact R1|]. split.
    - destruct (get_jar w1 b) as [js je] eqn:Ej. cbn [j_sess j_exp] in *. rewrite R2. reflexivity.
    - split; [exact R5|exact R6]. }
  assert (c_loc c <> 1) as Hl1 by (rewrite Hl; discriminate).
  assert (valid_sid (j_sess (get_jar w1 b)) = Some id) as Hvid by (rewrite R2; apply valid_sid_intro; exact Hok).
  pose proof (carry_over_history fresh fresh_inj c b id _ blob ex _ l w1 (s_data s') (s_tval s') (s_how s') sv script2
                Hl1 Hh1 Hok (Hfor id Hvid) (codec_roundtrip_lemma _ _ Hsort Hb) Ht Hh Hsv) as Hfin.
  cbv zeta in Hfin. fold w2 in Hfin. rewrite (Hfin Hn Hlive), Hodd. reflexivity.
Qed.

End Fresh.
