(* C06 proofs, part 13: a request whose save takes one of the two early returns (fixed and unchanged; renew / browser unchanged
   within the first 10 % of the period) changes nothing on the server and nothing in the browser except that cookies whose
   max-age elapsed are gone; exposed-value cookies stay in step with the session cookie across any number of such requests
   of the same browser, interleaved with anything that happens elsewhere. *)
From CppcmsV Require Import Base.Tac C06.Defs C06.Proofs C06.ProofsNum C06.ProofsMap C06.Proofs2 C06.Proofs3 C06.Proofs4 C06.Proofs5 C06.Proofs6 C06.Proofs7 C06.Proofs8 C06.Proofs10 C06.Proofs12.
Local Open Scope N_scope.

Lemma sid_load_some_world : forall w b w1 l x, sid_load w b = (w1, l, Some x) -> w1 = w.
Proof.
  intros w b w1 l x H. unfold sid_load in H.
  destruct (valid_sid (j_sess (get_jar w b))) as [id|]; [|discriminate H].
  destruct (st_load (w_now w) id (w_store w)) as [[dl d]|]; [|discriminate H].
  destruct (dl <? w_now w)%Z; [discriminate H|]. injection H as E _ _. symmetry. exact E.
Qed.

Lemma cookies_load_some_world : forall w b w1 l x, cookies_load w b = (w1, l, Some x) -> w1 = w.
Proof.
  intros w b w1 l x H. unfold cookies_load in H.
  destruct (j_sess (get_jar w b)) as [[[s|dl d] e]|]; [| |discriminate H].
  - destruct s; discriminate H.
  - destruct (dl <? w_now w)%Z; [discriminate H|]. injection H as E _ _. symmetry. exact E.
Qed.

Lemma backend_load_some_world : forall c w b w1 l x, backend_load c w b = (w1, l, Some x) -> w1 = w.
Proof.
  intros c w b w1 l x H. unfold backend_load in H.
  destruct (c_loc c =? 0); [eapply sid_load_some_world; exact H|].
  destruct (c_loc c =? 1); [eapply cookies_load_some_world; exact H|].
  destruct (cookie_first (j_sess (get_jar w b))) as [y|]; [|eapply sid_load_some_world; exact H].
  destruct (N.eq_dec y 67) as [->|Hn]; [eapply cookies_load_some_world; exact H|].
  destruct y as [|p]; [eapply sid_load_some_world; exact H|].
  do 7 (destruct p as [p|p|]; try (eapply sid_load_some_world; exact H)). contradiction Hn. reflexivity.
Qed.

(* a load that returns a session (non-empty data_copy_) leaves the world as it is *)
Lemma si_load_hit_world : forall c w b w1 l ld s,
  si_load c w b = (w1, l, inl (ld, s)) -> dempty (s_copy s) = false -> w1 = w.
Proof.
  intros c w b w1 l ld s H Hc. unfold si_load in H.
  destruct (backend_load c w b) as [[w' l'] r] eqn:Hb. destruct r as [[blob dl]|].
  - pose proof (backend_load_some_world _ _ _ _ _ _ Hb) as E. subst w'.
    destruct (load_data blob) as [m| |]; try discriminate H.
    destruct (special k_t m (c_timeout c)); [|discriminate H].
    destruct (special k_h m (c_how c)); [|discriminate H].
    destruct (special k_s m 0%Z); [|discriminate H].
    injection H as E _ _ _. symmetry. exact E.
  - injection H as _ _ _ E. subst s. discriminate Hc.
Qed.

Lemma exp_live_mono : forall t1 t2 e, (t1 <= t2)%Z -> exp_live t2 e = true -> exp_live t1 e = true.
Proof.
  intros t1 t2 e Ht H. destruct e as [|t]; cbn [exp_live] in *; [reflexivity|].
  apply negb_true_iff in H. apply Z.ltb_ge in H. apply negb_true_iff. apply Z.ltb_ge. lia.
Qed.

Section Fresh.
Variable fresh : N -> bytes.

Lemma si_save_skipped : forall c w b s,
  dempty (s_data s) = false -> skipped (w_now w) s = true -> si_save fresh c w b s = (w, [], None).
Proof.
  intros c w b s Hd Hk. unfold si_save. cbv zeta. fold (newsess_of s). rewrite Hd.
  unfold skipped in Hk. cbv zeta in Hk. apply orb_true_iff in Hk.
  destruct (dmap_eqb (s_data s) (s_copy s) && negb (newsess_of s) && (s_how s =? 0)%Z) eqn:K1; [reflexivity|].
  destruct Hk as [K|K]; [discriminate K|]. rewrite K. reflexivity.
Qed.

(* the whole request: nothing is written, nothing is removed, no cookie is set; the only difference between the worlds
   before and after is that the browser has dropped the cookies whose max-age had elapsed when it sent the request *)
Theorem request_skipped_world : forall c w b script s',
  req_state c w b script = Some s' ->
  dempty (s_data s') = false -> skipped (w_now w) s' = true ->
  fst (request fresh c w b script) = set_jar w b (jar_expire (w_now w) (get_jar w b)) /\
  o_exc (snd (request fresh c w b script)) = None /\
  Forall (fun op => exists id f, op = OpL id f) (o_log (snd (request fresh c w b script))).
Proof.
  intros c w b script s' Hrs Hd Hk.
  set (w0 := set_jar w b (jar_expire (w_now w) (get_jar w b))) in *.
  unfold req_state in Hrs. fold w0 in Hrs.
  destruct (si_load c w0 b) as [[wl l1] r] eqn:Hld. destruct r as [[ld s]|e]; [|discriminate Hrs].
  injection Hrs as Hs'.
  assert (dempty (s_copy s) = false) as Hcopy.
  { unfold skipped in Hk. cbv zeta in Hk.
    assert (newsess_of s' = false) as Hn.
    { destruct (newsess_of s'); [|reflexivity]. cbn [negb] in Hk. rewrite !andb_false_r in Hk. discriminate Hk. }
    unfold newsess_of in Hn. apply orb_false_iff in Hn. destruct Hn as [Hn _].
    rewrite Hd in Hn. cbn [negb] in Hn. rewrite andb_true_r in Hn. rewrite <- Hs', apply_ops_copy in Hn. exact Hn. }
  pose proof (si_load_hit_world c w0 b wl l1 ld s Hld Hcopy) as E. subst wl.
  assert (skipped (w_now w0) s' = true) as Hk' by exact Hk.
  pose proof (si_save_skipped c w0 b s' Hd Hk') as Hsave.
  assert (request fresh c w b script = (w0, mkobs (Some (ld, s_data s, s_tval s, s_how s, s_onsrv s)) None (l1 ++ []))) as Hreq.
  { unfold request. fold w0. rewrite Hld, Hs', Hsave. reflexivity. }
  rewrite Hreq. cbn [fst snd o_exc o_log]. split; [reflexivity|]. split; [reflexivity|].
  rewrite app_nil_r.
  (* the log of a load contains only load operations when the world is unchanged: read it off si_load *)
  clear Hreq Hsave Hk' Hk Hd Hs'.
  unfold si_load in Hld. destruct (backend_load c w0 b) as [[w' l'] rr] eqn:Hb.
  assert (l1 = l') as ->.
  { destruct rr as [[blob dl]|]; [|injection Hld as _ E _; symmetry; exact E].
    destruct (load_data blob) as [m| |]; try discriminate Hld.
    destruct (special k_t m (c_timeout c)); [|discriminate Hld].
    destruct (special k_h m (c_how c)); [|discriminate Hld].
    destruct (special k_s m 0%Z); [|discriminate Hld].
    injection Hld as _ E _. symmetry. exact E. }
  assert (forall ww bb, Forall (fun op => exists id f, op = OpL id f) (snd (fst (cookies_load ww bb)))) as Hc.
  { intros ww bb. unfold cookies_load. destruct (j_sess (get_jar ww bb)) as [[[s0|dl d] e]|]; cbn [fst snd]; try constructor.
    - destruct s0; constructor.
    - destruct (dl <? w_now ww)%Z; constructor. }
  assert (forall ww bb w2 l2 x, sid_load ww bb = (w2, l2, Some x) -> Forall (fun op => exists id f, op = OpL id f) l2) as Hs.
  { intros ww bb w2 l2 x H. unfold sid_load in H.
    destruct (valid_sid (j_sess (get_jar ww bb))) as [id|]; [|discriminate H].
    destruct (st_load (w_now ww) id (w_store ww)) as [[dl d]|]; [|discriminate H].
    destruct (dl <? w_now ww)%Z; [discriminate H|]. injection H as _ E _. subst l2. repeat constructor. eexists _, _. reflexivity. }
  destruct rr as [x|].
  2:{ injection Hld as _ _ E. subst s. discriminate Hcopy. }
  unfold backend_load in Hb.
  destruct (c_loc c =? 0); [eapply Hs; exact Hb|].
  destruct (c_loc c =? 1); [pose proof (Hc w0 b) as H; rewrite Hb in H; exact H|].
  destruct (cookie_first (j_sess (get_jar w0 b))) as [y|]; [|eapply Hs; exact Hb].
  destruct (N.eq_dec y 67) as [->|Hn]; [pose proof (Hc w0 b) as H; rewrite Hb in H; exact H|].
  destruct y as [|p]; [eapply Hs; exact Hb|].
  do 7 (destruct p as [p|p|]; try (eapply Hs; exact Hb)). contradiction Hn. reflexivity.
Qed.


(* ---------- exposed cookies across any number of quiet requests of the same browser ---------- *)
(* a step that is quiet for browser b: anything that happens elsewhere, a clock advance (time does not go back), or a
   request of b itself whose save takes one of the early returns *)
Definition quiet_step (c : cfg) (b : nat) (w : world) (st : step) : Prop :=
  match st with
  | StT dt => (0 <= dt)%Z
  | StR b' script =>
      b' <> b \/ exists s', req_state c w b' script = Some s' /\ dempty (s_data s') = false /\ skipped (w_now w) s' = true
  | _ => not_on b st
  end.

Fixpoint quiet_run (c : cfg) (b : nat) (w : world) (l : list step) : Prop :=
  match l with
  | [] => True
  | st :: r => quiet_step c b w st /\ quiet_run c b (fst (do_step fresh c w st)) r
  end.

Lemma quiet_step_now : forall c b w st, quiet_step c b w st -> (w_now w <= w_now (fst (do_step fresh c w st)))%Z.
Proof.
  intros c b w st H. destruct st; cbn [do_step quiet_step] in *.
  - cbn [fst w_now]. lia.
  - pose proof (request_jf fresh c b0 w script) as [_ A]. destruct (request fresh c w b0 script) as [w' o]. cbn [fst] in *. lia.
  - cbn [fst]. unfold attack_set. destruct s; cbn [set_jar w_now]; lia.
  - destruct (w_hist w) as [|h0 hs]; cbn [fst]; [lia|]. unfold attack_set.
    destruct (mutate m (nth (i mod length (h0 :: hs)) (h0 :: hs) h0)) as [[|x s]|dl d]; cbn [set_jar w_now]; lia.
  - cbn [fst set_jar w_now]. lia.
  - cbn [fst set_jar w_now]. destruct (c_loc c =? 1); cbn [set_store w_now]; lia.
Qed.

Lemma quiet_run_now : forall c b l w, quiet_run c b w l -> (w_now w <= w_now (fst (run fresh c w l)))%Z.
Proof.
  intros c b l. induction l as [|st r IH]; intros w H; cbn [run]; [cbn [fst]; lia|].
  destruct H as [H1 H2]. pose proof (quiet_step_now c b w st H1) as A.
  destruct (do_step fresh c w st) as [w1 o]. cbn [fst] in *. specialize (IH w1 H2).
  destruct (run fresh c w1 r) as [w2 os]. cbn [fst] in *. lia.
Qed.

Lemma quiet_step_jar : forall c b w st, quiet_step c b w st ->
  get_jar (fst (do_step fresh c w st)) b = get_jar w b \/
  get_jar (fst (do_step fresh c w st)) b = jar_expire (w_now w) (get_jar w b).
Proof.
  intros c b w st H.
  assert (not_on b st -> get_jar (fst (do_step fresh c w st)) b = get_jar w b) as Hn by apply step_keeps_jar.
  destruct st; cbn [quiet_step] in H; try (left; apply Hn; exact H).
  - left. apply Hn. exact I.
  - destruct H as [H|(s' & Hrs & Hd & Hk)]; [left; apply Hn; exact H|].
    destruct (Nat.eq_dec b0 b) as [->|Hne]; [|left; apply Hn; exact Hne].
    right. cbn [do_step].
    pose proof (request_skipped_world c w b script s' Hrs Hd Hk) as [E _].
    destruct (request fresh c w b script) as [w' o]. cbn [fst] in *. rewrite E. apply get_set_jar_same.
Qed.

(* the cookies of browser b: a session cookie and the cookie of k = v, both ending at ex *)
Definition in_step (b : nat) (k v : bytes) (ex : cexp) (j : jar) : Prop :=
  (exists ck, j_sess j = Some (ck, ex)) /\ In (k, (v, ex)) (j_exp j).

Lemma in_step_expire : forall b k v ex now j, exp_live now ex = true -> in_step b k v ex j -> in_step b k v ex (jar_expire now j).
Proof.
  intros b k v ex now j Hl [[ck Hck] Hin]. unfold in_step, jar_expire. cbn [j_sess j_exp]. split.
  - exists ck. rewrite Hck, Hl. reflexivity.
  - apply filter_In. split; [exact Hin|exact Hl].
Qed.

Lemma quiet_run_in_step : forall c b k v ex l w,
  quiet_run c b w l -> exp_live (w_now (fst (run fresh c w l))) ex = true ->
  in_step b k v ex (get_jar w b) -> in_step b k v ex (get_jar (fst (run fresh c w l)) b).
Proof.
  intros c b k v ex l. induction l as [|st r IH]; intros w Hq Hl Hi; cbn [run]; [exact Hi|].
  destruct Hq as [H1 H2]. cbn [run] in Hl.
  pose proof (quiet_step_jar c b w st H1) as Hj.
  pose proof (quiet_step_now c b w st H1) as Hn1.
  destruct (do_step fresh c w st) as [w1 o]. cbn [fst] in *.
  pose proof (quiet_run_now c b r w1 H2) as Hn2.
  specialize (IH w1 H2).
  destruct (run fresh c w1 r) as [w2 os]. cbn [fst] in *.
  apply IH; [exact Hl|].
  destruct Hj as [->| ->]; [exact Hi|].
  apply in_step_expire; [|exact Hi]. apply (exp_live_mono _ (w_now w2)); [lia|exact Hl].
Qed.

(* the request that sent the cookies *)
Lemma request_exposed : forall c w b script1 s' blob ex,
  req_state c w b script1 = Some s' ->
  dempty (s_data s') = false -> skipped (w_now w) s' = false -> save_data (s_data s') = Some blob ->
  o_exc (snd (request fresh c w b script1)) = None ->
  age_exp (w_now w) (cookie_age (w_now w) s' (newsess_of s')) = Some ex ->
  forall k v, dfind k (s_data s') = Some (v, true) -> v <> [] ->
    lifetime_renewed s' = true \/ entry_changed (s_copy s') k v = true ->
    in_step b k v ex (get_jar (fst (request fresh c w b script1)) b).
Proof.
  intros c w b script1 s' blob ex Hrs Hd Hk Hb Hexc Hex k v Hf Hv Hc.
  pose proof (exposed_in_step_history fresh c w b script1 s' blob ex [] Hrs Hd Hk Hb Hexc Hex (Forall_nil _)) as H.
  cbv zeta in H. cbn [run fst] in H.
  (* the jar right after the request: nothing has expired yet (ex was computed at the same clock value) *)
  set (w1 := fst (request fresh c w b script1)) in *.
  assert (w_now w1 = w_now w) as Tn by (apply (request_jf fresh c b w script1)).
  assert (exp_live (w_now w1) ex = true) as Hl.
  { rewrite Tn. unfold age_exp in Hex. destruct (cookie_age (w_now w) s' (newsess_of s') <? 0)%Z eqn:E1; [discriminate Hex|].
    destruct (cookie_age (w_now w) s' (newsess_of s') =? 0)%Z; injection Hex as <-; [reflexivity|].
    cbn [exp_live]. apply negb_true_iff. apply Z.ltb_ge. apply Z.ltb_ge in E1. lia. }
  destruct (H Hl) as [[ck Hck] Hx]. specialize (Hx k v Hf Hv Hc).
  unfold jar_expire in Hck, Hx. cbn [j_sess j_exp] in Hck, Hx.
  apply filter_In in Hx. destruct Hx as [Hx _].
  unfold in_step. split; [|exact Hx].
  destruct (j_sess (get_jar w1 b)) as [[ck' e']|]; [|discriminate Hck].
  destruct (exp_live (w_now w1) e'); [|discriminate Hck]. injection Hck as <- <-. exists ck'. reflexivity.
Qed.

(* r1 of browser b saves (renew mode: every exposed value; any mode: every new / changed one); then ANY number of steps
   that are quiet for b - everything that happens elsewhere, clock advances, and requests of b itself that leave the session
   unchanged and are not yet due for renewal: as long as the browser holds the session cookie it holds the exposed cookie *)
Theorem exposed_in_step_quiet : forall c w b script1 s' blob ex l,
  req_state c w b script1 = Some s' ->
  dempty (s_data s') = false -> skipped (w_now w) s' = false -> save_data (s_data s') = Some blob ->
  o_exc (snd (request fresh c w b script1)) = None ->
  age_exp (w_now w) (cookie_age (w_now w) s' (newsess_of s')) = Some ex ->
  let w1 := fst (request fresh c w b script1) in
  quiet_run c b w1 l ->
  let w2 := fst (run fresh c w1 l) in
  exp_live (w_now w2) ex = true ->
  forall k v, dfind k (s_data s') = Some (v, true) -> v <> [] ->
    lifetime_renewed s' = true \/ entry_changed (s_copy s') k v = true ->
    in_step b k v ex (jar_expire (w_now w2) (get_jar w2 b)).
Proof.
  intros c w b script1 s' blob ex l Hrs Hd Hk Hb Hexc Hex w1 Hq w2 Hl k v Hf Hv Hc.
  apply in_step_expire; [exact Hl|].
  apply quiet_run_in_step; [exact Hq|exact Hl|].
  eapply request_exposed; eassumption.
Qed.

End Fresh.
