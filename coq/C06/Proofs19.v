(* C06 proofs, part 19: fixed mode along histories.  A cookie of an exposed value that ends at the deadline of the session
   (as every save that renews the lifetime leaves it) is still in step after any later saving request of the same browser that
   is neither new nor reset - across any history of foreign steps and the browser's own unchanged requests in between. *)
From CppcmsV Require Import Base.Tac C06.Defs C06.Proofs C06.ProofsNum C06.ProofsMap C06.Proofs2 C06.Proofs3 C06.Proofs4 C06.Proofs5 C06.Proofs6 C06.Proofs7 C06.Proofs8 C06.Proofs10 C06.Proofs12 C06.Proofs13 C06.Proofs15 C06.Proofs18.
Local Open Scope N_scope.

Lemma apply_ops_tin : forall c l s, s_tin (apply_ops c s l) = s_tin s.
Proof.
  intros c l. unfold apply_ops. induction l as [|o r IH]; intros s; cbn [fold_left]; [reflexivity|].
  rewrite IH. destruct o; reflexivity.
Qed.

Section Fresh.
Variable fresh : N -> bytes.
Hypothesis fresh_inj : forall m n, fresh m = fresh n -> m = n.

(* mixed_holds with any property of b's jar that survives the browser-side expiry while the session cookie is live *)
Lemma mixed_holds_gen : forall (P : jar -> Prop) c b id rec ex,
  (forall now j, exp_live now ex = true -> P j -> P (jar_expire now j)) ->
  forall l w j,
  mixed_run fresh c b id w l -> holds fresh b id rec j w -> P j ->
  exp_live (w_now (fst (run fresh c w l))) ex = true ->
  exists j', holds fresh b id rec j' (fst (run fresh c w l)) /\ P j'.
Proof.
  intros P c b id rec ex HP l. induction l as [|st r IH]; intros w j Hm Hh Hj Hl; cbn [run] in *.
  - exists j. split; assumption.
  - destruct Hm as [Hs Hr].
    pose proof (quiet_step_now fresh c b w st (mixed_step_quiet _ _ _ _ _ Hs)) as Hn1.
    pose proof (quiet_run_now fresh c b r _ (mixed_run_quiet fresh _ _ _ _ _ Hr)) as Hn2.
    destruct Hs as [Hf|(script & s' & -> & H1 & H2 & H3)].
    + pose proof (step_holds fresh fresh_inj c b id rec j st w Hf Hh) as Hh1.
      destruct (do_step fresh c w st) as [w1 o]. cbn [fst] in *.
      specialize (IH w1 j Hr Hh1 Hj). destruct (run fresh c w1 r) as [w2 os]. cbn [fst] in *. apply IH. exact Hl.
    + cbn [do_step] in *.
      pose proof (request_skipped_world fresh c w b script s' H1 H2 H3) as [E _].
      destruct (request fresh c w b script) as [w1 o]. cbn [fst] in *. subst w1.
      set (w1 := set_jar w b (jar_expire (w_now w) (get_jar w b))) in *.
      destruct Hh as (A1 & A2 & A3 & A4).
      assert (exp_live (w_now w) ex = true) as Hlw.
      { destruct (run fresh c w1 r) as [w2 os]. cbn [fst] in *. apply (exp_live_mono _ (w_now w2)); [lia|exact Hl]. }
      assert (holds fresh b id rec (jar_expire (w_now w) j) w1) as Hh1.
      { unfold holds, w1. cbn [set_jar w_store w_next]. split; [exact A1|]. split; [rewrite get_set_jar_same, A2; reflexivity|].
        split; [exact A3|]. intros b' Hb'. rewrite get_set_jar_other by congruence. apply A4. exact Hb'. }
      specialize (IH w1 _ Hr Hh1 (HP _ _ Hlw Hj)). destruct (run fresh c w1 r) as [w2 os]. cbn [fst] in *. apply IH. exact Hl.
Qed.

(* what the next request of b works on, when the record is live and the browser still holds the cookie *)
Lemma req_state_after_hit : forall c b id dl blob ex j w m t h sv script,
  c_loc c <> 1 -> holds fresh b id (dl, blob) j w -> j_sess j = Some (CRaw (73 :: id), ex) -> sid_ok id = true ->
  exp_live (w_now w) ex = true -> (w_now w <= dl)%Z ->
  load_data blob = LOk m ->
  special k_t m (c_timeout c) = Some t -> special k_h m (c_how c) = Some h -> special k_s m 0%Z = Some sv ->
  req_state c w b script = Some (apply_ops c (mksess m m t h dl (Z.odd sv) false) script).
Proof.
  intros c b id dl blob ex j w m t h sv script Hl (A1 & A2 & _ & _) Hj Hok Hlive Hn Hm Ht Hh Hs.
  unfold req_state. set (w0 := set_jar w b (jar_expire (w_now w) (get_jar w b))).
  assert (j_sess (get_jar w0 b) = Some (CRaw (73 :: id), ex)) as Hj0.
  { unfold w0. rewrite get_set_jar_same, A2. unfold jar_expire. cbn [j_sess]. rewrite Hj, Hlive. reflexivity. }
  assert (si_load c w0 b = (w0, [OpL id true], inl (true, mksess m m t h dl (Z.odd sv) false))) as Hld.
  { apply si_load_hit with (blob := blob); try assumption.
    rewrite Hj0. apply valid_sid_intro. exact Hok. }
  rewrite Hld. reflexivity.
Qed.

Theorem fixed_mode_chain : forall c b id dl blob xj l w m t sv script blob2 k v,
  c_loc c <> 1 ->
  holds fresh b id (dl, blob) (mkjar (Some (CRaw (73 :: id), EAt dl)) xj) w -> sid_ok id = true ->
  In (k, (v, EAt dl)) xj ->
  mixed_run fresh c b id w l ->
  load_data blob = LOk m ->
  special k_t m (c_timeout c) = Some t -> special k_h m (c_how c) = Some 0%Z -> special k_s m 0%Z = Some sv ->
  let w2 := fst (run fresh c w l) in
  (w_now w2 < dl)%Z ->
  let s2 := apply_ops c (mksess m m t 0%Z dl (Z.odd sv) false) script in
  s_how s2 = 0%Z -> newsess_of s2 = false ->
  dempty (s_data s2) = false -> skipped (w_now w2) s2 = false -> save_data (s_data s2) = Some blob2 ->
  o_exc (snd (request fresh c w2 b script)) = None ->
  dfind k (s_data s2) = Some (v, true) -> v <> [] ->
  in_step b k v (EAt dl) (get_jar (fst (request fresh c w2 b script)) b).
Proof.
  intros c b id dl blob xj l w m t sv script blob2 k v Hl Hh Hok Hin Hm Hld Ht Hhh Hs w2 Hn s2 Hh2 Hnew Hd Hk Hb Hexc Hf Hv.
  assert (exp_live (w_now w2) (EAt dl) = true) as Hlive.
  { cbn [exp_live]. apply negb_true_iff. apply Z.ltb_ge. lia. }
  destruct (mixed_holds_gen (fun j => j_sess j = Some (CRaw (73 :: id), EAt dl) /\ In (k, (v, EAt dl)) (j_exp j)) c b id (dl, blob) (EAt dl))
    with (l := l) (w := w) (j := mkjar (Some (CRaw (73 :: id), EAt dl)) xj) as (j' & Hh' & Hj' & Hin'); try assumption.
  - intros now j Hlv [Hjs Hji]. unfold jar_expire. cbn [j_sess j_exp]. rewrite Hjs, Hlv. split; [reflexivity|].
    apply filter_In. split; [exact Hji|exact Hlv].
  - split; [reflexivity|exact Hin].
  - fold w2 in Hh'.
    assert (req_state c w2 b script = Some s2) as Hrs.
    { apply (req_state_after_hit c b id dl blob (EAt dl) j' w2 m t 0%Z sv script); try assumption. lia. }
    assert (age_exp (w_now w2) (cookie_age (w_now w2) s2 (newsess_of s2)) = Some (EAt dl)) as Hex.
    { rewrite Hnew. unfold cookie_age. rewrite Hh2. cbn [Z.eqb orb andb].
      unfold s2. rewrite apply_ops_tin. cbn [s_tin].
      unfold age_exp. assert ((dl - w_now w2 <? 0)%Z = false) as -> by (apply Z.ltb_ge; lia).
      assert ((dl - w_now w2 =? 0)%Z = false) as -> by (apply Z.eqb_neq; lia). f_equal. f_equal. lia. }
    apply (request_keeps_in_step fresh c w2 b script s2 blob2 (EAt dl) Hrs Hd Hk Hb Hexc Hex k v Hf Hv).
    left. destruct Hh' as (_ & A2 & _ & _). rewrite A2. unfold jar_expire. cbn [j_exp].
    apply filter_In. split; [exact Hin'|exact Hlive].
Qed.

End Fresh.
