Require Extraction.
Require Import ExtrOcamlBasic.
From Coq Require Import NArith ZArith List.
From CppcmsV Require Import C06.Defs.
Definition keep_types : (N * Z * nat) := (0%N, 0%Z, 0%nat).
Extraction "c06m.ml" keep_types do_step request request_dels run world0 fresh_hex st_load get_jar load_data save_data
  sid_ok valid_sid tenth_gt show_Z parse_Z mutate.
