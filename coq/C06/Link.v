(* C06: the per-character test of session_sid::valid_sid regenerated from /repo's current source
   (coq/gen/Gen_sid.v, see gen_sid_leaf in checks/C06.py) is the model's low_xdigit: 256-point sweep. *)
From CppcmsV Require Import Base.Tac Base.CSem Base.Sweep C06.Defs gen.Gen_sid.
Local Open Scope N_scope.

Lemma link_low_xdigit b : b < 256 -> g_low_x_digit (Z.of_N b) = low_xdigit b.
Proof.
  intros H. apply eqb_prop.
  apply (sweep256 (fun b => eqb (g_low_x_digit (Z.of_N b)) (low_xdigit b))); [vm_compute; reflexivity|exact H].
Qed.

(* hence: an identifier accepted by the model's sid_ok consists of bytes the source's test accepts *)
Lemma link_sid_ok id : Forall (fun b => b < 256) id -> sid_ok id = true ->
  Forall (fun b => g_low_x_digit (Z.of_N b) = true) id /\ length id = 32%nat.
Proof.
  intros Hb H. unfold sid_ok in H. apply andb_true_iff in H. destruct H as [Hl Hf].
  split; [|apply Nat.eqb_eq; exact Hl].
  rewrite forallb_forall in Hf. rewrite Forall_forall in *. intros x Hx.
  rewrite link_low_xdigit by (apply Hb; exact Hx). apply Hf. exact Hx.
Qed.
