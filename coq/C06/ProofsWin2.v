(* C06 proofs: the 10 % window, the point 10 * delta = timeout.  There the exact product timeout * (double nearest 0.1) is
   delta * 2^55 + 2 * delta, which lies less than half an ulp above delta * 2^55: it is rounded down to delta, so the
   comparison delta < timeout * 0.1 is false.  Together with tenth_gt_exact: the IEEE comparison in save() is exactly the
   integer comparison 10 * delta < timeout for every timeout an int can hold. *)
From CppcmsV Require Import Base.Tac C06.Defs C06.ProofsWin.
Local Open Scope Z_scope.

Lemma round53_tie_point : forall d, 0 < d < 2147483648 ->
  Z.shiftl (fst (round53 (d * 36028797018963970))) (snd (round53 (d * 36028797018963970))) = d * 36028797018963968.
Proof.
  intros d Hd. set (num := d * 36028797018963970).
  assert (0 < num) as Hpos by (unfold num; lia).
  unfold round53.
  pose proof (Z.log2_spec num Hpos) as [L1 L2].
  assert (55 <= Z.log2 num) as Hlo.
  { apply Z.log2_le_pow2; [exact Hpos|]. change (2 ^ 55) with 36028797018963968. unfold num. lia. }
  assert (Z.log2 num < 87) as Hhi.
  { apply Z.log2_lt_pow2; [exact Hpos|]. change (2 ^ 87) with 154742504910672534362390528. unfold num. lia. }
  destruct (Z.log2 num <? 53) eqn:E; [apply Z.ltb_lt in E; lia|]. cbv zeta.
  set (sh := Z.log2 num - 52).
  assert (3 <= sh < 35) as Hsh by (unfold sh; lia).
  set (S := 2 ^ sh). set (H := 2 ^ (sh - 1)).
  assert (S = 2 * H) as HS.
  { unfold S, H. replace sh with (1 + (sh - 1)) at 1 by lia. rewrite Z.pow_add_r by lia. reflexivity. }
  assert (0 < H) as HH by (apply Z.pow_pos_nonneg; lia).
  assert (2 ^ Z.log2 num = S * 4503599627370496) as HL.
  { unfold S, sh. change 4503599627370496 with (2 ^ 52). rewrite <- Z.pow_add_r by lia. f_equal. lia. }
  (* S divides 2^55 *)
  assert (36028797018963968 = S * 2 ^ (55 - sh)) as H55.
  { unfold S. rewrite <- Z.pow_add_r by lia. replace (sh + (55 - sh)) with 55 by lia. reflexivity. }
  assert (0 < 2 ^ (55 - sh)) as Hk by (apply Z.pow_pos_nonneg; lia).
  set (K := 2 ^ (55 - sh)) in *.
  (* 4 d < S *)
  assert (4 * d < S) as H4.
  { rewrite Z.pow_succ_r in L2 by lia. rewrite HL in L1, L2. unfold num in L1, L2. lia. }
  rewrite Z.shiftr_div_pow2 by lia. fold S.
  rewrite (Z.shiftl_mul_pow2 (num / S) sh) by lia. fold S.
  rewrite (Z.shiftl_mul_pow2 1 (sh - 1)) by lia. fold H. rewrite Z.mul_1_l.
  assert (num = (d * K) * S + 2 * d) as Hnum.
  { unfold num. replace 36028797018963970 with (S * K + 2) by lia. ring. }
  assert (num / S = d * K) as Hq.
  { rewrite Hnum. rewrite Z.div_add_l by lia. rewrite Z.div_small by lia. lia. }
  rewrite Hq.
  assert (num - d * K * S = 2 * d) as -> by lia.
  assert ((H <? 2 * d) = false) as -> by (apply Z.ltb_ge; lia).
  assert ((2 * d =? H) = false) as -> by (apply Z.eqb_neq; lia).
  cbn [fst snd]. rewrite Z.shiftl_mul_pow2 by lia. fold S. lia.
Qed.

Theorem tenth_gt_is_integer_test : forall delta tval, 0 <= tval < 2147483648 ->
  tenth_gt delta tval = (10 * delta <? tval).
Proof.
  intros delta tval Ht.
  destruct (tenth_gt_exact delta tval Ht) as [A B].
  destruct (Z.lt_trichotomy (10 * delta) tval) as [H|[H|H]].
  - rewrite (A H). symmetry. apply Z.ltb_lt. exact H.
  - assert ((10 * delta <? tval) = false) as -> by (apply Z.ltb_ge; lia).
    destruct (Z.eq_dec delta 0) as [->|Hd].
    + assert (tval = 0) as -> by lia. reflexivity.
    + subst tval. unfold tenth_gt. assert ((10 * delta <? 0) = false) as Hn by (apply Z.ltb_ge; lia).
      rewrite Z.abs_eq by lia.
      replace (10 * delta * 3602879701896397) with (delta * 36028797018963970) by lia.
      pose proof (round53_tie_point delta ltac:(lia)) as T.
      destruct (round53 (delta * 36028797018963970)) as [q sh]. cbn [fst snd] in T. rewrite Hn, T.
      apply Z.ltb_irrefl.
  - rewrite (B H). symmetry. apply Z.ltb_ge. lia.
Qed.
