(* C06 tie of the entry codec to the source.  coq/gen/Gen_C06packed.v is regenerated on every run from the CURRENT text of
   src/session_interface.cpp (checks/C06.py:packed_leafs cuts the two limit tests of packed::packed(ks,exp,ds), the bit-field
   widths of struct packed and the bounds tests of load_data into loop-free functions, tools/cxx2v.py translates them with
   unsigned wrap-around).  Proved here:
     - the limit tests refuse EXACTLY the sizes the bit-fields cannot represent (a size passes iff storing it in the field and
       reading it back gives the size again) - an off-by-one in a limit, or a changed field width, breaks these lemmas;
     - the limits and the header word are the model's codec domain (entry_fits) and header;
     - the bounds tests of load_data are the ones of the model's load_aux. *)
From CppcmsV Require Import Base.Tac Base.CSem Base.CSemFacts C06.Defs gen.Gen_C06packed.
Local Open Scope N_scope.

Lemma land_ones_mod a n : (0 <= n)%Z -> Z.land a (2 ^ n - 1) = (a mod 2 ^ n)%Z.
Proof. intros Hn. replace (2 ^ n - 1)%Z with (Z.ones n) by (rewrite Z.ones_equiv; lia). apply Z.land_ones. exact Hn. Qed.

Lemma key_field_value ks : ks < 4294967296 -> g_c06_key_field (Z.of_N ks) = Z.of_N (ks mod 1024).
Proof.
  intros H. unfold g_c06_key_field.
  replace (wrapu 32 (Z.sub (wrapu 32 (Z.shiftl 1 10)) 1)) with (2 ^ 10 - 1)%Z by (vm_compute; reflexivity).
  rewrite land_ones_mod by lia. change (2 ^ 10)%Z with 1024%Z. rewrite wrapu32_small by lia. lia.
Qed.

Lemma data_field_value ds : ds < 4294967296 -> g_c06_data_field (Z.of_N ds) = Z.of_N (ds mod 2097152).
Proof.
  intros H. unfold g_c06_data_field.
  replace (wrapu 32 (Z.sub (wrapu 32 (Z.shiftl 1 21)) 1)) with (2 ^ 21 - 1)%Z by (vm_compute; reflexivity).
  rewrite land_ones_mod by lia. change (2 ^ 21)%Z with 2097152%Z. rewrite wrapu32_small by lia. lia.
Qed.

(* the limit tests of packed::packed are the domain of the model's codec *)
Lemma link_keylong ks : g_c06_keylong (Z.of_N ks) = negb (ks <? 1024).
Proof. unfold g_c06_keylong. lia. Qed.

Lemma link_vallong ds : g_c06_vallong (Z.of_N ds) = negb (ds <? 2097152).
Proof.
  unfold g_c06_vallong. replace (wrapu 32 (Z.mul (Z.mul 1024 1024) 2)) with 2097152%Z by (vm_compute; reflexivity). lia.
Qed.

Lemma link_entry_fits x : entry_fits x = negb (g_c06_keylong (Z.of_N (blen (fst x)))) && negb (g_c06_vallong (Z.of_N (blen (fst (snd x))))).
Proof. unfold entry_fits. rewrite link_keylong, link_vallong, !negb_involutive. reflexivity. Qed.

(* a size is accepted iff the bit-field can hold it: what is stored and read back is the size itself *)
Lemma key_limit_is_field_capacity ks : ks < 4294967296 ->
  (g_c06_keylong (Z.of_N ks) = false <-> g_c06_key_field (Z.of_N ks) = Z.of_N ks).
Proof.
  intros H. rewrite link_keylong, key_field_value by exact H.
  destruct (N.ltb_spec ks 1024) as [L|G]; cbn [negb]; split; intros E; try reflexivity; try discriminate E.
  - rewrite N.mod_small by exact L. reflexivity.
  - apply N2Z.inj in E. pose proof (N.mod_upper_bound ks 1024 ltac:(lia)). lia.
Qed.

Lemma value_limit_is_field_capacity ds : ds < 4294967296 ->
  (g_c06_vallong (Z.of_N ds) = false <-> g_c06_data_field (Z.of_N ds) = Z.of_N ds).
Proof.
  intros H. rewrite link_vallong, data_field_value by exact H.
  destruct (N.ltb_spec ds 2097152) as [L|G]; cbn [negb]; split; intros E; try reflexivity; try discriminate E.
  - rewrite N.mod_small by exact L. reflexivity.
  - apply N2Z.inj in E. pose proof (N.mod_upper_bound ds 2097152 ltac:(lia)). lia.
Qed.

(* the header word: bit fields key_size, exposed, data_size allocated from bit 0 upwards = the model's header *)
Lemma land_shiftl_disjoint a b n : (0 <= n)%Z -> (0 <= a < 2 ^ n)%Z -> Z.land a (Z.shiftl b n) = 0%Z.
Proof.
  intros Hn Ha. apply Z.bits_inj'. intros i Hi. rewrite Z.land_spec, Z.bits_0.
  destruct (Z.lt_ge_cases i n) as [L|G].
  - rewrite (Z.shiftl_spec_low b n i L). apply andb_false_r.
  - replace a with (a mod 2 ^ n)%Z by (apply Z.mod_small; exact Ha).
    rewrite (Z.mod_pow2_bits_high a n i) by lia. reflexivity.
Qed.
Lemma lor_shiftl_add a b n : (0 <= n)%Z -> (0 <= a < 2 ^ n)%Z -> Z.lor a (Z.shiftl b n) = (a + b * 2 ^ n)%Z.
Proof.
  intros Hn Ha. rewrite <- Z.lxor_lor by (apply land_shiftl_disjoint; assumption).
  rewrite <- Z.add_nocarry_lxor by (apply land_shiftl_disjoint; assumption).
  rewrite Z.shiftl_mul_pow2 by exact Hn. reflexivity.
Qed.

Lemma link_word ks (ex : bool) ds : ks < 1024 -> ds < 2097152 ->
  g_c06_word (Z.of_N ks) (if ex then 1 else 0)%Z (Z.of_N ds) = Z.of_N (ks + (if ex then 1024 else 0) + 2048 * ds).
Proof.
  intros Hk Hd. unfold g_c06_word.
  replace (wrapu 32 (Z.sub (wrapu 32 (Z.shiftl 1 10)) 1)) with (2 ^ 10 - 1)%Z by (vm_compute; reflexivity).
  replace (wrapu 32 (Z.sub (wrapu 32 (Z.shiftl 1 1)) 1)) with (2 ^ 1 - 1)%Z by (vm_compute; reflexivity).
  replace (wrapu 32 (Z.sub (wrapu 32 (Z.shiftl 1 21)) 1)) with (2 ^ 21 - 1)%Z by (vm_compute; reflexivity).
  rewrite !land_ones_mod by lia.
  rewrite (Z.mod_small (Z.of_N ks)) by lia. rewrite (Z.mod_small (Z.of_N ds)) by lia.
  rewrite (Z.mod_small (if ex then 1 else 0)%Z) by (destruct ex; lia).
  rewrite (wrapu32_small (Z.of_N ks)) by lia.
  rewrite (wrapu32_small (Z.of_N ds)) by lia.
  rewrite (wrapu32_small (if ex then 1 else 0)%Z) by (destruct ex; lia).
  rewrite (Z.shiftl_mul_pow2 _ 10), (Z.shiftl_mul_pow2 _ 11) by lia.
  rewrite (wrapu32_small ((if ex then 1 else 0) * 2 ^ 10)%Z) by (destruct ex; lia).
  rewrite (wrapu32_small (Z.of_N ds * 2 ^ 11)%Z) by lia.
  rewrite <- (Z.shiftl_mul_pow2 _ 10), <- (Z.shiftl_mul_pow2 _ 11) by lia.
  rewrite (lor_shiftl_add (Z.of_N ks) (if ex then 1 else 0)%Z 10%Z) by lia.
  rewrite (wrapu32_small (Z.of_N ks + (if ex then 1 else 0) * 2 ^ 10)%Z) by (destruct ex; lia).
  rewrite (lor_shiftl_add (Z.of_N ks + (if ex then 1 else 0) * 2 ^ 10)%Z (Z.of_N ds) 11%Z) by (destruct ex; lia).
  rewrite wrapu32_small by (destruct ex; lia).
  destruct ex; lia.
Qed.

(* so the header bytes save_entry writes are the little-endian bytes of the source's word *)
Lemma link_header ks ex ds : ks < 1024 -> ds < 2097152 ->
  header ks ex ds = le32 (Z.to_N (g_c06_word (Z.of_N ks) (if ex then 1 else 0)%Z (Z.of_N ds))).
Proof. intros Hk Hd. rewrite (link_word _ _ _ Hk Hd), N2Z.id. reflexivity. Qed.

(* load_data: the three tests *)
Lemma link_more (b e : N) : g_c06_more (Z.of_N b) (Z.of_N e) = (b <? e).
Proof. unfold g_c06_more. lia. Qed.
Lemma link_hdr (b e : N) : g_c06_hdr (Z.of_N b) (Z.of_N e) = (b + 4 <=? e).
Proof. unfold g_c06_hdr. lia. Qed.
Lemma link_fits (b e ks ds : N) : b <= e -> ks < 1024 -> ds < 2097152 ->
  g_c06_fits (Z.of_N b) (Z.of_N e) (Z.of_N ks) (Z.of_N ds) = (ks + ds <=? e - b).
Proof.
  intros Hb Hk Hd. unfold g_c06_fits.
  rewrite (wrapu32_small (Z.of_N ks + Z.of_N ds)) by lia.
  rewrite (wraps32_small (Z.of_N ks + Z.of_N ds)) by lia. lia.
Qed.
