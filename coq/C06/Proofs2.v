(* C06 proofs, part 2: storage / jar frame lemmas, identifiers that reach storage *)
From CppcmsV Require Import Base.Tac C06.Defs C06.Proofs.
Local Open Scope N_scope.

(* ---------- jars ---------- *)
Lemma nth_set_nth_same : forall b j l, nth b (set_nth b j l) jar0 = j.
Proof. induction b as [|b IH]; intros j l; destruct l; cbn [set_nth nth]; try reflexivity; apply IH. Qed.
Lemma nth_set_nth_other : forall b b' j l, b <> b' -> nth b' (set_nth b j l) jar0 = nth b' l jar0.
Proof.
  induction b as [|b IH]; intros b' j l Hne; destruct l as [|x l]; destruct b' as [|b']; cbn [set_nth nth]; try reflexivity; try lia.
  - destruct b'; reflexivity.
  - rewrite IH by lia. destruct b'; reflexivity.
  - apply IH. lia.
Qed.
Lemma get_set_jar_same : forall w b j, get_jar (set_jar w b j) b = j.
Proof. intros. unfold get_jar, set_jar. cbn [w_jars]. apply nth_set_nth_same. Qed.
Lemma get_set_jar_other : forall w b b' j, b <> b' -> get_jar (set_jar w b j) b' = get_jar w b'.
Proof. intros. unfold get_jar, set_jar. cbn [w_jars]. apply nth_set_nth_other. assumption. Qed.
Lemma get_jar_set_store : forall w s b, get_jar (set_store w s) b = get_jar w b.
Proof. reflexivity. Qed.

(* ---------- store ---------- *)
Lemma st_find_remove_same : forall id s, st_find id (st_remove id s) = None.
Proof. intros id s. induction s as [|[i r] t IH]; cbn [st_remove st_find]; [reflexivity|].
  destruct (beqb id i) eqn:E; [exact IH|]. cbn [st_find]. rewrite E. exact IH. Qed.
Lemma st_find_remove_other : forall id id' s, id <> id' -> st_find id (st_remove id' s) = st_find id s.
Proof. intros id id' s Hne. induction s as [|[i r] t IH]; cbn [st_remove st_find]; [reflexivity|].
  destruct (beqb id' i) eqn:E.
  - apply beqb_eq in E. subst i. assert (beqb id id' = false) as E2 by (apply beqb_neq; exact Hne). rewrite E2. exact IH.
  - cbn [st_find]. rewrite IH. reflexivity. Qed.
Lemma st_find_save_same : forall id dl d s, st_find id (st_save id dl d s) = Some (dl, d).
Proof. intros. unfold st_save. cbn [st_find]. rewrite beqb_refl. reflexivity. Qed.
Lemma st_find_save_other : forall id id' dl d s, id <> id' -> st_find id (st_save id' dl d s) = st_find id s.
Proof. intros. unfold st_save. cbn [st_find]. assert (beqb id id' = false) as E by (apply beqb_neq; assumption).
  rewrite E. apply st_find_remove_other. assumption. Qed.

(* ---------- identifiers ---------- *)
Lemma valid_sid_ok : forall c id, valid_sid c = Some id -> sid_ok id = true.
Proof.
  intros c id H. unfold valid_sid in H.
  destruct c as [[[s|dl d] e]|]; try discriminate H.
  destruct s as [|x s]; try discriminate H.
  destruct x as [|p]; try discriminate H.
  do 7 (destruct p as [p|p|]; try discriminate H).
  destruct (sid_ok s) eqn:E; [|discriminate H]. injection H as <-. exact E.
Qed.

Lemma valid_sid_shape : forall c id, valid_sid c = Some id -> exists e, c = Some (CRaw (73 :: id), e).
Proof.
  intros c id H. unfold valid_sid in H.
  destruct c as [[[s|dl d] e]|]; try discriminate H.
  destruct s as [|x s]; try discriminate H.
  destruct x as [|p]; try discriminate H.
  do 7 (destruct p as [p|p|]; try discriminate H).
  destruct (sid_ok s) eqn:E; [|discriminate H]. injection H as <-. exists e. reflexivity.
Qed.

Definition ok_log (l : list sop) : Prop := Forall (fun o => sid_ok (op_id o) = true) l.

Lemma ok_log_app : forall a b, ok_log a -> ok_log b -> ok_log (a ++ b).
Proof. intros. apply Forall_app. split; assumption. Qed.

Lemma sid_load_ok : forall w b, ok_log (snd (fst (sid_load w b))).
Proof.
  intros w b. unfold sid_load. destruct (valid_sid (j_sess (get_jar w b))) as [id|] eqn:Hv; [|constructor].
  apply valid_sid_ok in Hv.
  destruct (st_load (w_now w) id (w_store w)) as [[dl d]|]; [|repeat constructor; exact Hv].
  destruct (dl <? w_now w)%Z; repeat constructor; exact Hv.
Qed.

Lemma cookies_load_ok : forall w b, ok_log (snd (fst (cookies_load w b))).
Proof.
  intros w b. unfold cookies_load. destruct (j_sess (get_jar w b)) as [[[s|dl d] e]|]; try constructor.
  - destruct s; constructor.
  - destruct (dl <? w_now w)%Z; constructor.
Qed.

Lemma backend_load_ok : forall c w b, ok_log (snd (fst (backend_load c w b))).
Proof.
  intros c w b. unfold backend_load.
  destruct (c_loc c =? 0); [apply sid_load_ok|].
  destruct (c_loc c =? 1); [apply cookies_load_ok|].
  destruct (cookie_first (j_sess (get_jar w b))) as [x|]; [|apply sid_load_ok].
  destruct (N.eq_dec x 67) as [->|Hn]; [apply cookies_load_ok|].
  destruct x as [|p]; [apply sid_load_ok|].
  do 7 (destruct p as [p|p|]; try apply sid_load_ok). contradiction Hn. reflexivity.
Qed.

Lemma sid_clear_ok : forall w b, ok_log (snd (sid_clear w b)).
Proof.
  intros w b. unfold sid_clear. destruct (valid_sid (j_sess (get_jar w b))) as [id|] eqn:Hv; cbn [snd]; [|constructor].
  apply valid_sid_ok in Hv. repeat constructor; exact Hv.
Qed.

Lemma backend_clear_ok : forall c w b, ok_log (snd (backend_clear c w b)).
Proof.
  intros c w b. unfold backend_clear.
  destruct (c_loc c =? 0); [apply sid_clear_ok|].
  destruct (c_loc c =? 1); [constructor|].
  destruct (cookie_first (j_sess (get_jar w b))) as [x|]; [|apply sid_clear_ok].
  destruct (N.eq_dec x 67) as [->|Hn]; [constructor|].
  destruct x as [|p]; [apply sid_clear_ok|].
  do 7 (destruct p as [p|p|]; try apply sid_clear_ok). contradiction Hn. reflexivity.
Qed.

Section Fresh.
Variable fresh : N -> bytes.
Hypothesis fresh_ok : forall n, sid_ok (fresh n) = true.

Lemma sid_save_ok : forall w b blob dl newd, ok_log (snd (fst (sid_save fresh w b blob dl newd))).
Proof.
  intros. unfold sid_save. destruct (valid_sid (j_sess (get_jar w b))) as [id|] eqn:Hv.
  - apply valid_sid_ok in Hv. destruct newd; cbn [fst snd]; repeat constructor; cbn [op_id]; auto.
  - cbn [fst snd]. repeat constructor. cbn [op_id]. auto.
Qed.

Lemma backend_save_ok : forall c w b blob dl newd onsrv, ok_log (snd (fst (backend_save fresh c w b blob dl newd onsrv))).
Proof.
  intros. unfold backend_save.
  destruct (c_loc c =? 0); [apply sid_save_ok|].
  destruct (c_loc c =? 1); [unfold cookies_save; destruct onsrv; constructor|].
  destruct (onsrv || (c_limit c <? blen blob)); [apply sid_save_ok|].
  assert (forall w0, ok_log (snd (fst (cookies_save w0 blob dl false)))) as Hc by (intros; constructor).
  destruct (cookie_first (j_sess (get_jar w b))) as [x|]; [|apply Hc].
  destruct (N.eq_dec x 73) as [->|Hn].
  - pose proof (sid_clear_ok w b) as Hs. destruct (sid_clear w b) as [w1 l1]. cbn [snd] in Hs.
    unfold cookies_save. cbn [fst snd]. rewrite app_nil_r. exact Hs.
  - destruct x as [|p]; [apply Hc|].
    do 7 (destruct p as [p|p|]; try apply Hc). contradiction Hn. reflexivity.
Qed.

Lemma si_load_ok : forall c w b, ok_log (snd (fst (si_load c w b))).
Proof.
  intros c w b. unfold si_load. pose proof (backend_load_ok c w b) as H.
  destruct (backend_load c w b) as [[w1 l1] r]. cbn [fst snd] in H.
  destruct r as [[blob dl]|]; [|exact H].
  destruct (load_data blob); try exact H.
  destruct (special k_t m (c_timeout c)); [|exact H].
  destruct (special k_h m (c_how c)); [|exact H].
  destruct (special k_s m 0%Z); exact H.
Qed.

Lemma si_save_ok : forall c w b s, ok_log (snd (fst (si_save fresh c w b s))).
Proof.
  intros c w b s. unfold si_save.
  destruct (dempty (s_data s)).
  - destruct (cookie_nonempty (j_sess (get_jar w b))).
    + pose proof (backend_clear_ok c w b) as H. destruct (backend_clear c w b) as [w1 l1]. exact H.
    + constructor.
  - match goal with |- context [if ?c then _ else _] => destruct c end; [constructor|].
    match goal with |- context [if ?c then _ else _] => destruct c end; [constructor|].
    destruct (save_data (s_data s)) as [blob|]; [|constructor].
    match goal with |- context [backend_save fresh c w b blob ?dl ?n ?o] =>
      pose proof (backend_save_ok c w b blob dl n o) as H; destruct (backend_save fresh c w b blob dl n o) as [[w1 l1] r] end.
    cbn [fst snd] in H. destruct r; exact H.
Qed.

Lemma request_ok : forall c w b script, ok_log (o_log (snd (request fresh c w b script))).
Proof.
  intros c w b script. unfold request.
  set (w0 := set_jar w b (jar_expire (w_now w) (get_jar w b))).
  pose proof (si_load_ok c w0 b) as H1. destruct (si_load c w0 b) as [[w1 l1] r]. cbn [fst snd] in H1.
  destruct r as [[ld s]|e]; [|exact H1].
  pose proof (si_save_ok c w1 b (apply_ops c s script)) as H2.
  destruct (si_save fresh c w1 b (apply_ops c s script)) as [[w2 l2] e]. cbn [fst snd] in *.
  apply ok_log_app; assumption.
Qed.

(* every storage access of every request of every history uses an identifier of the issued form *)
Lemma run_ok : forall c l w, Forall (fun o => match o with Some ob => ok_log (o_log ob) | None => True end) (snd (run fresh c w l)).
Proof.
  intros c l. induction l as [|st r IH]; intros w; cbn [run]; [constructor|].
  destruct (do_step fresh c w st) as [w1 o] eqn:Hs.
  specialize (IH w1). destruct (run fresh c w1 r) as [w2 os]. cbn [snd] in *.
  constructor; [|exact IH].
  destruct st; cbn [do_step] in Hs.
  - injection Hs as <- <-. exact I.
  - pose proof (request_ok c w b script) as H. destruct (request fresh c w b script) as [w' ob]. injection Hs as <- <-. exact H.
  - injection Hs as <- <-. exact I.
  - destruct (w_hist w); injection Hs as <- <-; exact I.
  - injection Hs as <- <-. exact I.
  - injection Hs as <- <-. exact I.
Qed.

End Fresh.
