(* C06 proofs, part 17: end to end for sessions kept in the cookie, over histories that may contain the browser's own
   unchanged requests (quiet_run) *)
From CppcmsV Require Import Base.Tac C06.Defs C06.Proofs C06.ProofsNum C06.ProofsMap C06.Proofs2 C06.Proofs3 C06.Proofs4 C06.Proofs5 C06.Proofs6 C06.Proofs7 C06.Proofs10 C06.Proofs9 C06.Proofs11 C06.Proofs13.
Local Open Scope N_scope.

Section Fresh.
Variable fresh : N -> bytes.

(* the session cookie of b survives a quiet run for as long as its max-age has not elapsed *)
Lemma quiet_run_sess : forall c b ck ex l w,
  quiet_run fresh c b w l -> exp_live (w_now (fst (run fresh c w l))) ex = true ->
  j_sess (get_jar w b) = Some (ck, ex) -> j_sess (get_jar (fst (run fresh c w l)) b) = Some (ck, ex).
Proof.
  intros c b ck ex l. induction l as [|st r IH]; intros w Hq Hl Hi; cbn [run]; [exact Hi|].
  destruct Hq as [H1 H2]. cbn [run] in Hl.
  pose proof (quiet_step_jar fresh c b w st H1) as Hj.
  pose proof (quiet_step_now fresh c b w st H1) as Hn1.
  destruct (do_step fresh c w st) as [w1 o]. cbn [fst] in *.
  pose proof (quiet_run_now fresh c b r w1 H2) as Hn2.
  specialize (IH w1 H2).
  destruct (run fresh c w1 r) as [w2 os]. cbn [fst] in *.
  apply IH; [exact Hl|].
  destruct Hj as [->| ->]; [exact Hi|].
  unfold jar_expire. cbn [j_sess]. rewrite Hi.
  rewrite (exp_live_mono (w_now w) (w_now w2) ex); [reflexivity|lia|exact Hl].
Qed.

Theorem end_to_end_stored_in_cookie_quiet : forall c w b script1 s' blob ex l script2,
  client_side c s' blob ->
  req_state c w b script1 = Some s' ->
  forallb op_keeps script1 = true ->
  dempty (s_data s') = false -> skipped (w_now w) s' = false -> save_data (s_data s') = Some blob ->
  age_exp (w_now w) (cookie_age (w_now w) s' (newsess_of s')) = Some ex ->
  let w1 := fst (request fresh c w b script1) in
  quiet_run fresh c b w1 l ->
  let w2 := fst (run fresh c w1 l) in
  (w_now w2 <= session_age (w_now w) s' (newsess_of s'))%Z -> exp_live (w_now w2) ex = true ->
  o_loaded (snd (request fresh c w2 b script2)) = Some (true, s_data s', s_tval s', s_how s', s_onsrv s').
Proof.
  intros c w b script1 s' blob ex l script2 Hcs Hrs Hops Hd Hk Hb Hex w1 Hfor w2 Hn Hlive.
  assert (c_loc c <> 0) as Hl0 by (destruct Hcs as [[H _]|[H _]]; rewrite H; discriminate).
  set (w0 := set_jar w b (jar_expire (w_now w) (get_jar w b))) in *.
  unfold req_state in Hrs. fold w0 in Hrs.
  destruct (si_load c w0 b) as [[wl l1] r] eqn:Hld. destruct r as [[ld s]|e]; [|discriminate Hrs].
  injection Hrs as Hs'.
  assert (consistent c s') as Hc.
  { rewrite <- Hs'. apply consistent_ops; [exact Hops|]. eapply si_load_consistent. exact Hld. }
  destruct Hc as (Hsort & Ht & Hh & sv & Hsv & Hodd).
  assert (w_now wl = w_now w) as Tn.
  { pose proof (backend_load_jf c b w0) as [_ A]. rewrite <- si_load_world, Hld in A. cbn [fst] in A. exact A. }
  assert (skipped (w_now wl) s' = false) as Hk' by (rewrite Tn; exact Hk).
  destruct (si_save_client_side fresh c wl b s' blob Hcs Hd Hsort Hk' Hb) as (ws & ls & Hsave & Hrt & Hck).
  rewrite Tn in Hck. specialize (Hck ex Hex).
  assert (w1 = ws) as Hw1.
  { unfold w1, request. fold w0. rewrite Hld, Hs', Hsave. reflexivity. }
  assert (j_sess (get_jar w2 b) = Some (CEnc (session_age (w_now w) s' (newsess_of s')) blob, ex)) as Hj2.
  { apply (quiet_run_sess c b _ ex l w1); [exact Hfor|exact Hlive|]. rewrite Hw1. exact Hck. }
  set (w3 := set_jar w2 b (jar_expire (w_now w2) (get_jar w2 b))).
  assert (j_sess (get_jar w3 b) = Some (CEnc (session_age (w_now w) s' (newsess_of s')) blob, ex)) as Hj3.
  { unfold w3. rewrite get_set_jar_same. unfold jar_expire. cbn [j_sess]. rewrite Hj2, Hlive. reflexivity. }
  assert (si_load c w3 b = (w3, [], inl (true, mksess (s_data s') (s_data s') (s_tval s') (s_how s')
                                           (session_age (w_now w) s' (newsess_of s')) (Z.odd sv) false))) as Hld3.
  { eapply (si_load_cenc_hit c w3 b); eauto. }
  rewrite (request_loaded fresh c w2 b script2 w3 _ _ eq_refl Hld3). cbn [fst snd s_data s_tval s_how s_onsrv].
  rewrite Hodd. reflexivity.
Qed.

End Fresh.
