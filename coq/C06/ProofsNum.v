(* C06 proofs: decimal rendering / parsing of the ints stored under _t, _h, _s *)
From CppcmsV Require Import Base.Tac C06.Defs.
Local Open Scope N_scope.

Lemma digits_val_app : forall l1 l2 x,
  digits_val (l1 ++ l2) x = match digits_val l1 x with Some y => digits_val l2 y | None => None end.
Proof.
  induction l1 as [|c r IH]; intros l2 x; cbn [app digits_val]; [reflexivity|].
  destruct ((48 <=? c) && (c <=? 57)); [apply IH|reflexivity].
Qed.

Lemma dec_aux_acc : forall fuel n acc, dec_aux fuel n acc = dec_aux fuel n [] ++ acc.
Proof.
  induction fuel as [|f IH]; intros n acc; cbn [dec_aux]; [reflexivity|].
  destruct (n <? 10); [reflexivity|].
  rewrite (IH (n / 10) ((48 + n mod 10) :: acc)), (IH (n / 10) [48 + n mod 10]).
  rewrite <- app_assoc. reflexivity.
Qed.

Lemma dec_aux_S : forall f n acc,
  dec_aux (S f) n acc = if n <? 10 then (48 + n mod 10) :: acc else dec_aux f (n / 10) ((48 + n mod 10) :: acc).
Proof. reflexivity. Qed.

Lemma pos_lt_pow2_size : forall p, N.pos p < 2 ^ N.of_nat (Pos.size_nat p).
Proof.
  induction p as [p IH|p IH|]; cbn [Pos.size_nat].
  - rewrite Nat2N.inj_succ, N.pow_succ_r'. lia.
  - rewrite Nat2N.inj_succ, N.pow_succ_r'. lia.
  - cbn. lia.
Qed.

Lemma lt_pow2_size : forall n, n < 2 ^ N.of_nat (N.size_nat n).
Proof. intros [|p]; [cbn; lia|apply pos_lt_pow2_size]. Qed.

Lemma digit_ok : forall d, d < 10 -> ((48 <=? 48 + d) && (48 + d <=? 57)) = true.
Proof. intros d H. apply andb_true_iff. split; apply N.leb_le; lia. Qed.

Lemma dec_val : forall fuel n, n < 2 ^ N.of_nat fuel -> digits_val (dec_aux (S fuel) n []) 0 = Some n.
Proof.
  induction fuel as [|f IH]; intros n Hn.
  - cbn in Hn. assert (n = 0) by lia. subst. reflexivity.
  - rewrite dec_aux_S. destruct (N.ltb_spec n 10) as [Hlt|Hge].
    + cbn [digits_val]. assert (n mod 10 = n) as -> by (apply N.mod_small; exact Hlt).
      rewrite digit_ok by exact Hlt. f_equal. lia.
    + rewrite dec_aux_acc, digits_val_app.
      rewrite IH.
      2:{ rewrite Nat2N.inj_succ, N.pow_succ_r' in Hn. lia. }
      cbn [digits_val]. rewrite digit_ok by (apply N.mod_lt; lia). f_equal. lia.
Qed.

Lemma show_N_val : forall n, digits_val (show_N n) 0 = Some n.
Proof. intros n. unfold show_N. apply dec_val. apply lt_pow2_size. Qed.

Lemma show_N_head : forall n, exists c r, show_N n = c :: r /\ ((48 <=? c) && (c <=? 57)) = true.
Proof.
  intros n. pose proof (show_N_val n) as H.
  destruct (show_N n) as [|c r] eqn:E.
  - unfold show_N in E. cbn [dec_aux] in E. destruct (n <? 10); [discriminate E|].
    rewrite dec_aux_acc in E. destruct (dec_aux (N.size_nat n) (n / 10) []); discriminate E.
  - exists c, r. split; [reflexivity|]. cbn [digits_val] in H. destruct ((48 <=? c) && (c <=? 57)); [reflexivity|discriminate H].
Qed.

Lemma parse_Z_digit_head : forall c r, ((48 <=? c) && (c <=? 57)) = true ->
  parse_Z (c :: r) = match digits_val (c :: r) 0 with Some n => Some (Z.of_N n) | None => None end.
Proof.
  intros c r Hc. unfold parse_Z.
  assert (c <> 45) as Hne. { intros ->. cbn in Hc. discriminate Hc. }
  destruct c as [|q]; [cbn in Hc; discriminate Hc|].
  do 6 (destruct q as [q|q|]; try reflexivity). contradiction Hne. reflexivity.
Qed.

Lemma parse_show_Z : forall z, parse_Z (show_Z z) = Some z.
Proof.
  intros z. destruct z as [|p|p]; unfold show_Z.
  - reflexivity.
  - destruct (show_N_head (Z.to_N (Z.pos p))) as (c & r & E & Hc). pose proof (show_N_val (Z.to_N (Z.pos p))) as Hv.
    rewrite E in *. rewrite (parse_Z_digit_head c r Hc), Hv. reflexivity.
  - destruct (show_N_head (N.pos p)) as (c & r & E & Hc). pose proof (show_N_val (N.pos p)) as Hv.
    rewrite E in *. unfold parse_Z. rewrite Hv. reflexivity.
Qed.
