(* C06 proofs, part 9: invariants of all worlds reachable from the empty world; end to end without premises on the world *)
From CppcmsV Require Import Base.Tac C06.Defs C06.Proofs C06.ProofsNum C06.ProofsMap C06.Proofs2 C06.Proofs3 C06.Proofs4 C06.Proofs5 C06.Proofs6 C06.Proofs7 C06.Proofs10.
Local Open Scope N_scope.

Section Fresh.
Variable fresh : N -> bytes.
Hypothesis fresh_inj : forall m n, fresh m = fresh n -> m = n.

(* no string built by the attacker is an identifier of the random source (past or future); verbatim replays of
   emitted cookies are the only way to present one *)
Definition not_source (c : cookie) : Prop := forall n, c <> CRaw (73 :: fresh n).

Definition fair_step (w : world) (st : step) : Prop :=
  match st with
  | StT dt => True
  | StR _ _ => True
  | StAraw _ s => not_source (CRaw s)
  | StAhist _ i m => match m with Mid => True | _ => forall c, not_source (mutate m c) end
  | StX _ _ _ => True
  | StP _ _ _ _ => False
  end.

(* store keys were drawn from the random source; well-formed ids in jars and in the replay list are not FUTURE draws *)
Definition ck_nf (w : world) (c : option (cookie * cexp)) : Prop := forall id, valid_sid c = Some id -> not_future fresh w id.
Record inv (w : world) : Prop := mkinv {
  inv_store : store_issued fresh w;
  inv_jars : forall b, ck_nf w (j_sess (get_jar w b));
  inv_hist : forall c, In c (w_hist w) -> ck_nf w (Some (c, ESession)) }.

Lemma issued_mono : forall w w' id, w_next w <= w_next w' -> issued fresh w id -> issued fresh w' id.
Proof. intros w w' id H (k & Hk & E). exists k. split; [lia|exact E]. Qed.

Lemma not_future_mono : forall w w' id, w_next w <= w_next w' -> not_future fresh w id -> not_future fresh w' id.
Proof. intros w w' id H Hn n Hle. apply Hn. lia. Qed.

Lemma issued_not_future : forall w id, issued fresh w id -> not_future fresh w id.
Proof. intros w id (k & Hk & ->) n Hn E. apply fresh_inj in E. lia. Qed.

Lemma valid_sid_exp : forall c e e', valid_sid (Some (c, e)) = valid_sid (Some (c, e')).
Proof. intros. destruct c; reflexivity. Qed.

Lemma st_find_remove_some : forall id id' s, st_find id (st_remove id' s) <> None -> st_find id s <> None.
Proof.
  intros id id' s H. destruct (list_eq_dec N.eq_dec id id') as [->|Hne].
  - rewrite st_find_remove_same in H. contradiction H. reflexivity.
  - rewrite st_find_remove_other in H by exact Hne. exact H.
Qed.

Lemma inv_world0 : inv world0.
Proof.
  split.
  - intros id H. contradiction H. reflexivity.
  - intros b id H. unfold get_jar, world0 in H. cbn [w_jars] in H. destruct b; discriminate H.
  - intros c H. destruct H.
Qed.

End Fresh.

(* a loaded non-empty session that is addressed by an id was found in storage under that id (any location) *)
Lemma si_load_kept : forall c w b w1 l ld s id,
  si_load c w b = (w1, l, inl (ld, s)) -> dempty (s_copy s) = false ->
  valid_sid (j_sess (get_jar w1 b)) = Some id -> st_find id (w_store w1) <> None.
Proof.
  intros c w b w1 l ld s id H Hc Hv. unfold si_load in H.
  assert (forall w' l' r, sid_load w b = (w', l', r) -> r <> None ->
            w' = w /\ forall id, valid_sid (j_sess (get_jar w b)) = Some id -> st_find id (w_store w) <> None) as Hsid.
  { intros w' l' r E Hr. unfold sid_load in E. destruct (valid_sid (j_sess (get_jar w b))) as [i|]; [|injection E as <- _ <-; contradiction Hr; reflexivity].
    unfold st_load in E. destruct (st_find i (w_store w)) as [[dl d]|] eqn:Ef; [|injection E as <- _ <-; contradiction Hr; reflexivity].
    destruct (dl <? w_now w)%Z; [injection E as <- _ <-; contradiction Hr; reflexivity|].
    cbv beta iota in E. destruct (dl <? w_now w)%Z; injection E as <- _ <-; [contradiction Hr; reflexivity|].
    split; [reflexivity|]. intros id0 E0. injection E0 as <-. rewrite Ef. discriminate. }
  assert (forall w' l' r, cookies_load w b = (w', l', r) -> r <> None ->
            w' = w /\ valid_sid (j_sess (get_jar w b)) = None) as Hck.
  { intros w' l' r E Hr. unfold cookies_load in E. destruct (j_sess (get_jar w b)) as [[[s0|dl d] e]|]; try (injection E as <- _ <-; contradiction Hr; reflexivity).
    - destruct s0; injection E as <- _ <-; contradiction Hr; reflexivity.
    - destruct (dl <? w_now w)%Z; injection E as <- _ <-; [contradiction Hr; reflexivity|]. split; reflexivity. }
  destruct (backend_load c w b) as [[w' l'] r] eqn:Hb.
  destruct r as [[blob dl]|].
  2:{ injection H as _ _ _ <-. discriminate Hc. }
  assert (w' = w1) as -> .
  { destruct (load_data blob); try discriminate H.
    destruct (special k_t m (c_timeout c)); [|discriminate H]. destruct (special k_h m (c_how c)); [|discriminate H].
    destruct (special k_s m 0%Z); [|discriminate H]. injection H as <- _ _ _. reflexivity. }
  unfold backend_load in Hb.
  assert (Some (blob, dl) <> None) as Hne by discriminate.
  destruct (c_loc c =? 0).
  { destruct (Hsid _ _ _ Hb Hne) as [-> Hs]. apply Hs. exact Hv. }
  destruct (c_loc c =? 1).
  { destruct (Hck _ _ _ Hb Hne) as [-> Hn]. rewrite Hn in Hv. discriminate Hv. }
  destruct (cookie_first (j_sess (get_jar w b))) as [x|].
  2:{ destruct (Hsid _ _ _ Hb Hne) as [-> Hs]. apply Hs. exact Hv. }
  destruct (N.eq_dec x 67) as [->|Hn].
  { destruct (Hck _ _ _ Hb Hne) as [-> Hn]. rewrite Hn in Hv. discriminate Hv. }
  assert (sid_load w b = (w1, l', Some (blob, dl))) as Hb'.
  { destruct x as [|p]; [exact Hb|]. do 7 (destruct p as [p|p|]; try exact Hb). contradiction Hn. reflexivity. }
  destruct (Hsid _ _ _ Hb' Hne) as [-> Hs]. apply Hs. exact Hv.
Qed.

(* ---------- what a request of browser b may do to the world, in terms of identifiers ---------- *)
Section Summary.
Variable fresh : N -> bytes.
Variable b : nat.

Definition drawn (w w' : world) (id : bytes) : Prop := exists k, w_next w <= k /\ k < w_next w' /\ id = fresh k.

Record sm (w w' : world) : Prop := mksm {
  sm_next : w_next w <= w_next w';
  sm_store : forall id, st_find id (w_store w') <> None -> st_find id (w_store w) <> None \/ drawn w w' id;
  sm_others : forall b', b' <> b -> get_jar w' b' = get_jar w b';
  sm_own : forall id, valid_sid (j_sess (get_jar w' b)) = Some id -> valid_sid (j_sess (get_jar w b)) = Some id \/ drawn w w' id;
  sm_hist : forall c, In c (w_hist w') -> In c (w_hist w) \/
              forall id, valid_sid (Some (c, ESession)) = Some id -> valid_sid (j_sess (get_jar w b)) = Some id \/ drawn w w' id }.

Lemma drawn_mono : forall w1 w2 w3 id, w_next w1 <= w_next w2 -> w_next w2 <= w_next w3 ->
  drawn w1 w2 id \/ drawn w2 w3 id -> drawn w1 w3 id.
Proof. intros w1 w2 w3 id H1 H2 [(k & A & B & C)|(k & A & B & C)]; exists k; repeat split; try assumption; lia. Qed.

Lemma sm_refl : forall w, sm w w.
Proof. intros w. split; auto. lia. Qed.

Lemma sm_trans : forall w1 w2 w3, sm w1 w2 -> sm w2 w3 -> sm w1 w3.
Proof.
  intros w1 w2 w3 [A1 A2 A3 A4 A5] [B1 B2 B3 B4 B5].
  split.
  - lia.
  - intros id H. destruct (B2 id H) as [H1|H1].
    + destruct (A2 id H1) as [H2|H2]; [left; exact H2|right; eapply drawn_mono; eauto].
    + right. eapply drawn_mono; eauto.
  - intros b' Hb. rewrite B3, A3 by exact Hb. reflexivity.
  - intros id H. destruct (B4 id H) as [H1|H1].
    + destruct (A4 id H1) as [H2|H2]; [left; exact H2|right; eapply drawn_mono; eauto].
    + right. eapply drawn_mono; eauto.
  - intros c H. destruct (B5 c H) as [H1|H1].
    + destruct (A5 c H1) as [H2|H2]; [left; exact H2|]. right. intros id Hv.
      destruct (H2 id Hv) as [H3|H3]; [left; exact H3|right; eapply drawn_mono; eauto].
    + right. intros id Hv. destruct (H1 id Hv) as [H3|H3].
      * destruct (A4 id H3) as [H4|H4]; [left; exact H4|right; eapply drawn_mono; eauto].
      * right. eapply drawn_mono; eauto.
Qed.

(* building blocks *)
Lemma sm_set_jar : forall w j, (forall id, valid_sid (j_sess j) = Some id -> valid_sid (j_sess (get_jar w b)) = Some id) ->
  sm w (set_jar w b j).
Proof.
  intros w j H. split; cbn [w_next w_store w_hist set_jar]; auto.
  - lia.
  - intros b' Hb. apply get_set_jar_other. congruence.
  - intros id Hv. rewrite get_set_jar_same in Hv. left. apply H. exact Hv.
Qed.

Lemma sm_store_remove : forall w id0, sm w (set_store w (st_remove id0 (w_store w))).
Proof.
  intros w id0. split; cbn [w_next w_store w_hist set_store]; auto.
  - lia.
  - intros id H. left. eapply st_find_remove_some. exact H.
Qed.

Lemma sid_load_sm : forall w, sm w (fst (fst (sid_load w b))).
Proof.
  intros w. unfold sid_load. destruct (valid_sid (j_sess (get_jar w b))) as [i|]; [|apply sm_refl].
  destruct (st_load (w_now w) i (w_store w)) as [[dl d]|]; [|apply sm_refl].
  destruct (dl <? w_now w)%Z; cbn [fst]; [apply sm_store_remove|apply sm_refl].
Qed.

Lemma cookies_load_sm : forall w, sm w (fst (fst (cookies_load w b))).
Proof.
  intros w. unfold cookies_load. destruct (j_sess (get_jar w b)) as [[[s|dl d] e]|]; cbn [fst]; try apply sm_refl.
  - destruct s; cbn [fst]; [apply sm_refl|]. apply sm_set_jar. intros id H. discriminate H.
  - destruct (dl <? w_now w)%Z; cbn [fst]; [|apply sm_refl]. apply sm_set_jar. intros id H. discriminate H.
Qed.

Lemma backend_load_sm : forall c w, sm w (fst (fst (backend_load c w b))).
Proof.
  intros. unfold backend_load.
  destruct (c_loc c =? 0); [apply sid_load_sm|]. destruct (c_loc c =? 1); [apply cookies_load_sm|].
  destruct (cookie_first (j_sess (get_jar w b))) as [x|]; [|apply sid_load_sm].
  destruct (N.eq_dec x 67) as [->|Hn]; [apply cookies_load_sm|].
  destruct x as [|p]; [apply sid_load_sm|].
  do 7 (destruct p as [p|p|]; try apply sid_load_sm). contradiction Hn. reflexivity.
Qed.

Lemma sid_clear_sm : forall w, sm w (fst (sid_clear w b)).
Proof.
  intros w. unfold sid_clear. destruct (valid_sid (j_sess (get_jar w b))) as [i|]; cbn [fst].
  - eapply sm_trans; [apply sm_store_remove|]. apply sm_set_jar. intros id H. discriminate H.
  - apply sm_set_jar. intros id H. discriminate H.
Qed.

Lemma backend_clear_sm : forall c w, sm w (fst (backend_clear c w b)).
Proof.
  intros. unfold backend_clear.
  assert (sm w (fst (cookies_clear w b))) as Hc by (unfold cookies_clear; cbn [fst]; apply sm_set_jar; intros id H; discriminate H).
  destruct (c_loc c =? 0); [apply sid_clear_sm|]. destruct (c_loc c =? 1); [exact Hc|].
  destruct (cookie_first (j_sess (get_jar w b))) as [x|]; [|apply sid_clear_sm].
  destruct (N.eq_dec x 67) as [->|Hn]; [exact Hc|].
  destruct x as [|p]; [apply sid_clear_sm|].
  do 7 (destruct p as [p|p|]; try apply sid_clear_sm). contradiction Hn. reflexivity.
Qed.

(* the cookie handed back by a back-end save: its id (if any) is the presented one or a drawn one *)
Definition ck_ok (w w' : world) (r : option cookie) : Prop :=
  forall ck id, r = Some ck -> valid_sid (Some (ck, ESession)) = Some id -> valid_sid (j_sess (get_jar w b)) = Some id \/ drawn w w' id.

Lemma sm_store_save : forall w id0 dl d st nx,
  w_next w <= nx ->
  (forall id, st_find id st <> None -> st_find id (w_store w) <> None) ->
  (st_find id0 (w_store w) <> None \/ (id0 = fresh (w_next w) /\ w_next w < nx)) ->
  sm w (mkworld (w_now w) (w_jars w) (st_save id0 dl d st) nx (w_hist w)).
Proof.
  intros w id0 dl d st nx Hn Hst Hid. split; cbn [w_next w_store w_hist]; auto.
  - intros id H. destruct (list_eq_dec N.eq_dec id id0) as [->|Hne].
    + destruct Hid as [H1|[H1 H2]]; [left; exact H1|]. right. exists (w_next w). repeat split; [lia|exact H2|exact H1].
    + rewrite st_find_save_other in H by exact Hne. left. apply Hst. exact H.
Qed.

Definition kept_in_store (w : world) (newd : bool) : Prop :=
  newd = false -> forall id, valid_sid (j_sess (get_jar w b)) = Some id -> st_find id (w_store w) <> None.

Lemma sid_save_sm : forall w blob dl newd, kept_in_store w newd ->
  sm w (fst (fst (sid_save fresh w b blob dl newd))) /\
  ck_ok w (fst (fst (sid_save fresh w b blob dl newd))) (snd (sid_save fresh w b blob dl newd)).
Proof.
  intros w blob dl newd Hkept. unfold sid_save.
  destruct (valid_sid (j_sess (get_jar w b))) as [i|] eqn:Hv.
  - destruct newd; cbn [fst snd].
    + split.
      * apply sm_store_save; [lia| |right; split; [reflexivity|lia]]. intros id H. eapply st_find_remove_some. exact H.
      * intros ck id E Hid. injection E as <-. right. cbn in Hid.
        destruct (sid_ok (fresh (w_next w))); [|discriminate Hid]. injection Hid as <-.
        exists (w_next w). cbn [w_next]. repeat split; lia.
    + split.
      * unfold set_store. apply sm_store_save; [lia|auto|left; apply (Hkept eq_refl); exact Hv].
      * intros ck id E Hid. injection E as <-. left. cbn in Hid. destruct (sid_ok i); [|discriminate Hid]. injection Hid as <-. exact Hv.
  - cbn [fst snd]. split.
    + apply sm_store_save; [lia|auto|right; split; [reflexivity|lia]].
    + intros ck id E Hid. injection E as <-. right. cbn in Hid.
      destruct (sid_ok (fresh (w_next w))); [|discriminate Hid]. injection Hid as <-.
      exists (w_next w). cbn [w_next]. repeat split; lia.
Qed.

Lemma ck_ok_trans : forall w1 w2 w3 r, sm w1 w2 -> ck_ok w2 w3 r -> w_next w2 <= w_next w3 -> ck_ok w1 w3 r.
Proof.
  intros w1 w2 w3 r S H Hn ck id E Hv. destruct (H ck id E Hv) as [H1|H1].
  - destruct (sm_own _ _ S id H1) as [H2|H2]; [left; exact H2|right]. eapply drawn_mono; [apply (sm_next _ _ S)|exact Hn|left; exact H2].
  - right. eapply drawn_mono; [apply (sm_next _ _ S)|exact Hn|right; exact H1].
Qed.

Lemma backend_save_sm : forall c w blob dl newd onsrv, kept_in_store w newd ->
  sm w (fst (fst (backend_save fresh c w b blob dl newd onsrv))) /\
  ck_ok w (fst (fst (backend_save fresh c w b blob dl newd onsrv))) (snd (backend_save fresh c w b blob dl newd onsrv)).
Proof.
  intros c w blob dl newd onsrv Hkept. unfold backend_save.
  assert (forall w0 o, sm w0 (fst (fst (cookies_save w0 blob dl o))) /\ ck_ok w0 (fst (fst (cookies_save w0 blob dl o))) (snd (cookies_save w0 blob dl o))) as Hc.
  { intros w0 o. unfold cookies_save. destruct o; cbn [fst snd]; (split; [apply sm_refl|]); intros ck id E Hv; [discriminate E|].
    injection E as <-. discriminate Hv. }
  destruct (c_loc c =? 0); [apply sid_save_sm; exact Hkept|]. destruct (c_loc c =? 1); [apply Hc|].
  destruct (onsrv || (c_limit c <? blen blob)); [apply sid_save_sm; exact Hkept|].
  destruct (cookie_first (j_sess (get_jar w b))) as [x|]; [|apply Hc].
  destruct (N.eq_dec x 73) as [->|Hn].
  - pose proof (sid_clear_sm w) as Hs. destruct (sid_clear w b) as [w1 l1]. unfold cookies_save. cbn [fst snd] in *.
    split; [exact Hs|]. intros ck id E Hv. injection E as <-. discriminate Hv.
  - destruct x as [|p]; [apply Hc|].
    do 7 (destruct p as [p|p|]; try apply Hc). contradiction Hn. reflexivity.
Qed.

Lemma sm_final : forall w w1 j' hist',
  sm w w1 ->
  (forall id, valid_sid (j_sess j') = Some id -> valid_sid (j_sess (get_jar w b)) = Some id \/ drawn w w1 id) ->
  (forall c, In c hist' -> In c (w_hist w1) \/
      forall id, valid_sid (Some (c, ESession)) = Some id -> valid_sid (j_sess (get_jar w b)) = Some id \/ drawn w w1 id) ->
  sm w (mkworld (w_now w1) (set_nth b j' (w_jars w1)) (w_store w1) (w_next w1) hist').
Proof.
  intros w w1 j' hist' [A1 A2 A3 A4 A5] Hj Hh. split; cbn [w_next w_store w_hist].
  - exact A1.
  - intros id H. destruct (A2 id H) as [H1|(k & K1 & K2 & K3)]; [left; exact H1|right; exists k; auto].
  - intros b' Hb. unfold get_jar at 1. cbn [w_jars]. rewrite nth_set_nth_other by congruence. apply A3. exact Hb.
  - intros id H. unfold get_jar at 1 in H. cbn [w_jars] in H. rewrite nth_set_nth_same in H.
    destruct (Hj id H) as [H1|(k & K1 & K2 & K3)]; [left; exact H1|right; exists k; auto].
  - intros c H. destruct (Hh c H) as [H1|H1].
    + destruct (A5 c H1) as [H2|H2]; [left; exact H2|right]. intros id Hv.
      destruct (H2 id Hv) as [H3|(k & K1 & K2 & K3)]; [left; exact H3|right; exists k; auto].
    + right. intros id Hv. destruct (H1 id Hv) as [H3|(k & K1 & K2 & K3)]; [left; exact H3|right; exists k; auto].
Qed.

Lemma si_save_sm : forall c w s,
  (dempty (s_data s) = false -> kept_in_store w (newsess_of s)) -> sm w (fst (fst (si_save fresh c w b s))).
Proof.
  intros c w s Hkept0. unfold si_save. fold (newsess_of s).
  destruct (dempty (s_data s)) eqn:Hde; [|pose proof (Hkept0 eq_refl) as Hkept].
  - destruct (cookie_nonempty (j_sess (get_jar w b))).
    + pose proof (backend_clear_sm c w) as H. destruct (backend_clear c w b) as [w1 l1]. cbn [fst] in *.
      eapply sm_trans; [exact H|]. apply sm_set_jar. cbn [j_sess]. auto.
    + cbn [fst]. apply sm_set_jar. cbn [j_sess]. auto.
  - match goal with |- context [if ?c then _ else _] => destruct c end; [apply sm_refl|].
    match goal with |- context [if ?c then _ else _] => destruct c end; [apply sm_refl|].
    destruct (save_data (s_data s)) as [blob|]; [|apply sm_refl].
    match goal with |- context [backend_save fresh c w b blob ?dl ?n ?o] =>
      pose proof (backend_save_sm c w blob dl n o Hkept) as [H1 H2];
      destruct (backend_save fresh c w b blob dl n o) as [[w1 l1] r] end.
    cbn [fst snd] in *. destruct r as [ck|]; [|exact H1]. cbn [fst].
    apply sm_final; [exact H1| |].
    + intros id Hv. unfold jar_set_sess in Hv. destruct (age_exp (w_now w)) as [e|]; cbn [j_sess] in Hv; [|discriminate Hv].
      apply (H2 ck id eq_refl). rewrite (valid_sid_exp ck ESession e). exact Hv.
    + intros c0 Hin. destruct (age_exp (w_now w)) as [e|]; [|left; exact Hin].
      destruct (existsb (cookie_eqb ck) (w_hist w1)); [left; exact Hin|].
      apply in_app_or in Hin. destruct Hin as [Hin|[<-|[]]]; [left; exact Hin|right].
      intros id Hv. apply (H2 ck id eq_refl Hv).
Qed.

Lemma request_sm : forall c w script, sm w (fst (request fresh c w b script)).
Proof.
  intros c w script. unfold request.
  set (w0 := set_jar w b (jar_expire (w_now w) (get_jar w b))).
  assert (sm w w0) as F0.
  { apply sm_set_jar. intros id H. eapply valid_sid_expire. exact H. }
  pose proof (backend_load_sm c w0) as F1. rewrite <- si_load_world in F1.
  destruct (si_load c w0 b) as [[w1 l1] r] eqn:Hld. cbn [fst] in F1.
  destruct r as [[ld s]|e]; [|eapply sm_trans; eassumption].
  assert (dempty (s_data (apply_ops c s script)) = false -> kept_in_store w1 (newsess_of (apply_ops c s script))) as Hkept.
  { intros Hd Hnew id Hv. unfold newsess_of in Hnew. apply orb_false_iff in Hnew. destruct Hnew as [Hn _].
    rewrite Hd in Hn. cbn [negb] in Hn. rewrite andb_true_r, apply_ops_copy in Hn.
    eapply si_load_kept; eassumption. }
  pose proof (si_save_sm c w1 (apply_ops c s script) Hkept) as F2.
  destruct (si_save fresh c w1 b (apply_ops c s script)) as [[w2 l2] e]. cbn [fst] in *.
  eapply sm_trans; [eapply sm_trans|]; eassumption.
Qed.

End Summary.

Section Reach.
Variable fresh : N -> bytes.
Hypothesis fresh_inj : forall m n, fresh m = fresh n -> m = n.

Lemma inv_sm : forall b w w', inv fresh w -> sm fresh b w w' -> inv fresh w'.
Proof.
  intros b w w' [I1 I2 I3] [A1 A2 A3 A4 A5].
  assert (forall id, drawn fresh w w' id -> issued fresh w' id) as Hd.
  { intros id (k & K1 & K2 & K3). exists k. split; assumption. }
  assert (forall id, not_future fresh w id -> not_future fresh w' id) as Hm by (intros id H; exact (not_future_mono fresh fresh_inj w w' id A1 H)).
  split.
  - intros id H. destruct (A2 id H) as [H1|H1]; [|apply Hd; exact H1].
    exact (issued_mono fresh fresh_inj w w' id A1 (I1 id H1)).
  - intros b' id H. destruct (Nat.eq_dec b' b) as [->|Hne].
    + destruct (A4 id H) as [H1|H1]; [apply Hm; eapply I2; exact H1|apply (issued_not_future fresh fresh_inj); apply Hd; exact H1].
    + rewrite A3 in H by exact Hne. apply Hm. eapply I2. exact H.
  - intros c Hc id Hv. destruct (A5 c Hc) as [H1|H1].
    + apply Hm. eapply I3; eassumption.
    + destruct (H1 id Hv) as [H2|H2]; [apply Hm; eapply I2; exact H2|apply (issued_not_future fresh fresh_inj); apply Hd; exact H2].
Qed.

Lemma not_source_nf : forall w c e id, not_source fresh c -> valid_sid (Some (c, e)) = Some id -> not_future fresh w id.
Proof.
  intros w c e id Hns Hv n _ E. destruct (valid_sid_shape _ _ Hv) as [e' E']. injection E' as E1 _. subst c.
  apply (Hns n). rewrite E. reflexivity.
Qed.

Lemma inv_set_jar : forall w b j, inv fresh w -> ck_nf fresh w (j_sess j) -> inv fresh (set_jar w b j).
Proof.
  intros w b j [I1 I2 I3] Hj. split; cbn [w_store w_hist set_jar].
  - exact I1.
  - intros b' id H. destruct (Nat.eq_dec b' b) as [->|Hne].
    + rewrite get_set_jar_same in H. apply Hj. exact H.
    + rewrite get_set_jar_other in H by congruence. eapply I2. exact H.
  - exact I3.
Qed.

Lemma inv_step : forall c w st, inv fresh w -> fair_step fresh w st -> inv fresh (fst (do_step fresh c w st)).
Proof.
  intros c w st I Hf. destruct st; cbn [fair_step] in Hf; cbn [do_step].
  - cbn [fst]. destruct I as [I1 I2 I3]. split; assumption.
  - pose proof (request_sm fresh b c w script) as S. destruct (request fresh c w b script) as [w' o]. cbn [fst] in *.
    eapply inv_sm; eassumption.
  - cbn [fst]. unfold attack_set. destruct s as [|x s].
    + apply inv_set_jar; [exact I|]. intros id H. discriminate H.
    + apply inv_set_jar; [exact I|]. cbn [j_sess]. intros id H. eapply not_source_nf; eassumption.
  - destruct (w_hist w) as [|h0 hs] eqn:Eh; cbn [fst]; [exact I|]. unfold attack_set.
    set (c0 := nth (i mod length (h0 :: hs)) (h0 :: hs) h0).
    assert (In c0 (w_hist w)) as Hin.
    { rewrite Eh. unfold c0. apply nth_In. apply Nat.mod_upper_bound. discriminate. }
    assert (ck_nf fresh w (Some (mutate m c0, ESession))) as Hnf.
    { destruct m; try (intros id H; eapply not_source_nf; [apply Hf|exact H]).
      cbn [mutate]. apply (inv_hist _ _ I). exact Hin. }
    destruct (mutate m c0) as [[|x s]|dl d] eqn:Em.
    + apply inv_set_jar; [exact I|]. intros id H. discriminate H.
    + apply inv_set_jar; [exact I|]. exact Hnf.
    + apply inv_set_jar; [exact I|]. intros id H. discriminate H.
  - cbn [fst]. apply inv_set_jar; [exact I|]. cbn [j_sess]. apply (inv_jars _ _ I).
  - contradiction.
Qed.

(* histories in which the attacker never produces an identifier of the random source other than by verbatim replay,
   and no record is planted in storage *)
Fixpoint fair_run (c : cfg) (w : world) (l : list step) : Prop :=
  match l with
  | [] => True
  | st :: r => fair_step fresh w st /\ fair_run c (fst (do_step fresh c w st)) r
  end.

Lemma inv_run : forall c l w, inv fresh w -> fair_run c w l -> inv fresh (fst (run fresh c w l)).
Proof.
  intros c l. induction l as [|st r IH]; intros w I Hf; cbn [run]; [exact I|].
  destruct Hf as [Hs Hr].
  pose proof (inv_step c w st I Hs) as I1.
  destruct (do_step fresh c w st) as [w1 o]. cbn [fst] in *.
  specialize (IH w1 I1 Hr). destruct (run fresh c w1 r) as [w2 os]. exact IH.
Qed.

(* end to end, from the empty world: after ANY fair history, request r1 of b, any foreign history, request r2 of b *)
Theorem end_to_end_server_reachable : forall c pre b script1 s' blob ex l script2,
  c_loc c = 0 ->
  fair_run c world0 pre ->
  let w := fst (run fresh c world0 pre) in
  sid_ok (fresh (w_next w)) = true ->
  (forall b' id, b' <> b -> valid_sid (j_sess (get_jar w b')) = Some id -> valid_sid (j_sess (get_jar w b)) <> Some id) ->
  req_state c w b script1 = Some s' ->
  forallb op_keeps script1 = true ->
  dempty (s_data s') = false -> skipped (w_now w) s' = false -> save_data (s_data s') = Some blob ->
  age_exp (w_now w) (cookie_age (w_now w) s' (newsess_of s')) = Some ex ->
  let w1 := fst (request fresh c w b script1) in
  (forall id, valid_sid (j_sess (get_jar w1 b)) = Some id -> Forall (foreign_step b id) l) ->
  let w2 := fst (run fresh c w1 l) in
  (w_now w2 <= session_age (w_now w) s' (newsess_of s'))%Z -> exp_live (w_now w2) ex = true ->
  o_loaded (snd (request fresh c w2 b script2)) = Some (true, s_data s', s_tval s', s_how s', s_onsrv s').
Proof.
  intros c pre b script1 s' blob ex l script2 Hl Hfair w Hfo Huniq.
  pose proof (inv_run c pre world0 (inv_world0 fresh) Hfair) as I. fold w in I.
  apply (end_to_end_server2 fresh fresh_inj c w b script1 s' blob ex l script2 Hl Hfo (inv_store _ _ I)); [|exact Huniq].
  intros b0 id H. eapply (inv_jars _ _ I). exact H.
Qed.

End Reach.
