(* C06 proofs: the domain of the entry codec with the bounds in the statement.  save_data is defined exactly on the maps whose keys
   are shorter than 2^10 = 1024 bytes and whose values are shorter than 2^21 = 2097152 bytes (the capacities of the bit-fields
   key_size : 10 and data_size : 21 of struct packed), and on all of them load_data inverts it. *)
From CppcmsV Require Import Base.Tac C06.Defs C06.Proofs.
Local Open Scope N_scope.

Definition within_bounds (x : bytes * entry) : Prop := blen (fst x) < 2 ^ 10 /\ blen (fst (snd x)) < 2 ^ 21.

Lemma entry_fits_bounds : forall x, entry_fits x = true <-> within_bounds x.
Proof.
  intros x. unfold entry_fits, within_bounds. change (2 ^ 10) with 1024. change (2 ^ 21) with 2097152.
  rewrite andb_true_iff, !N.ltb_lt. tauto.
Qed.

Lemma save_data_defined_iff : forall m, (exists blob, save_data m = Some blob) <-> Forall within_bounds m.
Proof.
  intros m. induction m as [|x r IH]; cbn [save_data].
  - split; [intros _; constructor|intros _; eexists; reflexivity].
  - destruct (entry_fits x) eqn:E.
    + apply entry_fits_bounds in E. split.
      * intros [blob H]. destruct (save_data r) as [t|] eqn:Hr; [|discriminate H].
        constructor; [exact E|]. apply IH. exists t. reflexivity.
      * intros H. inversion H as [|? ? _ Hr]; subst. apply IH in Hr. destruct Hr as [t ->]. eexists. reflexivity.
    + split; [intros [blob H]; discriminate H|].
      intros H. inversion H as [|? ? Hx _]; subst. apply entry_fits_bounds in Hx. rewrite Hx in E. discriminate E.
Qed.

Theorem codec_exact_domain : forall m, ssorted m ->
  (Forall within_bounds m -> exists blob, save_data m = Some blob /\ load_data blob = LOk m) /\
  (~ Forall within_bounds m -> save_data m = None).
Proof.
  intros m Hs. split.
  - intros H. apply save_data_defined_iff in H. destruct H as [blob Hb]. exists blob. split; [exact Hb|].
    apply codec_roundtrip_lemma; assumption.
  - intros H. destruct (save_data m) as [blob|] eqn:E; [|reflexivity].
    exfalso. apply H. apply save_data_defined_iff. exists blob. exact E.
Qed.

(* one entry at the bound: a value of exactly 2^21 bytes or a key of exactly 2^10 bytes is refused, whatever the rest is *)
Lemma refused_at_the_bound : forall k v e r,
  blen k = 2 ^ 10 \/ blen v = 2 ^ 21 -> save_data ((k, (v, e)) :: r) = None.
Proof.
  intros k v e r H. cbn [save_data]. unfold entry_fits. cbn [fst snd].
  destruct H as [-> | ->]; [reflexivity|]. rewrite andb_false_r. reflexivity.
Qed.
