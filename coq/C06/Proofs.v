(* C06 proofs, part 1: byte-string order, the data map, the packed entry codec *)
From CppcmsV Require Import Base.Tac C06.Defs.
Local Open Scope N_scope.

(* ---------- byte strings ---------- *)
Lemma beqb_eq : forall a b, beqb a b = true <-> a = b.
Proof.
  induction a as [|x a IH]; destruct b as [|y b]; cbn [beqb]; split; intros H; try discriminate; try reflexivity.
  - apply andb_true_iff in H. destruct H as [H1 H2]. apply N.eqb_eq in H1. apply IH in H2. congruence.
  - inversion H; subst. rewrite N.eqb_refl. cbn. apply IH. reflexivity.
Qed.
Lemma beqb_refl : forall a, beqb a a = true.
Proof. intros a. apply beqb_eq. reflexivity. Qed.
Lemma beqb_neq : forall a b, beqb a b = false <-> a <> b.
Proof. intros a b. split; intros H.
  - intros E. apply beqb_eq in E. congruence.
  - destruct (beqb a b) eqn:E; [apply beqb_eq in E; contradiction|reflexivity]. Qed.
Lemma beqb_sym : forall a b, beqb a b = beqb b a.
Proof. intros a b. destruct (beqb a b) eqn:E.
  - apply beqb_eq in E. subst. symmetry. apply beqb_refl.
  - symmetry. apply beqb_neq. apply beqb_neq in E. congruence. Qed.

Lemma bltb_irrefl : forall a, bltb a a = false.
Proof. induction a as [|x a IH]; cbn [bltb]; [reflexivity|]. rewrite N.ltb_irrefl. exact IH. Qed.

Lemma bltb_trans : forall a b c, bltb a b = true -> bltb b c = true -> bltb a c = true.
Proof.
  induction a as [|x a IH]; intros b c H1 H2.
  - destruct b as [|y b]; [discriminate|]. destruct c as [|z c]; [discriminate|reflexivity].
  - destruct b as [|y b]; [discriminate|]. destruct c as [|z c]; [discriminate|].
    cbn [bltb] in *.
    destruct (N.ltb_spec x y) as [Hxy|Hxy].
    + destruct (N.ltb_spec y z) as [Hyz|Hyz].
      * destruct (N.ltb_spec x z); [reflexivity|lia].
      * destruct (N.ltb_spec z y) as [Hzy|Hzy]; [discriminate|].
        assert (y = z) by lia. subst. destruct (N.ltb_spec x z); [reflexivity|lia].
    + destruct (N.ltb_spec y x) as [Hyx|Hyx]; [discriminate|].
      assert (x = y) by lia. subst.
      destruct (N.ltb_spec y z) as [Hyz|Hyz]; [reflexivity|].
      destruct (N.ltb_spec z y) as [Hzy|Hzy]; [discriminate|].
      eapply IH; eassumption.
Qed.

Lemma bltb_total : forall a b, beqb a b = false -> bltb a b = false -> bltb b a = true.
Proof.
  induction a as [|x a IH]; intros b He Hl.
  - destruct b; [discriminate|discriminate].
  - destruct b as [|y b]; [reflexivity|]. cbn [beqb bltb] in *.
    destruct (N.ltb_spec x y) as [Hxy|Hxy]; [discriminate|].
    destruct (N.ltb_spec y x) as [Hyx|Hyx]; [reflexivity|].
    assert (x = y) by lia. subst. rewrite N.eqb_refl in He. cbn in He. apply IH; assumption.
Qed.

Lemma bltb_neq : forall a b, bltb a b = true -> beqb a b = false.
Proof. intros a b H. apply beqb_neq. intros E. subst. rewrite bltb_irrefl in H. discriminate. Qed.

(* ---------- sorted data maps ---------- *)
Definition key_below (k : bytes) (m : dmap) : Prop := Forall (fun x => bltb k (fst x) = true) m.
Fixpoint ssorted (m : dmap) : Prop :=
  match m with
  | [] => True
  | (k, _) :: r => key_below k r /\ ssorted r
  end.

Lemma key_below_trans : forall a b m, bltb a b = true -> key_below b m -> key_below a m.
Proof. intros a b m H Hb. unfold key_below in *. eapply Forall_impl; [|exact Hb].
  intros x Hx. cbn beta in *. eapply bltb_trans; eassumption. Qed.

Lemma key_below_dput : forall a k e m, bltb a k = true -> key_below a m -> key_below a (dput k e m).
Proof.
  intros a k e m Hak. induction m as [|[k' e'] r IH]; intros Hb; cbn [dput].
  - constructor; [exact Hak|constructor].
  - inversion Hb as [|? ? Hx Hr]; subst. cbn [fst] in Hx.
    destruct (beqb k k'); [constructor; [exact Hak|exact Hr]|].
    destruct (bltb k k'); [constructor; [exact Hak|exact Hb]|].
    constructor; [exact Hx|apply IH; exact Hr].
Qed.

Lemma ssorted_dput : forall k e m, ssorted m -> ssorted (dput k e m).
Proof.
  intros k e m. induction m as [|[k' e'] r IH]; intros Hs; cbn [dput].
  - cbn. split; [constructor|exact I].
  - destruct Hs as [Hb Hs].
    destruct (beqb k k') eqn:He.
    + apply beqb_eq in He. subst. cbn. split; assumption.
    + destruct (bltb k k') eqn:Hl.
      * cbn [ssorted]. split; [|split; assumption].
        constructor; [exact Hl|]. eapply key_below_trans; eassumption.
      * cbn [ssorted]. split; [|apply IH; exact Hs].
        apply key_below_dput; [|exact Hb]. apply bltb_total; [exact He|exact Hl].
Qed.

Lemma key_below_dremove : forall a k m, key_below a m -> key_below a (dremove k m).
Proof.
  intros a k m. induction m as [|[k' e'] r IH]; intros Hb; cbn [dremove]; [exact Hb|].
  inversion Hb; subst. destruct (beqb k k'); [assumption|]. constructor; [assumption|apply IH; assumption].
Qed.

Lemma ssorted_dremove : forall k m, ssorted m -> ssorted (dremove k m).
Proof.
  intros k m. induction m as [|[k' e'] r IH]; intros Hs; cbn [dremove]; [exact I|].
  destruct Hs as [Hb Hs]. destruct (beqb k k'); [exact Hs|].
  cbn [ssorted]. split; [apply key_below_dremove; exact Hb|apply IH; exact Hs].
Qed.

(* appending a key greater than all present keys *)
Definition keys_above (m : dmap) (k : bytes) : Prop := Forall (fun x => bltb (fst x) k = true) m.

Lemma dput_append : forall k e m, keys_above m k -> dput k e m = m ++ [(k, e)].
Proof.
  intros k e m. induction m as [|[k' e'] r IH]; intros Ha; cbn [dput app]; [reflexivity|].
  inversion Ha as [|? ? Hx Hr]; subst. cbn [fst] in Hx.
  assert (beqb k k' = false) as He by (rewrite beqb_sym; apply bltb_neq; exact Hx).
  rewrite He.
  assert (bltb k k' = false) as Hl.
  { destruct (bltb k k') eqn:E; [|reflexivity].
    assert (bltb k k = true) by (eapply bltb_trans; eassumption). rewrite bltb_irrefl in H. discriminate. }
  rewrite Hl. f_equal. apply IH. exact Hr.
Qed.

Lemma rebuild_sorted : forall m acc,
  ssorted m -> (forall x, In x m -> keys_above acc (fst x)) ->
  fold_left (fun a x => dput (fst x) (snd x) a) m acc = acc ++ m.
Proof.
  induction m as [|[k e] r IH]; intros acc Hs Ha; cbn [fold_left].
  - rewrite app_nil_r. reflexivity.
  - destruct Hs as [Hb Hs]. cbn [fst snd].
    rewrite dput_append by (apply (Ha (k, e)); left; reflexivity).
    rewrite IH; [rewrite <- app_assoc; reflexivity|exact Hs|].
    intros x Hx. unfold keys_above. apply Forall_app. split.
    + apply Ha. right. exact Hx.
    + constructor; [|constructor]. cbn [fst]. unfold key_below in Hb. rewrite Forall_forall in Hb. apply Hb. exact Hx.
Qed.

(* ---------- the header ---------- *)
Lemma header_decode : forall ks (e : bool) ds,
  ks < 1024 -> ds < 2097152 ->
  exists b0 b1 b2 b3, header ks e ds = [b0; b1; b2; b3] /\
    let w := b0 + 256 * b1 + 65536 * b2 + 16777216 * b3 in
    w mod 1024 = ks /\ ((w / 1024) mod 2 =? 1) = e /\ w / 2048 = ds.
Proof.
  intros ks e ds Hk Hd. unfold header, le32.
  set (w0 := ks + (if e then 1024 else 0) + 2048 * ds).
  exists (w0 mod 256), ((w0 / 256) mod 256), ((w0 / 65536) mod 256), ((w0 / 16777216) mod 256).
  split; [reflexivity|]. cbv zeta.
  assert (Hw : w0 mod 256 + 256 * ((w0 / 256) mod 256) + 65536 * ((w0 / 65536) mod 256) + 16777216 * ((w0 / 16777216) mod 256) = w0).
  { assert (w0 < 4294967296) by (unfold w0; destruct e; lia). lia. }
  rewrite Hw. unfold w0. destruct e.
  - split; [lia|]. split; [|lia]. apply N.eqb_eq. lia.
  - split; [lia|]. split; [|lia]. apply N.eqb_neq. lia.
Qed.

Lemma firstn_app_exact : forall (a b : bytes), firstn (length a) (a ++ b) = a.
Proof. intros a b. rewrite firstn_app, Nat.sub_diag, firstn_all, firstn_O, app_nil_r. reflexivity. Qed.
Lemma skipn_app_exact : forall (a b : bytes), skipn (length a) (a ++ b) = b.
Proof. intros a b. rewrite skipn_app, Nat.sub_diag, skipn_all, skipn_O. reflexivity. Qed.

Local Opaque header.

Lemma load_aux_no_fuel : forall fuel s acc, (length s < fuel)%nat -> load_aux fuel s acc <> LFuel.
Proof.
  induction fuel as [|f IH]; intros s acc Hl; [lia|].
  destruct s as [|b0 t0]; cbn [load_aux]; [discriminate|].
  destruct t0 as [|b1 [|b2 [|b3 rest]]]; try discriminate.
  match goal with |- context [if ?c then _ else _] => destruct c eqn:Hc end; [|discriminate].
  apply IH. rewrite skipn_length. cbn [length] in Hl. lia.
Qed.

Lemma load_data_no_fuel : forall s, load_data s <> LFuel.
Proof. intros s. unfold load_data. apply load_aux_no_fuel. lia. Qed.

Definition rebuild (m : dmap) (acc : dmap) : dmap := fold_left (fun a x => dput (fst x) (snd x) a) m acc.

Lemma load_aux_save : forall m blob fuel acc,
  save_data m = Some blob -> (length blob < fuel)%nat ->
  load_aux fuel blob acc = LOk (rebuild m acc).
Proof.
  induction m as [|[k [v e]] r IH]; intros blob fuel acc Hs Hf.
  - cbn in Hs. inversion Hs; subst. destruct fuel; reflexivity.
  - cbn [save_data] in Hs.
    revert Hs. match goal with |- context [if ?c then _ else _] => destruct c eqn:Hfit end; [|discriminate].
    destruct (save_data r) as [t|] eqn:Hr; [|discriminate]. intros Hs. injection Hs as Eb. subst blob.
    unfold entry_fits in Hfit. cbn [fst snd] in Hfit. apply andb_true_iff in Hfit. destruct Hfit as [Hk Hv].
    apply N.ltb_lt in Hk. apply N.ltb_lt in Hv.
    unfold save_entry in *. cbn [fst snd] in *.
    destruct (header_decode (blen k) e (blen v) Hk Hv) as (b0 & b1 & b2 & b3 & Hh & Hw).
    rewrite Hh in *. cbv zeta in Hw. destruct Hw as (W1 & W2 & W3).
    rewrite <- !app_assoc in *.
    destruct fuel as [|f]; [cbn in Hf; lia|].
    cbn [app load_aux]. rewrite W1, W2, W3.
    assert (Hlen : blen (k ++ v ++ t) = blen k + blen v + blen t) by (unfold blen; rewrite !app_length; lia).
    assert (blen k + blen v <=? blen (k ++ v ++ t) = true) as Hle by (apply N.leb_le; lia).
    rewrite Hle.
    assert (N.to_nat (blen k) = length k) as Ek by (unfold blen; lia).
    assert (N.to_nat (blen v) = length v) as Ev by (unfold blen; lia).
    assert (N.to_nat (blen k + blen v) = (length k + length v)%nat) as Ekv by (unfold blen; lia).
    rewrite Ek, Ev, Ekv.
    rewrite !firstn_app_exact. rewrite skipn_app_exact. rewrite firstn_app_exact.
    replace (skipn (length k + length v) (k ++ v ++ t)) with t.
    2:{ rewrite app_assoc. rewrite <- app_length. rewrite skipn_app_exact. reflexivity. }
    unfold rebuild. cbn [fold_left fst snd]. apply IH; [reflexivity|].
    cbn [length app] in Hf. rewrite !app_length in Hf. lia.
Qed.

(* round trip for every well-formed (sorted, unique keys) map whose entries fit *)
Lemma codec_roundtrip_lemma : forall m blob,
  ssorted m -> save_data m = Some blob -> load_data blob = LOk m.
Proof.
  intros m blob Hs Hb. unfold load_data.
  rewrite (load_aux_save m blob (S (length blob)) [] Hb) by lia.
  unfold rebuild. rewrite rebuild_sorted; [reflexivity|exact Hs|]. intros x _. constructor.
Qed.

Lemma save_data_fits : forall m, forallb entry_fits m = true -> exists blob, save_data m = Some blob.
Proof.
  induction m as [|x r IH]; intros H; cbn [save_data]; [eexists; reflexivity|].
  cbn [forallb] in H. apply andb_true_iff in H. destruct H as [H1 H2]. rewrite H1.
  destruct (IH H2) as [t Ht]. rewrite Ht. eexists. reflexivity.
Qed.

(* whatever load_data accepts is a sorted map *)
Lemma load_aux_sorted : forall fuel s acc m, ssorted acc -> load_aux fuel s acc = LOk m -> ssorted m.
Proof.
  induction fuel as [|f IH]; intros s acc m Ha H.
  - destruct s; cbn in H; [inversion H; subst; exact Ha|discriminate H].
  - destruct s as [|b0 t0]; cbn [load_aux] in H; [inversion H; subst; exact Ha|].
    destruct t0 as [|b1 [|b2 [|b3 rest]]]; try discriminate H.
    revert H. match goal with |- context [if ?c then _ else _] => destruct c eqn:Hc end; [|discriminate]. intros H.
    eapply IH; [|exact H]. apply ssorted_dput. exact Ha.
Qed.
Lemma load_data_sorted : forall s m, load_data s = LOk m -> ssorted m.
Proof. intros s m H. unfold load_data in H. eapply load_aux_sorted; [|exact H]. exact I. Qed.
