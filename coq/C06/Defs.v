(* C06: executable model of cppcms::session_interface (src/session_interface.cpp: packed codec save_data / load_data,
   load, save, cookie_age, session_age, update_exposed), of the back-ends session_sid / session_cookies /
   session_dual, of an abstract session_storage (what memory / files / network storages look like through the
   session_storage interface), of a browser cookie jar and of a virtual clock.
   Bytes are N, strings are list N.  No proofs here. *)
From Coq Require Import NArith ZArith List Bool.
Import ListNotations.
Local Open Scope N_scope.

Definition bytes := list N.

(* ---------- byte strings: equality and the order of std::map<std::string,...> (unsigned bytewise) ---------- *)
Fixpoint beqb (a b : bytes) : bool :=
  match a, b with
  | [], [] => true
  | x :: a', y :: b' => (x =? y) && beqb a' b'
  | _, _ => false
  end.

Fixpoint bltb (a b : bytes) : bool :=
  match a, b with
  | [], [] => false
  | [], _ :: _ => true
  | _ :: _, [] => false
  | x :: a', y :: b' => if x <? y then true else if y <? x then false else bltb a' b'
  end.

Definition blen (s : bytes) : N := N.of_nat (length s).

(* ---------- the data map: std::map<std::string,entry>, kept sorted, unique keys ---------- *)
Definition entry := (bytes * bool)%type.          (* value, exposed *)
Definition dmap := list (bytes * entry).

Fixpoint dfind (k : bytes) (m : dmap) : option entry :=
  match m with
  | [] => None
  | (k', e) :: r => if beqb k k' then Some e else dfind k r
  end.

Fixpoint dput (k : bytes) (e : entry) (m : dmap) : dmap :=
  match m with
  | [] => [(k, e)]
  | (k', e') :: r =>
      if beqb k k' then (k, e) :: r
      else if bltb k k' then (k, e) :: (k', e') :: r
      else (k', e') :: dput k e r
  end.

Fixpoint dremove (k : bytes) (m : dmap) : dmap :=
  match m with
  | [] => []
  | (k', e') :: r => if beqb k k' then r else (k', e') :: dremove k r
  end.

Definition entry_eqb (a b : entry) : bool := beqb (fst a) (fst b) && Bool.eqb (snd a) (snd b).

Fixpoint dmap_eqb (a b : dmap) : bool :=
  match a, b with
  | [], [] => true
  | (k, e) :: a', (k', e') :: b' => beqb k k' && entry_eqb e e' && dmap_eqb a' b'
  | _, _ => false
  end.

Definition dempty (m : dmap) : bool := match m with [] => true | _ => false end.

(* ---------- packed entry codec (struct packed: key_size:10, exposed:1, data_size:21, little endian) ---------- *)
Definition le32 (w : N) : bytes := [w mod 256; (w / 256) mod 256; (w / 65536) mod 256; (w / 16777216) mod 256].
Definition header (ks : N) (e : bool) (ds : N) : bytes := le32 (ks + (if e then 1024 else 0) + 2048 * ds).

Definition entry_fits (x : bytes * entry) : bool := (blen (fst x) <? 1024) && (blen (fst (snd x)) <? 2097152).

Definition save_entry (x : bytes * entry) : bytes :=
  header (blen (fst x)) (snd (snd x)) (blen (fst (snd x))) ++ fst x ++ fst (snd x).

(* None = packed(ks,exp,ds) throws cppcms_error (key or value too long) *)
Fixpoint save_data (m : dmap) : option bytes :=
  match m with
  | [] => Some []
  | x :: r =>
      if entry_fits x then
        match save_data r with Some t => Some (save_entry x ++ t) | None => None end
      else None
  end.

Inductive lres := LOk (m : dmap) | LErr | LFuel.

Fixpoint load_aux (fuel : nat) (s : bytes) (acc : dmap) : lres :=
  match s with
  | [] => LOk acc
  | b0 :: t0 =>
      match fuel with
      | O => LFuel
      | S f =>
          match t0 with
          | b1 :: b2 :: b3 :: rest =>
              let w := b0 + 256 * b1 + 65536 * b2 + 16777216 * b3 in
              let ks := w mod 1024 in
              let e := (w / 1024) mod 2 in
              let ds := w / 2048 in
              if ks + ds <=? blen rest then
                let key := firstn (N.to_nat ks) rest in
                let val := firstn (N.to_nat ds) (skipn (N.to_nat ks) rest) in
                load_aux f (skipn (N.to_nat (ks + ds)) rest) (dput key (val, e =? 1) acc)
              else LErr
          | _ => LErr
          end
      end
  end.

Definition load_data (s : bytes) : lres := load_aux (S (length s)) s [].

(* ---------- decimal numbers (set<int> / get<int> through iostreams in the C locale) ---------- *)
Fixpoint dec_aux (fuel : nat) (n : N) (acc : bytes) : bytes :=
  match fuel with
  | O => acc
  | S f => let acc' := (48 + n mod 10) :: acc in if n <? 10 then acc' else dec_aux f (n / 10) acc'
  end.
Definition show_N (n : N) : bytes := dec_aux (S (N.size_nat n)) n [].
Definition show_Z (z : Z) : bytes :=
  match z with Zneg p => 45 :: show_N (Npos p) | _ => show_N (Z.to_N z) end.

Fixpoint digits_val (s : bytes) (acc : N) : option N :=
  match s with
  | [] => Some acc
  | c :: r => if (48 <=? c) && (c <=? 57) then digits_val r (10 * acc + (c - 48)) else None
  end.
(* canonical forms only (what set<int> writes); anything else counts as a failed conversion *)
Definition parse_Z (s : bytes) : option Z :=
  match s with
  | [] => None
  | 45 :: (_ :: _) as r => match digits_val r 0 with Some n => Some (- Z.of_N n)%Z | None => None end
  | _ => match digits_val s 0 with Some n => Some (Z.of_N n) | None => None end
  end.

(* ---------- cookies, jars, storage, world ---------- *)
(* symbolic MAC: an authentic client-side cookie is CEnc deadline payload; everything else (server-side ids,
   attacker strings) is a literal string *)
Inductive cookie := CRaw (s : bytes) | CEnc (deadline : Z) (data : bytes).
Inductive cexp := ESession | EAt (t : Z).

Definition cookie_eqb (a b : cookie) : bool :=
  match a, b with
  | CRaw s, CRaw t => beqb s t
  | CEnc d s, CEnc d' t => Z.eqb d d' && beqb s t
  | _, _ => false
  end.

Definition xjar := list (bytes * (bytes * cexp)).        (* exposed-value cookies prefix_key, sorted by key *)
Record jar := mkjar { j_sess : option (cookie * cexp); j_exp : xjar }.
Definition jar0 := mkjar None [].

Fixpoint xput (k : bytes) (v : bytes * cexp) (m : xjar) : xjar :=
  match m with
  | [] => [(k, v)]
  | (k', v') :: r =>
      if beqb k k' then (k, v) :: r
      else if bltb k k' then (k, v) :: (k', v') :: r
      else (k', v') :: xput k v r
  end.
Fixpoint xremove (k : bytes) (m : xjar) : xjar :=
  match m with
  | [] => []
  | (k', v') :: r => if beqb k k' then r else (k', v') :: xremove k r
  end.

Definition store := list (bytes * (Z * bytes)).           (* id -> deadline, blob *)
Fixpoint st_find (id : bytes) (s : store) : option (Z * bytes) :=
  match s with
  | [] => None
  | (i, r) :: t => if beqb id i then Some r else st_find id t
  end.
Fixpoint st_remove (id : bytes) (s : store) : store :=
  match s with
  | [] => []
  | (i, r) :: t => if beqb id i then st_remove id t else (i, r) :: st_remove id t
  end.
Definition st_save (id : bytes) (dl : Z) (d : bytes) (s : store) : store := (id, (dl, d)) :: st_remove id s.
(* session_storage::load: a record whose deadline is in the past is not returned (all three storages) *)
Definition st_load (now : Z) (id : bytes) (s : store) : option (Z * bytes) :=
  match st_find id s with
  | Some (dl, d) => if (dl <? now)%Z then None else Some (dl, d)
  | None => None
  end.

Inductive sop := OpS (id : bytes) (dl : Z) (d : bytes) | OpL (id : bytes) (found : bool) | OpD (id : bytes).
Definition op_id (o : sop) : bytes := match o with OpS i _ _ => i | OpL i _ => i | OpD i => i end.

Record world := mkworld {
  w_now : Z;
  w_jars : list jar;
  w_store : store;
  w_next : N;                (* number of ids drawn from the random source so far *)
  w_hist : list cookie       (* the distinct session cookie values the server has emitted, oldest first *)
}.

Definition get_jar (w : world) (b : nat) : jar := nth b (w_jars w) jar0.
Fixpoint set_nth (b : nat) (j : jar) (l : list jar) : list jar :=
  match b, l with
  | O, [] => [j]
  | O, _ :: t => j :: t
  | S b', [] => jar0 :: set_nth b' j []
  | S b', x :: t => x :: set_nth b' j t
  end.
Definition set_jar (w : world) (b : nat) (j : jar) : world :=
  mkworld (w_now w) (set_nth b j (w_jars w)) (w_store w) (w_next w) (w_hist w).
Definition set_store (w : world) (s : store) : world :=
  mkworld (w_now w) (w_jars w) s (w_next w) (w_hist w).

(* what the server sees as the session cookie string: first byte, emptiness *)
Definition cookie_first (c : option (cookie * cexp)) : option N :=
  match c with
  | Some (CRaw (x :: _), _) => Some x
  | Some (CRaw [], _) => None
  | Some (CEnc _ _, _) => Some 67
  | None => None
  end.
Definition cookie_nonempty (c : option (cookie * cexp)) : bool :=
  match cookie_first c with Some _ => true | None => false end.

(* session_sid::valid_sid *)
Definition low_xdigit (c : N) : bool := ((48 <=? c) && (c <=? 57)) || ((97 <=? c) && (c <=? 102)).
Definition sid_ok (id : bytes) : bool := (length id =? 32)%nat && forallb low_xdigit id.
Definition valid_sid (c : option (cookie * cexp)) : option bytes :=
  match c with
  | Some (CRaw (73 :: id), _) => if sid_ok id then Some id else None
  | _ => None
  end.

(* the browser: a cookie whose max-age elapsed is not sent any more *)
Definition exp_live (now : Z) (e : cexp) : bool :=
  match e with ESession => true | EAt t => negb (t <? now)%Z end.
Definition jar_expire (now : Z) (j : jar) : jar :=
  mkjar (match j_sess j with Some (c, e) => if exp_live now e then Some (c, e) else None | None => None end)
        (filter (fun x => exp_live now (snd (snd x))) (j_exp j)).

(* set_session_cookie(age, value): age<0 deletes, age=0 browser-session cookie, else max-age *)
Definition age_exp (now : Z) (age : Z) : option cexp :=
  if (age <? 0)%Z then None else if (age =? 0)%Z then Some ESession else Some (EAt (now + age)%Z).

(* ---------- the 10 % renew window: delta < timeout_val_ * 0.1 evaluated in IEEE double ---------- *)
(* 0.1 as a double is 3602879701896397 / 2^55; the product is rounded to 53 bits, ties to even *)
Definition round53 (num : Z) : Z * Z :=      (* num >= 0 ;  result (q, shift) meaning q * 2^shift *)
  let l := Z.log2 num in
  if (l <? 53)%Z then (num, 0%Z)
  else let sh := (l - 52)%Z in
       let q := Z.shiftr num sh in
       let r := (num - Z.shiftl q sh)%Z in
       let half := Z.shiftl 1 (sh - 1) in
       if (half <? r)%Z then ((q + 1)%Z, sh)
       else if (r =? half)%Z then ((if Z.odd q then q + 1 else q)%Z, sh)
       else (q, sh).
Definition tenth_gt (delta tval : Z) : bool :=     (* delta < tval * 0.1 *)
  let (q, sh) := round53 (Z.abs tval * 3602879701896397)%Z in
  let x := if (tval <? 0)%Z then (- Z.shiftl q sh)%Z else Z.shiftl q sh in
  (delta * 36028797018963968 <? x)%Z.

(* ---------- one request ---------- *)
Record cfg := mkcfg { c_loc : N ; (* 0 server, 1 client, 2 both *)
                      c_how : Z ; (* 0 fixed, 1 renew, 2 browser *)
                      c_timeout : Z ;
                      c_limit : N }.

Record sess := mksess {
  s_data : dmap; s_copy : dmap; s_tval : Z; s_how : Z; s_tin : Z; s_onsrv : bool; s_reset : bool }.

Inductive scr :=
  | Oset (k v : bytes) | Oerase (k : bytes) | Oclear | Oexpose (k : bytes) | Ohide (k : bytes)
  | Oage (t : Z) | Odefage | Ohow (h : Z) | Odefhow | Oonsrv (b : bool) | Oreset.

Definition k_t : bytes := [95; 116].
Definition k_h : bytes := [95; 104].
Definition k_s : bytes := [95; 115].

Definition d_set (k v : bytes) (m : dmap) : dmap :=
  match dfind k m with Some (_, e) => dput k (v, e) m | None => dput k (v, false) m end.
Definition d_expose (k : bytes) (b : bool) (m : dmap) : dmap :=
  match dfind k m with Some (v, _) => dput k (v, b) m | None => dput k ([], b) m end.

Definition apply_op (c : cfg) (s : sess) (o : scr) : sess :=
  match o with
  | Oset k v => mksess (d_set k v (s_data s)) (s_copy s) (s_tval s) (s_how s) (s_tin s) (s_onsrv s) (s_reset s)
  | Oerase k => mksess (dremove k (s_data s)) (s_copy s) (s_tval s) (s_how s) (s_tin s) (s_onsrv s) (s_reset s)
  (* clear(): data_ emptied and timeout_val_/how_/on_server_ back to the configured defaults (the entries _t/_h/_s that
     recorded them are gone) *)
  | Oclear => mksess [] (s_copy s) (c_timeout c) (c_how c) (s_tin s) false (s_reset s)
  | Oexpose k => mksess (d_expose k true (s_data s)) (s_copy s) (s_tval s) (s_how s) (s_tin s) (s_onsrv s) (s_reset s)
  | Ohide k => mksess (d_expose k false (s_data s)) (s_copy s) (s_tval s) (s_how s) (s_tin s) (s_onsrv s) (s_reset s)
  | Oage t => mksess (d_set k_t (show_Z t) (s_data s)) (s_copy s) t (s_how s) (s_tin s) (s_onsrv s) (s_reset s)
  | Odefage => mksess (dremove k_t (s_data s)) (s_copy s) (c_timeout c) (s_how s) (s_tin s) (s_onsrv s) (s_reset s)
  | Ohow h => mksess (d_set k_h (show_Z h) (s_data s)) (s_copy s) (s_tval s) h (s_tin s) (s_onsrv s) (s_reset s)
  | Odefhow => mksess (dremove k_h (s_data s)) (s_copy s) (s_tval s) (c_how c) (s_tin s) (s_onsrv s) (s_reset s)
  | Oonsrv b => mksess (d_set k_s (if b then [49] else [48]) (s_data s)) (s_copy s) (s_tval s) (s_how s) (s_tin s) b (s_reset s)
  | Oreset => mksess (s_data s) (s_copy s) (s_tval s) (s_how s) (s_tin s) (s_onsrv s) true
  end.

Definition apply_ops (c : cfg) (s : sess) (l : list scr) : sess := fold_left (apply_op c) l s.

(* clear_session_cookie *)
Definition jar_clear_sess (j : jar) : jar := mkjar None (j_exp j).

(* --- back-end load: result = (world, storage log, Some (blob, deadline)) --- *)
Definition sid_load (w : world) (b : nat) : world * list sop * option (bytes * Z) :=
  match valid_sid (j_sess (get_jar w b)) with
  | None => (w, [], None)
  | Some id =>
      match st_load (w_now w) id (w_store w) with
      | None => (w, [OpL id false], None)
      | Some (dl, d) =>
          if (dl <? w_now w)%Z then (set_store w (st_remove id (w_store w)), [OpL id true; OpD id], None)
          else (w, [OpL id true], Some (d, dl))
      end
  end.

Definition cookies_load (w : world) (b : nat) : world * list sop * option (bytes * Z) :=
  let j := get_jar w b in
  match j_sess j with
  | None => (w, [], None)
  | Some (CRaw [], _) => (w, [], None)
  | Some (CRaw (_ :: _), _) => (set_jar w b (jar_clear_sess j), [], None)   (* not C.., bad base64, bad MAC, too short *)
  | Some (CEnc dl d, _) =>
      if (dl <? w_now w)%Z then (set_jar w b (jar_clear_sess j), [], None) else (w, [], Some (d, dl))
  end.

Definition backend_load (c : cfg) (w : world) (b : nat) : world * list sop * option (bytes * Z) :=
  if c_loc c =? 0 then sid_load w b
  else if c_loc c =? 1 then cookies_load w b
  else match cookie_first (j_sess (get_jar w b)) with
       | Some 67 => cookies_load w b
       | _ => sid_load w b
       end.

(* --- back-end clear --- *)
Definition sid_clear (w : world) (b : nat) : world * list sop :=
  let j := get_jar w b in
  match valid_sid (j_sess j) with
  | Some id => (set_jar (set_store w (st_remove id (w_store w))) b (jar_clear_sess j), [OpD id])
  | None => (set_jar w b (jar_clear_sess j), [])
  end.
Definition cookies_clear (w : world) (b : nat) : world * list sop :=
  (set_jar w b (jar_clear_sess (get_jar w b)), []).
Definition backend_clear (c : cfg) (w : world) (b : nat) : world * list sop :=
  if c_loc c =? 0 then sid_clear w b
  else if c_loc c =? 1 then cookies_clear w b
  else match cookie_first (j_sess (get_jar w b)) with
       | Some 67 => cookies_clear w b
       | _ => sid_clear w b
       end.

Section WithRandom.
(* the i-th identifier produced by the random source (urandom + tohex) *)
Variable fresh : N -> bytes.

(* --- back-end save: result = (world, log, Some temp_cookie) ; None = exception --- *)
Definition sid_save (w : world) (b : nat) (blob : bytes) (dl : Z) (newd : bool) : world * list sop * option cookie :=
  match valid_sid (j_sess (get_jar w b)) with
  | Some id =>
      if newd then
        let id' := fresh (w_next w) in
        let st := st_save id' dl blob (st_remove id (w_store w)) in
        (mkworld (w_now w) (w_jars w) st (w_next w + 1) (w_hist w), [OpD id; OpS id' dl blob], Some (CRaw (73 :: id')))
      else
        (set_store w (st_save id dl blob (w_store w)), [OpS id dl blob], Some (CRaw (73 :: id)))
  | None =>
      let id' := fresh (w_next w) in
      (mkworld (w_now w) (w_jars w) (st_save id' dl blob (w_store w)) (w_next w + 1) (w_hist w),
       [OpS id' dl blob], Some (CRaw (73 :: id')))
  end.

Definition cookies_save (w : world) (blob : bytes) (dl : Z) (onsrv : bool) : world * list sop * option cookie :=
  if onsrv then (w, [], None) else (w, [], Some (CEnc dl blob)).

Definition backend_save (c : cfg) (w : world) (b : nat) (blob : bytes) (dl : Z) (newd onsrv : bool)
  : world * list sop * option cookie :=
  if c_loc c =? 0 then sid_save w b blob dl newd
  else if c_loc c =? 1 then cookies_save w blob dl onsrv
  else if onsrv || (c_limit c <? blen blob) then sid_save w b blob dl newd
  else match cookie_first (j_sess (get_jar w b)) with
       | Some 73 => let (w1, l1) := sid_clear w b in
                    match cookies_save w1 blob dl false with (w2, l2, r) => (w2, l1 ++ l2, r) end
       | _ => cookies_save w blob dl false
       end.

(* --- session_interface::load --- *)
Inductive exc := ExcCppcms | ExcCast.

Definition sess0 (c : cfg) : sess := mksess [] [] (c_timeout c) (c_how c) 0%Z false false.

Definition special (k : bytes) (m : dmap) (dflt : Z) : option Z :=
  match dfind k m with
  | Some (v, _) => parse_Z v
  | None => Some dflt
  end.

Definition si_load (c : cfg) (w : world) (b : nat) : world * list sop * (bool * sess + exc) :=
  match backend_load c w b with
  | (w1, l1, None) => (w1, l1, inl (false, sess0 c))
  | (w1, l1, Some (blob, dl)) =>
      match load_data blob with
      | LOk m =>
          match special k_t m (c_timeout c), special k_h m (c_how c), special k_s m 0%Z with
          | Some t, Some h, Some sv => (w1, l1, inl (true, mksess m m t h dl (Z.odd sv) false))
          | _, _, _ => (w1, l1, inr ExcCast)
          end
      | _ => (w1, l1, inr ExcCppcms)
      end
  end.

(* --- cookie_age / session_age --- *)
Definition cookie_age (now : Z) (s : sess) (newsess : bool) : Z :=
  if (s_how s =? 2)%Z then 0%Z
  else if (s_how s =? 1)%Z || ((s_how s =? 0)%Z && newsess) then s_tval s
  else (s_tin s - now)%Z.
Definition session_age (now : Z) (s : sess) (newsess : bool) : Z :=
  if (s_how s =? 2)%Z || (s_how s =? 1)%Z || ((s_how s =? 0)%Z && newsess) then (s_tval s + now)%Z
  else s_tin s.

(* --- update_exposed(force, resend): effect on the exposed-value cookies of the jar --- *)
Definition is_exposed (k : bytes) (m : dmap) : bool :=
  match dfind k m with Some (_, e) => e | None => false end.

Definition xset (now age : Z) (k v : bytes) (x : xjar) : xjar :=
  match v with
  | [] => xremove k x
  | _ => match age_exp now age with Some e => xput k (v, e) x | None => xremove k x end
  end.

(* an exposed entry is sent when the update is forced, when all of them are sent again (resend: the session cookie has just
   been given a new lifetime) or when it is new / changed / newly exposed *)
Fixpoint exposed_sets (now age : Z) (force : bool) (copy : dmap) (d : dmap) (x : xjar) : xjar :=
  match d with
  | [] => x
  | (k, (v, e)) :: r =>
      let need := e && (force || match dfind k copy with
                                 | None => true
                                 | Some (v2, e2) => negb e2 || negb (beqb v v2)
                                 end) in
      exposed_sets now age force copy r (if need then xset now age k v x else x)
  end.

(* in the effect on the jar force and resend are the same thing (they differ in the deletion cookies, see exposed_dels) *)
Definition update_exposed (now age : Z) (force resend : bool) (s : sess) (x : xjar) : xjar :=
  filter (fun kv => is_exposed (fst kv) (s_data s)) (exposed_sets now age (force || resend) (s_copy s) (s_data s) x).

(* the keys for which update_exposed emits a deletion cookie (Max-Age=0), as a sorted set:
   exposed entries that are sent with an empty value (or a negative age); entries that are not exposed and were exposed before -
   or any non-exposed entry when the update is FORCED (not on a mere resend); exposed entries of data_copy_ that are gone;
   every prefix_key cookie the request carried whose key is not exposed (remove_unknown_cookies) *)
Fixpoint kins (k : bytes) (l : list bytes) : list bytes :=
  match l with
  | [] => [k]
  | k' :: r => if beqb k k' then l else if bltb k k' then k :: l else k' :: kins k r
  end.

Fixpoint dels_data (now age : Z) (force resend : bool) (copy : dmap) (d : dmap) : list bytes :=
  match d with
  | [] => []
  | (k, (v, e)) :: r =>
      let was := match dfind k copy with Some (_, e2) => e2 | None => false end in
      let changed := match dfind k copy with None => true | Some (v2, e2) => negb e2 || negb (beqb v v2) end in
      let here :=
        if e then
          if (force || resend || changed) &&
             (match v with [] => true | _ => match age_exp now age with None => true | Some _ => false end end)
          then [k] else []
        else if was || force then [k] else [] in
      here ++ dels_data now age force resend copy r
  end.

Definition exposed_dels (now age : Z) (force resend : bool) (s : sess) (x : xjar) : list bytes :=
  fold_right kins []
    (dels_data now age force resend (s_copy s) (s_data s)
     ++ map fst (filter (fun kv => snd (snd kv) && match dfind (fst kv) (s_data s) with None => true | Some _ => false end) (s_copy s))
     ++ map fst (filter (fun kv => negb (is_exposed (fst kv) (s_data s))) x)).

Definition jar_set_sess (now age : Z) (ck : cookie) (j : jar) : jar :=
  match age_exp now age with
  | Some e => mkjar (Some (ck, e)) (j_exp j)
  | None => mkjar None (j_exp j)
  end.

(* --- session_interface::save --- *)
Definition si_save (c : cfg) (w : world) (b : nat) (s : sess) : world * list sop * option exc :=
  let newsess := (dempty (s_copy s) && negb (dempty (s_data s))) || s_reset s in
  let now := w_now w in
  if dempty (s_data s) then
    let (w1, l1) := if cookie_nonempty (j_sess (get_jar w b)) then backend_clear c w b else (w, []) in
    let j := get_jar w1 b in
    (set_jar w1 b (mkjar (j_sess j) (update_exposed now 0 true false s (j_exp j))), l1, None)
  else
    let same := dmap_eqb (s_data s) (s_copy s) && negb newsess in
    if same && (s_how s =? 0)%Z then (w, [], None)
    else if same && ((s_how s =? 1)%Z || (s_how s =? 2)%Z)
                 && tenth_gt (now + s_tval s - s_tin s) (s_tval s) then (w, [], None)
    else
      match save_data (s_data s) with
      | None => (w, [], Some ExcCppcms)
      | Some blob =>
          match backend_save c w b blob (session_age now s newsess) newsess (s_onsrv s) with
          | (w1, l1, None) => (w1, l1, Some ExcCppcms)
          | (w1, l1, Some ck) =>
              let age := cookie_age now s newsess in
              let j := jar_set_sess now age ck (get_jar w1 b) in
              let hist := match age_exp now age with
                          | Some _ => if existsb (cookie_eqb ck) (w_hist w1) then w_hist w1 else w_hist w1 ++ [ck]
                          | None => w_hist w1 end in
              (* update_exposed(force_update, new_session_ || how_!=fixed): whenever the session cookie gets a new lifetime the
                 exposed-value cookies are sent again with it *)
              let j' := mkjar (j_sess j) (update_exposed now age same (newsess || negb (s_how s =? 0)%Z) s (j_exp j)) in
              (mkworld (w_now w1) (set_nth b j' (w_jars w1)) (w_store w1) (w_next w1) hist, l1, None)
          end
      end.

(* --- one request of browser b --- *)
Record obs := mkobs {
  o_loaded : option (bool * dmap * Z * Z * bool);    (* None: exception in load() *)
  o_exc : option exc;
  o_log : list sop }.

Definition request (c : cfg) (w : world) (b : nat) (script : list scr) : world * obs :=
  let w0 := set_jar w b (jar_expire (w_now w) (get_jar w b)) in
  match si_load c w0 b with
  | (w1, l1, inr e) => (w1, mkobs None (Some e) l1)
  | (w1, l1, inl (ld, s)) =>
      let s' := apply_ops c s script in
      match si_save c w1 b s' with
      | (w2, l2, e) => (w2, mkobs (Some (ld, s_data s, s_tval s, s_how s, s_onsrv s)) e (l1 ++ l2))
      end
  end.

(* the deletion cookies for exposed-value cookies that the request emits (observed by the correspondence harness next to the
   resulting jar; kept outside `request` so that the observation record stays as it is) *)
Definition si_save_dels (c : cfg) (w : world) (b : nat) (s : sess) : list bytes :=
  let newsess := (dempty (s_copy s) && negb (dempty (s_data s))) || s_reset s in
  let now := w_now w in
  if dempty (s_data s) then exposed_dels now 0 true false s (j_exp (get_jar w b))
  else
    let same := dmap_eqb (s_data s) (s_copy s) && negb newsess in
    if same && (s_how s =? 0)%Z then []
    else if same && ((s_how s =? 1)%Z || (s_how s =? 2)%Z)
                 && tenth_gt (now + s_tval s - s_tin s) (s_tval s) then []
    else
      match save_data (s_data s) with
      | None => []
      | Some blob =>
          match backend_save c w b blob (session_age now s newsess) newsess (s_onsrv s) with
          | (_, _, None) => []
          | (_, _, Some _) =>
              exposed_dels now (cookie_age now s newsess) same (newsess || negb (s_how s =? 0)%Z) s (j_exp (get_jar w b))
          end
      end.

Definition request_dels (c : cfg) (w : world) (b : nat) (script : list scr) : list bytes :=
  let w0 := set_jar w b (jar_expire (w_now w) (get_jar w b)) in
  match si_load c w0 b with
  | (_, _, inr _) => []
  | (w1, _, inl (_, s)) => si_save_dels c w1 b (apply_ops c s script)
  end.

(* --- histories --- *)
Inductive mut := Mid | Mflip | Mtrunc | Mext | Mupper | Mpath.
Inductive step :=
  | StT (dt : Z)
  | StR (b : nat) (script : list scr)
  | StAraw (b : nat) (s : bytes)
  | StAhist (b : nat) (i : nat) (m : mut)
  | StX (b : nat) (k v : bytes)
  | StP (b : nat) (id : bytes) (dl : Z) (blob : bytes).

Definition upper1 (c : N) : N := if (97 <=? c) && (c <=? 122) then c - 32 else c.
Definition set_mid (s : bytes) : bytes :=
  let i := Nat.div (length s) 2 in
  match skipn i s with
  | x :: r => firstn i s ++ (if x =? 97 then 98 else 97) :: r
  | [] => s
  end.
(* the string form of an authentic client-side cookie is unknown to the model; a modified copy of it is some
   string that does not carry a valid MAC: any literal starting with C stands for it *)
Definition cookie_string (c : cookie) : bytes := match c with CRaw s => s | CEnc _ _ => [67; 63] end.
Definition mutate (m : mut) (c : cookie) : cookie :=
  let s := cookie_string c in
  match m with
  | Mid => c
  | Mflip => CRaw (set_mid s)
  | Mtrunc => CRaw (removelast s)
  | Mext => CRaw (s ++ [48])
  | Mupper => CRaw (match s with x :: r => x :: map upper1 r | [] => [] end)
  | Mpath => CRaw (match s with x :: _ :: _ :: _ :: r => match r with [] => s | _ => x :: 46 :: 46 :: 47 :: r end | _ => s end)
  end.

Definition attack_set (w : world) (b : nat) (c : cookie) : world :=
  let j := get_jar w b in
  match c with
  | CRaw [] => set_jar w b (mkjar None (j_exp j))
  | _ => set_jar w b (mkjar (Some (c, ESession)) (j_exp j))
  end.

Definition do_step (c : cfg) (w : world) (st : step) : world * option obs :=
  match st with
  | StT dt => (mkworld (w_now w + dt)%Z (w_jars w) (w_store w) (w_next w) (w_hist w), None)
  | StR b script => let (w', o) := request c w b script in (w', Some o)
  | StAraw b s => (attack_set w b (CRaw s), None)
  | StAhist b i m =>
      match w_hist w with
      | [] => (w, None)
      | h0 :: _ => (attack_set w b (mutate m (nth (Nat.modulo i (length (w_hist w))) (w_hist w) h0)), None)
      end
  | StX b k v => let j := get_jar w b in (set_jar w b (mkjar (j_sess j) (xput k (v, ESession) (j_exp j))), None)
  | StP b id dl blob =>
      let w1 := if c_loc c =? 1 then w else set_store w (st_save id dl blob (w_store w)) in
      let j := get_jar w1 b in
      (set_jar w1 b (mkjar (Some (CRaw (73 :: id), ESession)) (j_exp j)), None)
  end.

Fixpoint run (c : cfg) (w : world) (l : list step) : world * list (option obs) :=
  match l with
  | [] => (w, [])
  | st :: r => let (w1, o) := do_step c w st in let (w2, os) := run c w1 r in (w2, o :: os)
  end.

End WithRandom.

Definition world0 : world := mkworld 1000000%Z [] [] 0 [].

(* concrete rendering of the i-th identifier used by the correspondence driver: 16 x f, then 16 hex digits of i *)
Definition hexdig (n : N) : N := if n <? 10 then 48 + n else 87 + n.
Fixpoint hex_aux (k : nat) (n : N) (acc : bytes) : bytes :=
  match k with O => acc | S k' => hex_aux k' (n / 16) (hexdig (n mod 16) :: acc) end.
Definition fresh_hex (n : N) : bytes := repeat 102 16 ++ hex_aux 16 n [].
