(* C06 proofs, part 14: update_exposed keeps the cookie of an exposed value that did not change when the update is not
   forced; a save in fixed mode that is neither new nor reset gives the session cookie the end it already had (the deadline
   that was loaded) and leaves those cookies alone: fixed mode stays in step without re-sending. *)
From CppcmsV Require Import Base.Tac C06.Defs C06.Proofs C06.ProofsNum C06.ProofsMap C06.Proofs2 C06.Proofs3 C06.Proofs8 C06.Proofs12 C06.Proofs13.
Local Open Scope N_scope.

Lemma exposed_sets_keeps_other : forall now age force copy d k c x,
  (forall y, In y d -> fst y <> k) -> In (k, c) x -> In (k, c) (exposed_sets now age force copy d x).
Proof.
  intros now age force copy d k c. induction d as [|[k' [v' e']] r IH]; intros x Hn H; cbn [exposed_sets]; [exact H|].
  assert (k <> k') as Hne. { intros E. apply (Hn (k', (v', e'))); [left; reflexivity|symmetry; exact E]. }
  apply IH; [intros y Hy; apply Hn; right; exact Hy|].
  match goal with |- context [if ?b then _ else _] => destruct b end; [apply In_xset_other; assumption|exact H].
Qed.

Lemma dfind_split_sorted : forall k e d, ssorted d -> dfind k d = Some e ->
  exists d1 d2, d = d1 ++ (k, e) :: d2 /\ (forall y, In y d1 -> fst y <> k) /\ (forall y, In y d2 -> fst y <> k).
Proof.
  intros k e d. induction d as [|[k' e'] r IH]; intros Hs H; cbn [dfind] in H; [discriminate H|].
  destruct Hs as [Hb Hs]. destruct (beqb k k') eqn:E.
  - apply beqb_eq in E. subst k'. injection H as <-. exists [], r. split; [reflexivity|]. split; [intros y []|].
    intros y Hy E. unfold key_below in Hb. rewrite Forall_forall in Hb. specialize (Hb y Hy). cbn beta in Hb.
    rewrite E, bltb_irrefl in Hb. discriminate Hb.
  - destruct (IH Hs H) as (d1 & d2 & -> & H1 & H2). exists ((k', e') :: d1), d2. split; [reflexivity|]. split; [|exact H2].
    intros y [<-|Hy]; [cbn [fst]; intros E'; subst k'; rewrite beqb_refl in E; discriminate E|apply H1; exact Hy].
Qed.

(* not forced, entry exposed before and now with the same value: the cookie is left exactly as it is *)
Lemma update_exposed_keeps : forall now age s x k v c,
  ssorted (s_data s) -> dfind k (s_data s) = Some (v, true) -> entry_changed (s_copy s) k v = false ->
  In (k, c) x -> In (k, c) (update_exposed now age false false s x).
Proof.
  intros now age s x k v c Hs Hf Hc Hin. unfold update_exposed. cbn [orb]. apply filter_In. split.
  2:{ cbn [fst]. unfold is_exposed. rewrite Hf. reflexivity. }
  destruct (dfind_split_sorted k (v, true) (s_data s) Hs Hf) as (d1 & d2 & -> & H1 & H2).
  rewrite exposed_sets_app. cbn [exposed_sets].
  apply exposed_sets_keeps_other; [exact H2|].
  unfold entry_changed in Hc.
  assert ((true && (false || match dfind k (s_copy s) with
                              | Some (v2, e2) => negb e2 || negb (beqb v v2)
                              | None => true end)) = false) as ->.
  { cbn [andb orb]. exact Hc. }
  apply exposed_sets_keeps_other; [exact H1|exact Hin].
Qed.

Section Fresh.
Variable fresh : N -> bytes.

Lemma sid_save_jexp : forall w b blob dl newd, j_exp (get_jar (fst (fst (sid_save fresh w b blob dl newd))) b) = j_exp (get_jar w b).
Proof.
  intros. unfold sid_save. destruct (valid_sid (j_sess (get_jar w b))) as [i|]; [destruct newd|]; reflexivity.
Qed.

Lemma sid_clear_jexp : forall w b, j_exp (get_jar (fst (sid_clear w b)) b) = j_exp (get_jar w b).
Proof.
  intros. unfold sid_clear. destruct (valid_sid (j_sess (get_jar w b))) as [i|]; cbn [fst]; rewrite get_set_jar_same; reflexivity.
Qed.

Lemma backend_save_jexp : forall c w b blob dl newd onsrv,
  j_exp (get_jar (fst (fst (backend_save fresh c w b blob dl newd onsrv))) b) = j_exp (get_jar w b).
Proof.
  intros. unfold backend_save.
  assert (forall o, j_exp (get_jar (fst (fst (cookies_save w blob dl o))) b) = j_exp (get_jar w b)) as Hc
    by (intros o; unfold cookies_save; destruct o; reflexivity).
  destruct (c_loc c =? 0); [apply sid_save_jexp|]. destruct (c_loc c =? 1); [apply Hc|].
  destruct (onsrv || (c_limit c <? blen blob)); [apply sid_save_jexp|].
  destruct (cookie_first (j_sess (get_jar w b))) as [x|]; [|apply Hc].
  destruct (N.eq_dec x 73) as [->|Hn].
  - pose proof (sid_clear_jexp w b) as Hs. destruct (sid_clear w b) as [w1 l1]. unfold cookies_save. cbn [fst] in *. exact Hs.
  - destruct x as [|p]; [apply Hc|].
    do 7 (destruct p as [p|p|]; try apply Hc). contradiction Hn. reflexivity.
Qed.

(* a save in fixed mode of a session that is neither new nor reset (data changed, so it is written): the record keeps the
   deadline that was loaded (s_tin), the session cookie ends at that deadline, and the cookie of every exposed value that did
   not change stays in the jar untouched - so cookies that ended together with the session cookie before still do *)
Theorem fixed_save_keeps_in_step : forall c w b s blob w1 l1 k v,
  dempty (s_data s) = false -> ssorted (s_data s) -> skipped (w_now w) s = false -> save_data (s_data s) = Some blob ->
  s_how s = 0%Z -> newsess_of s = false -> (w_now w < s_tin s)%Z ->
  si_save fresh c w b s = (w1, l1, None) ->
  dfind k (s_data s) = Some (v, true) -> entry_changed (s_copy s) k v = false ->
  In (k, (v, EAt (s_tin s))) (j_exp (get_jar w b)) ->
  session_age (w_now w) s false = s_tin s /\
  (exists ck, j_sess (get_jar w1 b) = Some (ck, EAt (s_tin s))) /\
  In (k, (v, EAt (s_tin s))) (j_exp (get_jar w1 b)).
Proof.
  intros c w b s blob w1 l1 k v Hd Hs Hk Hb Hh Hn Hlt Hsave Hf Hc Hin.
  assert (session_age (w_now w) s false = s_tin s) as Hsa.
  { unfold session_age. rewrite Hh. reflexivity. }
  assert (cookie_age (w_now w) s false = (s_tin s - w_now w)%Z) as Hca.
  { unfold cookie_age. rewrite Hh. reflexivity. }
  assert (age_exp (w_now w) (s_tin s - w_now w) = Some (EAt (s_tin s))) as Hex.
  { unfold age_exp. assert ((s_tin s - w_now w <? 0)%Z = false) as -> by (apply Z.ltb_ge; lia).
    assert ((s_tin s - w_now w =? 0)%Z = false) as -> by (apply Z.eqb_neq; lia). f_equal. f_equal. lia. }
  split; [exact Hsa|].
  rewrite (si_save_path fresh c w b s blob Hd Hk Hb) in Hsave. rewrite Hn, Hsa, Hca in Hsave.
  pose proof (backend_save_jexp c w b blob (s_tin s) false (s_onsrv s)) as Hje.
  destruct (backend_save fresh c w b blob (s_tin s) false (s_onsrv s)) as [[w' l'] [ck|]]; [|discriminate Hsave].
  cbn [fst] in Hje. rewrite <- Hje in Hin. cbv zeta in Hsave. injection Hsave as <- <-.
  split.
  - exists ck. unfold get_jar at 1. cbn [w_jars]. rewrite nth_set_nth_same. cbn [j_sess].
    unfold jar_set_sess. rewrite Hex. reflexivity.
  - unfold get_jar at 1. cbn [w_jars]. rewrite nth_set_nth_same. cbn [j_exp].
    assert (dmap_eqb (s_data s) (s_copy s) = false) as K.
    { unfold skipped in Hk. cbv zeta in Hk. rewrite Hn, Hh in Hk. cbn [negb Z.eqb] in Hk.
      apply orb_false_iff in Hk. destruct Hk as [K _]. rewrite !andb_true_r in K. exact K. }
    rewrite K, Hh. cbn [Z.eqb negb andb orb].
    apply update_exposed_keeps with (v := v); try assumption.
    unfold jar_set_sess. rewrite Hex. cbn [j_exp]. exact Hin.
Qed.

End Fresh.
