(* C06 proofs: the save policy of an unchanged session in readable form *)
From CppcmsV Require Import Base.Tac C06.Defs C06.Proofs3 C06.ProofsWin C06.ProofsWin2.
Local Open Scope Z_scope.

(* an unchanged session (same data as loaded, not new, not reset): fixed -> never rewritten; renew / browser -> rewritten
   exactly when at least a tenth of the period has passed since the deadline was last set (tin = previous deadline, so
   now + tval - tin is the time since then) *)
Theorem unchanged_policy : forall now s,
  dmap_eqb (s_data s) (s_copy s) = true -> newsess_of s = false -> 0 <= s_tval s < 2147483648 ->
  (s_how s = 0 -> skipped now s = true) /\
  (s_how s = 1 \/ s_how s = 2 -> skipped now s = (10 * (now + s_tval s - s_tin s) <? s_tval s)).
Proof.
  intros now s Hsame Hnew Ht. unfold skipped. cbv zeta. rewrite Hsame, Hnew. cbn [negb andb].
  split.
  - intros ->. reflexivity.
  - intros H. rewrite (tenth_gt_is_integer_test _ _ Ht).
    destruct H as [-> | ->]; reflexivity.
Qed.

(* a session whose data changed, or that is new / reset, is always written *)
Theorem changed_is_written : forall now s,
  dmap_eqb (s_data s) (s_copy s) = false \/ newsess_of s = true -> skipped now s = false.
Proof.
  intros now s H. unfold skipped. cbv zeta.
  destruct H as [-> | ->]; cbn [negb andb]; [reflexivity|]. rewrite !andb_false_r. reflexivity.
Qed.
