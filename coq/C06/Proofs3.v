(* C06 proofs, part 3: what a request reads / leaves (server-side and client-side), ended sessions *)
From CppcmsV Require Import Base.Tac C06.Defs C06.Proofs C06.Proofs2.
Local Open Scope N_scope.

Definition newsess_of (s : sess) : bool := (dempty (s_copy s) && negb (dempty (s_data s))) || s_reset s.
(* the two early returns of session_interface::save: fixed & unchanged; renew/browser unchanged within the 10 % window *)
Definition skipped (now : Z) (s : sess) : bool :=
  let same := dmap_eqb (s_data s) (s_copy s) && negb (newsess_of s) in
  (same && (s_how s =? 0)%Z) ||
  (same && ((s_how s =? 1)%Z || (s_how s =? 2)%Z) && tenth_gt (now + s_tval s - s_tin s) (s_tval s)).

Lemma cookie_first_valid : forall c id, valid_sid c = Some id -> cookie_first c = Some 73 /\ cookie_nonempty c = true.
Proof. intros c id H. destruct (valid_sid_shape c id H) as [e ->]. split; reflexivity. Qed.

(* ---------- load ---------- *)
Lemma backend_load_sid : forall c w b id, c_loc c <> 1 -> valid_sid (j_sess (get_jar w b)) = Some id ->
  backend_load c w b = sid_load w b.
Proof.
  intros c w b id Hl Hv. unfold backend_load.
  destruct (c_loc c =? 0); [reflexivity|].
  assert ((c_loc c =? 1) = false) as -> by (apply N.eqb_neq; exact Hl).
  destruct (cookie_first_valid _ _ Hv) as [-> _]. reflexivity.
Qed.

Lemma sid_load_jar : forall w b b', get_jar (fst (fst (sid_load w b))) b' = get_jar w b'.
Proof.
  intros. unfold sid_load. destruct (valid_sid (j_sess (get_jar w b))) as [i|]; [|reflexivity].
  destruct (st_load (w_now w) i (w_store w)) as [[dl d]|]; [|reflexivity].
  destruct (dl <? w_now w)%Z; reflexivity.
Qed.

Lemma si_load_world : forall c w b, fst (fst (si_load c w b)) = fst (fst (backend_load c w b)).
Proof.
  intros. unfold si_load. destruct (backend_load c w b) as [[w1 l1] r]. cbn [fst].
  destruct r as [[blob dl]|]; [|reflexivity].
  destruct (load_data blob); try reflexivity.
  destruct (special k_t m (c_timeout c)); [|reflexivity].
  destruct (special k_h m (c_how c)); [|reflexivity].
  destruct (special k_s m 0%Z); reflexivity.
Qed.

Lemma si_load_jar_sid : forall c w b id, c_loc c <> 1 -> valid_sid (j_sess (get_jar w b)) = Some id ->
  get_jar (fst (fst (si_load c w b))) b = get_jar w b.
Proof. intros. rewrite si_load_world. erewrite backend_load_sid by eassumption. apply sid_load_jar. Qed.

(* a live record is read back exactly *)
Lemma si_load_hit : forall c w b id dl blob m t h sv,
  c_loc c <> 1 -> valid_sid (j_sess (get_jar w b)) = Some id ->
  st_find id (w_store w) = Some (dl, blob) -> (w_now w <= dl)%Z ->
  load_data blob = LOk m ->
  special k_t m (c_timeout c) = Some t -> special k_h m (c_how c) = Some h -> special k_s m 0%Z = Some sv ->
  si_load c w b = (w, [OpL id true], inl (true, mksess m m t h dl (Z.odd sv) false)).
Proof.
  intros c w b id dl blob m t h sv Hl Hv Hf Hn Hm Ht Hh Hs.
  unfold si_load. rewrite (backend_load_sid c w b id Hl Hv). unfold sid_load. rewrite Hv.
  unfold st_load. rewrite Hf. cbv beta iota.
  assert ((dl <? w_now w)%Z = false) as Hlt by (apply Z.ltb_ge; exact Hn).
  rewrite Hlt. cbv beta iota. rewrite Hlt. cbv beta iota. rewrite Hm, Ht, Hh, Hs. reflexivity.
Qed.

(* a record past its deadline, an unknown identifier, a malformed cookie, no cookie: the empty session *)
Lemma si_load_expired : forall c w b id dl blob,
  c_loc c <> 1 -> valid_sid (j_sess (get_jar w b)) = Some id ->
  st_find id (w_store w) = Some (dl, blob) -> (dl < w_now w)%Z ->
  si_load c w b = (w, [OpL id false], inl (false, sess0 c)).
Proof.
  intros c w b id dl blob Hl Hv Hf Hn.
  unfold si_load. rewrite (backend_load_sid c w b id Hl Hv). unfold sid_load. rewrite Hv.
  unfold st_load. rewrite Hf. cbv beta iota.
  assert ((dl <? w_now w)%Z = true) as -> by (apply Z.ltb_lt; exact Hn). reflexivity.
Qed.

Lemma si_load_unknown : forall c w b id,
  c_loc c <> 1 -> valid_sid (j_sess (get_jar w b)) = Some id -> st_find id (w_store w) = None ->
  si_load c w b = (w, [OpL id false], inl (false, sess0 c)).
Proof.
  intros c w b id Hl Hv Hf.
  unfold si_load. rewrite (backend_load_sid c w b id Hl Hv). unfold sid_load. rewrite Hv.
  unfold st_load. rewrite Hf. reflexivity.
Qed.

Lemma si_load_server_malformed : forall c w b,
  c_loc c = 0 -> valid_sid (j_sess (get_jar w b)) = None ->
  si_load c w b = (w, [], inl (false, sess0 c)).
Proof.
  intros c w b Hl Hv. unfold si_load, backend_load. rewrite Hl. cbn [N.eqb]. unfold sid_load. rewrite Hv. reflexivity.
Qed.

(* client side *)
Lemma si_load_client_hit : forall c w b dl blob e m t h sv,
  c_loc c = 1 -> j_sess (get_jar w b) = Some (CEnc dl blob, e) -> (w_now w <= dl)%Z ->
  load_data blob = LOk m ->
  special k_t m (c_timeout c) = Some t -> special k_h m (c_how c) = Some h -> special k_s m 0%Z = Some sv ->
  si_load c w b = (w, [], inl (true, mksess m m t h dl (Z.odd sv) false)).
Proof.
  intros c w b dl blob e m t h sv Hl Hj Hn Hm Ht Hh Hs.
  unfold si_load, backend_load. rewrite Hl. cbn [N.eqb Pos.eqb]. unfold cookies_load. rewrite Hj.
  assert ((dl <? w_now w)%Z = false) as -> by (apply Z.ltb_ge; exact Hn).
  cbv beta iota. rewrite Hm, Ht, Hh, Hs. reflexivity.
Qed.

Lemma si_load_client_expired : forall c w b dl blob e,
  c_loc c = 1 -> j_sess (get_jar w b) = Some (CEnc dl blob, e) -> (dl < w_now w)%Z ->
  si_load c w b = (set_jar w b (jar_clear_sess (get_jar w b)), [], inl (false, sess0 c)).
Proof.
  intros c w b dl blob e Hl Hj Hn.
  unfold si_load, backend_load. rewrite Hl. cbn [N.eqb Pos.eqb]. unfold cookies_load. rewrite Hj.
  assert ((dl <? w_now w)%Z = true) as -> by (apply Z.ltb_lt; exact Hn). reflexivity.
Qed.

(* an attacker string is never accepted by the client-side back-end (symbolic MAC) *)
Lemma si_load_client_forged : forall c w b s e,
  c_loc c = 1 -> j_sess (get_jar w b) = Some (CRaw s, e) ->
  snd (si_load c w b) = inl (false, sess0 c).
Proof.
  intros c w b s e Hl Hj.
  unfold si_load, backend_load. rewrite Hl. cbn [N.eqb Pos.eqb]. unfold cookies_load. rewrite Hj.
  destruct s; reflexivity.
Qed.

Section Fresh.
Variable fresh : N -> bytes.
Hypothesis fresh_ok : forall n, sid_ok (fresh n) = true.

(* ---------- save: the session ended ---------- *)
Lemma si_save_clear_dead : forall c w b s id,
  c_loc c <> 1 -> dempty (s_data s) = true -> valid_sid (j_sess (get_jar w b)) = Some id ->
  st_find id (w_store (fst (fst (si_save fresh c w b s)))) = None /\
  j_sess (get_jar (fst (fst (si_save fresh c w b s))) b) = None /\
  j_exp (get_jar (fst (fst (si_save fresh c w b s))) b) = [].
Proof.
  intros c w b s id Hl Hd Hv. unfold si_save. rewrite Hd.
  destruct (cookie_first_valid _ _ Hv) as [Hcf ->].
  assert (backend_clear c w b = sid_clear w b) as ->.
  { unfold backend_clear. destruct (c_loc c =? 0); [reflexivity|].
    assert ((c_loc c =? 1) = false) as -> by (apply N.eqb_neq; exact Hl). rewrite Hcf. reflexivity. }
  unfold sid_clear. rewrite Hv. cbn [fst snd].
  rewrite !get_set_jar_same. cbn [j_sess jar_clear_sess j_exp w_store set_jar set_store].
  split; [apply st_find_remove_same|]. split; [reflexivity|].
  unfold update_exposed.
  assert (s_data s = []) as -> by (destruct (s_data s); [reflexivity|discriminate Hd]).
  cbn [exposed_sets orb]. induction (j_exp (get_jar w b)) as [|x r IH]; cbn [filter is_exposed dfind]; [reflexivity|exact IH].
Qed.

(* ---------- save: the session is written ---------- *)
Lemma si_save_path : forall c w b s blob,
  dempty (s_data s) = false -> skipped (w_now w) s = false -> save_data (s_data s) = Some blob ->
  si_save fresh c w b s =
    match backend_save fresh c w b blob (session_age (w_now w) s (newsess_of s)) (newsess_of s) (s_onsrv s) with
    | (w1, l1, None) => (w1, l1, Some ExcCppcms)
    | (w1, l1, Some ck) =>
        let age := cookie_age (w_now w) s (newsess_of s) in
        let j := jar_set_sess (w_now w) age ck (get_jar w1 b) in
        let hist := match age_exp (w_now w) age with
                    | Some _ => if existsb (cookie_eqb ck) (w_hist w1) then w_hist w1 else w_hist w1 ++ [ck]
                    | None => w_hist w1 end in
        let j' := mkjar (j_sess j) (update_exposed (w_now w) age (dmap_eqb (s_data s) (s_copy s) && negb (newsess_of s)) (newsess_of s || negb (s_how s =? 0)%Z) s (j_exp j)) in
        (mkworld (w_now w1) (set_nth b j' (w_jars w1)) (w_store w1) (w_next w1) hist, l1, None)
    end.
Proof.
  intros c w b s blob Hd Hk Hb. unfold si_save. cbv zeta. fold (newsess_of s). rewrite Hd.
  unfold skipped in Hk. cbv zeta in Hk. apply orb_false_iff in Hk. destruct Hk as [K1 K2].
  rewrite K1, K2, Hb. reflexivity.
Qed.

Lemma sid_save_stores : forall w b blob dl newd w1 l1 r,
  sid_save fresh w b blob dl newd = (w1, l1, r) ->
  exists id, r = Some (CRaw (73 :: id)) /\ sid_ok id = true /\ st_find id (w_store w1) = Some (dl, blob) /\
             w_jars w1 = w_jars w /\ w_now w1 = w_now w /\
             (id = fresh (w_next w) /\ w_next w1 = w_next w + 1 \/
              valid_sid (j_sess (get_jar w b)) = Some id /\ newd = false /\ w_next w1 = w_next w).
Proof.
  intros w b blob dl newd w1 l1 r H. unfold sid_save in H.
  destruct (valid_sid (j_sess (get_jar w b))) as [id|] eqn:Hv.
  - destruct newd; injection H as <- <- <-.
    + exists (fresh (w_next w)). cbn [w_store w_jars w_now w_next]. repeat split; auto using st_find_save_same.
    + exists id. cbn [w_store w_jars w_now w_next set_store]. repeat split; auto using st_find_save_same. eapply valid_sid_ok; eassumption.
  - injection H as <- <- <-. exists (fresh (w_next w)). cbn [w_store w_jars w_now w_next]. repeat split; auto using st_find_save_same.
Qed.

(* server-side storage: after a save that is not skipped the browser holds I+id, the record under id is the
   encoded data with the deadline of the expiration mode, and decoding it gives the data back *)
Lemma si_save_server : forall c w b s blob,
  c_loc c = 0 -> dempty (s_data s) = false -> ssorted (s_data s) -> skipped (w_now w) s = false ->
  save_data (s_data s) = Some blob ->
  exists id w1 l1,
    si_save fresh c w b s = (w1, l1, None) /\ sid_ok id = true /\
    st_find id (w_store w1) = Some (session_age (w_now w) s (newsess_of s), blob) /\
    load_data blob = LOk (s_data s) /\ w_now w1 = w_now w /\
    (forall ex, age_exp (w_now w) (cookie_age (w_now w) s (newsess_of s)) = Some ex ->
                j_sess (get_jar w1 b) = Some (CRaw (73 :: id), ex)).
Proof.
  intros c w b s blob Hl Hd Hs Hk Hb.
  rewrite (si_save_path c w b s blob Hd Hk Hb).
  unfold backend_save. rewrite Hl. cbn [N.eqb].
  destruct (sid_save fresh w b blob (session_age (w_now w) s (newsess_of s)) (newsess_of s)) as [[w1 l1] r] eqn:Hsv.
  destruct (sid_save_stores _ _ _ _ _ _ _ _ Hsv) as (id & -> & Hok & Hst & Hj & Hn & _).
  eexists id, _, l1. split; [reflexivity|]. cbn [w_store w_now].
  split; [exact Hok|]. split; [exact Hst|]. split; [apply codec_roundtrip_lemma; assumption|]. split; [exact Hn|].
  intros ex Hex. unfold get_jar at 1. cbn [w_jars]. rewrite nth_set_nth_same. cbn [j_sess].
  unfold jar_set_sess. rewrite Hex. reflexivity.
Qed.

(* reset_session (or any new session) on the server back-end: the identifier the browser presented is removed from
   storage and the new identifier is the next output of the random source *)
Lemma si_save_reset_fresh : forall c w b s blob id,
  c_loc c = 0 -> dempty (s_data s) = false -> newsess_of s = true -> save_data (s_data s) = Some blob ->
  valid_sid (j_sess (get_jar w b)) = Some id -> fresh (w_next w) <> id ->
  exists w1 l1,
    si_save fresh c w b s = (w1, l1, None) /\
    st_find id (w_store w1) = None /\
    st_find (fresh (w_next w)) (w_store w1) = Some (session_age (w_now w) s true, blob) /\
    w_next w1 = w_next w + 1 /\
    (forall ex, age_exp (w_now w) (cookie_age (w_now w) s true) = Some ex ->
                j_sess (get_jar w1 b) = Some (CRaw (73 :: fresh (w_next w)), ex)).
Proof.
  intros c w b s blob id Hl Hd Hnew Hb Hv Hne.
  assert (skipped (w_now w) s = false) as Hk.
  { unfold skipped. cbv zeta. rewrite Hnew. cbn [negb]. rewrite andb_false_r. reflexivity. }
  rewrite (si_save_path c w b s blob Hd Hk Hb). rewrite Hnew.
  unfold backend_save. rewrite Hl. cbn [N.eqb]. unfold sid_save. rewrite Hv.
  eexists _, _. split; [reflexivity|]. cbn [w_store w_next].
  split.
  { rewrite st_find_save_other by (intros E; apply Hne; symmetry; exact E). apply st_find_remove_same. }
  split; [apply st_find_save_same|]. split; [reflexivity|].
  intros ex Hex. unfold get_jar at 1. cbn [w_jars]. rewrite nth_set_nth_same. cbn [j_sess].
  unfold jar_set_sess. rewrite Hex. reflexivity.
Qed.

(* dual back-end: a session kept on the server that now fits into the cookie leaves no server record behind *)
Lemma si_save_dual_switch : forall c w b s blob id,
  c_loc c = 2 -> dempty (s_data s) = false -> skipped (w_now w) s = false -> save_data (s_data s) = Some blob ->
  s_onsrv s = false -> (c_limit c <? blen blob) = false ->
  valid_sid (j_sess (get_jar w b)) = Some id ->
  exists w1 l1,
    si_save fresh c w b s = (w1, l1, None) /\ st_find id (w_store w1) = None /\
    (forall ex, age_exp (w_now w) (cookie_age (w_now w) s (newsess_of s)) = Some ex ->
                j_sess (get_jar w1 b) = Some (CEnc (session_age (w_now w) s (newsess_of s)) blob, ex)).
Proof.
  intros c w b s blob id Hl Hd Hk Hb Ho Hlim Hv.
  rewrite (si_save_path c w b s blob Hd Hk Hb).
  unfold backend_save. rewrite Hl, Ho, Hlim. cbn [N.eqb Pos.eqb orb].
  destruct (cookie_first_valid _ _ Hv) as [-> _].
  unfold sid_clear. rewrite Hv. unfold cookies_save. cbn [fst snd].
  eexists _, _. split; [reflexivity|]. cbn [w_store set_jar set_store].
  split; [apply st_find_remove_same|].
  intros ex Hex. unfold get_jar at 1. cbn [w_jars]. rewrite nth_set_nth_same. cbn [j_sess].
  unfold jar_set_sess. rewrite Hex. reflexivity.
Qed.

(* client-side storage *)
Lemma si_save_client : forall c w b s blob,
  c_loc c = 1 -> dempty (s_data s) = false -> ssorted (s_data s) -> skipped (w_now w) s = false ->
  save_data (s_data s) = Some blob -> s_onsrv s = false ->
  exists w1,
    si_save fresh c w b s = (w1, [], None) /\ w_store w1 = w_store w /\ load_data blob = LOk (s_data s) /\
    (forall ex, age_exp (w_now w) (cookie_age (w_now w) s (newsess_of s)) = Some ex ->
                j_sess (get_jar w1 b) = Some (CEnc (session_age (w_now w) s (newsess_of s)) blob, ex)).
Proof.
  intros c w b s blob Hl Hd Hs Hk Hb Ho.
  rewrite (si_save_path c w b s blob Hd Hk Hb).
  unfold backend_save. rewrite Hl, Ho. cbn [N.eqb Pos.eqb]. unfold cookies_save.
  eexists. split; [reflexivity|]. cbn [w_store]. split; [reflexivity|].
  split; [apply codec_roundtrip_lemma; assumption|].
  intros ex Hex. unfold get_jar at 1. cbn [w_jars]. rewrite nth_set_nth_same. cbn [j_sess].
  unfold jar_set_sess. rewrite Hex. reflexivity.
Qed.

End Fresh.
