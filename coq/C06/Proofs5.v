(* C06 proofs, part 5: what the next request of a browser reads, after any history of other browsers and clock advances *)
From CppcmsV Require Import Base.Tac C06.Defs C06.Proofs C06.Proofs2 C06.Proofs3 C06.Proofs4.
Local Open Scope N_scope.

Lemma valid_sid_intro : forall id e, sid_ok id = true -> valid_sid (Some (CRaw (73 :: id), e)) = Some id.
Proof. intros id e H. cbn. rewrite H. reflexivity. Qed.

Lemma request_loaded : forall fresh c w b script w0 l r,
  w0 = set_jar w b (jar_expire (w_now w) (get_jar w b)) ->
  si_load c w0 b = (w0, l, inl r) ->
  o_loaded (snd (request fresh c w b script)) = Some (fst r, s_data (snd r), s_tval (snd r), s_how (snd r), s_onsrv (snd r)).
Proof.
  intros fresh c w b script w0 l [ld s] -> H. unfold request. rewrite H.
  destruct (si_save fresh c (set_jar w b (jar_expire (w_now w) (get_jar w b))) b (apply_ops c s script)) as [[w2 l2] e].
  reflexivity.
Qed.

Section Fresh.
Variable fresh : N -> bytes.
Hypothesis fresh_inj : forall m n, fresh m = fresh n -> m = n.

Lemma carry_over_history : forall c b id dl blob ex xj l w m t h sv script,
  c_loc c <> 1 ->
  holds fresh b id (dl, blob) (mkjar (Some (CRaw (73 :: id), ex)) xj) w ->
  sid_ok id = true ->
  Forall (foreign_step b id) l ->
  load_data blob = LOk m ->
  special k_t m (c_timeout c) = Some t -> special k_h m (c_how c) = Some h -> special k_s m 0%Z = Some sv ->
  let w2 := fst (run fresh c w l) in
  (w_now w2 <= dl)%Z -> exp_live (w_now w2) ex = true ->
  o_loaded (snd (request fresh c w2 b script)) = Some (true, m, t, h, Z.odd sv).
Proof.
  intros c b id dl blob ex xj l w m t h sv script Hl Hh Hok Hf Hm Ht Hhh Hs w2 Hn Hlive.
  pose proof (run_holds fresh fresh_inj c b id (dl, blob) _ l w Hf Hh) as (A1 & A2 & _ & _).
  fold w2 in A1, A2.
  set (w0 := set_jar w2 b (jar_expire (w_now w2) (get_jar w2 b))).
  assert (j_sess (get_jar w0 b) = Some (CRaw (73 :: id), ex)) as Hj.
  { unfold w0. rewrite get_set_jar_same, A2. unfold jar_expire. cbn [j_sess]. rewrite Hlive. reflexivity. }
  assert (si_load c w0 b = (w0, [OpL id true], inl (true, mksess m m t h dl (Z.odd sv) false))) as Hld.
  { apply si_load_hit with (blob := blob); try assumption.
    - rewrite Hj. apply valid_sid_intro. exact Hok. }
  rewrite (request_loaded fresh c w2 b script w0 _ _ eq_refl Hld). reflexivity.
Qed.

Lemma expired_history : forall c b id dl blob ex xj l w script,
  c_loc c <> 1 ->
  holds fresh b id (dl, blob) (mkjar (Some (CRaw (73 :: id), ex)) xj) w ->
  sid_ok id = true ->
  Forall (foreign_step b id) l ->
  let w2 := fst (run fresh c w l) in
  (dl < w_now w2)%Z ->
  o_loaded (snd (request fresh c w2 b script)) = Some (false, [], c_timeout c, c_how c, false).
Proof.
  intros c b id dl blob ex xj l w script Hl Hh Hok Hf w2 Hn.
  pose proof (run_holds fresh fresh_inj c b id (dl, blob) _ l w Hf Hh) as (A1 & A2 & _ & _).
  fold w2 in A1, A2.
  set (w0 := set_jar w2 b (jar_expire (w_now w2) (get_jar w2 b))).
  destruct (exp_live (w_now w2) ex) eqn:Hlive.
  - assert (j_sess (get_jar w0 b) = Some (CRaw (73 :: id), ex)) as Hj.
    { unfold w0. rewrite get_set_jar_same, A2. unfold jar_expire. cbn [j_sess]. rewrite Hlive. reflexivity. }
    assert (si_load c w0 b = (w0, [OpL id false], inl (false, sess0 c))) as Hld.
    { apply si_load_expired with (dl := dl) (blob := blob); try assumption.
      rewrite Hj. apply valid_sid_intro. exact Hok. }
    rewrite (request_loaded fresh c w2 b script w0 _ _ eq_refl Hld). reflexivity.
  - (* the browser already dropped the cookie *)
    assert (j_sess (get_jar w0 b) = None) as Hj.
    { unfold w0. rewrite get_set_jar_same, A2. unfold jar_expire. cbn [j_sess]. rewrite Hlive. reflexivity. }
    assert (si_load c w0 b = (w0, [], inl (false, sess0 c))) as Hld.
    { unfold si_load, backend_load, sid_load, cookies_load. rewrite Hj. cbn [cookie_first valid_sid].
      destruct (c_loc c =? 0); [reflexivity|]. destruct (c_loc c =? 1); reflexivity. }
    rewrite (request_loaded fresh c w2 b script w0 _ _ eq_refl Hld). reflexivity.
Qed.

(* establishing `holds`: right after a server-side save of browser b *)
Lemma holds_after_save : forall c w b s blob w1 l1 id ex,
  si_save fresh c w b s = (w1, l1, None) ->
  st_find id (w_store w1) = Some (session_age (w_now w) s (newsess_of s), blob) ->
  j_sess (get_jar w1 b) = Some (CRaw (73 :: id), ex) ->
  (exists k, k < w_next w1 /\ id = fresh k) ->
  (forall b', b' <> b -> valid_sid (j_sess (get_jar w1 b')) <> Some id) ->
  holds fresh b id (session_age (w_now w) s (newsess_of s), blob) (get_jar w1 b) w1.
Proof. intros. unfold holds. repeat split; assumption. Qed.

End Fresh.
