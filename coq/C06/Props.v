(* C06 -- session state carries over between requests exactly, never after it ended.
   Only property theorems here, each closed by `exact <lemma>`; proofs are in Proofs*.v; Link.v ties the character
   test of valid_sid to the source.  `fresh` is the random source (i-th identifier); the theorems that need it assume
   that it yields well-formed (fresh_ok) resp. pairwise distinct (fresh_inj) identifiers. *)
From CppcmsV Require Import Base.Tac C06.Defs C06.Proofs C06.ProofsNum C06.ProofsMap C06.Proofs2 C06.Proofs3 C06.Proofs4 C06.Proofs5 C06.Proofs6 C06.Proofs7 C06.Proofs8 C06.Proofs10 C06.Proofs9 C06.Proofs11 C06.Proofs12 C06.Proofs13 C06.ProofsWin C06.ProofsWin2 C06.ProofsWin3 C06.Proofs14 C06.Proofs15 C06.Proofs16 C06.Proofs17 C06.Proofs18 C06.Proofs19 C06.Proofs20 C06.Proofs21 C06.ProofsCodec.
Local Open Scope N_scope.

(* ------------------------------------------------------------------------------------------------------------
   1. packed entry codec.  A data map is well formed (ssorted) when its keys are strictly increasing in the order of
      std::map<std::string,..>; save_data succeeds when every key is < 1024 bytes and every value < 2 MiB;
      load_data inverts it, is total (never runs out of fuel; every read is a firstn/skipn guarded by the length
      test, so nothing outside the buffer is read) and only ever produces well-formed maps. *)
Theorem codec_roundtrip : forall m blob, ssorted m -> save_data m = Some blob -> load_data blob = LOk m.
Proof. exact codec_roundtrip_lemma. Qed.
Print Assumptions codec_roundtrip.
Theorem codec_save_defined : forall m, forallb entry_fits m = true -> exists blob, save_data m = Some blob.
Proof. exact save_data_fits. Qed.
Print Assumptions codec_save_defined.
Theorem load_data_total : forall s, load_data s <> LFuel.
Proof. exact load_data_no_fuel. Qed.
Print Assumptions load_data_total.
Theorem load_data_wellformed : forall s m, load_data s = LOk m -> ssorted m.
Proof. exact load_data_sorted. Qed.
Print Assumptions load_data_wellformed.
(* the domain of the codec with the bounds in the statement.  within_bounds x: the key is shorter than 2^10 = 1024 bytes and the
   value shorter than 2^21 = 2097152 bytes - the capacities of the bit-fields key_size : 10 and data_size : 21 of struct packed (tied to
   the source in section 9).  save_data is defined EXACTLY on the maps all of whose entries are within the bounds; on every such
   (well-formed) map load_data inverts it; on every other map save_data refuses (the constructor of packed throws) - in particular a
   value of exactly 2^21 bytes or a key of exactly 2^10 bytes is refused, it is not stored with a wrapped length. *)
Theorem save_data_defined_exactly_within_bounds : forall m,
  (exists blob, save_data m = Some blob) <-> Forall (fun x => blen (fst x) < 2 ^ 10 /\ blen (fst (snd x)) < 2 ^ 21) m.
Proof. exact save_data_defined_iff. Qed.
Print Assumptions save_data_defined_exactly_within_bounds.
Theorem codec_roundtrip_on_exactly_the_bounded_maps : forall m, ssorted m ->
  (Forall (fun x => blen (fst x) < 2 ^ 10 /\ blen (fst (snd x)) < 2 ^ 21) m -> exists blob, save_data m = Some blob /\ load_data blob = LOk m) /\
  (~ Forall (fun x => blen (fst x) < 2 ^ 10 /\ blen (fst (snd x)) < 2 ^ 21) m -> save_data m = None).
Proof. exact codec_exact_domain. Qed.
Print Assumptions codec_roundtrip_on_exactly_the_bounded_maps.
Theorem entry_at_the_bound_is_refused : forall k v e r,
  blen k = 2 ^ 10 \/ blen v = 2 ^ 21 -> save_data ((k, (v, e)) :: r) = None.
Proof. exact refused_at_the_bound. Qed.
Print Assumptions entry_at_the_bound_is_refused.
Example codec_bounds_nonvacuous :
  within_bounds ([97], (repeat 46 1000, true)) /\ ~ within_bounds (repeat 107 1024, ([49], false)) /\
  save_data [(repeat 107 1023, ([49], false))] <> None /\ save_data [(repeat 107 1024, ([49], false))] = None /\
  save_data [(repeat 107 1025, ([49], false))] = None.
Proof.
  split; [split; vm_compute; reflexivity|]. split; [intros [H _]; vm_compute in H; discriminate H|].
  split; [vm_compute; discriminate|]. split; vm_compute; reflexivity.
Qed.
Example codec_nonvacuous :
  let m := [([97], ([49; 50], true)); ([97; 98], ([], false)); ([98], ([0; 255], false))] in
  ssorted m /\ save_data m = Some [1;20;0;0;97;49;50; 2;0;0;0;97;98; 1;16;0;0;98;0;255] /\
  load_data [1;20;0;0;97;49;50; 2;0;0;0;97;98; 1;16;0;0;98;0;255] = LOk m /\ load_data [1;20;0;0;97;49] = LErr.
Proof. cbv zeta. split; [unfold ssorted, key_below; repeat constructor|]. repeat split; vm_compute; reflexivity. Qed.

(* ------------------------------------------------------------------------------------------------------------
   2. only_wellformed_ids_reach_storage: in every history (requests of any browsers, clock advances, attacker
      cookies - literal or replayed/mutated -, planted cookies and records) every storage access of every request
      (save, load, remove) uses an identifier of the form 32 x [0-9a-f]. *)
Theorem only_wellformed_ids_reach_storage : forall fresh, (forall n, sid_ok (fresh n) = true) ->
  forall c l w, Forall (fun o => match o with Some ob => Forall (fun op => sid_ok (op_id op) = true) (o_log ob) | None => True end)
                       (snd (run fresh c w l)).
Proof. exact run_ok. Qed.
Print Assumptions only_wellformed_ids_reach_storage.

(* ------------------------------------------------------------------------------------------------------------
   3. cleared_is_dead: when the request leaves the session empty (clear, or erase of everything) and the session
      is addressed by an identifier (server or dual back-end), the identifier is not in storage any more, the
      browser holds no session cookie and no exposed-value cookie. *)
Theorem cleared_is_dead : forall fresh c w b s id,
  c_loc c <> 1 -> dempty (s_data s) = true -> valid_sid (j_sess (get_jar w b)) = Some id ->
  st_find id (w_store (fst (fst (si_save fresh c w b s)))) = None /\
  j_sess (get_jar (fst (fst (si_save fresh c w b s))) b) = None /\
  j_exp (get_jar (fst (fst (si_save fresh c w b s))) b) = [].
Proof. exact si_save_clear_dead. Qed.
Print Assumptions cleared_is_dead.

(* 4. reset_fresh: reset_session (or a session that is new) on the server back-end: the presented identifier is
      removed, the record is written under the next output of the random source, which becomes the cookie.  With
      fresh_inj that identifier differs from every identifier issued before (those are fresh k, k < w_next). *)
Theorem reset_fresh : forall fresh c w b s blob id,
  c_loc c = 0 -> dempty (s_data s) = false -> newsess_of s = true -> save_data (s_data s) = Some blob ->
  valid_sid (j_sess (get_jar w b)) = Some id -> fresh (w_next w) <> id ->
  exists w1 l1,
    si_save fresh c w b s = (w1, l1, None) /\
    st_find id (w_store w1) = None /\
    st_find (fresh (w_next w)) (w_store w1) = Some (session_age (w_now w) s true, blob) /\
    w_next w1 = w_next w + 1 /\
    (forall ex, age_exp (w_now w) (cookie_age (w_now w) s true) = Some ex ->
                j_sess (get_jar w1 b) = Some (CRaw (73 :: fresh (w_next w)), ex)).
Proof. exact si_save_reset_fresh. Qed.
Print Assumptions reset_fresh.

(* ------------------------------------------------------------------------------------------------------------
   5. what a save leaves and what a load reads (one request each).  `skipped` is the pair of early returns of
      save(): fixed & unchanged, renew/browser unchanged within the 10 % window (IEEE double comparison). *)
(* the 10 % window: save() evaluates  delta < timeout_val_ * 0.1  in IEEE double (delta = now + timeout_val_ - timeout_in_, the
   time since the last renewal); the model computes that double comparison bit-exactly (tenth_gt: product with the double
   nearest to 0.1, rounded to 53 bits, ties to even).  renew_window_is_exactly_a_tenth: for every timeout an int can hold
   and every delta the IEEE comparison IS the integer comparison 10 * delta < timeout - an unchanged session is not rewritten
   strictly inside the first tenth of its period and is renewed from exactly one tenth on; neither the rounding of 0.1 nor
   that of the product ever changes the outcome (at 10 * delta = timeout the exact product delta * 2^55 + 2 * delta is less
   than half an ulp above delta * 2^55 and rounds down).  renew_window_is_a_tenth is the part that follows from the error
   bound of one rounding alone. *)
Theorem renew_window_is_exactly_a_tenth : forall delta tval, (0 <= tval < 2147483648)%Z ->
  tenth_gt delta tval = (10 * delta <? tval)%Z.
Proof. exact tenth_gt_is_integer_test. Qed.
Print Assumptions renew_window_is_exactly_a_tenth.
Theorem renew_window_is_a_tenth : forall delta tval, (0 <= tval < 2147483648)%Z ->
  ((10 * delta < tval)%Z -> tenth_gt delta tval = true) /\ ((tval < 10 * delta)%Z -> tenth_gt delta tval = false).
Proof. exact tenth_gt_exact. Qed.
Print Assumptions renew_window_is_a_tenth.
(* the save policy in readable form.  An unchanged session (data equal to what was loaded, not new, not reset): in fixed
   mode it is never rewritten; in renew / browser mode it is rewritten exactly when at least a tenth of the period has passed
   since the deadline was last set (s_tin = that deadline).  A changed / new / reset session is always written. *)
Theorem unchanged_session_save_policy : forall now s,
  dmap_eqb (s_data s) (s_copy s) = true -> newsess_of s = false -> (0 <= s_tval s < 2147483648)%Z ->
  (s_how s = 0%Z -> skipped now s = true) /\
  (s_how s = 1%Z \/ s_how s = 2%Z -> skipped now s = (10 * (now + s_tval s - s_tin s) <? s_tval s)%Z).
Proof. exact unchanged_policy. Qed.
Print Assumptions unchanged_session_save_policy.
Theorem changed_session_is_written : forall now s,
  dmap_eqb (s_data s) (s_copy s) = false \/ newsess_of s = true -> skipped now s = false.
Proof. exact changed_is_written. Qed.
Print Assumptions changed_session_is_written.
Example renew_window_boundary :
  tenth_gt 2 30 = true /\ tenth_gt 3 30 = false /\ tenth_gt 4 30 = false /\ tenth_gt 0 10 = true /\ tenth_gt 1 10 = false /\
  tenth_gt 359 3600 = true /\ tenth_gt 360 3600 = false /\ tenth_gt 7 70 = false /\ tenth_gt (-1) 0 = true /\ tenth_gt 0 0 = false.
Proof. vm_compute. repeat split. Qed.

Theorem server_save_leaves_exact_record : forall fresh, (forall n, sid_ok (fresh n) = true) ->
  forall c w b s blob,
  c_loc c = 0 -> dempty (s_data s) = false -> ssorted (s_data s) -> skipped (w_now w) s = false ->
  save_data (s_data s) = Some blob ->
  exists id w1 l1,
    si_save fresh c w b s = (w1, l1, None) /\ sid_ok id = true /\
    st_find id (w_store w1) = Some (session_age (w_now w) s (newsess_of s), blob) /\
    load_data blob = LOk (s_data s) /\ w_now w1 = w_now w /\
    (forall ex, age_exp (w_now w) (cookie_age (w_now w) s (newsess_of s)) = Some ex ->
                j_sess (get_jar w1 b) = Some (CRaw (73 :: id), ex)).
Proof. exact si_save_server. Qed.
Print Assumptions server_save_leaves_exact_record.

Theorem live_record_read_exactly : forall c w b id dl blob m t h sv,
  c_loc c <> 1 -> valid_sid (j_sess (get_jar w b)) = Some id ->
  st_find id (w_store w) = Some (dl, blob) -> (w_now w <= dl)%Z ->
  load_data blob = LOk m ->
  special k_t m (c_timeout c) = Some t -> special k_h m (c_how c) = Some h -> special k_s m 0%Z = Some sv ->
  si_load c w b = (w, [OpL id true], inl (true, mksess m m t h dl (Z.odd sv) false)).
Proof. exact si_load_hit. Qed.
Print Assumptions live_record_read_exactly.

Theorem expired_record_reads_empty : forall c w b id dl blob,
  c_loc c <> 1 -> valid_sid (j_sess (get_jar w b)) = Some id ->
  st_find id (w_store w) = Some (dl, blob) -> (dl < w_now w)%Z ->
  si_load c w b = (w, [OpL id false], inl (false, sess0 c)).
Proof. exact si_load_expired. Qed.
Print Assumptions expired_record_reads_empty.

Theorem unknown_id_reads_empty : forall c w b id,
  c_loc c <> 1 -> valid_sid (j_sess (get_jar w b)) = Some id -> st_find id (w_store w) = None ->
  si_load c w b = (w, [OpL id false], inl (false, sess0 c)).
Proof. exact si_load_unknown. Qed.
Print Assumptions unknown_id_reads_empty.

Theorem malformed_id_never_addresses_storage : forall c w b,
  c_loc c = 0 -> valid_sid (j_sess (get_jar w b)) = None ->
  si_load c w b = (w, [], inl (false, sess0 c)).
Proof. exact si_load_server_malformed. Qed.
Print Assumptions malformed_id_never_addresses_storage.

(* client-side storage (symbolic MAC) *)
Theorem client_save_leaves_exact_cookie : forall fresh c w b s blob,
  c_loc c = 1 -> dempty (s_data s) = false -> ssorted (s_data s) -> skipped (w_now w) s = false ->
  save_data (s_data s) = Some blob -> s_onsrv s = false ->
  exists w1,
    si_save fresh c w b s = (w1, [], None) /\ w_store w1 = w_store w /\ load_data blob = LOk (s_data s) /\
    (forall ex, age_exp (w_now w) (cookie_age (w_now w) s (newsess_of s)) = Some ex ->
                j_sess (get_jar w1 b) = Some (CEnc (session_age (w_now w) s (newsess_of s)) blob, ex)).
Proof. exact si_save_client. Qed.
Print Assumptions client_save_leaves_exact_cookie.

Theorem client_cookie_read_exactly : forall c w b dl blob e m t h sv,
  c_loc c = 1 -> j_sess (get_jar w b) = Some (CEnc dl blob, e) -> (w_now w <= dl)%Z ->
  load_data blob = LOk m ->
  special k_t m (c_timeout c) = Some t -> special k_h m (c_how c) = Some h -> special k_s m 0%Z = Some sv ->
  si_load c w b = (w, [], inl (true, mksess m m t h dl (Z.odd sv) false)).
Proof. exact si_load_client_hit. Qed.
Print Assumptions client_cookie_read_exactly.

Theorem client_cookie_expired_reads_empty : forall c w b dl blob e,
  c_loc c = 1 -> j_sess (get_jar w b) = Some (CEnc dl blob, e) -> (dl < w_now w)%Z ->
  si_load c w b = (set_jar w b (jar_clear_sess (get_jar w b)), [], inl (false, sess0 c)).
Proof. exact si_load_client_expired. Qed.
Print Assumptions client_cookie_expired_reads_empty.

Theorem client_forged_cookie_reads_empty : forall c w b s e,
  c_loc c = 1 -> j_sess (get_jar w b) = Some (CRaw s, e) -> snd (si_load c w b) = inl (false, sess0 c).
Proof. exact si_load_client_forged. Qed.
Print Assumptions client_forged_cookie_reads_empty.

(* 6. dual_switch: a session kept on the server that is saved back into the cookie leaves no server record *)
Theorem dual_switch_leaves_no_server_copy : forall fresh c w b s blob id,
  c_loc c = 2 -> dempty (s_data s) = false -> skipped (w_now w) s = false -> save_data (s_data s) = Some blob ->
  s_onsrv s = false -> (c_limit c <? blen blob) = false ->
  valid_sid (j_sess (get_jar w b)) = Some id ->
  exists w1 l1,
    si_save fresh c w b s = (w1, l1, None) /\ st_find id (w_store w1) = None /\
    (forall ex, age_exp (w_now w) (cookie_age (w_now w) s (newsess_of s)) = Some ex ->
                j_sess (get_jar w1 b) = Some (CEnc (session_age (w_now w) s (newsess_of s)) blob, ex)).
Proof. exact si_save_dual_switch. Qed.
Print Assumptions dual_switch_leaves_no_server_copy.

(* ------------------------------------------------------------------------------------------------------------
   7. histories (session_refines_spec, server-side part).  `holds b id rec j w`: browser b's jar is j, the record
      under id is rec, id was issued by the random source and no other browser presents it.  Over ANY list of
      steps that are requests of other browsers (any scripts), clock advances, attacker strings other than b's
      cookie put into other jars, planted exposed cookies in other jars, this is invariant (nobody else reads or
      changes b's session, never a mixture); hence the next request of b reads exactly what was left (values,
      exposed flags, age, expiration mode, on-server flag) while now <= deadline and the browser still holds the
      cookie, and the empty session once the deadline passed. *)
Theorem other_browsers_cannot_touch_session : forall fresh, (forall m n, fresh m = fresh n -> m = n) ->
  forall c b id rec j l w,
  Forall (foreign_step b id) l -> holds fresh b id rec j w -> holds fresh b id rec j (fst (run fresh c w l)).
Proof. exact run_holds. Qed.
Print Assumptions other_browsers_cannot_touch_session.

Theorem session_carries_over : forall fresh, (forall m n, fresh m = fresh n -> m = n) ->
  forall c b id dl blob ex xj l w m t h sv script,
  c_loc c <> 1 ->
  holds fresh b id (dl, blob) (mkjar (Some (CRaw (73 :: id), ex)) xj) w ->
  sid_ok id = true ->
  Forall (foreign_step b id) l ->
  load_data blob = LOk m ->
  special k_t m (c_timeout c) = Some t -> special k_h m (c_how c) = Some h -> special k_s m 0%Z = Some sv ->
  let w2 := fst (run fresh c w l) in
  (w_now w2 <= dl)%Z -> exp_live (w_now w2) ex = true ->
  o_loaded (snd (request fresh c w2 b script)) = Some (true, m, t, h, Z.odd sv).
Proof. exact carry_over_history. Qed.
Print Assumptions session_carries_over.

Theorem session_ends_at_deadline : forall fresh, (forall m n, fresh m = fresh n -> m = n) ->
  forall c b id dl blob ex xj l w script,
  c_loc c <> 1 ->
  holds fresh b id (dl, blob) (mkjar (Some (CRaw (73 :: id), ex)) xj) w ->
  sid_ok id = true ->
  Forall (foreign_step b id) l ->
  let w2 := fst (run fresh c w l) in
  (dl < w_now w2)%Z ->
  o_loaded (snd (request fresh c w2 b script)) = Some (false, [], c_timeout c, c_how c, false).
Proof. exact expired_history. Qed.
Print Assumptions session_ends_at_deadline.

(* end to end (session_refines_spec for sessions kept on the server): request r1 of browser b ends its script in state s'
   (req_state; op_keeps: the script does not address the reserved keys _t/_h/_s directly - clear(), age(), expiration(),
   on_server() and their default_ forms are all allowed) and saves it; then ANY history of other browsers / clock / attacker strings other than b's cookie; then
   the next request of b reads exactly s': values and exposed flags, age, expiration mode, on-server flag - while
   now <= the deadline given by the expiration mode and the browser still holds the cookie.
   Premises on the world before r1 (both are invariants of every world reachable by fair histories, see below): storage
   keys were drawn from the random source, well-formed ids in jars are not future draws; and nobody else presents
   b's id (no stolen cookie).  Premises on the random source: injective; the id drawn is well formed. *)
Theorem session_refines_spec_server : forall fresh, (forall m n, fresh m = fresh n -> m = n) ->
  forall c w b script1 s' blob ex l script2,
  c_loc c = 0 ->
  sid_ok (fresh (w_next w)) = true ->
  store_issued fresh w -> jars_not_future fresh w ->
  (forall b' id, b' <> b -> valid_sid (j_sess (get_jar w b')) = Some id -> valid_sid (j_sess (get_jar w b)) <> Some id) ->
  req_state c w b script1 = Some s' ->
  forallb op_keeps script1 = true ->
  dempty (s_data s') = false -> skipped (w_now w) s' = false -> save_data (s_data s') = Some blob ->
  age_exp (w_now w) (cookie_age (w_now w) s' (newsess_of s')) = Some ex ->
  let w1 := fst (request fresh c w b script1) in
  (forall id, valid_sid (j_sess (get_jar w1 b)) = Some id -> Forall (foreign_step b id) l) ->
  let w2 := fst (run fresh c w1 l) in
  (w_now w2 <= session_age (w_now w) s' (newsess_of s'))%Z -> exp_live (w_now w2) ex = true ->
  o_loaded (snd (request fresh c w2 b script2)) = Some (true, s_data s', s_tval s', s_how s', s_onsrv s').
Proof. exact end_to_end_server2. Qed.
Print Assumptions session_refines_spec_server.

(* the same for sessions kept in the client-side cookie: here NOTHING that happens elsewhere matters - requests of other
   browsers, attacker strings, replays of any emitted cookie into other jars, planted records *)
Theorem session_refines_spec_client : forall fresh c w b script1 s' blob ex l script2,
  c_loc c = 1 ->
  req_state c w b script1 = Some s' ->
  forallb op_keeps script1 = true ->
  dempty (s_data s') = false -> skipped (w_now w) s' = false -> save_data (s_data s') = Some blob ->
  s_onsrv s' = false ->
  age_exp (w_now w) (cookie_age (w_now w) s' (newsess_of s')) = Some ex ->
  let w1 := fst (request fresh c w b script1) in
  Forall (not_on b) l ->
  let w2 := fst (run fresh c w1 l) in
  (w_now w2 <= session_age (w_now w) s' (newsess_of s'))%Z -> exp_live (w_now w2) ex = true ->
  o_loaded (snd (request fresh c w2 b script2)) = Some (true, s_data s', s_tval s', s_how s', false).
Proof. exact end_to_end_client. Qed.
Print Assumptions session_refines_spec_client.

(* a request changes no jar but that of its own browser *)
Theorem request_touches_only_own_jar : forall fresh c b l w, Forall (not_on b) l ->
  get_jar (fst (run fresh c w l)) b = get_jar w b.
Proof. exact run_keeps_jar. Qed.
Print Assumptions request_touches_only_own_jar.

(* closed form: from the EMPTY world, after any fair history `pre` (arbitrary requests of arbitrary browsers, clock
   advances, verbatim replays of emitted cookies into any jar, attacker literals / mutated copies that are not identifiers
   of the random source, planted exposed cookies; no records planted in storage), the same statement holds without any
   premise on the world but "nobody else holds b's cookie".  reachable_worlds_invariant is the invariant used. *)
Theorem reachable_worlds_invariant : forall fresh, (forall m n, fresh m = fresh n -> m = n) ->
  forall c l, fair_run fresh c world0 l -> inv fresh (fst (run fresh c world0 l)).
Proof. intros fresh Hi c l H. exact (inv_run fresh Hi c l world0 (inv_world0 fresh) H). Qed.
Print Assumptions reachable_worlds_invariant.

Theorem session_refines_spec_server_reachable : forall fresh, (forall m n, fresh m = fresh n -> m = n) ->
  forall c pre b script1 s' blob ex l script2,
  c_loc c = 0 ->
  fair_run fresh c world0 pre ->
  let w := fst (run fresh c world0 pre) in
  sid_ok (fresh (w_next w)) = true ->
  (forall b' id, b' <> b -> valid_sid (j_sess (get_jar w b')) = Some id -> valid_sid (j_sess (get_jar w b)) <> Some id) ->
  req_state c w b script1 = Some s' ->
  forallb op_keeps script1 = true ->
  dempty (s_data s') = false -> skipped (w_now w) s' = false -> save_data (s_data s') = Some blob ->
  age_exp (w_now w) (cookie_age (w_now w) s' (newsess_of s')) = Some ex ->
  let w1 := fst (request fresh c w b script1) in
  (forall id, valid_sid (j_sess (get_jar w1 b)) = Some id -> Forall (foreign_step b id) l) ->
  let w2 := fst (run fresh c w1 l) in
  (w_now w2 <= session_age (w_now w) s' (newsess_of s'))%Z -> exp_live (w_now w2) ex = true ->
  o_loaded (snd (request fresh c w2 b script2)) = Some (true, s_data s', s_tval s', s_how s', s_onsrv s').
Proof. exact end_to_end_server_reachable. Qed.
Print Assumptions session_refines_spec_server_reachable.

(* all three locations at once.  server_side: location server, or location both with on_server / a payload above
   client_size_limit; client_side: location client, or location both otherwise.  Which side the session was on BEFORE r1
   does not matter, so switches client <-> server of the dual back-end are covered: r1 may load from the cookie and save
   to the server or the other way round. *)
Theorem session_refines_spec_stored_on_server : forall fresh, (forall m n, fresh m = fresh n -> m = n) ->
  forall c w b script1 s' blob ex l script2,
  server_side c s' blob ->
  sid_ok (fresh (w_next w)) = true ->
  store_issued fresh w -> jars_not_future fresh w ->
  (forall b' id, b' <> b -> valid_sid (j_sess (get_jar w b')) = Some id -> valid_sid (j_sess (get_jar w b)) <> Some id) ->
  req_state c w b script1 = Some s' ->
  forallb op_keeps script1 = true ->
  dempty (s_data s') = false -> skipped (w_now w) s' = false -> save_data (s_data s') = Some blob ->
  age_exp (w_now w) (cookie_age (w_now w) s' (newsess_of s')) = Some ex ->
  let w1 := fst (request fresh c w b script1) in
  (forall id, valid_sid (j_sess (get_jar w1 b)) = Some id -> Forall (foreign_step b id) l) ->
  let w2 := fst (run fresh c w1 l) in
  (w_now w2 <= session_age (w_now w) s' (newsess_of s'))%Z -> exp_live (w_now w2) ex = true ->
  o_loaded (snd (request fresh c w2 b script2)) = Some (true, s_data s', s_tval s', s_how s', s_onsrv s').
Proof. exact end_to_end_stored_on_server. Qed.
Print Assumptions session_refines_spec_stored_on_server.

Theorem session_refines_spec_stored_in_cookie : forall fresh c w b script1 s' blob ex l script2,
  client_side c s' blob ->
  req_state c w b script1 = Some s' ->
  forallb op_keeps script1 = true ->
  dempty (s_data s') = false -> skipped (w_now w) s' = false -> save_data (s_data s') = Some blob ->
  age_exp (w_now w) (cookie_age (w_now w) s' (newsess_of s')) = Some ex ->
  let w1 := fst (request fresh c w b script1) in
  Forall (not_on b) l ->
  let w2 := fst (run fresh c w1 l) in
  (w_now w2 <= session_age (w_now w) s' (newsess_of s'))%Z -> exp_live (w_now w2) ex = true ->
  o_loaded (snd (request fresh c w2 b script2)) = Some (true, s_data s', s_tval s', s_how s', s_onsrv s').
Proof. exact end_to_end_stored_in_cookie. Qed.
Print Assumptions session_refines_spec_stored_in_cookie.

(* age / expiration / on_server are always recorded (repaired code, /repo 7f3def5).  `consistent c s`: the data map is well
   formed and age(), expiration(), on_server() are exactly what its entries _t, _h, _s say - the configured defaults when
   an entry is absent.  It holds for what load() produces and is preserved by EVERY script that does not address the reserved
   keys directly: set/erase/expose/hide of other keys, age, default_age, expiration, default_expiration, on_server,
   reset_session and clear() - clear() empties the map and puts the three settings back to the defaults.  Hence what a
   request saves always determines what the next request reads (the premise of the end-to-end theorems above). *)
Theorem settings_always_recorded : forall c s script,
  forallb op_keeps script = true -> consistent c s -> consistent c (apply_ops c s script).
Proof. intros c s script. exact (consistent_ops c script s). Qed.
Print Assumptions settings_always_recorded.
Theorem loaded_settings_recorded : forall c w b w1 l ld s, si_load c w b = (w1, l, inl (ld, s)) -> consistent c s.
Proof. exact si_load_consistent. Qed.
Print Assumptions loaded_settings_recorded.
Theorem clear_restores_defaults : forall c s script,
  forallb op_keeps script = true ->
  let s1 := apply_ops c (apply_op c s Oclear) script in
  consistent c s1 /\ s_data (apply_op c s Oclear) = [] /\ s_tval (apply_op c s Oclear) = c_timeout c /\
  s_how (apply_op c s Oclear) = c_how c /\ s_onsrv (apply_op c s Oclear) = false.
Proof.
  intros c s script H. cbv zeta. split; [|repeat split].
  apply consistent_ops; [exact H|]. unfold consistent. cbn [apply_op s_data s_tval s_how s_onsrv].
  split; [exact I|]. split; [reflexivity|]. split; [reflexivity|]. exists 0%Z. split; reflexivity.
Qed.
Print Assumptions clear_restores_defaults.
(* regression of the repaired defect settings-lost-by-clear (corpus/C06/regress_settings_after_clear.case): default 100 s renew;
   request 1: age(5) expiration(fixed) on_server(true) clear() set a=1.  The record lives 100 s (not 5), requests 2 and 3
   (6 s later: before the repair the 5 s had passed AND the record had been renewed to 100 s) read 100 / renew / not on server *)
Example settings_after_clear_regression :
  let '(w, obs) := run fresh_hex (mkcfg 0 1 100%Z 64) world0
                       [StR 0 [Oage 5%Z; Ohow 0%Z; Oonsrv true; Oclear; Oset [97] [49]]; StR 0 []; StT 6%Z; StR 0 []] in
  obs = [Some (mkobs (Some (false, [], 100%Z, 1%Z, false)) None [OpS (fresh_hex 0) 1000100%Z [1;8;0;0;97;49]]);
         Some (mkobs (Some (true, [([97], ([49], false))], 100%Z, 1%Z, false)) None [OpL (fresh_hex 0) true]);
         None;
         Some (mkobs (Some (true, [([97], ([49], false))], 100%Z, 1%Z, false)) None [OpL (fresh_hex 0) true])] /\
  st_find (fresh_hex 0) (w_store w) = Some (1000100%Z, [1;8;0;0;97;49]) /\
  consistent (mkcfg 0 1 100%Z 64) (apply_ops (mkcfg 0 1 100%Z 64) (sess0 (mkcfg 0 1 100%Z 64)) [Oage 5%Z; Ohow 0%Z; Oonsrv true; Oclear; Oset [97] [49]]).
Proof.
  match goal with |- let '(w, obs) := ?r in _ => let v := eval vm_compute in r in change r with v end.
  cbv iota beta. split; [vm_compute; reflexivity|]. split; [vm_compute; reflexivity|].
  apply settings_always_recorded; [reflexivity|apply consistent_sess0].
Qed.

(* the same for on_server in the dual back-end: on_server(true) then clear() then a small payload - the session goes into the
   cookie (before the repair it was stored on the server while the next request read on_server() = false) *)
Example clear_resets_on_server_regression :
  let c := mkcfg 2 1 100%Z 64 in
  let '(w, o) := request fresh_hex c world0 0 [Oonsrv true; Oclear; Oset [97] [49]] in
  j_sess (get_jar w 0) = Some (CEnc 1000100%Z [1;8;0;0;97;49], EAt 1000100%Z) /\ w_store w = [] /\ o_log o = [] /\
  o_loaded (snd (request fresh_hex c w 0 [])) = Some (true, [([97], ([49], false))], 100%Z, 1%Z, false).
Proof. vm_compute. repeat split. Qed.

Theorem decimal_settings_roundtrip : forall z, parse_Z (show_Z z) = Some z.
Proof. exact parse_show_Z. Qed.
Print Assumptions decimal_settings_roundtrip.

(* non-vacuity of 2-7: a random source that is injective and well formed on the identifiers used, a world in which
   browser 0 holds a live server-side session, a history of another browser, the clock and an attacker *)
Definition ex_fresh (n : N) : bytes := repeat 48 31 ++ [n].
Fact ex_fresh_inj : forall m n, ex_fresh m = ex_fresh n -> m = n.
Proof. intros m n H. unfold ex_fresh in H. apply app_inv_head in H. congruence. Qed.
Definition ex_id := ex_fresh 48.
Definition ex_m : dmap := [([97], ([49], true)); ([95; 116], ([53; 48], false))].   (* a=1 exposed, _t=50 *)
Definition ex_blob : bytes := [1;12;0;0;97;49; 2;16;0;0;95;116;53;48].
Definition ex_w : world :=
  mkworld 1000000%Z [mkjar (Some (CRaw (73 :: ex_id), EAt 1000050%Z)) []] [(ex_id, (1000050%Z, ex_blob))] 100 [].
Definition ex_cfg := mkcfg 0 1 100%Z 64.
Definition ex_hist : list step :=
  [StT 10%Z; StR 1 [Oset [98] [50]]; StAraw 1 (73 :: ex_fresh 49); StR 1 [Oset [98] [51]; Oreset]; StX 1 [97] [57]; StT 40%Z; StR 2 [Oclear]].
Example histories_nonvacuous :
  o_loaded (snd (request ex_fresh ex_cfg (fst (run ex_fresh ex_cfg ex_w ex_hist)) 0 [Oset [98] [50]]))
    = Some (true, [([95; 116], ([53; 48], false)); ([97], ([49], true))], 50%Z, 1%Z, false) /\
  o_loaded (snd (request ex_fresh ex_cfg (fst (run ex_fresh ex_cfg ex_w (ex_hist ++ [StT 1%Z]))) 0 []))
    = Some (false, [], 100%Z, 1%Z, false).
Proof.
  assert (holds ex_fresh 0 ex_id (1000050%Z, ex_blob) (mkjar (Some (CRaw (73 :: ex_id), EAt 1000050%Z)) []) ex_w) as Hh.
  { unfold holds. split; [reflexivity|]. split; [reflexivity|]. split; [exists 48; split; [reflexivity|reflexivity]|].
    intros b' Hb. destruct b' as [|b']; [congruence|]. unfold get_jar, ex_w. cbn [w_jars nth]. destruct b'; discriminate. }
  split.
  - apply (session_carries_over ex_fresh ex_fresh_inj ex_cfg 0%nat ex_id 1000050%Z ex_blob (EAt 1000050%Z) [] ex_hist ex_w
             [([95; 116], ([53; 48], false)); ([97], ([49], true))] 50%Z 1%Z 0%Z); try reflexivity; try exact Hh; try discriminate.
    repeat constructor; try discriminate; try lia.
  - apply (session_ends_at_deadline ex_fresh ex_fresh_inj ex_cfg 0%nat ex_id 1000050%Z ex_blob (EAt 1000050%Z) [] (ex_hist ++ [StT 1%Z]) ex_w);
      try reflexivity; try exact Hh; try discriminate.
    repeat constructor; try discriminate; try lia.
Qed.

(* the same across the browser's own unchanged requests: between the request that left the session and the one that reads it
   the history may also contain any number of requests of b itself whose save takes an early return (mixed_run: each step is
   a foreign step or such a request of b) *)
Theorem session_carries_over_own_unchanged_requests : forall fresh, (forall m n, fresh m = fresh n -> m = n) ->
  forall c b id dl blob ex xj l w m t h sv script,
  c_loc c <> 1 ->
  holds fresh b id (dl, blob) (mkjar (Some (CRaw (73 :: id), ex)) xj) w ->
  sid_ok id = true ->
  mixed_run fresh c b id w l ->
  load_data blob = LOk m ->
  special k_t m (c_timeout c) = Some t -> special k_h m (c_how c) = Some h -> special k_s m 0%Z = Some sv ->
  let w2 := fst (run fresh c w l) in
  (w_now w2 <= dl)%Z -> exp_live (w_now w2) ex = true ->
  o_loaded (snd (request fresh c w2 b script)) = Some (true, m, t, h, Z.odd sv).
Proof. exact carry_over_mixed. Qed.
Print Assumptions session_carries_over_own_unchanged_requests.
Definition mx_l : list step := [StT 2%Z; StR 0 []; StR 1 [Oset [98] [50]]; StT 1%Z; StR 0 [Oset [99] [51]; Oerase [99]]].
Example own_unchanged_requests_nonvacuous :
  mixed_run ex_fresh ex_cfg 0 ex_id ex_w mx_l /\
  o_loaded (snd (request ex_fresh ex_cfg (fst (run ex_fresh ex_cfg ex_w mx_l)) 0 [Oset [98] [50]]))
    = Some (true, [([95; 116], ([53; 48], false)); ([97], ([49], true))], 50%Z, 1%Z, false).
Proof.
  assert (mixed_run ex_fresh ex_cfg 0 ex_id ex_w mx_l) as Hm.
  { unfold mx_l. cbn [mixed_run].
    split; [left; cbn [foreign_step]; lia|].
    split; [right; eexists _, _; split; [reflexivity|]; split; [vm_compute; reflexivity|]; split; vm_compute; reflexivity|].
    split; [left; cbn [foreign_step]; discriminate|].
    split; [left; cbn [foreign_step]; lia|].
    split; [right; eexists _, _; split; [reflexivity|]; split; [vm_compute; reflexivity|]; split; vm_compute; reflexivity|].
    exact I. }
  split; [exact Hm|].
  assert (holds ex_fresh 0 ex_id (1000050%Z, ex_blob) (mkjar (Some (CRaw (73 :: ex_id), EAt 1000050%Z)) []) ex_w) as Hh.
  { unfold holds. split; [reflexivity|]. split; [reflexivity|]. split; [exists 48; split; [reflexivity|reflexivity]|].
    intros b' Hb. destruct b' as [|b']; [congruence|]. unfold get_jar, ex_w. cbn [w_jars nth]. destruct b'; discriminate. }
  assert (w_now (fst (run ex_fresh ex_cfg ex_w mx_l)) <= 1000050)%Z as Hn by (vm_compute; discriminate).
  assert (exp_live (w_now (fst (run ex_fresh ex_cfg ex_w mx_l))) (EAt 1000050%Z) = true) as Hl by (vm_compute; reflexivity).
  exact (session_carries_over_own_unchanged_requests ex_fresh ex_fresh_inj ex_cfg 0%nat ex_id 1000050%Z ex_blob (EAt 1000050%Z) [] mx_l ex_w
           [([95; 116], ([53; 48], false)); ([97], ([49], true))] 50%Z 1%Z 0%Z [Oset [98] [50]]
           ltac:(discriminate) Hh eq_refl Hm eq_refl eq_refl eq_refl eq_refl Hn Hl).
Qed.

Definition ex_w0 : world := mkworld 1000000%Z [] [] 48 [].
Definition ex_script1 : list scr := [Oage 5%Z; Ohow 0%Z; Oset [98] [50]; Oclear; Oset [97] [49]; Oexpose [97]; Oage 50%Z; Oonsrv true].
Definition ex_l : list step := [StT 10%Z; StR 1 [Oset [98] [50]]; StAraw 1 (73 :: ex_fresh 49); StR 1 [Oreset]; StT 30%Z; StR 2 [Oclear]].
Example end_to_end_nonvacuous :
  o_loaded (snd (request ex_fresh ex_cfg (fst (run ex_fresh ex_cfg (fst (request ex_fresh ex_cfg ex_w0 0 ex_script1)) ex_l)) 0 [Oclear]))
  = Some (true, [([95; 115], ([49], false)); ([95; 116], ([53; 48], false)); ([97], ([49], true))], 50%Z, 1%Z, true).
Proof.
  pose (s' := mksess [([95; 115], ([49], false)); ([95; 116], ([53; 48], false)); ([97], ([49], true))] [] 50%Z 1%Z 0%Z true false).
  change (o_loaded (snd (request ex_fresh ex_cfg (fst (run ex_fresh ex_cfg (fst (request ex_fresh ex_cfg ex_w0 0 ex_script1)) ex_l)) 0 [Oclear]))
          = Some (true, s_data s', s_tval s', s_how s', s_onsrv s')).
  eapply (session_refines_spec_server ex_fresh ex_fresh_inj ex_cfg ex_w0 0%nat ex_script1 s' _ (EAt 1000050%Z) ex_l [Oclear]);
    try reflexivity.
  - intros id H. contradiction H. reflexivity.
  - intros b id H. unfold get_jar, ex_w0 in H. cbn [w_jars] in H. destruct b; discriminate H.
  - intros b' id Hb H. unfold get_jar, ex_w0 in H. cbn [w_jars] in H. destruct b'; discriminate H.
  - intros id H. vm_compute in H. injection H as <-. repeat constructor; try discriminate; try lia.
  - vm_compute. discriminate.
Qed.

(* end to end over histories that also contain the browser's own unchanged requests: session_refines_spec_stored_on_server with
   `mixed_run` (every step: a foreign step, or a request of b itself whose save takes an early return) in place of the
   purely foreign history *)
Theorem session_refines_spec_own_unchanged_requests : forall fresh, (forall m n, fresh m = fresh n -> m = n) ->
  forall c w b script1 s' blob ex l script2,
  server_side c s' blob ->
  sid_ok (fresh (w_next w)) = true ->
  store_issued fresh w -> jars_not_future fresh w ->
  (forall b' id, b' <> b -> valid_sid (j_sess (get_jar w b')) = Some id -> valid_sid (j_sess (get_jar w b)) <> Some id) ->
  req_state c w b script1 = Some s' ->
  forallb op_keeps script1 = true ->
  dempty (s_data s') = false -> skipped (w_now w) s' = false -> save_data (s_data s') = Some blob ->
  age_exp (w_now w) (cookie_age (w_now w) s' (newsess_of s')) = Some ex ->
  let w1 := fst (request fresh c w b script1) in
  (forall id, valid_sid (j_sess (get_jar w1 b)) = Some id -> mixed_run fresh c b id w1 l) ->
  let w2 := fst (run fresh c w1 l) in
  (w_now w2 <= session_age (w_now w) s' (newsess_of s'))%Z -> exp_live (w_now w2) ex = true ->
  o_loaded (snd (request fresh c w2 b script2)) = Some (true, s_data s', s_tval s', s_how s', s_onsrv s').
Proof. exact end_to_end_stored_on_server_mixed. Qed.
Print Assumptions session_refines_spec_own_unchanged_requests.
Definition mx_s : sess := mksess [([95; 115], ([49], false)); ([95; 116], ([53; 48], false)); ([97], ([49], true))] [] 50%Z 1%Z 0%Z true false.
Definition mx_w1 : world := Eval vm_compute in fst (request ex_fresh ex_cfg ex_w0 0 ex_script1).
Definition mx_l2 : list step := [StT 2%Z; StR 0 []; StR 1 [Oset [98] [50]]; StAraw 1 (73 :: ex_fresh 49); StT 1%Z; StR 0 [Oset [99] [51]; Oerase [99]]; StR 2 [Oclear]].
Example end_to_end_own_requests_nonvacuous :
  o_loaded (snd (request ex_fresh ex_cfg (fst (run ex_fresh ex_cfg (fst (request ex_fresh ex_cfg ex_w0 0 ex_script1)) mx_l2)) 0 [Oclear]))
  = Some (true, s_data mx_s, s_tval mx_s, s_how mx_s, s_onsrv mx_s).
Proof.
  assert (fst (request ex_fresh ex_cfg ex_w0 0 ex_script1) = mx_w1) as Ew by (vm_compute; reflexivity).
  assert (mixed_run ex_fresh ex_cfg 0 (ex_fresh 48) mx_w1 mx_l2) as Hm.
  { unfold mx_l2. cbn [mixed_run].
    split; [left; cbn [foreign_step]; lia|].
    split; [right; eexists _, _; split; [reflexivity|]; split; [vm_compute; reflexivity|]; split; vm_compute; reflexivity|].
    split; [left; cbn [foreign_step]; discriminate|].
    split; [left; cbn [foreign_step]; split; discriminate|].
    split; [left; cbn [foreign_step]; lia|].
    split; [right; eexists _, _; split; [reflexivity|]; split; [vm_compute; reflexivity|]; split; vm_compute; reflexivity|].
    split; [left; cbn [foreign_step]; discriminate|].
    exact I. }
  refine (session_refines_spec_own_unchanged_requests ex_fresh ex_fresh_inj ex_cfg ex_w0 0%nat ex_script1 mx_s
            [2;8;0;0;95;115;49; 2;16;0;0;95;116;53;48; 1;12;0;0;97;49] (EAt 1000050%Z) mx_l2 [Oclear]
            (or_introl eq_refl) eq_refl _ _ _ _ eq_refl eq_refl _ eq_refl _ _ _ _).
  - intros id H. contradiction H. reflexivity.
  - intros b id H. unfold get_jar, ex_w0 in H. cbn [w_jars] in H. destruct b; discriminate H.
  - intros b' id Hb H. unfold get_jar, ex_w0 in H. cbn [w_jars] in H. destruct b'; discriminate H.
  - vm_compute; reflexivity.
  - vm_compute; reflexivity.
  - vm_compute; reflexivity.
  - rewrite Ew. intros id H. vm_compute in H. injection H as <-. exact Hm.
  - rewrite Ew. vm_compute. discriminate.
  - rewrite Ew. vm_compute. reflexivity.
Qed.

(* the closed form on a concrete fair prefix: another browser creates a session, an attacker plants a literal *)
Definition ex_fresh2 (n : N) : bytes := repeat 48 31 ++ [48 + n].
Fact ex_fresh2_inj : forall m n, ex_fresh2 m = ex_fresh2 n -> m = n.
Proof. intros m n H. unfold ex_fresh2 in H. apply app_inv_head in H. pose proof (f_equal (hd 0) H) as H'. cbn [hd] in H'. lia. Qed.
Example reachable_nonvacuous :
  let pre := [StR 1 [Oset [98] [50]]; StT 3%Z; StAraw 2 [73; 97; 98; 99]; StAhist 2 0 Mid] in
  o_loaded (snd (request ex_fresh2 ex_cfg
     (fst (run ex_fresh2 ex_cfg (fst (request ex_fresh2 ex_cfg (fst (run ex_fresh2 ex_cfg world0 pre)) 0 [Oset [97] [49]; Oage 50%Z]))
               [StT 10%Z; StR 1 [Oset [98] [51]]; StR 2 [Oclear]])) 0 []))
  = Some (true, [([95; 116], ([53; 48], false)); ([97], ([49], false))], 50%Z, 1%Z, false).
Proof.
  cbv zeta.
  pose (s' := mksess [([95; 116], ([53; 48], false)); ([97], ([49], false))] [] 50%Z 1%Z 0%Z false false).
  eapply (session_refines_spec_server_reachable ex_fresh2 ex_fresh2_inj ex_cfg _ 0%nat [Oset [97] [49]; Oage 50%Z] s' _ (EAt 1000053%Z));
    try reflexivity.
  - cbn [fair_run fair_step]. repeat split.
    intros n E. injection E as E. discriminate E.
  - intros b' id Hb H. vm_compute. discriminate.
  - intros id H. vm_compute in H. injection H as <-. repeat constructor; try discriminate; try lia.
  - vm_compute. discriminate.
Qed.

Example end_to_end_client_nonvacuous :
  o_loaded (snd (request ex_fresh (mkcfg 1 0 100%Z 64)
                   (fst (run ex_fresh (mkcfg 1 0 100%Z 64) (fst (request ex_fresh (mkcfg 1 0 100%Z 64) ex_w0 0 [Oset [97] [49]; Oexpose [97]; Oage 50%Z]))
                             [StT 10%Z; StR 1 [Oset [98] [50]]; StAhist 1 0 Mid; StR 1 [Oset [97] [57]]; StT 40%Z])) 0 []))
  = Some (true, [([95; 116], ([53; 48], false)); ([97], ([49], true))], 50%Z, 0%Z, false).
Proof.
  pose (s' := mksess [([95; 116], ([53; 48], false)); ([97], ([49], true))] [] 50%Z 0%Z 0%Z false false).
  eapply (session_refines_spec_client ex_fresh (mkcfg 1 0 100%Z 64) ex_w0 0%nat [Oset [97] [49]; Oexpose [97]; Oage 50%Z] s' _ (EAt 1000050%Z));
    try reflexivity.
  repeat constructor; discriminate.
Qed.

(* the same for sessions kept in the cookie (location client, or both below the limit): session_refines_spec_stored_in_cookie
   over histories that are quiet for b (quiet_run): anything elsewhere, clock advances, and b's own unchanged requests *)
Theorem session_refines_spec_in_cookie_own_unchanged_requests : forall fresh c w b script1 s' blob ex l script2,
  client_side c s' blob ->
  req_state c w b script1 = Some s' ->
  forallb op_keeps script1 = true ->
  dempty (s_data s') = false -> skipped (w_now w) s' = false -> save_data (s_data s') = Some blob ->
  age_exp (w_now w) (cookie_age (w_now w) s' (newsess_of s')) = Some ex ->
  let w1 := fst (request fresh c w b script1) in
  quiet_run fresh c b w1 l ->
  let w2 := fst (run fresh c w1 l) in
  (w_now w2 <= session_age (w_now w) s' (newsess_of s'))%Z -> exp_live (w_now w2) ex = true ->
  o_loaded (snd (request fresh c w2 b script2)) = Some (true, s_data s', s_tval s', s_how s', s_onsrv s').
Proof. exact end_to_end_stored_in_cookie_quiet. Qed.
Print Assumptions session_refines_spec_in_cookie_own_unchanged_requests.
Definition ck_c : cfg := mkcfg 1 0 100%Z 64.
Definition ck_script : list scr := [Oonsrv true; Oclear; Oset [97] [49]; Oexpose [97]; Oage 50%Z].
Definition ck_s : sess := mksess [([95; 116], ([53; 48], false)); ([97], ([49], true))] [] 50%Z 0%Z 0%Z false false.
Definition ck_w1 : world := Eval vm_compute in fst (request ex_fresh ck_c ex_w0 0 ck_script).
Definition ck_l : list step := [StT 10%Z; StR 0 []; StR 1 [Oset [98] [50]]; StAhist 1 0 Mid; StR 0 [Oset [99] [51]; Oerase [99]]; StT 39%Z].
Example end_to_end_cookie_own_requests_nonvacuous :
  o_loaded (snd (request ex_fresh ck_c (fst (run ex_fresh ck_c (fst (request ex_fresh ck_c ex_w0 0 ck_script)) ck_l)) 0 []))
  = Some (true, s_data ck_s, s_tval ck_s, s_how ck_s, s_onsrv ck_s).
Proof.
  assert (fst (request ex_fresh ck_c ex_w0 0 ck_script) = ck_w1) as Ew by (vm_compute; reflexivity).
  assert (quiet_run ex_fresh ck_c 0 ck_w1 ck_l) as Hq.
  { unfold ck_l. cbn [quiet_run quiet_step not_on].
    split; [lia|].
    split; [right; eexists; split; [vm_compute; reflexivity|]; split; vm_compute; reflexivity|].
    split; [left; discriminate|].
    split; [discriminate|].
    split; [right; eexists; split; [vm_compute; reflexivity|]; split; vm_compute; reflexivity|].
    split; [lia|]. exact I. }
  refine (session_refines_spec_in_cookie_own_unchanged_requests ex_fresh ck_c ex_w0 0%nat ck_script ck_s
            [2;16;0;0;95;116;53;48; 1;12;0;0;97;49] (EAt 1000050%Z) ck_l []
            (or_introl (conj eq_refl eq_refl)) _ eq_refl eq_refl _ _ _ _ _ _).
  - vm_compute; reflexivity.
  - vm_compute; reflexivity.
  - vm_compute; reflexivity.
  - vm_compute; reflexivity.
  - rewrite Ew. exact Hq.
  - rewrite Ew. vm_compute. discriminate.
  - rewrite Ew. vm_compute. reflexivity.
Qed.

(* the dual back-end: a session that lives in the cookie is moved to the server by a payload above the limit (r1), is read
   back from the server, and moved back to the cookie (r1 of the second example) *)
Example dual_switch_nonvacuous :
  let c := mkcfg 2 1 100%Z 8 in
  let wa := fst (request ex_fresh c ex_w0 0 [Oset [97] [49]]) in                    (* 6 bytes: in the cookie *)
  j_sess (get_jar wa 0) = Some (CEnc 1000100%Z [1;8;0;0;97;49], EAt 1000100%Z) /\
  o_loaded (snd (request ex_fresh c (fst (run ex_fresh c (fst (request ex_fresh c wa 0 [Oset [98] [50; 50; 50; 50; 50; 50]])) [StT 5%Z; StR 1 [Oset [97] [57]]])) 0 []))
    = Some (true, [([97], ([49], false)); ([98], ([50; 50; 50; 50; 50; 50], false))], 100%Z, 1%Z, false) /\
  let wb := fst (request ex_fresh c wa 0 [Oset [98] [50; 50; 50; 50; 50; 50]]) in   (* 17 bytes: on the server *)
  o_loaded (snd (request ex_fresh c (fst (run ex_fresh c (fst (request ex_fresh c wb 0 [Oerase [98]])) [StT 5%Z; StAhist 1 1 Mid; StR 1 [Oclear]])) 0 []))
    = Some (true, [([97], ([49], false))], 100%Z, 1%Z, false).
Proof.
  cbv zeta. split; [vm_compute; reflexivity|]. split.
  - pose (s' := mksess [([97], ([49], false)); ([98], ([50; 50; 50; 50; 50; 50], false))] [([97], ([49], false))] 100%Z 1%Z 1000100%Z false false).
    eapply (session_refines_spec_stored_on_server ex_fresh ex_fresh_inj (mkcfg 2 1 100%Z 8) _ 0%nat [Oset [98] [50; 50; 50; 50; 50; 50]] s' _ (EAt 1000100%Z));
      try reflexivity.
    + right. split; reflexivity.
    + intros id H. vm_compute in H. contradiction H. reflexivity.
    + intros b id H. vm_compute in H. destruct b as [|[|b]]; discriminate H.
    + intros b' id Hb H. vm_compute. discriminate.
    + intros id H. vm_compute in H. injection H as <-. repeat constructor; try discriminate; try lia.
    + vm_compute. discriminate.
  - pose (s' := mksess [([97], ([49], false))] [([97], ([49], false)); ([98], ([50; 50; 50; 50; 50; 50], false))] 100%Z 1%Z 1000100%Z false false).
    eapply (session_refines_spec_stored_in_cookie ex_fresh (mkcfg 2 1 100%Z 8) _ 0%nat [Oerase [98]] s' _ (EAt 1000100%Z));
      try reflexivity.
    + right. split; reflexivity.
    + repeat constructor; discriminate.
    + vm_compute. discriminate.
Qed.

Example save_nonvacuous :
  let s := mksess [([97], ([49], true))] [] 100%Z 1%Z 0%Z false false in
  skipped 1000000%Z s = false /\ newsess_of s = true /\
  (let '(w1, l1, e) := si_save fresh_hex (mkcfg 0 1 100%Z 64) world0 0 s in
   l1 = [OpS (fresh_hex 0) 1000100%Z [1;12;0;0;97;49]] /\ e = None /\
   get_jar w1 0 = mkjar (Some (CRaw (73 :: fresh_hex 0), EAt 1000100%Z)) [([97], ([49], EAt 1000100%Z))]) /\
  sid_ok (fresh_hex 0) = true /\ sid_ok (fresh_hex 12345678901234567890) = true.
Proof. vm_compute. repeat split. Qed.

(* ------------------------------------------------------------------------------------------------------------
   8. exposed_in_step (code after /repo fc690f4 + 75ecec5: update_exposed(force_update, new_session_ || how_!=fixed)).
      (i)   after any save that reaches update_exposed, every prefix_key cookie left in the jar belongs to a key that the
            session exposes (hidden / erased / unknown keys disappear);
      (ii)  every exposed non-empty value that is new / changed / newly exposed, or any one when the update is forced or all
            are sent again, is sent with the lifetime of the session cookie;
      (iii) lifetime_renewed s: the save gives the session cookie a new lifetime - always in renew and browser mode, in fixed
            mode for a new or reset session.  exposed_save_in_step / exposed_in_step / .._across_quiet_requests: such a save
            leaves the cookie of EVERY exposed non-empty value with exactly the lifetime of the session cookie, and the
            browser holds all of them for as long as it holds the session cookie;
      (iv)  all modes: exposed_save_in_step_all_modes / exposed_in_step_preserved_by_every_request - in fixed mode without
            reset the lifetime stays as it is and so do the cookies of unchanged exposed values: "the cookie of every exposed
            value ends with the session cookie" is re-established by EVERY save (sent again, or already there with the
            lifetime that is kept).  The witnesses of the former findings are regression Examples now. *)
Theorem exposed_cookies_only_for_exposed_keys : forall now age force resend s x kv,
  In kv (update_exposed now age force resend s x) -> is_exposed (fst kv) (s_data s) = true.
Proof. intros now age force resend s x kv H. unfold update_exposed in H. apply filter_In in H. exact (proj2 H). Qed.
Print Assumptions exposed_cookies_only_for_exposed_keys.

(* proved positive half: the cookie of every exposed entry with a non-empty value that is new, changed or newly exposed
   (entry_changed w.r.t. what was loaded), and of every exposed entry when the update is forced (an unchanged session
   that is being renewed), is in the jar after update_exposed, with that value and the lifetime of the session cookie *)
Theorem exposed_changed_or_forced_is_sent : forall now age force resend s x k v ex,
  ssorted (s_data s) -> dfind k (s_data s) = Some (v, true) -> v <> [] ->
  force = true \/ resend = true \/ entry_changed (s_copy s) k v = true ->
  age_exp now age = Some ex ->
  In (k, (v, ex)) (update_exposed now age force resend s x).
Proof. exact update_exposed_sends. Qed.
Print Assumptions exposed_changed_or_forced_is_sent.
Example exposed_sent_nonvacuous :
  In ([97], ([49], EAt 1000100%Z))
     (update_exposed 1000000%Z 100%Z false false (mksess [([97], ([49], true)); ([98], ([50], false))] [([97], ([49], false))] 100%Z 1%Z 0%Z false false)
                     [([98], ([57], ESession)); ([122], ([57], ESession))]).
Proof. apply exposed_changed_or_forced_is_sent; try reflexivity; [cbn; repeat constructor|discriminate|right; right; reflexivity]. Qed.

(* one save that goes through (not empty, not one of the two early returns, no exception): the session cookie has the
   lifetime ex of cookie_age; when that lifetime is new (lifetime_renewed: renew, browser, or a new / reset session in fixed
   mode) the cookie of every exposed non-empty value is in the jar with the same ex (otherwise: of every value that is new /
   changed / newly exposed) *)
Theorem exposed_save_in_step : forall fresh c w b s blob w1 l1 ex,
  dempty (s_data s) = false -> ssorted (s_data s) -> skipped (w_now w) s = false -> save_data (s_data s) = Some blob ->
  si_save fresh c w b s = (w1, l1, None) ->
  age_exp (w_now w) (cookie_age (w_now w) s (newsess_of s)) = Some ex ->
  (exists ck, j_sess (get_jar w1 b) = Some (ck, ex)) /\
  forall k v, dfind k (s_data s) = Some (v, true) -> v <> [] ->
    lifetime_renewed s = true \/ entry_changed (s_copy s) k v = true ->
    In (k, (v, ex)) (j_exp (get_jar w1 b)).
Proof. exact si_save_exposed. Qed.
Print Assumptions exposed_save_in_step.

(* a request that ends in state s (any script, any location, any back-end) and saves it; then ANY history that does not
   act on browser b (requests of others, clock advances, attacker cookies, planted cookies and records elsewhere): while
   the browser still holds the session cookie (exp_live .. ex), it holds the cookie of every exposed value of s - all
   of them in renew mode *)
Theorem exposed_in_step : forall fresh c w b script1 s' blob ex l,
  req_state c w b script1 = Some s' ->
  dempty (s_data s') = false -> skipped (w_now w) s' = false -> save_data (s_data s') = Some blob ->
  o_exc (snd (request fresh c w b script1)) = None ->
  age_exp (w_now w) (cookie_age (w_now w) s' (newsess_of s')) = Some ex ->
  let w1 := fst (request fresh c w b script1) in
  Forall (not_on b) l ->
  let w2 := fst (run fresh c w1 l) in
  exp_live (w_now w2) ex = true ->
  let j := jar_expire (w_now w2) (get_jar w2 b) in
  (exists ck, j_sess j = Some (ck, ex)) /\
  forall k v, dfind k (s_data s') = Some (v, true) -> v <> [] ->
    lifetime_renewed s' = true \/ entry_changed (s_copy s') k v = true ->
    In (k, (v, ex)) (j_exp j).
Proof. exact exposed_in_step_history. Qed.
Print Assumptions exposed_in_step.
Definition xs_c : cfg := mkcfg 0 1 10%Z 64.
Definition xs_w : world := Eval vm_compute in fst (run fresh_hex xs_c world0 [StR 0 [Oset [97] [49]; Oexpose [97]]; StT 5%Z]).
Definition xs_s : sess := mksess [([97], ([49], true)); ([98], ([50], false))] [([97], ([49], true))] 10%Z 1%Z 1000010%Z false false.
Definition xs_l : list step := [StT 9%Z; StR 1 [Oset [97] [57]; Oexpose [97]]; StX 1 [97] [49]; StAhist 1 0 Mid].
Example exposed_in_step_nonvacuous :
  (* browser 0 has a=1 exposed since 5 s (renew, 10 s); it stores b=2: unchanged a is re-sent; 9 s and a foreign history later
     the browser still holds both cookies, with the same end *)
  let w2 := fst (run fresh_hex xs_c (fst (request fresh_hex xs_c xs_w 0 [Oset [98] [50]])) xs_l) in
  let j := jar_expire (w_now w2) (get_jar w2 0) in
  entry_changed [([97], ([49], true))] [97] [49] = false /\
  (exists ck, j_sess j = Some (ck, EAt 1000015%Z)) /\ In ([97], ([49], EAt 1000015%Z)) (j_exp j).
Proof.
  cbv zeta. split; [reflexivity|].
  assert (req_state xs_c xs_w 0 [Oset [98] [50]] = Some xs_s) as P1 by (vm_compute; reflexivity).
  assert (skipped (w_now xs_w) xs_s = false) as P3 by (vm_compute; reflexivity).
  assert (save_data (s_data xs_s) = Some [1;12;0;0;97;49;1;8;0;0;98;50]) as P4 by (vm_compute; reflexivity).
  assert (o_exc (snd (request fresh_hex xs_c xs_w 0 [Oset [98] [50]])) = None) as P5 by (vm_compute; reflexivity).
  assert (age_exp (w_now xs_w) (cookie_age (w_now xs_w) xs_s (newsess_of xs_s)) = Some (EAt 1000015%Z)) as P6 by (vm_compute; reflexivity).
  assert (Forall (not_on 0) xs_l) as P7 by (repeat constructor; discriminate).
  assert (exp_live (w_now (fst (run fresh_hex xs_c (fst (request fresh_hex xs_c xs_w 0 [Oset [98] [50]])) xs_l))) (EAt 1000015%Z) = true) as P8
    by (vm_compute; reflexivity).
  destruct (exposed_in_step fresh_hex xs_c xs_w 0%nat [Oset [98] [50]] xs_s [1;12;0;0;97;49;1;8;0;0;98;50] (EAt 1000015%Z) xs_l
              P1 eq_refl P3 P4 P5 P6 P7 P8) as [H1 H2].
  split; [exact H1|]. apply (H2 [97] [49]); [reflexivity|discriminate|left; reflexivity].
Qed.

(* requests that change nothing.  A request whose save takes one of the two early returns of save() (fixed and unchanged;
   renew / browser unchanged within the first 10 % of the period, IEEE-double comparison) writes nothing, removes nothing,
   sets no cookie and raises nothing: the world afterwards is the world before, except that the browser has dropped the
   cookies whose max-age had elapsed when it sent the request; the only storage operations are loads. *)
Theorem unchanged_request_changes_nothing : forall fresh c w b script s',
  req_state c w b script = Some s' ->
  dempty (s_data s') = false -> skipped (w_now w) s' = true ->
  fst (request fresh c w b script) = set_jar w b (jar_expire (w_now w) (get_jar w b)) /\
  o_exc (snd (request fresh c w b script)) = None /\
  Forall (fun op => exists id f, op = OpL id f) (o_log (snd (request fresh c w b script))).
Proof. exact request_skipped_world. Qed.
Print Assumptions unchanged_request_changes_nothing.

(* exposed_in_step over b's own later requests: after the save of r1, ANY number of steps that are quiet for b - whatever
   happens elsewhere (not_on b), clock advances (time does not go back), and requests of b itself that leave the session
   unchanged and are not yet due for renewal (quiet_run) - leave the cookie of every exposed value of r1's state (renew: all
   of them) in the browser with the same end ex as the session cookie, for as long as the browser holds the session cookie *)
Theorem exposed_in_step_across_quiet_requests : forall fresh c w b script1 s' blob ex l,
  req_state c w b script1 = Some s' ->
  dempty (s_data s') = false -> skipped (w_now w) s' = false -> save_data (s_data s') = Some blob ->
  o_exc (snd (request fresh c w b script1)) = None ->
  age_exp (w_now w) (cookie_age (w_now w) s' (newsess_of s')) = Some ex ->
  let w1 := fst (request fresh c w b script1) in
  quiet_run fresh c b w1 l ->
  let w2 := fst (run fresh c w1 l) in
  exp_live (w_now w2) ex = true ->
  forall k v, dfind k (s_data s') = Some (v, true) -> v <> [] ->
    lifetime_renewed s' = true \/ entry_changed (s_copy s') k v = true ->
    in_step b k v ex (jar_expire (w_now w2) (get_jar w2 b)).
Proof. exact exposed_in_step_quiet. Qed.
Print Assumptions exposed_in_step_across_quiet_requests.
Example quiet_requests_nonvacuous :
  (* renew 100 s: a=1 exposed; 3 s later an unchanged request of the same browser (within the 10 % window: early return), a
     request of another browser, 4 s, another unchanged request: still both cookies, ending together at +100 *)
  let c := mkcfg 0 1 100%Z 64 in
  let l := [StT 3%Z; StR 0 []; StR 1 [Oset [97] [57]; Oexpose [97]]; StT 4%Z; StR 0 [Ohide [98]; Oerase [98]]] in
  let w2 := fst (run fresh_hex c (fst (request fresh_hex c world0 0 [Oset [97] [49]; Oexpose [97]])) l) in
  quiet_run fresh_hex c 0 (fst (request fresh_hex c world0 0 [Oset [97] [49]; Oexpose [97]])) l /\
  in_step 0 [97] [49] (EAt 1000100%Z) (jar_expire (w_now w2) (get_jar w2 0)).
Proof.
  cbv zeta.
  assert (quiet_run fresh_hex (mkcfg 0 1 100%Z 64) 0 (fst (request fresh_hex (mkcfg 0 1 100%Z 64) world0 0 [Oset [97] [49]; Oexpose [97]]))
            [StT 3%Z; StR 0 []; StR 1 [Oset [97] [57]; Oexpose [97]]; StT 4%Z; StR 0 [Ohide [98]; Oerase [98]]]) as Hq.
  { cbn [quiet_run quiet_step]. repeat split; try lia.
    - right. eexists. split; [vm_compute; reflexivity|]. split; vm_compute; reflexivity.
    - right. eexists. split; [vm_compute; reflexivity|]. split; vm_compute; reflexivity. }
  split; [exact Hq|].
  pose (s' := mksess [([97], ([49], true))] [] 100%Z 1%Z 0%Z false false).
  (* every premise is a closed boolean / option equation, evaluated separately (never vm_compute the quiet_run proposition) *)
  refine (exposed_in_step_across_quiet_requests fresh_hex (mkcfg 0 1 100%Z 64) world0 0%nat [Oset [97] [49]; Oexpose [97]] s' [1;12;0;0;97;49]
            (EAt 1000100%Z) [StT 3%Z; StR 0 []; StR 1 [Oset [97] [57]; Oexpose [97]]; StT 4%Z; StR 0 [Ohide [98]; Oerase [98]]]
            _ _ _ _ _ _ Hq _ [97] [49] _ _ _).
  - vm_compute; reflexivity.
  - reflexivity.
  - vm_compute; reflexivity.
  - vm_compute; reflexivity.
  - vm_compute; reflexivity.
  - vm_compute; reflexivity.
  - vm_compute; reflexivity.
  - reflexivity.
  - discriminate.
  - left. reflexivity.
Qed.

(* fixed mode needs no re-sending.  update_exposed_keeps_unchanged: when the update is not forced, the cookie of an exposed
   value that was exposed before with the same value is left in the jar exactly as it is.  fixed_mode_save_keeps_in_step: a
   save in fixed mode of a session that is neither new nor reset keeps the deadline that was loaded (s_tin), gives the session
   cookie exactly that end, and leaves the cookie of every unchanged exposed value alone - cookies that ended together with the
   session cookie before the request still do afterwards.  (With reset_session() the lifetime is new and everything is sent
   again: lifetime_renewed.) *)
Theorem update_exposed_keeps_unchanged : forall now age s x k v c,
  ssorted (s_data s) -> dfind k (s_data s) = Some (v, true) -> entry_changed (s_copy s) k v = false ->
  In (k, c) x -> In (k, c) (update_exposed now age false false s x).
Proof. exact update_exposed_keeps. Qed.
Print Assumptions update_exposed_keeps_unchanged.
Theorem fixed_mode_save_keeps_in_step : forall fresh c w b s blob w1 l1 k v,
  dempty (s_data s) = false -> ssorted (s_data s) -> skipped (w_now w) s = false -> save_data (s_data s) = Some blob ->
  s_how s = 0%Z -> newsess_of s = false -> (w_now w < s_tin s)%Z ->
  si_save fresh c w b s = (w1, l1, None) ->
  dfind k (s_data s) = Some (v, true) -> entry_changed (s_copy s) k v = false ->
  In (k, (v, EAt (s_tin s))) (j_exp (get_jar w b)) ->
  session_age (w_now w) s false = s_tin s /\
  (exists ck, j_sess (get_jar w1 b) = Some (ck, EAt (s_tin s))) /\
  In (k, (v, EAt (s_tin s))) (j_exp (get_jar w1 b)).
Proof. exact fixed_save_keeps_in_step. Qed.
Print Assumptions fixed_mode_save_keeps_in_step.
Definition fm_c : cfg := mkcfg 0 0 10%Z 64.
Definition fm_w : world := Eval vm_compute in fst (run fresh_hex fm_c world0 [StR 0 [Oset [97] [49]; Oexpose [97]]; StT 4%Z]).
Definition fm_s : sess := mksess [([97], ([49], true)); ([98], ([50], false))] [([97], ([49], true))] 10%Z 0%Z 1000010%Z false false.
Definition fm_res : world * list sop * option exc := Eval vm_compute in si_save fresh_hex fm_c fm_w 0 fm_s.
Example fixed_mode_nonvacuous :
  (* fixed 10 s: a=1 exposed; 4 s later b=2 is stored: the record keeps its deadline, both cookies still end at +10 *)
  req_state fm_c fm_w 0 [Oset [98] [50]] = Some fm_s /\
  snd (fst fm_res) = [OpS (fresh_hex 0) 1000010%Z [1;12;0;0;97;49;1;8;0;0;98;50]] /\
  (exists ck, j_sess (get_jar (fst (fst fm_res)) 0) = Some (ck, EAt 1000010%Z)) /\
  In ([97], ([49], EAt 1000010%Z)) (j_exp (get_jar (fst (fst fm_res)) 0)).
Proof.
  split; [vm_compute; reflexivity|]. split; [vm_compute; reflexivity|].
  assert (si_save fresh_hex fm_c fm_w 0 fm_s = (fst (fst fm_res), snd (fst fm_res), None)) as Hs by (vm_compute; reflexivity).
  assert (ssorted (s_data fm_s)) as Hso by (cbn; repeat constructor).
  assert (In ([97], ([49], EAt (s_tin fm_s))) (j_exp (get_jar fm_w 0))) as Hin by (vm_compute; left; reflexivity).
  assert (skipped (w_now fm_w) fm_s = false) as Hk by (vm_compute; reflexivity).
  assert (w_now fm_w < s_tin fm_s)%Z as Hlt by (vm_compute; reflexivity).
  exact (proj2 (fixed_mode_save_keeps_in_step fresh_hex fm_c fm_w 0%nat fm_s [1;12;0;0;97;49;1;8;0;0;98;50] _ _ [97] [49]
                  eq_refl Hso Hk eq_refl eq_refl eq_refl Hlt Hs eq_refl eq_refl Hin)).
Qed.

(* fixed mode along histories.  fixed_mode_keeps_in_step_along_histories: a cookie of an exposed value that ends at the deadline dl
   of the session (`holds` .. with session cookie and cookie of k ending at dl) is still in step after ANY history of foreign steps
   and b's own unchanged requests (mixed_run) followed by a saving request of b that is neither new nor reset and still exposes
   k = v.  exposed_in_step_chain_fixed: the same with the premise established by a first request r1 from any world satisfying the
   reachable-world invariants: r1 saves in fixed mode and sends the cookie; history; r2 saves: session cookie and cookie of k still
   end together at the deadline r1 set.  Together with exposed_save_in_step (renewed lifetime: everything is sent again) this is
   the in-step property along histories in all three modes. *)
Theorem fixed_mode_keeps_in_step_along_histories : forall fresh, (forall m n, fresh m = fresh n -> m = n) ->
  forall c b id dl blob xj l w m t sv script blob2 k v,
  c_loc c <> 1 ->
  holds fresh b id (dl, blob) (mkjar (Some (CRaw (73 :: id), EAt dl)) xj) w -> sid_ok id = true ->
  In (k, (v, EAt dl)) xj ->
  mixed_run fresh c b id w l ->
  load_data blob = LOk m ->
  special k_t m (c_timeout c) = Some t -> special k_h m (c_how c) = Some 0%Z -> special k_s m 0%Z = Some sv ->
  let w2 := fst (run fresh c w l) in
  (w_now w2 < dl)%Z ->
  let s2 := apply_ops c (mksess m m t 0%Z dl (Z.odd sv) false) script in
  s_how s2 = 0%Z -> newsess_of s2 = false ->
  dempty (s_data s2) = false -> skipped (w_now w2) s2 = false -> save_data (s_data s2) = Some blob2 ->
  o_exc (snd (request fresh c w2 b script)) = None ->
  dfind k (s_data s2) = Some (v, true) -> v <> [] ->
  in_step b k v (EAt dl) (get_jar (fst (request fresh c w2 b script)) b).
Proof. exact fixed_mode_chain. Qed.
Print Assumptions fixed_mode_keeps_in_step_along_histories.
Theorem exposed_in_step_chain_fixed_mode : forall fresh, (forall m n, fresh m = fresh n -> m = n) ->
  forall c w b script1 s' blob t1 l script2 blob2 k v,
  server_side c s' blob ->
  sid_ok (fresh (w_next w)) = true ->
  store_issued fresh w -> jars_not_future fresh w ->
  (forall b' id, b' <> b -> valid_sid (j_sess (get_jar w b')) = Some id -> valid_sid (j_sess (get_jar w b)) <> Some id) ->
  req_state c w b script1 = Some s' ->
  forallb op_keeps script1 = true ->
  dempty (s_data s') = false -> skipped (w_now w) s' = false -> save_data (s_data s') = Some blob ->
  s_how s' = 0%Z ->
  age_exp (w_now w) (cookie_age (w_now w) s' (newsess_of s')) = Some (EAt t1) ->
  dfind k (s_data s') = Some (v, true) -> v <> [] ->
  lifetime_renewed s' = true \/ entry_changed (s_copy s') k v = true ->
  let w1 := fst (request fresh c w b script1) in
  (forall id, valid_sid (j_sess (get_jar w1 b)) = Some id -> mixed_run fresh c b id w1 l) ->
  let w2 := fst (run fresh c w1 l) in
  (w_now w2 < t1)%Z ->
  let s2 := apply_ops c (mksess (s_data s') (s_data s') (s_tval s') 0%Z t1 (s_onsrv s') false) script2 in
  s_how s2 = 0%Z -> newsess_of s2 = false ->
  dempty (s_data s2) = false -> skipped (w_now w2) s2 = false -> save_data (s_data s2) = Some blob2 ->
  o_exc (snd (request fresh c w2 b script2)) = None ->
  dfind k (s_data s2) = Some (v, true) ->
  in_step b k v (EAt t1) (get_jar (fst (request fresh c w2 b script2)) b).
Proof. exact exposed_in_step_chain_fixed. Qed.
Print Assumptions exposed_in_step_chain_fixed_mode.
Definition fx_c : cfg := mkcfg 0 0 100%Z 64.
Definition fx_script1 : list scr := [Oset [97] [49]; Oexpose [97]; Oage 50%Z].
Definition fx_s1 : sess := mksess [([95; 116], ([53; 48], false)); ([97], ([49], true))] [] 50%Z 0%Z 0%Z false false.
Definition fx_blob1 : bytes := Eval vm_compute in match save_data (s_data fx_s1) with Some x => x | None => [] end.
Definition fx_w1 : world := Eval vm_compute in fst (request ex_fresh fx_c ex_w0 0 fx_script1).
Definition fx_l : list step := [StT 10%Z; StR 0 []; StR 1 [Oset [98] [50]]; StAraw 2 [73; 120]; StT 5%Z].
Definition fx_w2 : world := Eval vm_compute in fst (run ex_fresh fx_c fx_w1 fx_l).
Definition fx_script2 : list scr := [Oset [98] [50]; Ohide [99]].
Definition fx_s2 : sess := Eval vm_compute in apply_ops fx_c (mksess (s_data fx_s1) (s_data fx_s1) 50%Z 0%Z 1000050%Z false false) fx_script2.
Definition fx_blob2 : bytes := Eval vm_compute in match save_data (s_data fx_s2) with Some x => x | None => [] end.
Example fixed_chain_nonvacuous :
  in_step 0 [97] [49] (EAt 1000050%Z)
    (get_jar (fst (request ex_fresh fx_c (fst (run ex_fresh fx_c (fst (request ex_fresh fx_c ex_w0 0 fx_script1)) fx_l)) 0 fx_script2)) 0).
Proof.
  assert (fst (request ex_fresh fx_c ex_w0 0 fx_script1) = fx_w1) as E1 by (vm_compute; reflexivity).
  assert (fst (run ex_fresh fx_c fx_w1 fx_l) = fx_w2) as E2 by (vm_compute; reflexivity).
  assert (mixed_run ex_fresh fx_c 0 (ex_fresh 48) fx_w1 fx_l) as Hm.
  { unfold fx_l. cbn [mixed_run].
    split; [left; cbn [foreign_step]; lia|].
    split; [right; eexists _, _; split; [reflexivity|]; split; [vm_compute; reflexivity|]; split; vm_compute; reflexivity|].
    split; [left; cbn [foreign_step]; discriminate|].
    split; [left; cbn [foreign_step]; split; discriminate|].
    split; [left; cbn [foreign_step]; lia|].
    exact I. }
  refine (exposed_in_step_chain_fixed_mode ex_fresh ex_fresh_inj fx_c ex_w0 0%nat fx_script1 fx_s1 fx_blob1 1000050%Z fx_l fx_script2 fx_blob2 [97] [49]
            (or_introl eq_refl) eq_refl _ _ _ _ eq_refl eq_refl _ _ eq_refl _ eq_refl _ (or_introl eq_refl) _ _ _ _ _ _ _ _ _).
  - intros id H. contradiction H. reflexivity.
  - intros b id H. unfold get_jar, ex_w0 in H. cbn [w_jars] in H. destruct b; discriminate H.
  - intros b' id Hb H. unfold get_jar, ex_w0 in H. cbn [w_jars] in H. destruct b'; discriminate H.
  - vm_compute; reflexivity.
  - vm_compute; reflexivity.
  - vm_compute; reflexivity.
  - vm_compute; reflexivity.
  - discriminate.
  - rewrite E1. intros id H. vm_compute in H. injection H as <-. exact Hm.
  - rewrite E1, E2. vm_compute. reflexivity.
  - vm_compute; reflexivity.
  - vm_compute; reflexivity.
  - vm_compute; reflexivity.
  - rewrite E1, E2. vm_compute; reflexivity.
  - vm_compute; reflexivity.
  - rewrite E1, E2. vm_compute; reflexivity.
  - vm_compute; reflexivity.
Qed.

(* regression of the repaired defect exposed-cookie-expired-before-session (/repo fc690f4; the history is
   corpus/C06/finding_exposed_expiry.case): timeout 10, renew.  The third request finds the session alive with a exposed,
   and the browser holds the cookie of a with the lifetime of the session cookie (before the repair: j_exp j = []). *)
Example exposed_in_step_regression :
  let '(w, obs) := run fresh_hex (mkcfg 0 1 10%Z 64) world0
                       [StR 0 [Oset [97] [49]; Oexpose [97]]; StT 5%Z; StR 0 [Oset [98] [50]]; StT 6%Z; StR 0 [Oset [98] [51]]] in
  let j := jar_expire (w_now w) (get_jar w 0) in
  nth 0 (rev obs) None = Some (mkobs (Some (true, [([97], ([49], true)); ([98], ([50], false))], 10%Z, 1%Z, false)) None
                                      [OpL (fresh_hex 0) true; OpS (fresh_hex 0) 1000021%Z [1;12;0;0;97;49;1;8;0;0;98;51]]) /\
  j_sess j = Some (CRaw (73 :: fresh_hex 0), EAt 1000021%Z) /\
  j_exp j = [([97], ([49], EAt 1000021%Z))].
Proof. vm_compute. repeat split. Qed.

(* all modes.  One save that goes through: the cookie of an exposed non-empty value is in the jar with the lifetime ex of the
   session cookie if it is (re)sent - lifetime_renewed, or the entry is new / changed - or if it was in the jar with that
   lifetime before (fixed mode without reset: the lifetime is kept and the cookie is left alone). *)
Theorem exposed_save_in_step_all_modes : forall fresh c w b s blob w1 l1 ex,
  dempty (s_data s) = false -> ssorted (s_data s) -> skipped (w_now w) s = false -> save_data (s_data s) = Some blob ->
  si_save fresh c w b s = (w1, l1, None) ->
  age_exp (w_now w) (cookie_age (w_now w) s (newsess_of s)) = Some ex ->
  (exists ck, j_sess (get_jar w1 b) = Some (ck, ex)) /\
  forall k v, dfind k (s_data s) = Some (v, true) -> v <> [] ->
    In (k, (v, ex)) (j_exp (get_jar w b)) \/ lifetime_renewed s = true \/ entry_changed (s_copy s) k v = true ->
    In (k, (v, ex)) (j_exp (get_jar w1 b)).
Proof. exact si_save_exposed_all. Qed.
Print Assumptions exposed_save_in_step_all_modes.
(* the same for a whole request (any script, location, back-end): in_step of an exposed value - its cookie ends with the session
   cookie - is re-established by every request that saves *)
Theorem exposed_in_step_preserved_by_every_request : forall fresh c w b script s' blob ex,
  req_state c w b script = Some s' ->
  dempty (s_data s') = false -> skipped (w_now w) s' = false -> save_data (s_data s') = Some blob ->
  o_exc (snd (request fresh c w b script)) = None ->
  age_exp (w_now w) (cookie_age (w_now w) s' (newsess_of s')) = Some ex ->
  forall k v, dfind k (s_data s') = Some (v, true) -> v <> [] ->
    In (k, (v, ex)) (j_exp (jar_expire (w_now w) (get_jar w b))) \/ lifetime_renewed s' = true \/ entry_changed (s_copy s') k v = true ->
    in_step b k v ex (get_jar (fst (request fresh c w b script)) b).
Proof. exact request_keeps_in_step. Qed.
Print Assumptions exposed_in_step_preserved_by_every_request.

(* regressions of the repaired defect exposed-cookie-not-renewed-with-session-cookie (/repo 75ecec5; the histories are in
   corpus/C06/regress_exposed_not_renewed.case).  (a) fixed 10 s, a=1 exposed, expiration(browser), two data-changing requests
   6 s apart: the last request finds the session alive with a exposed and the browser holds the cookie of a as a browser-session
   cookie like the session cookie (before the repair: j_exp j = []). *)
Example exposed_browser_mode_regression :
  let '(w, obs) := run fresh_hex (mkcfg 0 0 10%Z 64) world0
                       [StR 0 [Oset [97] [49]; Oexpose [97]]; StR 0 [Ohow 2%Z]; StT 6%Z; StR 0 [Oset [98] [50]]; StT 6%Z; StR 0 [Oset [98] [51]]] in
  let j := jar_expire (w_now w) (get_jar w 0) in
  nth 0 (rev obs) None = Some (mkobs (Some (true, [([95; 104], ([50], false)); ([97], ([49], true)); ([98], ([50], false))], 10%Z, 2%Z, false)) None
                                      [OpL (fresh_hex 0) true; OpS (fresh_hex 0) 1000022%Z [2;8;0;0;95;104;50;1;12;0;0;97;49;1;8;0;0;98;51]]) /\
  j_sess j = Some (CRaw (73 :: fresh_hex 0), ESession) /\
  j_exp j = [([97], ([49], ESession))].
Proof. vm_compute. repeat split. Qed.
(* (b) fixed 10 s, a=1 exposed, 5 s later reset_session(): new id, session cookie and the cookie of a both end at +15 *)
Example exposed_fixed_reset_regression :
  let '(w, obs) := run fresh_hex (mkcfg 0 0 10%Z 64) world0 [StR 0 [Oset [97] [49]; Oexpose [97]]; StT 5%Z; StR 0 [Oreset]; StT 6%Z] in
  let j := jar_expire (w_now w) (get_jar w 0) in
  j_sess j = Some (CRaw (73 :: fresh_hex 1), EAt 1000015%Z) /\ j_exp j = [([97], ([49], EAt 1000015%Z))].
Proof. vm_compute. repeat split. Qed.
(* deletion cookies: a renew-mode save that changes data sends every exposed value again but deletion cookies only for keys
   that were exposed before or that the request carried a cookie for - not for every hidden key (fc690f4 had that side effect) *)
Example no_deletion_for_hidden_keys_regression :
  let c := mkcfg 0 1 10%Z 64 in
  let w := fst (run fresh_hex c world0 [StR 0 [Oset [97] [49]; Oexpose [97]; Oset [98] [50]; Oset [99] [51]; Oexpose [99]]; StT 5%Z]) in
  request_dels fresh_hex c w 0 [Oset [98] [52]; Ohide [99]] = [[99]] /\
  request_dels fresh_hex c (fst (run fresh_hex c w [StT 2%Z])) 0 [] = [[98]] /\      (* renewal of the unchanged session: forced *)
  request_dels fresh_hex c w 0 [Oclear] = [[97]; [99]].
Proof. vm_compute. repeat split. Qed.

(* deletion cookies (the sorted key set exposed_dels, observed by the correspondence harness as del=[..]): every deletion cookie
   update_exposed emits is justified - the key is an exposed entry sent with an empty value (or a negative age), or was exposed in
   what the request loaded, or the request carried a prefix_key cookie for it although the session does not expose it, or - on a
   FORCED update only - it is a hidden entry.  no_deletion_cookie_for_hidden_key_on_resend: a save that is not forced and merely
   sends every exposed value again (75ecec5: resend) never emits a deletion cookie for a hidden key that was never exposed and
   that the browser does not hold. *)
Theorem deletion_cookies_are_justified : forall now age force resend s x k,
  In k (exposed_dels now age force resend s x) ->
  (exists v, In (k, (v, true)) (s_data s) /\ (v = [] \/ age_exp now age = None)) \/
  (exists v2, In (k, (v2, true)) (s_copy s)) \/
  (exists c, In (k, c) x /\ is_exposed k (s_data s) = false) \/
  (force = true /\ exists v, In (k, (v, false)) (s_data s)).
Proof. exact deletion_cookie_justified. Qed.
Print Assumptions deletion_cookies_are_justified.
Theorem no_deletion_cookie_for_hidden_key_on_resend : forall now age resend s x k v,
  In (k, (v, false)) (s_data s) -> ssorted (s_data s) ->
  (forall v2, ~ In (k, (v2, true)) (s_copy s)) -> (forall c, ~ In (k, c) x) ->
  ~ In k (exposed_dels now age false resend s x).
Proof. exact resend_deletes_no_hidden_key. Qed.
Print Assumptions no_deletion_cookie_for_hidden_key_on_resend.
Example deletion_cookies_nonvacuous :
  let s := mksess [([97], ([49], true)); ([98], ([50], false)); ([99], ([51], false))]
                  [([97], ([49], true)); ([98], ([48], false)); ([99], ([51], true))] 10%Z 1%Z 1000010%Z false false in
  let x := [([97], ([49], EAt 1000010%Z)); ([99], ([51], EAt 1000010%Z))] in
  ~ In [98] (exposed_dels 1000005%Z 10%Z false true s x) /\
  exposed_dels 1000005%Z 10%Z false true s x = [[99]] /\ exposed_dels 1000005%Z 10%Z true false s x = [[98]; [99]].
Proof.
  cbv zeta. split; [|split; vm_compute; reflexivity].
  apply (no_deletion_cookie_for_hidden_key_on_resend _ _ _ _ _ [98] [50]).
  - right. left. reflexivity.
  - cbn. repeat constructor.
  - intros v2 [H|[H|[H|[]]]]; discriminate H.
  - intros c [H|[H|[]]]; discriminate H.
Qed.

(* ------------------------------------------------------------------------------------------------------------
   9. tie: the character class of valid_sid in the model is the one regenerated from src/session_sid.cpp *)
From CppcmsV Require Import Base.CSem Base.Sweep C06.Link gen.Gen_sid C06.LinkPacked gen.Gen_C06packed.
Theorem sid_character_test_is_source : forall b, b < 256 -> g_low_x_digit (Z.of_N b) = low_xdigit b.
Proof. exact link_low_xdigit. Qed.
Print Assumptions sid_character_test_is_source.
Theorem wellformed_ids_pass_source_test : forall id, Forall (fun b => b < 256) id -> sid_ok id = true ->
  Forall (fun b => g_low_x_digit (Z.of_N b) = true) id /\ length id = 32%nat.
Proof. exact link_sid_ok. Qed.
Print Assumptions wellformed_ids_pass_source_test.

(* tie of the entry codec: coq/gen/Gen_C06packed.v is regenerated on every run from the current text of struct packed / save_data /
   load_data in src/session_interface.cpp (limit tests of packed::packed(ks,exp,ds), bit-field widths, bounds tests of load_data).
   The limit tests refuse EXACTLY the sizes the bit-fields cannot hold (g_c06_*_field = what an assignment to the bit-field stores):
   an off-by-one in a limit (>= 2^21 becoming > 2^21: a value of exactly 2 MiB would be stored with length 0 and the next load_data
   would read its bytes as forged entries) or a changed field width breaks these theorems and the check reports the tie broken. *)
Theorem packed_key_limit_is_field_capacity : forall ks, ks < 4294967296 ->
  (g_c06_keylong (Z.of_N ks) = false <-> g_c06_key_field (Z.of_N ks) = Z.of_N ks).
Proof. exact key_limit_is_field_capacity. Qed.
Print Assumptions packed_key_limit_is_field_capacity.
Theorem packed_value_limit_is_field_capacity : forall ds, ds < 4294967296 ->
  (g_c06_vallong (Z.of_N ds) = false <-> g_c06_data_field (Z.of_N ds) = Z.of_N ds).
Proof. exact value_limit_is_field_capacity. Qed.
Print Assumptions packed_value_limit_is_field_capacity.
(* the source's limit tests are the domain of the model's codec (entry_fits = within_bounds), its header word is the model's header,
   and the three tests of load_data are the ones of the model's load_aux *)
Theorem packed_limits_are_the_codec_domain : forall x,
  entry_fits x = negb (g_c06_keylong (Z.of_N (blen (fst x)))) && negb (g_c06_vallong (Z.of_N (blen (fst (snd x))))).
Proof. exact link_entry_fits. Qed.
Print Assumptions packed_limits_are_the_codec_domain.
Theorem packed_header_is_source_word : forall ks ex ds, ks < 1024 -> ds < 2097152 ->
  header ks ex ds = le32 (Z.to_N (g_c06_word (Z.of_N ks) (if ex then 1 else 0)%Z (Z.of_N ds))).
Proof. exact link_header. Qed.
Print Assumptions packed_header_is_source_word.
Theorem load_data_tests_are_source : forall b e ks ds : N,
  g_c06_more (Z.of_N b) (Z.of_N e) = (b <? e) /\ g_c06_hdr (Z.of_N b) (Z.of_N e) = (b + 4 <=? e) /\
  (b <= e -> ks < 1024 -> ds < 2097152 -> g_c06_fits (Z.of_N b) (Z.of_N e) (Z.of_N ks) (Z.of_N ds) = (ks + ds <=? e - b)).
Proof. intros b e ks ds. split; [apply link_more|]. split; [apply link_hdr|apply link_fits]. Qed.
Print Assumptions load_data_tests_are_source.
