(* C06 -- session state carries over between requests exactly, never after it ended.
   Only property theorems here, each closed by `exact <lemma>`; proofs are in Proofs*.v; Link.v ties the character
   test of valid_sid to the source.  `fresh` is the random source (i-th identifier); the theorems that need it assume
   that it yields well-formed (fresh_ok) resp. pairwise distinct (fresh_inj) identifiers. *)
From CppcmsV Require Import Base.Tac C06.Defs C06.Proofs C06.ProofsNum C06.ProofsMap C06.Proofs2 C06.Proofs3 C06.Proofs4 C06.Proofs5 C06.Proofs6 C06.Proofs7 C06.Proofs8 C06.Proofs10 C06.Proofs9 C06.Proofs11.
Local Open Scope N_scope.

(* ------------------------------------------------------------------------------------------------------------
   1. packed entry codec.  A data map is well formed (ssorted) when its keys are strictly increasing in the order of
      std::map<std::string,..>; save_data succeeds when every key is < 1024 bytes and every value < 2 MiB;
      load_data inverts it, is total (never runs out of fuel; every read is a firstn/skipn guarded by the length
      test, so nothing outside the buffer is read) and only ever produces well-formed maps. *)
Theorem codec_roundtrip : forall m blob, ssorted m -> save_data m = Some blob -> load_data blob = LOk m.
Proof. exact codec_roundtrip_lemma. Qed.
Print Assumptions codec_roundtrip.
Theorem codec_save_defined : forall m, forallb entry_fits m = true -> exists blob, save_data m = Some blob.
Proof. exact save_data_fits. Qed.
Print Assumptions codec_save_defined.
Theorem load_data_total : forall s, load_data s <> LFuel.
Proof. exact load_data_no_fuel. Qed.
Print Assumptions load_data_total.
Theorem load_data_wellformed : forall s m, load_data s = LOk m -> ssorted m.
Proof. exact load_data_sorted. Qed.
Print Assumptions load_data_wellformed.
Example codec_nonvacuous :
  let m := [([97], ([49; 50], true)); ([97; 98], ([], false)); ([98], ([0; 255], false))] in
  ssorted m /\ save_data m = Some [1;20;0;0;97;49;50; 2;0;0;0;97;98; 1;16;0;0;98;0;255] /\
  load_data [1;20;0;0;97;49;50; 2;0;0;0;97;98; 1;16;0;0;98;0;255] = LOk m /\ load_data [1;20;0;0;97;49] = LErr.
Proof. cbv zeta. split; [unfold ssorted, key_below; repeat constructor|]. repeat split; vm_compute; reflexivity. Qed.

(* ------------------------------------------------------------------------------------------------------------
   2. only_wellformed_ids_reach_storage: in every history (requests of any browsers, clock advances, attacker
      cookies - literal or replayed/mutated -, planted cookies and records) every storage access of every request
      (save, load, remove) uses an identifier of the form 32 x [0-9a-f]. *)
Theorem only_wellformed_ids_reach_storage : forall fresh, (forall n, sid_ok (fresh n) = true) ->
  forall c l w, Forall (fun o => match o with Some ob => Forall (fun op => sid_ok (op_id op) = true) (o_log ob) | None => True end)
                       (snd (run fresh c w l)).
Proof. exact run_ok. Qed.
Print Assumptions only_wellformed_ids_reach_storage.

(* ------------------------------------------------------------------------------------------------------------
   3. cleared_is_dead: when the request leaves the session empty (clear, or erase of everything) and the session
      is addressed by an identifier (server or dual back-end), the identifier is not in storage any more, the
      browser holds no session cookie and no exposed-value cookie. *)
Theorem cleared_is_dead : forall fresh c w b s id,
  c_loc c <> 1 -> dempty (s_data s) = true -> valid_sid (j_sess (get_jar w b)) = Some id ->
  st_find id (w_store (fst (fst (si_save fresh c w b s)))) = None /\
  j_sess (get_jar (fst (fst (si_save fresh c w b s))) b) = None /\
  j_exp (get_jar (fst (fst (si_save fresh c w b s))) b) = [].
Proof. exact si_save_clear_dead. Qed.
Print Assumptions cleared_is_dead.

(* 4. reset_fresh: reset_session (or a session that is new) on the server back-end: the presented identifier is
      removed, the record is written under the next output of the random source, which becomes the cookie.  With
      fresh_inj that identifier differs from every identifier issued before (those are fresh k, k < w_next). *)
Theorem reset_fresh : forall fresh c w b s blob id,
  c_loc c = 0 -> dempty (s_data s) = false -> newsess_of s = true -> save_data (s_data s) = Some blob ->
  valid_sid (j_sess (get_jar w b)) = Some id -> fresh (w_next w) <> id ->
  exists w1 l1,
    si_save fresh c w b s = (w1, l1, None) /\
    st_find id (w_store w1) = None /\
    st_find (fresh (w_next w)) (w_store w1) = Some (session_age (w_now w) s true, blob) /\
    w_next w1 = w_next w + 1 /\
    (forall ex, age_exp (w_now w) (cookie_age (w_now w) s true) = Some ex ->
                j_sess (get_jar w1 b) = Some (CRaw (73 :: fresh (w_next w)), ex)).
Proof. exact si_save_reset_fresh. Qed.
Print Assumptions reset_fresh.

(* ------------------------------------------------------------------------------------------------------------
   5. what a save leaves and what a load reads (one request each).  `skipped` is the pair of early returns of
      save(): fixed & unchanged, renew/browser unchanged within the 10 % window (IEEE double comparison). *)
Theorem server_save_leaves_exact_record : forall fresh, (forall n, sid_ok (fresh n) = true) ->
  forall c w b s blob,
  c_loc c = 0 -> dempty (s_data s) = false -> ssorted (s_data s) -> skipped (w_now w) s = false ->
  save_data (s_data s) = Some blob ->
  exists id w1 l1,
    si_save fresh c w b s = (w1, l1, None) /\ sid_ok id = true /\
    st_find id (w_store w1) = Some (session_age (w_now w) s (newsess_of s), blob) /\
    load_data blob = LOk (s_data s) /\ w_now w1 = w_now w /\
    (forall ex, age_exp (w_now w) (cookie_age (w_now w) s (newsess_of s)) = Some ex ->
                j_sess (get_jar w1 b) = Some (CRaw (73 :: id), ex)).
Proof. exact si_save_server. Qed.
Print Assumptions server_save_leaves_exact_record.

Theorem live_record_read_exactly : forall c w b id dl blob m t h sv,
  c_loc c <> 1 -> valid_sid (j_sess (get_jar w b)) = Some id ->
  st_find id (w_store w) = Some (dl, blob) -> (w_now w <= dl)%Z ->
  load_data blob = LOk m ->
  special k_t m (c_timeout c) = Some t -> special k_h m (c_how c) = Some h -> special k_s m 0%Z = Some sv ->
  si_load c w b = (w, [OpL id true], inl (true, mksess m m t h dl (Z.odd sv) false)).
Proof. exact si_load_hit. Qed.
Print Assumptions live_record_read_exactly.

Theorem expired_record_reads_empty : forall c w b id dl blob,
  c_loc c <> 1 -> valid_sid (j_sess (get_jar w b)) = Some id ->
  st_find id (w_store w) = Some (dl, blob) -> (dl < w_now w)%Z ->
  si_load c w b = (w, [OpL id false], inl (false, sess0 c)).
Proof. exact si_load_expired. Qed.
Print Assumptions expired_record_reads_empty.

Theorem unknown_id_reads_empty : forall c w b id,
  c_loc c <> 1 -> valid_sid (j_sess (get_jar w b)) = Some id -> st_find id (w_store w) = None ->
  si_load c w b = (w, [OpL id false], inl (false, sess0 c)).
Proof. exact si_load_unknown. Qed.
Print Assumptions unknown_id_reads_empty.

Theorem malformed_id_never_addresses_storage : forall c w b,
  c_loc c = 0 -> valid_sid (j_sess (get_jar w b)) = None ->
  si_load c w b = (w, [], inl (false, sess0 c)).
Proof. exact si_load_server_malformed. Qed.
Print Assumptions malformed_id_never_addresses_storage.

(* client-side storage (symbolic MAC) *)
Theorem client_save_leaves_exact_cookie : forall fresh c w b s blob,
  c_loc c = 1 -> dempty (s_data s) = false -> ssorted (s_data s) -> skipped (w_now w) s = false ->
  save_data (s_data s) = Some blob -> s_onsrv s = false ->
  exists w1,
    si_save fresh c w b s = (w1, [], None) /\ w_store w1 = w_store w /\ load_data blob = LOk (s_data s) /\
    (forall ex, age_exp (w_now w) (cookie_age (w_now w) s (newsess_of s)) = Some ex ->
                j_sess (get_jar w1 b) = Some (CEnc (session_age (w_now w) s (newsess_of s)) blob, ex)).
Proof. exact si_save_client. Qed.
Print Assumptions client_save_leaves_exact_cookie.

Theorem client_cookie_read_exactly : forall c w b dl blob e m t h sv,
  c_loc c = 1 -> j_sess (get_jar w b) = Some (CEnc dl blob, e) -> (w_now w <= dl)%Z ->
  load_data blob = LOk m ->
  special k_t m (c_timeout c) = Some t -> special k_h m (c_how c) = Some h -> special k_s m 0%Z = Some sv ->
  si_load c w b = (w, [], inl (true, mksess m m t h dl (Z.odd sv) false)).
Proof. exact si_load_client_hit. Qed.
Print Assumptions client_cookie_read_exactly.

Theorem client_cookie_expired_reads_empty : forall c w b dl blob e,
  c_loc c = 1 -> j_sess (get_jar w b) = Some (CEnc dl blob, e) -> (dl < w_now w)%Z ->
  si_load c w b = (set_jar w b (jar_clear_sess (get_jar w b)), [], inl (false, sess0 c)).
Proof. exact si_load_client_expired. Qed.
Print Assumptions client_cookie_expired_reads_empty.

Theorem client_forged_cookie_reads_empty : forall c w b s e,
  c_loc c = 1 -> j_sess (get_jar w b) = Some (CRaw s, e) -> snd (si_load c w b) = inl (false, sess0 c).
Proof. exact si_load_client_forged. Qed.
Print Assumptions client_forged_cookie_reads_empty.

(* 6. dual_switch: a session kept on the server that is saved back into the cookie leaves no server record *)
Theorem dual_switch_leaves_no_server_copy : forall fresh c w b s blob id,
  c_loc c = 2 -> dempty (s_data s) = false -> skipped (w_now w) s = false -> save_data (s_data s) = Some blob ->
  s_onsrv s = false -> (c_limit c <? blen blob) = false ->
  valid_sid (j_sess (get_jar w b)) = Some id ->
  exists w1 l1,
    si_save fresh c w b s = (w1, l1, None) /\ st_find id (w_store w1) = None /\
    (forall ex, age_exp (w_now w) (cookie_age (w_now w) s (newsess_of s)) = Some ex ->
                j_sess (get_jar w1 b) = Some (CEnc (session_age (w_now w) s (newsess_of s)) blob, ex)).
Proof. exact si_save_dual_switch. Qed.
Print Assumptions dual_switch_leaves_no_server_copy.

(* ------------------------------------------------------------------------------------------------------------
   7. histories (session_refines_spec, server-side part).  `holds b id rec j w`: browser b's jar is j, the record
      under id is rec, id was issued by the random source and no other browser presents it.  Over ANY list of
      steps that are requests of other browsers (any scripts), clock advances, attacker strings other than b's
      cookie put into other jars, planted exposed cookies in other jars, this is invariant (nobody else reads or
      changes b's session, never a mixture); hence the next request of b reads exactly what was left (values,
      exposed flags, age, expiration mode, on-server flag) while now <= deadline and the browser still holds the
      cookie, and the empty session once the deadline passed. *)
Theorem other_browsers_cannot_touch_session : forall fresh, (forall m n, fresh m = fresh n -> m = n) ->
  forall c b id rec j l w,
  Forall (foreign_step b id) l -> holds fresh b id rec j w -> holds fresh b id rec j (fst (run fresh c w l)).
Proof. exact run_holds. Qed.
Print Assumptions other_browsers_cannot_touch_session.

Theorem session_carries_over : forall fresh, (forall m n, fresh m = fresh n -> m = n) ->
  forall c b id dl blob ex xj l w m t h sv script,
  c_loc c <> 1 ->
  holds fresh b id (dl, blob) (mkjar (Some (CRaw (73 :: id), ex)) xj) w ->
  sid_ok id = true ->
  Forall (foreign_step b id) l ->
  load_data blob = LOk m ->
  special k_t m (c_timeout c) = Some t -> special k_h m (c_how c) = Some h -> special k_s m 0%Z = Some sv ->
  let w2 := fst (run fresh c w l) in
  (w_now w2 <= dl)%Z -> exp_live (w_now w2) ex = true ->
  o_loaded (snd (request fresh c w2 b script)) = Some (true, m, t, h, Z.odd sv).
Proof. exact carry_over_history. Qed.
Print Assumptions session_carries_over.

Theorem session_ends_at_deadline : forall fresh, (forall m n, fresh m = fresh n -> m = n) ->
  forall c b id dl blob ex xj l w script,
  c_loc c <> 1 ->
  holds fresh b id (dl, blob) (mkjar (Some (CRaw (73 :: id), ex)) xj) w ->
  sid_ok id = true ->
  Forall (foreign_step b id) l ->
  let w2 := fst (run fresh c w l) in
  (dl < w_now w2)%Z ->
  o_loaded (snd (request fresh c w2 b script)) = Some (false, [], c_timeout c, c_how c, false).
Proof. exact expired_history. Qed.
Print Assumptions session_ends_at_deadline.

(* end to end (session_refines_spec for sessions kept on the server): request r1 of browser b ends its script in state s'
   (req_state; the script does not touch the reserved keys and does not call clear(), see settings-lost-by-clear in
   docs/C06.md) and saves it; then ANY history of other browsers / clock / attacker strings other than b's cookie; then
   the next request of b reads exactly s': values and exposed flags, age, expiration mode, on-server flag - while
   now <= the deadline given by the expiration mode and the browser still holds the cookie.
   Premises on the world before r1 (both are invariants of every world reachable by fair histories, see below): storage
   keys were drawn from the random source, well-formed ids in jars are not future draws; and nobody else presents
   b's id (no stolen cookie).  Premises on the random source: injective; the id drawn is well formed. *)
Theorem session_refines_spec_server : forall fresh, (forall m n, fresh m = fresh n -> m = n) ->
  forall c w b script1 s' blob ex l script2,
  c_loc c = 0 ->
  sid_ok (fresh (w_next w)) = true ->
  store_issued fresh w -> jars_not_future fresh w ->
  (forall b' id, b' <> b -> valid_sid (j_sess (get_jar w b')) = Some id -> valid_sid (j_sess (get_jar w b)) <> Some id) ->
  req_state c w b script1 = Some s' ->
  forallb op_keeps script1 = true ->
  dempty (s_data s') = false -> skipped (w_now w) s' = false -> save_data (s_data s') = Some blob ->
  age_exp (w_now w) (cookie_age (w_now w) s' (newsess_of s')) = Some ex ->
  let w1 := fst (request fresh c w b script1) in
  (forall id, valid_sid (j_sess (get_jar w1 b)) = Some id -> Forall (foreign_step b id) l) ->
  let w2 := fst (run fresh c w1 l) in
  (w_now w2 <= session_age (w_now w) s' (newsess_of s'))%Z -> exp_live (w_now w2) ex = true ->
  o_loaded (snd (request fresh c w2 b script2)) = Some (true, s_data s', s_tval s', s_how s', s_onsrv s').
Proof. exact end_to_end_server2. Qed.
Print Assumptions session_refines_spec_server.

(* the same for sessions kept in the client-side cookie: here NOTHING that happens elsewhere matters - requests of other
   browsers, attacker strings, replays of any emitted cookie into other jars, planted records *)
Theorem session_refines_spec_client : forall fresh c w b script1 s' blob ex l script2,
  c_loc c = 1 ->
  req_state c w b script1 = Some s' ->
  forallb op_keeps script1 = true ->
  dempty (s_data s') = false -> skipped (w_now w) s' = false -> save_data (s_data s') = Some blob ->
  s_onsrv s' = false ->
  age_exp (w_now w) (cookie_age (w_now w) s' (newsess_of s')) = Some ex ->
  let w1 := fst (request fresh c w b script1) in
  Forall (not_on b) l ->
  let w2 := fst (run fresh c w1 l) in
  (w_now w2 <= session_age (w_now w) s' (newsess_of s'))%Z -> exp_live (w_now w2) ex = true ->
  o_loaded (snd (request fresh c w2 b script2)) = Some (true, s_data s', s_tval s', s_how s', false).
Proof. exact end_to_end_client. Qed.
Print Assumptions session_refines_spec_client.

(* a request changes no jar but that of its own browser *)
Theorem request_touches_only_own_jar : forall fresh c b l w, Forall (not_on b) l ->
  get_jar (fst (run fresh c w l)) b = get_jar w b.
Proof. exact run_keeps_jar. Qed.
Print Assumptions request_touches_only_own_jar.

(* closed form: from the EMPTY world, after any fair history `pre` (arbitrary requests of arbitrary browsers, clock
   advances, verbatim replays of emitted cookies into any jar, attacker literals / mutated copies that are not identifiers
   of the random source, planted exposed cookies; no records planted in storage), the same statement holds without any
   premise on the world but "nobody else holds b's cookie".  reachable_worlds_invariant is the invariant used. *)
Theorem reachable_worlds_invariant : forall fresh, (forall m n, fresh m = fresh n -> m = n) ->
  forall c l, fair_run fresh c world0 l -> inv fresh (fst (run fresh c world0 l)).
Proof. intros fresh Hi c l H. exact (inv_run fresh Hi c l world0 (inv_world0 fresh) H). Qed.
Print Assumptions reachable_worlds_invariant.

Theorem session_refines_spec_server_reachable : forall fresh, (forall m n, fresh m = fresh n -> m = n) ->
  forall c pre b script1 s' blob ex l script2,
  c_loc c = 0 ->
  fair_run fresh c world0 pre ->
  let w := fst (run fresh c world0 pre) in
  sid_ok (fresh (w_next w)) = true ->
  (forall b' id, b' <> b -> valid_sid (j_sess (get_jar w b')) = Some id -> valid_sid (j_sess (get_jar w b)) <> Some id) ->
  req_state c w b script1 = Some s' ->
  forallb op_keeps script1 = true ->
  dempty (s_data s') = false -> skipped (w_now w) s' = false -> save_data (s_data s') = Some blob ->
  age_exp (w_now w) (cookie_age (w_now w) s' (newsess_of s')) = Some ex ->
  let w1 := fst (request fresh c w b script1) in
  (forall id, valid_sid (j_sess (get_jar w1 b)) = Some id -> Forall (foreign_step b id) l) ->
  let w2 := fst (run fresh c w1 l) in
  (w_now w2 <= session_age (w_now w) s' (newsess_of s'))%Z -> exp_live (w_now w2) ex = true ->
  o_loaded (snd (request fresh c w2 b script2)) = Some (true, s_data s', s_tval s', s_how s', s_onsrv s').
Proof. exact end_to_end_server_reachable. Qed.
Print Assumptions session_refines_spec_server_reachable.

(* all three locations at once.  server_side: location server, or location both with on_server / a payload above
   client_size_limit; client_side: location client, or location both otherwise.  Which side the session was on BEFORE r1
   does not matter, so switches client <-> server of the dual back-end are covered: r1 may load from the cookie and save
   to the server or the other way round. *)
Theorem session_refines_spec_stored_on_server : forall fresh, (forall m n, fresh m = fresh n -> m = n) ->
  forall c w b script1 s' blob ex l script2,
  server_side c s' blob ->
  sid_ok (fresh (w_next w)) = true ->
  store_issued fresh w -> jars_not_future fresh w ->
  (forall b' id, b' <> b -> valid_sid (j_sess (get_jar w b')) = Some id -> valid_sid (j_sess (get_jar w b)) <> Some id) ->
  req_state c w b script1 = Some s' ->
  forallb op_keeps script1 = true ->
  dempty (s_data s') = false -> skipped (w_now w) s' = false -> save_data (s_data s') = Some blob ->
  age_exp (w_now w) (cookie_age (w_now w) s' (newsess_of s')) = Some ex ->
  let w1 := fst (request fresh c w b script1) in
  (forall id, valid_sid (j_sess (get_jar w1 b)) = Some id -> Forall (foreign_step b id) l) ->
  let w2 := fst (run fresh c w1 l) in
  (w_now w2 <= session_age (w_now w) s' (newsess_of s'))%Z -> exp_live (w_now w2) ex = true ->
  o_loaded (snd (request fresh c w2 b script2)) = Some (true, s_data s', s_tval s', s_how s', s_onsrv s').
Proof. exact end_to_end_stored_on_server. Qed.
Print Assumptions session_refines_spec_stored_on_server.

Theorem session_refines_spec_stored_in_cookie : forall fresh c w b script1 s' blob ex l script2,
  client_side c s' blob ->
  req_state c w b script1 = Some s' ->
  forallb op_keeps script1 = true ->
  dempty (s_data s') = false -> skipped (w_now w) s' = false -> save_data (s_data s') = Some blob ->
  age_exp (w_now w) (cookie_age (w_now w) s' (newsess_of s')) = Some ex ->
  let w1 := fst (request fresh c w b script1) in
  Forall (not_on b) l ->
  let w2 := fst (run fresh c w1 l) in
  (w_now w2 <= session_age (w_now w) s' (newsess_of s'))%Z -> exp_live (w_now w2) ex = true ->
  o_loaded (snd (request fresh c w2 b script2)) = Some (true, s_data s', s_tval s', s_how s', s_onsrv s').
Proof. exact end_to_end_stored_in_cookie. Qed.
Print Assumptions session_refines_spec_stored_in_cookie.

Theorem decimal_settings_roundtrip : forall z, parse_Z (show_Z z) = Some z.
Proof. exact parse_show_Z. Qed.
Print Assumptions decimal_settings_roundtrip.

(* non-vacuity of 2-7: a random source that is injective and well formed on the identifiers used, a world in which
   browser 0 holds a live server-side session, a history of another browser, the clock and an attacker *)
Definition ex_fresh (n : N) : bytes := repeat 48 31 ++ [n].
Fact ex_fresh_inj : forall m n, ex_fresh m = ex_fresh n -> m = n.
Proof. intros m n H. unfold ex_fresh in H. apply app_inv_head in H. congruence. Qed.
Definition ex_id := ex_fresh 48.
Definition ex_m : dmap := [([97], ([49], true)); ([95; 116], ([53; 48], false))].   (* a=1 exposed, _t=50 *)
Definition ex_blob : bytes := [1;12;0;0;97;49; 2;16;0;0;95;116;53;48].
Definition ex_w : world :=
  mkworld 1000000%Z [mkjar (Some (CRaw (73 :: ex_id), EAt 1000050%Z)) []] [(ex_id, (1000050%Z, ex_blob))] 100 [].
Definition ex_cfg := mkcfg 0 1 100%Z 64.
Definition ex_hist : list step :=
  [StT 10%Z; StR 1 [Oset [98] [50]]; StAraw 1 (73 :: ex_fresh 49); StR 1 [Oset [98] [51]; Oreset]; StX 1 [97] [57]; StT 40%Z; StR 2 [Oclear]].
Example histories_nonvacuous :
  o_loaded (snd (request ex_fresh ex_cfg (fst (run ex_fresh ex_cfg ex_w ex_hist)) 0 [Oset [98] [50]]))
    = Some (true, [([95; 116], ([53; 48], false)); ([97], ([49], true))], 50%Z, 1%Z, false) /\
  o_loaded (snd (request ex_fresh ex_cfg (fst (run ex_fresh ex_cfg ex_w (ex_hist ++ [StT 1%Z]))) 0 []))
    = Some (false, [], 100%Z, 1%Z, false).
Proof.
  assert (holds ex_fresh 0 ex_id (1000050%Z, ex_blob) (mkjar (Some (CRaw (73 :: ex_id), EAt 1000050%Z)) []) ex_w) as Hh.
  { unfold holds. split; [reflexivity|]. split; [reflexivity|]. split; [exists 48; split; [reflexivity|reflexivity]|].
    intros b' Hb. destruct b' as [|b']; [congruence|]. unfold get_jar, ex_w. cbn [w_jars nth]. destruct b'; discriminate. }
  split.
  - apply (session_carries_over ex_fresh ex_fresh_inj ex_cfg 0%nat ex_id 1000050%Z ex_blob (EAt 1000050%Z) [] ex_hist ex_w
             [([95; 116], ([53; 48], false)); ([97], ([49], true))] 50%Z 1%Z 0%Z); try reflexivity; try exact Hh; try discriminate.
    repeat constructor; try discriminate; try lia.
  - apply (session_ends_at_deadline ex_fresh ex_fresh_inj ex_cfg 0%nat ex_id 1000050%Z ex_blob (EAt 1000050%Z) [] (ex_hist ++ [StT 1%Z]) ex_w);
      try reflexivity; try exact Hh; try discriminate.
    repeat constructor; try discriminate; try lia.
Qed.

Definition ex_w0 : world := mkworld 1000000%Z [] [] 48 [].
Definition ex_script1 : list scr := [Oset [97] [49]; Oexpose [97]; Oage 50%Z; Oonsrv true].
Definition ex_l : list step := [StT 10%Z; StR 1 [Oset [98] [50]]; StAraw 1 (73 :: ex_fresh 49); StR 1 [Oreset]; StT 30%Z; StR 2 [Oclear]].
Example end_to_end_nonvacuous :
  o_loaded (snd (request ex_fresh ex_cfg (fst (run ex_fresh ex_cfg (fst (request ex_fresh ex_cfg ex_w0 0 ex_script1)) ex_l)) 0 [Oclear]))
  = Some (true, [([95; 115], ([49], false)); ([95; 116], ([53; 48], false)); ([97], ([49], true))], 50%Z, 1%Z, true).
Proof.
  pose (s' := mksess [([95; 115], ([49], false)); ([95; 116], ([53; 48], false)); ([97], ([49], true))] [] 50%Z 1%Z 0%Z true false).
  change (o_loaded (snd (request ex_fresh ex_cfg (fst (run ex_fresh ex_cfg (fst (request ex_fresh ex_cfg ex_w0 0 ex_script1)) ex_l)) 0 [Oclear]))
          = Some (true, s_data s', s_tval s', s_how s', s_onsrv s')).
  eapply (session_refines_spec_server ex_fresh ex_fresh_inj ex_cfg ex_w0 0%nat ex_script1 s' _ (EAt 1000050%Z) ex_l [Oclear]);
    try reflexivity.
  - intros id H. contradiction H. reflexivity.
  - intros b id H. unfold get_jar, ex_w0 in H. cbn [w_jars] in H. destruct b; discriminate H.
  - intros b' id Hb H. unfold get_jar, ex_w0 in H. cbn [w_jars] in H. destruct b'; discriminate H.
  - intros id H. vm_compute in H. injection H as <-. repeat constructor; try discriminate; try lia.
  - vm_compute. discriminate.
Qed.

(* the closed form on a concrete fair prefix: another browser creates a session, an attacker plants a literal *)
Definition ex_fresh2 (n : N) : bytes := repeat 48 31 ++ [48 + n].
Fact ex_fresh2_inj : forall m n, ex_fresh2 m = ex_fresh2 n -> m = n.
Proof. intros m n H. unfold ex_fresh2 in H. apply app_inv_head in H. pose proof (f_equal (hd 0) H) as H'. cbn [hd] in H'. lia. Qed.
Example reachable_nonvacuous :
  let pre := [StR 1 [Oset [98] [50]]; StT 3%Z; StAraw 2 [73; 97; 98; 99]; StAhist 2 0 Mid] in
  o_loaded (snd (request ex_fresh2 ex_cfg
     (fst (run ex_fresh2 ex_cfg (fst (request ex_fresh2 ex_cfg (fst (run ex_fresh2 ex_cfg world0 pre)) 0 [Oset [97] [49]; Oage 50%Z]))
               [StT 10%Z; StR 1 [Oset [98] [51]]; StR 2 [Oclear]])) 0 []))
  = Some (true, [([95; 116], ([53; 48], false)); ([97], ([49], false))], 50%Z, 1%Z, false).
Proof.
  cbv zeta.
  pose (s' := mksess [([95; 116], ([53; 48], false)); ([97], ([49], false))] [] 50%Z 1%Z 0%Z false false).
  eapply (session_refines_spec_server_reachable ex_fresh2 ex_fresh2_inj ex_cfg _ 0%nat [Oset [97] [49]; Oage 50%Z] s' _ (EAt 1000053%Z));
    try reflexivity.
  - cbn [fair_run fair_step]. repeat split.
    intros n E. injection E as E. discriminate E.
  - intros b' id Hb H. vm_compute. discriminate.
  - intros id H. vm_compute in H. injection H as <-. repeat constructor; try discriminate; try lia.
  - vm_compute. discriminate.
Qed.

Example end_to_end_client_nonvacuous :
  o_loaded (snd (request ex_fresh (mkcfg 1 0 100%Z 64)
                   (fst (run ex_fresh (mkcfg 1 0 100%Z 64) (fst (request ex_fresh (mkcfg 1 0 100%Z 64) ex_w0 0 [Oset [97] [49]; Oexpose [97]; Oage 50%Z]))
                             [StT 10%Z; StR 1 [Oset [98] [50]]; StAhist 1 0 Mid; StR 1 [Oset [97] [57]]; StT 40%Z])) 0 []))
  = Some (true, [([95; 116], ([53; 48], false)); ([97], ([49], true))], 50%Z, 0%Z, false).
Proof.
  pose (s' := mksess [([95; 116], ([53; 48], false)); ([97], ([49], true))] [] 50%Z 0%Z 0%Z false false).
  eapply (session_refines_spec_client ex_fresh (mkcfg 1 0 100%Z 64) ex_w0 0%nat [Oset [97] [49]; Oexpose [97]; Oage 50%Z] s' _ (EAt 1000050%Z));
    try reflexivity.
  repeat constructor; discriminate.
Qed.

(* the dual back-end: a session that lives in the cookie is moved to the server by a payload above the limit (r1), is read
   back from the server, and moved back to the cookie (r1 of the second example) *)
Example dual_switch_nonvacuous :
  let c := mkcfg 2 1 100%Z 8 in
  let wa := fst (request ex_fresh c ex_w0 0 [Oset [97] [49]]) in                    (* 6 bytes: in the cookie *)
  j_sess (get_jar wa 0) = Some (CEnc 1000100%Z [1;8;0;0;97;49], EAt 1000100%Z) /\
  o_loaded (snd (request ex_fresh c (fst (run ex_fresh c (fst (request ex_fresh c wa 0 [Oset [98] [50; 50; 50; 50; 50; 50]])) [StT 5%Z; StR 1 [Oset [97] [57]]])) 0 []))
    = Some (true, [([97], ([49], false)); ([98], ([50; 50; 50; 50; 50; 50], false))], 100%Z, 1%Z, false) /\
  let wb := fst (request ex_fresh c wa 0 [Oset [98] [50; 50; 50; 50; 50; 50]]) in   (* 17 bytes: on the server *)
  o_loaded (snd (request ex_fresh c (fst (run ex_fresh c (fst (request ex_fresh c wb 0 [Oerase [98]])) [StT 5%Z; StAhist 1 1 Mid; StR 1 [Oclear]])) 0 []))
    = Some (true, [([97], ([49], false))], 100%Z, 1%Z, false).
Proof.
  cbv zeta. split; [vm_compute; reflexivity|]. split.
  - pose (s' := mksess [([97], ([49], false)); ([98], ([50; 50; 50; 50; 50; 50], false))] [([97], ([49], false))] 100%Z 1%Z 1000100%Z false false).
    eapply (session_refines_spec_stored_on_server ex_fresh ex_fresh_inj (mkcfg 2 1 100%Z 8) _ 0%nat [Oset [98] [50; 50; 50; 50; 50; 50]] s' _ (EAt 1000100%Z));
      try reflexivity.
    + right. split; reflexivity.
    + intros id H. vm_compute in H. contradiction H. reflexivity.
    + intros b id H. vm_compute in H. destruct b as [|[|b]]; discriminate H.
    + intros b' id Hb H. vm_compute. discriminate.
    + intros id H. vm_compute in H. injection H as <-. repeat constructor; try discriminate; try lia.
    + vm_compute. discriminate.
  - pose (s' := mksess [([97], ([49], false))] [([97], ([49], false)); ([98], ([50; 50; 50; 50; 50; 50], false))] 100%Z 1%Z 1000100%Z false false).
    eapply (session_refines_spec_stored_in_cookie ex_fresh (mkcfg 2 1 100%Z 8) _ 0%nat [Oerase [98]] s' _ (EAt 1000100%Z));
      try reflexivity.
    + right. split; reflexivity.
    + repeat constructor; discriminate.
    + vm_compute. discriminate.
Qed.

Example save_nonvacuous :
  let s := mksess [([97], ([49], true))] [] 100%Z 1%Z 0%Z false false in
  skipped 1000000%Z s = false /\ newsess_of s = true /\
  (let '(w1, l1, e) := si_save fresh_hex (mkcfg 0 1 100%Z 64) world0 0 s in
   l1 = [OpS (fresh_hex 0) 1000100%Z [1;12;0;0;97;49]] /\ e = None /\
   get_jar w1 0 = mkjar (Some (CRaw (73 :: fresh_hex 0), EAt 1000100%Z)) [([97], ([49], EAt 1000100%Z))]) /\
  sid_ok (fresh_hex 0) = true /\ sid_ok (fresh_hex 12345678901234567890) = true.
Proof. vm_compute. repeat split. Qed.

(* ------------------------------------------------------------------------------------------------------------
   8. exposed_in_step.
      Proved half: after any save that reaches update_exposed, every prefix_key cookie left in the jar belongs to
      a key that the session exposes (hidden / erased / unknown keys disappear).
      The other half (every exposed non-empty value is in a live cookie while the session is alive) is REFUTED by
      the faithful model: exposed_in_step_refuted (KNOWN FINDING exposed-cookie-expired-before-session, replayed on
      the implementation by corpus/C06/finding_exposed_expiry.case).
      Full statement that does not hold:
        forall histories, after each request of b whose session is alive and exposes k with value v <> "",
        the jar of b contains prefix_k = v with a lifetime not shorter than the session cookie. *)
Theorem exposed_cookies_only_for_exposed_keys_partial : forall now age force s x kv,
  In kv (update_exposed now age force s x) -> is_exposed (fst kv) (s_data s) = true.
Proof. intros now age force s x kv H. unfold update_exposed in H. apply filter_In in H. exact (proj2 H). Qed.
Print Assumptions exposed_cookies_only_for_exposed_keys_partial.

(* proved positive half: the cookie of every exposed entry with a non-empty value that is new, changed or newly exposed
   (entry_changed w.r.t. what was loaded), and of every exposed entry when the update is forced (an unchanged session
   that is being renewed), is in the jar after update_exposed, with that value and the lifetime of the session cookie *)
Theorem exposed_changed_or_forced_is_sent : forall now age force s x k v ex,
  ssorted (s_data s) -> dfind k (s_data s) = Some (v, true) -> v <> [] ->
  force = true \/ entry_changed (s_copy s) k v = true ->
  age_exp now age = Some ex ->
  In (k, (v, ex)) (update_exposed now age force s x).
Proof. exact update_exposed_sends. Qed.
Print Assumptions exposed_changed_or_forced_is_sent.
Example exposed_sent_nonvacuous :
  In ([97], ([49], EAt 1000100%Z))
     (update_exposed 1000000%Z 100%Z false (mksess [([97], ([49], true)); ([98], ([50], false))] [([97], ([49], false))] 100%Z 1%Z 0%Z false false)
                     [([98], ([57], ESession)); ([122], ([57], ESession))]).
Proof. apply exposed_changed_or_forced_is_sent; try reflexivity; [cbn; repeat constructor|discriminate|right; reflexivity]. Qed.

Theorem exposed_in_step_refuted :
  exists c l, let '(w, obs) := run fresh_hex c world0 l in
    let j := jar_expire (w_now w) (get_jar w 0) in
    (* the session of browser 0 is alive, exposes key a with value 1 ... *)
    nth 0 (rev obs) None = Some (mkobs (Some (true, [([97], ([49], true)); ([98], ([50], false))], 10%Z, 1%Z, false)) None
                                        [OpL (fresh_hex 0) true; OpS (fresh_hex 0) 1000021%Z [1;12;0;0;97;49;1;8;0;0;98;51]]) /\
    j_sess j = Some (CRaw (73 :: fresh_hex 0), EAt 1000021%Z) /\
    (* ... but the browser holds no cookie for it *)
    j_exp j = [].
Proof.
  exists (mkcfg 0 1 10%Z 64).
  exists [StR 0 [Oset [97] [49]; Oexpose [97]]; StT 5%Z; StR 0 [Oset [98] [50]]; StT 6%Z; StR 0 [Oset [98] [51]]].
  vm_compute. repeat split.
Qed.
Print Assumptions exposed_in_step_refuted.

(* ------------------------------------------------------------------------------------------------------------
   9. tie: the character class of valid_sid in the model is the one regenerated from src/session_sid.cpp *)
From CppcmsV Require Import Base.CSem Base.Sweep C06.Link gen.Gen_sid.
Theorem sid_character_test_is_source : forall b, b < 256 -> g_low_x_digit (Z.of_N b) = low_xdigit b.
Proof. exact link_low_xdigit. Qed.
Print Assumptions sid_character_test_is_source.
Theorem wellformed_ids_pass_source_test : forall id, Forall (fun b => b < 256) id -> sid_ok id = true ->
  Forall (fun b => g_low_x_digit (Z.of_N b) = true) id /\ length id = 32%nat.
Proof. exact link_sid_ok. Qed.
Print Assumptions wellformed_ids_pass_source_test.
