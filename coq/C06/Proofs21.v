(* C06 proofs, part 21: every deletion cookie update_exposed emits is justified.  A key gets a deletion cookie (Max-Age=0)
   only if it is an exposed entry sent with an empty value (or a negative age), or was exposed in what the request loaded, or
   the request carried a prefix_key cookie for it although the session does not expose it, or - on a FORCED update only - it
   is a hidden entry.  In particular a save that merely sends all exposed values again (resend) never deletes the cookie of a
   hidden key that was never exposed and that the browser does not hold. *)
From CppcmsV Require Import Base.Tac C06.Defs C06.Proofs.
Local Open Scope N_scope.

Lemma In_kins : forall k k' l, In k (kins k' l) <-> k' = k \/ In k l.
Proof.
  intros k k' l. induction l as [|x r IH]; cbn [kins].
  - cbn [In]. tauto.
  - destruct (beqb k' x) eqn:E.
    + apply beqb_eq in E. subst x. cbn [In]. tauto.
    + destruct (bltb k' x); cbn [In]; [tauto|]. rewrite IH. tauto.
Qed.

Lemma In_fold_kins : forall k l, In k (fold_right kins [] l) <-> In k l.
Proof.
  intros k l. induction l as [|x r IH]; cbn [fold_right]; [tauto|]. rewrite In_kins, IH. cbn [In]. tauto.
Qed.

Lemma dfind_In : forall k e m, dfind k m = Some e -> In (k, e) m.
Proof.
  intros k e m. induction m as [|[k' e'] r IH]; cbn [dfind]; [discriminate|].
  destruct (beqb k k') eqn:E; [apply beqb_eq in E; subst k'; intros H; injection H as <-; left; reflexivity|].
  intros H. right. apply IH. exact H.
Qed.

Lemma dels_data_In : forall now age force resend copy d k,
  In k (dels_data now age force resend copy d) ->
  (exists v, In (k, (v, true)) d /\ (v = [] \/ age_exp now age = None)) \/
  (exists v v2, In (k, (v, false)) d /\ In (k, (v2, true)) copy) \/
  (force = true /\ exists v, In (k, (v, false)) d).
Proof.
  intros now age force resend copy d k. induction d as [|[k' [v e]] r IH]; cbn [dels_data]; [intros []|].
  intros H. apply in_app_or in H. destruct H as [H|H].
  - destruct e.
    + match type of H with In _ (if ?b then _ else _) => destruct b eqn:Hb end; [|destruct H].
      destruct H as [<-|[]]. left. exists v. split; [left; reflexivity|].
      apply andb_true_iff in Hb. destruct Hb as [_ Hb]. destruct v; [left; reflexivity|].
      right. destruct (age_exp now age); [discriminate Hb|reflexivity].
    + match type of H with In _ (if ?b then _ else _) => destruct b eqn:Hb end; [|destruct H].
      destruct H as [<-|[]]. apply orb_true_iff in Hb. destruct Hb as [Hb|Hb].
      * right. left. destruct (dfind k' copy) as [[v2 e2]|] eqn:Hf; [|discriminate Hb]. subst e2.
        exists v, v2. split; [left; reflexivity|apply dfind_In; exact Hf].
      * right. right. split; [exact Hb|]. exists v. left. reflexivity.
  - destruct (IH H) as [(v0 & H1 & H2)|[(v0 & v2 & H1 & H2)|(Hf & v0 & H1)]].
    + left. exists v0. split; [right; exact H1|exact H2].
    + right. left. exists v0, v2. split; [right; exact H1|exact H2].
    + right. right. split; [exact Hf|]. exists v0. right. exact H1.
Qed.

Theorem deletion_cookie_justified : forall now age force resend s x k,
  In k (exposed_dels now age force resend s x) ->
  (exists v, In (k, (v, true)) (s_data s) /\ (v = [] \/ age_exp now age = None)) \/
  (exists v2, In (k, (v2, true)) (s_copy s)) \/
  (exists c, In (k, c) x /\ is_exposed k (s_data s) = false) \/
  (force = true /\ exists v, In (k, (v, false)) (s_data s)).
Proof.
  intros now age force resend s x k H. unfold exposed_dels in H. apply (proj1 (In_fold_kins _ _)) in H.
  apply in_app_or in H. destruct H as [H|H].
  - destruct (dels_data_In _ _ _ _ _ _ _ H) as [H1|[(v0 & v2 & _ & H2)|H3]].
    + left. exact H1.
    + right. left. exists v2. exact H2.
    + right. right. right. exact H3.
  - apply in_app_or in H. destruct H as [H|H].
    + apply in_map_iff in H. destruct H as ([k' [v2 e2]] & Hk & Hin). cbn [fst] in Hk. subst k'.
      apply filter_In in Hin. destruct Hin as [Hin Hc]. cbn [fst snd] in Hc. apply andb_true_iff in Hc. destruct Hc as [He _]. subst e2.
      right. left. exists v2. exact Hin.
    + apply in_map_iff in H. destruct H as ([k' c] & Hk & Hin). cbn [fst] in Hk. subst k'.
      apply filter_In in Hin. destruct Hin as [Hin Hc]. cbn [fst] in Hc. apply negb_true_iff in Hc.
      right. right. left. exists c. split; [exact Hin|exact Hc].
Qed.

(* the form the repair 75ecec5 is about: a save that is not a forced update (data changed, or the session is new / reset) and sends
   every exposed value again deletes nothing that was never exposed and that the browser does not hold *)
Corollary resend_deletes_no_hidden_key : forall now age resend s x k v,
  In (k, (v, false)) (s_data s) -> ssorted (s_data s) ->
  (forall v2, ~ In (k, (v2, true)) (s_copy s)) -> (forall c, ~ In (k, c) x) ->
  ~ In k (exposed_dels now age false resend s x).
Proof.
  intros now age resend s x k v Hin Hs Hcopy Hx H.
  destruct (deletion_cookie_justified _ _ _ _ _ _ _ H) as [(v0 & H1 & _)|[(v2 & H2)|[(c & H3 & _)|(Hf & _)]]].
  - (* k would be both hidden and exposed in a map with unique keys *)
    clear -Hin H1 Hs. induction (s_data s) as [|[k' e'] r IH]; [destruct Hin|].
    destruct Hs as [Hb Hs]. unfold key_below in Hb. rewrite Forall_forall in Hb.
    destruct Hin as [E1|Hin]; destruct H1 as [E2|H1].
    + congruence.
    + injection E1 as -> _. specialize (Hb _ H1). cbn [fst] in Hb. rewrite bltb_irrefl in Hb. discriminate Hb.
    + injection E2 as -> _. specialize (Hb _ Hin). cbn [fst] in Hb. rewrite bltb_irrefl in Hb. discriminate Hb.
    + exact (IH Hin Hs H1).
  - exact (Hcopy v2 H2).
  - exact (Hx c H3).
  - discriminate Hf.
Qed.
