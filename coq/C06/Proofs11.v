(* C06 proofs, part 11: end to end for every session that is stored on the server (location server, or location both
   with on_server / payload above client_size_limit), and for location both when the session stays in the cookie *)
From CppcmsV Require Import Base.Tac C06.Defs C06.Proofs C06.ProofsNum C06.ProofsMap C06.Proofs2 C06.Proofs3 C06.Proofs4 C06.Proofs5 C06.Proofs6 C06.Proofs7 C06.Proofs10 C06.Proofs9.
Local Open Scope N_scope.

Definition server_side (c : cfg) (s : sess) (blob : bytes) : Prop :=
  c_loc c = 0 \/ (c_loc c = 2 /\ (s_onsrv s || (c_limit c <? blen blob)) = true).
Definition client_side (c : cfg) (s : sess) (blob : bytes) : Prop :=
  (c_loc c = 1 /\ s_onsrv s = false) \/ (c_loc c = 2 /\ (s_onsrv s || (c_limit c <? blen blob)) = false).

Lemma cookies_load_next : forall w b, w_next (fst (fst (cookies_load w b))) = w_next w.
Proof.
  intros. unfold cookies_load. destruct (j_sess (get_jar w b)) as [[[s|dl d] e]|]; try reflexivity.
  - destruct s; reflexivity.
  - destruct (dl <? w_now w)%Z; reflexivity.
Qed.

Lemma backend_load_next : forall c w b, w_next (fst (fst (backend_load c w b))) = w_next w.
Proof.
  intros. unfold backend_load.
  assert (w_next (fst (fst (sid_load w b))) = w_next w) as Hs by apply sid_load_same.
  pose proof (cookies_load_next w b) as Hc.
  destruct (c_loc c =? 0); [exact Hs|]. destruct (c_loc c =? 1); [exact Hc|].
  destruct (cookie_first (j_sess (get_jar w b))) as [x|]; [|exact Hs].
  destruct (N.eq_dec x 67) as [->|Hn]; [exact Hc|].
  destruct x as [|p]; [exact Hs|]. do 7 (destruct p as [p|p|]; try exact Hs). contradiction Hn. reflexivity.
Qed.

Section Fresh.
Variable fresh : N -> bytes.
Hypothesis fresh_inj : forall m n, fresh m = fresh n -> m = n.

Lemma backend_save_server_side : forall c w b s blob dl newd,
  server_side c s blob -> backend_save fresh c w b blob dl newd (s_onsrv s) = sid_save fresh w b blob dl newd.
Proof.
  intros c w b s blob dl newd [H|[H1 H2]]; unfold backend_save.
  - rewrite H. reflexivity.
  - rewrite H1, H2. reflexivity.
Qed.

Theorem end_to_end_stored_on_server : forall c w b script1 s' blob ex l script2,
  server_side c s' blob ->
  sid_ok (fresh (w_next w)) = true ->
  store_issued fresh w -> jars_not_future fresh w ->
  (forall b' id, b' <> b -> valid_sid (j_sess (get_jar w b')) = Some id -> valid_sid (j_sess (get_jar w b)) <> Some id) ->
  req_state c w b script1 = Some s' ->
  forallb op_keeps script1 = true ->
  dempty (s_data s') = false -> skipped (w_now w) s' = false -> save_data (s_data s') = Some blob ->
  age_exp (w_now w) (cookie_age (w_now w) s' (newsess_of s')) = Some ex ->
  let w1 := fst (request fresh c w b script1) in
  (forall id, valid_sid (j_sess (get_jar w1 b)) = Some id -> Forall (foreign_step b id) l) ->
  let w2 := fst (run fresh c w1 l) in
  (w_now w2 <= session_age (w_now w) s' (newsess_of s'))%Z -> exp_live (w_now w2) ex = true ->
  o_loaded (snd (request fresh c w2 b script2)) = Some (true, s_data s', s_tval s', s_how s', s_onsrv s').
Proof.
  intros c w b script1 s' blob ex l script2 Hss0 Hfo Hsi Hjn Huniq Hrs Hops Hd Hk Hb Hex w1 Hfor w2 Hn Hlive.
  assert (c_loc c <> 1) as Hl1 by (destruct Hss0 as [H|[H _]]; rewrite H; discriminate).
  set (w0 := set_jar w b (jar_expire (w_now w) (get_jar w b))) in *.
  unfold req_state in Hrs. fold w0 in Hrs.
  destruct (si_load c w0 b) as [[wl l1] r] eqn:Hld. destruct r as [[ld s]|e]; [|discriminate Hrs].
  injection Hrs as Hs'.
  assert (consistent c s') as Hc.
  { rewrite <- Hs'. apply consistent_ops; [exact Hops|]. eapply si_load_consistent. exact Hld. }
  destruct Hc as (Hsort & Ht & Hh & sv & Hsv & Hodd).
  (* the world after load *)
  assert (wl = fst (fst (backend_load c w0 b))) as Hwl.
  { pose proof (si_load_world c w0 b) as E. rewrite Hld in E. cbn [fst] in E. exact E. }
  pose proof (backend_load_jf c b w0) as [Jo Jn]. rewrite <- Hwl in Jo, Jn.
  pose proof (backend_load_sm fresh b c w0) as Sm. rewrite <- Hwl in Sm.
  pose proof (backend_load_next c w0 b) as Tx. rewrite <- Hwl in Tx.
  assert (w_now wl = w_now w) as Tn' by (rewrite Jn; reflexivity).
  assert (w_next wl = w_next w) as Tx' by (rewrite Tx; reflexivity).
  assert (forall id, drawn fresh w0 wl id -> False) as Nodraw.
  { intros id (k & K1 & K2 & _). rewrite Tx in K2. lia. }
  assert (forall id, valid_sid (j_sess (get_jar wl b)) = Some id -> valid_sid (j_sess (get_jar w b)) = Some id) as Own.
  { intros id H. destruct (sm_own _ _ _ _ Sm id H) as [H1|H1]; [|destruct (Nodraw id H1)].
    unfold w0 in H1. rewrite get_set_jar_same in H1. eapply valid_sid_expire. exact H1. }
  (* the save *)
  assert (skipped (w_now wl) s' = false) as Hk' by (rewrite Tn'; exact Hk).
  pose proof (si_save_path fresh c wl b s' blob Hd Hk' Hb) as Hsave.
  rewrite (backend_save_server_side c wl b s' blob _ _ Hss0) in Hsave.
  destruct (sid_save fresh wl b blob (session_age (w_now wl) s' (newsess_of s')) (newsess_of s')) as [[ws ls] rs] eqn:Hss.
  assert (sid_ok (fresh (w_next wl)) = true) as Hfo' by (rewrite Tx'; exact Hfo).
  destruct (sid_save_stores_local fresh fresh_inj _ _ _ _ _ _ _ _ Hfo' Hss) as (id & -> & Hok & Hst & Hjs & Hns & Hdisj).
  cbv zeta in Hsave.
  assert (request fresh c w b script1 =
          (fst (fst (si_save fresh c wl b s')), mkobs (Some (ld, s_data s, s_tval s, s_how s, s_onsrv s)) None (l1 ++ ls))) as Hreq.
  { unfold request. fold w0. rewrite Hld, Hs', Hsave. reflexivity. }
  assert (w1 = fst (fst (si_save fresh c wl b s'))) as Hw1 by (unfold w1; rewrite Hreq; reflexivity).
  rewrite Hsave in Hw1. cbn [fst] in Hw1.
  rewrite Tn' in *.
  assert (st_find id (w_store w1) = Some (session_age (w_now w) s' (newsess_of s'), blob)) as R1 by (rewrite Hw1; exact Hst).
  assert (j_sess (get_jar w1 b) = Some (CRaw (73 :: id), ex)) as R2.
  { rewrite Hw1. unfold get_jar at 1. cbn [w_jars]. rewrite nth_set_nth_same. cbn [j_sess]. unfold jar_set_sess. rewrite Hex. reflexivity. }
  assert (forall b', b' <> b -> get_jar w1 b' = get_jar w b') as R3.
  { intros b' Hb'. pose proof (request_jf fresh c b w script1) as [A _]. fold w1 in A. apply A. exact Hb'. }
  assert (issued fresh w1 id) as R5.
  { destruct Hdisj as [[E1 E2]|[E1 [Enew E2]]].
    - exists (w_next wl). split; [rewrite Hw1; cbn [w_next]; rewrite E2; lia|exact E1].
    - assert (dempty (s_copy s) = false) as Hcopy.
      { unfold newsess_of in Enew. apply orb_false_iff in Enew. destruct Enew as [En _].
        rewrite Hd in En. cbn [negb] in En. rewrite andb_true_r in En. rewrite <- Hs', apply_ops_copy in En. exact En. }
      pose proof (si_load_kept c w0 b wl l1 ld s id Hld Hcopy E1) as Hin.
      destruct (sm_store _ _ _ _ Sm id Hin) as [Hin0|Hdr]; [|destruct (Nodraw id Hdr)].
      destruct (Hsi id Hin0) as (k & Hk1 & Hk2). exists k. split; [|exact Hk2].
      rewrite Hw1. cbn [w_next]. rewrite E2, Tx'. exact Hk1. }
  assert (forall b', b' <> b -> valid_sid (j_sess (get_jar w1 b')) <> Some id) as R6.
  { intros b' Hb' E. rewrite R3 in E by exact Hb'.
    destruct Hdisj as [[E1 E2]|[E1 [_ E2]]].
    - apply (Hjn b' id E (w_next wl)); [lia|symmetry; exact E1].
    - exact (Huniq b' id Hb' E (Own id E1)). }
  assert (holds fresh b id (session_age (w_now w) s' (newsess_of s'), blob)
                (mkjar (Some (CRaw (73 :: id), ex)) (j_exp (get_jar w1 b))) w1) as Hh1.
  { unfold holds. split; [exact R1|]. split.
    - destruct (get_jar w1 b) as [js je] eqn:Ej. cbn [j_sess j_exp] in *. rewrite R2. reflexivity.
    - split; [exact R5|exact R6]. }
  assert (valid_sid (j_sess (get_jar w1 b)) = Some id) as Hvid by (rewrite R2; apply valid_sid_intro; exact Hok).
  pose proof (carry_over_history fresh fresh_inj c b id _ blob ex _ l w1 (s_data s') (s_tval s') (s_how s') sv script2
                Hl1 Hh1 Hok (Hfor id Hvid) (codec_roundtrip_lemma _ _ Hsort Hb) Ht Hh Hsv) as Hfin.
  cbv zeta in Hfin. fold w2 in Hfin. rewrite (Hfin Hn Hlive), Hodd. reflexivity.
Qed.

Lemma si_load_cenc_hit : forall c w b dl blob e m t h sv,
  c_loc c <> 0 -> j_sess (get_jar w b) = Some (CEnc dl blob, e) -> (w_now w <= dl)%Z ->
  load_data blob = LOk m ->
  special k_t m (c_timeout c) = Some t -> special k_h m (c_how c) = Some h -> special k_s m 0%Z = Some sv ->
  si_load c w b = (w, [], inl (true, mksess m m t h dl (Z.odd sv) false)).
Proof.
  intros c w b dl blob e m t h sv Hl Hj Hn Hm Ht Hh Hs.
  assert (backend_load c w b = cookies_load w b) as Hb.
  { unfold backend_load. assert ((c_loc c =? 0) = false) as -> by (apply N.eqb_neq; exact Hl).
    destruct (c_loc c =? 1); [reflexivity|]. rewrite Hj. reflexivity. }
  unfold si_load. rewrite Hb. unfold cookies_load. rewrite Hj.
  assert ((dl <? w_now w)%Z = false) as -> by (apply Z.ltb_ge; exact Hn).
  rewrite Hm, Ht, Hh, Hs. reflexivity.
Qed.

Lemma si_save_client_side : forall c w b s blob,
  client_side c s blob -> dempty (s_data s) = false -> ssorted (s_data s) -> skipped (w_now w) s = false ->
  save_data (s_data s) = Some blob ->
  exists w1 l1,
    si_save fresh c w b s = (w1, l1, None) /\ load_data blob = LOk (s_data s) /\
    (forall ex, age_exp (w_now w) (cookie_age (w_now w) s (newsess_of s)) = Some ex ->
                j_sess (get_jar w1 b) = Some (CEnc (session_age (w_now w) s (newsess_of s)) blob, ex)).
Proof.
  intros c w b s blob Hcs Hd Hs Hk Hb.
  rewrite (si_save_path fresh c w b s blob Hd Hk Hb).
  assert (exists w' l', backend_save fresh c w b blob (session_age (w_now w) s (newsess_of s)) (newsess_of s) (s_onsrv s)
                        = (w', l', Some (CEnc (session_age (w_now w) s (newsess_of s)) blob))) as (w' & l' & ->).
  { unfold backend_save. destruct Hcs as [[H1 H2]|[H1 H2]].
    - rewrite H1, H2. cbn [N.eqb Pos.eqb]. unfold cookies_save. eexists _, _. reflexivity.
    - rewrite H1, H2. cbn [N.eqb Pos.eqb]. unfold cookies_save.
      destruct (cookie_first (j_sess (get_jar w b))) as [x|]; [|eexists _, _; reflexivity].
      destruct (N.eq_dec x 73) as [->|Hn].
      + destruct (sid_clear w b) as [wc lc]. eexists _, _. reflexivity.
      + destruct x as [|p]; [eexists _, _; reflexivity|].
        do 7 (destruct p as [p|p|]; try (eexists _, _; reflexivity)). contradiction Hn. reflexivity. }
  eexists _, _. split; [reflexivity|]. split; [apply codec_roundtrip_lemma; assumption|].
  intros ex Hex. unfold get_jar at 1. cbn [w_jars]. rewrite nth_set_nth_same. cbn [j_sess].
  unfold jar_set_sess. rewrite Hex. reflexivity.
Qed.

Theorem end_to_end_stored_in_cookie : forall c w b script1 s' blob ex l script2,
  client_side c s' blob ->
  req_state c w b script1 = Some s' ->
  forallb op_keeps script1 = true ->
  dempty (s_data s') = false -> skipped (w_now w) s' = false -> save_data (s_data s') = Some blob ->
  age_exp (w_now w) (cookie_age (w_now w) s' (newsess_of s')) = Some ex ->
  let w1 := fst (request fresh c w b script1) in
  Forall (not_on b) l ->
  let w2 := fst (run fresh c w1 l) in
  (w_now w2 <= session_age (w_now w) s' (newsess_of s'))%Z -> exp_live (w_now w2) ex = true ->
  o_loaded (snd (request fresh c w2 b script2)) = Some (true, s_data s', s_tval s', s_how s', s_onsrv s').
Proof.
  intros c w b script1 s' blob ex l script2 Hcs Hrs Hops Hd Hk Hb Hex w1 Hfor w2 Hn Hlive.
  assert (c_loc c <> 0) as Hl0 by (destruct Hcs as [[H _]|[H _]]; rewrite H; discriminate).
  set (w0 := set_jar w b (jar_expire (w_now w) (get_jar w b))) in *.
  unfold req_state in Hrs. fold w0 in Hrs.
  destruct (si_load c w0 b) as [[wl l1] r] eqn:Hld. destruct r as [[ld s]|e]; [|discriminate Hrs].
  injection Hrs as Hs'.
  assert (consistent c s') as Hc.
  { rewrite <- Hs'. apply consistent_ops; [exact Hops|]. eapply si_load_consistent. exact Hld. }
  destruct Hc as (Hsort & Ht & Hh & sv & Hsv & Hodd).
  assert (w_now wl = w_now w) as Tn.
  { pose proof (backend_load_jf c b w0) as [_ A]. rewrite <- si_load_world, Hld in A. cbn [fst] in A. exact A. }
  assert (skipped (w_now wl) s' = false) as Hk' by (rewrite Tn; exact Hk).
  destruct (si_save_client_side c wl b s' blob Hcs Hd Hsort Hk' Hb) as (ws & ls & Hsave & Hrt & Hck).
  rewrite Tn in Hck. specialize (Hck ex Hex).
  assert (w1 = ws) as Hw1.
  { unfold w1, request. fold w0. rewrite Hld, Hs', Hsave. reflexivity. }
  assert (get_jar w2 b = get_jar w1 b) as Hj2 by (apply run_keeps_jar; exact Hfor).
  set (w3 := set_jar w2 b (jar_expire (w_now w2) (get_jar w2 b))).
  assert (j_sess (get_jar w3 b) = Some (CEnc (session_age (w_now w) s' (newsess_of s')) blob, ex)) as Hj3.
  { unfold w3. rewrite get_set_jar_same, Hj2, Hw1. unfold jar_expire. cbn [j_sess]. rewrite Hck, Hlive. reflexivity. }
  assert (si_load c w3 b = (w3, [], inl (true, mksess (s_data s') (s_data s') (s_tval s') (s_how s')
                                           (session_age (w_now w) s' (newsess_of s')) (Z.odd sv) false))) as Hld3.
  { eapply si_load_cenc_hit; eauto. }
  rewrite (request_loaded fresh c w2 b script2 w3 _ _ eq_refl Hld3). cbn [fst snd s_data s_tval s_how s_onsrv].
  rewrite Hodd. reflexivity.
Qed.

End Fresh.
