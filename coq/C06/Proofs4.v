(* C06 proofs, part 4: requests of other browsers do not touch a session (frame), histories *)
From CppcmsV Require Import Base.Tac C06.Defs C06.Proofs C06.Proofs2 C06.Proofs3.
Local Open Scope N_scope.

(* what a step of browser b' may change, seen from a session stored under id *)
Definition fr (b' : nat) (id : bytes) (w w' : world) : Prop :=
  st_find id (w_store w') = st_find id (w_store w) /\
  (forall b'', b'' <> b' -> get_jar w' b'' = get_jar w b'') /\
  valid_sid (j_sess (get_jar w' b')) <> Some id /\
  w_next w <= w_next w' /\ w_now w' = w_now w.

Lemma fr_refl : forall b' id w, valid_sid (j_sess (get_jar w b')) <> Some id -> fr b' id w w.
Proof. intros. unfold fr. repeat split; auto. lia. Qed.

Lemma fr_trans : forall b' id w1 w2 w3, fr b' id w1 w2 -> fr b' id w2 w3 -> fr b' id w1 w3.
Proof.
  intros b' id w1 w2 w3 (A1 & A2 & A3 & A4 & A5) (B1 & B2 & B3 & B4 & B5). unfold fr.
  split; [congruence|]. split; [intros b'' Hb; rewrite B2, A2 by exact Hb; reflexivity|].
  split; [exact B3|]. split; [lia|congruence].
Qed.

Lemma valid_sid_none_cleared : forall j, valid_sid (j_sess (jar_clear_sess j)) = None.
Proof. reflexivity. Qed.

Lemma fr_set_jar : forall b' id w j, valid_sid (j_sess j) <> Some id -> fr b' id w (set_jar w b' j).
Proof.
  intros. unfold fr. cbn [w_store w_next w_now set_jar]. split; [reflexivity|].
  split; [intros b'' Hb; apply get_set_jar_other; congruence|].
  rewrite get_set_jar_same. split; [assumption|]. split; [lia|reflexivity].
Qed.

Lemma fr_remove : forall b' id id2 w, id2 <> id -> valid_sid (j_sess (get_jar w b')) <> Some id ->
  fr b' id w (set_store w (st_remove id2 (w_store w))).
Proof.
  intros. unfold fr. cbn [w_store w_next w_now set_store]. rewrite get_jar_set_store.
  split; [apply st_find_remove_other; congruence|]. repeat split; auto. lia.
Qed.

Ltac useP P1 Hv := first [exact P1 | rewrite Hv; exact P1 | cbn [fst]; rewrite Hv; exact P1 | cbn [fst w_jars get_jar]; rewrite Hv; exact P1 | unfold get_jar in *; cbn [w_jars fst] in *; rewrite Hv; exact P1].

Section Fresh.
Variable fresh : N -> bytes.

Section Frame.
Variables (b' : nat) (id : bytes).

Definition pre (w : world) : Prop :=
  valid_sid (j_sess (get_jar w b')) <> Some id /\ (forall n, w_next w <= n -> fresh n <> id).

Lemma pre_fr : forall w w', pre w -> fr b' id w w' -> pre w'.
Proof.
  intros w w' [P1 P2] (A1 & A2 & A3 & A4 & A5). split; [exact A3|]. intros n Hn. apply P2. lia.
Qed.

Lemma sid_load_fr : forall w, pre w -> fr b' id w (fst (fst (sid_load w b'))).
Proof.
  intros w [P1 P2]. unfold sid_load.
  destruct (valid_sid (j_sess (get_jar w b'))) as [id2|] eqn:Hv; [|cbn [fst]; apply fr_refl; useP P1 Hv].
  destruct (st_load (w_now w) id2 (w_store w)) as [[dl d]|]; [|cbn [fst]; apply fr_refl; useP P1 Hv].
  destruct (dl <? w_now w)%Z; cbn [fst]; [|apply fr_refl; useP P1 Hv].
  apply fr_remove; [congruence|useP P1 Hv].
Qed.

Lemma cookies_load_fr : forall w, pre w -> fr b' id w (fst (fst (cookies_load w b'))).
Proof.
  intros w [P1 P2]. unfold cookies_load.
  destruct (j_sess (get_jar w b')) as [[[s|dl d] e]|] eqn:Hj; cbn [fst]; try (apply fr_refl; useP P1 Hj).
  - destruct s; cbn [fst]; [apply fr_refl; useP P1 Hj|]. apply fr_set_jar. cbn. discriminate.
  - destruct (dl <? w_now w)%Z; cbn [fst]; [|apply fr_refl; useP P1 Hj]. apply fr_set_jar. cbn. discriminate.
Qed.

Lemma backend_load_fr : forall c w, pre w -> fr b' id w (fst (fst (backend_load c w b'))).
Proof.
  intros c w P. unfold backend_load.
  destruct (c_loc c =? 0); [apply sid_load_fr; exact P|].
  destruct (c_loc c =? 1); [apply cookies_load_fr; exact P|].
  destruct (cookie_first (j_sess (get_jar w b'))) as [x|]; [|apply sid_load_fr; exact P].
  destruct (N.eq_dec x 67) as [->|Hn]; [apply cookies_load_fr; exact P|].
  destruct x as [|p]; [apply sid_load_fr; exact P|].
  do 7 (destruct p as [p|p|]; try (apply sid_load_fr; exact P)). contradiction Hn. reflexivity.
Qed.

Lemma si_load_fr : forall c w, pre w -> fr b' id w (fst (fst (si_load c w b'))).
Proof. intros. rewrite si_load_world. apply backend_load_fr. assumption. Qed.

Lemma sid_clear_fr : forall w, pre w -> fr b' id w (fst (sid_clear w b')).
Proof.
  intros w [P1 P2]. unfold sid_clear.
  destruct (valid_sid (j_sess (get_jar w b'))) as [id2|] eqn:Hv; cbn [fst].
  - eapply fr_trans; [apply (fr_remove b' id id2 w); [congruence|useP P1 Hv]|].
    apply fr_set_jar. cbn. discriminate.
  - apply fr_set_jar. cbn. discriminate.
Qed.

Lemma backend_clear_fr : forall c w, pre w -> fr b' id w (fst (backend_clear c w b')).
Proof.
  intros c w P. unfold backend_clear.
  assert (fr b' id w (fst (cookies_clear w b'))) as Hc by (unfold cookies_clear; cbn [fst]; apply fr_set_jar; cbn; discriminate).
  destruct (c_loc c =? 0); [apply sid_clear_fr; exact P|].
  destruct (c_loc c =? 1); [exact Hc|].
  destruct (cookie_first (j_sess (get_jar w b'))) as [x|]; [|apply sid_clear_fr; exact P].
  destruct (N.eq_dec x 67) as [->|Hn]; [exact Hc|].
  destruct x as [|p]; [apply sid_clear_fr; exact P|].
  do 7 (destruct p as [p|p|]; try (apply sid_clear_fr; exact P)). contradiction Hn. reflexivity.
Qed.

(* the cookie handed back by a back-end save never names id *)
Definition ck_other (r : option cookie) : Prop :=
  match r with Some (CRaw (73 :: i)) => i <> id | _ => True end.

Lemma fr_store : forall w st nx h,
  st_find id st = st_find id (w_store w) -> w_next w <= nx -> valid_sid (j_sess (get_jar w b')) <> Some id ->
  fr b' id w (mkworld (w_now w) (w_jars w) st nx h).
Proof.
  intros w st nx h H1 H2 H3. unfold fr. cbn [w_store w_next w_now].
  split; [exact H1|]. split; [intros; reflexivity|]. split; [exact H3|]. split; [exact H2|reflexivity].
Qed.

Lemma sid_save_fr : forall w blob dl newd, pre w ->
  fr b' id w (fst (fst (sid_save fresh w b' blob dl newd))) /\ ck_other (snd (sid_save fresh w b' blob dl newd)).
Proof.
  intros w blob dl newd [P1 P2]. unfold sid_save.
  assert (fresh (w_next w) <> id) as Hf by (apply P2; lia).
  pose proof P1 as P1'.
  destruct (valid_sid (j_sess (get_jar w b'))) as [id2|] eqn:Hv.
  - assert (id2 <> id) as Hne by congruence.
    destruct newd; cbn [fst snd ck_other]; (split; [|assumption]).
    + apply fr_store; [|lia|rewrite Hv; exact P1].
      rewrite st_find_save_other by congruence. apply st_find_remove_other. congruence.
    + unfold set_store. apply fr_store; [|lia|rewrite Hv; exact P1].
      apply st_find_save_other. congruence.
  - cbn [fst snd ck_other]. split; [|assumption].
    apply fr_store; [|lia|rewrite Hv; exact P1]. apply st_find_save_other. congruence.
Qed.

Lemma backend_save_fr : forall c w blob dl newd onsrv, pre w ->
  fr b' id w (fst (fst (backend_save fresh c w b' blob dl newd onsrv))) /\
  ck_other (snd (backend_save fresh c w b' blob dl newd onsrv)).
Proof.
  intros c w blob dl newd onsrv P. unfold backend_save.
  assert (forall o, fr b' id w (fst (fst (cookies_save w blob dl o))) /\ ck_other (snd (cookies_save w blob dl o))) as Hc.
  { intros o. unfold cookies_save. destruct o; cbn [fst snd ck_other]; (split; [apply fr_refl; apply P|exact I]). }
  destruct (c_loc c =? 0); [apply sid_save_fr; exact P|].
  destruct (c_loc c =? 1); [apply Hc|].
  destruct (onsrv || (c_limit c <? blen blob)); [apply sid_save_fr; exact P|].
  destruct (cookie_first (j_sess (get_jar w b'))) as [x|]; [|apply Hc].
  destruct (N.eq_dec x 73) as [->|Hn].
  - pose proof (sid_clear_fr w P) as Hs. destruct (sid_clear w b') as [w1 l1]. cbn [fst] in Hs.
    unfold cookies_save. cbn [fst snd ck_other]. split; [exact Hs|exact I].
  - destruct x as [|p]; [apply Hc|].
    do 7 (destruct p as [p|p|]; try apply Hc). contradiction Hn. reflexivity.
Qed.

Lemma fr_final_jar : forall w w1 j' hist, fr b' id w w1 -> valid_sid (j_sess j') <> Some id ->
  fr b' id w (mkworld (w_now w1) (set_nth b' j' (w_jars w1)) (w_store w1) (w_next w1) hist).
Proof.
  intros w w1 j' hist (A1 & A2 & A3 & A4 & A5) Hj. unfold fr. cbn [w_store w_next w_now].
  split; [exact A1|]. split.
  { intros b'' Hb. unfold get_jar at 1. cbn [w_jars]. rewrite nth_set_nth_other by congruence. apply A2. exact Hb. }
  split; [unfold get_jar; cbn [w_jars]; rewrite nth_set_nth_same; exact Hj|]. split; assumption.
Qed.

Lemma si_save_fr : forall c w s, pre w -> fr b' id w (fst (fst (si_save fresh c w b' s))).
Proof.
  intros c w s P. unfold si_save.
  destruct (dempty (s_data s)).
  - destruct (cookie_nonempty (j_sess (get_jar w b'))).
    + pose proof (backend_clear_fr c w P) as H. destruct (backend_clear c w b') as [w1 l1]. cbn [fst] in *.
      eapply fr_trans; [exact H|]. apply fr_set_jar. cbn [j_sess]. apply H.
    + cbn [fst]. apply fr_set_jar. cbn [j_sess]. apply P.
  - match goal with |- context [if ?c then _ else _] => destruct c end; [apply fr_refl; apply P|].
    match goal with |- context [if ?c then _ else _] => destruct c end; [apply fr_refl; apply P|].
    destruct (save_data (s_data s)) as [blob|]; [|apply fr_refl; apply P].
    match goal with |- context [backend_save fresh c w b' blob ?dl ?n ?o] =>
      pose proof (backend_save_fr c w blob dl n o P) as [H1 H2];
      destruct (backend_save fresh c w b' blob dl n o) as [[w1 l1] r] end.
    cbn [fst snd] in *. destruct r as [ck|]; [|exact H1].
    cbn [fst]. apply fr_final_jar; [exact H1|]. cbn [j_sess].
    unfold jar_set_sess. destruct (age_exp (w_now w)); cbn [j_sess]; [|discriminate].
    destruct ck as [s0|dl0 d0]; [|cbn; discriminate].
    intros E. destruct (valid_sid_shape _ _ E) as [e' E']. injection E' as E1 E2. subst s0. cbn in H2. apply H2. reflexivity.
Qed.

(* a whole request of browser b' *)
Lemma request_fr : forall c w script, pre w -> fr b' id w (fst (request fresh c w b' script)).
Proof.
  intros c w script P. unfold request.
  set (w0 := set_jar w b' (jar_expire (w_now w) (get_jar w b'))).
  assert (fr b' id w w0) as F0.
  { apply fr_set_jar. unfold jar_expire. cbn [j_sess]. destruct (j_sess (get_jar w b')) as [[ck e]|] eqn:Hj; [|discriminate].
    destruct (exp_live (w_now w) e); [|discriminate]. destruct P as [P1 _]. rewrite Hj in P1. exact P1. }
  assert (pre w0) as P0 by (eapply pre_fr; eassumption).
  pose proof (si_load_fr c w0 P0) as F1. destruct (si_load c w0 b') as [[w1 l1] r]. cbn [fst] in F1.
  assert (fr b' id w w1) as F01 by (eapply fr_trans; eassumption).
  destruct r as [[ld s]|e]; [|exact F01].
  assert (pre w1) as P1 by (eapply pre_fr; eassumption).
  pose proof (si_save_fr c w1 (apply_ops c s script) P1) as F2.
  destruct (si_save fresh c w1 b' (apply_ops c s script)) as [[w2 l2] e]. cbn [fst] in *.
  eapply fr_trans; eassumption.
Qed.

End Frame.

(* ---------- the session of browser b stored under id, across steps of other browsers and of the clock ---------- *)
Hypothesis fresh_inj : forall m n, fresh m = fresh n -> m = n.

(* steps that do not involve browser b, and attacker strings that are not the session cookie of b *)
Definition foreign_step (b : nat) (id : bytes) (st : step) : Prop :=
  match st with
  | StT dt => (0 <= dt)%Z
  | StR b' _ => b' <> b
  | StAraw b' s => b' <> b /\ s <> 73 :: id
  | StX b' _ _ => b' <> b
  | StAhist _ _ _ => False
  | StP _ _ _ _ => False
  end.

Definition holds (b : nat) (id : bytes) (rec : Z * bytes) (j : jar) (w : world) : Prop :=
  st_find id (w_store w) = Some rec /\ get_jar w b = j /\
  (exists k, k < w_next w /\ id = fresh k) /\
  (forall b', b' <> b -> valid_sid (j_sess (get_jar w b')) <> Some id).

Lemma step_holds : forall c b id rec j st w,
  foreign_step b id st -> holds b id rec j w -> holds b id rec j (fst (do_step fresh c w st)).
Proof.
  intros c b id rec j st w Hf (H1 & H2 & (k & Hk & Hid) & H4).
  assert (forall n, w_next w <= n -> fresh n <> id) as Hfr.
  { intros n Hn E. subst id. apply fresh_inj in E. lia. }
  destruct st; cbn [foreign_step] in Hf; cbn [do_step].
  - cbn [fst]. unfold holds. cbn [w_store w_next]. repeat split; auto. exists k. split; [exact Hk|exact Hid].
  - rename b0 into b'.
    assert (pre b' id w) as P by (split; [apply H4; exact Hf|exact Hfr]).
    pose proof (request_fr b' id c w script P) as (A1 & A2 & A3 & A4 & A5).
    destruct (request fresh c w b' script) as [w' ob]. cbn [fst] in *.
    unfold holds. split; [congruence|]. split; [rewrite A2 by congruence; exact H2|].
    split; [exists k; split; [lia|exact Hid]|].
    intros b'' Hb. destruct (Nat.eq_dec b'' b') as [->|Hne]; [exact A3|]. rewrite A2 by exact Hne. apply H4. exact Hb.
  - rename b0 into b'. destruct Hf as [Hb Hs]. cbn [fst]. unfold attack_set.
    assert (forall jj, valid_sid (j_sess jj) <> Some id -> holds b id rec j (set_jar w b' jj)) as Hset.
    { intros jj Hjj. unfold holds. cbn [w_store w_next set_jar]. split; [exact H1|].
      split; [rewrite get_set_jar_other by exact Hb; exact H2|]. split; [exists k; split; [exact Hk|exact Hid]|].
      intros b'' Hb''. destruct (Nat.eq_dec b'' b') as [->|Hne]; [rewrite get_set_jar_same; exact Hjj|].
      rewrite get_set_jar_other by congruence. apply H4. exact Hb''. }
    destruct s as [|x s]; apply Hset; cbn [j_sess]; [discriminate|].
    intros E. destruct (valid_sid_shape _ _ E) as [e' E']. injection E' as E1 E2 E3. apply Hs. congruence.
  - contradiction.
  - rename b0 into b'. cbn [fst]. unfold holds. cbn [w_store w_next set_jar]. split; [exact H1|].
    split; [rewrite get_set_jar_other by exact Hf; exact H2|]. split; [exists k; split; [exact Hk|exact Hid]|].
    intros b'' Hb''. destruct (Nat.eq_dec b'' b') as [->|Hne].
    + rewrite get_set_jar_same. cbn [j_sess]. apply H4. exact Hb''.
    + rewrite get_set_jar_other by congruence. apply H4. exact Hb''.
  - contradiction.
Qed.

Lemma run_holds : forall c b id rec j l w,
  Forall (foreign_step b id) l -> holds b id rec j w -> holds b id rec j (fst (run fresh c w l)).
Proof.
  intros c b id rec j l. induction l as [|st r IH]; intros w Hf Hh; cbn [run]; [exact Hh|].
  inversion Hf as [|? ? Hs Hr]; subst.
  pose proof (step_holds c b id rec j st w Hs Hh) as H1.
  destruct (do_step fresh c w st) as [w1 o]. cbn [fst] in H1.
  specialize (IH w1 Hr H1). destruct (run fresh c w1 r) as [w2 os]. exact IH.
Qed.

End Fresh.
