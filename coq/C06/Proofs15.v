(* C06 proofs, part 15: the session carries over across the browser's own unchanged requests too.  Between the request that
   left the session and the request that reads it, the history may contain - besides everything other browsers, the clock and
   attackers do (foreign_step) - any number of requests of browser b itself whose save takes one of the early returns. *)
From CppcmsV Require Import Base.Tac C06.Defs C06.Proofs C06.ProofsNum C06.ProofsMap C06.Proofs2 C06.Proofs3 C06.Proofs4 C06.Proofs5 C06.Proofs6 C06.Proofs7 C06.Proofs13.
Local Open Scope N_scope.

Section Fresh.
Variable fresh : N -> bytes.
Hypothesis fresh_inj : forall m n, fresh m = fresh n -> m = n.

Definition mixed_step (c : cfg) (b : nat) (id : bytes) (w : world) (st : step) : Prop :=
  foreign_step b id st \/
  exists script s', st = StR b script /\ req_state c w b script = Some s' /\ dempty (s_data s') = false /\ skipped (w_now w) s' = true.

Fixpoint mixed_run (c : cfg) (b : nat) (id : bytes) (w : world) (l : list step) : Prop :=
  match l with
  | [] => True
  | st :: r => mixed_step c b id w st /\ mixed_run c b id (fst (do_step fresh c w st)) r
  end.

Lemma mixed_step_quiet : forall c b id w st, mixed_step c b id w st -> quiet_step c b w st.
Proof.
  intros c b id w st [H|(script & s' & -> & H1 & H2 & H3)].
  - destruct st; cbn [foreign_step quiet_step not_on] in *; try exact H; try (left; exact H); try (destruct H); try assumption.
  - cbn [quiet_step]. right. exists s'. repeat split; assumption.
Qed.

Lemma mixed_run_quiet : forall c b id l w, mixed_run c b id w l -> quiet_run fresh c b w l.
Proof.
  intros c b id l. induction l as [|st r IH]; intros w H; cbn [mixed_run quiet_run] in *; [exact I|].
  destruct H as [H1 H2]. split; [eapply mixed_step_quiet; exact H1|apply IH; exact H2].
Qed.

Lemma mixed_holds : forall c b id rec ex l w j,
  mixed_run c b id w l -> holds fresh b id rec j w -> j_sess j = Some (CRaw (73 :: id), ex) ->
  exp_live (w_now (fst (run fresh c w l))) ex = true ->
  exists j', holds fresh b id rec j' (fst (run fresh c w l)) /\ j_sess j' = Some (CRaw (73 :: id), ex).
Proof.
  intros c b id rec ex l. induction l as [|st r IH]; intros w j Hm Hh Hj Hl; cbn [run] in *.
  - exists j. split; assumption.
  - destruct Hm as [Hs Hr].
    pose proof (quiet_step_now fresh c b w st (mixed_step_quiet _ _ _ _ _ Hs)) as Hn1.
    pose proof (quiet_run_now fresh c b r _ (mixed_run_quiet _ _ _ _ _ Hr)) as Hn2.
    destruct Hs as [Hf|(script & s' & -> & H1 & H2 & H3)].
    + pose proof (step_holds fresh fresh_inj c b id rec j st w Hf Hh) as Hh1.
      destruct (do_step fresh c w st) as [w1 o]. cbn [fst] in *.
      specialize (IH w1 j Hr Hh1 Hj). destruct (run fresh c w1 r) as [w2 os]. cbn [fst] in *. apply IH. exact Hl.
    + cbn [do_step] in *.
      pose proof (request_skipped_world fresh c w b script s' H1 H2 H3) as [E _].
      destruct (request fresh c w b script) as [w1 o]. cbn [fst] in *. subst w1.
      set (w1 := set_jar w b (jar_expire (w_now w) (get_jar w b))) in *.
      destruct Hh as (A1 & A2 & A3 & A4).
      assert (exp_live (w_now w) ex = true) as Hlw.
      { destruct (run fresh c w1 r) as [w2 os]. cbn [fst] in *. apply (exp_live_mono _ (w_now w2)); [lia|exact Hl]. }
      assert (holds fresh b id rec (jar_expire (w_now w) j) w1) as Hh1.
      { unfold holds, w1. cbn [set_jar w_store w_next]. split; [exact A1|]. split; [rewrite get_set_jar_same, A2; reflexivity|].
        split; [exact A3|]. intros b' Hb'. rewrite get_set_jar_other by congruence. apply A4. exact Hb'. }
      assert (j_sess (jar_expire (w_now w) j) = Some (CRaw (73 :: id), ex)) as Hj1.
      { unfold jar_expire. cbn [j_sess]. rewrite Hj, Hlw. reflexivity. }
      specialize (IH w1 _ Hr Hh1 Hj1). destruct (run fresh c w1 r) as [w2 os]. cbn [fst] in *. apply IH. exact Hl.
Qed.

Theorem carry_over_mixed : forall c b id dl blob ex xj l w m t h sv script,
  c_loc c <> 1 ->
  holds fresh b id (dl, blob) (mkjar (Some (CRaw (73 :: id), ex)) xj) w ->
  sid_ok id = true ->
  mixed_run c b id w l ->
  load_data blob = LOk m ->
  special k_t m (c_timeout c) = Some t -> special k_h m (c_how c) = Some h -> special k_s m 0%Z = Some sv ->
  let w2 := fst (run fresh c w l) in
  (w_now w2 <= dl)%Z -> exp_live (w_now w2) ex = true ->
  o_loaded (snd (request fresh c w2 b script)) = Some (true, m, t, h, Z.odd sv).
Proof.
  intros c b id dl blob ex xj l w m t h sv script Hl Hh Hok Hm Hld Ht Hhh Hs w2 Hn Hlive.
  destruct (mixed_holds c b id (dl, blob) ex l w _ Hm Hh eq_refl Hlive) as (j' & Hh2 & Hj2).
  fold w2 in Hh2. destruct j' as [js je]. cbn [j_sess] in Hj2. subst js.
  exact (carry_over_history fresh fresh_inj c b id dl blob ex je [] w2 m t h sv script Hl Hh2 Hok (Forall_nil _) Hld Ht Hhh Hs Hn Hlive).
Qed.

End Fresh.
