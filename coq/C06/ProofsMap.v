(* C06 proofs: lookup facts of the data map and the consistency of age / expiration / on_server with the keys _t, _h, _s *)
From CppcmsV Require Import Base.Tac C06.Defs C06.Proofs C06.ProofsNum.
Local Open Scope N_scope.

Lemma dfind_dput_same : forall k e m, dfind k (dput k e m) = Some e.
Proof.
  intros k e m. induction m as [|[k' e'] r IH]; cbn [dput dfind].
  - rewrite beqb_refl. reflexivity.
  - destruct (beqb k k') eqn:E; [cbn [dfind]; rewrite beqb_refl; reflexivity|].
    destruct (bltb k k'); cbn [dfind]; [rewrite beqb_refl; reflexivity|]. rewrite E. exact IH.
Qed.

Lemma dfind_dput_other : forall k k' e m, k <> k' -> dfind k (dput k' e m) = dfind k m.
Proof.
  intros k k' e m Hne. assert (beqb k k' = false) as Hb by (apply beqb_neq; exact Hne).
  induction m as [|[k2 e2] r IH]; cbn [dput dfind].
  - rewrite Hb. reflexivity.
  - destruct (beqb k' k2) eqn:E.
    + apply beqb_eq in E. subst k2. cbn [dfind]. rewrite Hb. reflexivity.
    + destruct (bltb k' k2); cbn [dfind]; [rewrite Hb; reflexivity|].
      destruct (beqb k k2); [reflexivity|exact IH].
Qed.

Lemma dfind_dremove_other : forall k k' m, k <> k' -> dfind k (dremove k' m) = dfind k m.
Proof.
  intros k k' m Hne. induction m as [|[k2 e2] r IH]; cbn [dremove dfind]; [reflexivity|].
  destruct (beqb k' k2) eqn:E.
  - apply beqb_eq in E. subst k2. assert (beqb k k' = false) as -> by (apply beqb_neq; exact Hne). reflexivity.
  - cbn [dfind]. destruct (beqb k k2); [reflexivity|exact IH].
Qed.

Lemma dfind_below : forall k m, key_below k m -> dfind k m = None.
Proof.
  intros k m H. induction m as [|[k' e'] r IH]; cbn [dfind]; [reflexivity|].
  inversion H as [|? ? Hx Hr]; subst. cbn [fst] in Hx. rewrite (bltb_neq _ _ Hx). apply IH. exact Hr.
Qed.

Lemma dfind_dremove_same : forall k m, ssorted m -> dfind k (dremove k m) = None.
Proof.
  intros k m. induction m as [|[k' e'] r IH]; intros Hs; cbn [dremove dfind]; [reflexivity|].
  destruct Hs as [Hb Hs]. destruct (beqb k k') eqn:E.
  - apply beqb_eq in E. subst k'. apply dfind_below. exact Hb.
  - cbn [dfind]. rewrite E. apply IH. exact Hs.
Qed.

Lemma dfind_d_set_same : forall k v m, exists e, dfind k (d_set k v m) = Some (v, e).
Proof. intros k v m. unfold d_set. destruct (dfind k m) as [[v0 e0]|]; eexists; apply dfind_dput_same. Qed.
Lemma dfind_d_set_other : forall k k' v m, k <> k' -> dfind k (d_set k' v m) = dfind k m.
Proof. intros. unfold d_set. destruct (dfind k' m) as [[v0 e0]|]; apply dfind_dput_other; assumption. Qed.
Lemma dfind_d_expose_other : forall k k' b m, k <> k' -> dfind k (d_expose k' b m) = dfind k m.
Proof. intros. unfold d_expose. destruct (dfind k' m) as [[v0 e0]|]; apply dfind_dput_other; assumption. Qed.

Lemma ssorted_d_set : forall k v m, ssorted m -> ssorted (d_set k v m).
Proof. intros. unfold d_set. destruct (dfind k m) as [[v0 e0]|]; apply ssorted_dput; assumption. Qed.
Lemma ssorted_d_expose : forall k b m, ssorted m -> ssorted (d_expose k b m).
Proof. intros. unfold d_expose. destruct (dfind k m) as [[v0 e0]|]; apply ssorted_dput; assumption. Qed.

(* ---------- consistency of a session state ---------- *)
Definition consistent (c : cfg) (s : sess) : Prop :=
  ssorted (s_data s) /\
  special k_t (s_data s) (c_timeout c) = Some (s_tval s) /\
  special k_h (s_data s) (c_how c) = Some (s_how s) /\
  exists sv, special k_s (s_data s) 0%Z = Some sv /\ Z.odd sv = s_onsrv s.

(* the application does not touch the reserved keys directly *)
Definition reserved (k : bytes) : bool := beqb k k_t || beqb k k_h || beqb k k_s.
Definition op_plain (o : scr) : bool :=
  match o with
  | Oset k _ | Oerase k | Oexpose k | Ohide k => negb (reserved k)
  | _ => true
  end.

Lemma not_reserved : forall k, reserved k = false -> k <> k_t /\ k <> k_h /\ k <> k_s.
Proof.
  intros k H. unfold reserved in H. apply orb_false_iff in H. destruct H as [H H3]. apply orb_false_iff in H. destruct H as [H1 H2].
  repeat split; apply beqb_neq; assumption.
Qed.

Lemma special_other_set : forall k k' v m d, k <> k' -> special k (d_set k' v m) d = special k m d.
Proof. intros. unfold special. rewrite dfind_d_set_other by assumption. reflexivity. Qed.
Lemma special_other_expose : forall k k' b m d, k <> k' -> special k (d_expose k' b m) d = special k m d.
Proof. intros. unfold special. rewrite dfind_d_expose_other by assumption. reflexivity. Qed.
Lemma special_other_remove : forall k k' m d, k <> k' -> special k (dremove k' m) d = special k m d.
Proof. intros. unfold special. rewrite dfind_dremove_other by assumption. reflexivity. Qed.
Lemma special_set_same : forall k z m d, special k (d_set k (show_Z z) m) d = Some z.
Proof. intros. unfold special. destruct (dfind_d_set_same k (show_Z z) m) as [e ->]. apply parse_show_Z. Qed.
Lemma special_remove_same : forall k m d, ssorted m -> special k (dremove k m) d = Some d.
Proof. intros. unfold special. rewrite dfind_dremove_same by assumption. reflexivity. Qed.

Lemma kt_kh : k_t <> k_h. Proof. discriminate. Qed.
Lemma kt_ks : k_t <> k_s. Proof. discriminate. Qed.
Lemma kh_ks : k_h <> k_s. Proof. discriminate. Qed.

Definition op_keeps (o : scr) : bool :=
  match o with
  | Oset k _ | Oerase k | Oexpose k | Ohide k => negb (reserved k)
  | _ => true
  end.

Lemma consistent_op : forall c s o, op_keeps o = true -> consistent c s -> consistent c (apply_op c s o).
Proof.
  intros c s o Hp (Hs & Ht & Hh & sv & Hsv & Hodd).
  pose proof kt_kh. pose proof kt_ks. pose proof kh_ks.
  destruct o; cbn [op_keeps] in Hp; unfold consistent; cbn [apply_op s_data s_tval s_how s_onsrv].
  - apply negb_true_iff in Hp. destruct (not_reserved _ Hp) as (N1 & N2 & N3).
    split; [apply ssorted_d_set; exact Hs|].
    rewrite !special_other_set by congruence. split; [exact Ht|]. split; [exact Hh|]. exists sv. split; assumption.
  - apply negb_true_iff in Hp. destruct (not_reserved _ Hp) as (N1 & N2 & N3).
    split; [apply ssorted_dremove; exact Hs|].
    rewrite !special_other_remove by congruence. split; [exact Ht|]. split; [exact Hh|]. exists sv. split; assumption.
  - (* clear(): no entries left, settings back to the defaults *)
    split; [exact I|]. split; [reflexivity|]. split; [reflexivity|]. exists 0%Z. split; reflexivity.
  - apply negb_true_iff in Hp. destruct (not_reserved _ Hp) as (N1 & N2 & N3).
    split; [apply ssorted_d_expose; exact Hs|].
    rewrite !special_other_expose by congruence. split; [exact Ht|]. split; [exact Hh|]. exists sv. split; assumption.
  - apply negb_true_iff in Hp. destruct (not_reserved _ Hp) as (N1 & N2 & N3).
    split; [apply ssorted_d_expose; exact Hs|].
    rewrite !special_other_expose by congruence. split; [exact Ht|]. split; [exact Hh|]. exists sv. split; assumption.
  - split; [apply ssorted_d_set; exact Hs|]. rewrite special_set_same.
    rewrite !special_other_set by congruence. split; [reflexivity|]. split; [exact Hh|]. exists sv. split; assumption.
  - split; [apply ssorted_dremove; exact Hs|]. rewrite special_remove_same by exact Hs.
    rewrite !special_other_remove by congruence. split; [reflexivity|]. split; [exact Hh|]. exists sv. split; assumption.
  - split; [apply ssorted_d_set; exact Hs|]. rewrite special_set_same.
    rewrite !special_other_set by congruence. split; [exact Ht|]. split; [reflexivity|]. exists sv. split; assumption.
  - split; [apply ssorted_dremove; exact Hs|]. rewrite special_remove_same by exact Hs.
    rewrite !special_other_remove by congruence. split; [exact Ht|]. split; [reflexivity|]. exists sv. split; assumption.
  - split; [apply ssorted_d_set; exact Hs|].
    rewrite !special_other_set by congruence. split; [exact Ht|]. split; [exact Hh|].
    destruct b.
    + exists 1%Z. split; [|reflexivity]. change [49] with (show_Z 1). apply special_set_same.
    + exists 0%Z. split; [|reflexivity]. change [48] with (show_Z 0). apply special_set_same.
  - split; [exact Hs|]. split; [exact Ht|]. split; [exact Hh|]. exists sv. split; assumption.
Qed.

Lemma consistent_ops : forall c l s, forallb op_keeps l = true -> consistent c s -> consistent c (apply_ops c s l).
Proof.
  intros c l. unfold apply_ops. induction l as [|o r IH]; intros s Hl Hc; cbn [fold_left]; [exact Hc|].
  cbn [forallb] in Hl. apply andb_true_iff in Hl. destruct Hl as [H1 H2].
  apply IH; [exact H2|]. apply consistent_op; assumption.
Qed.

Lemma consistent_sess0 : forall c, consistent c (sess0 c).
Proof. intros c. unfold consistent, sess0. cbn. repeat split. exists 0%Z. split; reflexivity. Qed.
