(* C06 proofs, part 8: update_exposed sends the cookie of every exposed entry that is new, changed or forced *)
From CppcmsV Require Import Base.Tac C06.Defs C06.Proofs C06.ProofsMap.
Local Open Scope N_scope.

Lemma In_xput_same : forall k v x, In (k, v) (xput k v x).
Proof.
  intros k v x. induction x as [|[k' v'] r IH]; cbn [xput]; [left; reflexivity|].
  destruct (beqb k k'); [left; reflexivity|]. destruct (bltb k k'); [left; reflexivity|]. right. exact IH.
Qed.

Lemma In_xput_other : forall k k' v v' x, k <> k' -> In (k, v) x -> In (k, v) (xput k' v' x).
Proof.
  intros k k' v v' x Hne. induction x as [|[k2 v2] r IH]; intros H; cbn [xput]; [destruct H|].
  destruct (beqb k' k2) eqn:E.
  - apply beqb_eq in E. subst k2. destruct H as [H|H]; [injection H as H1 H2; congruence|right; exact H].
  - destruct (bltb k' k2); [right; exact H|]. destruct H as [H|H]; [left; exact H|right; apply IH; exact H].
Qed.

Lemma In_xremove_other : forall k k' v x, k <> k' -> In (k, v) x -> In (k, v) (xremove k' x).
Proof.
  intros k k' v x Hne. induction x as [|[k2 v2] r IH]; intros H; cbn [xremove]; [destruct H|].
  destruct (beqb k' k2) eqn:E.
  - apply beqb_eq in E. subst k2. destruct H as [H|H]; [injection H as H1 H2; congruence|exact H].
  - destruct H as [H|H]; [left; exact H|right; apply IH; exact H].
Qed.

Lemma In_xset_other : forall now age k k' v v' x, k <> k' -> In (k, v) x -> In (k, v) (xset now age k' v' x).
Proof.
  intros. unfold xset. destruct v'; [apply In_xremove_other; assumption|].
  destruct (age_exp now age); [apply In_xput_other|apply In_xremove_other]; assumption.
Qed.

(* entries with other keys do not disturb the cookie of k *)
Lemma exposed_sets_keeps : forall now age force copy d k v x,
  key_below k d -> In (k, v) x -> In (k, v) (exposed_sets now age force copy d x).
Proof.
  intros now age force copy d k v. induction d as [|[k' [v' e']] r IH]; intros x Hb H; cbn [exposed_sets]; [exact H|].
  inversion Hb as [|? ? Hx Hr]; subst. cbn [fst] in Hx.
  assert (k <> k') as Hne. { intros E. subst. rewrite bltb_irrefl in Hx. discriminate Hx. }
  apply IH; [exact Hr|].
  match goal with |- context [if ?c then _ else _] => destruct c end; [apply In_xset_other; assumption|exact H].
Qed.

Definition entry_changed (copy : dmap) (k v : bytes) : bool :=
  match dfind k copy with None => true | Some (v2, e2) => negb e2 || negb (beqb v v2) end.

Lemma dfind_In_sorted : forall k e d, ssorted d -> dfind k d = Some e ->
  exists d1 d2, d = d1 ++ (k, e) :: d2 /\ key_below k d2.
Proof.
  intros k e d. induction d as [|[k' e'] r IH]; intros Hs H; cbn [dfind] in H; [discriminate H|].
  destruct Hs as [Hb Hs]. destruct (beqb k k') eqn:E.
  - apply beqb_eq in E. subst k'. injection H as <-. exists [], r. split; [reflexivity|exact Hb].
  - destruct (IH Hs H) as (d1 & d2 & -> & Hk). exists ((k', e') :: d1), d2. split; [reflexivity|exact Hk].
Qed.

Lemma exposed_sets_app : forall now age force copy d1 d2 x,
  exposed_sets now age force copy (d1 ++ d2) x = exposed_sets now age force copy d2 (exposed_sets now age force copy d1 x).
Proof.
  intros now age force copy d1. induction d1 as [|[k [v e]] r IH]; intros d2 x; cbn [app exposed_sets]; [reflexivity|apply IH].
Qed.

(* the cookie of an exposed entry with a non-empty value that is new / changed / newly exposed, or of any exposed
   entry when the update is forced, is in the jar after update_exposed, with that value and the lifetime of the
   session cookie *)
Lemma update_exposed_sends : forall now age force resend s x k v ex,
  ssorted (s_data s) -> dfind k (s_data s) = Some (v, true) -> v <> [] ->
  force = true \/ resend = true \/ entry_changed (s_copy s) k v = true ->
  age_exp now age = Some ex ->
  In (k, (v, ex)) (update_exposed now age force resend s x).
Proof.
  intros now age force resend s x k v ex Hs Hf Hv Hch Hex.
  unfold update_exposed. apply filter_In. split.
  2:{ cbn [fst]. unfold is_exposed. rewrite Hf. reflexivity. }
  destruct (dfind_In_sorted k (v, true) (s_data s) Hs Hf) as (d1 & d2 & -> & Hk).
  rewrite exposed_sets_app. cbn [exposed_sets].
  apply exposed_sets_keeps; [exact Hk|].
  assert ((true && (force || resend || match dfind k (s_copy s) with
                             | Some (v2, e2) => negb e2 || negb (beqb v v2)
                             | None => true end)) = true) as ->.
  { cbn [andb]. destruct Hch as [->|[->|Hc]]; [reflexivity|apply orb_true_iff; left; apply orb_true_r|]. unfold entry_changed in Hc. rewrite Hc. apply orb_true_r. }
  unfold xset. destruct v as [|c0 v0]; [contradiction Hv; reflexivity|]. rewrite Hex. apply In_xput_same.
Qed.
