(* C06 proofs, part 20: what a saving request of b leaves behind (the invariant `holds`, extracted from the end-to-end proof),
   and the chain r1 ; mixed history ; r2 in fixed mode for the exposed-value cookies *)
From CppcmsV Require Import Base.Tac C06.Defs C06.Proofs C06.ProofsNum C06.ProofsMap C06.Proofs2 C06.Proofs3 C06.Proofs4 C06.Proofs5 C06.Proofs6 C06.Proofs7 C06.Proofs8 C06.Proofs10 C06.Proofs9 C06.Proofs11 C06.Proofs12 C06.Proofs13 C06.Proofs15 C06.Proofs18 C06.Proofs19.
Local Open Scope N_scope.

Section Fresh.
Variable fresh : N -> bytes.
Hypothesis fresh_inj : forall m n, fresh m = fresh n -> m = n.

Lemma holds_after_request : forall c w b script1 s' blob ex,
  server_side c s' blob ->
  sid_ok (fresh (w_next w)) = true ->
  store_issued fresh w -> jars_not_future fresh w ->
  (forall b' id, b' <> b -> valid_sid (j_sess (get_jar w b')) = Some id -> valid_sid (j_sess (get_jar w b)) <> Some id) ->
  req_state c w b script1 = Some s' ->
  forallb op_keeps script1 = true ->
  dempty (s_data s') = false -> skipped (w_now w) s' = false -> save_data (s_data s') = Some blob ->
  age_exp (w_now w) (cookie_age (w_now w) s' (newsess_of s')) = Some ex ->
  let w1 := fst (request fresh c w b script1) in
  exists id sv,
    sid_ok id = true /\
    holds fresh b id (session_age (w_now w) s' (newsess_of s'), blob) (mkjar (Some (CRaw (73 :: id), ex)) (j_exp (get_jar w1 b))) w1 /\
    valid_sid (j_sess (get_jar w1 b)) = Some id /\
    load_data blob = LOk (s_data s') /\
    special k_t (s_data s') (c_timeout c) = Some (s_tval s') /\ special k_h (s_data s') (c_how c) = Some (s_how s') /\
    special k_s (s_data s') 0%Z = Some sv /\ Z.odd sv = s_onsrv s' /\
    w_now w1 = w_now w /\ o_exc (snd (request fresh c w b script1)) = None.
Proof.
  intros c w b script1 s' blob ex Hss0 Hfo Hsi Hjn Huniq Hrs Hops Hd Hk Hb Hex w1.
  assert (c_loc c <> 1) as Hl1 by (destruct Hss0 as [H|[H _]]; rewrite H; discriminate).
  set (w0 := set_jar w b (jar_expire (w_now w) (get_jar w b))) in *.
  unfold req_state in Hrs. fold w0 in Hrs.
  destruct (si_load c w0 b) as [[wl l1] r] eqn:Hld. destruct r as [[ld s]|e]; [|discriminate Hrs].
  injection Hrs as Hs'.
  assert (consistent c s') as Hc.
  { rewrite <- Hs'. apply consistent_ops; [exact Hops|]. eapply si_load_consistent. exact Hld. }
  destruct Hc as (Hsort & Ht & Hh & sv & Hsv & Hodd).
  (* the world after load *)
  assert (wl = fst (fst (backend_load c w0 b))) as Hwl.
  { pose proof (si_load_world c w0 b) as E. rewrite Hld in E. cbn [fst] in E. exact E. }
  pose proof (backend_load_jf c b w0) as [Jo Jn]. rewrite <- Hwl in Jo, Jn.
  pose proof (backend_load_sm fresh b c w0) as Sm. rewrite <- Hwl in Sm.
  pose proof (backend_load_next c w0 b) as Tx. rewrite <- Hwl in Tx.
  assert (w_now wl = w_now w) as Tn' by (rewrite Jn; reflexivity).
  assert (w_next wl = w_next w) as Tx' by (rewrite Tx; reflexivity).
  assert (forall id, drawn fresh w0 wl id -> False) as Nodraw.
  { intros id (k & K1 & K2 & _). rewrite Tx in K2. lia. }
  assert (forall id, valid_sid (j_sess (get_jar wl b)) = Some id -> valid_sid (j_sess (get_jar w b)) = Some id) as Own.
  { intros id H. destruct (sm_own _ _ _ _ Sm id H) as [H1|H1]; [|destruct (Nodraw id H1)].
    unfold w0 in H1. rewrite get_set_jar_same in H1. eapply valid_sid_expire. exact H1. }
  (* the save *)
  assert (skipped (w_now wl) s' = false) as Hk' by (rewrite Tn'; exact Hk).
  pose proof (si_save_path fresh c wl b s' blob Hd Hk' Hb) as Hsave.
  rewrite (backend_save_server_side fresh c wl b s' blob _ _ Hss0) in Hsave.
  destruct (sid_save fresh wl b blob (session_age (w_now wl) s' (newsess_of s')) (newsess_of s')) as [[ws ls] rs] eqn:Hss.
  assert (sid_ok (fresh (w_next wl)) = true) as Hfo' by (rewrite Tx'; exact Hfo).
  destruct (sid_save_stores_local fresh fresh_inj _ _ _ _ _ _ _ _ Hfo' Hss) as (id & -> & Hok & Hst & Hjs & Hns & Hdisj).
  cbv zeta in Hsave.
  assert (request fresh c w b script1 =
          (fst (fst (si_save fresh c wl b s')), mkobs (Some (ld, s_data s, s_tval s, s_how s, s_onsrv s)) None (l1 ++ ls))) as Hreq.
  { unfold request. fold w0. rewrite Hld, Hs', Hsave. reflexivity. }
  assert (w1 = fst (fst (si_save fresh c wl b s'))) as Hw1 by (unfold w1; rewrite Hreq; reflexivity).
  rewrite Hsave in Hw1. cbn [fst] in Hw1.
  rewrite Tn' in *.
  assert (st_find id (w_store w1) = Some (session_age (w_now w) s' (newsess_of s'), blob)) as R1 by (rewrite Hw1; exact Hst).
  assert (j_sess (get_jar w1 b) = Some (CRaw (73 :: id), ex)) as R2.
  { rewrite Hw1. unfold get_jar at 1. cbn [w_jars]. rewrite nth_set_nth_same. cbn [j_sess]. unfold jar_set_sess. rewrite Hex. reflexivity. }
  assert (forall b', b' <> b -> get_jar w1 b' = get_jar w b') as R3.
  { intros b' Hb'. pose proof (request_jf fresh c b w script1) as [A _]. fold w1 in A. apply A. exact Hb'. }
  assert (issued fresh w1 id) as R5.
  { destruct Hdisj as [[E1 E2]|[E1 [Enew E2]]].
    - exists (w_next wl). split; [rewrite Hw1; cbn [w_next]; rewrite E2; lia|exact E1].
    - assert (dempty (s_copy s) = false) as Hcopy.
      { unfold newsess_of in Enew. apply orb_false_iff in Enew. destruct Enew as [En _].
        rewrite Hd in En. cbn [negb] in En. rewrite andb_true_r in En. rewrite <- Hs', apply_ops_copy in En. exact En. }
      pose proof (si_load_kept c w0 b wl l1 ld s id Hld Hcopy E1) as Hin.
      destruct (sm_store _ _ _ _ Sm id Hin) as [Hin0|Hdr]; [|destruct (Nodraw id Hdr)].
      destruct (Hsi id Hin0) as (k & Hk1 & Hk2). exists k. split; [|exact Hk2].
      rewrite Hw1. cbn [w_next]. rewrite E2, Tx'. exact Hk1. }
  assert (forall b', b' <> b -> valid_sid (j_sess (get_jar w1 b')) <> Some id) as R6.
  { intros b' Hb' E. rewrite R3 in E by exact Hb'.
    destruct Hdisj as [[E1 E2]|[E1 [_ E2]]].
    - apply (Hjn b' id E (w_next wl)); [lia|symmetry; exact E1].
    - exact (Huniq b' id Hb' E (Own id E1)). }
  assert (holds fresh b id (session_age (w_now w) s' (newsess_of s'), blob)
                (mkjar (Some (CRaw (73 :: id), ex)) (j_exp (get_jar w1 b))) w1) as Hh1.
  { unfold holds. split; [exact R1|]. split.
    - destruct (get_jar w1 b) as [js je] eqn:Ej. cbn [j_sess j_exp] in *. rewrite R2. reflexivity.
    - split; [exact R5|exact R6]. }
  assert (valid_sid (j_sess (get_jar w1 b)) = Some id) as Hvid by (rewrite R2; apply valid_sid_intro; exact Hok).
  exists id, sv. split; [exact Hok|]. split; [exact Hh1|]. split; [exact Hvid|].
  split; [exact (codec_roundtrip_lemma _ _ Hsort Hb)|]. split; [exact Ht|]. split; [exact Hh|]. split; [exact Hsv|]. split; [exact Hodd|].
  split; [exact (proj2 (request_jf fresh c b w script1))|]. rewrite Hreq. reflexivity.
Qed.


(* in fixed mode the session cookie - when it has a max-age at all - ends exactly at the deadline kept by the server *)
Lemma fixed_cookie_end_is_deadline : forall now s n t,
  s_how s = 0%Z -> age_exp now (cookie_age now s n) = Some (EAt t) -> t = session_age now s n.
Proof.
  intros now s n t Hh H. unfold cookie_age, session_age in *. rewrite Hh in *. cbn [Z.eqb orb andb] in *.
  unfold age_exp in H. destruct n.
  - destruct (s_tval s <? 0)%Z; [discriminate H|]. destruct (s_tval s =? 0)%Z; [discriminate H|]. injection H as <-. lia.
  - destruct (s_tin s - now <? 0)%Z; [discriminate H|]. destruct (s_tin s - now =? 0)%Z; [discriminate H|]. injection H as <-. lia.
Qed.

(* the chain in fixed mode: r1 of b saves state s' (fixed mode in effect) and sends the cookie of the exposed value k = v; then any
   history of foreign steps and b's own unchanged requests; then r2 of b - a saving request that is neither new nor reset and
   still exposes k = v (whatever else it changes): session cookie and the cookie of k still end together, at the deadline r1 set *)
Theorem exposed_in_step_chain_fixed : forall c w b script1 s' blob t1 l script2 blob2 k v,
  server_side c s' blob ->
  sid_ok (fresh (w_next w)) = true ->
  store_issued fresh w -> jars_not_future fresh w ->
  (forall b' id, b' <> b -> valid_sid (j_sess (get_jar w b')) = Some id -> valid_sid (j_sess (get_jar w b)) <> Some id) ->
  req_state c w b script1 = Some s' ->
  forallb op_keeps script1 = true ->
  dempty (s_data s') = false -> skipped (w_now w) s' = false -> save_data (s_data s') = Some blob ->
  s_how s' = 0%Z ->
  age_exp (w_now w) (cookie_age (w_now w) s' (newsess_of s')) = Some (EAt t1) ->
  dfind k (s_data s') = Some (v, true) -> v <> [] ->
  lifetime_renewed s' = true \/ entry_changed (s_copy s') k v = true ->
  let w1 := fst (request fresh c w b script1) in
  (forall id, valid_sid (j_sess (get_jar w1 b)) = Some id -> mixed_run fresh c b id w1 l) ->
  let w2 := fst (run fresh c w1 l) in
  (w_now w2 < t1)%Z ->
  let s2 := apply_ops c (mksess (s_data s') (s_data s') (s_tval s') 0%Z t1 (s_onsrv s') false) script2 in
  s_how s2 = 0%Z -> newsess_of s2 = false ->
  dempty (s_data s2) = false -> skipped (w_now w2) s2 = false -> save_data (s_data s2) = Some blob2 ->
  o_exc (snd (request fresh c w2 b script2)) = None ->
  dfind k (s_data s2) = Some (v, true) ->
  in_step b k v (EAt t1) (get_jar (fst (request fresh c w2 b script2)) b).
Proof.
  intros c w b script1 s' blob t1 l script2 blob2 k v Hss0 Hfo Hsi Hjn Huniq Hrs Hops Hd Hk Hb Hh0 Hex Hf Hv Hsent w1 Hfor w2 Hn s2
         Hh2 Hnew2 Hd2 Hk2 Hb2 Hexc2 Hf2.
  assert (c_loc c <> 1) as Hl1 by (destruct Hss0 as [H|[H _]]; rewrite H; discriminate).
  pose proof (fixed_cookie_end_is_deadline _ _ _ _ Hh0 Hex) as Ht1.
  destruct (holds_after_request c w b script1 s' blob (EAt t1) Hss0 Hfo Hsi Hjn Huniq Hrs Hops Hd Hk Hb Hex)
    as (id & sv & Hok & Hh1 & Hvid & Hld & Ht & Hhh & Hsv & Hodd & Hnow & Hexc1).
  fold w1 in Hh1, Hvid. rewrite <- Ht1 in Hh1. rewrite Hh0 in Hhh.
  pose proof (request_exposed fresh c w b script1 s' blob (EAt t1) Hrs Hd Hk Hb Hexc1 Hex k v Hf Hv Hsent) as [_ Hin1].
  fold w1 in Hin1.
  pose proof (fixed_mode_chain fresh fresh_inj c b id t1 blob (j_exp (get_jar w1 b)) l w1 (s_data s') (s_tval s') sv script2 blob2 k v
                Hl1 Hh1 Hok Hin1 (Hfor id Hvid) Hld Ht Hhh Hsv) as Hfin.
  cbv zeta in Hfin. fold w2 in Hfin. rewrite Hodd in Hfin. fold s2 in Hfin.
  exact (Hfin Hn Hh2 Hnew2 Hd2 Hk2 Hb2 Hexc2 Hf2 Hv).
Qed.

End Fresh.
