(* C06 proofs, part 12: exposed-value cookies are in step with the session cookie.
   save() calls update_exposed(force_update, new_session_ || how_!=fixed): every save that gives the session cookie a new
   lifetime (renew and browser mode; a new or reset session in fixed mode), and every renewal of an unchanged session, re-sends
   the cookie of every exposed value with the lifetime the session cookie has just been given. *)
From CppcmsV Require Import Base.Tac C06.Defs C06.Proofs C06.ProofsNum C06.ProofsMap C06.Proofs2 C06.Proofs3 C06.Proofs4 C06.Proofs5 C06.Proofs6 C06.Proofs7 C06.Proofs8 C06.Proofs10.
Local Open Scope N_scope.

Lemma ssorted_op : forall c s o, ssorted (s_data s) -> ssorted (s_data (apply_op c s o)).
Proof.
  intros c s o H. destruct o; cbn [apply_op s_data];
    auto using ssorted_d_set, ssorted_dremove, ssorted_d_expose. exact I.
Qed.

Lemma ssorted_ops : forall c l s, ssorted (s_data s) -> ssorted (s_data (apply_ops c s l)).
Proof.
  intros c l. unfold apply_ops. induction l as [|o r IH]; intros s H; cbn [fold_left]; [exact H|].
  apply IH. apply ssorted_op. exact H.
Qed.

(* the save gives the session cookie a new lifetime: always in renew / browser mode, in fixed mode for a new or reset session *)
Definition lifetime_renewed (s : sess) : bool := newsess_of s || negb (s_how s =? 0)%Z.

Section Fresh.
Variable fresh : N -> bytes.

(* one save that goes through: the session cookie gets the lifetime ex; every exposed non-empty value that is new /
   changed / newly exposed - and EVERY exposed non-empty value in renew mode - has its cookie in the jar with the same
   lifetime ex *)
Lemma si_save_exposed : forall c w b s blob w1 l1 ex,
  dempty (s_data s) = false -> ssorted (s_data s) -> skipped (w_now w) s = false -> save_data (s_data s) = Some blob ->
  si_save fresh c w b s = (w1, l1, None) ->
  age_exp (w_now w) (cookie_age (w_now w) s (newsess_of s)) = Some ex ->
  (exists ck, j_sess (get_jar w1 b) = Some (ck, ex)) /\
  forall k v, dfind k (s_data s) = Some (v, true) -> v <> [] ->
    lifetime_renewed s = true \/ entry_changed (s_copy s) k v = true ->
    In (k, (v, ex)) (j_exp (get_jar w1 b)).
Proof.
  intros c w b s blob w1 l1 ex Hd Hs Hk Hb Hsave Hex.
  rewrite (si_save_path fresh c w b s blob Hd Hk Hb) in Hsave.
  destruct (backend_save fresh c w b blob (session_age (w_now w) s (newsess_of s)) (newsess_of s) (s_onsrv s)) as [[w' l'] [ck|]];
    [|discriminate Hsave].
  cbv zeta in Hsave. injection Hsave as <- <-.
  split.
  - exists ck. unfold get_jar at 1. cbn [w_jars]. rewrite nth_set_nth_same. cbn [j_sess].
    unfold jar_set_sess. rewrite Hex. reflexivity.
  - intros k v Hf Hv Hc. unfold get_jar at 1. cbn [w_jars]. rewrite nth_set_nth_same. cbn [j_exp].
    apply update_exposed_sends; try assumption.
    destruct Hc as [Hr|Hc]; [right; left; exact Hr|right; right; exact Hc].
Qed.

(* a request whose save goes through, then any history in which nobody touches b's jar (requests of other browsers,
   clock advances, attacker cookies / planted cookies / planted records elsewhere): as long as the browser still holds
   the session cookie, it holds the cookie of every such exposed value *)
Theorem exposed_in_step_history : forall c w b script1 s' blob ex l,
  req_state c w b script1 = Some s' ->
  dempty (s_data s') = false -> skipped (w_now w) s' = false -> save_data (s_data s') = Some blob ->
  o_exc (snd (request fresh c w b script1)) = None ->
  age_exp (w_now w) (cookie_age (w_now w) s' (newsess_of s')) = Some ex ->
  let w1 := fst (request fresh c w b script1) in
  Forall (not_on b) l ->
  let w2 := fst (run fresh c w1 l) in
  exp_live (w_now w2) ex = true ->
  let j := jar_expire (w_now w2) (get_jar w2 b) in
  (exists ck, j_sess j = Some (ck, ex)) /\
  forall k v, dfind k (s_data s') = Some (v, true) -> v <> [] ->
    lifetime_renewed s' = true \/ entry_changed (s_copy s') k v = true ->
    In (k, (v, ex)) (j_exp j).
Proof.
  intros c w b script1 s' blob ex l Hrs Hd Hk Hb Hexc Hex w1 Hfor w2 Hlive j.
  set (w0 := set_jar w b (jar_expire (w_now w) (get_jar w b))) in *.
  unfold req_state in Hrs. fold w0 in Hrs.
  destruct (si_load c w0 b) as [[wl l1] r] eqn:Hld. destruct r as [[ld s]|e]; [|discriminate Hrs].
  injection Hrs as Hs'.
  assert (ssorted (s_data s')) as Hsort.
  { rewrite <- Hs'. apply ssorted_ops. pose proof (si_load_consistent c w0 b wl l1 ld s Hld) as Hc. exact (proj1 Hc). }
  assert (w_now wl = w_now w) as Tn.
  { pose proof (backend_load_jf c b w0) as [_ A]. rewrite <- si_load_world, Hld in A. cbn [fst] in A. exact A. }
  assert (skipped (w_now wl) s' = false) as Hk' by (rewrite Tn; exact Hk).
  destruct (si_save fresh c wl b s') as [[ws ls] es] eqn:Hsave.
  assert (request fresh c w b script1 = (ws, mkobs (Some (ld, s_data s, s_tval s, s_how s, s_onsrv s)) es (l1 ++ ls))) as Hreq.
  { unfold request. fold w0. rewrite Hld, Hs', Hsave. reflexivity. }
  rewrite Hreq in Hexc. cbn [snd o_exc] in Hexc. subst es.
  assert (w1 = ws) as Hw1 by (unfold w1; rewrite Hreq; reflexivity).
  rewrite <- Tn in Hex.
  destruct (si_save_exposed c wl b s' blob ws ls ex Hd Hsort Hk' Hb Hsave Hex) as [[ck Hck] Hx].
  assert (get_jar w2 b = get_jar w1 b) as Hj2 by (apply run_keeps_jar; exact Hfor).
  unfold j. rewrite Hj2, Hw1. split.
  - exists ck. unfold jar_expire. cbn [j_sess]. rewrite Hck, Hlive. reflexivity.
  - intros k v Hf Hv Hc. unfold jar_expire. cbn [j_exp]. apply filter_In. split; [apply Hx; assumption|].
    cbn [snd]. exact Hlive.
Qed.

End Fresh.
