(* C06 proofs, part 7: a request only changes the jar of its own browser; end to end for the client-side back-end *)
From CppcmsV Require Import Base.Tac C06.Defs C06.Proofs C06.ProofsNum C06.ProofsMap C06.Proofs2 C06.Proofs3 C06.Proofs4 C06.Proofs5 C06.Proofs6.
Local Open Scope N_scope.

Definition jf (b' : nat) (w w' : world) : Prop :=
  (forall b, b <> b' -> get_jar w' b = get_jar w b) /\ w_now w' = w_now w.

Lemma jf_refl : forall b' w, jf b' w w. Proof. intros. split; auto. Qed.
Lemma jf_trans : forall b' w1 w2 w3, jf b' w1 w2 -> jf b' w2 w3 -> jf b' w1 w3.
Proof. intros b' w1 w2 w3 [A1 A2] [B1 B2]. split; [intros b Hb; rewrite B1, A1 by exact Hb; reflexivity|congruence]. Qed.
Lemma jf_set_jar : forall b' w j, jf b' w (set_jar w b' j).
Proof. intros. split; [intros b Hb; apply get_set_jar_other; congruence|reflexivity]. Qed.
Lemma jf_store : forall b' w st nx h, jf b' w (mkworld (w_now w) (w_jars w) st nx h).
Proof. intros. split; [intros; reflexivity|reflexivity]. Qed.

Lemma sid_load_jf : forall b' w, jf b' w (fst (fst (sid_load w b'))).
Proof.
  intros. unfold sid_load. destruct (valid_sid (j_sess (get_jar w b'))) as [i|]; [|apply jf_refl].
  destruct (st_load (w_now w) i (w_store w)) as [[dl d]|]; [|apply jf_refl].
  destruct (dl <? w_now w)%Z; cbn [fst]; [|apply jf_refl]. unfold set_store. apply jf_store.
Qed.
Lemma cookies_load_jf : forall b' w, jf b' w (fst (fst (cookies_load w b'))).
Proof.
  intros. unfold cookies_load. destruct (j_sess (get_jar w b')) as [[[s|dl d] e]|]; cbn [fst]; try apply jf_refl.
  - destruct s; cbn [fst]; [apply jf_refl|apply jf_set_jar].
  - destruct (dl <? w_now w)%Z; cbn [fst]; [apply jf_set_jar|apply jf_refl].
Qed.
Lemma backend_load_jf : forall c b' w, jf b' w (fst (fst (backend_load c w b'))).
Proof.
  intros. unfold backend_load.
  destruct (c_loc c =? 0); [apply sid_load_jf|]. destruct (c_loc c =? 1); [apply cookies_load_jf|].
  destruct (cookie_first (j_sess (get_jar w b'))) as [x|]; [|apply sid_load_jf].
  destruct (N.eq_dec x 67) as [->|Hn]; [apply cookies_load_jf|].
  destruct x as [|p]; [apply sid_load_jf|].
  do 7 (destruct p as [p|p|]; try apply sid_load_jf). contradiction Hn. reflexivity.
Qed.
Lemma sid_clear_jf : forall b' w, jf b' w (fst (sid_clear w b')).
Proof.
  intros. unfold sid_clear. destruct (valid_sid (j_sess (get_jar w b'))) as [i|]; cbn [fst]; [|apply jf_set_jar].
  eapply jf_trans; [|apply jf_set_jar]. unfold set_store. apply jf_store.
Qed.
Lemma backend_clear_jf : forall c b' w, jf b' w (fst (backend_clear c w b')).
Proof.
  intros. unfold backend_clear.
  assert (jf b' w (fst (cookies_clear w b'))) as Hc by (unfold cookies_clear; cbn [fst]; apply jf_set_jar).
  destruct (c_loc c =? 0); [apply sid_clear_jf|]. destruct (c_loc c =? 1); [exact Hc|].
  destruct (cookie_first (j_sess (get_jar w b'))) as [x|]; [|apply sid_clear_jf].
  destruct (N.eq_dec x 67) as [->|Hn]; [exact Hc|].
  destruct x as [|p]; [apply sid_clear_jf|].
  do 7 (destruct p as [p|p|]; try apply sid_clear_jf). contradiction Hn. reflexivity.
Qed.

Section Fresh.
Variable fresh : N -> bytes.

Lemma sid_save_jf : forall b' w blob dl newd, jf b' w (fst (fst (sid_save fresh w b' blob dl newd))).
Proof.
  intros. unfold sid_save. destruct (valid_sid (j_sess (get_jar w b'))) as [i|]; [destruct newd|]; cbn [fst];
    unfold set_store; apply jf_store.
Qed.
Lemma backend_save_jf : forall c b' w blob dl newd onsrv, jf b' w (fst (fst (backend_save fresh c w b' blob dl newd onsrv))).
Proof.
  intros. unfold backend_save.
  assert (forall o, jf b' w (fst (fst (cookies_save w blob dl o)))) as Hc by (intros o; unfold cookies_save; destruct o; apply jf_refl).
  destruct (c_loc c =? 0); [apply sid_save_jf|]. destruct (c_loc c =? 1); [apply Hc|].
  destruct (onsrv || (c_limit c <? blen blob)); [apply sid_save_jf|].
  destruct (cookie_first (j_sess (get_jar w b'))) as [x|]; [|apply Hc].
  destruct (N.eq_dec x 73) as [->|Hn].
  - pose proof (sid_clear_jf b' w) as Hs. destruct (sid_clear w b') as [w1 l1]. unfold cookies_save. cbn [fst] in *. exact Hs.
  - destruct x as [|p]; [apply Hc|].
    do 7 (destruct p as [p|p|]; try apply Hc). contradiction Hn. reflexivity.
Qed.

Lemma si_save_jf : forall c b' w s, jf b' w (fst (fst (si_save fresh c w b' s))).
Proof.
  intros c b' w s. unfold si_save.
  destruct (dempty (s_data s)).
  - destruct (cookie_nonempty (j_sess (get_jar w b'))).
    + pose proof (backend_clear_jf c b' w) as H. destruct (backend_clear c w b') as [w1 l1]. cbn [fst] in *.
      eapply jf_trans; [exact H|apply jf_set_jar].
    + cbn [fst]. apply jf_set_jar.
  - match goal with |- context [if ?c then _ else _] => destruct c end; [apply jf_refl|].
    match goal with |- context [if ?c then _ else _] => destruct c end; [apply jf_refl|].
    destruct (save_data (s_data s)) as [blob|]; [|apply jf_refl].
    match goal with |- context [backend_save fresh c w b' blob ?dl ?n ?o] =>
      pose proof (backend_save_jf c b' w blob dl n o) as H1;
      destruct (backend_save fresh c w b' blob dl n o) as [[w1 l1] r] end.
    cbn [fst] in *. destruct r as [ck|]; [|exact H1]. cbn [fst].
    destruct H1 as [A1 A2]. split; [|exact A2].
    intros b Hb. unfold get_jar at 1. cbn [w_jars]. rewrite nth_set_nth_other by congruence. apply A1. exact Hb.
Qed.

Lemma request_jf : forall c b' w script, jf b' w (fst (request fresh c w b' script)).
Proof.
  intros c b' w script. unfold request.
  set (w0 := set_jar w b' (jar_expire (w_now w) (get_jar w b'))).
  assert (jf b' w w0) as F0 by apply jf_set_jar.
  pose proof (backend_load_jf c b' w0) as F1. rewrite <- si_load_world in F1.
  destruct (si_load c w0 b') as [[w1 l1] r]. cbn [fst] in F1.
  destruct r as [[ld s]|e]; [|eapply jf_trans; eassumption].
  pose proof (si_save_jf c b' w1 (apply_ops c s script)) as F2.
  destruct (si_save fresh c w1 b' (apply_ops c s script)) as [[w2 l2] e]. cbn [fst] in *.
  eapply jf_trans; [eapply jf_trans|]; eassumption.
Qed.

(* steps that are not performed by / on browser b: anything else is allowed, replays and planted records included *)
Definition not_on (b : nat) (st : step) : Prop :=
  match st with
  | StT dt => True
  | StR b' _ | StAraw b' _ | StAhist b' _ _ | StX b' _ _ | StP b' _ _ _ => b' <> b
  end.

Lemma step_keeps_jar : forall c b st w, not_on b st -> get_jar (fst (do_step fresh c w st)) b = get_jar w b.
Proof.
  intros c b st w H. destruct st; cbn [not_on] in H; cbn [do_step].
  - reflexivity.
  - pose proof (request_jf c b0 w script) as [A _]. destruct (request fresh c w b0 script) as [w' o]. cbn [fst] in *. apply A. congruence.
  - cbn [fst]. unfold attack_set. destruct s; apply get_set_jar_other; exact H.
  - destruct (w_hist w) as [|h0 hs]; cbn [fst]; [reflexivity|]. unfold attack_set.
    destruct (mutate m (nth (i mod length (h0 :: hs)) (h0 :: hs) h0)) as [[|x s]|dl d]; apply get_set_jar_other; exact H.
  - cbn [fst]. apply get_set_jar_other. exact H.
  - cbn [fst]. rewrite get_set_jar_other by exact H. destruct (c_loc c =? 1); reflexivity.
Qed.

Lemma run_keeps_jar : forall c b l w, Forall (not_on b) l -> get_jar (fst (run fresh c w l)) b = get_jar w b.
Proof.
  intros c b l. induction l as [|st r IH]; intros w Hf; cbn [run]; [reflexivity|].
  inversion Hf as [|? ? Hs Hr]; subst.
  pose proof (step_keeps_jar c b st w Hs) as H1.
  destruct (do_step fresh c w st) as [w1 o]. cbn [fst] in H1.
  specialize (IH w1 Hr). destruct (run fresh c w1 r) as [w2 os]. cbn [fst] in *. congruence.
Qed.

Lemma cookies_load_now : forall w b, w_now (fst (fst (cookies_load w b))) = w_now w.
Proof. intros. apply (cookies_load_jf b w). Qed.

Theorem end_to_end_client : forall c w b script1 s' blob ex l script2,
  c_loc c = 1 ->
  req_state c w b script1 = Some s' ->
  forallb op_keeps script1 = true ->
  dempty (s_data s') = false -> skipped (w_now w) s' = false -> save_data (s_data s') = Some blob ->
  s_onsrv s' = false ->
  age_exp (w_now w) (cookie_age (w_now w) s' (newsess_of s')) = Some ex ->
  let w1 := fst (request fresh c w b script1) in
  Forall (not_on b) l ->
  let w2 := fst (run fresh c w1 l) in
  (w_now w2 <= session_age (w_now w) s' (newsess_of s'))%Z -> exp_live (w_now w2) ex = true ->
  o_loaded (snd (request fresh c w2 b script2)) = Some (true, s_data s', s_tval s', s_how s', false).
Proof.
  intros c w b script1 s' blob ex l script2 Hl Hrs Hops Hd Hk Hb Hsrv Hex w1 Hfor w2 Hn Hlive.
  set (w0 := set_jar w b (jar_expire (w_now w) (get_jar w b))) in *.
  unfold req_state in Hrs. fold w0 in Hrs.
  destruct (si_load c w0 b) as [[wl l1] r] eqn:Hld. destruct r as [[ld s]|e]; [|discriminate Hrs].
  injection Hrs as Hs'.
  assert (consistent c s') as Hc.
  { rewrite <- Hs'. apply consistent_ops; [exact Hops|]. eapply si_load_consistent. exact Hld. }
  destruct Hc as (Hsort & Ht & Hh & sv & Hsv & Hodd).
  assert (w_now wl = w_now w) as Tn.
  { pose proof (backend_load_jf c b w0) as [_ A]. rewrite <- si_load_world, Hld in A. cbn [fst] in A. exact A. }
  assert (skipped (w_now wl) s' = false) as Hk' by (rewrite Tn; exact Hk).
  destruct (si_save_client fresh c wl b s' blob Hl Hd Hsort Hk' Hb Hsrv) as (ws & Hsave & _ & Hrt & Hck).
  rewrite Tn in Hck. specialize (Hck ex Hex).
  assert (w1 = ws) as Hw1.
  { unfold w1, request. fold w0. rewrite Hld, Hs', Hsave. reflexivity. }
  assert (get_jar w2 b = get_jar w1 b) as Hj2 by (apply run_keeps_jar; exact Hfor).
  set (w3 := set_jar w2 b (jar_expire (w_now w2) (get_jar w2 b))).
  assert (j_sess (get_jar w3 b) = Some (CEnc (session_age (w_now w) s' (newsess_of s')) blob, ex)) as Hj3.
  { unfold w3. rewrite get_set_jar_same, Hj2, Hw1. unfold jar_expire. cbn [j_sess]. rewrite Hck, Hlive. reflexivity. }
  assert (si_load c w3 b = (w3, [], inl (true, mksess (s_data s') (s_data s') (s_tval s') (s_how s')
                                           (session_age (w_now w) s' (newsess_of s')) (Z.odd sv) false))) as Hld3.
  { eapply si_load_client_hit; eauto. }
  rewrite (request_loaded fresh c w2 b script2 w3 _ _ eq_refl Hld3). cbn [fst snd s_data s_tval s_how s_onsrv].
  rewrite Hodd, Hsrv. reflexivity.
Qed.

End Fresh.
