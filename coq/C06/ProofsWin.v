(* C06 proofs: the 10 % renew window.  save() compares  delta < timeout_val_ * 0.1  in IEEE double; the model computes that
   comparison exactly (round53: the product with the double nearest to 0.1, rounded to 53 bits, ties to even).  Here: the
   double comparison agrees with exact arithmetic everywhere except possibly where 10 * delta = timeout exactly. *)
From CppcmsV Require Import Base.Tac C06.Defs.
Local Open Scope Z_scope.

Lemma round53_bounds : forall num, 0 < num ->
  let x := Z.shiftl (fst (round53 num)) (snd (round53 num)) in
  x * 9007199254740992 <= num * 9007199254740993 /\ num * 9007199254740991 <= x * 9007199254740992.
Proof.
  intros num Hpos. cbv zeta. unfold round53.
  destruct (Z.log2 num <? 53) eqn:E.
  - cbn [fst snd]. rewrite Z.shiftl_0_r. lia.
  - apply Z.ltb_ge in E. cbv zeta.
    set (sh := Z.log2 num - 52).
    assert (1 <= sh) as Hsh by (unfold sh; lia).
    pose proof (Z.log2_spec num Hpos) as [L1 L2].
    set (S := 2 ^ sh). set (H := 2 ^ (sh - 1)).
    assert (S = 2 * H) as HS.
    { unfold S, H. replace sh with (1 + (sh - 1)) at 1 by lia. rewrite Z.pow_add_r by lia. reflexivity. }
    assert (0 < H) as HH by (apply Z.pow_pos_nonneg; lia).
    assert (2 ^ Z.log2 num = S * 4503599627370496) as HL.
    { unfold S, sh. change 4503599627370496 with (2 ^ 52). rewrite <- Z.pow_add_r by lia. f_equal. lia. }
    rewrite Z.shiftr_div_pow2 by lia. fold S.
    rewrite (Z.shiftl_mul_pow2 (num / S) sh) by lia. fold S.
    rewrite (Z.shiftl_mul_pow2 1 (sh - 1)) by lia. fold H. rewrite Z.mul_1_l.
    assert (0 < S) as HSp by lia.
    pose proof (Z.div_mod num S ltac:(lia)) as Hdm.
    pose proof (Z.mod_pos_bound num S HSp) as Hmb.
    set (q := num / S) in *. set (r := num mod S) in *.
    assert (num - q * S = r) as -> by lia.
    assert (q * S = num - r) as HqS by lia.
    destruct (H <? r) eqn:E1.
    + apply Z.ltb_lt in E1. cbn [fst snd]. rewrite Z.shiftl_mul_pow2 by lia. fold S.
      rewrite Z.mul_add_distr_r, HqS. lia.
    + apply Z.ltb_ge in E1. destruct (r =? H) eqn:E2.
      * apply Z.eqb_eq in E2. destruct (Z.odd q); cbn [fst snd]; rewrite Z.shiftl_mul_pow2 by lia; fold S.
        -- rewrite Z.mul_add_distr_r, HqS. lia.
        -- rewrite HqS. lia.
      * apply Z.eqb_neq in E2. cbn [fst snd]. rewrite Z.shiftl_mul_pow2 by lia. fold S. rewrite HqS. lia.
Qed.

(* for every timeout a 32-bit int can hold and every delta: strictly inside the first tenth of the period the save is skipped,
   strictly outside it is not; the double rounding can only matter where 10 * delta = timeout *)
Theorem tenth_gt_exact : forall delta tval, 0 <= tval < 2147483648 ->
  (10 * delta < tval -> tenth_gt delta tval = true) /\ (tval < 10 * delta -> tenth_gt delta tval = false).
Proof.
  intros delta tval Ht. unfold tenth_gt.
  assert ((tval <? 0) = false) as Hn by (apply Z.ltb_ge; lia).
  rewrite Z.abs_eq by lia.
  destruct (Z.eq_dec tval 0) as [->|Hnz].
  - change (round53 (0 * 3602879701896397)) with (0, 0). cbv iota beta. rewrite Hn. rewrite Z.shiftl_0_r.
    split; intros H; [apply Z.ltb_lt|apply Z.ltb_ge]; lia.
  - pose proof (round53_bounds (tval * 3602879701896397) ltac:(lia)) as B. cbv zeta in B.
    destruct (round53 (tval * 3602879701896397)) as [q sh]. cbn [fst snd] in B. rewrite Hn.
    destruct B as [B1 B2].
    split; intros H; [apply Z.ltb_lt|apply Z.ltb_ge]; lia.
Qed.
