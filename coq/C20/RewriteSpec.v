(* C20 proofs, part 11: url rewriting (private/rewrite.h): relational characterisation of url_rewriter::rewrite and
   correctness of the rewrite-pattern scanner (rule::rule) together with rule::rewrite_once *)
From CppcmsV Require Import Base.Tac C20.Defs C20.Regex C20.Routes C20.Rewrite.
Local Open Scope N_scope.

(* ---------- url_rewriter::rewrite as a relation ---------- *)
Inductive rw_rel : list rrule -> bytes -> bytes -> Prop :=
| RwNil : forall url, rw_rel [] url url
| RwSkip : forall r rest url out,
    pat_match (rr_pat r) url = None -> rw_rel rest url out -> rw_rel (r :: rest) url out
| RwFinal : forall r rest url gs,
    pat_match (rr_pat r) url = Some gs -> rr_final r = true -> rw_rel (r :: rest) url (rw_once r gs)
| RwNext : forall r rest url gs out,
    pat_match (rr_pat r) url = Some gs -> rr_final r = false -> rw_rel rest (rw_once r gs) out ->
    rw_rel (r :: rest) url out.

Lemma rw_apply_rel : forall rules url, rw_rel rules url (rw_apply rules url).
Proof.
  induction rules as [|r rules IH]; intros url; cbn [rw_apply]; [constructor|].
  destruct (pat_match (rr_pat r) url) as [gs|] eqn:Em.
  - destruct (rr_final r) eqn:Ef.
    + apply RwFinal; assumption.
    + eapply RwNext; [eassumption | assumption | apply IH].
  - apply RwSkip; [assumption | apply IH].
Qed.

Lemma rw_rel_apply : forall rules url out, rw_rel rules url out -> rw_apply rules url = out.
Proof.
  intros rules url out H. induction H as [url | r rest url out Hm _ IH | r rest url gs Hm Hf | r rest url gs out Hm Hf _ IH];
    cbn [rw_apply]; [reflexivity | | |].
  - rewrite Hm. exact IH.
  - rewrite Hm, Hf. reflexivity.
  - rewrite Hm, Hf. exact IH.
Qed.

Theorem rw_apply_iff : forall rules url out, rw_apply rules url = out <-> rw_rel rules url out.
Proof. intros. split; [intros <-; apply rw_apply_rel | apply rw_rel_apply]. Qed.

(* every rewriting step happens on a whole-string match: if the url changes, some rule's language contains the ENTIRE
   current url at the moment it is applied *)
Inductive rw_steps : list rrule -> bytes -> bytes -> Prop :=
| RsDone : forall rules url,
    (forall r, In r rules -> pat_match (rr_pat r) url = None) -> rw_steps rules url url
| RsFinal : forall pre r post url gs,
    lang (pat_re (rr_pat r)) url -> pat_match (rr_pat r) url = Some gs ->
    (forall r', In r' pre -> pat_match (rr_pat r') url = None) ->
    rr_final r = true -> rw_steps (pre ++ r :: post) url (rw_once r gs)
| RsNext : forall pre r post url gs out,
    lang (pat_re (rr_pat r)) url -> pat_match (rr_pat r) url = Some gs ->
    (forall r', In r' pre -> pat_match (rr_pat r') url = None) ->
    rr_final r = false -> rw_steps post (rw_once r gs) out -> rw_steps (pre ++ r :: post) url out.

Lemma rw_steps_skip r rules url out :
  pat_match (rr_pat r) url = None -> rw_steps rules url out -> rw_steps (r :: rules) url out.
Proof.
  intros Hn H. destruct H as [rules url Hall | pre r0 post url gs Hl Hm Hpre Hf | pre r0 post url gs out Hl Hm Hpre Hf Hrest].
  - apply RsDone. intros r' [<-|Hin]; [exact Hn | apply Hall; exact Hin].
  - apply (RsFinal (r :: pre) r0 post url gs Hl Hm); [|exact Hf].
    intros r' [<-|Hin]; [exact Hn | apply Hpre; exact Hin].
  - apply (RsNext (r :: pre) r0 post url gs out Hl Hm); [|exact Hf|exact Hrest].
    intros r' [<-|Hin]; [exact Hn | apply Hpre; exact Hin].
Qed.

Theorem rw_apply_steps : forall rules url, rw_steps rules url (rw_apply rules url).
Proof.
  induction rules as [|r rules IH]; intros url; cbn [rw_apply]; [apply RsDone; intros r []|].
  destruct (pat_match (rr_pat r) url) as [gs|] eqn:Em.
  - assert (Hl : lang (pat_re (rr_pat r)) url) by (eapply pat_match_whole; eassumption).
    destruct (rr_final r) eqn:Ef.
    + apply (RsFinal [] r rules url gs Hl Em); [intros r' []|exact Ef].
    + apply (RsNext [] r rules url gs _ Hl Em); [intros r' []|exact Ef|apply IH].
  - apply rw_steps_skip; [exact Em | apply IH].
Qed.

Theorem rw_steps_apply : forall rules url out, rw_steps rules url out -> rw_apply rules url = out.
Proof.
  intros rules url out H.
  induction H as [rules url Hall | pre r post url gs Hl Hm Hpre Hf | pre r post url gs out Hl Hm Hpre Hf _ IH].
  - apply rw_no_match. exact Hall.
  - destruct (rw_first_match pre r post url gs Hpre Hm) as [_ E]. rewrite E, Hf. reflexivity.
  - destruct (rw_first_match pre r post url gs Hpre Hm) as [_ E]. rewrite E, Hf. exact IH.
Qed.

(* ---------- the rewrite-pattern scanner ---------- *)
Inductive rpiece := RwLit (l : bytes) | RwGrp (k : N) | RwDollar.
Definition no36 (c : N) : bool := negb (c =? 36).
Definition piece_ok (p : rpiece) : Prop :=
  match p with RwLit l => forallb no36 l = true | RwGrp k => k <= 9 | RwDollar => True end.
Fixpoint rw_print (ps : list rpiece) : bytes :=
  match ps with
  | [] => []
  | RwLit l :: r => l ++ rw_print r
  | RwGrp k :: r => 36 :: (48 + k) :: rw_print r
  | RwDollar :: r => 36 :: 36 :: rw_print r
  end.
Fixpoint rw_eval (ps : list rpiece) (gs : list bytes) : bytes :=
  match ps with
  | [] => []
  | RwLit l :: r => l ++ rw_eval r gs
  | RwGrp k :: r => grp gs (N.to_nat k) ++ rw_eval r gs
  | RwDollar :: r => 36 :: rw_eval r gs
  end.

(* value of the scanner's accumulators (newest first) *)
Fixpoint accval (parts : list bytes) (idx : list Z) (gs : list bytes) : bytes :=
  match parts, idx with
  | p :: ps, i :: is_ => accval ps is_ gs ++ p ++ grpz gs i
  | _, _ => []
  end.

Lemma rw_fill_rev : forall parts idx tp ti gs, length parts = length idx ->
  rw_fill (rev parts ++ tp) (rev idx ++ ti) gs = accval parts idx gs ++ rw_fill tp ti gs.
Proof.
  induction parts as [|p parts IH]; intros [|i idx] tp ti gs Hl; try discriminate; [reflexivity|].
  cbn [rev accval]. rewrite <- !app_assoc. cbn [List.app].
  rewrite IH by (cbn [length] in Hl; lia). cbn [rw_fill]. reflexivity.
Qed.

Lemma rwp_lit : forall l s cur parts idx, forallb no36 l = true ->
  rwp (l ++ s) cur parts idx = rwp s (rev l ++ cur) parts idx.
Proof.
  induction l as [|c l IH]; intros s cur parts idx H; [reflexivity|].
  cbn [forallb] in H. apply andb_true_iff in H. destruct H as [Hc Hl]. unfold no36 in Hc. apply negb_true_iff in Hc.
  cbn [List.app rwp]. rewrite Hc, (IH _ _ _ _ Hl). cbn [rev]. rewrite <- app_assoc. reflexivity.
Qed.

Lemma rwp_pieces : forall ps cur parts idx, Forall piece_ok ps -> length parts = length idx ->
  exists parts' idx', rwp (rw_print ps) cur parts idx = Some (parts', idx') /\
    forall gs, rw_fill parts' idx' gs = accval parts idx gs ++ rev cur ++ rw_eval ps gs.
Proof.
  induction ps as [|p ps IH]; intros cur parts idx Hok Hl.
  - cbn [rw_print rwp rw_eval]. eexists. eexists. split; [reflexivity|]. intros gs.
    cbn [rev]. rewrite <- (app_nil_r (rev idx)). rewrite rw_fill_rev by exact Hl.
    cbn [rw_fill]. rewrite !app_nil_r. reflexivity.
  - inversion Hok as [|p' ps' Hp Hps]; subst p' ps'. destruct p as [l|k|].
    + cbn [rw_print rw_eval]. cbn [piece_ok] in Hp. rewrite (rwp_lit l _ cur parts idx Hp).
      destruct (IH (rev l ++ cur) parts idx Hps Hl) as (parts' & idx' & Hr & Hf).
      exists parts', idx'. split; [exact Hr|]. intros gs. rewrite Hf, rev_app_distr, rev_involutive, <- !app_assoc. reflexivity.
    + cbn [rw_print rw_eval rwp]. cbn [piece_ok] in Hp. change (36 =? 36) with true. cbv iota.
      assert (E : (48 + k =? 36) = false) by (apply N.eqb_neq; lia). rewrite E.
      destruct (IH [] (rev cur :: parts) (sidx (48 + k) :: idx) Hps) as (parts' & idx' & Hr & Hf); [cbn [length]; lia|].
      exists parts', idx'. split; [exact Hr|]. intros gs. rewrite Hf. cbn [accval rev List.app].
      assert (Eg : grpz gs (sidx (48 + k)) = grp gs (N.to_nat k)).
      { unfold sidx. assert (E2 : (48 + k <? 128) = true) by (apply N.ltb_lt; lia). rewrite E2.
        unfold grpz. assert (E3 : (Z.of_N (48 + k) - 48 <? 0)%Z = false) by (apply Z.ltb_ge; lia). rewrite E3.
        f_equal. lia. }
      rewrite Eg, <- !app_assoc. reflexivity.
    + cbn [rw_print rw_eval rwp]. change (36 =? 36) with true. cbv iota.
      destruct (IH (36 :: cur) parts idx Hps Hl) as (parts' & idx' & Hr & Hf).
      exists parts', idx'. split; [exact Hr|]. intros gs. rewrite Hf. cbn [rev]. rewrite <- !app_assoc. reflexivity.
Qed.

(* rule::rule + rule::rewrite_once: a rewrite pattern written as literal text (no dollar sign), group references
   $0..$9 and escaped dollars $$ is accepted, and instantiating it with the groups of a match yields the literal
   text with every $k replaced by group k (empty when the regex has no such group) and every $$ by one dollar *)
Theorem rw_pattern_correct : forall ps, Forall piece_ok ps ->
  exists parts idx, rw_parse (rw_print ps) = Some (parts, idx) /\
                    forall gs, rw_fill parts idx gs = rw_eval ps gs.
Proof.
  intros ps Hok. destruct (rwp_pieces ps [] [] [] Hok eq_refl) as (parts & idx & Hr & Hf).
  exists parts, idx. split; [exact Hr|]. intros gs. rewrite Hf. reflexivity.
Qed.

(* a dollar sign at the very end is the only thing the scanner rejects *)
Lemma rwp_trailing_dollar : forall ps cur parts idx, Forall piece_ok ps -> rwp (rw_print ps ++ [36]) cur parts idx = None.
Proof.
  induction ps as [|p ps IH]; intros cur parts idx Hok; [reflexivity|].
  inversion Hok as [|p' ps' Hp Hps]; subst p' ps'. destruct p as [l|k|]; cbn [rw_print].
  - rewrite <- app_assoc. cbn [piece_ok] in Hp. rewrite (rwp_lit l _ cur parts idx Hp). apply IH. exact Hps.
  - cbn [List.app rwp]. change (36 =? 36) with true. cbv iota. cbn [piece_ok] in Hp.
    assert (E : (48 + k =? 36) = false) by (apply N.eqb_neq; lia). rewrite E. apply IH. exact Hps.
  - cbn [List.app rwp]. change (36 =? 36) with true. cbv iota. apply IH. exact Hps.
Qed.
Theorem rw_parse_trailing_dollar : forall ps, Forall piece_ok ps -> rw_parse (rw_print ps ++ [36]) = None.
Proof. intros ps Hok. apply rwp_trailing_dollar. exact Hok. Qed.
