(* C20 proofs, part 22: the two-list pool behaves as ONE ordered list of mounts, namely order st.  Consequently every
   statement proved about the single-list model (route_request, serve) transfers to the complete pool, whatever mixture of
   factory-, pool- and intrusive_ptr-mounted applications produced the order - in particular the full circle
   url_mapper -> HTTP -> handler for a root application mounted through the legacy call. *)
From CppcmsV Require Import Base.Tac C20.Defs C20.Regex C20.Routes C20.Dispatch C20.Routed C20.Sites C20.Mapper C20.Rewrite C20.RewriteSpec
  C20.Serve C20.HttpRound C20.PoolDefs C20.PoolProofs.
Local Open Scope N_scope.

Definition relabel (ids : list nat) (r : Defs.routed) : Defs.routed :=
  match r with RNoPool => RNoPool | RApp i sub o => RApp (nth i ids 0%nat) sub o end.
Definition relabel_served (ids : list nat) (r : served) : served :=
  match r with Bad400 => Bad400 | Served x => Served (relabel ids x) end.

Lemma scan_apps_combine mps : forall ids k h s p, length ids = length mps ->
  scan_apps (combine mps ids) h s p =
  match pool_lookup_from k mps h s p with Some (i, sub) => Some (nth (i - k) ids 0%nat, sub) | None => None end.
Proof.
  induction mps as [|mp mps IH]; intros ids k h s p Hl; [reflexivity|].
  destruct ids as [|id ids]; [discriminate|]. cbn [combine scan_apps pool_lookup_from].
  destruct (mp_match mp h s p) as [sub|] eqn:Em.
  - rewrite Nat.sub_diag. reflexivity.
  - rewrite (IH ids (S k) h s p) by (cbn in Hl; lia).
    pose proof (pool_from_first mps (S k) h s p) as Hf.
    destruct (pool_lookup_from (S k) mps h s p) as [[i sub]|]; [|reflexivity].
    destruct Hf as (n & mp' & -> & _). replace (S k + n - k)%nat with (S n) by lia. replace (S k + n - S k)%nat with n by lia. reflexivity.
Qed.

(* pools / ids describe order st: the i-th mount of the order has mount point fst (pools_i), identifier ids_i, application snd (pools_i) *)
Definition describes (st : pstate) (appof : nat -> option app) (pools : list (mpoint * app)) (ids : list nat) : Prop :=
  length ids = length pools /\ order st = combine (map fst pools) ids /\
  forall i mp a, nth_error pools i = Some (mp, a) -> appof (nth i ids 0%nat) = Some a.

Theorem route_ps_is_route_request st appof pools ids h s p m :
  describes st appof pools ids ->
  fst (route_ps st appof h s p m) = relabel ids (route_request pools h s p m).
Proof.
  intros (Hl & Ho & Ha). unfold route_ps, route_request.
  destruct (lookup st h s p) as [r st'] eqn:E.
  assert (Hf : r = scan_apps (order st) h s p) by (rewrite <- lookup_fst, E; reflexivity).
  rewrite Ho, (scan_apps_combine (map fst pools) ids 0 h s p) in Hf by (rewrite map_length; exact Hl).
  unfold pool_lookup. pose proof (pool_first_match (map fst pools) h s p) as Hp. unfold pool_lookup in Hp.
  destruct (pool_lookup_from 0 (map fst pools) h s p) as [[i sub]|]; subst r; [|reflexivity].
  rewrite Nat.sub_0_r. destruct Hp as (mp & Hn & _).
  rewrite nth_error_map in Hn. destruct (nth_error pools i) as [[mp' a]|] eqn:En; [|discriminate].
  rewrite (Ha i mp' a En). reflexivity.
Qed.

Theorem serve_ps_is_serve rules names st appof pools ids host uri m :
  describes st appof pools ids ->
  fst (serve_ps rules names st appof host uri m) = relabel_served ids (serve rules names pools host uri m).
Proof.
  intros Hd. unfold serve_ps, serve. destruct (rw_apply rules uri) as [|c u']; [reflexivity|].
  destruct (c =? 47); [|reflexivity]. destruct (cut_at 63 (c :: u')) as [path q]. destruct (pick_script names path) as [sn rest].
  pose proof (route_ps_is_route_request st appof pools ids host sn (urldecode rest) m Hd) as H.
  destruct (route_ps st appof host sn (urldecode rest) m) as [r st']. cbn [fst] in *. rewrite H. reflexivity.
Qed.

(* every state has such a description as soon as appof knows the application of every mount of the order *)
Lemma combine_map_fst_snd {A B} (l : list (A * B)) : combine (map fst l) (map snd l) = l.
Proof. induction l as [|[a b] l IH]; [reflexivity|]. cbn. rewrite IH. reflexivity. Qed.

Theorem every_state_is_described st appof (apps : list app) :
  length apps = length (order st) ->
  (forall i a, nth_error apps i = Some a -> appof (nth i (map snd (order st)) 0%nat) = Some a) ->
  describes st appof (combine (map fst (order st)) apps) (map snd (order st)).
Proof.
  intros Hl Ha. unfold describes.
  assert (Hlen : length (combine (map fst (order st)) apps) = length (order st)) by (rewrite combine_length, map_length; lia).
  split; [rewrite map_length; lia|]. split.
  - assert (E : map fst (combine (map fst (order st)) apps) = map fst (order st)).
    { revert Hl. generalize (order st). clear. intros l. revert apps. induction l as [|[mp id] l IH]; intros apps Hl; [destruct apps; reflexivity|].
      destruct apps as [|a apps]; [discriminate|]. cbn. f_equal. apply IH. cbn in Hl. lia. }
    rewrite E. symmetry. apply combine_map_fst_snd.
  - intros i mp a Hn. apply Ha.
    revert Hn. generalize (map fst (order st)). clear. intros l. revert i apps.
    induction l as [|x l IH]; intros i apps Hn; [destruct i; discriminate|].
    destruct apps as [|b apps]; [destruct i; discriminate|]. destruct i as [|i]; cbn in *; [injection Hn as _ ->; reflexivity | eapply IH; exact Hn].
Qed.

(* full circle for a root application mounted through mount(intrusive_ptr<application>, mount_point()) - the classic way of
   running one long-living asynchronous application *)
Theorem http_round_trip_legacy_mount keep a url m host hid args id :
  (forall c, keep c = true -> c <> 37 /\ c <> 43) -> keep 63 = false ->
  byte_list url -> forallb (fun c => negb (c =? 0)) url = true ->
  (exists t, url = 47 :: t) -> keep 47 = true ->
  dispatch a url (Some m) = Fired hid args ->
  fst (serve_ps [] [] (mount_legacy ps_empty mp_all id) (fun i => if Nat.eqb i id then Some a else None) host (pct_enc keep url) m)
  = Served (RApp id url (Fired hid args)).
Proof.
  intros Hk H63 Hb Hnul Hsl H47 Hd.
  rewrite (serve_ps_is_serve [] [] _ _ [(mp_all, a)] [id]).
  - rewrite (http_round_trip keep a url m host hid args Hk H63 Hb Hnul Hsl H47 Hd). reflexivity.
  - split; [reflexivity|]. split; [reflexivity|]. intros i mp a' Hn. destruct i as [|i]; [|destruct i; discriminate].
    cbn in Hn. injection Hn as _ <-. cbn [nth]. rewrite Nat.eqb_refl. reflexivity.
Qed.

Theorem http_map_dispatch_legacy_mount keep root node up pre pg ps vals m host throws id :
  (forall c, keep c = true -> c <> 37 /\ c <> 43) -> keep 63 = false -> keep 47 = true ->
  site_wf root -> chain root node up pre -> In pg (site_pages node) ->
  params_okb (page_route pg) ps = true ->
  reach root (pre ++ route_fill (page_route pg) ps) (snd pg) ps ->
  let url := pre ++ route_fill (page_route pg) ps in
  byte_list url -> forallb (fun c => negb (c =? 0)) url = true -> (exists t, url = 47 :: t) ->
  map_output throws (real_map (build node, up) vals (page_key pg) ps) = Some url /\
  fst (serve_ps [] [] (mount_legacy ps_empty mp_all id) (fun i => if Nat.eqb i id then Some (build root) else None) host (pct_enc keep url) m)
  = Served (RApp id url (Fired (snd pg) ps)).
Proof.
  intros Hk H63 H47 Hr Hc Hin Hps Hreach url Hb Hnul Hsl.
  destruct (http_map_dispatch keep root node up pre pg ps vals m host throws Hk H63 H47 Hr Hc Hin Hps Hreach Hb Hnul Hsl) as [Hm Hs].
  split; [exact Hm|].
  rewrite (serve_ps_is_serve [] [] _ _ [(mp_all, build root)] [id]).
  - fold url in Hs. rewrite Hs. reflexivity.
  - split; [reflexivity|]. split; [reflexivity|]. intros i mp a' Hn. destruct i as [|i]; [|destruct i; discriminate].
    cbn in Hn. injection Hn as _ <-. cbn [nth]. rewrite Nat.eqb_refl. reflexivity.
Qed.
