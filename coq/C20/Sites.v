(* C20 proofs, part 4: sites -- application trees whose dispatcher and mapper are derived from the same routes
   (Defs.build).  Dispatcher side of map_dispatch: the url of a page (prefixes of the mounts on the way down, then the
   route filled with the parameters) is routed from the root to that page's handler with exactly the parameters,
   for trees of any depth, provided no earlier sibling option matches at any level. *)
From CppcmsV Require Import Base.Tac C20.Defs C20.Regex C20.Routes C20.Dispatch.
Local Open Scope N_scope.

Definition page_route (pg : bytes * route * N) : route := snd (fst pg).
Definition sub_prefix (x : bytes * bytes * site) : bytes := snd (fst x).

(* reach s url h ps: url is the address of the page with handler h and parameters ps somewhere in site s, and at
   every level on the way no earlier option of the dispatcher matches (the decidable side condition) *)
Inductive reach : site -> bytes -> N -> list bytes -> Prop :=
| ReachPage pages subs i key r h ps :
    nth_error pages i = Some (key, r, h) ->
    route_ok r = true -> params_okb r ps = true ->
    (forall j pg, (j < i)%nat -> nth_error pages j = Some pg -> route_match (page_route pg) (route_fill r ps) = None) ->
    reach (Site pages subs) (route_fill r ps) h ps
| ReachSub pages subs i name prefix sub u h ps :
    nth_error subs i = Some (name, prefix, sub) ->
    reach sub u h ps ->
    prefix <> [] -> forallb (cmem cs_dot) u = true ->
    (forall pg, In pg pages -> route_match (page_route pg) (prefix ++ u) = None) ->
    (forall j x, (j < i)%nat -> nth_error subs j = Some x -> route_match (mount_route (sub_prefix x)) (prefix ++ u) = None) ->
    reach (Site pages subs) (prefix ++ u) h ps.

Lemma params_okb_length : forall r ps, params_okb r ps = true -> length ps = nparams r.
Proof.
  induction r as [|e r IH]; intros ps H.
  - cbn in H. apply is_nil_true in H. subst. reflexivity.
  - destruct e as [l|cs plus]; cbn [params_okb nparams] in *.
    + apply IH. exact H.
    + destruct ps as [|p ps]; [discriminate|]. apply andb_true_iff in H. destruct H as [_ H].
      cbn [length]. f_equal. apply IH. exact H.
Qed.

Lemma map_nth_seq {A} (d : A) : forall l, map (fun k => nth k l d) (seq 0 (length l)) = l.
Proof.
  induction l as [|x l IH]; [reflexivity|].
  cbn [length seq map nth]. f_equal. rewrite <- seq_shift, map_map. exact IH.
Qed.

Lemma groups_select_all u ps : map (grp (u :: ps)) (seq 1 (length ps)) = ps.
Proof.
  rewrite <- seq_shift, map_map. unfold grp. cbn [nth]. apply map_nth_seq.
Qed.

Lemma nth_error_split' {A} (l : list A) n a : nth_error l n = Some a ->
  exists l1 l2, l = l1 ++ a :: l2 /\ length l1 = n /\
                (forall j x, nth_error l1 j = Some x -> (j < n)%nat /\ nth_error l j = Some x).
Proof.
  intros H. destruct (nth_error_split l n H) as (l1 & l2 & -> & Hl). exists l1, l2.
  split; [reflexivity|]. split; [exact Hl|]. intros j x Hj.
  assert (Hlt : (j < length l1)%nat) by (apply nth_error_Some; congruence).
  split; [lia|]. rewrite nth_error_app1; assumption.
Qed.

Lemma mount_opts_app : forall l1 k x l2,
  mount_opts k (l1 ++ x :: l2) =
  mount_opts k l1 ++ DM (PRoute (mount_route (sub_prefix x))) 1 (k + length l1) :: mount_opts (S (k + length l1)) l2.
Proof.
  induction l1 as [|[[n p] s] l1 IH]; intros k x l2.
  - cbn [List.app mount_opts length]. destruct x as [[n p] s]. cbn [sub_prefix fst snd]. rewrite Nat.add_0_r. reflexivity.
  - cbn [List.app mount_opts length]. rewrite IH. cbn [List.app].
    replace (S k + length l1)%nat with (k + S (length l1))%nat by lia. reflexivity.
Qed.

Lemma mount_opts_in : forall l k o, In o (mount_opts k l) ->
  exists j x, nth_error l j = Some x /\ o = DM (PRoute (mount_route (sub_prefix x))) 1 (k + j).
Proof.
  induction l as [|[[n p] s] l IH]; intros k o H; [destruct H|].
  cbn [mount_opts] in H. destruct H as [<-|H].
  - exists 0%nat, (n, p, s). cbn [sub_prefix fst snd]. rewrite Nat.add_0_r. auto.
  - destruct (IH _ _ H) as (j & x & Hj & ->). exists (S j), x. split; [exact Hj|].
    replace (S k + j)%nat with (k + S j)%nat by lia. reflexivity.
Qed.

Lemma try_page_none kd pg url c : route_match (page_route pg) url = None -> try_opt kd (page_opt pg) url c = None.
Proof.
  destruct pg as [[k r] h]. cbn [page_route fst snd page_opt try_opt pat_match]. intros ->. reflexivity.
Qed.

Lemma try_mount_none kd x k url c :
  route_match (mount_route (sub_prefix x)) url = None ->
  try_opt kd (DM (PRoute (mount_route (sub_prefix x))) 1 k) url c = None.
Proof. cbn [try_opt pat_match]. intros ->. reflexivity. Qed.

Lemma mount_route_match prefix u : prefix <> [] -> forallb (cmem cs_dot) u = true ->
  pat_match (PRoute (mount_route prefix)) (prefix ++ u) = Some ((prefix ++ u) :: [u]).
Proof.
  intros Hp Hu. pose proof (pat_match_route_groups (mount_route prefix) [u]) as H.
  cbn [mount_route route_fill] in H. rewrite app_nil_r in H. apply H.
  - unfold mount_route. cbn [route_ok]. apply is_nil_false in Hp. rewrite Hp. reflexivity.
  - unfold mount_route. cbn [params_okb]. rewrite Hu. reflexivity.
Qed.

Lemma build_kids pages subs : app_kids (build (Site pages subs)) = map (fun x => build (snd x)) subs.
Proof. reflexivity. Qed.
Lemma build_opts pages subs : app_opts (build (Site pages subs)) = map page_opt pages ++ mount_opts 0 subs.
Proof. reflexivity. Qed.

(* dispatcher side of map_dispatch, any depth *)
Theorem site_dispatch : forall s url h ps, reach s url h ps -> forall c, dispatch (build s) url c = Fired h ps.
Proof.
  induction 1 as [pages subs i key r h ps Hn Hok Hps Hearly
                 |pages subs i name prefix sub u h ps Hn Hr IH Hp Hu Hpages Hearly]; intros c.
  - rewrite dispatch_unfold', build_opts, build_kids.
    destruct (nth_error_split' _ _ _ Hn) as (l1 & l2 & -> & Hl & Hpre).
    rewrite map_app. cbn [map]. rewrite <- app_assoc. cbn [List.app].
    apply scan_prefix_irrelevant.
    + intros o' Hin. apply in_map_iff in Hin. destruct Hin as (pg & <- & Hin).
      apply In_nth_error in Hin. destruct Hin as [j Hj]. destruct (Hpre j pg Hj) as [Hlt Hj'].
      apply try_page_none. apply (Hearly j pg Hlt Hj').
    + cbn [page_opt try_opt]. rewrite pat_match_route_groups by assumption.
      rewrite <- (params_okb_length r ps Hps), groups_select_all. reflexivity.
  - rewrite dispatch_unfold', build_opts, build_kids.
    destruct (nth_error_split' _ _ _ Hn) as (l1 & l2 & -> & Hl & Hpre).
    rewrite mount_opts_app. cbn [sub_prefix fst snd Nat.add]. rewrite app_assoc.
    apply scan_prefix_irrelevant.
    + intros o' Hin. apply in_app_or in Hin. destruct Hin as [Hin|Hin].
      * apply in_map_iff in Hin. destruct Hin as (pg & <- & Hin). apply try_page_none. apply Hpages. exact Hin.
      * apply mount_opts_in in Hin. destruct Hin as (j & x & Hj & ->).
        destruct (Hpre j x Hj) as [Hlt Hj']. apply try_mount_none. apply (Hearly j x Hlt Hj').
    + apply mount_takes_iff. exists ((prefix ++ u) :: [u]). split; [apply mount_route_match; assumption|].
      rewrite nth_error_map. rewrite nth_error_app2 by apply Nat.le_refl. rewrite Nat.sub_diag. cbn [nth_error option_map snd]. unfold grp. cbn [nth]. rewrite IH. reflexivity.
Qed.

(* the side conditions in terms of languages: for routes with unambiguous boundaries "route_match = None" is
   exactly "the url is not in the language of the earlier sibling's pattern" *)
Lemma route_match_none_iff r s : route_ok r = true -> (route_match r s = None <-> ~ lang (route_re r) s).
Proof.
  intros Hok. pose proof (pat_match_none (PRoute r) s Hok) as H. cbn [pat_match pat_re] in H.
  destruct (route_match r s) as [caps|].
  - split; [discriminate|]. intros X. apply H in X. discriminate.
  - split; [intros _; apply H; reflexivity | reflexivity].
Qed.
