(* C20 proofs, part 1: the declarative language of the regex family and the correctness of the
   Brzozowski-derivative matcher full_match (Defs.v) with respect to it. *)
From CppcmsV Require Import Base.Tac C20.Defs.
Local Open Scope N_scope.

Inductive lang : re -> bytes -> Prop :=
| LEps : lang Eps []
| LChr c : lang (Chr c) [c]
| LCls cs c : cmem cs c = true -> lang (Cls cs) [c]
| LCat a b s t : lang a s -> lang b t -> lang (Cat a b) (s ++ t)
| LAltL a b s : lang a s -> lang (Alt a b) s
| LAltR a b s : lang b s -> lang (Alt a b) s
| LStar0 a : lang (Star a) []
| LStarS a s t : lang a s -> lang (Star a) t -> lang (Star a) (s ++ t)
| LPlus a s t : lang a s -> lang (Star a) t -> lang (Plus a) (s ++ t)
| LOpt0 a : lang (Opt a) []
| LOptS a s : lang a s -> lang (Opt a) s
| LGrp a s : lang a s -> lang (Grp a) s.

(* ---------- inversion helpers ---------- *)
Lemma lang_emp s : lang Emp s -> False.
Proof. intros H; inversion H. Qed.
Lemma lang_eps s : lang Eps s -> s = [].
Proof. intros H; inversion H; reflexivity. Qed.
Lemma lang_cat a b u : lang (Cat a b) u -> exists s t, u = s ++ t /\ lang a s /\ lang b t.
Proof. intros H; inversion H; subst; eauto. Qed.
Lemma lang_alt a b u : lang (Alt a b) u -> lang a u \/ lang b u.
Proof. intros H; inversion H; subst; auto. Qed.
Lemma lang_grp a u : lang (Grp a) u <-> lang a u.
Proof. split; intros H; [inversion H; subst; auto | constructor; auto]. Qed.
Lemma lang_opt a u : lang (Opt a) u -> u = [] \/ lang a u.
Proof. intros H; inversion H; subst; auto. Qed.
Lemma lang_plus a u : lang (Plus a) u -> exists s t, u = s ++ t /\ lang a s /\ lang (Star a) t.
Proof. intros H; inversion H; subst; eauto. Qed.

(* a non-empty member of (Star a) starts with a non-empty member of a *)
Lemma star_cons_inv a u : lang (Star a) u -> forall c v, u = c :: v ->
  exists s t, v = s ++ t /\ lang a (c :: s) /\ lang (Star a) t.
Proof.
  intros H. remember (Star a) as r eqn:Er. revert a Er.
  induction H; intros a0 Er; try discriminate; injection Er as ->; intros c v E.
  destruct s as [|c' s'].
  - cbn in E. eapply IHlang2; eauto.
  - cbn in E. injection E as -> <-. exists s', t. auto.
Qed.

Lemma star_app a s t : lang (Star a) s -> lang (Star a) t -> lang (Star a) (s ++ t).
Proof.
  intros H. remember (Star a) as r eqn:Er. revert a Er t.
  induction H; intros a0 Er u Hu; try discriminate; injection Er as ->.
  - exact Hu.
  - rewrite <- app_assoc. apply LStarS; [assumption|]. apply (IHlang2 a0 eq_refl). exact Hu.
Qed.

(* ---------- nullable ---------- *)
Lemma nullable_spec r : nullable r = true <-> lang r [].
Proof.
  induction r; cbn [nullable].
  - split; [discriminate | intros H; inversion H].
  - split; [constructor | reflexivity].
  - split; [discriminate | intros H; inversion H].
  - split; [discriminate | intros H; inversion H].
  - rewrite andb_true_iff, IHr1, IHr2. split.
    + intros [H1 H2]. change (@nil N) with (@nil N ++ []). constructor; assumption.
    + intros H. apply lang_cat in H. destruct H as (s & t & E & Hs & Ht).
      symmetry in E. apply app_eq_nil in E. destruct E as [-> ->]. auto.
  - rewrite orb_true_iff, IHr1, IHr2. split.
    + intros [H|H]; [apply LAltL | apply LAltR]; assumption.
    + apply lang_alt.
  - split; [constructor | reflexivity].
  - rewrite IHr. split.
    + intros H. change (@nil N) with (@nil N ++ []). constructor; [assumption | constructor].
    + intros H. apply lang_plus in H. destruct H as (s & t & E & Hs & Ht).
      symmetry in E. apply app_eq_nil in E. destruct E as [-> ->]. auto.
  - split; [constructor | reflexivity].
  - rewrite IHr. symmetry. apply lang_grp.
Qed.

(* ---------- syntactic equality test ---------- *)
Lemma ranges_eqb_eq : forall x y,
  (fix go (x y : list (N * N)) : bool :=
     match x, y with
     | [], [] => true
     | p :: x', q :: y' => (fst p =? fst q) && (snd p =? snd q) && go x' y'
     | _, _ => false
     end) x y = true -> x = y.
Proof.
  induction x as [|[a b] x IH]; intros [|[c d] y] H; try discriminate; auto.
  cbn [fst snd] in H. apply andb_true_iff in H. destruct H as [H H3].
  apply andb_true_iff in H. destruct H as [H1 H2].
  apply N.eqb_eq in H1, H2. subst. f_equal. apply IH. exact H3.
Qed.

Lemma cset_eqb_eq a b : cset_eqb a b = true -> a = b.
Proof.
  destruct a as [na ra], b as [nb rb]. unfold cset_eqb. cbn [cneg cranges].
  intros H. apply andb_true_iff in H. destruct H as [H1 H2].
  apply eqb_prop in H1. apply ranges_eqb_eq in H2. subst. reflexivity.
Qed.

Lemma re_eqb_eq : forall a b, re_eqb a b = true -> a = b.
Proof.
  induction a; intros b0 H; destruct b0; cbn [re_eqb] in H; try discriminate; auto.
  - apply N.eqb_eq in H. subst. reflexivity.
  - apply cset_eqb_eq in H. subst. reflexivity.
  - apply andb_true_iff in H. destruct H as [H1 H2]. f_equal; auto.
  - apply andb_true_iff in H. destruct H as [H1 H2]. f_equal; auto.
  - f_equal; auto.
  - f_equal; auto.
  - f_equal; auto.
  - f_equal; auto.
Qed.

(* ---------- simplifying constructors ---------- *)
Lemma is_emp_true r : is_emp r = true -> r = Emp.
Proof. destruct r; cbn; try discriminate; auto. Qed.
Lemma is_eps_true r : is_eps r = true -> r = Eps.
Proof. destruct r; cbn; try discriminate; auto. Qed.

Lemma mkcat_spec a b s : lang (mkcat a b) s <-> lang (Cat a b) s.
Proof.
  unfold mkcat.
  destruct (is_emp a) eqn:Ea.
  { apply is_emp_true in Ea. subst. cbn [orb]. split; intros H.
    - inversion H.
    - apply lang_cat in H. destruct H as (x & y & _ & Hx & _). inversion Hx. }
  destruct (is_emp b) eqn:Eb.
  { apply is_emp_true in Eb. subst. cbn [orb]. split; intros H.
    - inversion H.
    - apply lang_cat in H. destruct H as (x & y & _ & _ & Hy). inversion Hy. }
  cbn [orb].
  destruct (is_eps a) eqn:Pa.
  { apply is_eps_true in Pa. subst. split; intros H.
    - change s with ([] ++ s). constructor; [constructor | assumption].
    - apply lang_cat in H. destruct H as (x & y & -> & Hx & Hy). apply lang_eps in Hx. subst. exact Hy. }
  destruct (is_eps b) eqn:Pb.
  { apply is_eps_true in Pb. subst. split; intros H.
    - rewrite <- (app_nil_r s). constructor; [assumption | constructor].
    - apply lang_cat in H. destruct H as (x & y & -> & Hx & Hy). apply lang_eps in Hy. subst.
      rewrite app_nil_r. exact Hx. }
  reflexivity.
Qed.

Lemma mkalt_spec a b s : lang (mkalt a b) s <-> lang (Alt a b) s.
Proof.
  unfold mkalt.
  destruct (is_emp a) eqn:Ea.
  { apply is_emp_true in Ea. subst. split; intros H.
    - apply LAltR; assumption.
    - apply lang_alt in H. destruct H as [H|H]; [inversion H | assumption]. }
  destruct (is_emp b) eqn:Eb.
  { apply is_emp_true in Eb. subst. split; intros H.
    - apply LAltL; assumption.
    - apply lang_alt in H. destruct H as [H|H]; [assumption | inversion H]. }
  destruct (re_eqb a b) eqn:E.
  { apply re_eqb_eq in E. subst. split; intros H.
    - apply LAltL; assumption.
    - apply lang_alt in H. destruct H; assumption. }
  reflexivity.
Qed.

(* ---------- derivative ---------- *)
Lemma deriv_spec : forall r c s, lang (deriv c r) s <-> lang r (c :: s).
Proof.
  induction r; intros c0 s; cbn [deriv].
  - split; intros H; inversion H.
  - split; intros H; inversion H.
  - destruct (N.eqb_spec c0 c) as [->|Hne].
    + split; intros H.
      * apply lang_eps in H. subst. constructor.
      * inversion H; subst. constructor.
    + split; intros H; [inversion H | inversion H; subst; congruence].
  - destruct (cmem cs c0) eqn:Hm.
    + split; intros H.
      * apply lang_eps in H. subst. constructor. exact Hm.
      * inversion H; subst. constructor.
    + split; intros H; [inversion H | inversion H; subst; congruence].
  - (* Cat *)
    assert (Hcat : lang (mkcat (deriv c0 r1) r2) s <->
                   exists x t, s = x ++ t /\ lang r1 (c0 :: x) /\ lang r2 t).
    { rewrite mkcat_spec. split.
      - intros H. apply lang_cat in H. destruct H as (x & t & -> & Hx & Ht).
        apply IHr1 in Hx. eauto.
      - intros (x & t & -> & Hx & Ht). constructor; [apply IHr1; assumption | assumption]. }
    destruct (nullable r1) eqn:Hn.
    + rewrite mkalt_spec. split.
      * intros H. apply lang_alt in H. destruct H as [H|H].
        -- apply Hcat in H. destruct H as (x & t & -> & Hx & Ht).
           change (c0 :: x ++ t) with ((c0 :: x) ++ t). constructor; assumption.
        -- apply IHr2 in H. change (c0 :: s) with ([] ++ c0 :: s).
           constructor; [apply nullable_spec; assumption | assumption].
      * intros H. apply lang_cat in H. destruct H as (x & t & E & Hx & Ht).
        destruct x as [|c' x'].
        -- cbn in E. subst t. apply LAltR. apply IHr2. assumption.
        -- cbn in E. injection E as <- ->. apply LAltL. apply Hcat. eauto.
    + rewrite Hcat. split.
      * intros (x & t & -> & Hx & Ht). change (c0 :: x ++ t) with ((c0 :: x) ++ t). constructor; assumption.
      * intros H. apply lang_cat in H. destruct H as (x & t & E & Hx & Ht).
        destruct x as [|c' x'].
        -- apply nullable_spec in Hx. congruence.
        -- cbn in E. injection E as <- ->. eauto.
  - (* Alt *)
    rewrite mkalt_spec. split.
    + intros H. apply lang_alt in H. destruct H as [H|H].
      * apply LAltL. apply IHr1. assumption.
      * apply LAltR. apply IHr2. assumption.
    + intros H. apply lang_alt in H. destruct H as [H|H].
      * apply LAltL. apply IHr1. assumption.
      * apply LAltR. apply IHr2. assumption.
  - (* Star *)
    rewrite mkcat_spec. split.
    + intros H. apply lang_cat in H. destruct H as (x & t & -> & Hx & Ht).
      apply IHr in Hx. change (c0 :: x ++ t) with ((c0 :: x) ++ t). apply LStarS; assumption.
    + intros H. destruct (star_cons_inv _ _ H c0 s eq_refl) as (x & t & -> & Hx & Ht).
      constructor; [apply IHr; assumption | assumption].
  - (* Plus *)
    rewrite mkcat_spec. split.
    + intros H. apply lang_cat in H. destruct H as (x & t & -> & Hx & Ht).
      apply IHr in Hx. change (c0 :: x ++ t) with ((c0 :: x) ++ t). apply LPlus; assumption.
    + intros H. apply lang_plus in H. destruct H as (x & t & E & Hx & Ht).
      destruct x as [|c' x'].
      * cbn in E. subst t. destruct (star_cons_inv _ _ Ht c0 s eq_refl) as (y & u & -> & Hy & Hu).
        constructor; [apply IHr; assumption | assumption].
      * cbn in E. injection E as <- ->. constructor; [apply IHr; assumption | assumption].
  - (* Opt *)
    rewrite IHr. split.
    + intros H. apply LOptS. assumption.
    + intros H. apply lang_opt in H. destruct H as [H|H]; [discriminate | assumption].
  - (* Grp *)
    rewrite IHr. symmetry. apply lang_grp.
Qed.

(* ---------- the matcher ---------- *)
Theorem full_match_spec : forall s r, full_match r s = true <-> lang r s.
Proof.
  induction s as [|c s IH]; intros r; cbn [full_match].
  - apply nullable_spec.
  - rewrite IH. apply deriv_spec.
Qed.

Corollary full_match_false r s : full_match r s = false <-> ~ lang r s.
Proof.
  rewrite <- full_match_spec. destruct (full_match r s); split; intros H; congruence.
Qed.

(* literal strings *)
Lemma lang_lit l s : lang (lit_re l) s <-> s = l.
Proof.
  revert s. induction l as [|c l IH]; intros s; cbn [lit_re].
  - split; [apply lang_eps | intros ->; constructor].
  - split.
    + intros H. apply lang_cat in H. destruct H as (x & t & -> & Hx & Ht).
      inversion Hx; subst. apply IH in Ht. subst. reflexivity.
    + intros ->. change (c :: l) with ([c] ++ l). constructor; [constructor | apply IH; reflexivity].
Qed.

(* members of (Star (Cls cs)) are exactly the strings over the class *)
Lemma lang_star_cls cs s : lang (Star (Cls cs)) s <-> forallb (cmem cs) s = true.
Proof.
  split.
  - intros H. remember (Star (Cls cs)) as r eqn:Er. revert Er.
    induction H; intros Er; try discriminate; injection Er as ->.
    + reflexivity.
    + inversion H as [| |cs' c' Hm| | | | | | | | |]; subst. cbn [List.app forallb]. rewrite Hm. cbn [andb]. apply IHlang2. reflexivity.
  - induction s as [|c s IH]; cbn [forallb]; intros H.
    + constructor.
    + apply andb_true_iff in H. destruct H as [H1 H2].
      change (c :: s) with ([c] ++ s). apply LStarS; [constructor; assumption | apply IH; assumption].
Qed.

Lemma lang_plus_cls cs s : lang (Plus (Cls cs)) s <-> forallb (cmem cs) s = true /\ s <> [].
Proof.
  split.
  - intros H. apply lang_plus in H. destruct H as (x & t & -> & Hx & Ht).
    inversion Hx as [| |cs' c' Hm| | | | | | | | |]; subst. apply lang_star_cls in Ht. cbn [List.app forallb]. rewrite Hm, Ht. split; [reflexivity | discriminate].
  - intros [H Hne]. destruct s as [|c s]; [congruence|].
    cbn [forallb] in H. apply andb_true_iff in H. destruct H as [H1 H2].
    change (c :: s) with ([c] ++ s). constructor; [constructor; assumption | apply lang_star_cls; assumption].
Qed.
