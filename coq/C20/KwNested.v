(* C20 proofs, part 25: KEYWORD placeholders in the mount urls of the ancestors.  url_mapper::data::map renders the entry of
   the key on the mapper that owns it and hands the text as the single parameter to the PARENT mapper's entry for the child's
   name, and so on up to the topmost mapper - at every level with the SAME two helper maps: the defaults (the values of the
   topmost mapper) and the overrides (the keyword parameters of the key).  So in the generated url EVERY {kw} placeholder at EVERY
   level - the page's own template and the mount url of every ancestor - carries named_value hs ov kw: the override if the key
   names kw, else the default, else the empty string.  And the url routes back: every ancestor's mount pattern captures exactly
   that value and hands exactly the inner url to the child. *)
From CppcmsV Require Import Base.Tac C20.Defs C20.Regex C20.Routes C20.Dispatch C20.Routed C20.Sites C20.Mapper C20.MapKw C20.MapKwNav C20.TmplSpec C20.MountVals.
Local Open Scope N_scope.

(* ---- the mapper side, for arbitrary application trees and arbitrary templates of pieces ---- *)
Definition level_ok (pn : app * bytes) (ps : list tpiece) : Prop :=
  forallb tp_ok ps = true /\ exists kid, get_entry (tbl (fst pn)) (snd pn) 1 = Some (ENT (tparts ps []) (tidx ps) kid).

(* the text travels upwards: the level's pieces are rendered with the text of the level below as parameter 1 *)
Fixpoint nest (hs ov : kv) (lv : list (list tpiece)) (u : bytes) : option bytes :=
  match lv with
  | [] => Some u
  | ps :: r => match render [u] hs ov ps with Some u' => nest hs ov r u' | None => None end
  end.

Definition top_app (cur : app) (up : list (app * bytes)) : app := last (map fst up) cur.

Lemma last_cons {A} : forall (l : list A) (a d : A), last (a :: l) d = last l a.
Proof.
  induction l as [|b l IH]; intros a d; [reflexivity|].
  change (last (a :: b :: l) d) with (last (b :: l) d). rewrite (IH b d), (IH b a). reflexivity.
Qed.

Theorem data_map_nested : forall up lv cur key params hs ov lps c,
  Forall2 level_ok up lv ->
  get_entry (tbl cur) key (N.of_nat (length params)) = Some (ENT (tparts lps []) (tidx lps) c) ->
  forallb tp_ok lps = true ->
  data_map cur up key params hs ov =
  match render params hs ov lps with
  | None => Err EIndex
  | Some u0 => match nest hs ov lv u0 with
               | Some u => Ok (app_root (top_app cur up) ++ u)
               | None => Err EIndex
               end
  end.
Proof.
  induction up as [|[p name] up IH]; intros lv cur key params hs ov lps c Hlv He Hok.
  - inversion Hlv; subst. cbn [data_map]. rewrite He. cbn [e_parts e_idx]. rewrite write_pieces by exact Hok.
    destruct (render params hs ov lps) as [u0|]; reflexivity.
  - inversion Hlv as [|pn ps up' lv' Hl Hrest]; subst. cbn [data_map]. rewrite He. cbn [e_parts e_idx].
    rewrite write_pieces by exact Hok. destruct (render params hs ov lps) as [u0|]; [|reflexivity].
    cbn [rev List.app]. destruct Hl as [Hps [kid Hent]]. cbn [fst snd] in Hent.
    rewrite (IH lv' p name [u0] hs ov ps kid Hrest Hent Hps). cbn [nest].
    unfold top_app. cbn [map fst]. rewrite last_cons.
    destruct (render [u0] hs ov ps) as [u1|]; reflexivity.
Qed.

(* the same through url_mapper::map with the keyword form of ANY key that resolves to (cur, up) / rk: the first |kws|
   parameters are the overrides, the defaults are vals *)
Theorem real_map_keywords_nested l vals key kws kvs params cur up rk lv lps c :
  key <> [] -> noc 59 key = true ->
  kws <> [] -> (forall x, In x kws -> noc 44 x = true) -> (forall x, In x kws -> noc 47 x = true) -> length kvs = length kws ->
  mapper_for_key l key = Ok ((cur, up), rk, []) ->
  Forall2 level_ok up lv ->
  get_entry (tbl cur) rk (N.of_nat (length params)) = Some (ENT (tparts lps []) (tidx lps) c) ->
  forallb tp_ok lps = true ->
  real_map l vals (key ++ 59 :: joinc 44 kws) (kvs ++ params) =
  match render params vals (zip_kw kws kvs) lps with
  | None => Err EIndex
  | Some u0 => match nest vals (zip_kw kws kvs) lv u0 with
               | Some u => Ok (app_root (top_app cur up) ++ u)
               | None => Err EIndex
               end
  end.
Proof.
  intros Hne H59 Hkw H44 H47 Hl Hm Hlv He Hok.
  unfold real_map. rewrite (mapper_for_key_kw l key kws (cur, up) rk Hne H59 Hkw H44 H47 Hm).
  replace (Nat.ltb (length (kvs ++ params)) (length kws)) with false
    by (symmetry; apply Nat.ltb_ge; rewrite app_length; lia).
  rewrite <- Hl, skipn_app, skipn_all, Nat.sub_diag. cbn [skipn List.app fst snd].
  assert (Hz : zip_kw kws (kvs ++ params) = zip_kw kws kvs).
  { clear -Hl. revert kvs Hl. induction kws as [|k kws IH]; intros kvs Hl; [reflexivity|].
    destruct kvs as [|v kvs]; [discriminate|]. cbn [List.app zip_kw]. f_equal. apply IH. cbn in Hl. lia. }
  rewrite Hz. apply (data_map_nested up lv cur rk params vals (zip_kw kws kvs) lps c Hlv He Hok).
Qed.

(* ---- mounts whose url starts with a keyword:  /{kw}<prefix>{1}  in the mapper,  a non-slash run (group 1), the prefix, the rest (group 2, handed to the child) in the dispatcher ---- *)
Definition cs_noslash : cset := CS true [(47, 47)].
Definition kmount_route (pf : bytes) : route := [RLit [47]; RPar cs_noslash true; RLit pf; RPar cs_dot false].
Definition kmount_pieces (kw pf : bytes) : list tpiece := [TLit [47]; TNamed kw; TLit pf; TPos 1].
Definition kvalue_ok (v : bytes) : Prop := v <> [] /\ forallb (cmem cs_noslash) v = true.
Definition slash_first (pf : bytes) : Prop := exists t, pf = 47 :: t.

Lemma kmount_render kw pf u hs ov :
  render [u] hs ov (kmount_pieces kw pf) = Some (route_fill (kmount_route pf) [named_value hs ov kw; u]).
Proof.
  unfold kmount_pieces, kmount_route. cbn [render tp_render route_fill].
  change (N.to_nat 1 - 1)%nat with 0%nat. cbn [nth_error List.app]. rewrite !app_nil_r. reflexivity.
Qed.

(* the mount pattern, matched against the url of its level, captures exactly the keyword value and the inner url *)
Lemma kmount_match pf v u : slash_first pf -> kvalue_ok v -> forallb (cmem cs_dot) u = true ->
  pat_match (PRoute (kmount_route pf)) (route_fill (kmount_route pf) [v; u]) =
  Some (route_fill (kmount_route pf) [v; u] :: [v; u]).
Proof.
  intros [t ->] [Hv1 Hv2] Hu. apply pat_match_route_groups.
  - reflexivity.
  - unfold kmount_route. cbn [params_okb]. rewrite Hv2, Hu. apply is_nil_false in Hv1. rewrite Hv1. reflexivity.
Qed.

(* the way from a node up to the root, innermost level first: up = the mapper parents, chain = (keyword, prefix) of each mount;
   u = the url at the node, uroot = the url at the root *)
Inductive kroute (hs ov : kv) (c : ctx) : app -> bytes -> list (app * bytes) -> list (bytes * bytes) -> bytes -> Prop :=
| KR_top a u : kroute hs ov c a u [] [] u
| KR_up a u p name up kw pf chain uroot j k :
    nth_error (app_opts p) j = Some (DM (PRoute (kmount_route pf)) 2 k) ->
    nth_error (app_kids p) k = Some a ->
    earlier_decline p j (route_fill (kmount_route pf) [named_value hs ov kw; u]) c ->
    slash_first pf -> kvalue_ok (named_value hs ov kw) -> forallb (cmem cs_dot) u = true ->
    kroute hs ov c p (route_fill (kmount_route pf) [named_value hs ov kw; u]) up chain uroot ->
    kroute hs ov c a u ((p, name) :: up) ((kw, pf) :: chain) uroot.

(* the url at the root is what the mapper nests ... *)
Lemma kroute_nest hs ov c a u up chain uroot : kroute hs ov c a u up chain uroot ->
  nest hs ov (map (fun x => kmount_pieces (fst x) (snd x)) chain) u = Some uroot.
Proof.
  induction 1 as [a u | a u p name up kw pf chain uroot j k Hn Hk Hd Hs Hv Hu Hr IH]; [reflexivity|].
  cbn [map nest fst snd]. rewrite kmount_render. exact IH.
Qed.

(* ... and it routes back from the root to whatever the node does with u *)
Lemma kroute_routed hs ov c a u up chain uroot hid args : kroute hs ov c a u up chain uroot ->
  routed a u c hid args -> routed (top_app a up) uroot c hid args.
Proof.
  induction 1 as [a u | a u p name up kw pf chain uroot j k Hn Hk Hd Hs Hv Hu Hr IH]; intros Hrt; [exact Hrt|].
  unfold top_app. cbn [map fst]. rewrite last_cons. apply IH.
  pose proof (kmount_match pf _ u Hs Hv Hu) as Hm.
  eapply RoutedM; [exact Hn | exact Hd | exact (proj1 (pat_match_whole _ _ _ Hm)) | exact Hm | exact Hk |].
  cbn [grp nth]. exact Hrt.
Qed.

(* every level captures its keyword value: the list of (captured keyword value, inner url) from the node upwards *)
Fixpoint kcaptures (hs ov : kv) (chain : list (bytes * bytes)) (u : bytes) : list (bytes * bytes) :=
  match chain with
  | [] => []
  | (kw, pf) :: r => (named_value hs ov kw, u) :: kcaptures hs ov r (route_fill (kmount_route pf) [named_value hs ov kw; u])
  end.
Fixpoint klevel_urls (hs ov : kv) (chain : list (bytes * bytes)) (u : bytes) : list bytes :=
  match chain with
  | [] => []
  | (kw, pf) :: r => let u' := route_fill (kmount_route pf) [named_value hs ov kw; u] in u' :: klevel_urls hs ov r u'
  end.
Lemma kroute_captures hs ov c a u up chain uroot : kroute hs ov c a u up chain uroot ->
  Forall2 (fun lvl cap => pat_match (PRoute (kmount_route (snd (fst lvl)))) (snd lvl) = Some [snd lvl; fst cap; snd cap])
          (combine chain (klevel_urls hs ov chain u)) (kcaptures hs ov chain u).
Proof.
  induction 1 as [a u | a u p name up kw pf chain uroot j k Hn Hk Hd Hs Hv Hu Hr IH]; [constructor|].
  cbn [klevel_urls kcaptures combine]. constructor; [|exact IH].
  cbn [fst snd]. apply kmount_match; assumption.
Qed.

(* ---- composed: url_mapper::map with keyword overrides, any nesting depth ---- *)
Theorem kw_map_dispatch l vals key kws kvs params cur up rk chain lps cc uroot c hid args u0 :
  key <> [] -> noc 59 key = true ->
  kws <> [] -> (forall x, In x kws -> noc 44 x = true) -> (forall x, In x kws -> noc 47 x = true) -> length kvs = length kws ->
  mapper_for_key l key = Ok ((cur, up), rk, []) ->
  Forall2 level_ok up (map (fun x => kmount_pieces (fst x) (snd x)) chain) ->
  get_entry (tbl cur) rk (N.of_nat (length params)) = Some (ENT (tparts lps []) (tidx lps) cc) ->
  forallb tp_ok lps = true ->
  render params vals (zip_kw kws kvs) lps = Some u0 ->
  kroute vals (zip_kw kws kvs) c cur u0 up chain uroot ->
  routed cur u0 c hid args ->
  real_map l vals (key ++ 59 :: joinc 44 kws) (kvs ++ params) = Ok (app_root (top_app cur up) ++ uroot) /\
  dispatch (top_app cur up) uroot c = Fired hid args /\
  Forall2 (fun lvl cap => pat_match (PRoute (kmount_route (snd (fst lvl)))) (snd lvl) = Some [snd lvl; fst cap; snd cap])
          (combine chain (klevel_urls vals (zip_kw kws kvs) chain u0)) (kcaptures vals (zip_kw kws kvs) chain u0) /\
  Forall (fun cap => exists kw, In kw (map fst chain) /\ fst cap = named_value vals (zip_kw kws kvs) kw)
         (kcaptures vals (zip_kw kws kvs) chain u0).
Proof.
  intros Hne H59 Hkw H44 H47 Hl Hm Hlv He Hok Hr Hk Hrt.
  split; [|split; [|split]].
  - rewrite (real_map_keywords_nested l vals key kws kvs params cur up rk _ lps cc Hne H59 Hkw H44 H47 Hl Hm Hlv He Hok).
    rewrite Hr, (kroute_nest _ _ _ _ _ _ _ _ Hk). reflexivity.
  - apply routed_dispatch. eapply kroute_routed; eassumption.
  - eapply kroute_captures; eassumption.
  - clear. generalize u0. induction chain as [|[kw pf] chain IH]; intros u; [constructor|].
    cbn [kcaptures map fst]. constructor.
    + exists kw. split; [left; reflexivity | reflexivity].
    + eapply Forall_impl; [|apply IH]. intros cap (kw' & Hin & E). exists kw'. split; [right; exact Hin | exact E].
Qed.

(* the same for a key without keywords: the defaults decide at every level *)
Theorem map_dispatch_defaults_nested l vals key cur up rk chain lps cc uroot c hid args u0 params :
  mapper_for_key l key = Ok ((cur, up), rk, []) ->
  Forall2 level_ok up (map (fun x => kmount_pieces (fst x) (snd x)) chain) ->
  get_entry (tbl cur) rk (N.of_nat (length params)) = Some (ENT (tparts lps []) (tidx lps) cc) ->
  forallb tp_ok lps = true ->
  render params vals [] lps = Some u0 ->
  kroute vals [] c cur u0 up chain uroot ->
  routed cur u0 c hid args ->
  real_map l vals key params = Ok (app_root (top_app cur up) ++ uroot) /\
  dispatch (top_app cur up) uroot c = Fired hid args.
Proof.
  intros Hm Hlv He Hok Hr Hk Hrt. split.
  - unfold real_map. rewrite Hm. cbn [length Nat.ltb Nat.leb skipn fst snd zip_kw].
    rewrite (data_map_nested up _ cur rk params vals [] lps cc Hlv He Hok), Hr, (kroute_nest _ _ _ _ _ _ _ _ Hk). reflexivity.
  - apply routed_dispatch. eapply kroute_routed; eassumption.
Qed.

(* ---- a concrete instance (used by the non-vacuity example in Props.v): root -> mid -> leaf, both mounts written /{lang}<prefix>{1},
        the page /{lang}/item/{1}; default lang=en ---- *)
Definition k_lang : bytes := [108; 97; 110; 103].
Definition k_leaf : app :=
  App [DH KAssign (PRoute [RLit [47]; RPar cs_noslash true; RLit [47; 105; 116; 101; 109; 47]; RPar cs_digits true]) MAny 7 [1%nat; 2%nat]]
      [MUrl [105; 116; 101; 109] (tmpl_text [TLit [47]; TNamed k_lang; TLit [47; 105; 116; 101; 109; 47]; TPos 1])] [] [].
Definition k_mid : app :=
  App [DM (PRoute (kmount_route [47; 108; 101; 97; 102])) 2 0]
      [MMount [108; 101; 97; 102] (tmpl_text (kmount_pieces k_lang [47; 108; 101; 97; 102])) 0] [k_leaf] [].
Definition k_root : app :=
  App [DM (PRoute (kmount_route [47; 109; 105; 100])) 2 0]
      [MMount [109; 105; 100] (tmpl_text (kmount_pieces k_lang [47; 109; 105; 100])) 0] [k_mid] [].
Definition k_vals : kv := [(k_lang, [101; 110])].
Definition k_up : list (app * bytes) := [(k_mid, [108; 101; 97; 102]); (k_root, [109; 105; 100])].
Definition k_chain : list (bytes * bytes) := [(k_lang, [47; 108; 101; 97; 102]); (k_lang, [47; 109; 105; 100])].
Definition k_key : bytes := [47; 109; 105; 100; 47; 108; 101; 97; 102; 47; 105; 116; 101; 109].
Definition k_url (v : bytes) : bytes :=
  [47] ++ v ++ [47; 109; 105; 100; 47] ++ v ++ [47; 108; 101; 97; 102; 47] ++ v ++ [47; 105; 116; 101; 109; 47; 55].

Lemma k_example_route : kroute k_vals (zip_kw [k_lang] [[114; 117]]) (Some [71; 69; 84]) k_leaf
                               [47; 114; 117; 47; 105; 116; 101; 109; 47; 55] k_up k_chain (k_url [114; 117]).
Proof.
  eapply (KR_up _ _ _ k_leaf _ k_mid _ _ k_lang [47; 108; 101; 97; 102] _ _ 0%nat 0%nat); try reflexivity.
  - intros j o Hj. lia.
  - eexists; reflexivity.
  - split; [discriminate | reflexivity].
  - eapply (KR_up _ _ _ k_mid _ k_root _ _ k_lang [47; 109; 105; 100] _ _ 0%nat 0%nat); try reflexivity.
    + intros j o Hj. lia.
    + eexists; reflexivity.
    + split; [discriminate | reflexivity].
    + apply KR_top.
Qed.

Lemma k_example_levels : Forall2 level_ok k_up (map (fun x => kmount_pieces (fst x) (snd x)) k_chain).
Proof. repeat constructor; eexists; vm_compute; reflexivity. Qed.

(* ---- values set before the mount (MountVals.collect_vals): what the topmost mapper holds after construction ---- *)
Lemma kv_find_app k : forall a b, kv_find k (a ++ b) = match kv_find k b with Some x => Some x | None => kv_find k a end.
Proof.
  induction a as [|[k' v] a IH]; intros b; cbn [List.app kv_find].
  - destruct (kv_find k b); reflexivity.
  - rewrite IH. destruct (kv_find k b); reflexivity.
Qed.

(* the node's own values win over everything that came up from its children; a key the node does not set is looked up in what
   the children brought (in mount order, the later mount winning) *)
Theorem premount_values_precedence f a own vk k :
  kv_find k (collect_vals (S f) a (VT own vk)) =
  match kv_find k own with
  | Some x => Some x
  | None => kv_find k (flat_map (fun m => match m with
                                          | MMount _ _ i => match nth_error (app_kids a) i, nth_error vk i with
                                                            | Some kid, Some kv' => collect_vals f kid kv'
                                                            | _, _ => []
                                                            end
                                          | MUrl _ _ => []
                                          end) (app_ments a))
  end.
Proof. cbn [collect_vals]. apply kv_find_app. Qed.
