(* C20: executable model of URL routing and URL generation in CppCMS.
   - regex layer: small AST, declarative language is in Proofs, here the Brzozowski-derivative matcher,
     the printer that produces the PCRE pattern text handed to booster::regex, and the route family
     (literal / captured-class elements) with its linear capture-extracting matcher;
   - url_dispatcher (src/url_dispatcher.cpp): ordered options, assign-style and map-style handlers,
     method filters, mounted sub-dispatchers, application::main 404 behaviour;
   - mount_point::match and the applications_pool first-match scan;
   - url_mapper (src/url_mapper.cpp): template parsing, key tables with arity overloads, mounted
     children, key navigation (absolute, relative, dot, dot-dot, keyword parameters), parent walk.
   Bytes are N, strings are list N.  No proofs here. *)
From Coq Require Import NArith ZArith List Bool.
Import ListNotations.
Local Open Scope N_scope.

Definition bytes := list N.

Fixpoint beq (a b : bytes) : bool :=
  match a, b with
  | [], [] => true
  | x :: a', y :: b' => (x =? y) && beq a' b'
  | _, _ => false
  end.

(* ------------------------------------------------------------------------------------------ *)
(* character sets and regular expressions                                                      *)
(* ------------------------------------------------------------------------------------------ *)
Record cset := CS { cneg : bool; cranges : list (N * N) }.
Definition in_range (c : N) (r : N * N) : bool := (fst r <=? c) && (c <=? snd r).
Definition cmem (cs : cset) (c : N) : bool := xorb (cneg cs) (existsb (in_range c) (cranges cs)).

Inductive re :=
| Emp | Eps | Chr (c : N) | Cls (cs : cset)
| Cat (a b : re) | Alt (a b : re) | Star (a : re) | Plus (a : re) | Opt (a : re) | Grp (a : re).

Fixpoint nullable (r : re) : bool :=
  match r with
  | Emp => false | Eps => true | Chr _ => false | Cls _ => false
  | Cat a b => nullable a && nullable b
  | Alt a b => nullable a || nullable b
  | Star _ => true | Plus a => nullable a | Opt _ => true | Grp a => nullable a
  end.

Definition cset_eqb (a b : cset) : bool :=
  Bool.eqb (cneg a) (cneg b) &&
  (fix go (x y : list (N * N)) : bool :=
     match x, y with
     | [], [] => true
     | p :: x', q :: y' => (fst p =? fst q) && (snd p =? snd q) && go x' y'
     | _, _ => false
     end) (cranges a) (cranges b).

Fixpoint re_eqb (a b : re) : bool :=
  match a, b with
  | Emp, Emp => true | Eps, Eps => true
  | Chr c, Chr d => c =? d
  | Cls x, Cls y => cset_eqb x y
  | Cat a1 a2, Cat b1 b2 => re_eqb a1 b1 && re_eqb a2 b2
  | Alt a1 a2, Alt b1 b2 => re_eqb a1 b1 && re_eqb a2 b2
  | Star a1, Star b1 => re_eqb a1 b1
  | Plus a1, Plus b1 => re_eqb a1 b1
  | Opt a1, Opt b1 => re_eqb a1 b1
  | Grp a1, Grp b1 => re_eqb a1 b1
  | _, _ => false
  end.

Definition is_emp (r : re) : bool := match r with Emp => true | _ => false end.
Definition is_eps (r : re) : bool := match r with Eps => true | _ => false end.
(* simplifying constructors: keep derivatives small *)
Definition mkcat (a b : re) : re :=
  if is_emp a || is_emp b then Emp else if is_eps a then b else if is_eps b then a else Cat a b.
Definition mkalt (a b : re) : re :=
  if is_emp a then b else if is_emp b then a else if re_eqb a b then a else Alt a b.

Fixpoint deriv (c : N) (r : re) : re :=
  match r with
  | Emp => Emp | Eps => Emp
  | Chr d => if c =? d then Eps else Emp
  | Cls cs => if cmem cs c then Eps else Emp
  | Cat a b => if nullable a then mkalt (mkcat (deriv c a) b) (deriv c b) else mkcat (deriv c a) b
  | Alt a b => mkalt (deriv c a) (deriv c b)
  | Star a => mkcat (deriv c a) (Star a)
  | Plus a => mkcat (deriv c a) (Star a)
  | Opt a => deriv c a
  | Grp a => deriv c a
  end.

Fixpoint full_match (r : re) (s : bytes) : bool :=
  match s with
  | [] => nullable r
  | c :: t => full_match (deriv c r) t
  end.

(* ---- printer: the PCRE pattern text ---- *)
Definition hexd (n : N) : N := if n <? 10 then 48 + n else 87 + n.
Definition esc_byte (c : N) : bytes := [92; 120; hexd (c / 16); hexd (c mod 16)].
Definition is_alnum (c : N) : bool :=
  ((48 <=? c) && (c <=? 57)) || ((65 <=? c) && (c <=? 90)) || ((97 <=? c) && (c <=? 122)).
Definition lit_byte (c : N) : bytes := if is_alnum c || (c =? 47) || (c =? 95) then [c] else esc_byte c.
Definition cls_byte (c : N) : bytes := if is_alnum c then [c] else esc_byte c.
Definition range_print (r : N * N) : bytes :=
  if fst r =? snd r then cls_byte (fst r) else cls_byte (fst r) ++ [45] ++ cls_byte (snd r).
Definition cs_digits : cset := CS false [(48, 57)].
Definition cs_dot : cset := CS true [(10, 10)].
Definition cprint (cs : cset) : bytes :=
  if cset_eqb cs cs_digits then [92; 100]                       (* \d *)
  else if cset_eqb cs cs_dot then [46]                          (* .  *)
  else match cranges cs with
       | [] => if cneg cs then [91] ++ range_print (0, 255) ++ [93]
               else [91; 94] ++ range_print (0, 255) ++ [93]
       | rs => [91] ++ (if cneg cs then [94] else []) ++ flat_map range_print rs ++ [93]
       end.
Definition is_atom (r : re) : bool :=
  match r with Chr _ => true | Cls _ => true | Grp _ => true | _ => false end.
Definition ncgroup (b : bytes) : bytes := [40; 63; 58] ++ b ++ [41].       (* (?:...) *)
Fixpoint rprint (r : re) : bytes :=
  match r with
  | Emp => [91; 94] ++ range_print (0, 255) ++ [93]
  | Eps => []
  | Chr c => lit_byte c
  | Cls cs => cprint cs
  | Cat a b => rprint a ++ rprint b
  | Alt a b => ncgroup (rprint a ++ [124] ++ rprint b)
  | Star a => (if is_atom a then rprint a else ncgroup (rprint a)) ++ [42]
  | Plus a => (if is_atom a then rprint a else ncgroup (rprint a)) ++ [43]
  | Opt a => (if is_atom a then rprint a else ncgroup (rprint a)) ++ [63]
  | Grp a => [40] ++ rprint a ++ [41]
  end.

(* ------------------------------------------------------------------------------------------ *)
(* the route family                                                                            *)
(* ------------------------------------------------------------------------------------------ *)
Inductive relem := RLit (l : bytes) | RPar (cs : cset) (plus : bool).   (* (cs+) or (cs* ) *)
Definition route := list relem.

Fixpoint lit_re (l : bytes) : re := match l with [] => Eps | c :: t => Cat (Chr c) (lit_re t) end.
Definition elem_re (e : relem) : re :=
  match e with
  | RLit l => lit_re l
  | RPar cs true => Grp (Plus (Cls cs))
  | RPar cs false => Grp (Star (Cls cs))
  end.
Fixpoint route_re (r : route) : re := match r with [] => Eps | e :: t => Cat (elem_re e) (route_re t) end.

Fixpoint span (cs : cset) (s : bytes) : bytes * bytes :=
  match s with
  | [] => ([], [])
  | c :: t => if cmem cs c then let (a, b) := span cs t in (c :: a, b) else ([], s)
  end.
Fixpoint strip_prefix (p s : bytes) : option bytes :=
  match p, s with
  | [], _ => Some s
  | x :: p', y :: s' => if x =? y then strip_prefix p' s' else None
  | _ :: _, [] => None
  end.
Definition is_nil {A} (l : list A) : bool := match l with [] => true | _ => false end.

(* captures of a route on a string: every parameter takes the maximal run of its class *)
Fixpoint route_match (r : route) (s : bytes) : option (list bytes) :=
  match r with
  | [] => if is_nil s then Some [] else None
  | RLit l :: r' => match strip_prefix l s with Some s' => route_match r' s' | None => None end
  | RPar cs plus :: r' =>
      let (a, b) := span cs s in
      if plus && is_nil a then None
      else match route_match r' b with Some caps => Some (a :: caps) | None => None end
  end.

(* side condition that makes the parse unique: a parameter is followed by the end of the route or by
   a non-empty literal whose first byte is outside the class; no empty literals *)
Fixpoint route_ok (r : route) : bool :=
  match r with
  | [] => true
  | RLit l :: r' => negb (is_nil l) && route_ok r'
  | RPar cs _ :: r' =>
      match r' with
      | [] => true
      | RLit (c :: _) :: _ => negb (cmem cs c) && route_ok r'
      | _ => false
      end
  end.

Fixpoint nparams (r : route) : nat :=
  match r with [] => O | RLit _ :: t => nparams t | RPar _ _ :: t => S (nparams t) end.

(* url of a route for given parameter values; template for the mapper *)
Fixpoint route_fill (r : route) (ps : list bytes) : bytes :=
  match r with
  | [] => []
  | RLit l :: t => l ++ route_fill t ps
  | RPar _ _ :: t => match ps with p :: ps' => p ++ route_fill t ps' | [] => route_fill t [] end
  end.
Definition dec (i : N) : bytes := if i <? 10 then [48 + i] else [48 + i / 10; 48 + i mod 10].
Fixpoint route_template_from (i : N) (r : route) : bytes :=
  match r with
  | [] => []
  | RLit l :: t => l ++ route_template_from i t
  | RPar _ _ :: t => [123] ++ dec i ++ [125] ++ route_template_from (i + 1) t
  end.
Definition route_template (r : route) : bytes := route_template_from 1 r.

Fixpoint params_okb (r : route) (ps : list bytes) : bool :=
  match r with
  | [] => is_nil ps
  | RLit _ :: t => params_okb t ps
  | RPar cs plus :: t =>
      match ps with
      | p :: ps' => forallb (cmem cs) p && negb (plus && is_nil p) && params_okb t ps'
      | [] => false
      end
  end.

(* ------------------------------------------------------------------------------------------ *)
(* url_dispatcher                                                                              *)
(* ------------------------------------------------------------------------------------------ *)
Inductive pattern := PRoute (r : route) | PRe (e : re).
Definition pat_re (p : pattern) : re := match p with PRoute r => route_re r | PRe e => e end.
Definition pat_print (p : pattern) : bytes := rprint (pat_re p).
(* groups 0,1,2,... of a successful whole-string match; for PRe only group 0 is specified *)
Definition pat_match (p : pattern) (s : bytes) : option (list bytes) :=
  match p with
  | PRoute r => match route_match r s with Some caps => Some (s :: caps) | None => None end
  | PRe e => if full_match e s then Some [s] else None
  end.
Definition grp (gs : list bytes) (k : nat) : bytes := nth k gs [].

Inductive mfilter := MAny | MPat (e : re).
(* KAssign: url_dispatcher::assign (strings, no checks); KMap: url_dispatcher::map with std::string parameters;
   KMapNum t: url_dispatcher::map with parameters of the integer type t (the generic parse_url_parameter: `parameter >> value`
   through an istream, everything consumed); KMapInt = KMapNum TInt *)
Inductive numty := TInt | TUInt | TLLong | TULLong | TShort | TUShort.
Inductive hkind := KAssign | KMap | KMapNum (t : numty).
Notation KMapInt := (KMapNum TInt).
Inductive dopt :=
| DH (k : hkind) (p : pattern) (mf : mfilter) (hid : N) (sel : list nat)
| DM (p : pattern) (sel : nat) (kid : nat).
Inductive ment := MUrl (key tmpl : bytes) | MMount (name tmpl : bytes) (kid : nat).
Inductive app := App (opts : list dopt) (ments : list ment) (kids : list app) (rootp : bytes).

Definition app_opts (a : app) := match a with App o _ _ _ => o end.
Definition app_ments (a : app) := match a with App _ m _ _ => m end.
Definition app_kids (a : app) := match a with App _ _ k _ => k end.
Definition app_root (a : app) := match a with App _ _ _ r => r end.

(* request context: None = application without an assigned http::context, Some m = request method m *)
Definition ctx := option bytes.
Inductive outcome := Fired (hid : N) (args : list bytes) | NotFound | Threw | BadKid.

(* text validation performed by map-style handlers on each string parameter (encoding::valid with the
   ISO-8859-1 validator of private/encoding_validators.h, which is what the harness configures) *)
Definition latin1_ok (c : N) : bool :=
  (c =? 9) || (c =? 10) || (c =? 13) || negb ((c <? 32) || ((127 <=? c) && (c <? 160))).
Definition valid_text (s : bytes) : bool := forallb latin1_ok s.

(* parse_url_parameter(const_char_istream &, int &): `parameter >> value` must succeed and consume everything.
   operator>>(int) in the classic locale: leading white space is skipped, an optional sign, at least one decimal
   digit, the value must fit an int; nothing may follow the digits. *)
Definition dec_digit (c : N) : bool := (48 <=? c) && (c <=? 57).
Definition dec_val (s : bytes) : N := fold_left (fun acc c => acc * 10 + (c - 48)) s 0.
Definition is_space (c : N) : bool := ((9 <=? c) && (c <=? 13)) || (c =? 32).
Fixpoint skip_ws (s : bytes) : bytes :=
  match s with [] => [] | c :: t => if is_space c then skip_ws t else s end.
(* num_get<char>::_M_extract_int of libstdc++ (bits/locale_facets.tcc), base 10, no grouping: optional sign, digits, the
   magnitude is accumulated with an overflow test against the largest magnitude of the type; signed types: the value must be
   in the range of the type (short and int are read as long and then range-checked by operator>>, which is the same thing);
   UNSIGNED types accept a minus sign: the magnitude must fit the type and the result is its negation modulo 2^bits
   (-1 reads as the maximum, -0 as 0) *)
Definition nt_bits (t : numty) : Z :=
  match t with TInt | TUInt => 32 | TLLong | TULLong => 64 | TShort | TUShort => 16 end%Z.
Definition nt_signed (t : numty) : bool :=
  match t with TInt | TLLong | TShort => true | TUInt | TULLong | TUShort => false end.
Definition parse_num (t : numty) (s : bytes) : option Z :=
  let s1 := skip_ws s in
  let '(neg, ds) := match s1 with
                    | [] => (false, s1)
                    | c :: t => if c =? 45 then (true, t) else if c =? 43 then (false, t) else (false, s1)
                    end in
  if is_nil ds then None
  else if negb (forallb dec_digit ds) then None
  else let v := Z.of_N (dec_val ds) in
       if nt_signed t then
         let z := if neg then (- v)%Z else v in
         if ((z <? - 2 ^ (nt_bits t - 1)) || (2 ^ (nt_bits t - 1) - 1 <? z))%Z then None else Some z
       else
         if (2 ^ nt_bits t - 1 <? v)%Z then None
         else Some (if neg then ((2 ^ nt_bits t - v) mod 2 ^ nt_bits t)%Z else v).
Definition parse_int : bytes -> option Z := parse_num TInt.
Fixpoint parse_nums (t : numty) (l : list bytes) : option (list Z) :=
  match l with
  | [] => Some []
  | s :: r => match parse_num t s, parse_nums t r with Some z, Some zs => Some (z :: zs) | _, _ => None end
  end.
Definition parse_ints : list bytes -> option (list Z) := parse_nums TInt.
(* the harness prints an int argument in decimal *)
Fixpoint digits (fuel : nat) (n : N) (acc : bytes) : bytes :=
  match fuel with
  | O => acc
  | S f => let acc' := (48 + n mod 10) :: acc in if n / 10 =? 0 then acc' else digits f (n / 10) acc'
  end.
Definition show_int (z : Z) : bytes :=
  if (z <? 0)%Z then 45 :: digits 24 (Z.to_N (- z)) [] else digits 24 (Z.to_N z) [].

(* what the handler receives for the selected groups raw, or None = the option declines (returns false) *)
Definition arg_conv (k : hkind) (raw : list bytes) : option (list bytes) :=
  match k with
  | KAssign => Some raw
  | KMap => if forallb valid_text raw then Some raw else None
  | KMapNum t => if forallb valid_text raw then
                   match parse_nums t raw with Some zs => Some (map show_int zs) | None => None end
                 else None
  end.

Definition method_ok (mf : mfilter) (m : bytes) : bool :=
  match mf with MAny => true | MPat e => full_match e m end.

Definition kid_fn := bytes -> ctx -> outcome.
Definition bad_kid : kid_fn := fun _ _ => BadKid.

(* option::dispatch of one registered option: None = "returned false", continue with the next one *)
Definition try_opt (kd : list kid_fn) (o : dopt) (url : bytes) (c : ctx) : option outcome :=
  match o with
  | DH KAssign p _ hid sel =>
      match pat_match p url with
      | Some gs => Some (Fired hid (map (grp gs) sel))
      | None => None
      end
  | DH KMap p mf hid sel =>
      match c with
      | None => None
      | Some m =>
          if method_ok mf m then
            match pat_match p url with
            | Some gs => let args := map (grp gs) sel in
                         if forallb valid_text args then Some (Fired hid args) else None
            | None => None
            end
          else None
      end
  | DH (KMapNum t) p mf hid sel =>
      match c with
      | None => None
      | Some m =>
          if method_ok mf m then
            match pat_match p url with
            | Some gs => match arg_conv (KMapNum t) (map (grp gs) sel) with
                         | Some args => Some (Fired hid args)
                         | None => None
                         end
            | None => None
            end
          else None
      end
  | DM p sel k =>
      match pat_match p url with
      | Some gs => Some (nth k kd bad_kid (grp gs sel) c)
      | None => None
      end
  end.

Fixpoint scan (kd : list kid_fn) (opts : list dopt) (url : bytes) (c : ctx) : outcome :=
  match opts with
  | [] => NotFound
  | o :: rest => match try_opt kd o url c with Some out => out | None => scan kd rest url c end
  end.

(* application::main: a failed dispatch writes a 404 response, which needs a context *)
Definition finish404 (c : ctx) (o : outcome) : outcome :=
  match o with
  | NotFound => match c with Some _ => NotFound | None => Threw end
  | _ => o
  end.

Fixpoint dispatch (a : app) : bytes -> ctx -> outcome :=
  match a with
  | App opts _ kids _ =>
      let kd := map (fun k url c => finish404 c (dispatch k url c)) kids in
      fun url c => scan kd opts url c
  end.
Definition app_main (a : app) (url : bytes) (c : ctx) : outcome := finish404 c (dispatch a url c).

(* ------------------------------------------------------------------------------------------ *)
(* mount points and the applications pool                                                      *)
(* ------------------------------------------------------------------------------------------ *)
Fixpoint cstr (s : bytes) : bytes :=
  match s with [] => [] | c :: t => if c =? 0 then [] else c :: cstr t end.

Record mpoint := MP { mp_host : option pattern; mp_script : option pattern; mp_path : option pattern;
                      mp_group : nat; mp_selpath : bool }.
Definition opt_full (o : option pattern) (s : bytes) : bool :=
  match o with None => true | Some p => match pat_match p s with Some _ => true | None => false end end.
Definition mp_selected (o : option pattern) (g : nat) (s : bytes) : option bytes :=
  match o with
  | None => Some s
  | Some p => match pat_match p s with Some gs => Some (grp gs g) | None => None end
  end.
Definition mp_match (mp : mpoint) (h s p : bytes) : option bytes :=
  let h := cstr h in let s := cstr s in let p := cstr p in
  if negb (opt_full (mp_host mp) h) then None
  else if mp_selpath mp then
         (if opt_full (mp_script mp) s then mp_selected (mp_path mp) (mp_group mp) p else None)
       else
         (if opt_full (mp_path mp) p then mp_selected (mp_script mp) (mp_group mp) s else None).

Fixpoint pool_lookup_from (i : nat) (mps : list mpoint) (h s p : bytes) : option (nat * bytes) :=
  match mps with
  | [] => None
  | mp :: rest => match mp_match mp h s p with
                  | Some sub => Some (i, sub)
                  | None => pool_lookup_from (S i) rest h s p
                  end
  end.
Definition pool_lookup := pool_lookup_from 0.

Inductive routed := RNoPool | RApp (i : nat) (sub : bytes) (o : outcome).
Definition route_request (pools : list (mpoint * app)) (h s p m : bytes) : routed :=
  match pool_lookup (map fst pools) h s p with
  | None => RNoPool
  | Some (i, sub) =>
      match nth_error pools i with
      | Some (_, a) => RApp i sub (app_main a sub (Some m))
      | None => RNoPool
      end
  end.

(* ------------------------------------------------------------------------------------------ *)
(* url_mapper                                                                                  *)
(* ------------------------------------------------------------------------------------------ *)
Definition is_digit (c : N) : bool := (48 <=? c) && (c <=? 57).
Definition atoi (s : bytes) : N := fold_left (fun acc c => acc * 10 + (c - 48)) s 0.

Record entry := ENT { e_parts : list bytes; e_idx : list (N * bytes); e_child : option nat }.

(* url_mapper::real_assign, the template scanner.  acc holds the current chunk reversed. *)
Fixpoint ptmpl (s : bytes) (inbrace : bool) (acc : bytes) (parts : list bytes) (idx : list (N * bytes))
         (maxi : N) : option (list bytes * list (N * bytes) * N) :=
  match s with
  | [] => if inbrace then None else Some (rev (rev acc :: parts), rev idx, maxi)
  | c :: t =>
      if inbrace then
        if c =? 125 then
          let hkey := rev acc in
          if is_nil hkey then None
          else if forallb is_digit hkey then
                 let i := atoi hkey in
                 if i =? 0 then None else ptmpl t false [] parts ((i, []) :: idx) (N.max i maxi)
               else ptmpl t false [] parts ((0, hkey) :: idx) maxi
        else ptmpl t true (c :: acc) parts idx maxi
      else if c =? 123 then ptmpl t true [] (rev acc :: parts) idx maxi
      else if c =? 125 then None
      else ptmpl t false (c :: acc) parts idx maxi
  end.
Definition parse_tmpl (s : bytes) := ptmpl s false [] [] [] 0.

Record tent := TE { t_key : bytes; t_ar : N; t_e : entry }.
Definition table := list tent.      (* newest first *)

Definition key_bad (key : bytes) : bool :=
  existsb (fun c => (c =? 47) || (c =? 59) || (c =? 44)) key || beq key [46] || beq key [46; 46].

Definition has_key (t : table) (k : bytes) : bool := existsb (fun x => beq (t_key x) k) t.
Definition get_entry (t : table) (k : bytes) (n : N) : option entry :=
  match find (fun x => beq (t_key x) k && (t_ar x =? n)) t with Some x => Some (t_e x) | None => None end.
Definition child_of (t : table) (k : bytes) : option nat :=
  match find (fun x => beq (t_key x) k) t with Some x => e_child (t_e x) | None => None end.

Definition table_add (t : table) (m : ment) : option table :=
  match m with
  | MUrl key tmpl =>
      if key_bad key then None else
      match parse_tmpl tmpl with
      | None => None
      | Some (parts, idx, mx) =>
          match get_entry t key 1 with
          | Some (ENT _ _ (Some _)) => None
          | _ => Some (TE key mx (ENT parts idx None) :: t)
          end
      end
  | MMount name tmpl kid =>
      match parse_tmpl tmpl with
      | None => None
      | Some (parts, idx, mx) =>
          if negb (mx =? 1) then None
          else if has_key t name then None
          else Some (TE name 1 (ENT parts idx (Some kid)) :: t)
      end
  end.
Fixpoint table_build (t : table) (ms : list ment) : option table :=
  match ms with
  | [] => Some t
  | m :: r => match table_add t m with Some t' => table_build t' r | None => None end
  end.
Definition app_table (a : app) : option table := table_build [] (app_ments a).

(* every mapper table of the tree can be constructed (no exception while registering) *)
Fixpoint build_ok (a : app) : bool :=
  match a with
  | App _ ms kids _ =>
      (match table_build [] ms with Some _ => true | None => false end) && forallb build_ok kids
  end.

(* a location in the mapper hierarchy: the current application and the chain of mapper parents,
   innermost first, each with the name under which the next lower application is mounted in it *)
Definition loc := (app * list (app * bytes))%type.
Definition topmost (l : loc) : loc :=
  match rev (snd l) with [] => (fst l, []) | (p, _) :: _ => (p, []) end.

Inductive merr := EKey | ENoParent | ENotChild | EKeywords | EIndex | EBuild.
Inductive res (A : Type) := Ok (x : A) | Err (e : merr).
Arguments Ok {A} x. Arguments Err {A} e.

Definition tbl (a : app) : table := match app_table a with Some t => t | None => [] end.

Definition go_parent (l : loc) : res loc :=
  match snd l with [] => Err ENoParent | (p, _) :: up => Ok (p, up) end.
Definition go_child (l : loc) (name : bytes) : res loc :=
  match get_entry (tbl (fst l)) name 1 with
  | None => Err EKey
  | Some e =>
      match e_child e with
      | None => Err ENotChild
      | Some k => match nth_error (app_kids (fst l)) k with
                  | Some kid => Ok (kid, (fst l, name) :: snd l)
                  | None => Err ENotChild
                  end
      end
  end.

Fixpoint split_on (c : N) (s : bytes) : list bytes :=
  match s with
  | [] => [[]]
  | x :: t => if x =? c then [] :: split_on c t
              else match split_on c t with h :: r => (x :: h) :: r | [] => [[x]] end
  end.
(* first occurrence of c: (before, Some after) or (s, None) *)
Fixpoint cut_at (c : N) (s : bytes) : bytes * option bytes :=
  match s with
  | [] => ([], None)
  | x :: t => if x =? c then ([], Some t) else let (a, b) := cut_at c t in (x :: a, b)
  end.

Fixpoint walk (l : loc) (chunks : list bytes) : res loc :=
  match chunks with
  | [] => Ok l
  | ch :: r =>
      if beq ch [46] then walk l r
      else if beq ch [46; 46] then match go_parent l with Ok l' => walk l' r | Err e => Err e end
      else match go_child l ch with Ok l' => walk l' r | Err e => Err e end
  end.

(* url_mapper::get_mapper_for_key *)
Definition mapper_for_key (l : loc) (key : bytes) : res (loc * bytes * list bytes) :=
  match key with
  | [] => Ok (l, [], [])
  | c0 :: key' =>
      let (l0, rest) := if c0 =? 47 then (topmost l, key') else (l, key) in
      let chunks := split_on 47 rest in
      let dirs := removelast chunks in
      let final := last chunks [] in
      match walk l0 dirs with
      | Err e => Err e
      | Ok l1 =>
          let (rk, after) := cut_at 59 final in
          let kws := match after with None => [] | Some a => split_on 44 a end in
          let step :=
              if beq rk [46] then Ok (l1, [])
              else if beq rk [46; 46] then match go_parent l1 with Ok l2 => Ok (l2, []) | Err e => Err e end
              else Ok (l1, rk) in
          match step with
          | Err e => Err e
          | Ok (l2, rk2) =>
              match child_of (tbl (fst l2)) rk2 with
              | Some k => match nth_error (app_kids (fst l2)) k with
                          | Some kid => Ok ((kid, (fst l2, rk2) :: snd l2), [], kws)
                          | None => Ok (l2, rk2, kws)
                          end
              | None => Ok (l2, rk2, kws)
              end
          end
      end
  end.

Definition kv := list (bytes * bytes).
Fixpoint kv_find (k : bytes) (m : kv) : option bytes :=      (* last assignment wins *)
  match m with
  | [] => None
  | (k', v) :: r => match kv_find k r with Some x => Some x | None => if beq k' k then Some v else None end
  end.

(* url_mapper::data::write *)
Fixpoint write (parts : list bytes) (idx : list (N * bytes)) (params : list bytes) (hs ov : kv) : option bytes :=
  match parts with
  | [] => Some []
  | p :: ps =>
      match idx with
      | [] => match write ps [] params hs ov with Some r => Some (p ++ r) | None => None end
      | (i, k) :: idx' =>
          let v := if i =? 0 then
                     Some (match kv_find k ov with Some x => x
                                               | None => match kv_find k hs with Some x => x | None => [] end end)
                   else nth_error params (N.to_nat i - 1) in
          match v with
          | None => None
          | Some v => match write ps idx' params hs ov with Some r => Some (p ++ v ++ r) | None => None end
          end
      end
  end.

(* url_mapper::data::map: look the entry up, render, hand the text to the parent as its parameter *)
Fixpoint data_map (cur : app) (up : list (app * bytes)) (key : bytes) (params : list bytes) (hs ov : kv)
  : res bytes :=
  match get_entry (tbl cur) key (N.of_nat (length params)) with
  | None => Err EKey
  | Some e =>
      match up with
      | [] => match write (e_parts e) (e_idx e) params hs ov with
              | Some u => Ok (app_root cur ++ u)
              | None => Err EIndex
              end
      | (p, name) :: up' =>
          match write (e_parts e) (e_idx e) params hs ov with
          | Some u => data_map p up' name [u] hs ov
          | None => Err EIndex
          end
      end
  end.

Fixpoint zip_kw (ks : list bytes) (ps : list bytes) : kv :=
  match ks, ps with k :: ks', p :: ps' => (k, p) :: zip_kw ks' ps' | _, _ => [] end.

(* url_mapper::real_map without the throws switch: the url or the error that is thrown.
   vals are the values set with set_value on the mapper that is topmost for the start location. *)
Definition real_map (l : loc) (vals : kv) (key : bytes) (params : list bytes) : res bytes :=
  match mapper_for_key l key with
  | Err e => Err e
  | Ok (l', rk, kws) =>
      if Nat.ltb (length params) (length kws) then Err EKeywords
      else data_map (fst l') (snd l') rk (skipn (length kws) params) vals (zip_kw kws params)
  end.
Definition invalid_url : bytes :=
  [47;116;104;105;115;95;105;115;95;97;110;95;105;110;118;97;108;105;100;95;117;114;108;95;103;101;110;101;
   114;97;116;101;100;95;98;121;95;117;114;108;95;109;97;112;112;101;114].
(* what ends up in the output stream: None = exception propagated, stream untouched.  Without
   invalid_url_throws the url is first written to a stolen buffer and then copied to the stream with
   output.write(begin, end - begin): every byte of it, embedded NUL bytes included, exactly as in the
   throwing configuration where data::map writes to the stream directly (src/url_mapper.cpp, real_map). *)
Definition map_output (throws : bool) (r : res bytes) : option bytes :=
  match r with
  | Ok u => Some u
  | Err _ => if throws then None else Some invalid_url
  end.

(* start location for the mapper of the application at tree position pos (kid indices from the root);
   the flag tells whether the chain of mapper mounts reaches the root *)
Definition mounted_name (parent : app) (k : nat) : option bytes :=
  match find (fun x => match e_child (t_e x) with Some k' => Nat.eqb k k' | None => false end) (tbl parent) with
  | Some x => Some (t_key x)
  | None => None
  end.
Fixpoint loc_of (l : loc) (full : bool) (pos : list nat) : option (loc * bool) :=
  match pos with
  | [] => Some (l, full)
  | k :: r =>
      match nth_error (app_kids (fst l)) k with
      | None => None
      | Some kid =>
          match mounted_name (fst l) k with
          | Some name => loc_of (kid, (fst l, name) :: snd l) full r
          | None => loc_of (kid, []) false r
          end
      end
  end.
(* the std::string overloads of url_mapper::map pass key.c_str(): the key ends at the first NUL *)
Definition map_at (root : app) (vals : kv) (pos : list nat) (key : bytes) (params : list bytes) : res bytes :=
  if negb (build_ok root) then Err EBuild else
  match loc_of (root, []) true pos with
  | None => Err EBuild
  | Some (l, full) => real_map l (if full then vals else []) (cstr key) params
  end.

(* each kid is mounted at most once in its parent mapper (otherwise parent/this_name of the child
   mapper, which are overwritten by every mount, are not determined by the path) *)
Fixpoint mounts_once (a : app) : bool :=
  match a with
  | App _ ms kids _ =>
      let ks := flat_map (fun m => match m with MMount _ _ k => [k] | _ => [] end) ms in
      (fix nodup (l : list nat) : bool :=
         match l with [] => true | x :: r => negb (existsb (Nat.eqb x) r) && nodup r end) ks
      && forallb (fun k => Nat.ltb k (length kids)) ks
      && forallb mounts_once kids
  end.

(* ------------------------------------------------------------------------------------------ *)
(* sites: application trees whose dispatcher and mapper are derived from the same routes       *)
(* ------------------------------------------------------------------------------------------ *)
Inductive site := Site (pages : list (bytes * route * N)) (subs : list (bytes * bytes * site)).

Definition page_opt (pg : bytes * route * N) : dopt :=
  let '(_, r, h) := pg in DH KAssign (PRoute r) MAny h (seq 1 (nparams r)).
Definition page_ment (pg : bytes * route * N) : ment :=
  let '(k, r, _) := pg in MUrl k (route_template r).
Definition mount_route (prefix : bytes) : route := [RLit prefix; RPar cs_dot false].
Fixpoint mount_opts (i : nat) (subs : list (bytes * bytes * site)) : list dopt :=
  match subs with
  | [] => []
  | (_, prefix, _) :: r => DM (PRoute (mount_route prefix)) 1 i :: mount_opts (S i) r
  end.
Fixpoint mount_ments (i : nat) (subs : list (bytes * bytes * site)) : list ment :=
  match subs with
  | [] => []
  | (name, prefix, _) :: r => MMount name (prefix ++ [123; 49; 125]) i :: mount_ments (S i) r
  end.
Fixpoint build (s : site) : app :=
  match s with
  | Site pages subs =>
      App (map page_opt pages ++ mount_opts 0 subs)
          (map page_ment pages ++ mount_ments 0 subs)
          (map (fun x => build (snd x)) subs)
          []
  end.

(* ------------------------------------------------------------------------------------------ *)
(* url rewriting (private/rewrite.h): ordered rules (regex, pattern with $N / $$, final flag)   *)
(* ------------------------------------------------------------------------------------------ *)
From Coq Require Import ZArith.
(* the character after a dollar sign, as the C++ code turns it into an index: (signed char) c - '0' *)
Definition sidx (d : N) : Z := if d <? 128 then (Z.of_N d - 48)%Z else (Z.of_N d - 256 - 48)%Z.

(* url_rewriter::rule::rule: split the pattern at dollar signs.  cur = current chunk, reversed *)
Fixpoint rwp (s : bytes) (cur : bytes) (parts : list bytes) (idx : list Z) : option (list bytes * list Z) :=
  match s with
  | [] => Some (rev (rev cur :: parts), rev idx)
  | c :: t =>
      if c =? 36 then
        match t with
        | [] => None                                           (* dollar at the very end: exception *)
        | d :: t' => if d =? 36 then rwp t' (36 :: cur) parts idx
                     else rwp t' [] (rev cur :: parts) (sidx d :: idx)
        end
      else rwp t (c :: cur) parts idx
  end.
Definition rw_parse (pat : bytes) : option (list bytes * list Z) := rwp pat [] [] [].

Record rrule := RR { rr_pat : pattern; rr_parts : list bytes; rr_idx : list Z; rr_final : bool }.

Definition grpz (gs : list bytes) (z : Z) : bytes := if (z <? 0)%Z then [] else grp gs (Z.to_nat z).

(* rule::rewrite_once: pattern[0] m[index[0]] pattern[1] ... pattern.back() *)
Fixpoint rw_fill (parts : list bytes) (idx : list Z) (gs : list bytes) : bytes :=
  match parts with
  | [] => []
  | p :: ps => match idx with
               | [] => p ++ rw_fill ps [] gs
               | i :: idx' => p ++ grpz gs i ++ rw_fill ps idx' gs
               end
  end.
Definition rw_once (r : rrule) (gs : list bytes) : bytes := rw_fill (rr_parts r) (rr_idx r) gs.

(* url_rewriter::rewrite: every rule in order; a matching rule replaces the url; a final one stops *)
Fixpoint rw_apply (rules : list rrule) (url : bytes) : bytes :=
  match rules with
  | [] => url
  | r :: rest =>
      match pat_match (rr_pat r) url with
      | Some gs => let u := rw_once r gs in if rr_final r then u else rw_apply rest u
      | None => rw_apply rest url
      end
  end.

Definition mk_rule (p : pattern) (pat : bytes) (fin : bool) : option rrule :=
  match rw_parse pat with Some (parts, idx) => Some (RR p parts idx fin) | None => None end.

(* ------------------------------------------------------------------------------------------ *)
(* the embedded HTTP server front end (src/http_api.cpp process_request, src/http_context.cpp     *)
(* on_headers_ready): rewrite, split off the query string, pick the script name, url-decode the   *)
(* rest into PATH_INFO, look the application up in the pool, run its main                        *)
(* ------------------------------------------------------------------------------------------ *)
Definition hexval (c : N) : option N :=
  if (48 <=? c) && (c <=? 57) then Some (c - 48)
  else if (97 <=? c) && (c <=? 102) then Some (c - 87)
  else if (65 <=? c) && (c <=? 70) then Some (c - 55)
  else None.
(* util::urldecode: plus -> blank, %XX -> byte, a percent sign not followed by two hex digits is dropped *)
Fixpoint urldecode (s : bytes) : bytes :=
  match s with
  | [] => []
  | c :: t =>
      if c =? 43 then 32 :: urldecode t
      else if c =? 37 then
        match t with
        | h1 :: h2 :: t' =>
            match hexval h1, hexval h2 with
            | Some a, Some b => (a * 16 + b) :: urldecode t'
            | _, _ => urldecode t
            end
        | _ => urldecode t
        end
      else c :: urldecode t
  end.
(* http.script_names: the first configured name that is a prefix of the path ending at a component boundary *)
Fixpoint pick_script (names : list bytes) (path : bytes) : bytes * bytes :=
  match names with
  | [] => ([], path)
  | n :: r =>
      match strip_prefix n path with
      | Some rest => match rest with
                     | [] => (n, rest)
                     | c :: _ => if c =? 47 then (n, rest) else pick_script r path
                     end
      | None => pick_script r path
      end
  end.
Inductive served := Bad400 | Served (r : routed).
Definition serve (rules : list rrule) (names : list bytes) (pools : list (mpoint * app)) (host uri m : bytes) : served :=
  let u := rw_apply rules uri in
  match u with
  | [] => Bad400
  | c :: _ =>
      if c =? 47 then
        let (path, _) := cut_at 63 u in
        let (sn, rest) := pick_script names path in
        Served (route_request pools host sn (urldecode rest) m)
      else Bad400
  end.
