(* C20 proofs, part 12: more key forms of url_mapper::get_mapper_for_key on sites: keyword parameters
   (key;kw1,kw2 - the first parameters are bound to the keywords, the rest are positional) and the single-dot
   component (./key names the same entry as key). *)
From CppcmsV Require Import Base.Tac C20.Defs C20.Regex C20.Routes C20.Dispatch C20.Sites C20.Mapper C20.MapAbs.
Local Open Scope N_scope.

Definition noc (c : N) (s : bytes) : bool := forallb (fun x => negb (x =? c)) s.
Fixpoint joinc (c : N) (l : list bytes) : bytes :=
  match l with
  | [] => []
  | [x] => x
  | x :: t => x ++ c :: joinc c t
  end.

Lemma split_on_sep_c c : forall x r, noc c x = true -> split_on c (x ++ c :: r) = x :: split_on c r.
Proof.
  induction x as [|c0 x IH]; intros r H.
  - cbn [List.app split_on]. rewrite N.eqb_refl. reflexivity.
  - unfold noc in H. cbn [forallb] in H. apply andb_true_iff in H. destruct H as [Hc Hx]. apply negb_true_iff in Hc.
    cbn [List.app split_on]. rewrite Hc, (IH r Hx). reflexivity.
Qed.

Lemma split_on_joinc c : forall l, l <> [] -> (forall x, In x l -> noc c x = true) -> split_on c (joinc c l) = l.
Proof.
  induction l as [|x l IH]; intros Hne H; [congruence|].
  destruct l as [|y l].
  - cbn [joinc]. apply split_on_none. apply (H x). left. reflexivity.
  - change (joinc c (x :: y :: l)) with (x ++ c :: joinc c (y :: l)).
    rewrite split_on_sep_c by (apply H; left; reflexivity).
    rewrite IH; [reflexivity | discriminate | intros z Hz; apply H; right; exact Hz].
Qed.

Lemma cut_at_first c : forall k rest, noc c k = true -> cut_at c (k ++ c :: rest) = (k, Some rest).
Proof.
  induction k as [|x k IH]; intros rest H.
  - cbn [List.app cut_at]. rewrite N.eqb_refl. reflexivity.
  - unfold noc in H. cbn [forallb] in H. apply andb_true_iff in H. destruct H as [Hx Hk]. apply negb_true_iff in Hx.
    cbn [List.app cut_at]. rewrite Hx, (IH rest Hk). reflexivity.
Qed.

Lemma noc_app c a b : noc c (a ++ b) = noc c a && noc c b.
Proof. unfold noc. apply forallb_app. Qed.

Lemma noc_joinc c d : c <> d -> forall l, (forall x, In x l -> noc c x = true) -> noc c (joinc d l) = true.
Proof.
  intros Hcd. induction l as [|x l IH]; intros H; [reflexivity|].
  destruct l as [|y l].
  - cbn [joinc]. apply H. left. reflexivity.
  - change (joinc d (x :: y :: l)) with (x ++ d :: joinc d (y :: l)).
    rewrite noc_app. rewrite (H x (or_introl eq_refl)). cbn [andb].
    unfold noc at 1. cbn [forallb]. fold (noc c (joinc d (y :: l))).
    assert (E : (d =? c) = false) by (apply N.eqb_neq; congruence). rewrite E. cbn [negb andb].
    apply IH. intros z Hz. apply H. right. exact Hz.
Qed.

(* key;kw1,...,kwn with a plain local key *)
Lemma mapper_for_kw_key l key kws :
  key <> [] -> key_bad key = false -> child_of (tbl (fst l)) key = None ->
  kws <> [] -> (forall x, In x kws -> noc 44 x = true) -> (forall x, In x kws -> noc 47 x = true) ->
  mapper_for_key l (key ++ 59 :: joinc 44 kws) = Ok (l, key, kws).
Proof.
  intros Hne Hkb Hch Hkne H44 H47k. destruct (key_bad_false key Hkb) as (H47 & H59 & Hd & Hdd).
  destruct key as [|c0 key']; [congruence|].
  assert (Hc0 : (c0 =? 47) = false).
  { cbn [forallb] in H47. apply andb_true_iff in H47. destruct H47 as [H _]. apply negb_true_iff in H. exact H. }
  assert (Hall : noc 47 ((c0 :: key') ++ 59 :: joinc 44 kws) = true).
  { rewrite noc_app. fold (noc 47 (c0 :: key')) in H47. rewrite H47. cbn [andb]. unfold noc. cbn [forallb].
    change (59 =? 47) with false. cbn [negb andb]. apply (noc_joinc 47 44); [discriminate | exact H47k]. }
  unfold mapper_for_key. cbn [List.app]. rewrite Hc0. cbn beta iota zeta.
  change (c0 :: key' ++ 59 :: joinc 44 kws) with ((c0 :: key') ++ 59 :: joinc 44 kws).
  rewrite (split_on_none 47 _ Hall). cbn [removelast last walk].
  rewrite (cut_at_first 59 (c0 :: key') (joinc 44 kws) H59).
  rewrite (split_on_joinc 44 kws Hkne H44). rewrite Hd, Hdd, Hch. reflexivity.
Qed.

Lemma skipn_app_length {A} (a b : list A) n : length a = n -> skipn n (a ++ b) = b.
Proof. intros <-. induction a as [|x a IH]; [reflexivity | exact IH]. Qed.

(* map_dispatch with keyword parameters: the first |kws| parameters are bound to the keywords (the templates of a site
   have no named placeholders, so they do not appear in the url), the remaining ones are the page parameters *)
Theorem map_dispatch_kw root node up pre pg ps kws kvs vals c :
  site_wf root -> chain root node up pre -> In pg (site_pages node) -> page_key pg <> [] ->
  kws <> [] -> (forall x, In x kws -> noc 44 x = true) -> (forall x, In x kws -> noc 47 x = true) ->
  length kvs = length kws ->
  params_okb (page_route pg) ps = true ->
  reach root (pre ++ route_fill (page_route pg) ps) (snd pg) ps ->
  exists url, real_map (build node, up) vals (page_key pg ++ 59 :: joinc 44 kws) (kvs ++ ps) = Ok url /\
              dispatch (build root) url c = Fired (snd pg) ps.
Proof.
  intros Hr Hc Hin Hne Hkne H44 H47 Hlen Hps Hreach.
  destruct (site_map_dispatch root node up pre pg ps vals (zip_kw kws (kvs ++ ps)) c Hr Hc Hin Hps Hreach) as (url & Hm & Hd).
  exists url. split; [|exact Hd].
  pose proof (chain_wf _ _ _ _ Hr Hc) as Hw. inversion Hw as [pages subs Hnode Hsubs E].
  rewrite <- E in *. cbn [site_pages] in Hin.
  unfold real_map. rewrite mapper_for_kw_key; try assumption.
  - assert (Hlt : Nat.ltb (length (kvs ++ ps)) (length kws) = false).
    { apply Nat.ltb_ge. rewrite app_length. lia. }
    rewrite Hlt. cbn [fst snd]. rewrite (skipn_app_length kvs ps (length kws) Hlen). exact Hm.
  - destruct Hnode as (Hp & _). apply (Hp pg Hin).
  - cbn [fst]. apply child_of_page; assumption.
Qed.

(* ---------- the single-dot component ---------- *)
Lemma split_on_nonempty c : forall s, split_on c s <> [].
Proof.
  induction s as [|x s IH]; cbn [split_on]; [discriminate|].
  destruct (x =? c); [discriminate|]. destruct (split_on c s); [congruence | discriminate].
Qed.

Theorem mapper_for_dot_key l key : key <> [] -> hd 0 key <> 47 ->
  mapper_for_key l (46 :: 47 :: key) = mapper_for_key l key.
Proof.
  intros Hne Hhd. destruct key as [|c0 key']; [congruence|]. cbn [hd] in Hhd.
  assert (Hc0 : (c0 =? 47) = false) by (apply N.eqb_neq; exact Hhd).
  unfold mapper_for_key. change (46 =? 47) with false. rewrite Hc0. cbn beta iota zeta.
  assert (Es : split_on 47 (46 :: 47 :: c0 :: key') = [46] :: split_on 47 (c0 :: key')).
  { change (split_on 47 (46 :: 47 :: c0 :: key')) with
      (match split_on 47 (47 :: c0 :: key') with h :: r => (46 :: h) :: r | [] => [[46]] end).
    change (split_on 47 (47 :: c0 :: key')) with ([] :: split_on 47 (c0 :: key')). reflexivity. }
  rewrite Es. pose proof (split_on_nonempty 47 (c0 :: key')) as Hn.
  destruct (split_on 47 (c0 :: key')) as [|s0 S]; [congruence|].
  change (removelast ([46] :: s0 :: S)) with ([46] :: removelast (s0 :: S)).
  change (last ([46] :: s0 :: S) []) with (last (s0 :: S) []).
  cbn [walk]. change (beq [46] [46]) with true. cbv iota. reflexivity.
Qed.

Corollary real_map_dot_key l vals key ps : key <> [] -> hd 0 key <> 47 ->
  real_map l vals (46 :: 47 :: key) ps = real_map l vals key ps.
Proof. intros Hne Hhd. unfold real_map. rewrite mapper_for_dot_key by assumption. reflexivity. Qed.
