Require Extraction.
Require Import ExtrOcamlBasic.
From Coq Require Import NArith ZArith List.
From CppcmsV Require Import C20.Defs C20.PoolDefs C20.MountVals.
Definition keep_types : (N * Z * nat) := (0%N, 0%Z, 0%nat).
Extraction "c20m.ml" keep_types beq full_match rprint pat_print route_match route_ok nparams route_fill route_template
  params_okb pat_match dispatch app_main mp_match pool_lookup route_request parse_tmpl app_table build_ok
  real_map map_output map_at mounts_once build loc_of valid_text
  rw_parse mk_rule rw_apply urldecode pick_script serve
  ps_empty mount_app mount_legacy kill unmount lookup lookups route_ps serve_ps legacy_ids order purge run run_ref state_after collect_vals.
