(* C20 proofs, part 18: percent-encoding round trip and the full circle  mapper -> HTTP request -> handler. *)
From CppcmsV Require Import Base.Tac C20.Defs C20.Regex C20.Routes C20.Dispatch C20.Routed C20.Sites C20.Mapper C20.MapAbs
  C20.MapKw C20.Rewrite C20.RewriteSpec C20.Serve.
Local Open Scope N_scope.

Definition hexdig (n : N) : N := if n <? 10 then 48 + n else 87 + n.
(* percent-encode the bytes that are not kept verbatim *)
Fixpoint pct_enc (keep : N -> bool) (s : bytes) : bytes :=
  match s with
  | [] => []
  | c :: t => if keep c then c :: pct_enc keep t else 37 :: hexdig (c / 16) :: hexdig (c mod 16) :: pct_enc keep t
  end.

Lemma hexval_hexdig n : n < 16 -> hexval (hexdig n) = Some n.
Proof.
  intros H. unfold hexdig. destruct (n <? 10) eqn:E.
  - apply N.ltb_lt in E. unfold hexval.
    assert (E1 : (48 <=? 48 + n) = true) by (apply N.leb_le; lia).
    assert (E2 : (48 + n <=? 57) = true) by (apply N.leb_le; lia).
    rewrite E1, E2. cbn [andb]. f_equal. lia.
  - apply N.ltb_ge in E. unfold hexval.
    assert (E1 : (87 + n <=? 57) = false) by (apply N.leb_gt; lia).
    assert (E2 : (97 <=? 87 + n) = true) by (apply N.leb_le; lia).
    assert (E3 : (87 + n <=? 102) = true) by (apply N.leb_le; lia).
    rewrite E1, andb_false_r, E2, E3. cbn [andb]. f_equal. lia.
Qed.

Definition byte_list (s : bytes) : Prop := Forall (fun c => c < 256) s.

(* util::urldecode inverts percent-encoding, whatever set of bytes is left verbatim (percent and plus excluded) *)
Theorem urldecode_pct_enc keep : (forall c, keep c = true -> c <> 37 /\ c <> 43) ->
  forall s, byte_list s -> urldecode (pct_enc keep s) = s.
Proof.
  intros Hk. induction s as [|c s IH]; intros Hs; [reflexivity|].
  inversion Hs as [|c' s' Hc Hs']; subst. cbn [pct_enc]. destruct (keep c) eqn:Ek.
  - destruct (Hk c Ek) as [H37 H43]. cbn [urldecode].
    apply N.eqb_neq in H37. apply N.eqb_neq in H43. rewrite H43, H37, (IH Hs'). reflexivity.
  - cbn [urldecode]. change (37 =? 43) with false. change (37 =? 37) with true. cbv iota.
    rewrite (hexval_hexdig (c / 16)) by (apply N.div_lt_upper_bound; lia).
    rewrite (hexval_hexdig (c mod 16)) by (apply N.mod_lt; lia).
    rewrite (IH Hs'). f_equal. rewrite N.mul_comm. symmetry. apply N.div_mod. lia.
Qed.

Lemma hexdig_not c n : n < 16 -> c <> 37 -> (c < 48 \/ (57 < c /\ c < 97) \/ 102 < c) -> hexdig n <> c.
Proof. intros Hn _ Hc. unfold hexdig. destruct (n <? 10) eqn:E; [apply N.ltb_lt in E | apply N.ltb_ge in E]; lia. Qed.

Lemma noc_pct_enc keep d : keep d = false -> d <> 37 -> (d < 48 \/ (57 < d /\ d < 97) \/ 102 < d) ->
  forall s, byte_list s -> noc d (pct_enc keep s) = true.
Proof.
  intros Hd H37 Hr. induction s as [|c s IH]; intros Hs; [reflexivity|].
  inversion Hs as [|c' s' Hc Hs']; subst. cbn [pct_enc]. destruct (keep c) eqn:Ek.
  - unfold noc. cbn [forallb]. fold (noc d (pct_enc keep s)). rewrite (IH Hs').
    assert (E : (c =? d) = false) by (apply N.eqb_neq; intros ->; congruence). rewrite E. reflexivity.
  - unfold noc. cbn [forallb]. fold (noc d (pct_enc keep s)). rewrite (IH Hs').
    assert (E0 : (37 =? d) = false) by (apply N.eqb_neq; congruence).
    assert (E1 : (hexdig (c / 16) =? d) = false).
    { apply N.eqb_neq. apply hexdig_not; [apply N.div_lt_upper_bound; lia | exact H37 | exact Hr]. }
    assert (E2 : (hexdig (c mod 16) =? d) = false).
    { apply N.eqb_neq. apply hexdig_not; [apply N.mod_lt; lia | exact H37 | exact Hr]. }
    rewrite E0, E1, E2. reflexivity.
Qed.

Lemma cstr_nul_free : forall s, forallb (fun c => negb (c =? 0)) s = true -> cstr s = s.
Proof.
  induction s as [|c s IH]; intros H; [reflexivity|].
  cbn [forallb] in H. apply andb_true_iff in H. destruct H as [Hc Hs]. apply negb_true_iff in Hc.
  cbn [cstr]. rewrite Hc, (IH Hs). reflexivity.
Qed.

(* the catch-all mount point of a root application: no host / script / path pattern *)
Definition mp_all : mpoint := MP None None None 0 true.

(* full circle: a url that dispatch routes to a handler, percent-encoded in any way that keeps the leading slash and
   quotes question marks, sent as an HTTP request to a server without rewrite rules and script names whose only pool is
   the root application mounted everywhere, runs that handler with the same arguments *)
Theorem http_round_trip keep a url m host hid args :
  (forall c, keep c = true -> c <> 37 /\ c <> 43) -> keep 63 = false ->
  byte_list url -> forallb (fun c => negb (c =? 0)) url = true ->
  (exists t, url = 47 :: t) -> keep 47 = true ->
  dispatch a url (Some m) = Fired hid args ->
  serve [] [] [(mp_all, a)] host (pct_enc keep url) m = Served (RApp 0 url (Fired hid args)).
Proof.
  intros Hk H63 Hb Hnul [t ->] H47 Hd. unfold serve. cbn [rw_apply].
  assert (Ehd : pct_enc keep (47 :: t) = 47 :: pct_enc keep t) by (cbn [pct_enc]; rewrite H47; reflexivity).
  rewrite Ehd. change (47 =? 47) with true. cbv iota. rewrite <- Ehd.
  rewrite (cut_at_none 63 (pct_enc keep (47 :: t))).
  2:{ apply (noc_pct_enc keep 63 H63); [discriminate | right; left; lia | exact Hb]. }
  cbn [pick_script]. rewrite (urldecode_pct_enc keep Hk _ Hb).
  unfold route_request, pool_lookup. cbn [map fst pool_lookup_from].
  unfold mp_match, mp_all. cbn [mp_host mp_script mp_path mp_selpath mp_group opt_full negb mp_selected].
  rewrite (cstr_nul_free _ Hnul). cbn [nth_error]. unfold app_main. rewrite Hd. reflexivity.
Qed.

(* ... in particular the url generated by the mapper of any node of a site for one of its pages *)
Theorem http_map_dispatch keep root node up pre pg ps vals m host throws :
  (forall c, keep c = true -> c <> 37 /\ c <> 43) -> keep 63 = false -> keep 47 = true ->
  site_wf root -> chain root node up pre -> In pg (site_pages node) ->
  params_okb (page_route pg) ps = true ->
  reach root (pre ++ route_fill (page_route pg) ps) (snd pg) ps ->
  let url := pre ++ route_fill (page_route pg) ps in
  byte_list url -> forallb (fun c => negb (c =? 0)) url = true -> (exists t, url = 47 :: t) ->
  map_output throws (real_map (build node, up) vals (page_key pg) ps) = Some url /\
  serve [] [] [(mp_all, build root)] host (pct_enc keep url) m = Served (RApp 0 url (Fired (snd pg) ps)).
Proof.
  intros Hk H63 H47 Hr Hc Hin Hps Hreach url Hb Hnul Hsl. split.
  - assert (Hlen : length ps = nparams (page_route pg)) by (apply params_okb_length; exact Hps).
    destruct (MapAbs.map_dispatch_local root node up pre pg ps vals None Hr Hc Hin Hps Hreach) as (u & Hm & _).
    rewrite Hm. cbn [map_output]. f_equal.
    (* the url is the one site_data_map computes *)
    pose proof (site_data_map root node up pre pg ps vals [] Hr Hc Hin Hlen) as Hs.
    unfold real_map in Hm.
    destruct (page_key pg) as [|c0 k] eqn:Ek.
    + cbn [mapper_for_key] in Hm. cbn [length Nat.ltb Nat.leb skipn zip_kw fst snd] in Hm.
      destruct (length ps); cbn [Nat.ltb Nat.leb skipn] in Hm; rewrite Hs in Hm; injection Hm as <-; reflexivity.
    + pose proof (chain_wf _ _ _ _ Hr Hc) as Hw. inversion Hw as [pages subs Hnode Hsubs E].
      rewrite <- E in *. cbn [site_pages] in Hin.
      rewrite <- Ek in Hm. rewrite mapper_for_plain_key in Hm.
      * cbn [length Nat.ltb Nat.leb skipn zip_kw fst snd] in Hm.
        rewrite Ek in *. destruct (length ps); cbn [Nat.ltb Nat.leb skipn] in Hm; rewrite Hs in Hm; injection Hm as <-; reflexivity.
      * rewrite Ek. discriminate.
      * destruct Hnode as (Hp & _). apply (Hp pg Hin).
      * cbn [fst]. apply child_of_page; assumption.
  - apply (http_round_trip keep (build root) url m host (snd pg) ps Hk H63 Hb Hnul Hsl H47).
    apply site_dispatch. exact Hreach.
Qed.
