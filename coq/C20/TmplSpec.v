(* C20 proofs, part 23: url templates with HELPER VALUES.  A template written as pieces - literal text, positional
   placeholder {n}, named placeholder {name} - is accepted by the scanner of url_mapper::real_assign (parse_tmpl) and rendered
   by url_mapper::data::write as: literal text verbatim, {n} -> the n-th parameter, {name} -> the keyword override of that
   name if the key carries one (key;name,...), otherwise the value set with set_value, otherwise the empty string.
   On top: real_map on a mapper that holds such an entry, with a plain key and with the keyword form of the key. *)
From CppcmsV Require Import Base.Tac C20.Defs C20.Regex C20.Routes C20.Dispatch C20.Sites C20.Mapper C20.MapKw C20.MapKwNav.
Local Open Scope N_scope.

Inductive tpiece := TLit (l : bytes) | TPos (i : N) | TNamed (k : bytes).

Definition tp_ok (p : tpiece) : bool :=
  match p with
  | TLit l => forallb nobrace l
  | TPos i => (1 <=? i) && (i <? 10)
  | TNamed k => negb (is_nil k) && forallb nobrace k && negb (forallb is_digit k)
  end.
Definition tp_text (p : tpiece) : bytes :=
  match p with TLit l => l | TPos i => [123] ++ dec i ++ [125] | TNamed k => [123] ++ k ++ [125] end.
Definition tmpl_text (ps : list tpiece) : bytes := concat (map tp_text ps).

Definition named_value (hs ov : kv) (k : bytes) : bytes :=
  match kv_find k ov with Some x => x | None => match kv_find k hs with Some x => x | None => [] end end.
Definition tp_render (params : list bytes) (hs ov : kv) (p : tpiece) : option bytes :=
  match p with
  | TLit l => Some l
  | TPos i => nth_error params (N.to_nat i - 1)
  | TNamed k => Some (named_value hs ov k)
  end.
Fixpoint render (params : list bytes) (hs ov : kv) (ps : list tpiece) : option bytes :=
  match ps with
  | [] => Some []
  | p :: r => match tp_render params hs ov p, render params hs ov r with Some a, Some b => Some (a ++ b) | _, _ => None end
  end.

(* what the scanner produces *)
Fixpoint tparts (ps : list tpiece) (acc : bytes) : list bytes :=
  match ps with
  | [] => [rev acc]
  | TLit l :: r => tparts r (rev l ++ acc)
  | _ :: r => rev acc :: tparts r []
  end.
Fixpoint tidx (ps : list tpiece) : list (N * bytes) :=
  match ps with
  | [] => []
  | TLit _ :: r => tidx r
  | TPos i :: r => (i, []) :: tidx r
  | TNamed k :: r => (0, k) :: tidx r
  end.
Fixpoint tmaxp (ps : list tpiece) (mx : N) : N :=
  match ps with
  | [] => mx
  | TPos i :: r => tmaxp r (N.max i mx)
  | _ :: r => tmaxp r mx
  end.

Lemma ptmpl_inbrace : forall k rest acc parts idx mx, forallb nobrace k = true ->
  ptmpl (k ++ rest) true acc parts idx mx = ptmpl rest true (rev k ++ acc) parts idx mx.
Proof.
  induction k as [|c k IH]; intros rest acc parts idx mx H; [reflexivity|].
  cbn [forallb] in H. apply andb_true_iff in H. destruct H as [Hc Hk].
  unfold nobrace in Hc. apply negb_true_iff in Hc. apply orb_false_iff in Hc. destruct Hc as [_ H2].
  cbn [List.app ptmpl]. rewrite H2. rewrite IH by assumption. cbn [rev]. rewrite <- app_assoc. reflexivity.
Qed.

Lemma ptmpl_named k rest acc parts idx mx :
  is_nil k = false -> forallb nobrace k = true -> forallb is_digit k = false ->
  ptmpl ([123] ++ k ++ [125] ++ rest) false acc parts idx mx = ptmpl rest false [] (rev acc :: parts) ((0, k) :: idx) mx.
Proof.
  intros Hn Hb Hd. cbn [List.app]. cbn [ptmpl]. change (123 =? 123) with true. cbv iota.
  change (k ++ 125 :: rest) with (k ++ ([125] ++ rest)).
  rewrite ptmpl_inbrace by exact Hb. cbn [List.app ptmpl]. change (125 =? 125) with true. cbv iota.
  rewrite app_nil_r, rev_involutive, Hn, Hd. reflexivity.
Qed.

Lemma ptmpl_pieces : forall ps acc parts idx mx, forallb tp_ok ps = true ->
  ptmpl (tmpl_text ps) false acc parts idx mx = Some (rev parts ++ tparts ps acc, rev idx ++ tidx ps, tmaxp ps mx).
Proof.
  unfold tmpl_text. induction ps as [|p ps IH]; intros acc parts idx mx H.
  - cbn. rewrite app_nil_r. reflexivity.
  - cbn [forallb] in H. apply andb_true_iff in H. destruct H as [Hp Hps]. cbn [map concat].
    destruct p as [l|i|k]; cbn [tp_ok tp_text] in *.
    + rewrite ptmpl_lit by exact Hp. rewrite IH by exact Hps. reflexivity.
    + apply andb_true_iff in Hp. destruct Hp as [H1 H2]. apply N.leb_le in H1. apply N.ltb_lt in H2.
      rewrite <- !app_assoc. rewrite ptmpl_idx by assumption. rewrite IH by exact Hps.
      cbn [rev tparts tidx tmaxp]. rewrite <- !app_assoc. reflexivity.
    + apply andb_true_iff in Hp. destruct Hp as [Hp H3]. apply andb_true_iff in Hp. destruct Hp as [H1 H2].
      apply negb_true_iff in H1. apply negb_true_iff in H3.
      rewrite <- !app_assoc. rewrite ptmpl_named by assumption. rewrite IH by exact Hps.
      cbn [rev tparts tidx tmaxp]. rewrite <- !app_assoc. reflexivity.
Qed.

Lemma write_pieces params hs ov : forall ps acc, forallb tp_ok ps = true ->
  write (tparts ps acc) (tidx ps) params hs ov =
  match render params hs ov ps with Some r => Some (rev acc ++ r) | None => None end.
Proof.
  induction ps as [|p ps IH]; intros acc H.
  - cbn. reflexivity.
  - cbn [forallb] in H. apply andb_true_iff in H. destruct H as [Hp Hps].
    destruct p as [l|i|k]; cbn [tparts tidx render tp_render].
    + rewrite IH by exact Hps. destruct (render params hs ov ps) as [r|]; [|reflexivity].
      rewrite rev_app_distr, rev_involutive, <- app_assoc. reflexivity.
    + cbn [tp_ok] in Hp. apply andb_true_iff in Hp. destruct Hp as [H1 _]. apply N.leb_le in H1.
      cbn [write]. replace (i =? 0) with false by (symmetry; apply N.eqb_neq; lia).
      destruct (nth_error params (N.to_nat i - 1)) as [v|]; [|reflexivity].
      rewrite IH by exact Hps. destruct (render params hs ov ps) as [r|]; reflexivity.
    + cbn [write]. change (0 =? 0) with true. cbv iota. fold (named_value hs ov k).
      rewrite IH by exact Hps. destruct (render params hs ov ps) as [r|]; reflexivity.
Qed.

(* scanner + writer: a template of pieces renders piece by piece *)
Theorem template_pieces_correct ps params hs ov : forallb tp_ok ps = true ->
  exists parts idx, parse_tmpl (tmpl_text ps) = Some (parts, idx, tmaxp ps 0) /\
                    write parts idx params hs ov = render params hs ov ps.
Proof.
  intros H. exists (tparts ps []), (tidx ps). split.
  - unfold parse_tmpl. rewrite ptmpl_pieces by exact H. reflexivity.
  - rewrite write_pieces by exact H. destruct (render params hs ov ps); reflexivity.
Qed.

(* every positional index is at most the arity, so with that many parameters rendering cannot fail *)
Lemma tmaxp_mono : forall ps mx, mx <= tmaxp ps mx.
Proof.
  induction ps as [|p ps IH]; intros mx; cbn [tmaxp]; [lia|].
  destruct p; try apply IH. pose proof (IH (N.max i mx)). lia.
Qed.
Lemma render_total params hs ov : forall ps mx, forallb tp_ok ps = true -> tmaxp ps mx <= N.of_nat (length params) ->
  exists u, render params hs ov ps = Some u.
Proof.
  induction ps as [|p ps IH]; intros mx H Hm; [exists []; reflexivity|].
  cbn [forallb] in H. apply andb_true_iff in H. destruct H as [Hp Hps]. cbn [render].
  destruct p as [l|i|k]; cbn [tmaxp tp_render] in *.
  - destruct (IH mx Hps Hm) as [u ->]. eauto.
  - destruct (IH (N.max i mx) Hps Hm) as [u ->].
    pose proof (tmaxp_mono ps (N.max i mx)). cbn [tp_ok] in Hp. apply andb_true_iff in Hp. destruct Hp as [H1 _]. apply N.leb_le in H1.
    destruct (nth_error params (N.to_nat i - 1)) as [v|] eqn:En; [eauto|].
    apply nth_error_None in En. lia.
  - destruct (IH mx Hps Hm) as [u ->]. eauto.
Qed.

(* ---- a mapper holding such an entry ---- *)
Lemma tbl_single opts key ps kids root : key_bad key = false -> forallb tp_ok ps = true ->
  tbl (App opts [MUrl key (tmpl_text ps)] kids root) = [TE key (tmaxp ps 0) (ENT (tparts ps []) (tidx ps) None)].
Proof.
  intros Hk H. unfold tbl, app_table. cbn [app_ments table_build table_add]. rewrite Hk.
  unfold parse_tmpl. rewrite ptmpl_pieces by exact H. cbn [rev List.app get_entry find]. reflexivity.
Qed.

(* url_mapper::map(key, params) with helper values vals (set_value): named placeholders take the helper value *)
Theorem map_with_helper_values opts key ps kids root vals params :
  key <> [] -> key_bad key = false -> forallb tp_ok ps = true -> N.of_nat (length params) = tmaxp ps 0 ->
  exists u, render params vals [] ps = Some u /\
            real_map (App opts [MUrl key (tmpl_text ps)] kids root, []) vals key params = Ok (root ++ u).
Proof.
  intros Hne Hk H Hlen.
  destruct (render_total params vals [] ps 0 H) as [u Hu]; [lia|]. exists u. split; [exact Hu|].
  unfold real_map. rewrite mapper_for_plain_key; [|exact Hne|exact Hk|].
  2:{ cbn [fst]. rewrite tbl_single by assumption. unfold child_of. cbn [find t_key]. destruct (beq key key); reflexivity. }
  cbn [length Nat.ltb Nat.leb fst snd skipn zip_kw]. cbn [data_map]. rewrite tbl_single by assumption.
  unfold get_entry. cbn [find t_key t_ar]. rewrite beq_refl, Hlen, N.eqb_refl. cbn [andb t_e e_parts e_idx].
  rewrite write_pieces by exact H. rewrite Hu. reflexivity.
Qed.

(* the keyword form key;kw1,...,kwn: the first n parameters are bound to the keywords and OVERRIDE the helper values *)
Theorem map_with_keyword_overrides opts key ps kids root vals kws kvs params :
  key <> [] -> key_bad key = false -> forallb tp_ok ps = true -> N.of_nat (length params) = tmaxp ps 0 ->
  kws <> [] -> (forall x, In x kws -> noc 44 x = true) -> (forall x, In x kws -> noc 47 x = true) -> length kvs = length kws ->
  exists u, render params vals (zip_kw kws kvs) ps = Some u /\
            real_map (App opts [MUrl key (tmpl_text ps)] kids root, []) vals (key ++ 59 :: joinc 44 kws) (kvs ++ params) = Ok (root ++ u).
Proof.
  intros Hne Hk H Hlen Hkw H44 H47 Hl.
  destruct (render_total params vals (zip_kw kws kvs) ps 0 H) as [u Hu]; [lia|]. exists u. split; [exact Hu|].
  destruct (key_bad_false key Hk) as (_ & H59 & _ & _).
  assert (Hm : mapper_for_key (App opts [MUrl key (tmpl_text ps)] kids root, []) key =
               Ok ((App opts [MUrl key (tmpl_text ps)] kids root, []), key, [])).
  { apply mapper_for_plain_key; [exact Hne|exact Hk|]. cbn [fst]. rewrite tbl_single by assumption.
    unfold child_of. cbn [find t_key]. destruct (beq key key); reflexivity. }
  unfold real_map. rewrite (mapper_for_key_kw _ key kws _ key Hne H59 Hkw H44 H47 Hm).
  replace (Nat.ltb (length (kvs ++ params)) (length kws)) with false
    by (symmetry; apply Nat.ltb_ge; rewrite app_length; lia).
  rewrite <- Hl, skipn_app, skipn_all, Nat.sub_diag. cbn [skipn List.app fst snd].
  assert (Hz : zip_kw kws (kvs ++ params) = zip_kw kws kvs).
  { clear -Hl. revert kvs Hl. induction kws as [|k kws IH]; intros kvs Hl; [reflexivity|].
    destruct kvs as [|v kvs]; [discriminate|]. cbn [List.app zip_kw]. f_equal. apply IH. cbn in Hl. lia. }
  rewrite Hz. cbn [data_map]. rewrite tbl_single by assumption.
  unfold get_entry. cbn [find t_key t_ar]. rewrite beq_refl, Hlen, N.eqb_refl. cbn [andb t_e e_parts e_idx].
  rewrite write_pieces by exact H. rewrite Hu. reflexivity.
Qed.
