(* C20 -- URL routing is deterministic, whole-string, and consistent with URL generation.
   Only the property theorems; the proofs are in Regex.v (language, derivative matcher), Routes.v (route family),
   Dispatch.v (dispatcher, mount points, pool scan), Sites.v (dispatcher of a site), Mapper.v (mapper of a site,
   map_dispatch, mapper_total), MapOut.v (stream content in both invalid_url_throws settings), Rewrite.v / RewriteSpec.v (http.rewrite rules), Examples.v (a concrete instance satisfying every hypothesis of map_dispatch). *)
From CppcmsV Require Import Base.Tac C20.Defs C20.Regex C20.Routes C20.Dispatch C20.Routed C20.Sites C20.Mapper C20.MapAbs C20.MapRel C20.MapAt C20.Examples C20.MapOut C20.Rewrite C20.RewriteSpec C20.MapKw C20.MapBare C20.MapKwNav C20.NotFound C20.Serve C20.MapUp C20.HttpRound C20.PoolDefs C20.PoolProofs C20.NumSpec C20.PoolSingle C20.TmplSpec C20.PoolTrace C20.KwNested C20.MountVals.
Local Open Scope N_scope.

(* 1. the matcher that models booster::regex::match accepts exactly the whole strings of the language *)
Theorem full_match_correct : forall r s, full_match r s = true <-> lang r s.
Proof. intros r s. apply full_match_spec. Qed.
Print Assumptions full_match_correct.
Example full_match_nonvacuous :
  full_match (Cat (Chr 47) (Plus (Cls cs_digits))) [47; 52; 50] = true /\
  full_match (Cat (Chr 47) (Plus (Cls cs_digits))) [47; 52; 50; 10] = false /\
  full_match (Cat (Chr 47) (Plus (Cls cs_digits))) [47; 52; 0; 50] = false /\
  full_match (Cat (Chr 47) (Plus (Cls cs_digits))) [47] = false.
Proof. vm_compute. auto. Qed.

(* 2. routes: the capture-extracting matcher returns exactly the parse of the whole string *)
Theorem route_match_is_a_parse : forall r s caps, route_match r s = Some caps ->
  s = route_fill r caps /\ params_okb r caps = true /\ lang (route_re r) s.
Proof.
  intros r s caps H. destruct (route_match_sound r s caps H) as [E Hp].
  split; [exact E|]. split; [exact Hp | eapply route_match_lang; eassumption].
Qed.
Print Assumptions route_match_is_a_parse.
Theorem route_match_complete : forall r s, route_ok r = true -> lang (route_re r) s ->
  exists caps, route_match r s = Some caps /\ s = route_fill r caps /\ params_okb r caps = true.
Proof. exact route_lang_match. Qed.
Print Assumptions route_match_complete.
Theorem route_match_of_generated_url : forall r ps, route_ok r = true -> params_okb r ps = true ->
  route_match r (route_fill r ps) = Some ps.
Proof. exact route_match_fill. Qed.
Print Assumptions route_match_of_generated_url.
Theorem route_parse_unique : forall r ps ps', route_ok r = true ->
  params_okb r ps = true -> params_okb r ps' = true -> route_fill r ps = route_fill r ps' -> ps = ps'.
Proof. exact route_captures_unique. Qed.
Print Assumptions route_parse_unique.
Example route_nonvacuous :
  let r := [RLit [47; 97; 47]; RPar cs_digits true; RLit [45]; RPar cs_dot false] in
  route_ok r = true /\ route_match r [47; 97; 47; 52; 50; 45; 120; 0; 121] = Some [[52; 50]; [120; 0; 121]] /\
  route_match r [47; 97; 47; 52; 50; 45; 120; 10] = None /\ route_match r [47; 97; 47; 45] = None.
Proof. vm_compute. auto. Qed.

(* 3. first_match: the dispatcher returns the outcome of the option of least index that takes the request;
      not-found iff none does *)
Theorem first_match : forall kd opts url c,
  (exists i o out, nth_error opts i = Some o /\ try_opt kd o url c = Some out /\
                   (forall j o', (j < i)%nat -> nth_error opts j = Some o' -> try_opt kd o' url c = None) /\
                   scan kd opts url c = out)
  \/ ((forall o, In o opts -> try_opt kd o url c = None) /\ scan kd opts url c = NotFound).
Proof. exact scan_first_match. Qed.
Print Assumptions first_match.
Theorem later_options_irrelevant : forall kd pre o post url c out,
  (forall o', In o' pre -> try_opt kd o' url c = None) -> try_opt kd o url c = Some out ->
  scan kd (pre ++ o :: post) url c = out.
Proof. exact scan_prefix_irrelevant. Qed.
Print Assumptions later_options_irrelevant.
Theorem not_found_iff_none_matches : forall kd opts url c, handlers_only opts ->
  (scan kd opts url c = NotFound <-> forall o, In o opts -> try_opt kd o url c = None).
Proof. exact not_found_iff. Qed.
Print Assumptions not_found_iff_none_matches.
(* what "takes the request" means for a handler: whole-string pattern match, (map-style) a request context whose
   method is in the language of the filter, and the selected groups of that match convert to the parameter types of
   the handler (arg_conv); the arguments are exactly the converted selected groups *)
Theorem handler_fires_exactly : forall kd k p mf hid sel url c out,
  try_opt kd (DH k p mf hid sel) url c = Some out <->
  exists gs args, pat_match p url = Some gs /\ arg_conv k (map (grp gs) sel) = Some args /\ out = Fired hid args /\
             (k <> KAssign -> exists m, c = Some m /\ meth_lang mf m).
Proof. exact handler_fires_iff. Qed.
Print Assumptions handler_fires_exactly.
(* the conversion: assign-style handlers receive the selected groups unchanged; map-style string handlers receive them
   unchanged provided each is valid text; map-style int handlers (parse_url_parameter through an istream) receive the
   values of the groups provided each is valid text and parses completely as an int *)
Theorem handler_arguments : forall raw args,
  (arg_conv KAssign raw = Some args <-> args = raw) /\
  (arg_conv KMap raw = Some args <-> args = raw /\ forallb valid_text raw = true) /\
  (arg_conv KMapInt raw = Some args <->
     forallb valid_text raw = true /\
     exists zs, Forall2 (fun r z => parse_int r = Some z) raw zs /\ args = map show_int zs).
Proof.
  intros raw args. split; [|split].
  - rewrite arg_conv_assign. split; [intros H; injection H as <-; reflexivity | intros ->; reflexivity].
  - apply arg_conv_map.
  - rewrite arg_conv_int. split; intros (Hv & zs & Hz & ->); (split; [exact Hv|]); exists zs; (split; [|reflexivity]);
      apply parse_ints_spec; exact Hz.
Qed.
Print Assumptions handler_arguments.
(* the same for every integer parameter type modelled (int, unsigned, long long, unsigned long long, short, unsigned short):
   the generic parse_url_parameter reads the group with `istream >> value` and demands that everything was consumed *)
Theorem handler_numeric_arguments : forall t raw args,
  arg_conv (KMapNum t) raw = Some args <->
  forallb valid_text raw = true /\
  exists zs, Forall2 (fun r z => parse_num t r = Some z) raw zs /\ args = map show_int zs.
Proof.
  intros t raw args. rewrite arg_conv_num. split; intros (Hv & zs & Hz & ->); (split; [exact Hv|]); exists zs; (split; [|reflexivity]);
    apply parse_nums_spec; exact Hz.
Qed.
Print Assumptions handler_numeric_arguments.
(* the value a numeric parameter receives lies in the range of its type (unsigned types: a minus sign is accepted by the
   C++ library and the magnitude is negated modulo 2^bits - the model follows the library) *)
Theorem numeric_parameter_is_in_range : forall t s z, parse_num t s = Some z ->
  if nt_signed t then (- 2 ^ (nt_bits t - 1) <= z <= 2 ^ (nt_bits t - 1) - 1)%Z else (0 <= z <= 2 ^ nt_bits t - 1)%Z.
Proof. exact parse_num_range. Qed.
Print Assumptions numeric_parameter_is_in_range.
(* declarative form: the accepted texts are exactly  white-space* sign? digit+  (num_text), and the delivered value is fixed by
   sign, digits and type (num_value: signed - the signed value, which must be in range; unsigned - the magnitude must be in
   range, a minus sign negates it modulo 2^bits); the reading of a text is unique *)
Theorem numeric_parameter_text_and_value : forall t s z,
  parse_num t s = Some z <-> exists neg ds, num_text neg ds s /\ num_value t neg ds z.
Proof. exact parse_num_spec. Qed.
Print Assumptions numeric_parameter_text_and_value.
Theorem numeric_text_is_read_uniquely : forall neg1 ds1 neg2 ds2 s,
  num_text neg1 ds1 s -> num_text neg2 ds2 s -> neg1 = neg2 /\ ds1 = ds2.
Proof. exact num_text_unique. Qed.
Print Assumptions numeric_text_is_read_uniquely.
Example numeric_handlers_nonvacuous :
  let dig := fun (n : N) => digits 24 n [] in
  parse_num TUInt (dig 4294967295) = Some 4294967295%Z /\ parse_num TUInt (dig 4294967296) = None /\
  parse_num TUInt (45 :: dig 1) = Some 4294967295%Z /\ parse_num TUInt (45 :: dig 4294967295) = Some 1%Z /\
  parse_num TUInt (45 :: dig 4294967296) = None /\ parse_num TUInt [45; 48] = Some 0%Z /\
  parse_num TLLong (dig 9223372036854775807) = Some 9223372036854775807%Z /\ parse_num TLLong (dig 9223372036854775808) = None /\
  parse_num TLLong (45 :: dig 9223372036854775808) = Some (-9223372036854775808)%Z /\
  parse_num TULLong (dig 18446744073709551615) = Some 18446744073709551615%Z /\ parse_num TULLong (dig 18446744073709551616) = None /\
  parse_num TULLong (45 :: dig 1) = Some 18446744073709551615%Z /\
  parse_num TShort (dig 32767) = Some 32767%Z /\ parse_num TShort (dig 32768) = None /\ parse_num TShort (45 :: dig 32768) = Some (-32768)%Z /\
  parse_num TUShort (45 :: dig 1) = Some 65535%Z /\ parse_num TUShort (dig 65536) = None /\
  parse_num TUInt [32; 43; 55] = Some 7%Z /\ parse_num TUInt [55; 32] = None /\ parse_num TUInt [45] = None /\
  show_int 18446744073709551615 = dig 18446744073709551615 /\
  (let o1 := DH (KMapNum TUInt) (PRoute [RLit [47]; RPar cs_dot true]) MAny 1 [1%nat] in
   let o2 := DH KMap (PRoute [RLit [47]; RPar cs_dot true]) MAny 2 [1%nat] in
   scan [] [o1; o2] [47; 45; 49] (Some [71; 69; 84]) = Fired 1 [dig 4294967295] /\
   scan [] [o1; o2] (47 :: dig 4294967296) (Some [71; 69; 84]) = Fired 2 [dig 4294967296]).
Proof. vm_compute. repeat split; reflexivity. Qed.
Theorem mounted_takes_exactly : forall kids p sel k url c out,
  try_opt (kid_fns kids) (DM p sel k) url c = Some out <->
  exists gs, pat_match p url = Some gs /\
             out = match nth_error kids k with
                   | Some kid => finish404 c (dispatch kid (grp gs sel) c)
                   | None => BadKid
                   end.
Proof. exact mount_takes_iff. Qed.
Print Assumptions mounted_takes_exactly.
Example first_match_nonvacuous :
  let o1 := DH KAssign (PRoute [RLit [47]; RPar cs_digits true]) MAny 1 [1%nat] in
  let o2 := DH KMap (PRoute [RLit [47]; RPar cs_dot false]) (MPat (lit_re [71; 69; 84])) 2 [1%nat; 0%nat] in
  scan [] [o1; o2] [47; 52; 50] (Some [71; 69; 84]) = Fired 1 [[52; 50]] /\
  scan [] [o2; o1] [47; 52; 50] (Some [71; 69; 84]) = Fired 2 [[52; 50]; [47; 52; 50]] /\
  scan [] [o2; o1] [47; 52; 50] (Some [80; 79; 83; 84]) = Fired 1 [[52; 50]] /\
  scan [] [o1; o2] [47; 52; 50; 10] (Some [71; 69; 84]) = NotFound.
Proof. vm_compute. auto. Qed.
(* int parameters: 2147483647 is delivered, 2147483648 does not fit an int, so the option declines and the next one
   (string parameter) takes the request; a leading blank or plus sign is accepted by the istream, a trailing blank is not *)
Example int_handler_nonvacuous :
  let o1 := DH KMapInt (PRoute [RLit [47]; RPar cs_dot true]) MAny 1 [1%nat] in
  let o2 := DH KMap (PRoute [RLit [47]; RPar cs_dot true]) MAny 2 [1%nat] in
  let get := Some [71; 69; 84] in
  scan [] [o1; o2] [47; 50; 49; 52; 55; 52; 56; 51; 54; 52; 55] get = Fired 1 [[50; 49; 52; 55; 52; 56; 51; 54; 52; 55]] /\
  scan [] [o1; o2] [47; 50; 49; 52; 55; 52; 56; 51; 54; 52; 56] get = Fired 2 [[50; 49; 52; 55; 52; 56; 51; 54; 52; 56]] /\
  scan [] [o1; o2] [47; 32; 43; 48; 55] get = Fired 1 [[55]] /\
  scan [] [o1; o2] [47; 55; 32] get = Fired 2 [[55; 32]] /\
  scan [] [o1; o2] [47; 45; 48] get = Fired 1 [[48]] /\
  scan [] [o1] [47; 120] get = NotFound /\
  scan [] [o1; o2] [47; 55] None = NotFound.
Proof. vm_compute. repeat split; reflexivity. Qed.

(* 4. whole_string: an option takes a request only if the ENTIRE url is in the language of its pattern; across a
      whole application tree a handler fires only through a chain of such whole-string matches, each mounted
      application receiving exactly the selected group *)
Theorem whole_string_option : forall kd o url c out,
  try_opt kd o url c = Some out -> lang (pat_re (opt_pat o)) url.
Proof. exact taken_whole_string. Qed.
Print Assumptions whole_string_option.
Theorem pattern_match_is_whole_string : forall p s gs,
  pat_match p s = Some gs -> lang (pat_re p) s /\ grp gs 0 = s.
Proof. exact pat_match_whole. Qed.
Print Assumptions pattern_match_is_whole_string.
Theorem pattern_match_complete : forall p s, pat_ok p -> lang (pat_re p) s -> exists gs, pat_match p s = Some gs.
Proof. exact pat_lang_match. Qed.
Print Assumptions pattern_match_complete.
Theorem whole_string : forall a url c hid args,
  dispatch a url c = Fired hid args -> fires a url c hid args.
Proof. exact dispatch_whole_string. Qed.
Print Assumptions whole_string.
(* complete characterisation over trees of any depth: a handler fires with these arguments IFF, at every level from the
   root, it is reached through the option of least index that takes the request (all earlier ones decline), whose pattern
   matches the whole string, each mounted child receiving exactly the selected group *)
Theorem routing_is_first_whole_match : forall a url c hid args,
  dispatch a url c = Fired hid args <-> routed a url c hid args.
Proof. intros. split; [apply dispatch_routed | apply routed_dispatch]. Qed.
Print Assumptions routing_is_first_whole_match.
(* the 404 outcome, complete characterisation over trees of any depth: the request ends in not-found IFF, following at
   every level the first option that takes it (a mount, whose pattern matches the whole string and which hands exactly
   the selected group to its child), a level is reached at which NO option takes the request *)
Theorem not_found_exactly : forall a url c, dispatch a url c = NotFound <-> notfound a url c.
Proof. intros. split; [apply dispatch_notfound | apply notfound_dispatch]. Qed.
Print Assumptions not_found_exactly.
Theorem main_answers_404_exactly : forall a url m, app_main a url (Some m) = NotFound <-> notfound a url (Some m).
Proof. exact main_notfound_iff. Qed.
Print Assumptions main_answers_404_exactly.
Example whole_string_nonvacuous :
  let kid := App [DH KAssign (PRoute [RLit [47; 112]; RPar cs_digits true]) MAny 7 [1%nat]] [] [] [] in
  let root := App [DM (PRoute [RLit [47; 97]; RPar cs_dot false]) 1 0] [] [kid] [] in
  dispatch root [47; 97; 47; 112; 53] None = Fired 7 [[53]] /\
  dispatch root [47; 97; 47; 112; 53; 0; 122] None = Threw /\
  dispatch root [47; 97; 47; 112; 53; 0; 122] (Some [71]) = NotFound /\
  dispatch root [47; 97; 98; 47; 112; 53] (Some [71]) = NotFound.
Proof. vm_compute. auto. Qed.

(* 5. mount points and the pool: whole-string on host / script name / path info, first mount point wins *)
Theorem mount_point_whole_string : forall mp h s p sub, mp_match mp h s p = Some sub ->
  (forall q, mp_host mp = Some q -> lang (pat_re q) (cstr h)) /\
  (forall q, mp_script mp = Some q -> lang (pat_re q) (cstr s)) /\
  (forall q, mp_path mp = Some q -> lang (pat_re q) (cstr p)) /\
  (let sel := if mp_selpath mp then mp_path mp else mp_script mp in
   let str := if mp_selpath mp then cstr p else cstr s in
   match sel with
   | Some q => exists gs, pat_match q str = Some gs /\ sub = grp gs (mp_group mp)
   | None => sub = str
   end).
Proof. exact mp_match_whole. Qed.
Print Assumptions mount_point_whole_string.
Theorem pool_first_mount_point : forall mps h s p,
  match pool_lookup mps h s p with
  | Some (i, sub) => exists mp, nth_error mps i = Some mp /\ mp_match mp h s p = Some sub /\
                                forall j mp', (j < i)%nat -> nth_error mps j = Some mp' -> mp_match mp' h s p = None
  | None => forall mp, In mp mps -> mp_match mp h s p = None
  end.
Proof. exact pool_first_match. Qed.
Print Assumptions pool_first_mount_point.
(* end to end: a request is routed to the first mount point and then, inside its application, as above *)
Theorem request_routing_end_to_end : forall pools h s p m i sub hid args,
  route_request pools h s p m = RApp i sub (Fired hid args) ->
  exists mp a, nth_error pools i = Some (mp, a) /\
               mp_match mp h s p = Some sub /\
               (forall j mp', (j < i)%nat -> nth_error (map fst pools) j = Some mp' -> mp_match mp' h s p = None) /\
               routed a sub (Some m) hid args.
Proof. exact request_routed. Qed.
Print Assumptions request_routing_end_to_end.
Example pool_nonvacuous :
  let m1 := MP None None (Some (PRoute [RLit [47; 97]; RPar cs_dot false])) 1 true in
  let m2 := MP None None (Some (PRoute [RLit [47]; RPar cs_dot false])) 0 true in
  pool_lookup [m1; m2] [104] [] [47; 97; 47; 120] = Some (0%nat, [47; 120]) /\
  pool_lookup [m2; m1] [104] [] [47; 97; 47; 120] = Some (0%nat, [47; 97; 47; 120]) /\
  pool_lookup [m1] [104] [] [47; 98] = None.
Proof. vm_compute. auto. Qed.

(* 6. the url template printed for a route parses back (url_mapper::real_assign) into the chunks and indexes of the
      route, and rendering it (data::write) with parameters ps yields route_fill r ps *)
Theorem template_parses_back : forall r, route_brace_free r = true -> (nparams r <= 9)%nat ->
  parse_tmpl (route_template r) = Some (parts_of r [], idxs 1 r, N.of_nat (nparams r)).
Proof. exact parse_route_template. Qed.
Print Assumptions template_parses_back.
Theorem template_renders_route : forall r ps hs ov, (nparams r <= length ps)%nat ->
  write (parts_of r []) (idxs 1 r) ps hs ov = Some (route_fill r ps).
Proof. exact write_route_template. Qed.
Print Assumptions template_renders_route.

(* 7. map_dispatch, any depth.  reach root url h ps = url is the address of the page with handler h below root and no
      earlier sibling option matches it at any level (decidable side condition; for unambiguous routes it is
      "url is not in the language of an earlier sibling", see route_match_none_iff_not_in_language). *)
Theorem site_url_is_routed_to_its_page : forall s url h ps, reach s url h ps ->
  forall c, dispatch (build s) url c = Fired h ps.
Proof. exact site_dispatch. Qed.
Print Assumptions site_url_is_routed_to_its_page.
Theorem route_match_none_iff_not_in_language : forall r s, route_ok r = true ->
  (route_match r s = None <-> ~ lang (route_re r) s).
Proof. exact route_match_none_iff. Qed.
Print Assumptions route_match_none_iff_not_in_language.
Theorem site_mapper_generates_page_url : forall root node up pre pg ps hs ov,
  site_wf root -> chain root node up pre -> In pg (site_pages node) -> length ps = nparams (page_route pg) ->
  data_map (build node) up (page_key pg) ps hs ov = Ok (pre ++ route_fill (page_route pg) ps).
Proof. exact site_data_map. Qed.
Print Assumptions site_mapper_generates_page_url.
Theorem map_dispatch_agree : forall root node up pre pg ps vals c,
  site_wf root -> chain root node up pre -> In pg (site_pages node) ->
  params_okb (page_route pg) ps = true ->
  reach root (pre ++ route_fill (page_route pg) ps) (snd pg) ps ->
  exists url, real_map (build node, up) vals (page_key pg) ps = Ok url /\
              dispatch (build root) url c = Fired (snd pg) ps.
Proof. exact map_dispatch_local. Qed.
Print Assumptions map_dispatch_agree.
(* key navigation: an absolute key /n1/.../nk/pagekey used on the mapper of ANY node `from` of the site is resolved
   (topmost, child walk) to the node reached through the mounts n1..nk ... *)
Theorem mapper_resolves_absolute_key : forall root from upf pref node up pre pg,
  site_wf root -> chain root from upf pref -> chain root node up pre -> Forall name_ok (map snd up) ->
  In pg (site_pages node) ->
  mapper_for_key (build from, upf) (abs_key up (page_key pg)) = Ok ((build node, up), page_key pg, []).
Proof. exact mapper_for_abs_key. Qed.
Print Assumptions mapper_resolves_absolute_key.
(* ... and the url it generates routes, from the root, to that page with exactly the parameters *)
Theorem map_dispatch_absolute_key : forall root from upf pref node up pre pg ps vals c,
  site_wf root -> chain root from upf pref -> chain root node up pre -> Forall name_ok (map snd up) ->
  In pg (site_pages node) -> params_okb (page_route pg) ps = true ->
  reach root (pre ++ route_fill (page_route pg) ps) (snd pg) ps ->
  exists url, real_map (build from, upf) vals (abs_key up (page_key pg)) ps = Ok url /\
              dispatch (build root) url c = Fired (snd pg) ps.
Proof. exact map_dispatch_abs. Qed.
Print Assumptions map_dispatch_absolute_key.
(* relative keys: from a node F below a common ancestor A (rchain A F namesF), the key made of one dot-dot per level
   between F and A, the mount names from A down to N and the page key is resolved to the mapper of N ... *)
Theorem mapper_resolves_relative_key : forall root a0 up0 pre0 from upf namesF node up names pg,
  site_wf root -> chain root a0 up0 pre0 ->
  rchain a0 up0 from upf namesF -> rchain a0 up0 node up names -> Forall rname_ok names ->
  In pg (site_pages node) -> (length namesF + length names > 0)%nat ->
  mapper_for_key (build from, upf) (rel_key (length namesF) names (page_key pg)) = Ok ((build node, up), page_key pg, []).
Proof. exact mapper_for_rel_key. Qed.
Print Assumptions mapper_resolves_relative_key.
(* ... and the url routes back to the page *)
Theorem map_dispatch_relative_key : forall root a0 up0 pre0 from upf namesF node up names pg ps vals c pre,
  site_wf root -> chain root a0 up0 pre0 ->
  rchain a0 up0 from upf namesF -> rchain a0 up0 node up names -> Forall rname_ok names ->
  chain root node up pre ->
  In pg (site_pages node) -> (length namesF + length names > 0)%nat ->
  params_okb (page_route pg) ps = true ->
  reach root (pre ++ route_fill (page_route pg) ps) (snd pg) ps ->
  exists url, real_map (build from, upf) vals (rel_key (length namesF) names (page_key pg)) ps = Ok url /\
              dispatch (build root) url c = Fired (snd pg) ps.
Proof. exact map_dispatch_rel. Qed.
Print Assumptions map_dispatch_relative_key.
(* the bare path of a mounted child: a relative key whose FINAL component is the name of a mounted application
   (dot-dots, then mount names, no trailing slash) is resolved through is_app to the child mapper with the empty key ... *)
Theorem mapper_resolves_bare_path : forall root a0 up0 pre0 from upf namesF parent upP namesP i x,
  site_wf root -> chain root a0 up0 pre0 ->
  rchain a0 up0 from upf namesF -> rchain a0 up0 parent upP namesP ->
  Forall rname_ok namesP -> rname_ok (sub_name x) -> nth_error (site_subs parent) i = Some x ->
  mapper_for_key (build from, upf) (bare_key (length namesF) namesP (sub_name x)) =
  Ok ((build (snd x), (build parent, sub_name x) :: upP), [], []).
Proof. exact mapper_for_bare_path. Qed.
Print Assumptions mapper_resolves_bare_path.
(* ... so it generates the url of the default page (empty key) of that child, which routes back to it *)
Theorem map_dispatch_bare_path : forall root a0 up0 pre0 from upf namesF parent upP namesP i x pg ps vals c pre,
  site_wf root -> chain root a0 up0 pre0 ->
  rchain a0 up0 from upf namesF -> rchain a0 up0 parent upP namesP ->
  Forall rname_ok namesP -> rname_ok (sub_name x) -> nth_error (site_subs parent) i = Some x ->
  chain root (snd x) ((build parent, sub_name x) :: upP) pre ->
  In pg (site_pages (snd x)) -> page_key pg = [] ->
  params_okb (page_route pg) ps = true ->
  reach root (pre ++ route_fill (page_route pg) ps) (snd pg) ps ->
  exists url, real_map (build from, upf) vals (bare_key (length namesF) namesP (sub_name x)) ps = Ok url /\
              dispatch (build root) url c = Fired (snd pg) ps.
Proof. exact map_dispatch_bare. Qed.
Print Assumptions map_dispatch_bare_path.
Example map_dispatch_bare_path_nonvacuous :
  site_wf bx_root /\ chain bx_root bx_root [] [] /\ rchain bx_root [] bx_root [] [] /\
  Forall rname_ok [] /\ rname_ok (sub_name bx_sub) /\ nth_error (site_subs bx_root) 0 = Some bx_sub /\
  chain bx_root (snd bx_sub) ((build bx_root, sub_name bx_sub) :: []) ([] ++ sub_prefix bx_sub) /\
  In bx_page (site_pages (snd bx_sub)) /\ page_key bx_page = [] /\ params_okb (page_route bx_page) [[55]] = true /\
  reach bx_root (([] ++ sub_prefix bx_sub) ++ route_fill (page_route bx_page) [[55]]) (snd bx_page) [[55]] /\
  bare_key 0 [] (sub_name bx_sub) = [99] /\
  real_map (build bx_root, []) [] [99] [[55]] = Ok [47; 99; 47; 55] /\
  dispatch (build bx_root) [47; 99; 47; 55] None = Fired 1 [[55]].
Proof. exact bare_path_instance. Qed.
(* a key that ENDS in a dot-dot component (.., ../.., ...) names the default page (empty key) of the ancestor that many
   levels up, provided no application is mounted there under the empty name *)
Theorem mapper_resolves_up_key : forall root a0 up0 pre0 from upf namesF,
  site_wf root -> chain root a0 up0 pre0 -> rchain a0 up0 from upf namesF -> namesF <> [] ->
  (forall x, In x (site_subs a0) -> sub_name x <> []) ->
  mapper_for_key (build from, upf) (join47 (repeat dd (length namesF))) = Ok ((build a0, up0), [], []).
Proof. exact mapper_for_up_key. Qed.
Print Assumptions mapper_resolves_up_key.
Theorem map_dispatch_up_key : forall root a0 up0 pre0 from upf namesF pg ps vals c,
  site_wf root -> chain root a0 up0 pre0 -> rchain a0 up0 from upf namesF -> namesF <> [] ->
  (forall x, In x (site_subs a0) -> sub_name x <> []) ->
  In pg (site_pages a0) -> page_key pg = [] ->
  params_okb (page_route pg) ps = true ->
  reach root (pre0 ++ route_fill (page_route pg) ps) (snd pg) ps ->
  exists url, real_map (build from, upf) vals (join47 (repeat dd (length namesF))) ps = Ok url /\
              dispatch (build root) url c = Fired (snd pg) ps.
Proof. exact map_dispatch_up. Qed.
Print Assumptions map_dispatch_up_key.
Example map_dispatch_up_key_nonvacuous :
  site_wf ux_root /\ chain ux_root ux_root [] [] /\ rchain ux_root [] ux_leaf [(build ux_root, [99])] [[99]] /\
  (forall x, In x (site_subs ux_root) -> sub_name x <> []) /\ In ux_page (site_pages ux_root) /\ page_key ux_page = [] /\
  params_okb (page_route ux_page) [[55]] = true /\
  reach ux_root ([] ++ route_fill (page_route ux_page) [[55]]) (snd ux_page) [[55]] /\
  join47 (repeat dd (length [[99]])) = [46; 46] /\
  real_map (build ux_leaf, [(build ux_root, [99])]) [] [46; 46] [[55]] = Ok [47; 104; 47; 55] /\
  dispatch (build ux_root) [47; 104; 47; 55] None = Fired 9 [[55]].
Proof. exact up_key_instance. Qed.
(* keyword parameters: key;kw1,...,kwn binds the first n parameters to the keywords (a site template has no named
   placeholder, so they do not show in the url) and uses the remaining ones as the page parameters *)
Theorem map_dispatch_keyword_parameters : forall root node up pre pg ps kws kvs vals c,
  site_wf root -> chain root node up pre -> In pg (site_pages node) -> page_key pg <> [] ->
  kws <> [] -> (forall x, In x kws -> noc 44 x = true) -> (forall x, In x kws -> noc 47 x = true) ->
  length kvs = length kws ->
  params_okb (page_route pg) ps = true ->
  reach root (pre ++ route_fill (page_route pg) ps) (snd pg) ps ->
  exists url, real_map (build node, up) vals (page_key pg ++ 59 :: joinc 44 kws) (kvs ++ ps) = Ok url /\
              dispatch (build root) url c = Fired (snd pg) ps.
Proof. exact map_dispatch_kw. Qed.
Print Assumptions map_dispatch_keyword_parameters.
(* keywords combined with navigation: appending ;kw1,...,kwn to ANY key that get_mapper_for_key resolves keeps the
   mapper and the real key and adds the keywords ... *)
Theorem mapper_keywords_after_any_key : forall l key kws l' rk,
  key <> [] -> noc 59 key = true ->
  kws <> [] -> (forall x, In x kws -> noc 44 x = true) -> (forall x, In x kws -> noc 47 x = true) ->
  mapper_for_key l key = Ok (l', rk, []) ->
  mapper_for_key l (key ++ 59 :: joinc 44 kws) = Ok (l', rk, kws).
Proof. exact mapper_for_key_kw. Qed.
Print Assumptions mapper_keywords_after_any_key.
(* ... so the keyword form of every key proved above (absolute, relative, bare path: whatever resolves to the page's
   mapper and key) generates the page's url for the positional parameters, and it routes back *)
Theorem map_dispatch_keywords_any_key : forall root node up pre pg ps kws kvs vals c l key,
  site_wf root -> chain root node up pre -> In pg (site_pages node) ->
  key <> [] -> noc 59 key = true ->
  mapper_for_key l key = Ok ((build node, up), page_key pg, []) ->
  kws <> [] -> (forall x, In x kws -> noc 44 x = true) -> (forall x, In x kws -> noc 47 x = true) ->
  length kvs = length kws ->
  params_okb (page_route pg) ps = true ->
  reach root (pre ++ route_fill (page_route pg) ps) (snd pg) ps ->
  exists url, real_map l vals (key ++ 59 :: joinc 44 kws) (kvs ++ ps) = Ok url /\
              dispatch (build root) url c = Fired (snd pg) ps.
Proof. exact map_dispatch_kw_any. Qed.
Print Assumptions map_dispatch_keywords_any_key.
Example map_dispatch_keywords_any_key_nonvacuous :
  (* /c/d/q;lang used on the middle node of the example site, parameters en, ab, 42 *)
  let key := abs_key ex_up (page_key ex_page) in
  key = [47; 99; 47; 100; 47; 113] /\ noc 59 key = true /\
  mapper_for_key (build ex_mid, [(build ex_root, [99])]) key = Ok ((build ex_leaf, ex_up), page_key ex_page, []) /\
  real_map (build ex_mid, [(build ex_root, [99])]) [] (key ++ 59 :: joinc 44 [[108; 97; 110; 103]]) ([[101; 110]] ++ ex_ps) = Ok ex_url /\
  map_at (build ex_root) [] [0%nat; 0%nat] [46; 46; 47; 46; 46; 47; 99; 47; 112; 59; 120] [[49]; [55]] = Ok [47; 99; 47; 112; 47; 55].
Proof. vm_compute. repeat split; reflexivity. Qed.
(* the single-dot component: ./key names what key names (any mapper, any relative key), so every relative form above
   may be prefixed with ./ *)
Theorem mapper_single_dot_component : forall l vals key ps, key <> [] -> hd 0 key <> 47 ->
  mapper_for_key l (46 :: 47 :: key) = mapper_for_key l key /\
  real_map l vals (46 :: 47 :: key) ps = real_map l vals key ps.
Proof. intros. split; [apply mapper_for_dot_key | apply real_map_dot_key]; assumption. Qed.
Print Assumptions mapper_single_dot_component.
Example map_dispatch_keyword_nonvacuous :
  (* q;lang,x with parameters en, 1, ab, 42 on the leaf of the example site; ./q ; too few parameters for the keywords *)
  map_at (build ex_root) [] [0%nat; 0%nat] [113; 59; 108; 97; 110; 103; 44; 120] ([[101; 110]; [49]] ++ ex_ps) = Ok ex_url /\
  joinc 44 [[108; 97; 110; 103]; [120]] = [108; 97; 110; 103; 44; 120] /\
  map_at (build ex_root) [] [0%nat; 0%nat] [46; 47; 113] ex_ps = Ok ex_url /\
  map_at (build ex_root) [] [0%nat; 0%nat] [113; 59; 108; 97; 110; 103; 44; 120] [[101; 110]] = Err EKeywords.
Proof. vm_compute. repeat split; reflexivity. Qed.
(* map_dispatch for what url_mapper::map actually writes to the stream (map_output), in BOTH settings of
   misc.invalid_url_throws and for arbitrary parameter bytes - embedded NUL included (the parameter classes decide,
   not the configuration): the stream receives a url that routes from the root to the page with exactly ps.  For the
   plain key, absolute keys and relative keys. *)
Theorem map_dispatch_stream : forall root node up pre pg ps vals c throws,
  site_wf root -> chain root node up pre -> In pg (site_pages node) ->
  params_okb (page_route pg) ps = true ->
  reach root (pre ++ route_fill (page_route pg) ps) (snd pg) ps ->
  exists url, map_output throws (real_map (build node, up) vals (page_key pg) ps) = Some url /\
              dispatch (build root) url c = Fired (snd pg) ps.
Proof. exact map_dispatch_stream_local. Qed.
Print Assumptions map_dispatch_stream.
Theorem map_dispatch_stream_absolute_key : forall root from upf pref node up pre pg ps vals c throws,
  site_wf root -> chain root from upf pref -> chain root node up pre -> Forall name_ok (map snd up) ->
  In pg (site_pages node) -> params_okb (page_route pg) ps = true ->
  reach root (pre ++ route_fill (page_route pg) ps) (snd pg) ps ->
  exists url, map_output throws (real_map (build from, upf) vals (abs_key up (page_key pg)) ps) = Some url /\
              dispatch (build root) url c = Fired (snd pg) ps.
Proof. exact map_dispatch_stream_abs. Qed.
Print Assumptions map_dispatch_stream_absolute_key.
Theorem map_dispatch_stream_relative_key : forall root a0 up0 pre0 from upf namesF node up names pg ps vals c pre throws,
  site_wf root -> chain root a0 up0 pre0 ->
  rchain a0 up0 from upf namesF -> rchain a0 up0 node up names -> Forall rname_ok names ->
  chain root node up pre ->
  In pg (site_pages node) -> (length namesF + length names > 0)%nat ->
  params_okb (page_route pg) ps = true ->
  reach root (pre ++ route_fill (page_route pg) ps) (snd pg) ps ->
  exists url, map_output throws (real_map (build from, upf) vals (rel_key (length namesF) names (page_key pg)) ps) = Some url /\
              dispatch (build root) url c = Fired (snd pg) ps.
Proof. exact map_dispatch_stream_rel. Qed.
Print Assumptions map_dispatch_stream_relative_key.
(* regression instance (the replay of the former finding mapper-nothrow-truncates-url-at-nul, corpus/C20/regress.case):
   parameter a NUL b, invalid_url_throws=false; every hypothesis of map_dispatch_stream holds, the stream receives
   /c/p/a NUL b in both configurations and the page gets a NUL b; the url cut at the NUL would have delivered a *)
Example map_dispatch_stream_nul_nonvacuous :
  site_wf nx_root /\ chain nx_root nx_leaf nx_up ([] ++ [47; 99]) /\ In nx_page (site_pages nx_leaf) /\
  params_okb (page_route nx_page) nx_ps = true /\
  reach nx_root (([] ++ [47; 99]) ++ route_fill (page_route nx_page) nx_ps) (snd nx_page) nx_ps /\
  map_output false (real_map (build nx_leaf, nx_up) [] (page_key nx_page) nx_ps) = Some nx_url /\
  map_output true (real_map (build nx_leaf, nx_up) [] (page_key nx_page) nx_ps) = Some nx_url /\
  map_output false (map_at (build nx_root) [] [0%nat] [112] nx_ps) = Some nx_url /\
  dispatch (build nx_root) nx_url None = Fired 1 nx_ps /\
  dispatch (build nx_root) (cstr nx_url) None = Fired 1 [[97]].
Proof. exact nul_parameter_instance. Qed.
(* the tree-position form used by the correspondence harness: registering a well-formed site never throws, every node
   of the site sits at a tree position, and map_at at that position is real_map at the location used above *)
Theorem site_registration_never_throws : forall s, site_wf s -> build_ok (build s) = true.
Proof. exact build_ok_site. Qed.
Print Assumptions site_registration_never_throws.
Theorem map_at_agrees_with_real_map : forall root node up pre, site_wf root -> chain root node up pre ->
  exists pos, forall vals key ps, nul_free key = true ->
    map_at (build root) vals pos key ps = real_map (build node, up) vals key ps.
Proof. exact map_at_is_real_map. Qed.
Print Assumptions map_at_agrees_with_real_map.
(* not proved (modelled, run against the implementation by the correspondence harness, checked by the oracle): helper
   values in templates (sites have none), keys with an embedded NUL (c_str truncation). *)
Example map_dispatch_nonvacuous :
  site_wf ex_root /\ chain ex_root ex_leaf ex_up ([47; 99] ++ [47; 100]) /\ In ex_page (site_pages ex_leaf) /\
  page_key ex_page <> [] /\ params_okb (page_route ex_page) ex_ps = true /\
  reach ex_root (([47; 99] ++ [47; 100]) ++ route_fill (page_route ex_page) ex_ps) (snd ex_page) ex_ps /\
  real_map (build ex_leaf, ex_up) [] (page_key ex_page) ex_ps = Ok ex_url /\
  dispatch (build ex_root) ex_url None = Fired 3 ex_ps /\
  dispatch (build ex_root) [47; 99; 55] None = Fired 5 [[55]].
Proof. exact map_dispatch_instance. Qed.
Example map_dispatch_absolute_nonvacuous :
  Forall name_ok (map snd ex_up) /\ chain ex_root ex_mid [(build ex_root, [99])] ([] ++ [47; 99]) /\
  abs_key ex_up (page_key ex_page) = [47; 99; 47; 100; 47; 113] /\
  real_map (build ex_mid, [(build ex_root, [99])]) [] (abs_key ex_up (page_key ex_page)) ex_ps = Ok ex_url /\
  map_at (build ex_root) [] [0%nat] [47; 99; 47; 100; 47; 113] ex_ps = Ok ex_url.
Proof. split; [exact ex_names_ok|]. split; [exact ex_chain_mid|]. exact map_dispatch_abs_instance. Qed.
Example map_dispatch_relative_nonvacuous :
  rchain ex_root [] ex_leaf ex_up [[99]; [100]] /\ rchain ex_root [] ex_mid [(build ex_root, [99])] [[99]] /\
  Forall rname_ok [[99]] /\ In ex_page_mid (site_pages ex_mid) /\
  reach ex_root ([47; 99] ++ route_fill (page_route ex_page_mid) [[55]]) 2 [[55]] /\
  rel_key 2 [[99]] (page_key ex_page_mid) = [46; 46; 47; 46; 46; 47; 99; 47; 112] /\
  real_map (build ex_leaf, ex_up) [] (rel_key 2 [[99]] (page_key ex_page_mid)) [[55]] = Ok [47; 99; 47; 112; 47; 55] /\
  dispatch (build ex_root) [47; 99; 47; 112; 47; 55] None = Fired 2 [[55]].
Proof.
  split; [exact ex_rchain_leaf|]. split; [exact ex_rchain_mid|]. split; [exact ex_rnames_ok|].
  split; [left; reflexivity|]. split; [exact ex_reach_mid|]. exact map_dispatch_rel_instance.
Qed.

(* 8. mapper_total: an unknown key or a wrong number of parameters is an error, and an error is an exception or the
      fixed marker url, never a partial url *)
Theorem mapper_unknown_key_is_error : forall cur up key ps hs ov,
  get_entry (tbl cur) key (N.of_nat (length ps)) = None -> data_map cur up key ps hs ov = Err EKey.
Proof. exact data_map_unknown_key. Qed.
Print Assumptions mapper_unknown_key_is_error.
Theorem mapper_unknown_key_after_navigation : forall l vals key ps l' rk kws,
  mapper_for_key l key = Ok (l', rk, kws) ->
  get_entry (tbl (fst l')) rk (N.of_nat (length (skipn (length kws) ps))) = None ->
  exists e, real_map l vals key ps = Err e.
Proof. exact real_map_unknown_key. Qed.
Print Assumptions mapper_unknown_key_after_navigation.
Theorem mapper_total : forall throws r,
  match r with
  | Ok u => map_output throws r = Some u
  | Err _ => map_output throws r = if throws then None else Some invalid_url
  end.
Proof. exact map_output_total. Qed.
Print Assumptions mapper_total.
(* conversely, whatever reaches the stream is the url computed by real_map, or (no-throw only) the marker of an error *)
Theorem mapper_stream_is_url_or_marker : forall throws r u, map_output throws r = Some u ->
  r = Ok u \/ (throws = false /\ u = invalid_url /\ exists e, r = Err e).
Proof. exact map_output_inv. Qed.
Print Assumptions mapper_stream_is_url_or_marker.
(* misc.invalid_url_throws changes only what happens on an error: a successful map writes the same, complete url in
   both configurations (since /repo eebbee5; before, the no-throw path stopped at the first NUL byte) *)
Theorem mapper_throws_switch_irrelevant_on_success : forall r,
  (exists u, r = Ok u) -> map_output false r = map_output true r.
Proof. exact map_output_switch_irrelevant_on_success. Qed.
Print Assumptions mapper_throws_switch_irrelevant_on_success.
Example mapper_total_nonvacuous :
  map_at (build ex_root) [] [0%nat; 0%nat] [113] [[97]; [49]] = Ok [47; 99; 47; 100; 47; 113; 47; 97; 45; 49] /\
  map_at (build ex_root) [] [0%nat; 0%nat] [113] [[97]] = Err EKey /\
  map_at (build ex_root) [] [0%nat; 0%nat] [122] [] = Err EKey /\
  map_at (build ex_root) [] [0%nat; 0%nat] [46; 46; 47; 112] [[55]] = Ok [47; 99; 47; 112; 47; 55] /\
  map_at (build ex_root) [] [0%nat; 0%nat] [47; 104] [] = Ok [47] /\
  map_output false (Ok [47; 97; 0; 98]) = Some [47; 97; 0; 98] /\
  map_output false (map_at (build ex_root) [] [0%nat; 0%nat] [122] []) = Some invalid_url /\
  map_output true (map_at (build ex_root) [] [0%nat; 0%nat] [122] []) = None.
Proof. vm_compute. repeat split; reflexivity. Qed.

(* 9. url rewriting (private/rewrite.h, the http.rewrite rules applied to the request uri before routing): the rules are
      tried in configuration order; a rule is applied only when its regex matches the ENTIRE current url; a final rule
      ends the rewriting, a non-final one hands its result to the rules after it.  Complete characterisation. *)
Theorem rewrite_is_ordered_whole_string : forall rules url out,
  rw_apply rules url = out <-> rw_steps rules url out.
Proof. intros. split; [intros <-; apply rw_apply_steps | apply rw_steps_apply]. Qed.
Print Assumptions rewrite_is_ordered_whole_string.
Theorem rewrite_first_matching_rule : forall pre r post url gs,
  (forall r', In r' pre -> pat_match (rr_pat r') url = None) -> pat_match (rr_pat r) url = Some gs ->
  lang (pat_re (rr_pat r)) url /\
  rw_apply (pre ++ r :: post) url = if rr_final r then rw_once r gs else rw_apply post (rw_once r gs).
Proof. exact rw_first_match. Qed.
Print Assumptions rewrite_first_matching_rule.
Theorem rewrite_leaves_other_urls_alone : forall rules url,
  (forall r, In r rules -> ~ lang (pat_re (rr_pat r)) url) -> rw_apply rules url = url.
Proof. exact rw_outside_languages_unchanged. Qed.
Print Assumptions rewrite_leaves_other_urls_alone.
(* the rewrite pattern: literal text, $0..$9, $$ - scanned by rule::rule, instantiated by rule::rewrite_once *)
Theorem rewrite_pattern_correct : forall ps, Forall piece_ok ps ->
  exists parts idx, rw_parse (rw_print ps) = Some (parts, idx) /\
                    forall gs, rw_fill parts idx gs = rw_eval ps gs.
Proof. exact rw_pattern_correct. Qed.
Print Assumptions rewrite_pattern_correct.
Theorem rewrite_pattern_trailing_dollar_rejected : forall ps, Forall piece_ok ps -> rw_parse (rw_print ps ++ [36]) = None.
Proof. exact rw_parse_trailing_dollar. Qed.
Print Assumptions rewrite_pattern_trailing_dollar_rejected.
Example rewrite_nonvacuous :
  let p1 := PRoute [RLit [47]; RPar cs_digits true; RLit [47]; RPar cs_dot false] in
  let p2 := PRoute [RLit [47; 97]; RPar cs_dot false] in
  let p3 := PRoute [RLit [47; 98]; RPar cs_dot false] in
  rw_parse [47; 112; 47; 36; 50; 45; 36; 49; 63; 36; 36] = Some ([[47; 112; 47]; [45]; [63; 36]], [2%Z; 1%Z]) /\
  rw_parse [47; 36] = None /\
  (exists r1, mk_rule p1 [47; 112; 47; 36; 50; 45; 36; 49] true = Some r1 /\
     rw_apply [r1] [47; 52; 50; 47; 120] = [47; 112; 47; 120; 45; 52; 50] /\
     rw_apply [r1] [47; 52; 50; 47; 120; 10] = [47; 52; 50; 47; 120; 10]) /\
  (exists r2 r3, mk_rule p2 [47; 98; 36; 49] false = Some r2 /\ mk_rule p3 [47; 99; 36; 49] true = Some r3 /\
     rw_apply [r2; r3] [47; 97; 55] = [47; 99; 55] /\ rw_apply [r3; r2] [47; 97; 55] = [47; 98; 55]).
Proof. exact C20.Rewrite.rewrite_nonvacuous. Qed.
Example rewrite_pattern_nonvacuous :
  let ps := [RwLit [47; 112; 47]; RwGrp 2; RwLit [45]; RwGrp 1; RwLit [63]; RwDollar] in
  Forall piece_ok ps /\ rw_print ps = [47; 112; 47; 36; 50; 45; 36; 49; 63; 36; 36] /\
  rw_eval ps [[47; 52; 47; 120]; [52]; [120]] = [47; 112; 47; 120; 45; 52; 63; 36].
Proof. split; [repeat constructor; cbn; lia|]. split; vm_compute; reflexivity. Qed.

(* 10. the embedded HTTP front end, end to end (src/http_api.cpp process_request + src/http_context.cpp
       on_headers_ready): a handler runs for a request only through the chain  uri -> rewrite rules (ordered, whole-string)
       -> path before the question mark -> first configured script name that is a component prefix -> url-decoded rest as
       PATH_INFO -> first mount point whose patterns match the whole strings -> first whole-string handler match *)
Theorem http_request_routing_end_to_end : forall rules names pools host uri m i sub hid args,
  serve rules names pools host uri m = Served (RApp i sub (Fired hid args)) ->
  exists u q sn rest mp a,
    rw_steps rules uri u /\ cut_at 63 u = (sn ++ rest, q) /\ hd 0 u = 47 /\
    pick_script names (sn ++ rest) = (sn, rest) /\
    nth_error pools i = Some (mp, a) /\
    mp_match mp host sn (urldecode rest) = Some sub /\
    (forall j mp', (j < i)%nat -> nth_error (map fst pools) j = Some mp' -> mp_match mp' host sn (urldecode rest) = None) /\
    routed a sub (Some m) hid args.
Proof. exact serve_end_to_end. Qed.
Print Assumptions http_request_routing_end_to_end.
Theorem script_name_is_first_component_prefix : forall names path sn rest, pick_script names path = (sn, rest) ->
  path = sn ++ rest /\
  ((exists pre post, names = pre ++ sn :: post /\ comp_prefix sn path /\ forall n, In n pre -> ~ comp_prefix n path)
   \/ (sn = [] /\ forall n, In n names -> ~ comp_prefix n path)).
Proof. exact pick_script_spec. Qed.
Print Assumptions script_name_is_first_component_prefix.
Theorem http_bad_request_iff : forall rules names pools host uri m,
  serve rules names pools host uri m = Bad400 <-> hd 0 (rw_apply rules uri) <> 47.
Proof. exact serve_bad_request. Qed.
Print Assumptions http_bad_request_iff.
Example http_nonvacuous :
  (* rule /a(.* ) -> /b$1 (not final); mount point: path /b(.* ), group 1; application: /(\d+) -> handler 1 *)
  let p1 := PRoute [RLit [47; 97]; RPar cs_dot false] in
  let mp := MP None None (Some (PRoute [RLit [47; 98]; RPar cs_dot false])) 1 true in
  let a := App [DH KAssign (PRoute [RLit [47]; RPar cs_digits true]) MAny 1 [1%nat]] [] [] [] in
  exists r1, mk_rule p1 [47; 98; 36; 49] false = Some r1 /\
    (* GET /a/42?x=1 *)
    serve [r1] [[47; 115]] [(mp, a)] [104] [47; 97; 47; 52; 50; 63; 120; 61; 49] [71; 69; 84]
      = Served (RApp 0 [47; 52; 50] (Fired 1 [[52; 50]])) /\
    (* /a/4%32 : the rule sees the raw text, PATH_INFO is decoded *)
    serve [r1] [[47; 115]] [(mp, a)] [104] [47; 97; 47; 52; 37; 51; 50] [71; 69; 84]
      = Served (RApp 0 [47; 52; 50] (Fired 1 [[52; 50]])) /\
    (* with /b configured as a script name the same request has SCRIPT_NAME /b, PATH_INFO /42: no mount point *)
    serve [r1] [[47; 98]] [(mp, a)] [104] [47; 97; 47; 52; 50] [71; 69; 84] = Served RNoPool /\
    serve [r1] [] [(mp, a)] [104] [120] [71; 69; 84] = Bad400 /\
    serve [r1] [] [(mp, a)] [104] [47; 98; 47; 52; 50; 10] [71; 69; 84] = Served RNoPool.
Proof. eexists. split; [vm_compute; reflexivity|]. vm_compute. repeat split; reflexivity. Qed.

(* 11. full circle.  util::urldecode inverts percent-encoding whatever bytes are left verbatim (percent and plus excluded) ... *)
Theorem urldecode_inverts_percent_encoding : forall keep, (forall c, keep c = true -> c <> 37 /\ c <> 43) ->
  forall s, byte_list s -> urldecode (pct_enc keep s) = s.
Proof. exact urldecode_pct_enc. Qed.
Print Assumptions urldecode_inverts_percent_encoding.
(* ... so a url that the dispatcher routes to a handler, sent percent-encoded as an HTTP request to a server whose only
   pool is the root application mounted everywhere (no rewrite rules, no script names), runs that handler with the same
   arguments ... *)
Theorem http_request_reaches_the_routed_handler : forall keep a url m host hid args,
  (forall c, keep c = true -> c <> 37 /\ c <> 43) -> keep 63 = false ->
  byte_list url -> forallb (fun c => negb (c =? 0)) url = true ->
  (exists t, url = 47 :: t) -> keep 47 = true ->
  dispatch a url (Some m) = Fired hid args ->
  serve [] [] [(mp_all, a)] host (pct_enc keep url) m = Served (RApp 0 url (Fired hid args)).
Proof. exact http_round_trip. Qed.
Print Assumptions http_request_reaches_the_routed_handler.
(* ... in particular the url that url_mapper::map writes for a page of a site (either invalid_url_throws setting):
   requested over HTTP it reaches the handler registered for that key with those same parameters *)
Theorem mapper_url_requested_over_http_reaches_its_page : forall keep root node up pre pg ps vals m host throws,
  (forall c, keep c = true -> c <> 37 /\ c <> 43) -> keep 63 = false -> keep 47 = true ->
  site_wf root -> chain root node up pre -> In pg (site_pages node) ->
  params_okb (page_route pg) ps = true ->
  reach root (pre ++ route_fill (page_route pg) ps) (snd pg) ps ->
  let url := pre ++ route_fill (page_route pg) ps in
  byte_list url -> forallb (fun c => negb (c =? 0)) url = true -> (exists t, url = 47 :: t) ->
  map_output throws (real_map (build node, up) vals (page_key pg) ps) = Some url /\
  serve [] [] [(mp_all, build root)] host (pct_enc keep url) m = Served (RApp 0 url (Fired (snd pg) ps)).
Proof. exact http_map_dispatch. Qed.
Print Assumptions mapper_url_requested_over_http_reaches_its_page.
Example http_round_trip_nonvacuous :
  (* the url /c/d/q/ab-42 of the example site, every byte but the slash percent-encoded *)
  let keep := fun c => c =? 47 in
  pct_enc keep [47; 99; 47; 100] = [47; 37; 54; 51; 47; 37; 54; 52] /\
  urldecode (pct_enc keep ex_url) = ex_url /\
  serve [] [] [(mp_all, build ex_root)] [104] (pct_enc keep ex_url) [71; 69; 84] = Served (RApp 0 ex_url (Fired 3 ex_ps)) /\
  urldecode [37; 52; 49; 43; 37; 122; 122; 37] = [65; 32; 122; 122].
Proof. vm_compute. repeat split; reflexivity. Qed.

(* 12. THE COMPLETE applications_pool::get_application_specific_pool (PoolDefs.v / PoolProofs.v): two lists - `apps` (factories and
   application_specific_pools) scanned first with an early return, then `legacy_async_apps` (applications mounted as
   intrusive_ptr) scanned to the end because dead entries are erased on the way, the first match being kept by the guard
   `else if(!result)`.  order st = all entries of apps in registration order, then all LIVE legacy mounts in registration order. *)
(* the selected mount is the first one of the order whose mount point matches (whole strings, see mount_point_whole_string), and
   the sub-path handed to main() is the group selected by THAT mount point *)
Theorem pool_selects_first_live_mount : forall st h s p id sub,
  fst (lookup st h s p) = Some (id, sub) <->
  exists pre mp post, order st = pre ++ (mp, id) :: post /\ mp_match mp h s p = Some sub /\ Forall (nomatch h s p) pre.
Proof. exact lookup_first. Qed.
Print Assumptions pool_selects_first_live_mount.
Theorem pool_no_mount_iff_none_matches : forall st h s p,
  fst (lookup st h s p) = None <-> Forall (nomatch h s p) (order st).
Proof. exact lookup_none. Qed.
Print Assumptions pool_no_mount_iff_none_matches.
(* which list is consulted first *)
Theorem pool_apps_list_is_consulted_first : forall st h s p r,
  scan_apps (ps_apps st) h s p = Some r -> lookup st h s p = (Some r, st).
Proof. exact apps_before_legacy. Qed.
Print Assumptions pool_apps_list_is_consulted_first.
(* dead legacy entries never win: the winner is an entry of apps or a LIVE legacy entry whose own mount point produced sub *)
Theorem pool_destroyed_application_never_wins : forall st h s p id sub,
  fst (lookup st h s p) = Some (id, sub) ->
  (exists mp, In (mp, id) (ps_apps st) /\ mp_match mp h s p = Some sub) \/
  (exists mp, In (LE mp id true) (ps_legacy st) /\ mp_match mp h s p = Some sub).
Proof. exact dead_never_wins. Qed.
Print Assumptions pool_destroyed_application_never_wins.
Theorem pool_killed_mount_is_never_selected : forall st id h s p sub,
  ~ In id (map snd (ps_apps st)) -> fst (lookup (kill st id) h s p) <> Some (id, sub).
Proof. exact killed_mount_is_never_selected. Qed.
Print Assumptions pool_killed_mount_is_never_selected.
(* purge transparency: erasing the dead entries changes the answer to no request, a lookup erases dead entries only (all of them
   when it reaches the second loop, none otherwise), and therefore answers do not depend on which lookups happened before *)
Theorem pool_purge_is_transparent : forall st h s p, fst (lookup (purge st) h s p) = fst (lookup st h s p).
Proof. exact purge_transparent. Qed.
Print Assumptions pool_purge_is_transparent.
Theorem pool_lookup_purges_exactly_the_dead : forall st h s p,
  let st' := snd (lookup st h s p) in
  ps_apps st' = ps_apps st /\
  (forall e, In e (ps_legacy st') -> In e (ps_legacy st)) /\
  (forall e, In e (ps_legacy st) -> le_live e = true -> In e (ps_legacy st')) /\
  (scan_apps (ps_apps st) h s p = None -> forall e, In e (ps_legacy st') -> le_live e = true).
Proof. exact lookup_purges_exactly_the_dead. Qed.
Print Assumptions pool_lookup_purges_exactly_the_dead.
Theorem pool_answers_do_not_depend_on_earlier_lookups : forall reqs st,
  lookups st reqs = map (fun r => match r with (h, s, p) => fst (lookup st h s p) end) reqs.
Proof. exact lookups_stateless. Qed.
Print Assumptions pool_answers_do_not_depend_on_earlier_lookups.
(* monotonicity: mounting another application later never changes where a routed request goes - within each list ... *)
Theorem pool_later_legacy_mount_is_irrelevant : forall st mp id h s p r,
  fst (lookup st h s p) = Some r -> fst (lookup (mount_legacy st mp id) h s p) = Some r.
Proof. exact later_legacy_mount_irrelevant. Qed.
Print Assumptions pool_later_legacy_mount_is_irrelevant.
Theorem pool_later_pool_mount_is_irrelevant_for_pool_answers : forall st mp id h s p r,
  scan_apps (ps_apps st) h s p = Some r -> lookup (mount_app st mp id) h s p = (Some r, mount_app st mp id).
Proof. exact later_app_mount_irrelevant_for_apps. Qed.
Print Assumptions pool_later_pool_mount_is_irrelevant_for_pool_answers.
(* ... and across the lists exactly when the new mount point does not itself match the request *)
Theorem pool_later_pool_mount_is_irrelevant_unless_it_matches : forall st mp id h s p,
  mp_match mp h s p = None -> fst (lookup (mount_app st mp id) h s p) = fst (lookup st h s p).
Proof. exact later_app_mount_irrelevant_unless_it_matches. Qed.
Print Assumptions pool_later_pool_mount_is_irrelevant_unless_it_matches.
Theorem pool_new_mount_takes_unrouted_requests_only_if_it_matches : forall st mp id h s p,
  fst (lookup st h s p) = None ->
  fst (lookup (mount_legacy st mp id) h s p) = match mp_match mp h s p with Some sub => Some (id, sub) | None => None end /\
  fst (lookup (mount_app st mp id) h s p) = match mp_match mp h s p with Some sub => Some (id, sub) | None => None end.
Proof. exact new_mount_takes_unrouted_requests. Qed.
Print Assumptions pool_new_mount_takes_unrouted_requests_only_if_it_matches.
(* the order is two-tier, not global registration order: a pool mounted LATER through list `apps` takes a request away from a
   legacy application mounted earlier (witness; this is the code as it is - see docs/C20.md) *)
Theorem pool_registration_order_is_two_tier :
  exists st mp id h s p r, fst (lookup st h s p) = Some r /\ fst (lookup (mount_app st mp id) h s p) <> Some r.
Proof.
  exists (mount_legacy ps_empty (MP None None None 0 true) 0%nat), (MP None None None 0 true), 1%nat, [104], [], [47; 97], (0%nat, [47; 97]).
  vm_compute. split; [reflexivity | discriminate].
Qed.
Print Assumptions pool_registration_order_is_two_tier.
(* destroying one legacy application does not disturb requests that other mounts answer *)
Theorem pool_kill_does_not_disturb_other_mounts : forall st id h s p i sub,
  i <> id -> fst (lookup st h s p) = Some (i, sub) -> fst (lookup (kill st id) h s p) = Some (i, sub).
Proof. exact kill_does_not_disturb_others. Qed.
Print Assumptions pool_kill_does_not_disturb_other_mounts.
(* the single-list scan of section 5 is the special case without legacy mounts *)
Theorem pool_without_legacy_is_the_single_list_scan : forall mps h s p,
  lookup (PS (number 0 mps) []) h s p = (pool_lookup mps h s p, PS (number 0 mps) []).
Proof. exact lookup_without_legacy. Qed.
Print Assumptions pool_without_legacy_is_the_single_list_scan.
(* end to end over both lists: pool lookup, then the application tree of the selected mount *)
Theorem request_routing_end_to_end_both_lists : forall st appof h s p m id sub hid args,
  fst (route_ps st appof h s p m) = RApp id sub (Fired hid args) ->
  exists pre mp post a,
    order st = pre ++ (mp, id) :: post /\ Forall (nomatch h s p) pre /\ mp_match mp h s p = Some sub /\
    appof id = Some a /\ routed a sub (Some m) hid args.
Proof. exact route_ps_routed. Qed.
Print Assumptions request_routing_end_to_end_both_lists.
Theorem request_has_no_pool_iff_no_mount_matches : forall st appof h s p m,
  (forall id, In id (map snd (order st)) -> appof id <> None) ->
  (fst (route_ps st appof h s p m) = RNoPool <-> Forall (nomatch h s p) (order st)).
Proof. exact route_ps_no_pool. Qed.
Print Assumptions request_has_no_pool_iff_no_mount_matches.
Theorem http_request_routing_end_to_end_both_lists : forall rules names st appof host uri m id sub hid args,
  fst (serve_ps rules names st appof host uri m) = Served (RApp id sub (Fired hid args)) ->
  exists u q sn rest pre mp post a,
    rw_steps rules uri u /\ cut_at 63 u = (sn ++ rest, q) /\ hd 0 u = 47 /\
    pick_script names (sn ++ rest) = (sn, rest) /\
    order st = pre ++ (mp, id) :: post /\ Forall (nomatch host sn (urldecode rest)) pre /\
    mp_match mp host sn (urldecode rest) = Some sub /\
    appof id = Some a /\ routed a sub (Some m) hid args.
Proof. exact serve_ps_end_to_end. Qed.
Print Assumptions http_request_routing_end_to_end_both_lists.
Theorem http_front_end_without_legacy_is_serve : forall rules names pools host uri m,
  fst (serve_ps rules names (PS (number 0 (map fst pools)) []) (fun i => option_map snd (nth_error pools i)) host uri m) =
  serve rules names pools host uri m.
Proof. exact serve_ps_without_legacy. Qed.
Print Assumptions http_front_end_without_legacy_is_serve.
(* the two-list pool behaves as ONE ordered list, namely order st: if pools / ids describe the order (i-th mount: mount point
   fst pools_i, identifier ids_i, application snd pools_i = appof ids_i), routing through the complete pool is routing through
   the single-list model of sections 5 / 10 with the indices renamed - so every theorem about route_request / serve transfers,
   whatever mixture of factory-, pool- and intrusive_ptr-mounted applications produced the order *)
Theorem pool_behaves_as_the_single_ordered_list : forall st appof pools ids h s p m,
  describes st appof pools ids ->
  fst (route_ps st appof h s p m) = relabel ids (route_request pools h s p m).
Proof. exact route_ps_is_route_request. Qed.
Print Assumptions pool_behaves_as_the_single_ordered_list.
Theorem http_front_end_over_both_lists_is_serve_on_the_order : forall rules names st appof pools ids host uri m,
  describes st appof pools ids ->
  fst (serve_ps rules names st appof host uri m) = relabel_served ids (serve rules names pools host uri m).
Proof. exact serve_ps_is_serve. Qed.
Print Assumptions http_front_end_over_both_lists_is_serve_on_the_order.
Theorem every_pool_state_is_described : forall st appof (apps : list app),
  length apps = length (order st) ->
  (forall i a, nth_error apps i = Some a -> appof (nth i (map snd (order st)) 0%nat) = Some a) ->
  describes st appof (combine (map fst (order st)) apps) (map snd (order st)).
Proof. exact every_state_is_described. Qed.
Print Assumptions every_pool_state_is_described.
(* full circle for a root application mounted through mount(intrusive_ptr<application>, mount_point()) *)
Theorem http_request_reaches_the_routed_handler_legacy_mount : forall keep a url m host hid args id,
  (forall c, keep c = true -> c <> 37 /\ c <> 43) -> keep 63 = false ->
  byte_list url -> forallb (fun c => negb (c =? 0)) url = true ->
  (exists t, url = 47 :: t) -> keep 47 = true ->
  dispatch a url (Some m) = Fired hid args ->
  fst (serve_ps [] [] (mount_legacy ps_empty mp_all id) (fun i => if Nat.eqb i id then Some a else None) host (pct_enc keep url) m)
  = Served (RApp id url (Fired hid args)).
Proof. exact http_round_trip_legacy_mount. Qed.
Print Assumptions http_request_reaches_the_routed_handler_legacy_mount.
Theorem mapper_url_requested_over_http_reaches_its_page_legacy_mount : forall keep root node up pre pg ps vals m host throws id,
  (forall c, keep c = true -> c <> 37 /\ c <> 43) -> keep 63 = false -> keep 47 = true ->
  site_wf root -> chain root node up pre -> In pg (site_pages node) ->
  params_okb (page_route pg) ps = true ->
  reach root (pre ++ route_fill (page_route pg) ps) (snd pg) ps ->
  let url := pre ++ route_fill (page_route pg) ps in
  byte_list url -> forallb (fun c => negb (c =? 0)) url = true -> (exists t, url = 47 :: t) ->
  map_output throws (real_map (build node, up) vals (page_key pg) ps) = Some url /\
  fst (serve_ps [] [] (mount_legacy ps_empty mp_all id) (fun i => if Nat.eqb i id then Some (build root) else None) host (pct_enc keep url) m)
  = Served (RApp id url (Fired (snd pg) ps)).
Proof. exact http_map_dispatch_legacy_mount. Qed.
Print Assumptions mapper_url_requested_over_http_reaches_its_page_legacy_mount.
(* whole histories: mounts of both kinds, destructions of legacy applications, unmounts and lookups in any interleaving.
   run threads the real state (lookups purge dead entries as a side effect); run_ref is the reference semantics in which a
   lookup is a pure first-match scan of order st.  The answers coincide for every history - when and whether a purge happens
   is unobservable -, and each answer is the first match in the order of the state that the operations BEFORE it produced *)
Theorem pool_history_answers_ignore_purges : forall ops st, run st ops = run_ref st ops.
Proof. exact history_answers_ignore_purges. Qed.
Print Assumptions pool_history_answers_ignore_purges.
Theorem pool_history_lookup_answer : forall before h s p after st,
  run st (before ++ OLookup h s p :: after) =
  run st before ++ scan_apps (order (state_after st before)) h s p :: run (state_after st before) after.
Proof. exact history_lookup_answer. Qed.
Print Assumptions pool_history_lookup_answer.
(* how each operation changes the order *)
Theorem pool_order_of_operations : forall st,
  (forall mp id, order (mount_app st mp id) = ps_apps st ++ (mp, id) :: live_mounts (ps_legacy st)) /\
  (forall mp id, order (mount_legacy st mp id) = order st ++ [(mp, id)]) /\
  (forall id, order (unmount st id) = remove_first id (ps_apps st) ++ live_mounts (ps_legacy st)) /\
  (forall id, order (kill st id) = ps_apps st ++ filter (other id) (live_mounts (ps_legacy st))) /\
  (forall h s p, order (snd (lookup st h s p)) = order st).
Proof. exact order_of_operations. Qed.
Print Assumptions pool_order_of_operations.
Example pool_lists_nonvacuous :
  (* three mount points selecting group 1: /shop followed by anything, /lower-case-word/cart, anything; the request /shop/cart lies in all three languages *)
  let shop := MP None None (Some (PRoute [RLit [47; 115; 104; 111; 112]; RPar cs_dot false])) 1 true in
  let cart := MP None None (Some (PRoute [RLit [47]; RPar (CS false [(97, 122)]) true; RLit [47; 99; 97; 114; 116]])) 1 true in
  let anyp := MP None None (Some (PRoute [RPar cs_dot false])) 1 true in
  let rq := [47; 115; 104; 111; 112; 47; 99; 97; 114; 116] in
  let st := mount_legacy (mount_legacy ps_empty shop 0) cart 1 in
  (* two legacy mounts: the FIRST wins with ITS group (the unguarded loop would answer (1, shop)) *)
  fst (lookup st [104] [] rq) = Some (0%nat, [47; 99; 97; 114; 116]) /\
  fst (lookup (mount_legacy (mount_legacy ps_empty cart 1) shop 0) [104] [] rq) = Some (1%nat, [115; 104; 111; 112]) /\
  (* the first application destroyed: the second answers, the dead entry is erased by that lookup, the answer is stable *)
  lookup (kill st 0) [104] [] rq = (Some (1%nat, [115; 104; 111; 112]), PS [] [LE cart 1 true]) /\
  (* a pool mounted later through list apps is consulted first; nothing is purged then *)
  lookup (mount_app (kill st 0) anyp 2) [104] [] rq = (Some (2%nat, rq), mount_app (kill st 0) anyp 2) /\
  (* and unmounting it gives the request back to the live legacy mount *)
  fst (lookup (unmount (mount_app (kill st 0) anyp 2) 2) [104] [] rq) = Some (1%nat, [115; 104; 111; 112]) /\
  fst (lookup (kill (kill st 0) 1) [104] [] rq) = None /\
  lookups (kill st 0) [([104], [], rq); ([104], [], [47; 120]); ([104], [], rq)] =
    [Some (1%nat, [115; 104; 111; 112]); None; Some (1%nat, [115; 104; 111; 112])] /\
  (* a history: legacy shop, lookup, legacy cart, lookup, shop destroyed, lookup, pool anyp mounted, lookup, unmounted, lookup *)
  run ps_empty [OMountLegacy shop 0; OLookup [104] [] rq; OMountLegacy cart 1; OLookup [104] [] rq; OKill 0; OLookup [104] [] rq;
                OMountApp anyp 2; OLookup [104] [] rq; OUnmount 2; OLookup [104] [] rq] =
    [Some (0%nat, [47; 99; 97; 114; 116]); Some (0%nat, [47; 99; 97; 114; 116]); Some (1%nat, [115; 104; 111; 112]);
     Some (2%nat, rq); Some (1%nat, [115; 104; 111; 112])].
Proof. vm_compute. repeat split; reflexivity. Qed.

(* 13. HELPER VALUES in url templates (TmplSpec.v).  A template written as pieces - literal text without braces, {n} with
   1 <= n <= 9, {name} (non-empty, no braces, not all digits) - is accepted by the scanner of url_mapper::assign and rendered by
   data::write piece by piece: literal verbatim, {n} -> the n-th parameter, {name} -> named_value hs ov name = the keyword
   override of that name if the key carries one, otherwise the value set with set_value, otherwise the empty string *)
Theorem template_with_named_placeholders_renders_piecewise : forall ps params hs ov, forallb tp_ok ps = true ->
  exists parts idx, parse_tmpl (tmpl_text ps) = Some (parts, idx, tmaxp ps 0) /\
                    write parts idx params hs ov = render params hs ov ps.
Proof. exact template_pieces_correct. Qed.
Print Assumptions template_with_named_placeholders_renders_piecewise.
(* url_mapper::map(key, params) on a mapper that holds such an entry, helper values vals set with set_value *)
Theorem mapper_uses_helper_values : forall opts key ps kids root vals params,
  key <> [] -> key_bad key = false -> forallb tp_ok ps = true -> N.of_nat (length params) = tmaxp ps 0 ->
  exists u, render params vals [] ps = Some u /\
            real_map (App opts [MUrl key (tmpl_text ps)] kids root, []) vals key params = Ok (root ++ u).
Proof. exact map_with_helper_values. Qed.
Print Assumptions mapper_uses_helper_values.
(* the keyword form key;kw1,...,kwn: the first n parameters are bound to the keywords and override the helper values *)
Theorem mapper_keyword_parameters_override_helper_values : forall opts key ps kids root vals kws kvs params,
  key <> [] -> key_bad key = false -> forallb tp_ok ps = true -> N.of_nat (length params) = tmaxp ps 0 ->
  kws <> [] -> (forall x, In x kws -> noc 44 x = true) -> (forall x, In x kws -> noc 47 x = true) -> length kvs = length kws ->
  exists u, render params vals (zip_kw kws kvs) ps = Some u /\
            real_map (App opts [MUrl key (tmpl_text ps)] kids root, []) vals (key ++ 59 :: joinc 44 kws) (kvs ++ params) = Ok (root ++ u).
Proof. exact map_with_keyword_overrides. Qed.
Print Assumptions mapper_keyword_parameters_override_helper_values.
Example helper_values_nonvacuous :
  (* template /{lang}/a/{1}: key p, helper value lang=en; map(p,7) = /en/a/7; map(p;lang, ru, 7) = /ru/a/7; without a value: //a/7 *)
  let ps := [TLit [47]; TNamed [108; 97; 110; 103]; TLit [47; 97; 47]; TPos 1] in
  let a := App [] [MUrl [112] (tmpl_text ps)] [] [] in
  let vals := [([108; 97; 110; 103], [101; 110])] in
  forallb tp_ok ps = true /\ tmpl_text ps = [47; 123; 108; 97; 110; 103; 125; 47; 97; 47; 123; 49; 125] /\
  real_map (a, []) vals [112] [[55]] = Ok [47; 101; 110; 47; 97; 47; 55] /\
  real_map (a, []) vals [112; 59; 108; 97; 110; 103] [[114; 117]; [55]] = Ok [47; 114; 117; 47; 97; 47; 55] /\
  real_map (a, []) [] [112] [[55]] = Ok [47; 47; 97; 47; 55] /\
  real_map (a, []) vals [112] [] = Err EKey.
Proof. vm_compute. repeat split; reflexivity. Qed.

(* 14. KEYWORD placeholders in the mount urls of the ANCESTORS (KwNested.v).  url_mapper::data::map renders the entry of the key and
   hands the text, as parameter 1, to the parent mapper's entry for the child's name - at EVERY level with the SAME helper maps:
   hs = the set_value defaults of the topmost mapper, ov = the keyword parameters of the key.  level_ok (p, name) ps: the parent p
   holds, for name with one parameter, the entry whose template is the pieces ps; nest renders the levels from the innermost
   to the outermost.  So every {kw} at every level (page template and every ancestor's mount url) is named_value hs ov kw. *)
Theorem mapper_threads_both_helper_maps_through_every_level : forall up lv cur key params hs ov lps c,
  Forall2 level_ok up lv ->
  get_entry (tbl cur) key (N.of_nat (length params)) = Some (ENT (tparts lps []) (tidx lps) c) ->
  forallb tp_ok lps = true ->
  data_map cur up key params hs ov =
  match render params hs ov lps with
  | None => Err EIndex
  | Some u0 => match nest hs ov lv u0 with
               | Some u => Ok (app_root (top_app cur up) ++ u)
               | None => Err EIndex
               end
  end.
Proof. exact data_map_nested. Qed.
Print Assumptions mapper_threads_both_helper_maps_through_every_level.
(* through url_mapper::map with the keyword form of ANY key (absolute, relative, dot-dot ...) that resolves to (cur, up) / rk *)
Theorem mapper_keyword_overrides_reach_every_level : forall l vals key kws kvs params cur up rk lv lps c,
  key <> [] -> noc 59 key = true ->
  kws <> [] -> (forall x, In x kws -> noc 44 x = true) -> (forall x, In x kws -> noc 47 x = true) -> length kvs = length kws ->
  mapper_for_key l key = Ok ((cur, up), rk, []) ->
  Forall2 level_ok up lv ->
  get_entry (tbl cur) rk (N.of_nat (length params)) = Some (ENT (tparts lps []) (tidx lps) c) ->
  forallb tp_ok lps = true ->
  real_map l vals (key ++ 59 :: joinc 44 kws) (kvs ++ params) =
  match render params vals (zip_kw kws kvs) lps with
  | None => Err EIndex
  | Some u0 => match nest vals (zip_kw kws kvs) lv u0 with
               | Some u => Ok (app_root (top_app cur up) ++ u)
               | None => Err EIndex
               end
  end.
Proof. exact real_map_keywords_nested. Qed.
Print Assumptions mapper_keyword_overrides_reach_every_level.
(* a mount written  /{kw}<prefix>{1}  in the mapper and  slash, non-slash run (group 1), prefix, rest (group 2 -> child)  in the
   dispatcher: the pattern, matched against the url of its level, captures exactly the keyword value and the inner url *)
Theorem keyword_mount_captures_value_and_inner_url : forall pf v u,
  slash_first pf -> kvalue_ok v -> forallb (cmem cs_dot) u = true ->
  pat_match (PRoute (kmount_route pf)) (route_fill (kmount_route pf) [v; u]) = Some (route_fill (kmount_route pf) [v; u] :: [v; u]).
Proof. exact kmount_match. Qed.
Print Assumptions keyword_mount_captures_value_and_inner_url.
(* composed, any nesting depth: kroute = the way from the node up to the root through such mounts (at each level the mount is
   the first option that takes the url of that level; the keyword value is non-empty and slash-free).  The url that map() writes
   for key;kws routes from the root to whatever the node does with its own part, every level capturing the override *)
Theorem map_dispatch_keyword_overrides_at_every_level :
  forall l vals key kws kvs params cur up rk chain lps cc uroot c hid args u0,
  key <> [] -> noc 59 key = true ->
  kws <> [] -> (forall x, In x kws -> noc 44 x = true) -> (forall x, In x kws -> noc 47 x = true) -> length kvs = length kws ->
  mapper_for_key l key = Ok ((cur, up), rk, []) ->
  Forall2 level_ok up (map (fun x => kmount_pieces (fst x) (snd x)) chain) ->
  get_entry (tbl cur) rk (N.of_nat (length params)) = Some (ENT (tparts lps []) (tidx lps) cc) ->
  forallb tp_ok lps = true ->
  render params vals (zip_kw kws kvs) lps = Some u0 ->
  kroute vals (zip_kw kws kvs) c cur u0 up chain uroot ->
  routed cur u0 c hid args ->
  real_map l vals (key ++ 59 :: joinc 44 kws) (kvs ++ params) = Ok (app_root (top_app cur up) ++ uroot) /\
  dispatch (top_app cur up) uroot c = Fired hid args /\
  Forall2 (fun lvl cap => pat_match (PRoute (kmount_route (snd (fst lvl)))) (snd lvl) = Some [snd lvl; fst cap; snd cap])
          (combine chain (klevel_urls vals (zip_kw kws kvs) chain u0)) (kcaptures vals (zip_kw kws kvs) chain u0) /\
  Forall (fun cap => exists kw, In kw (map fst chain) /\ fst cap = named_value vals (zip_kw kws kvs) kw)
         (kcaptures vals (zip_kw kws kvs) chain u0).
Proof. exact kw_map_dispatch. Qed.
Print Assumptions map_dispatch_keyword_overrides_at_every_level.
Theorem map_dispatch_defaults_at_every_level : forall l vals key cur up rk chain lps cc uroot c hid args u0 params,
  mapper_for_key l key = Ok ((cur, up), rk, []) ->
  Forall2 level_ok up (map (fun x => kmount_pieces (fst x) (snd x)) chain) ->
  get_entry (tbl cur) rk (N.of_nat (length params)) = Some (ENT (tparts lps []) (tidx lps) cc) ->
  forallb tp_ok lps = true ->
  render params vals [] lps = Some u0 ->
  kroute vals [] c cur u0 up chain uroot ->
  routed cur u0 c hid args ->
  real_map l vals key params = Ok (app_root (top_app cur up) ++ uroot) /\
  dispatch (top_app cur up) uroot c = Fired hid args.
Proof. exact map_dispatch_defaults_nested. Qed.
Print Assumptions map_dispatch_defaults_at_every_level.
(* which defaults: values set on a mapper before its application is mounted are moved to the topmost mapper by url_mapper::mount
   (MountVals.collect_vals); the node's own values win over what came up from its children *)
Theorem premount_own_values_win_over_childrens : forall f a own vk k,
  kv_find k (collect_vals (S f) a (VT own vk)) =
  match kv_find k own with
  | Some x => Some x
  | None => kv_find k (flat_map (fun m => match m with
                                          | MMount _ _ i => match nth_error (app_kids a) i, nth_error vk i with
                                                            | Some kid, Some kv' => collect_vals f kid kv'
                                                            | _, _ => []
                                                            end
                                          | MUrl _ _ => []
                                          end) (app_ments a))
  end.
Proof. exact premount_values_precedence. Qed.
Print Assumptions premount_own_values_win_over_childrens.
Example keyword_levels_nonvacuous :
  (* root -> mid -> leaf, both mounts /{lang}<prefix>{1}, page /{lang}/item/{1}, default lang=en.  map(/mid/leaf/item;lang, ru, 7) carries ru
     at all three levels (a mapper that loses the overrides on the way up would write en at the two mount levels), without the
     keyword en at all three; the url routes back and the handler gets (ru, 7); every hypothesis of the composed theorem holds *)
  let ru := [114; 117] in let get := Some [71; 69; 84] in
  real_map (k_root, []) k_vals (k_key ++ 59 :: k_lang) [ru; [55]] = Ok (k_url ru) /\
  real_map (k_root, []) k_vals k_key [[55]] = Ok (k_url [101; 110]) /\
  real_map (k_leaf, k_up) k_vals ([105; 116; 101; 109] ++ 59 :: k_lang) [ru; [55]] = Ok (k_url ru) /\
  real_map (k_mid, [(k_root, [109; 105; 100])]) [] ([108; 101; 97; 102; 47; 105; 116; 101; 109] ++ 59 :: k_lang) [ru; [55]] = Ok (k_url ru) /\
  dispatch k_root (k_url ru) get = Fired 7 [ru; [55]] /\
  mapper_for_key (k_root, []) k_key = Ok ((k_leaf, k_up), [105; 116; 101; 109], []) /\
  Forall2 level_ok k_up (map (fun x => kmount_pieces (fst x) (snd x)) k_chain) /\
  kroute k_vals (zip_kw [k_lang] [ru]) get k_leaf [47; 114; 117; 47; 105; 116; 101; 109; 47; 55] k_up k_chain (k_url ru) /\
  kcaptures k_vals (zip_kw [k_lang] [ru]) k_chain [47; 114; 117; 47; 105; 116; 101; 109; 47; 55] =
    [(ru, [47; 114; 117; 47; 105; 116; 101; 109; 47; 55]); (ru, [47; 114; 117; 47; 108; 101; 97; 102; 47; 114; 117; 47; 105; 116; 101; 109; 47; 55])].
Proof.
  cbv zeta. repeat split; try (vm_compute; reflexivity).
  - exact k_example_levels.
  - exact k_example_route.
Qed.
