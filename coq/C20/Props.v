(* C20 -- URL routing is deterministic, whole-string, and consistent with URL generation.
   Only the property theorems; the proofs are in Regex.v (language, derivative matcher), Routes.v (route family),
   Dispatch.v (dispatcher, mount points, pool scan), Sites.v (dispatcher of a site), Mapper.v (mapper of a site,
   map_dispatch, mapper_total), Examples.v (a concrete instance satisfying every hypothesis of map_dispatch). *)
From CppcmsV Require Import Base.Tac C20.Defs C20.Regex C20.Routes C20.Dispatch C20.Routed C20.Sites C20.Mapper C20.MapAbs C20.MapRel C20.MapAt C20.Examples.
Local Open Scope N_scope.

(* 1. the matcher that models booster::regex::match accepts exactly the whole strings of the language *)
Theorem full_match_correct : forall r s, full_match r s = true <-> lang r s.
Proof. intros r s. apply full_match_spec. Qed.
Print Assumptions full_match_correct.
Example full_match_nonvacuous :
  full_match (Cat (Chr 47) (Plus (Cls cs_digits))) [47; 52; 50] = true /\
  full_match (Cat (Chr 47) (Plus (Cls cs_digits))) [47; 52; 50; 10] = false /\
  full_match (Cat (Chr 47) (Plus (Cls cs_digits))) [47; 52; 0; 50] = false /\
  full_match (Cat (Chr 47) (Plus (Cls cs_digits))) [47] = false.
Proof. vm_compute. auto. Qed.

(* 2. routes: the capture-extracting matcher returns exactly the parse of the whole string *)
Theorem route_match_is_a_parse : forall r s caps, route_match r s = Some caps ->
  s = route_fill r caps /\ params_okb r caps = true /\ lang (route_re r) s.
Proof.
  intros r s caps H. destruct (route_match_sound r s caps H) as [E Hp].
  split; [exact E|]. split; [exact Hp | eapply route_match_lang; eassumption].
Qed.
Print Assumptions route_match_is_a_parse.
Theorem route_match_complete : forall r s, route_ok r = true -> lang (route_re r) s ->
  exists caps, route_match r s = Some caps /\ s = route_fill r caps /\ params_okb r caps = true.
Proof. exact route_lang_match. Qed.
Print Assumptions route_match_complete.
Theorem route_match_of_generated_url : forall r ps, route_ok r = true -> params_okb r ps = true ->
  route_match r (route_fill r ps) = Some ps.
Proof. exact route_match_fill. Qed.
Print Assumptions route_match_of_generated_url.
Theorem route_parse_unique : forall r ps ps', route_ok r = true ->
  params_okb r ps = true -> params_okb r ps' = true -> route_fill r ps = route_fill r ps' -> ps = ps'.
Proof. exact route_captures_unique. Qed.
Print Assumptions route_parse_unique.
Example route_nonvacuous :
  let r := [RLit [47; 97; 47]; RPar cs_digits true; RLit [45]; RPar cs_dot false] in
  route_ok r = true /\ route_match r [47; 97; 47; 52; 50; 45; 120; 0; 121] = Some [[52; 50]; [120; 0; 121]] /\
  route_match r [47; 97; 47; 52; 50; 45; 120; 10] = None /\ route_match r [47; 97; 47; 45] = None.
Proof. vm_compute. auto. Qed.

(* 3. first_match: the dispatcher returns the outcome of the option of least index that takes the request;
      not-found iff none does *)
Theorem first_match : forall kd opts url c,
  (exists i o out, nth_error opts i = Some o /\ try_opt kd o url c = Some out /\
                   (forall j o', (j < i)%nat -> nth_error opts j = Some o' -> try_opt kd o' url c = None) /\
                   scan kd opts url c = out)
  \/ ((forall o, In o opts -> try_opt kd o url c = None) /\ scan kd opts url c = NotFound).
Proof. exact scan_first_match. Qed.
Print Assumptions first_match.
Theorem later_options_irrelevant : forall kd pre o post url c out,
  (forall o', In o' pre -> try_opt kd o' url c = None) -> try_opt kd o url c = Some out ->
  scan kd (pre ++ o :: post) url c = out.
Proof. exact scan_prefix_irrelevant. Qed.
Print Assumptions later_options_irrelevant.
Theorem not_found_iff_none_matches : forall kd opts url c, handlers_only opts ->
  (scan kd opts url c = NotFound <-> forall o, In o opts -> try_opt kd o url c = None).
Proof. exact not_found_iff. Qed.
Print Assumptions not_found_iff_none_matches.
(* what "takes the request" means for a handler: whole-string pattern match, method in the language of the filter,
   arguments = exactly the selected groups of that match *)
Theorem handler_fires_exactly : forall kd k p mf hid sel url c out,
  try_opt kd (DH k p mf hid sel) url c = Some out <->
  exists gs, pat_match p url = Some gs /\ out = Fired hid (map (grp gs) sel) /\
             (k = KMap -> exists m, c = Some m /\ meth_lang mf m /\ forallb valid_text (map (grp gs) sel) = true).
Proof. exact handler_fires_iff. Qed.
Print Assumptions handler_fires_exactly.
Theorem mounted_takes_exactly : forall kids p sel k url c out,
  try_opt (kid_fns kids) (DM p sel k) url c = Some out <->
  exists gs, pat_match p url = Some gs /\
             out = match nth_error kids k with
                   | Some kid => finish404 c (dispatch kid (grp gs sel) c)
                   | None => BadKid
                   end.
Proof. exact mount_takes_iff. Qed.
Print Assumptions mounted_takes_exactly.
Example first_match_nonvacuous :
  let o1 := DH KAssign (PRoute [RLit [47]; RPar cs_digits true]) MAny 1 [1%nat] in
  let o2 := DH KMap (PRoute [RLit [47]; RPar cs_dot false]) (MPat (lit_re [71; 69; 84])) 2 [1%nat; 0%nat] in
  scan [] [o1; o2] [47; 52; 50] (Some [71; 69; 84]) = Fired 1 [[52; 50]] /\
  scan [] [o2; o1] [47; 52; 50] (Some [71; 69; 84]) = Fired 2 [[52; 50]; [47; 52; 50]] /\
  scan [] [o2; o1] [47; 52; 50] (Some [80; 79; 83; 84]) = Fired 1 [[52; 50]] /\
  scan [] [o1; o2] [47; 52; 50; 10] (Some [71; 69; 84]) = NotFound.
Proof. vm_compute. auto. Qed.

(* 4. whole_string: an option takes a request only if the ENTIRE url is in the language of its pattern; across a
      whole application tree a handler fires only through a chain of such whole-string matches, each mounted
      application receiving exactly the selected group *)
Theorem whole_string_option : forall kd o url c out,
  try_opt kd o url c = Some out -> lang (pat_re (opt_pat o)) url.
Proof. exact taken_whole_string. Qed.
Print Assumptions whole_string_option.
Theorem pattern_match_is_whole_string : forall p s gs,
  pat_match p s = Some gs -> lang (pat_re p) s /\ grp gs 0 = s.
Proof. exact pat_match_whole. Qed.
Print Assumptions pattern_match_is_whole_string.
Theorem pattern_match_complete : forall p s, pat_ok p -> lang (pat_re p) s -> exists gs, pat_match p s = Some gs.
Proof. exact pat_lang_match. Qed.
Print Assumptions pattern_match_complete.
Theorem whole_string : forall a url c hid args,
  dispatch a url c = Fired hid args -> fires a url c hid args.
Proof. exact dispatch_whole_string. Qed.
Print Assumptions whole_string.
(* complete characterisation over trees of any depth: a handler fires with these arguments IFF, at every level from the
   root, it is reached through the option of least index that takes the request (all earlier ones decline), whose pattern
   matches the whole string, each mounted child receiving exactly the selected group *)
Theorem routing_is_first_whole_match : forall a url c hid args,
  dispatch a url c = Fired hid args <-> routed a url c hid args.
Proof. intros. split; [apply dispatch_routed | apply routed_dispatch]. Qed.
Print Assumptions routing_is_first_whole_match.
Example whole_string_nonvacuous :
  let kid := App [DH KAssign (PRoute [RLit [47; 112]; RPar cs_digits true]) MAny 7 [1%nat]] [] [] [] in
  let root := App [DM (PRoute [RLit [47; 97]; RPar cs_dot false]) 1 0] [] [kid] [] in
  dispatch root [47; 97; 47; 112; 53] None = Fired 7 [[53]] /\
  dispatch root [47; 97; 47; 112; 53; 0; 122] None = Threw /\
  dispatch root [47; 97; 47; 112; 53; 0; 122] (Some [71]) = NotFound /\
  dispatch root [47; 97; 98; 47; 112; 53] (Some [71]) = NotFound.
Proof. vm_compute. auto. Qed.

(* 5. mount points and the pool: whole-string on host / script name / path info, first mount point wins *)
Theorem mount_point_whole_string : forall mp h s p sub, mp_match mp h s p = Some sub ->
  (forall q, mp_host mp = Some q -> lang (pat_re q) (cstr h)) /\
  (forall q, mp_script mp = Some q -> lang (pat_re q) (cstr s)) /\
  (forall q, mp_path mp = Some q -> lang (pat_re q) (cstr p)) /\
  (let sel := if mp_selpath mp then mp_path mp else mp_script mp in
   let str := if mp_selpath mp then cstr p else cstr s in
   match sel with
   | Some q => exists gs, pat_match q str = Some gs /\ sub = grp gs (mp_group mp)
   | None => sub = str
   end).
Proof. exact mp_match_whole. Qed.
Print Assumptions mount_point_whole_string.
Theorem pool_first_mount_point : forall mps h s p,
  match pool_lookup mps h s p with
  | Some (i, sub) => exists mp, nth_error mps i = Some mp /\ mp_match mp h s p = Some sub /\
                                forall j mp', (j < i)%nat -> nth_error mps j = Some mp' -> mp_match mp' h s p = None
  | None => forall mp, In mp mps -> mp_match mp h s p = None
  end.
Proof. exact pool_first_match. Qed.
Print Assumptions pool_first_mount_point.
(* end to end: a request is routed to the first mount point and then, inside its application, as above *)
Theorem request_routing_end_to_end : forall pools h s p m i sub hid args,
  route_request pools h s p m = RApp i sub (Fired hid args) ->
  exists mp a, nth_error pools i = Some (mp, a) /\
               mp_match mp h s p = Some sub /\
               (forall j mp', (j < i)%nat -> nth_error (map fst pools) j = Some mp' -> mp_match mp' h s p = None) /\
               routed a sub (Some m) hid args.
Proof. exact request_routed. Qed.
Print Assumptions request_routing_end_to_end.
Example pool_nonvacuous :
  let m1 := MP None None (Some (PRoute [RLit [47; 97]; RPar cs_dot false])) 1 true in
  let m2 := MP None None (Some (PRoute [RLit [47]; RPar cs_dot false])) 0 true in
  pool_lookup [m1; m2] [104] [] [47; 97; 47; 120] = Some (0%nat, [47; 120]) /\
  pool_lookup [m2; m1] [104] [] [47; 97; 47; 120] = Some (0%nat, [47; 97; 47; 120]) /\
  pool_lookup [m1] [104] [] [47; 98] = None.
Proof. vm_compute. auto. Qed.

(* 6. the url template printed for a route parses back (url_mapper::real_assign) into the chunks and indexes of the
      route, and rendering it (data::write) with parameters ps yields route_fill r ps *)
Theorem template_parses_back : forall r, route_brace_free r = true -> (nparams r <= 9)%nat ->
  parse_tmpl (route_template r) = Some (parts_of r [], idxs 1 r, N.of_nat (nparams r)).
Proof. exact parse_route_template. Qed.
Print Assumptions template_parses_back.
Theorem template_renders_route : forall r ps hs ov, (nparams r <= length ps)%nat ->
  write (parts_of r []) (idxs 1 r) ps hs ov = Some (route_fill r ps).
Proof. exact write_route_template. Qed.
Print Assumptions template_renders_route.

(* 7. map_dispatch, any depth.  reach root url h ps = url is the address of the page with handler h below root and no
      earlier sibling option matches it at any level (decidable side condition; for unambiguous routes it is
      "url is not in the language of an earlier sibling", see route_match_none_iff_not_in_language). *)
Theorem site_url_is_routed_to_its_page : forall s url h ps, reach s url h ps ->
  forall c, dispatch (build s) url c = Fired h ps.
Proof. exact site_dispatch. Qed.
Print Assumptions site_url_is_routed_to_its_page.
Theorem route_match_none_iff_not_in_language : forall r s, route_ok r = true ->
  (route_match r s = None <-> ~ lang (route_re r) s).
Proof. exact route_match_none_iff. Qed.
Print Assumptions route_match_none_iff_not_in_language.
Theorem site_mapper_generates_page_url : forall root node up pre pg ps hs ov,
  site_wf root -> chain root node up pre -> In pg (site_pages node) -> length ps = nparams (page_route pg) ->
  data_map (build node) up (page_key pg) ps hs ov = Ok (pre ++ route_fill (page_route pg) ps).
Proof. exact site_data_map. Qed.
Print Assumptions site_mapper_generates_page_url.
Theorem map_dispatch_agree : forall root node up pre pg ps vals c,
  site_wf root -> chain root node up pre -> In pg (site_pages node) ->
  params_okb (page_route pg) ps = true ->
  reach root (pre ++ route_fill (page_route pg) ps) (snd pg) ps ->
  exists url, real_map (build node, up) vals (page_key pg) ps = Ok url /\
              dispatch (build root) url c = Fired (snd pg) ps.
Proof. exact map_dispatch_local. Qed.
Print Assumptions map_dispatch_agree.
(* key navigation: an absolute key /n1/.../nk/pagekey used on the mapper of ANY node `from` of the site is resolved
   (topmost, child walk) to the node reached through the mounts n1..nk ... *)
Theorem mapper_resolves_absolute_key : forall root from upf pref node up pre pg,
  site_wf root -> chain root from upf pref -> chain root node up pre -> Forall name_ok (map snd up) ->
  In pg (site_pages node) ->
  mapper_for_key (build from, upf) (abs_key up (page_key pg)) = Ok ((build node, up), page_key pg, []).
Proof. exact mapper_for_abs_key. Qed.
Print Assumptions mapper_resolves_absolute_key.
(* ... and the url it generates routes, from the root, to that page with exactly the parameters *)
Theorem map_dispatch_absolute_key : forall root from upf pref node up pre pg ps vals c,
  site_wf root -> chain root from upf pref -> chain root node up pre -> Forall name_ok (map snd up) ->
  In pg (site_pages node) -> params_okb (page_route pg) ps = true ->
  reach root (pre ++ route_fill (page_route pg) ps) (snd pg) ps ->
  exists url, real_map (build from, upf) vals (abs_key up (page_key pg)) ps = Ok url /\
              dispatch (build root) url c = Fired (snd pg) ps.
Proof. exact map_dispatch_abs. Qed.
Print Assumptions map_dispatch_absolute_key.
(* relative keys: from a node F below a common ancestor A (rchain A F namesF), the key made of one dot-dot per level
   between F and A, the mount names from A down to N and the page key is resolved to the mapper of N ... *)
Theorem mapper_resolves_relative_key : forall root a0 up0 pre0 from upf namesF node up names pg,
  site_wf root -> chain root a0 up0 pre0 ->
  rchain a0 up0 from upf namesF -> rchain a0 up0 node up names -> Forall rname_ok names ->
  In pg (site_pages node) -> (length namesF + length names > 0)%nat ->
  mapper_for_key (build from, upf) (rel_key (length namesF) names (page_key pg)) = Ok ((build node, up), page_key pg, []).
Proof. exact mapper_for_rel_key. Qed.
Print Assumptions mapper_resolves_relative_key.
(* ... and the url routes back to the page *)
Theorem map_dispatch_relative_key : forall root a0 up0 pre0 from upf namesF node up names pg ps vals c pre,
  site_wf root -> chain root a0 up0 pre0 ->
  rchain a0 up0 from upf namesF -> rchain a0 up0 node up names -> Forall rname_ok names ->
  chain root node up pre ->
  In pg (site_pages node) -> (length namesF + length names > 0)%nat ->
  params_okb (page_route pg) ps = true ->
  reach root (pre ++ route_fill (page_route pg) ps) (snd pg) ps ->
  exists url, real_map (build from, upf) vals (rel_key (length namesF) names (page_key pg)) ps = Ok url /\
              dispatch (build root) url c = Fired (snd pg) ps.
Proof. exact map_dispatch_rel. Qed.
Print Assumptions map_dispatch_relative_key.
(* the tree-position form used by the correspondence harness: registering a well-formed site never throws, every node
   of the site sits at a tree position, and map_at at that position is real_map at the location used above *)
Theorem site_registration_never_throws : forall s, site_wf s -> build_ok (build s) = true.
Proof. exact build_ok_site. Qed.
Print Assumptions site_registration_never_throws.
Theorem map_at_agrees_with_real_map : forall root node up pre, site_wf root -> chain root node up pre ->
  exists pos, forall vals key ps, nul_free key = true ->
    map_at (build root) vals pos key ps = real_map (build node, up) vals key ps.
Proof. exact map_at_is_real_map. Qed.
Print Assumptions map_at_agrees_with_real_map.
(* not proved (modelled, run against the implementation by the correspondence harness, checked by the oracle): single-dot
   components, keyword parameters, the bare path of a mounted child (empty key via is_app), helper values in
   templates, keys with an embedded NUL (c_str truncation). *)
Example map_dispatch_nonvacuous :
  site_wf ex_root /\ chain ex_root ex_leaf ex_up ([47; 99] ++ [47; 100]) /\ In ex_page (site_pages ex_leaf) /\
  page_key ex_page <> [] /\ params_okb (page_route ex_page) ex_ps = true /\
  reach ex_root (([47; 99] ++ [47; 100]) ++ route_fill (page_route ex_page) ex_ps) (snd ex_page) ex_ps /\
  real_map (build ex_leaf, ex_up) [] (page_key ex_page) ex_ps = Ok ex_url /\
  dispatch (build ex_root) ex_url None = Fired 3 ex_ps /\
  dispatch (build ex_root) [47; 99; 55] None = Fired 5 [[55]].
Proof. exact map_dispatch_instance. Qed.
Example map_dispatch_absolute_nonvacuous :
  Forall name_ok (map snd ex_up) /\ chain ex_root ex_mid [(build ex_root, [99])] ([] ++ [47; 99]) /\
  abs_key ex_up (page_key ex_page) = [47; 99; 47; 100; 47; 113] /\
  real_map (build ex_mid, [(build ex_root, [99])]) [] (abs_key ex_up (page_key ex_page)) ex_ps = Ok ex_url /\
  map_at (build ex_root) [] [0%nat] [47; 99; 47; 100; 47; 113] ex_ps = Ok ex_url.
Proof. split; [exact ex_names_ok|]. split; [exact ex_chain_mid|]. exact map_dispatch_abs_instance. Qed.
Example map_dispatch_relative_nonvacuous :
  rchain ex_root [] ex_leaf ex_up [[99]; [100]] /\ rchain ex_root [] ex_mid [(build ex_root, [99])] [[99]] /\
  Forall rname_ok [[99]] /\ In ex_page_mid (site_pages ex_mid) /\
  reach ex_root ([47; 99] ++ route_fill (page_route ex_page_mid) [[55]]) 2 [[55]] /\
  rel_key 2 [[99]] (page_key ex_page_mid) = [46; 46; 47; 46; 46; 47; 99; 47; 112] /\
  real_map (build ex_leaf, ex_up) [] (rel_key 2 [[99]] (page_key ex_page_mid)) [[55]] = Ok [47; 99; 47; 112; 47; 55] /\
  dispatch (build ex_root) [47; 99; 47; 112; 47; 55] None = Fired 2 [[55]].
Proof.
  split; [exact ex_rchain_leaf|]. split; [exact ex_rchain_mid|]. split; [exact ex_rnames_ok|].
  split; [left; reflexivity|]. split; [exact ex_reach_mid|]. exact map_dispatch_rel_instance.
Qed.

(* 8. mapper_total: an unknown key or a wrong number of parameters is an error, and an error is an exception or the
      fixed marker url, never a partial url *)
Theorem mapper_unknown_key_is_error : forall cur up key ps hs ov,
  get_entry (tbl cur) key (N.of_nat (length ps)) = None -> data_map cur up key ps hs ov = Err EKey.
Proof. exact data_map_unknown_key. Qed.
Print Assumptions mapper_unknown_key_is_error.
Theorem mapper_unknown_key_after_navigation : forall l vals key ps l' rk kws,
  mapper_for_key l key = Ok (l', rk, kws) ->
  get_entry (tbl (fst l')) rk (N.of_nat (length (skipn (length kws) ps))) = None ->
  exists e, real_map l vals key ps = Err e.
Proof. exact real_map_unknown_key. Qed.
Print Assumptions mapper_unknown_key_after_navigation.
Theorem mapper_total : forall throws r,
  match r with
  | Ok u => map_output throws r = Some (if throws then u else cstr u)
  | Err _ => map_output throws r = if throws then None else Some invalid_url
  end.
Proof. exact map_output_total. Qed.
Print Assumptions mapper_total.
Example mapper_total_nonvacuous :
  map_at (build ex_root) [] [0%nat; 0%nat] [113] [[97]; [49]] = Ok [47; 99; 47; 100; 47; 113; 47; 97; 45; 49] /\
  map_at (build ex_root) [] [0%nat; 0%nat] [113] [[97]] = Err EKey /\
  map_at (build ex_root) [] [0%nat; 0%nat] [122] [] = Err EKey /\
  map_at (build ex_root) [] [0%nat; 0%nat] [46; 46; 47; 112] [[55]] = Ok [47; 99; 47; 112; 47; 55] /\
  map_at (build ex_root) [] [0%nat; 0%nat] [47; 104] [] = Ok [47] /\
  map_output false (Ok [47; 97; 0; 98]) = Some [47; 97].
Proof. vm_compute. repeat split; reflexivity. Qed.
