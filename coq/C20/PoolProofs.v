(* C20 proofs, part 20: the complete applications_pool lookup - two lists, purge of dead legacy entries, first-match guard. *)
From CppcmsV Require Import Base.Tac C20.Defs C20.Regex C20.Routes C20.Dispatch C20.Routed C20.Rewrite C20.RewriteSpec C20.Serve C20.PoolDefs.
Local Open Scope N_scope.

Definition nomatch (h s p : bytes) (e : mpoint * nat) : Prop := mp_match (fst e) h s p = None.

(* ---- loop 1: a plain first-match scan ---- *)
Lemma scan_apps_app a b h s p :
  scan_apps (a ++ b) h s p = match scan_apps a h s p with Some r => Some r | None => scan_apps b h s p end.
Proof.
  induction a as [|[mp id] a IH]; [reflexivity|]. cbn [List.app scan_apps].
  destruct (mp_match mp h s p); [reflexivity | exact IH].
Qed.

Lemma scan_apps_some l h s p id sub : scan_apps l h s p = Some (id, sub) ->
  exists pre mp post, l = pre ++ (mp, id) :: post /\ mp_match mp h s p = Some sub /\ Forall (nomatch h s p) pre.
Proof.
  induction l as [|[mp i] l IH]; [discriminate|]. cbn [scan_apps].
  destruct (mp_match mp h s p) as [sb|] eqn:Em.
  - intros H. injection H as -> ->. exists [], mp, l. split; [reflexivity|]. split; [exact Em | constructor].
  - intros H. destruct (IH H) as (pre & mp' & post & -> & Hm & Hpre).
    exists ((mp, i) :: pre), mp', post. split; [reflexivity|]. split; [exact Hm|].
    constructor; [exact Em | exact Hpre].
Qed.

Lemma scan_apps_none l h s p : scan_apps l h s p = None <-> Forall (nomatch h s p) l.
Proof.
  induction l as [|[mp i] l IH]; cbn [scan_apps].
  - split; [constructor | reflexivity].
  - destruct (mp_match mp h s p) as [sb|] eqn:Em.
    + split; [discriminate|]. intros H. inversion H as [|x y Hx Hy]. unfold nomatch in Hx. cbn in Hx. congruence.
    + rewrite IH. split; [intros H; constructor; [exact Em | exact H] | intros H; inversion H; assumption].
Qed.

Lemma scan_apps_at pre mp id post h s p sub :
  Forall (nomatch h s p) pre -> mp_match mp h s p = Some sub ->
  scan_apps (pre ++ (mp, id) :: post) h s p = Some (id, sub).
Proof.
  intros Hpre Hm. rewrite scan_apps_app. apply scan_apps_none in Hpre. rewrite Hpre. cbn [scan_apps]. rewrite Hm. reflexivity.
Qed.

(* ---- loop 2: the accumulating scan with the purge equals a first-match scan over the live entries ---- *)
Lemma scan_legacy_spec l : forall res h s p,
  scan_legacy l res h s p =
  (match res with Some _ => res | None => scan_apps (live_mounts l) h s p end, filter le_live l).
Proof.
  induction l as [|e l IH]; intros res h s p.
  - cbn. destruct res; reflexivity.
  - unfold live_mounts in *. cbn [scan_legacy filter]. destruct (le_live e) eqn:El; cbn [negb].
    + rewrite IH. cbn [filter map scan_apps]. destruct res as [r|]; [reflexivity|].
      destruct (mp_match (le_mp e) h s p); reflexivity.
    + rewrite IH. reflexivity.
Qed.

Lemma lookup_fst st h s p : fst (lookup st h s p) = scan_apps (order st) h s p.
Proof.
  unfold lookup, order. rewrite scan_apps_app.
  destruct (scan_apps (ps_apps st) h s p) as [r|]; [reflexivity|].
  rewrite scan_legacy_spec. reflexivity.
Qed.

Lemma lookup_snd st h s p :
  snd (lookup st h s p) = match scan_apps (ps_apps st) h s p with Some _ => st | None => purge st end.
Proof.
  unfold lookup. destruct (scan_apps (ps_apps st) h s p) as [r|]; [reflexivity|].
  rewrite scan_legacy_spec. reflexivity.
Qed.

(* the selected mount is the first one in the order whose mount point matches; its sub-path is that mount's group *)
Theorem lookup_first st h s p id sub :
  fst (lookup st h s p) = Some (id, sub) <->
  exists pre mp post, order st = pre ++ (mp, id) :: post /\ mp_match mp h s p = Some sub /\ Forall (nomatch h s p) pre.
Proof.
  rewrite lookup_fst. split.
  - apply scan_apps_some.
  - intros (pre & mp & post & -> & Hm & Hpre). apply scan_apps_at; assumption.
Qed.

Theorem lookup_none st h s p : fst (lookup st h s p) = None <-> Forall (nomatch h s p) (order st).
Proof. rewrite lookup_fst. apply scan_apps_none. Qed.

(* list 1 is consulted first: a match there wins whatever the legacy list holds, and nothing is purged *)
Theorem apps_before_legacy st h s p r :
  scan_apps (ps_apps st) h s p = Some r -> lookup st h s p = (Some r, st).
Proof. intros H. unfold lookup. rewrite H. reflexivity. Qed.

(* ---- purge ---- *)
Lemma filter_idem {A} (f : A -> bool) l : filter f (filter f l) = filter f l.
Proof.
  induction l as [|a l IH]; [reflexivity|]. cbn [filter]. destruct (f a) eqn:E; [cbn [filter]; rewrite E, IH; reflexivity | exact IH].
Qed.

Lemma order_purge st : order (purge st) = order st.
Proof. unfold order, purge, live_mounts. cbn [ps_apps ps_legacy]. rewrite filter_idem. reflexivity. Qed.

Lemma purge_idem st : purge (purge st) = purge st.
Proof. unfold purge. cbn [ps_apps ps_legacy]. rewrite filter_idem. reflexivity. Qed.

Lemma order_after_lookup st h s p : order (snd (lookup st h s p)) = order st.
Proof. rewrite lookup_snd. destruct (scan_apps (ps_apps st) h s p); [reflexivity | apply order_purge]. Qed.

(* removing the dead entries does not change the answer to any request *)
Theorem purge_transparent st h s p : fst (lookup (purge st) h s p) = fst (lookup st h s p).
Proof. rewrite !lookup_fst, order_purge. reflexivity. Qed.

(* whatever lookups happened before (and whatever they purged), the answer is the answer of the original lists *)
Theorem lookups_stateless reqs : forall st,
  lookups st reqs = map (fun r => match r with (h, s, p) => fst (lookup st h s p) end) reqs.
Proof.
  induction reqs as [|[[h s] p] reqs IH]; intros st; [reflexivity|].
  cbn [lookups map]. destruct (lookup st h s p) as [r st'] eqn:E.
  assert (Ho : order st' = order st) by (pose proof (order_after_lookup st h s p) as H; rewrite E in H; exact H).
  cbn [fst]. f_equal. rewrite IH. apply map_ext. intros [[h' s'] p']. rewrite !lookup_fst, Ho. reflexivity.
Qed.

(* the list that remains: only dead entries disappear, and after a lookup that reached loop 2 every dead entry is gone *)
Theorem lookup_purges_exactly_the_dead st h s p :
  let st' := snd (lookup st h s p) in
  ps_apps st' = ps_apps st /\
  (forall e, In e (ps_legacy st') -> In e (ps_legacy st)) /\
  (forall e, In e (ps_legacy st) -> le_live e = true -> In e (ps_legacy st')) /\
  (scan_apps (ps_apps st) h s p = None -> forall e, In e (ps_legacy st') -> le_live e = true).
Proof.
  cbn zeta. rewrite lookup_snd. destruct (scan_apps (ps_apps st) h s p) as [r|].
  - split; [reflexivity|]. split; [auto|]. split; [auto | discriminate].
  - unfold purge. cbn [ps_apps ps_legacy]. split; [reflexivity|].
    split; [intros e He; apply filter_In in He; tauto|].
    split; [intros e He Hl; apply filter_In; tauto | intros _ e He; apply filter_In in He; tauto].
Qed.

(* a dead entry never wins *)
Theorem dead_never_wins st h s p id sub :
  fst (lookup st h s p) = Some (id, sub) ->
  (exists mp, In (mp, id) (ps_apps st) /\ mp_match mp h s p = Some sub) \/
  (exists mp, In (LE mp id true) (ps_legacy st) /\ mp_match mp h s p = Some sub).
Proof.
  intros H. apply lookup_first in H. destruct H as (pre & mp & post & Ho & Hm & _).
  assert (Hin : In (mp, id) (order st)) by (rewrite Ho; apply in_or_app; right; left; reflexivity).
  unfold order in Hin. apply in_app_or in Hin. destruct Hin as [Hin|Hin].
  - left. exists mp. split; assumption.
  - right. exists mp. split; [|exact Hm]. unfold live_mounts in Hin. apply in_map_iff in Hin.
    destruct Hin as ([mp' id' lv] & E & Hf). cbn in E. injection E as -> ->. apply filter_In in Hf.
    destruct Hf as [Hf Hl]. cbn in Hl. subst lv. exact Hf.
Qed.

Definition other (id : nat) (x : mpoint * nat) : bool := negb (Nat.eqb (snd x) id).

Lemma kill_entry_eq id mp i lv : kill_entry id (LE mp i lv) = LE mp i (lv && negb (Nat.eqb i id)).
Proof. unfold kill_entry. cbn [le_id le_mp]. destruct (Nat.eqb i id); destruct lv; reflexivity. Qed.

Lemma live_mounts_kill_eq id l : live_mounts (map (kill_entry id) l) = filter (other id) (live_mounts l).
Proof.
  unfold live_mounts. induction l as [|e l IH]; [reflexivity|]. cbn [map].
  destruct e as [mp i lv]. rewrite kill_entry_eq. cbn [filter le_live].
  destruct lv; cbn [andb]; [|exact IH].
  cbn [map filter le_id le_mp]. unfold other at 1. cbn [snd].
  destruct (negb (Nat.eqb i id)); cbn [filter map le_id le_mp le_live]; [f_equal|]; exact IH.
Qed.

Lemma live_mounts_kill id l :
  Forall (fun e => snd e <> id) (live_mounts (map (kill_entry id) l)).
Proof.
  rewrite live_mounts_kill_eq. apply Forall_forall. intros x Hx. apply filter_In in Hx. destruct Hx as [_ Hx].
  unfold other in Hx. apply negb_true_iff in Hx. apply Nat.eqb_neq. exact Hx.
Qed.

(* once the application of a legacy mount has been destroyed, no request is routed to it any more *)
Theorem killed_mount_is_never_selected st id h s p sub :
  ~ In id (map snd (ps_apps st)) -> fst (lookup (kill st id) h s p) <> Some (id, sub).
Proof.
  intros Hn H. apply lookup_first in H. destruct H as (pre & mp & post & Ho & _).
  assert (Hin : In (mp, id) (order (kill st id))) by (rewrite Ho; apply in_or_app; right; left; reflexivity).
  unfold order, kill in Hin. cbn [ps_apps ps_legacy] in Hin. apply in_app_or in Hin. destruct Hin as [Hin|Hin].
  - apply Hn. apply in_map_iff. exists (mp, id). split; [reflexivity | exact Hin].
  - pose proof (live_mounts_kill id (ps_legacy st)) as Hf. rewrite Forall_forall in Hf. apply (Hf _ Hin). reflexivity.
Qed.

(* ---- later registrations ---- *)
Lemma order_mount_legacy st mp id : order (mount_legacy st mp id) = order st ++ [(mp, id)].
Proof.
  unfold order, mount_legacy, live_mounts. cbn [ps_apps ps_legacy]. rewrite filter_app, map_app, app_assoc. reflexivity.
Qed.

Lemma scan_apps_snoc_some l e h s p r : scan_apps l h s p = Some r -> scan_apps (l ++ [e]) h s p = Some r.
Proof. intros H. rewrite scan_apps_app, H. reflexivity. Qed.

(* mounting another legacy application later never changes where a routed request goes *)
Theorem later_legacy_mount_irrelevant st mp id h s p r :
  fst (lookup st h s p) = Some r -> fst (lookup (mount_legacy st mp id) h s p) = Some r.
Proof. rewrite !lookup_fst, order_mount_legacy. apply scan_apps_snoc_some. Qed.

(* mounting a pool later never changes a request that a pool of list 1 answers ... *)
Theorem later_app_mount_irrelevant_for_apps st mp id h s p r :
  scan_apps (ps_apps st) h s p = Some r -> lookup (mount_app st mp id) h s p = (Some r, mount_app st mp id).
Proof.
  intros H. apply apps_before_legacy. unfold mount_app. cbn [ps_apps]. apply scan_apps_snoc_some. exact H.
Qed.

(* ... and changes a request that a legacy mount answers only if the new mount point itself matches it *)
Theorem later_app_mount_irrelevant_unless_it_matches st mp id h s p :
  mp_match mp h s p = None -> fst (lookup (mount_app st mp id) h s p) = fst (lookup st h s p).
Proof.
  intros Hm. rewrite !lookup_fst. unfold order, mount_app. cbn [ps_apps ps_legacy].
  rewrite <- app_assoc, !scan_apps_app. cbn [List.app scan_apps]. rewrite Hm.
  destruct (scan_apps (ps_apps st) h s p); reflexivity.
Qed.

(* a request that no mount answers goes to the newly mounted one iff that one matches *)
Theorem new_mount_takes_unrouted_requests st mp id h s p :
  fst (lookup st h s p) = None ->
  fst (lookup (mount_legacy st mp id) h s p) = match mp_match mp h s p with Some sub => Some (id, sub) | None => None end /\
  fst (lookup (mount_app st mp id) h s p) = match mp_match mp h s p with Some sub => Some (id, sub) | None => None end.
Proof.
  rewrite !lookup_fst. intros H. split.
  - rewrite order_mount_legacy, scan_apps_app, H. reflexivity.
  - unfold order in *. unfold mount_app. cbn [ps_apps ps_legacy]. rewrite scan_apps_app in H.
    rewrite <- app_assoc, !scan_apps_app. cbn [List.app scan_apps].
    destruct (scan_apps (ps_apps st) h s p); [discriminate|]. destruct (mp_match mp h s p); [reflexivity | exact H].
Qed.

(* destroying the application of one legacy mount does not disturb requests answered by other mounts *)
Lemma scan_kill_other id l h s p i sub : i <> id ->
  scan_apps (live_mounts l) h s p = Some (i, sub) -> scan_apps (live_mounts (map (kill_entry id) l)) h s p = Some (i, sub).
Proof.
  intros Hne. rewrite live_mounts_kill_eq. generalize (live_mounts l). intros m.
  induction m as [|[mp j] m IH]; [discriminate|]. cbn [scan_apps filter]. unfold other at 1. cbn [snd].
  destruct (mp_match mp h s p) as [sb|] eqn:Em.
  - intros H. injection H as -> ->. apply Nat.eqb_neq in Hne. rewrite Hne. cbn [negb scan_apps]. rewrite Em. reflexivity.
  - intros H. destruct (negb (Nat.eqb j id)); [cbn [scan_apps]; rewrite Em|]; exact (IH H).
Qed.

Theorem kill_does_not_disturb_others st id h s p i sub :
  i <> id -> fst (lookup st h s p) = Some (i, sub) -> fst (lookup (kill st id) h s p) = Some (i, sub).
Proof.
  intros Hne. rewrite !lookup_fst. unfold order, kill. cbn [ps_apps ps_legacy]. rewrite !scan_apps_app.
  destruct (scan_apps (ps_apps st) h s p); [auto|]. apply scan_kill_other. exact Hne.
Qed.

(* ---- the old single-list model is the special case without legacy mounts ---- *)
Fixpoint number (i : nat) (mps : list mpoint) : list (mpoint * nat) :=
  match mps with [] => [] | mp :: t => (mp, i) :: number (S i) t end.

Lemma scan_apps_number mps : forall i h s p, scan_apps (number i mps) h s p = pool_lookup_from i mps h s p.
Proof.
  induction mps as [|mp mps IH]; intros i h s p; [reflexivity|]. cbn [number scan_apps pool_lookup_from].
  destruct (mp_match mp h s p); [reflexivity | apply IH].
Qed.

Theorem lookup_without_legacy mps h s p :
  lookup (PS (number 0 mps) []) h s p = (pool_lookup mps h s p, PS (number 0 mps) []).
Proof.
  unfold lookup, pool_lookup. cbn [ps_apps ps_legacy]. rewrite scan_apps_number.
  destruct (pool_lookup_from 0 mps h s p); reflexivity.
Qed.

(* ---- end to end ---- *)
Theorem route_ps_routed st appof h s p m id sub hid args :
  fst (route_ps st appof h s p m) = RApp id sub (Fired hid args) ->
  exists pre mp post a,
    order st = pre ++ (mp, id) :: post /\ Forall (nomatch h s p) pre /\ mp_match mp h s p = Some sub /\
    appof id = Some a /\ routed a sub (Some m) hid args.
Proof.
  unfold route_ps. destruct (lookup st h s p) as [r st'] eqn:E.
  assert (Hf : fst (lookup st h s p) = r) by (rewrite E; reflexivity).
  destruct r as [[id' sub']|]; [|discriminate].
  destruct (appof id') as [a|] eqn:Ea; [|discriminate].
  cbn [fst]. intros H. injection H as <- <- Hm.
  apply lookup_first in Hf. destruct Hf as (pre & mp & post & Ho & Hmm & Hpre).
  exists pre, mp, post, a. repeat split; try assumption.
  apply dispatch_routed. unfold app_main in Hm. apply finish404_fired in Hm. exact Hm.
Qed.

Theorem route_ps_no_pool st appof h s p m :
  (forall id, In id (map snd (order st)) -> appof id <> None) ->
  (fst (route_ps st appof h s p m) = RNoPool <-> Forall (nomatch h s p) (order st)).
Proof.
  intros Hall. unfold route_ps. destruct (lookup st h s p) as [r st'] eqn:E.
  assert (Hf : fst (lookup st h s p) = r) by (rewrite E; reflexivity).
  destruct r as [[id sub]|].
  - assert (Hin : In id (map snd (order st))).
    { apply lookup_first in Hf. destruct Hf as (pre & mp & post & -> & _). rewrite map_app. apply in_or_app. right. left. reflexivity. }
    destruct (appof id) eqn:Ea; [|exfalso; exact (Hall id Hin Ea)].
    cbn [fst]. split; [discriminate|]. intros Hn. apply lookup_none in Hn. congruence.
  - cbn [fst]. split; [intros _; apply lookup_none; exact Hf | reflexivity].
Qed.

Theorem serve_ps_end_to_end rules names st appof host uri m id sub hid args :
  fst (serve_ps rules names st appof host uri m) = Served (RApp id sub (Fired hid args)) ->
  exists u q sn rest pre mp post a,
    rw_steps rules uri u /\ cut_at 63 u = (sn ++ rest, q) /\ hd 0 u = 47 /\
    pick_script names (sn ++ rest) = (sn, rest) /\
    order st = pre ++ (mp, id) :: post /\ Forall (nomatch host sn (urldecode rest)) pre /\
    mp_match mp host sn (urldecode rest) = Some sub /\
    appof id = Some a /\ routed a sub (Some m) hid args.
Proof.
  unfold serve_ps. pose proof (rw_apply_steps rules uri) as Hrw.
  destruct (rw_apply rules uri) as [|c u'] eqn:Eu; [discriminate|].
  destruct (c =? 47) eqn:Ec; [|discriminate]. apply N.eqb_eq in Ec. subst c.
  destruct (cut_at 63 (47 :: u')) as [path q] eqn:Ecut.
  destruct (pick_script names path) as [sn rest] eqn:Ep.
  destruct (route_ps st appof host sn (urldecode rest) m) as [r st'] eqn:Er.
  cbn [fst]. intros H. injection H as ->.
  destruct (pick_script_spec names path sn rest Ep) as [Epath _]. subst path.
  assert (Hr : fst (route_ps st appof host sn (urldecode rest) m) = RApp id sub (Fired hid args)) by (rewrite Er; reflexivity).
  destruct (route_ps_routed _ _ _ _ _ _ _ _ _ _ Hr) as (pre & mp & post & a & Ho & Hpre & Hm & Ha & Hrt).
  exists (47 :: u'), q, sn, rest, pre, mp, post, a. repeat split; try assumption.
Qed.

(* the front end over the complete pool coincides with Defs.serve when nothing is mounted through the legacy call *)
Theorem serve_ps_without_legacy rules names pools host uri m :
  fst (serve_ps rules names (PS (number 0 (map fst pools)) []) (fun i => option_map snd (nth_error pools i)) host uri m) =
  serve rules names pools host uri m.
Proof.
  unfold serve_ps, serve. destruct (rw_apply rules uri) as [|c u']; [reflexivity|].
  destruct (c =? 47); [|reflexivity]. destruct (cut_at 63 (c :: u')) as [path q]. destruct (pick_script names path) as [sn rest].
  unfold route_ps, route_request. rewrite lookup_without_legacy.
  destruct (pool_lookup (map fst pools) host sn (urldecode rest)) as [[i sub]|]; [|reflexivity].
  destruct (nth_error pools i) as [[mp a]|]; reflexivity.
Qed.
