(* C20 -- the complete applications_pool::get_application_specific_pool (src/applications_pool.cpp), executable model only.

   The pool keeps TWO lists (struct applications_pool::_data):
     apps              : mount(std::unique_ptr<factory>, mount_point)  and  mount(shared_ptr<application_specific_pool>, mount_point, flags)
                         push_back here; unmount(pool) erases the entry of that pool;
     legacy_async_apps : mount(booster::intrusive_ptr<application>, mount_point) push_back here; nothing is ever unmounted from
                         it, but an entry whose application object has been destroyed (pool->flags() == -1, set by
                         _async_legacy_policy::put when the last reference to the application is dropped) is erased by the NEXT
                         lookup that reaches the second loop.
   get_application_specific_pool:
     loop 1 over apps: the first entry whose mount point matches returns immediately (match = its selected group);
     loop 2 over legacy_async_apps, never left early: a dead entry is erased; otherwise, only while no result has been
     recorded yet (else if(!result)), an entry whose mount point matches records its pool and its selected group.
   A mount is identified by a number (the model's stand-in for the pool pointer / application object). *)
From Coq Require Import NArith List Bool.
From CppcmsV Require Import C20.Defs.
Import ListNotations.

Record lentry := LE { le_mp : mpoint; le_id : nat; le_live : bool }.
Record pstate := PS { ps_apps : list (mpoint * nat); ps_legacy : list lentry }.

Definition ps_empty : pstate := PS [] [].
(* mount(factory, mp) / mount(application_specific_pool, mp, flags): d->apps.push_back *)
Definition mount_app (st : pstate) (mp : mpoint) (id : nat) : pstate := PS (ps_apps st ++ [(mp, id)]) (ps_legacy st).
(* mount(intrusive_ptr<application>, mp): d->legacy_async_apps.push_back *)
Definition mount_legacy (st : pstate) (mp : mpoint) (id : nat) : pstate := PS (ps_apps st) (ps_legacy st ++ [LE mp id true]).
(* the last reference to a legacy application is dropped: its pool gets flags -1; the list is not touched *)
Definition kill_entry (id : nat) (e : lentry) : lentry := if Nat.eqb (le_id e) id then LE (le_mp e) (le_id e) false else e.
Definition kill (st : pstate) (id : nat) : pstate := PS (ps_apps st) (map (kill_entry id) (ps_legacy st)).
(* unmount(pool): the first entry of apps with that pool is erased *)
Fixpoint remove_first (id : nat) (l : list (mpoint * nat)) : list (mpoint * nat) :=
  match l with
  | [] => []
  | (mp, i) :: t => if Nat.eqb i id then t else (mp, i) :: remove_first id t
  end.
Definition unmount (st : pstate) (id : nat) : pstate := PS (remove_first id (ps_apps st)) (ps_legacy st).

(* loop 1 *)
Fixpoint scan_apps (l : list (mpoint * nat)) (h s p : bytes) : option (nat * bytes) :=
  match l with
  | [] => None
  | (mp, id) :: t => match mp_match mp h s p with
                     | Some sub => Some (id, sub)
                     | None => scan_apps t h s p
                     end
  end.

(* loop 2: res is the variable `result` (+ the out parameter `match`), the second component is the list that remains *)
Fixpoint scan_legacy (l : list lentry) (res : option (nat * bytes)) (h s p : bytes) : option (nat * bytes) * list lentry :=
  match l with
  | [] => (res, [])
  | e :: t =>
      if negb (le_live e) then scan_legacy t res h s p                        (* erase(app_it) *)
      else
        let res' := match res with
                    | Some _ => res                                            (* else if(!result) *)
                    | None => match mp_match (le_mp e) h s p with
                              | Some sub => Some (le_id e, sub)
                              | None => None
                              end
                    end in
        let (r, kept) := scan_legacy t res' h s p in (r, e :: kept)
  end.

Definition lookup (st : pstate) (h s p : bytes) : option (nat * bytes) * pstate :=
  match scan_apps (ps_apps st) h s p with
  | Some r => (Some r, st)
  | None => let (r, kept) := scan_legacy (ps_legacy st) None h s p in (r, PS (ps_apps st) kept)
  end.

(* a sequence of requests, the state threaded through *)
Fixpoint lookups (st : pstate) (reqs : list (bytes * bytes * bytes)) : list (option (nat * bytes)) :=
  match reqs with
  | [] => []
  | (h, s, p) :: t => let (r, st') := lookup st h s p in r :: lookups st' t
  end.

(* what http::context does with the answer: the application of the selected mount runs main(sub) *)
Definition route_ps (st : pstate) (appof : nat -> option app) (h s p m : bytes) : routed * pstate :=
  match lookup st h s p with
  | (None, st') => (RNoPool, st')
  | (Some (id, sub), st') =>
      match appof id with
      | Some a => (RApp id sub (app_main a sub (Some m)), st')
      | None => (RNoPool, st')
      end
  end.

(* ---- specification vocabulary (executable, used by the theorems) ---- *)
Definition live_mounts (l : list lentry) : list (mpoint * nat) := map (fun e => (le_mp e, le_id e)) (filter le_live l).
(* the order in which mounts are consulted: every entry of apps in registration order, then every live legacy mount in registration order *)
Definition order (st : pstate) : list (mpoint * nat) := ps_apps st ++ live_mounts (ps_legacy st).
Definition purge (st : pstate) : pstate := PS (ps_apps st) (filter le_live (ps_legacy st)).
Definition legacy_ids (st : pstate) : list nat := map le_id (ps_legacy st).

(* the embedded HTTP front end (Defs.serve) over the complete pool *)
Definition serve_ps (rules : list rrule) (names : list bytes) (st : pstate) (appof : nat -> option app)
                    (host uri m : bytes) : served * pstate :=
  let u := rw_apply rules uri in
  match u with
  | [] => (Bad400, st)
  | c :: _ =>
      if N.eqb c 47 then
        let (path, _) := cut_at 63 u in
        let (sn, rest) := pick_script names path in
        let (r, st') := route_ps st appof host sn (urldecode rest) m in (Served r, st')
      else (Bad400, st)
  end.

(* ---- whole histories of operations (theorems in PoolTrace.v) ---- *)
Inductive pop :=
| OMountApp (mp : mpoint) (id : nat)          (* mount(factory | application_specific_pool, mp) *)
| OMountLegacy (mp : mpoint) (id : nat)       (* mount(intrusive_ptr<application>, mp) *)
| OKill (id : nat)                            (* the last reference to a legacy application is dropped *)
| OUnmount (id : nat)                         (* unmount(pool) *)
| OLookup (h s p : bytes).                    (* get_application_specific_pool *)

Definition answer := option (nat * bytes).

Fixpoint run (st : pstate) (ops : list pop) : list answer :=
  match ops with
  | [] => []
  | OMountApp mp id :: r => run (mount_app st mp id) r
  | OMountLegacy mp id :: r => run (mount_legacy st mp id) r
  | OKill id :: r => run (kill st id) r
  | OUnmount id :: r => run (unmount st id) r
  | OLookup h s p :: r => let (a, st') := lookup st h s p in a :: run st' r
  end.

Fixpoint run_ref (st : pstate) (ops : list pop) : list answer :=
  match ops with
  | [] => []
  | OMountApp mp id :: r => run_ref (mount_app st mp id) r
  | OMountLegacy mp id :: r => run_ref (mount_legacy st mp id) r
  | OKill id :: r => run_ref (kill st id) r
  | OUnmount id :: r => run_ref (unmount st id) r
  | OLookup h s p :: r => scan_apps (order st) h s p :: run_ref st r
  end.

Fixpoint state_after (st : pstate) (ops : list pop) : pstate :=
  match ops with
  | [] => st
  | OMountApp mp id :: r => state_after (mount_app st mp id) r
  | OMountLegacy mp id :: r => state_after (mount_legacy st mp id) r
  | OKill id :: r => state_after (kill st id) r
  | OUnmount id :: r => state_after (unmount st id) r
  | OLookup _ _ _ :: r => state_after st r
  end.

