(* C20 proofs, part 14: keyword parameters combined with ANY key form.  Appending ;kw1,...,kwn to a key that
   get_mapper_for_key resolves (without keywords) to (mapper, real key) resolves to the same mapper and real key with
   the keywords kw1..kwn; hence the keyword form of absolute, relative and bare-path keys generates the same url. *)
From CppcmsV Require Import Base.Tac C20.Defs C20.Regex C20.Routes C20.Dispatch C20.Sites C20.Mapper C20.MapAbs C20.MapKw.
Local Open Scope N_scope.

Lemma split_on_app_nosep c : forall a b, noc c b = true ->
  split_on c (a ++ b) = removelast (split_on c a) ++ [last (split_on c a) [] ++ b].
Proof.
  induction a as [|x a IH]; intros b Hb.
  - cbn [List.app split_on removelast last]. apply split_on_none. exact Hb.
  - cbn [List.app split_on]. destruct (x =? c) eqn:Ex.
    + rewrite (IH b Hb). pose proof (split_on_nonempty c a) as Hn.
      destruct (split_on c a) as [|s0 S] eqn:ES; [congruence|].
      change (removelast ([] :: s0 :: S)) with ([] :: removelast (s0 :: S)).
      change (last ([] :: s0 :: S) []) with (last (s0 :: S) []). reflexivity.
    + rewrite (IH b Hb). pose proof (split_on_nonempty c a) as Hn.
      destruct (split_on c a) as [|s0 S] eqn:ES; [congruence|].
      destruct S as [|s1 S'].
      * cbn [removelast last List.app]. reflexivity.
      * change (removelast (s0 :: s1 :: S')) with (s0 :: removelast (s1 :: S')).
        change (last (s0 :: s1 :: S') []) with (last (s1 :: S') []).
        cbn [List.app].
        change (removelast ((x :: s0) :: s1 :: S')) with ((x :: s0) :: removelast (s1 :: S')).
        change (last ((x :: s0) :: s1 :: S') []) with (last (s1 :: S') []). reflexivity.
Qed.

Lemma noc_chunks c d : forall s x, noc d s = true -> In x (split_on c s) -> noc d x = true.
Proof.
  induction s as [|y s IH]; intros x Hs Hx.
  - cbn in Hx. destruct Hx as [<-|[]]. reflexivity.
  - unfold noc in Hs. cbn [forallb] in Hs. apply andb_true_iff in Hs. destruct Hs as [Hy Hs'].
    cbn [split_on] in Hx. destruct (y =? c).
    + destruct Hx as [<-|Hx]; [reflexivity | apply IH; assumption].
    + pose proof (split_on_nonempty c s) as Hn. destruct (split_on c s) as [|s0 S] eqn:ES; [congruence|].
      destruct Hx as [<-|Hx].
      * unfold noc. cbn [forallb]. rewrite Hy. cbn [andb]. apply (IH s0 Hs'). left. reflexivity.
      * apply IH; [exact Hs' | right; exact Hx].
Qed.

Lemma last_in {A} (d : A) : forall l, l <> [] -> In (last l d) l.
Proof.
  induction l as [|x l IH]; intros H; [congruence|].
  destruct l as [|y l]; [left; reflexivity|]. right. apply IH. discriminate.
Qed.

Theorem mapper_for_key_kw l key kws l' rk :
  key <> [] -> noc 59 key = true ->
  kws <> [] -> (forall x, In x kws -> noc 44 x = true) -> (forall x, In x kws -> noc 47 x = true) ->
  mapper_for_key l key = Ok (l', rk, []) ->
  mapper_for_key l (key ++ 59 :: joinc 44 kws) = Ok (l', rk, kws).
Proof.
  intros Hne H59 Hkne H44 H47 Hm.
  assert (HJ : noc 47 (59 :: joinc 44 kws) = true).
  { unfold noc. cbn [forallb]. change (59 =? 47) with false. cbn [negb andb].
    apply (noc_joinc 47 44); [discriminate | exact H47]. }
  destruct key as [|c0 key']; [congruence|].
  unfold mapper_for_key in *. cbn [List.app].
  assert (G : forall l0 rest, noc 59 rest = true ->
    (match walk l0 (removelast (split_on 47 rest)) with
     | Err e => Err e
     | Ok l1 =>
         let (rk0, after) := cut_at 59 (last (split_on 47 rest) []) in
         let kws0 := match after with None => [] | Some a => split_on 44 a end in
         let step := if beq rk0 [46] then Ok (l1, [])
                     else if beq rk0 [46; 46] then match go_parent l1 with Ok l2 => Ok (l2, []) | Err e => Err e end
                     else Ok (l1, rk0) in
         match step with
         | Err e => Err e
         | Ok (l2, rk2) =>
             match child_of (tbl (fst l2)) rk2 with
             | Some k => match nth_error (app_kids (fst l2)) k with
                         | Some kid => Ok ((kid, (fst l2, rk2) :: snd l2), [], kws0)
                         | None => Ok (l2, rk2, kws0)
                         end
             | None => Ok (l2, rk2, kws0)
             end
         end
     end) = Ok (l', rk, []) ->
    (match walk l0 (removelast (split_on 47 (rest ++ 59 :: joinc 44 kws))) with
     | Err e => Err e
     | Ok l1 =>
         let (rk0, after) := cut_at 59 (last (split_on 47 (rest ++ 59 :: joinc 44 kws)) []) in
         let kws0 := match after with None => [] | Some a => split_on 44 a end in
         let step := if beq rk0 [46] then Ok (l1, [])
                     else if beq rk0 [46; 46] then match go_parent l1 with Ok l2 => Ok (l2, []) | Err e => Err e end
                     else Ok (l1, rk0) in
         match step with
         | Err e => Err e
         | Ok (l2, rk2) =>
             match child_of (tbl (fst l2)) rk2 with
             | Some k => match nth_error (app_kids (fst l2)) k with
                         | Some kid => Ok ((kid, (fst l2, rk2) :: snd l2), [], kws0)
                         | None => Ok (l2, rk2, kws0)
                         end
             | None => Ok (l2, rk2, kws0)
             end
         end
     end) = Ok (l', rk, kws)).
  { intros l0 rest Hr H.
    rewrite (split_on_app_nosep 47 rest _ HJ). rewrite removelast_last, last_last.
    destruct (walk l0 (removelast (split_on 47 rest))) as [l1|e]; [|discriminate].
    assert (Hf : noc 59 (last (split_on 47 rest) []) = true).
    { apply (noc_chunks 47 59 rest); [exact Hr | apply last_in; apply split_on_nonempty]. }
    rewrite (cut_at_none 59 _ Hf) in H. rewrite (cut_at_first 59 _ (joinc 44 kws) Hf).
    rewrite (split_on_joinc 44 kws Hkne H44).
    cbv zeta in *.
    destruct (if beq (last (split_on 47 rest) []) [46] then Ok (l1, [])
              else if beq (last (split_on 47 rest) []) [46; 46]
                   then match go_parent l1 with Ok l2 => Ok (l2, []) | Err e => Err e end
                   else Ok (l1, last (split_on 47 rest) [])) as [[l2 rk2]|e]; [|discriminate].
    destruct (child_of (tbl (fst l2)) rk2) as [k|].
    - destruct (nth_error (app_kids (fst l2)) k) as [kid|]; injection H as <- <-; reflexivity.
    - injection H as <- <-. reflexivity. }
  unfold noc in H59. cbn [forallb] in H59. apply andb_true_iff in H59. destruct H59 as [Hc59 Hk59].
  destruct (c0 =? 47).
  - apply (G (topmost l) key'); [exact Hk59 | exact Hm].
  - change (c0 :: key' ++ 59 :: joinc 44 kws) with ((c0 :: key') ++ 59 :: joinc 44 kws).
    apply (G l (c0 :: key')); [|exact Hm]. unfold noc. cbn [forallb]. rewrite Hc59. exact Hk59.
Qed.

(* map_dispatch for ANY key form with keyword parameters appended: if the key (absolute, relative, bare path, ...) is
   resolved to the mapper of the node with the page's key, then key;kw1,...,kwn with parameters kvs ++ ps generates the
   url of the page for ps, which routes back to it *)
Theorem map_dispatch_kw_any root node up pre pg ps kws kvs vals c l key :
  site_wf root -> chain root node up pre -> In pg (site_pages node) ->
  key <> [] -> noc 59 key = true ->
  mapper_for_key l key = Ok ((build node, up), page_key pg, []) ->
  kws <> [] -> (forall x, In x kws -> noc 44 x = true) -> (forall x, In x kws -> noc 47 x = true) ->
  length kvs = length kws ->
  params_okb (page_route pg) ps = true ->
  reach root (pre ++ route_fill (page_route pg) ps) (snd pg) ps ->
  exists url, real_map l vals (key ++ 59 :: joinc 44 kws) (kvs ++ ps) = Ok url /\
              dispatch (build root) url c = Fired (snd pg) ps.
Proof.
  intros Hr Hc Hin Hne H59 Hm Hkne H44 H47 Hlen Hps Hreach.
  destruct (site_map_dispatch root node up pre pg ps vals (zip_kw kws (kvs ++ ps)) c Hr Hc Hin Hps Hreach) as (url & Hd1 & Hd2).
  exists url. split; [|exact Hd2].
  unfold real_map. rewrite (mapper_for_key_kw l key kws _ _ Hne H59 Hkne H44 H47 Hm).
  assert (Hlt : Nat.ltb (length (kvs ++ ps)) (length kws) = false).
  { apply Nat.ltb_ge. rewrite app_length. lia. }
  rewrite Hlt. cbn [fst snd]. rewrite (skipn_app_length kvs ps (length kws) Hlen). exact Hd1.
Qed.
