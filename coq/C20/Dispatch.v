(* C20 proofs, part 3: url_dispatcher, mount points, the applications-pool scan.
   first match in registration order, whole-string, exactly the selected captures, not-found iff nothing matches. *)
From CppcmsV Require Import Base.Tac C20.Defs C20.Regex C20.Routes.
Local Open Scope N_scope.

(* ---------- induction principle for application trees ---------- *)
Section AppInd.
  Variable P : app -> Prop.
  Hypothesis H : forall opts ments kids root, Forall P kids -> P (App opts ments kids root).
  Fixpoint app_ind' (a : app) : P a :=
    match a with
    | App o m k r =>
        H o m k r ((fix go (l : list app) : Forall P l :=
                      match l with
                      | [] => Forall_nil P
                      | x :: t => Forall_cons x (app_ind' x) (go t)
                      end) k)
    end.
End AppInd.

Definition kid_fns (kids : list app) : list kid_fn :=
  map (fun k url c => finish404 c (dispatch k url c)) kids.

Lemma dispatch_unfold opts ments kids root url c :
  dispatch (App opts ments kids root) url c = scan (kid_fns kids) opts url c.
Proof. reflexivity. Qed.

Lemma dispatch_unfold' a url c : dispatch a url c = scan (kid_fns (app_kids a)) (app_opts a) url c.
Proof. destruct a. reflexivity. Qed.

(* ---------- method filters ---------- *)
Definition meth_lang (mf : mfilter) (m : bytes) : Prop :=
  match mf with MAny => True | MPat e => lang e m end.

Lemma method_ok_spec mf m : method_ok mf m = true <-> meth_lang mf m.
Proof. destruct mf; cbn; [tauto | apply full_match_spec]. Qed.

(* ---------- one option ---------- *)
(* what arg_conv delivers: assign-style handlers get the selected groups as they are; map-style string handlers get
   them if every one is valid text; map-style int handlers get the decimal values if, in addition, every one parses *)
Lemma arg_conv_assign raw : arg_conv KAssign raw = Some raw.
Proof. reflexivity. Qed.
Lemma arg_conv_map raw args : arg_conv KMap raw = Some args <-> args = raw /\ forallb valid_text raw = true.
Proof.
  cbn [arg_conv]. destruct (forallb valid_text raw); split.
  - intros H. injection H as <-. auto.
  - intros [-> _]. reflexivity.
  - discriminate.
  - intros [_ H]. discriminate.
Qed.
Lemma arg_conv_num t raw args : arg_conv (KMapNum t) raw = Some args <->
  forallb valid_text raw = true /\ exists zs, parse_nums t raw = Some zs /\ args = map show_int zs.
Proof.
  cbn [arg_conv]. destruct (forallb valid_text raw).
  - destruct (parse_nums t raw) as [zs|]; split.
    + intros H. injection H as <-. eauto.
    + intros (_ & zs' & E & ->). injection E as <-. reflexivity.
    + discriminate.
    + intros (_ & zs' & E & _). discriminate.
  - split; [discriminate | intros [H _]; discriminate].
Qed.
Lemma parse_nums_spec t : forall raw zs, parse_nums t raw = Some zs <-> Forall2 (fun r z => parse_num t r = Some z) raw zs.
Proof.
  induction raw as [|r raw IH]; intros zs; cbn [parse_nums].
  - split; [intros H; injection H as <-; constructor | intros H; inversion H; reflexivity].
  - destruct (parse_num t r) as [z|] eqn:Ez.
    + destruct (parse_nums t raw) as [zs'|] eqn:Ezs.
      * split.
        -- intros H. injection H as <-. constructor; [exact Ez | apply IH; reflexivity].
        -- intros H. inversion H as [|r' z' raw' zs'' Hz Hzs]; subst. apply IH in Hzs. congruence.
      * split; [discriminate|]. intros H. inversion H as [|r' z' raw' zs'' Hz Hzs]; subst. apply IH in Hzs. discriminate.
    + split; [discriminate|]. intros H. inversion H as [|r' z' raw' zs'' Hz Hzs]; subst. congruence.
Qed.
Lemma arg_conv_int raw args : arg_conv KMapInt raw = Some args <->
  forallb valid_text raw = true /\ exists zs, parse_ints raw = Some zs /\ args = map show_int zs.
Proof. exact (arg_conv_num TInt raw args). Qed.
Lemma parse_ints_spec : forall raw zs, parse_ints raw = Some zs <-> Forall2 (fun r z => parse_int r = Some z) raw zs.
Proof. exact (parse_nums_spec TInt). Qed.

(* the value delivered to a numeric parameter is in the range of its type *)
Lemma parse_num_range t s z : parse_num t s = Some z ->
  if nt_signed t then (- 2 ^ (nt_bits t - 1) <= z <= 2 ^ (nt_bits t - 1) - 1)%Z else (0 <= z <= 2 ^ nt_bits t - 1)%Z.
Proof.
  unfold parse_num.
  destruct (match skip_ws s with
            | [] => (false, skip_ws s)
            | c :: t0 => if c =? 45 then (true, t0) else if c =? 43 then (false, t0) else (false, skip_ws s)
            end) as [neg ds].
  destruct (is_nil ds); [discriminate|]. destruct (negb (forallb dec_digit ds)); [discriminate|].
  set (v := Z.of_N (dec_val ds)). assert (Hv : (0 <= v)%Z) by (unfold v; lia).
  assert (Hp : (0 < 2 ^ nt_bits t)%Z) by (destruct t; reflexivity).
  destruct (nt_signed t).
  - destruct ((((if neg then - v else v) <? - 2 ^ (nt_bits t - 1)) || (2 ^ (nt_bits t - 1) - 1 <? (if neg then - v else v)))%Z) eqn:E;
      [discriminate|]. intros H. injection H as <-. apply orb_false_iff in E. destruct E as [E1 E2].
    apply Z.ltb_ge in E1. apply Z.ltb_ge in E2. lia.
  - destruct (2 ^ nt_bits t - 1 <? v)%Z eqn:E; [discriminate|]. apply Z.ltb_ge in E.
    intros H. injection H as <-. destruct neg; [|lia].
    pose proof (Z.mod_pos_bound (2 ^ nt_bits t - v) (2 ^ nt_bits t) Hp). lia.
Qed.

(* every kind of handler has the same shape: context + method filter (map-style only), whole-string pattern match,
   argument conversion *)
Lemma try_handler_shape kd k p mf hid sel url c :
  try_opt kd (DH k p mf hid sel) url c =
  match (match k with KAssign => Some true | _ => match c with Some m => Some (method_ok mf m) | None => None end end) with
  | Some true => match pat_match p url with
                 | Some gs => match arg_conv k (map (grp gs) sel) with
                              | Some args => Some (Fired hid args)
                              | None => None
                              end
                 | None => None
                 end
  | _ => None
  end.
Proof.
  destruct k; cbn [try_opt arg_conv].
  - destruct (pat_match p url); reflexivity.
  - destruct c as [m|]; [|reflexivity]. destruct (method_ok mf m); [|reflexivity].
    destruct (pat_match p url) as [gs|]; [|reflexivity]. destruct (forallb valid_text (map (grp gs) sel)); reflexivity.
  - destruct c as [m|]; [|reflexivity]. destruct (method_ok mf m); reflexivity.
Qed.

(* a handler option takes the request iff its pattern matches the whole url, the selected groups convert to the
   parameter types of the handler (arg_conv) and, for map-style handlers, there is a request context whose method is in
   the language of the filter; the arguments are exactly the converted selected groups of that match *)
Theorem handler_fires_iff kd k p mf hid sel url c out :
  try_opt kd (DH k p mf hid sel) url c = Some out <->
  exists gs args, pat_match p url = Some gs /\ arg_conv k (map (grp gs) sel) = Some args /\ out = Fired hid args /\
             (k <> KAssign -> exists m, c = Some m /\ meth_lang mf m).
Proof.
  rewrite try_handler_shape. split.
  - intros H.
    assert (Hc : k <> KAssign -> exists m, c = Some m /\ meth_lang mf m).
    { intros Hk. destruct k; [congruence| |]; (destruct c as [m|]; [|discriminate]);
        (destruct (method_ok mf m) eqn:Hm; [|discriminate]); exists m; (split; [reflexivity | apply method_ok_spec; exact Hm]). }
    destruct (match k with KAssign => Some true | _ => match c with Some m => Some (method_ok mf m) | None => None end end)
      as [[|]|]; try discriminate.
    destruct (pat_match p url) as [gs|]; [|discriminate].
    destruct (arg_conv k (map (grp gs) sel)) as [args|] eqn:Ea; [|discriminate].
    injection H as <-. exists gs, args. auto.
  - intros (gs & args & E & Ea & -> & Hc).
    assert (Hg : (match k with KAssign => Some true | _ => match c with Some m => Some (method_ok mf m) | None => None end end)
                 = Some true).
    { destruct k; [reflexivity| |]; (destruct Hc as (m & -> & Hm); [discriminate|]);
        apply method_ok_spec in Hm; rewrite Hm; reflexivity. }
    rewrite Hg, E, Ea. reflexivity.
Qed.

Lemma nth_kid_fns kids k d : nth k (kid_fns kids) d =
  match nth_error kids k with Some kid => (fun url c => finish404 c (dispatch kid url c)) | None => d end.
Proof.
  unfold kid_fns. revert k. induction kids as [|x kids IH]; intros [|k]; cbn [map nth nth_error]; auto.
Qed.

Theorem mount_takes_iff kids p sel k url c out :
  try_opt (kid_fns kids) (DM p sel k) url c = Some out <->
  exists gs, pat_match p url = Some gs /\
             out = match nth_error kids k with
                   | Some kid => finish404 c (dispatch kid (grp gs sel) c)
                   | None => BadKid
                   end.
Proof.
  cbn [try_opt]. destruct (pat_match p url) as [gs|].
  - rewrite nth_kid_fns. split.
    + intros H. injection H as <-. exists gs. split; [reflexivity|]. destruct (nth_error kids k); reflexivity.
    + intros (gs' & E & ->). injection E as ->. destruct (nth_error kids k); reflexivity.
  - split; [discriminate | intros (gs' & E & _); discriminate].
Qed.

(* an option that takes the request has a pattern whose language contains the ENTIRE url *)
Definition opt_pat (o : dopt) : pattern := match o with DH _ p _ _ _ => p | DM p _ _ => p end.

Theorem taken_whole_string kd o url c out : try_opt kd o url c = Some out -> lang (pat_re (opt_pat o)) url.
Proof.
  destruct o as [k p mf hid sel|p sel kid]; cbn [opt_pat].
  - intros H. apply handler_fires_iff in H. destruct H as (gs & args & E & _). eapply pat_match_whole. eassumption.
  - cbn [try_opt]. destruct (pat_match p url) as [gs|] eqn:E; [|discriminate]. intros _.
    eapply pat_match_whole. eassumption.
Qed.

Theorem not_matching_not_taken kd o url c : ~ lang (pat_re (opt_pat o)) url -> try_opt kd o url c = None.
Proof.
  intros H. destruct (try_opt kd o url c) as [out|] eqn:E; [|reflexivity].
  exfalso. apply H. eapply taken_whole_string. eassumption.
Qed.

(* ---------- the linear scan: first match in registration order ---------- *)
Theorem scan_first_match kd : forall opts url c,
  (exists i o out, nth_error opts i = Some o /\ try_opt kd o url c = Some out /\
                   (forall j o', (j < i)%nat -> nth_error opts j = Some o' -> try_opt kd o' url c = None) /\
                   scan kd opts url c = out)
  \/ ((forall o, In o opts -> try_opt kd o url c = None) /\ scan kd opts url c = NotFound).
Proof.
  induction opts as [|o opts IH]; intros url c.
  - right. split; [intros o [] | reflexivity].
  - cbn [scan]. destruct (try_opt kd o url c) as [out|] eqn:E.
    + left. exists 0%nat, o, out. split; [reflexivity|]. split; [assumption|]. split; [|reflexivity].
      intros j o' Hj. inversion Hj.
    + destruct (IH url c) as [(i & o1 & out & Hn & Ht & Hb & Hs) | [Hall Hs]].
      * left. exists (S i), o1, out. split; [exact Hn|]. split; [exact Ht|]. split; [|exact Hs].
        intros [|j] o' Hj Hn'.
        -- cbn in Hn'. injection Hn' as <-. exact E.
        -- cbn in Hn'. apply (Hb j o'); [apply Nat.succ_lt_mono; exact Hj | exact Hn'].
      * right. split; [|exact Hs]. intros o' [<-|Hin]; [exact E | apply Hall; exact Hin].
Qed.

(* the result is determined by the first taking option alone: later registrations never change it *)
Corollary scan_prefix_irrelevant kd pre o post url c out :
  (forall o', In o' pre -> try_opt kd o' url c = None) -> try_opt kd o url c = Some out ->
  scan kd (pre ++ o :: post) url c = out.
Proof.
  induction pre as [|x pre IH]; intros Hpre Ho; cbn [List.app scan].
  - rewrite Ho. reflexivity.
  - rewrite (Hpre x (or_introl eq_refl)). apply IH; [|exact Ho]. intros o' Hin. apply Hpre. right. exact Hin.
Qed.

Corollary scan_none_not_found kd opts url c :
  (forall o, In o opts -> try_opt kd o url c = None) -> scan kd opts url c = NotFound.
Proof.
  intros H. destruct (scan_first_match kd opts url c) as [(i & o & out & Hn & Ht & _) | [_ Hs]]; [|exact Hs].
  apply nth_error_In in Hn. rewrite (H o Hn) in Ht. discriminate.
Qed.

Definition handlers_only (opts : list dopt) : Prop :=
  forall o, In o opts -> match o with DH _ _ _ _ _ => True | DM _ _ _ => False end.

(* 404 iff no handler matches (for a dispatcher without mounted sub-applications; with mounts the
   sub-application decides, see mount_takes_iff) *)
Theorem not_found_iff kd opts url c : handlers_only opts ->
  (scan kd opts url c = NotFound <-> forall o, In o opts -> try_opt kd o url c = None).
Proof.
  intros Hh. split; [|apply scan_none_not_found].
  intros Hs. destruct (scan_first_match kd opts url c) as [(i & o & out & Hn & Ht & _ & Hs') | [Hall _]]; [|exact Hall].
  exfalso. apply nth_error_In in Hn. specialize (Hh o Hn). destruct o as [k p mf hid sel|]; [|contradiction].
  apply handler_fires_iff in Ht. destruct Ht as (gs & args & _ & _ & -> & _). congruence.
Qed.

(* ---------- whole trees: whoever fires was reached through whole-string matches only ---------- *)
Inductive fires : app -> bytes -> ctx -> N -> list bytes -> Prop :=
| FiresH a k p mf hid sel url c gs args :
    In (DH k p mf hid sel) (app_opts a) ->
    lang (pat_re p) url -> pat_match p url = Some gs ->
    arg_conv k (map (grp gs) sel) = Some args ->
    (k <> KAssign -> exists m, c = Some m /\ meth_lang mf m) ->
    fires a url c hid args
| FiresM a p sel k kid url c gs hid args :
    In (DM p sel k) (app_opts a) ->
    lang (pat_re p) url -> pat_match p url = Some gs ->
    nth_error (app_kids a) k = Some kid ->
    fires kid (grp gs sel) c hid args ->
    fires a url c hid args.

Lemma finish404_fired c o hid args : finish404 c o = Fired hid args -> o = Fired hid args.
Proof. destruct o; cbn; try congruence. destruct c; discriminate. Qed.

Theorem dispatch_whole_string : forall a url c hid args,
  dispatch a url c = Fired hid args -> fires a url c hid args.
Proof.
  induction a as [opts ments kids root IH] using app_ind'. intros url c hid args Hd.
  rewrite dispatch_unfold in Hd.
  destruct (scan_first_match (kid_fns kids) opts url c) as [(i & o & out & Hn & Ht & _ & Hs) | [_ Hs]];
    [|congruence].
  rewrite Hs in Hd. subst out. apply nth_error_In in Hn.
  destruct o as [k p mf h sel|p sel k].
  - apply handler_fires_iff in Ht. destruct Ht as (gs & args' & E & Ea & Ef & Hk). injection Ef as -> ->.
    eapply FiresH; [exact Hn | eapply pat_match_whole; eassumption | exact E | exact Ea | exact Hk].
  - apply mount_takes_iff in Ht. destruct Ht as (gs & E & Ef).
    destruct (nth_error kids k) as [kid|] eqn:Ek; [|discriminate].
    symmetry in Ef. apply finish404_fired in Ef.
    eapply FiresM; [exact Hn | eapply pat_match_whole; eassumption | exact E | exact Ek |].
    rewrite Forall_forall in IH. apply IH; [eapply nth_error_In; eassumption | exact Ef].
Qed.

(* ---------- mount points and the pool scan ---------- *)
Lemma opt_full_spec o s : opt_full o s = true -> forall p, o = Some p -> lang (pat_re p) s.
Proof.
  intros H p ->. cbn in H. destruct (pat_match p s) as [gs|] eqn:E; [|discriminate].
  eapply pat_match_whole. eassumption.
Qed.

Lemma mp_selected_spec o g s sub : mp_selected o g s = Some sub ->
  (forall p, o = Some p -> lang (pat_re p) s /\ exists gs, pat_match p s = Some gs /\ sub = grp gs g) /\
  (o = None -> sub = s).
Proof.
  destruct o as [p|]; cbn [mp_selected].
  - destruct (pat_match p s) as [gs|] eqn:E; [|discriminate]. intros H. injection H as <-.
    split; [|discriminate]. intros p' Ep. injection Ep as <-.
    split; [eapply pat_match_whole; eassumption | eauto].
  - intros H. injection H as <-. split; [discriminate | reflexivity].
Qed.

(* a mount point matches only if every configured pattern matches the ENTIRE host / script name / path info
   (as C strings); the sub-path handed to the application is the selected group of the selected pattern *)
Theorem mp_match_whole mp h s p sub : mp_match mp h s p = Some sub ->
  (forall q, mp_host mp = Some q -> lang (pat_re q) (cstr h)) /\
  (forall q, mp_script mp = Some q -> lang (pat_re q) (cstr s)) /\
  (forall q, mp_path mp = Some q -> lang (pat_re q) (cstr p)) /\
  (let sel := if mp_selpath mp then mp_path mp else mp_script mp in
   let str := if mp_selpath mp then cstr p else cstr s in
   match sel with
   | Some q => exists gs, pat_match q str = Some gs /\ sub = grp gs (mp_group mp)
   | None => sub = str
   end).
Proof.
  unfold mp_match. destruct (opt_full (mp_host mp) (cstr h)) eqn:Hh; [|discriminate]. cbn [negb].
  destruct (mp_selpath mp).
  - destruct (opt_full (mp_script mp) (cstr s)) eqn:Hs; [|discriminate]. intros H.
    apply mp_selected_spec in H. destruct H as [H1 H2].
    split; [apply opt_full_spec; assumption|]. split; [apply opt_full_spec; assumption|].
    split; [intros q Eq; apply (H1 q Eq)|].
    cbn zeta. destruct (mp_path mp) as [q|]; [apply (H1 q eq_refl) | apply H2; reflexivity].
  - destruct (opt_full (mp_path mp) (cstr p)) eqn:Hp; [|discriminate]. intros H.
    apply mp_selected_spec in H. destruct H as [H1 H2].
    split; [apply opt_full_spec; assumption|]. split; [intros q Eq; apply (H1 q Eq)|].
    split; [apply opt_full_spec; assumption|].
    cbn zeta. destruct (mp_script mp) as [q|]; [apply (H1 q eq_refl) | apply H2; reflexivity].
Qed.

Lemma pool_from_first : forall mps k h s p,
  match pool_lookup_from k mps h s p with
  | Some (i, sub) => exists n mp, i = (k + n)%nat /\ nth_error mps n = Some mp /\ mp_match mp h s p = Some sub /\
                                  forall j mp', (j < n)%nat -> nth_error mps j = Some mp' -> mp_match mp' h s p = None
  | None => forall mp, In mp mps -> mp_match mp h s p = None
  end.
Proof.
  induction mps as [|mp mps IH]; intros k h s p; cbn [pool_lookup_from].
  - intros mp [].
  - destruct (mp_match mp h s p) as [sub|] eqn:E.
    + exists 0%nat, mp. split; [lia|]. split; [reflexivity|]. split; [exact E|]. intros j mp' Hj. inversion Hj.
    + specialize (IH (S k) h s p). destruct (pool_lookup_from (S k) mps h s p) as [[i sub]|].
      * destruct IH as (n & mp1 & -> & Hn & Hm & Hb). exists (S n), mp1.
        split; [lia|]. split; [exact Hn|]. split; [exact Hm|].
        intros [|j] mp' Hj Hn'.
        -- cbn in Hn'. injection Hn' as <-. exact E.
        -- cbn in Hn'. apply (Hb j mp'); [lia | exact Hn'].
      * intros mp' [<-|Hin]; [exact E | apply IH; exact Hin].
Qed.

(* the applications pool hands the request to the FIRST mount point, in mount order, that matches *)
Theorem pool_first_match mps h s p :
  match pool_lookup mps h s p with
  | Some (i, sub) => exists mp, nth_error mps i = Some mp /\ mp_match mp h s p = Some sub /\
                                forall j mp', (j < i)%nat -> nth_error mps j = Some mp' -> mp_match mp' h s p = None
  | None => forall mp, In mp mps -> mp_match mp h s p = None
  end.
Proof.
  unfold pool_lookup. pose proof (pool_from_first mps 0 h s p) as H.
  destruct (pool_lookup_from 0 mps h s p) as [[i sub]|]; [|exact H].
  destruct H as (n & mp & -> & Hn & Hm & Hb). exists mp. cbn [Nat.add]. auto.
Qed.
