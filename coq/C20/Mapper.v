(* C20 proofs, part 5: url_mapper on sites.  The template printed for a route parses back (url_mapper::real_assign)
   into the literal chunks and parameter indexes of the route; rendering it (data::write) with parameters ps gives
   route_fill r ps; the parent walk of data::map prepends the mount prefixes.  Together with Sites.site_dispatch:
   the url generated for a page routes back to that page with exactly the parameters (map_dispatch). *)
From CppcmsV Require Import Base.Tac C20.Defs C20.Regex C20.Routes C20.Dispatch C20.Sites.
Local Open Scope N_scope.

(* ---------- byte-string equality ---------- *)
Lemma beq_eq : forall a b, beq a b = true <-> a = b.
Proof.
  induction a as [|x a IH]; intros [|y b]; cbn [beq]; try (split; congruence).
  rewrite andb_true_iff, N.eqb_eq, IH. split; [intros [-> ->]; reflexivity | intros H; injection H; auto].
Qed.
Lemma beq_refl a : beq a a = true.
Proof. apply beq_eq. reflexivity. Qed.
Lemma beq_neq a b : a <> b -> beq a b = false.
Proof. intros H. destruct (beq a b) eqn:E; [apply beq_eq in E; contradiction | reflexivity]. Qed.

(* ---------- the template of a route parses back ---------- *)
Definition nobrace (c : N) : bool := negb ((c =? 123) || (c =? 125)).
Fixpoint route_brace_free (r : route) : bool :=
  match r with
  | [] => true
  | RLit l :: t => forallb nobrace l && route_brace_free t
  | RPar _ _ :: t => route_brace_free t
  end.

Fixpoint parts_of (r : route) (cur : bytes) : list bytes :=
  match r with
  | [] => [cur]
  | RLit l :: t => parts_of t (cur ++ l)
  | RPar _ _ :: t => cur :: parts_of t []
  end.
Fixpoint idxs (i : N) (r : route) : list (N * bytes) :=
  match r with [] => [] | RLit _ :: t => idxs i t | RPar _ _ :: t => (i, []) :: idxs (i + 1) t end.
Fixpoint tmax (i : N) (r : route) (mx : N) : N :=
  match r with [] => mx | RLit _ :: t => tmax i t mx | RPar _ _ :: t => tmax (i + 1) t (N.max i mx) end.

Lemma ptmpl_lit : forall l rest acc parts idx mx, forallb nobrace l = true ->
  ptmpl (l ++ rest) false acc parts idx mx = ptmpl rest false (rev l ++ acc) parts idx mx.
Proof.
  induction l as [|c l IH]; intros rest acc parts idx mx H; [reflexivity|].
  cbn [forallb] in H. apply andb_true_iff in H. destruct H as [Hc Hl].
  unfold nobrace in Hc. apply negb_true_iff in Hc. apply orb_false_iff in Hc. destruct Hc as [H1 H2].
  cbn [List.app ptmpl]. rewrite H1, H2. rewrite IH by assumption.
  cbn [rev]. rewrite <- app_assoc. reflexivity.
Qed.

Lemma ptmpl_idx i rest acc parts idx mx : 1 <= i -> i < 10 ->
  ptmpl ([123] ++ dec i ++ [125] ++ rest) false acc parts idx mx =
  ptmpl rest false [] (rev acc :: parts) ((i, []) :: idx) (N.max i mx).
Proof.
  intros H1 H2.
  assert (E : i = 1 \/ i = 2 \/ i = 3 \/ i = 4 \/ i = 5 \/ i = 6 \/ i = 7 \/ i = 8 \/ i = 9) by lia.
  destruct E as [->|[->|[->|[->|[->|[->|[->|[->| ->]]]]]]]]; reflexivity.
Qed.

Lemma ptmpl_route : forall r i acc parts idx mx,
  route_brace_free r = true -> 1 <= i -> i + N.of_nat (nparams r) <= 10 ->
  ptmpl (route_template_from i r) false acc parts idx mx =
  Some (rev parts ++ parts_of r (rev acc), rev idx ++ idxs i r, tmax i r mx).
Proof.
  induction r as [|e r IH]; intros i acc parts idx mx Hb Hi Hn.
  - cbn [route_template_from ptmpl parts_of idxs tmax rev]. rewrite app_nil_r. reflexivity.
  - destruct e as [l|cs plus].
    + cbn [route_brace_free] in Hb. apply andb_true_iff in Hb. destruct Hb as [Hl Hb].
      cbn [route_template_from nparams] in *. rewrite ptmpl_lit by assumption.
      rewrite IH by assumption. cbn [parts_of idxs tmax]. rewrite rev_app_distr, rev_involutive. reflexivity.
    + cbn [route_brace_free nparams] in *. cbn [route_template_from].
      rewrite ptmpl_idx by lia. rewrite IH by (try assumption; lia).
      cbn [parts_of idxs tmax rev]. rewrite <- !app_assoc. reflexivity.
Qed.

Lemma tmax_count : forall r i mx, mx + 1 = i -> tmax i r mx + 1 = i + N.of_nat (nparams r).
Proof.
  induction r as [|e r IH]; intros i mx H; cbn [tmax nparams].
  - lia.
  - destruct e as [l|cs plus]; [apply IH; assumption|].
    rewrite (IH (i + 1) (N.max i mx)) by lia. lia.
Qed.

Theorem parse_route_template r : route_brace_free r = true -> (nparams r <= 9)%nat ->
  parse_tmpl (route_template r) = Some (parts_of r [], idxs 1 r, N.of_nat (nparams r)).
Proof.
  intros Hb Hn. unfold parse_tmpl, route_template. rewrite ptmpl_route by (try assumption; lia).
  cbn [rev List.app]. pose proof (tmax_count r 1 0 eq_refl) as H.
  replace (tmax 1 r 0) with (N.of_nat (nparams r)) by lia. reflexivity.
Qed.

(* ---------- rendering the parsed template ---------- *)
Lemma write_route : forall r k cur params hs ov, (k + nparams r <= length params)%nat ->
  write (parts_of r cur) (idxs (N.of_nat k + 1) r) params hs ov = Some (cur ++ route_fill r (skipn k params)).
Proof.
  induction r as [|e r IH]; intros k cur params hs ov H.
  - cbn [parts_of idxs write route_fill]. reflexivity.
  - destruct e as [l|cs plus]; cbn [parts_of idxs nparams route_fill] in *.
    + rewrite IH by assumption. rewrite <- app_assoc. reflexivity.
    + destruct (nth_error params k) as [p|] eqn:Ep.
      2:{ apply nth_error_None in Ep. lia. }
      assert (Es : skipn k params = p :: skipn (S k) params).
      { clear -Ep. revert params Ep. induction k as [|k IHk]; intros [|x params] Ep; try discriminate.
        - cbn in Ep. injection Ep as ->. reflexivity.
        - cbn [skipn]. apply IHk. exact Ep. }
      rewrite Es. cbn [write].
      destruct (N.eqb_spec (N.of_nat k + 1) 0) as [E0|_]; [lia|].
      replace (N.to_nat (N.of_nat k + 1) - 1)%nat with k by lia. rewrite Ep.
      replace (N.of_nat k + 1 + 1) with (N.of_nat (S k) + 1) by lia.
      rewrite IH by lia. reflexivity.
Qed.

Theorem write_route_template r ps hs ov : (nparams r <= length ps)%nat ->
  write (parts_of r []) (idxs 1 r) ps hs ov = Some (route_fill r ps).
Proof. intros H. apply (write_route r 0 [] ps hs ov). exact H. Qed.

(* ---------- the key tables of a site node ---------- *)
Definition page_key (pg : bytes * route * N) : bytes := fst (fst pg).
Definition sub_name (x : bytes * bytes * site) : bytes := fst (fst x).
Definition page_te (pg : bytes * route * N) : tent :=
  TE (page_key pg) (N.of_nat (nparams (page_route pg))) (ENT (parts_of (page_route pg) []) (idxs 1 (page_route pg)) None).
Definition mount_te (k : nat) (x : bytes * bytes * site) : tent :=
  TE (sub_name x) 1 (ENT [sub_prefix x; []] [(1, [])] (Some k)).
Fixpoint mount_tes (k : nat) (subs : list (bytes * bytes * site)) : list tent :=
  match subs with [] => [] | x :: r => mount_te k x :: mount_tes (S k) r end.

Definition page_wf (pg : bytes * route * N) : Prop :=
  key_bad (page_key pg) = false /\ route_brace_free (page_route pg) = true /\ (nparams (page_route pg) <= 9)%nat.
Definition no_children (t : table) : Prop := forall x, In x t -> e_child (t_e x) = None.

Lemma get_entry_no_children t key n : no_children t ->
  match get_entry t key n with Some (ENT _ _ (Some _)) => False | _ => True end.
Proof.
  intros H. unfold get_entry. destruct (find _ t) as [x|] eqn:E; [|exact I].
  apply find_some in E. destruct E as [Hin _]. specialize (H x Hin).
  destruct (t_e x) as [pa ix ch]. cbn in H. subst. exact I.
Qed.

Lemma build_pages : forall pages t, no_children t -> (forall pg, In pg pages -> page_wf pg) ->
  table_build t (map page_ment pages) = Some (rev (map page_te pages) ++ t).
Proof.
  induction pages as [|pg pages IH]; intros t Ht Hwf; [reflexivity|].
  destruct (Hwf pg (or_introl eq_refl)) as (Hk & Hb & Hn).
  destruct pg as [[k r] h]. cbn [page_key page_route fst snd] in *.
  cbn [map table_build page_ment table_add]. rewrite Hk, (parse_route_template r Hb Hn).
  pose proof (get_entry_no_children t k 1 Ht) as Hg.
  assert (Ht' : no_children (TE k (N.of_nat (nparams r)) (ENT (parts_of r []) (idxs 1 r) None) :: t)).
  { intros x [<-|Hin]; [reflexivity | apply Ht; exact Hin]. }
  assert (Hwf' : forall pg, In pg pages -> page_wf pg) by (intros pg Hin; apply Hwf; right; exact Hin).
  destruct (get_entry t k 1) as [[pa ix [c|]]|]; [contradiction | | ];
    rewrite (IH _ Ht' Hwf'); cbn [rev]; rewrite <- app_assoc; reflexivity.
Qed.

Lemma has_key_false t k : has_key t k = false <-> forall x, In x t -> t_key x <> k.
Proof.
  unfold has_key. split.
  - intros H x Hin E. assert (existsb (fun y => beq (t_key y) k) t = true); [|congruence].
    apply existsb_exists. exists x. split; [exact Hin | apply beq_eq; exact E].
  - intros H. destruct (existsb _ t) eqn:E; [|reflexivity].
    apply existsb_exists in E. destruct E as (x & Hin & Hb). apply beq_eq in Hb. exfalso. apply (H x Hin Hb).
Qed.

Lemma parse_mount_template prefix : forallb nobrace prefix = true ->
  parse_tmpl (prefix ++ [123; 49; 125]) = Some ([prefix; []], [(1, [])], 1).
Proof.
  intros H. pose proof (parse_route_template [RLit prefix; RPar cs_dot false]) as P.
  cbn [route_brace_free nparams] in P. rewrite H in P. specialize (P eq_refl ltac:(lia)).
  unfold route_template in P. cbn [route_template_from dec] in P.
  cbn in P.
  exact P.
Qed.

Lemma build_mounts : forall subs k t,
  (forall x, In x subs -> forallb nobrace (sub_prefix x) = true) ->
  (forall x y, In x subs -> In y t -> t_key y <> sub_name x) ->
  NoDup (map sub_name subs) ->
  table_build t (mount_ments k subs) = Some (rev (mount_tes k subs) ++ t).
Proof.
  induction subs as [|x subs IH]; intros k t Hb Hk Hnd; [reflexivity|].
  destruct x as [[name prefix] sub]. cbn [mount_ments table_build table_add].
  rewrite (parse_mount_template prefix (Hb _ (or_introl eq_refl))). cbn [N.eqb Pos.eqb negb].
  assert (Hh : has_key t name = false).
  { apply has_key_false. intros y Hy. apply (Hk (name, prefix, sub) y (or_introl eq_refl) Hy). }
  rewrite Hh. inversion Hnd as [|n l Hnin Hnd']; subst.
  rewrite IH.
  - cbn [mount_tes rev]. rewrite <- app_assoc. reflexivity.
  - intros y Hy. apply Hb. right. exact Hy.
  - intros y z Hy [<-|Hz].
    + cbn [t_key]. intros E. apply Hnin. cbn [sub_name fst]. rewrite E. apply in_map. exact Hy.
    + apply Hk; [right; exact Hy | exact Hz].
  - exact Hnd'.
Qed.

Definition node_wf (pages : list (bytes * route * N)) (subs : list (bytes * bytes * site)) : Prop :=
  (forall pg, In pg pages -> page_wf pg) /\
  (forall pg pg', In pg pages -> In pg' pages -> page_key pg = page_key pg' ->
                  nparams (page_route pg) = nparams (page_route pg') -> pg = pg') /\
  (forall x, In x subs -> forallb nobrace (sub_prefix x) = true) /\
  (forall x pg, In x subs -> In pg pages -> page_key pg <> sub_name x) /\
  NoDup (map sub_name subs).

Lemma table_build_app : forall a b t, table_build t (a ++ b) =
  match table_build t a with Some t' => table_build t' b | None => None end.
Proof.
  induction a as [|m a IH]; intros b t; [reflexivity|].
  cbn [List.app table_build]. destruct (table_add t m); [apply IH | reflexivity].
Qed.

Lemma tbl_build pages subs : node_wf pages subs ->
  tbl (build (Site pages subs)) = rev (mount_tes 0 subs) ++ rev (map page_te pages).
Proof.
  intros (Hp & _ & Hb & Hk & Hnd). unfold tbl, app_table. cbn [build app_ments].
  rewrite table_build_app, (build_pages pages []); [|intros x [] | exact Hp].
  rewrite app_nil_r. rewrite build_mounts; [reflexivity | exact Hb | | exact Hnd].
  intros x y Hx Hy. apply in_rev in Hy. apply in_map_iff in Hy. destruct Hy as (pg & <- & Hpg).
  cbn [page_te t_key]. apply Hk; assumption.
Qed.

Lemma find_unique {A} (f : A -> bool) : forall l x, In x l -> f x = true ->
  (forall y, In y l -> f y = true -> y = x) -> find f l = Some x.
Proof.
  induction l as [|a l IH]; intros x Hin Hf Hu; [destruct Hin|].
  cbn [find]. destruct (f a) eqn:Ea.
  - f_equal. apply Hu; [left; reflexivity | exact Ea].
  - destruct Hin as [->|Hin]; [congruence|]. apply IH; [exact Hin | exact Hf |].
    intros y Hy. apply Hu. right. exact Hy.
Qed.

Lemma mount_tes_in : forall subs k y, In y (mount_tes k subs) ->
  exists j x, nth_error subs j = Some x /\ y = mount_te (k + j) x.
Proof.
  induction subs as [|x subs IH]; intros k y H; [destruct H|].
  cbn [mount_tes] in H. destruct H as [<-|H].
  - exists 0%nat, x. rewrite Nat.add_0_r. auto.
  - destruct (IH _ _ H) as (j & z & Hj & ->). exists (S j), z. split; [exact Hj|].
    replace (S k + j)%nat with (k + S j)%nat by lia. reflexivity.
Qed.

Lemma mount_tes_nth : forall subs k j x, nth_error subs j = Some x -> In (mount_te (k + j) x) (mount_tes k subs).
Proof.
  induction subs as [|z subs IH]; intros k [|j] x H; try discriminate.
  - cbn in H. injection H as ->. rewrite Nat.add_0_r. left. reflexivity.
  - cbn [nth_error] in H. right. replace (k + S j)%nat with (S k + j)%nat by lia. apply IH. exact H.
Qed.

Lemma get_entry_page pages subs pg : node_wf pages subs -> In pg pages ->
  get_entry (tbl (build (Site pages subs))) (page_key pg) (N.of_nat (nparams (page_route pg))) =
  Some (ENT (parts_of (page_route pg) []) (idxs 1 (page_route pg)) None).
Proof.
  intros Hwf Hin. rewrite (tbl_build _ _ Hwf). destruct Hwf as (_ & Hu & _ & Hk & _).
  unfold get_entry. rewrite (find_unique _ _ (page_te pg)); [reflexivity | | |].
  - apply in_or_app. right. apply in_rev. rewrite rev_involutive. apply in_map. exact Hin.
  - cbn [page_te t_key t_ar]. rewrite beq_refl, N.eqb_refl. reflexivity.
  - intros y Hy Hf. apply andb_true_iff in Hf. destruct Hf as [Hf1 Hf2]. apply beq_eq in Hf1. apply N.eqb_eq in Hf2.
    apply in_app_or in Hy. destruct Hy as [Hy|Hy].
    + apply in_rev in Hy. apply mount_tes_in in Hy. destruct Hy as (j & x & Hj & ->).
      cbn [mount_te t_key] in Hf1. exfalso. apply (Hk x pg); [eapply nth_error_In; eassumption | exact Hin |].
      symmetry. exact Hf1.
    + apply in_rev in Hy. apply in_map_iff in Hy. destruct Hy as (pg' & <- & Hpg').
      cbn [page_te t_key t_ar] in Hf1, Hf2. f_equal. apply Hu; [exact Hpg' | exact Hin | exact Hf1 | lia].
Qed.

Lemma get_entry_mount pages subs i x : node_wf pages subs -> nth_error subs i = Some x ->
  get_entry (tbl (build (Site pages subs))) (sub_name x) 1 = Some (ENT [sub_prefix x; []] [(1, [])] (Some i)).
Proof.
  intros Hwf Hn. rewrite (tbl_build _ _ Hwf). destruct Hwf as (_ & _ & _ & Hk & Hnd).
  unfold get_entry. rewrite (find_unique _ _ (mount_te i x)); [reflexivity | | |].
  - apply in_or_app. left. apply in_rev. rewrite rev_involutive. apply (mount_tes_nth subs 0 i x Hn).
  - cbn [mount_te t_key t_ar]. rewrite beq_refl. reflexivity.
  - intros y Hy Hf. apply andb_true_iff in Hf. destruct Hf as [Hf1 _]. apply beq_eq in Hf1.
    apply in_app_or in Hy. destruct Hy as [Hy|Hy].
    + apply in_rev in Hy. apply mount_tes_in in Hy. destruct Hy as (j & z & Hj & ->).
      cbn [mount_te t_key Nat.add] in *.
      assert (j = i).
      { rewrite NoDup_nth_error in Hnd. apply Hnd.
        - rewrite map_length. apply nth_error_Some. congruence.
        - rewrite !nth_error_map, Hj, Hn. cbn [option_map]. f_equal. exact Hf1. }
      subst j. congruence.
    + apply in_rev in Hy. apply in_map_iff in Hy. destruct Hy as (pg & <- & Hpg).
      cbn [page_te t_key] in Hf1. exfalso. apply (Hk x pg); [eapply nth_error_In; eassumption | exact Hpg | exact Hf1].
Qed.

Lemma write_mount prefix u hs ov : write [prefix; []] [(1, [])] [u] hs ov = Some (prefix ++ u).
Proof.
  cbn [write N.eqb]. change (N.to_nat 1 - 1)%nat with 0%nat. cbn [nth_error]. rewrite !app_nil_r. reflexivity.
Qed.

(* ---------- the parent walk ---------- *)
Inductive site_wf : site -> Prop :=
| SiteWf pages subs : node_wf pages subs -> (forall x, In x subs -> site_wf (snd x)) -> site_wf (Site pages subs).

Definition site_pages (s : site) := match s with Site p _ => p end.
Definition site_subs (s : site) := match s with Site _ b => b end.

(* chain root node up pre: node is reached from root through mounts; up is the chain of mapper parents
   (innermost first) with the names under which the next lower node is mounted; pre the url prefix *)
Inductive chain (root : site) : site -> list (app * bytes) -> bytes -> Prop :=
| ChainRoot : chain root root [] []
| ChainSub parent up pre i x :
    chain root parent up pre -> nth_error (site_subs parent) i = Some x ->
    chain root (snd x) ((build parent, sub_name x) :: up) (pre ++ sub_prefix x).

Lemma chain_wf root node up pre : site_wf root -> chain root node up pre -> site_wf node.
Proof.
  intros Hr H. induction H as [|parent up pre i x Hc IH Hn]; [exact Hr|].
  inversion IH as [pages subs Hnode Hsubs]; subst. cbn [site_subs] in Hn.
  apply Hsubs. eapply nth_error_In. eassumption.
Qed.

Lemma build_root s : app_root (build s) = [].
Proof. destruct s. reflexivity. Qed.

Lemma data_map_up root : site_wf root -> forall parent up pre, chain root parent up pre ->
  forall i x u hs ov, nth_error (site_subs parent) i = Some x ->
  data_map (build parent) up (sub_name x) [u] hs ov = Ok (pre ++ sub_prefix x ++ u).
Proof.
  intros Hr parent up pre Hc. induction Hc as [|gp up pre j y Hc IH Hj]; intros i x u hs ov Hn.
  - inversion Hr as [pages subs Hnode Hsubs]; subst. cbn [site_subs] in Hn.
    cbn [data_map length N.of_nat Pos.of_succ_nat]. rewrite (get_entry_mount pages subs i x Hnode Hn). cbn [e_parts e_idx].
    rewrite write_mount. reflexivity.
  - pose proof (chain_wf root _ _ _ Hr (ChainSub root gp up pre j y Hc Hj)) as Hw.
    inversion Hw as [pages subs Hnode Hsubs E]. rewrite <- E in Hn. cbn [site_subs] in Hn.
    cbn [data_map length N.of_nat Pos.of_succ_nat]. rewrite (get_entry_mount pages subs i x Hnode Hn). cbn [e_parts e_idx].
    rewrite write_mount. rewrite (IH j y (sub_prefix x ++ u) hs ov Hj). rewrite <- !app_assoc. reflexivity.
Qed.

(* url_mapper::data::map for a page of any node of a well-formed site, any depth *)
Theorem site_data_map root node up pre pg ps hs ov :
  site_wf root -> chain root node up pre -> In pg (site_pages node) -> length ps = nparams (page_route pg) ->
  data_map (build node) up (page_key pg) ps hs ov = Ok (pre ++ route_fill (page_route pg) ps).
Proof.
  intros Hr Hc Hin Hlen. pose proof (chain_wf _ _ _ _ Hr Hc) as Hw.
  inversion Hw as [pages subs Hnode Hsubs E]. rewrite <- E in *. cbn [site_pages] in Hin.
  pose proof (get_entry_page pages subs pg Hnode Hin) as Hg. rewrite <- Hlen in Hg.
  pose proof (write_route_template (page_route pg) ps hs ov ltac:(lia)) as Hwr.
  inversion Hc as [E0|parent up' pre' i x Hc' Hn E1 E2 E3].
  - subst. cbn [data_map]. rewrite Hg. cbn [e_parts e_idx]. rewrite Hwr. cbn [build app_root List.app]. reflexivity.
  - subst up pre. rewrite E1. cbn [data_map]. rewrite Hg. cbn [e_parts e_idx]. rewrite Hwr.
    rewrite (data_map_up root Hr parent up' pre' Hc' i x _ hs ov Hn). rewrite <- app_assoc. reflexivity.
Qed.

(* ---------- map_dispatch: generation and routing agree, any depth ---------- *)
Theorem site_map_dispatch root node up pre pg ps hs ov c :
  site_wf root -> chain root node up pre -> In pg (site_pages node) ->
  params_okb (page_route pg) ps = true ->
  reach root (pre ++ route_fill (page_route pg) ps) (snd pg) ps ->
  exists url, data_map (build node) up (page_key pg) ps hs ov = Ok url /\
              dispatch (build root) url c = Fired (snd pg) ps.
Proof.
  intros Hr Hc Hin Hps Hreach. exists (pre ++ route_fill (page_route pg) ps). split.
  - apply (site_data_map root); try assumption. apply params_okb_length. exact Hps.
  - apply site_dispatch. exact Hreach.
Qed.

(* ---------- url_mapper::map with a plain local key ---------- *)
Lemma split_on_none c : forall s, forallb (fun x => negb (x =? c)) s = true -> split_on c s = [s].
Proof.
  induction s as [|x s IH]; intros H; [reflexivity|].
  cbn [forallb] in H. apply andb_true_iff in H. destruct H as [Hx Hs]. apply negb_true_iff in Hx.
  cbn [split_on]. rewrite Hx, (IH Hs). reflexivity.
Qed.
Lemma cut_at_none c : forall s, forallb (fun x => negb (x =? c)) s = true -> cut_at c s = (s, None).
Proof.
  induction s as [|x s IH]; intros H; [reflexivity|].
  cbn [forallb] in H. apply andb_true_iff in H. destruct H as [Hx Hs]. apply negb_true_iff in Hx.
  cbn [cut_at]. rewrite Hx, (IH Hs). reflexivity.
Qed.

Lemma key_bad_false key : key_bad key = false ->
  forallb (fun x => negb (x =? 47)) key = true /\ forallb (fun x => negb (x =? 59)) key = true /\
  beq key [46] = false /\ beq key [46; 46] = false.
Proof.
  unfold key_bad. intros H. apply orb_false_iff in H. destruct H as [H H2].
  apply orb_false_iff in H. destruct H as [H0 H1]. split; [|split; [|split; assumption]].
  - apply forallb_forall. intros x Hx. destruct (x =? 47) eqn:E; [|reflexivity].
    assert (existsb (fun c => (c =? 47) || (c =? 59) || (c =? 44)) key = true); [|congruence].
    apply existsb_exists. exists x. rewrite E. auto.
  - apply forallb_forall. intros x Hx. destruct (x =? 59) eqn:E; [|reflexivity].
    assert (existsb (fun c => (c =? 47) || (c =? 59) || (c =? 44)) key = true); [|congruence].
    apply existsb_exists. exists x. rewrite E, orb_true_r. auto.
Qed.

Lemma mapper_for_plain_key l key : key <> [] -> key_bad key = false -> child_of (tbl (fst l)) key = None ->
  mapper_for_key l key = Ok (l, key, []).
Proof.
  intros Hne Hkb Hch. destruct (key_bad_false key Hkb) as (H47 & H59 & Hd & Hdd).
  destruct key as [|c0 key']; [congruence|].
  assert (Hc0 : (c0 =? 47) = false).
  { cbn [forallb] in H47. apply andb_true_iff in H47. destruct H47 as [H _]. apply negb_true_iff in H. exact H. }
  unfold mapper_for_key. rewrite Hc0. cbn beta iota zeta.
  rewrite (split_on_none 47 (c0 :: key') H47).
  cbn [removelast last walk]. rewrite (cut_at_none 59 _ H59). rewrite Hd, Hdd, Hch. reflexivity.
Qed.

Lemma child_of_none t k : (forall y, In y t -> beq (t_key y) k = true -> e_child (t_e y) = None) -> child_of t k = None.
Proof.
  intros H. unfold child_of. destruct (find _ t) as [x|] eqn:E; [|reflexivity].
  apply find_some in E. destruct E as [Hin Hb]. apply H; assumption.
Qed.

Lemma child_of_page pages subs pg : node_wf pages subs -> In pg pages ->
  child_of (tbl (build (Site pages subs))) (page_key pg) = None.
Proof.
  intros Hwf Hin. rewrite (tbl_build _ _ Hwf). destruct Hwf as (_ & _ & _ & Hk & _).
  apply child_of_none. intros y Hy Hb. apply beq_eq in Hb.
  apply in_app_or in Hy. destruct Hy as [Hy|Hy].
  - apply in_rev in Hy. apply mount_tes_in in Hy. destruct Hy as (j & x & Hj & ->).
    cbn [mount_te t_key] in Hb. exfalso. apply (Hk x pg); [eapply nth_error_In; eassumption | exact Hin | congruence].
  - apply in_rev in Hy. apply in_map_iff in Hy. destruct Hy as (pg' & <- & _). reflexivity.
Qed.

(* real_map on the mapper of a node, key = the (non-empty) key of one of its pages: the url maps back, from the
   root, to the handler registered for that key with the same parameters *)
Theorem map_dispatch root node up pre pg ps vals c :
  site_wf root -> chain root node up pre -> In pg (site_pages node) -> page_key pg <> [] ->
  params_okb (page_route pg) ps = true ->
  reach root (pre ++ route_fill (page_route pg) ps) (snd pg) ps ->
  exists url, real_map (build node, up) vals (page_key pg) ps = Ok url /\
              dispatch (build root) url c = Fired (snd pg) ps.
Proof.
  intros Hr Hc Hin Hne Hps Hreach.
  destruct (site_map_dispatch root node up pre pg ps vals [] c Hr Hc Hin Hps Hreach) as (url & Hm & Hd).
  exists url. split; [|exact Hd].
  pose proof (chain_wf _ _ _ _ Hr Hc) as Hw. inversion Hw as [pages subs Hnode Hsubs E].
  rewrite <- E in *. cbn [site_pages] in Hin.
  unfold real_map. rewrite mapper_for_plain_key.
  - cbn [length Nat.ltb Nat.leb skipn zip_kw fst snd]. destruct (length ps); exact Hm.
  - exact Hne.
  - destruct Hnode as (Hp & _). apply (Hp pg Hin).
  - cbn [fst]. apply child_of_page; assumption.
Qed.

(* ---------- mapper_total ---------- *)
Theorem data_map_unknown_key cur up key ps hs ov :
  get_entry (tbl cur) key (N.of_nat (length ps)) = None -> data_map cur up key ps hs ov = Err EKey.
Proof. intros H. destruct up as [|[p n] up]; cbn [data_map]; rewrite H; reflexivity. Qed.

Theorem real_map_unknown_key l vals key ps l' rk kws :
  mapper_for_key l key = Ok (l', rk, kws) ->
  get_entry (tbl (fst l')) rk (N.of_nat (length (skipn (length kws) ps))) = None ->
  exists e, real_map l vals key ps = Err e.
Proof.
  intros Hk Hg. unfold real_map. rewrite Hk. destruct (Nat.ltb (length ps) (length kws)); [eauto|].
  rewrite data_map_unknown_key by exact Hg. eauto.
Qed.

(* an error never leaves a partial url: the caller sees an exception (None) or the fixed marker *)
Theorem map_output_total throws r :
  match r with
  | Ok u => map_output throws r = Some u
  | Err _ => map_output throws r = if throws then None else Some invalid_url
  end.
Proof. destruct r; reflexivity. Qed.
