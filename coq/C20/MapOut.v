(* C20: what url_mapper::real_map puts into the output stream (map_output), for both settings of
   misc.invalid_url_throws.  Since /repo eebbee5 the no-throw path copies the whole temporary buffer
   (output.write), so a generated url reaches the stream unchanged whatever bytes the parameters contain;
   the map-then-dispatch theorems therefore hold for the stream content in both configurations, parameters with
   embedded NUL bytes included. *)
From CppcmsV Require Import Base.Tac C20.Defs C20.Regex C20.Routes C20.Dispatch C20.Sites C20.Mapper C20.MapAbs C20.MapRel C20.Examples.
Local Open Scope N_scope.

Lemma map_output_ok throws u : map_output throws (Ok u) = Some u.
Proof. reflexivity. Qed.

(* the throws switch changes only what happens on an error *)
Theorem map_output_same_url r u : r = Ok u -> forall throws, map_output throws r = Some u.
Proof. intros -> throws. reflexivity. Qed.

Theorem map_output_switch_irrelevant_on_success r :
  (exists u, r = Ok u) -> map_output false r = map_output true r.
Proof. intros [u ->]. reflexivity. Qed.

(* a url appears in the stream only if real_map succeeded with that url, or (no-throw) it is the marker *)
Theorem map_output_inv throws r u : map_output throws r = Some u ->
  r = Ok u \/ (throws = false /\ u = invalid_url /\ exists e, r = Err e).
Proof.
  destruct r as [x|e]; cbn [map_output].
  - intros H. injection H as <-. left. reflexivity.
  - destruct throws; [discriminate|]. intros H. injection H as <-. right. eauto.
Qed.

(* ---------- map_dispatch for the stream content, either configuration ---------- *)
Lemma stream_of_ok (r : res bytes) (P : bytes -> Prop) :
  (exists url, r = Ok url /\ P url) -> forall throws, exists url, map_output throws r = Some url /\ P url.
Proof. intros (url & -> & HP) throws. exists url. split; [reflexivity | exact HP]. Qed.

Theorem map_dispatch_stream_local root node up pre pg ps vals c throws :
  site_wf root -> chain root node up pre -> In pg (site_pages node) ->
  params_okb (page_route pg) ps = true ->
  reach root (pre ++ route_fill (page_route pg) ps) (snd pg) ps ->
  exists url, map_output throws (real_map (build node, up) vals (page_key pg) ps) = Some url /\
              dispatch (build root) url c = Fired (snd pg) ps.
Proof.
  intros Hr Hc Hin Hps Hreach. apply stream_of_ok.
  exact (map_dispatch_local root node up pre pg ps vals c Hr Hc Hin Hps Hreach).
Qed.

Theorem map_dispatch_stream_abs root from upf pref node up pre pg ps vals c throws :
  site_wf root -> chain root from upf pref -> chain root node up pre -> Forall name_ok (map snd up) ->
  In pg (site_pages node) -> params_okb (page_route pg) ps = true ->
  reach root (pre ++ route_fill (page_route pg) ps) (snd pg) ps ->
  exists url, map_output throws (real_map (build from, upf) vals (abs_key up (page_key pg)) ps) = Some url /\
              dispatch (build root) url c = Fired (snd pg) ps.
Proof.
  intros Hr Hcf Hc Hn Hin Hps Hreach. apply stream_of_ok.
  exact (map_dispatch_abs root from upf pref node up pre pg ps vals c Hr Hcf Hc Hn Hin Hps Hreach).
Qed.

Theorem map_dispatch_stream_rel root a0 up0 pre0 from upf namesF node up names pg ps vals c pre throws :
  site_wf root -> chain root a0 up0 pre0 ->
  rchain a0 up0 from upf namesF -> rchain a0 up0 node up names -> Forall rname_ok names ->
  chain root node up pre ->
  In pg (site_pages node) -> (length namesF + length names > 0)%nat ->
  params_okb (page_route pg) ps = true ->
  reach root (pre ++ route_fill (page_route pg) ps) (snd pg) ps ->
  exists url, map_output throws (real_map (build from, upf) vals (rel_key (length namesF) names (page_key pg)) ps) = Some url /\
              dispatch (build root) url c = Fired (snd pg) ps.
Proof.
  intros Hr H0 HF HN Hnames Hc Hin Hpos Hps Hreach. apply stream_of_ok.
  exact (map_dispatch_rel root a0 up0 pre0 from upf namesF node up names pg ps vals c pre Hr H0 HF HN Hnames Hc Hin Hpos Hps Hreach).
Qed.

(* ---------- regression instance: a parameter with an embedded NUL byte, two-level site ---------- *)
Definition cs_noslash : cset := CS true [(47, 47)].
Definition nx_leaf : site := Site [([112], [RLit [47; 112; 47]; RPar cs_noslash false], 1)] [].
Definition nx_root : site := Site [([104], [RLit [47]], 2)] [([99], [47; 99], nx_leaf)].
Definition nx_page : bytes * route * N := ([112], [RLit [47; 112; 47]; RPar cs_noslash false], 1).
Definition nx_ps : list bytes := [[97; 0; 98]].                        (* a NUL b *)
Definition nx_up : list (app * bytes) := [(build nx_root, [99])].
Definition nx_url : bytes := [47; 99; 47; 112; 47; 97; 0; 98].         (* /c/p/a NUL b *)

Lemma nx_leaf_wf : site_wf nx_leaf.
Proof.
  constructor; [|intros x []]. apply ex_node_wf.
  - intros pg H. in_cases; repeat split; try (vm_compute; reflexivity); cbn; lia.
  - intros pg pg' H H'. in_cases; reflexivity.
  - intros x [].
  - intros x pg [].
  - constructor.
Qed.
Lemma nx_root_wf : site_wf nx_root.
Proof.
  constructor; [|intros x H; in_cases; exact nx_leaf_wf]. apply ex_node_wf.
  - intros pg H. in_cases; repeat split; try (vm_compute; reflexivity); cbn; lia.
  - intros pg pg' H H'. in_cases; reflexivity.
  - intros x H. in_cases. reflexivity.
  - intros x pg H H'. in_cases; discriminate.
  - repeat constructor. intros [].
Qed.
Lemma nx_chain : chain nx_root nx_leaf nx_up ([] ++ [47; 99]).
Proof. exact (ChainSub nx_root nx_root [] [] 0%nat ([99], [47; 99], nx_leaf) (ChainRoot nx_root) eq_refl). Qed.
Lemma nx_reach : reach nx_root (([] ++ [47; 99]) ++ route_fill (page_route nx_page) nx_ps) (snd nx_page) nx_ps.
Proof.
  change (([] ++ [47; 99]) ++ route_fill (page_route nx_page) nx_ps)
    with ([47; 99] ++ route_fill (page_route nx_page) nx_ps).
  eapply (ReachSub _ _ 0%nat [99] [47; 99] nx_leaf); [reflexivity | | discriminate | reflexivity | | ].
  - eapply (ReachPage _ _ 0%nat [112]); [reflexivity | reflexivity | reflexivity |]. intros j pg Hj. inversion Hj.
  - intros pg H. in_cases; reflexivity.
  - intros j x Hj. inversion Hj.
Qed.

(* the counterexample of the former finding mapper-nothrow-truncates-url-at-nul, now a regression example: with
   invalid_url_throws=false the stream receives the whole url /c/p/a NUL b - the same as with true - and it routes to
   the page with the parameter a NUL b (the truncated url /c/p/a would have delivered the parameter a) *)
Example nul_parameter_instance :
  site_wf nx_root /\ chain nx_root nx_leaf nx_up ([] ++ [47; 99]) /\ In nx_page (site_pages nx_leaf) /\
  params_okb (page_route nx_page) nx_ps = true /\
  reach nx_root (([] ++ [47; 99]) ++ route_fill (page_route nx_page) nx_ps) (snd nx_page) nx_ps /\
  map_output false (real_map (build nx_leaf, nx_up) [] (page_key nx_page) nx_ps) = Some nx_url /\
  map_output true (real_map (build nx_leaf, nx_up) [] (page_key nx_page) nx_ps) = Some nx_url /\
  map_output false (map_at (build nx_root) [] [0%nat] [112] nx_ps) = Some nx_url /\
  dispatch (build nx_root) nx_url None = Fired 1 nx_ps /\
  dispatch (build nx_root) (cstr nx_url) None = Fired 1 [[97]].
Proof.
  split; [exact nx_root_wf|]. split; [exact nx_chain|]. split; [left; reflexivity|].
  split; [reflexivity|]. split; [exact nx_reach|]. vm_compute. repeat split; reflexivity.
Qed.
