(* C20: a concrete three-level site on which all hypotheses of map_dispatch hold (non-vacuity) *)
From CppcmsV Require Import Base.Tac C20.Defs C20.Regex C20.Routes C20.Dispatch C20.Sites C20.Mapper.
Local Open Scope N_scope.

Definition cs_alnum : cset := CS false [(48, 57); (97, 122)].
Definition ex_leaf : site :=
  Site [([113], [RLit [47; 113; 47]; RPar cs_alnum true; RLit [45]; RPar cs_digits true], 3);
        ([113], [RLit [47; 113]], 4)] [].
Definition ex_mid : site :=
  Site [([112], [RLit [47; 112; 47]; RPar cs_digits true], 2)] [([100], [47; 100], ex_leaf)].
Definition ex_root : site :=
  Site [([104], [RLit [47]], 1); ([120], [RLit [47; 99]; RPar cs_digits true], 5)] [([99], [47; 99], ex_mid)].
Definition ex_page : bytes * route * N :=
  ([113], [RLit [47; 113; 47]; RPar cs_alnum true; RLit [45]; RPar cs_digits true], 3).
Definition ex_ps : list bytes := [[97; 98]; [52; 50]].
Definition ex_up : list (app * bytes) := [(build ex_mid, [100]); (build ex_root, [99])].
(* /c/d/q/ab-42 *)
Definition ex_url : bytes := [47; 99; 47; 100; 47; 113; 47; 97; 98; 45; 52; 50].

Ltac in_cases := repeat match goal with
  | H : In _ [] |- _ => destruct H
  | H : In _ (_ :: _) |- _ => destruct H as [<-|H]
  | H : False |- _ => destruct H end.

Lemma ex_node_wf pages subs :
  (forall pg, In pg pages -> page_wf pg) ->
  (forall pg pg', In pg pages -> In pg' pages -> page_key pg = page_key pg' ->
                  nparams (page_route pg) = nparams (page_route pg') -> pg = pg') ->
  (forall x, In x subs -> forallb nobrace (sub_prefix x) = true) ->
  (forall x pg, In x subs -> In pg pages -> page_key pg <> sub_name x) ->
  NoDup (map sub_name subs) -> node_wf pages subs.
Proof. intros H1 H2 H3 H4 H5. exact (conj H1 (conj H2 (conj H3 (conj H4 H5)))). Qed.

Lemma ex_leaf_wf : site_wf ex_leaf.
Proof.
  constructor; [|intros x []]. apply ex_node_wf.
  - intros pg H. in_cases; repeat split; try (vm_compute; reflexivity); cbn; lia.
  - intros pg pg' H H'. in_cases; cbn; intros; try reflexivity; discriminate.
  - intros x [].
  - intros x pg [].
  - constructor.
Qed.
Lemma ex_mid_wf : site_wf ex_mid.
Proof.
  constructor; [|intros x H; in_cases; exact ex_leaf_wf]. apply ex_node_wf.
  - intros pg H. in_cases; repeat split; try (vm_compute; reflexivity); cbn; lia.
  - intros pg pg' H H'. in_cases; reflexivity.
  - intros x H. in_cases. reflexivity.
  - intros x pg H H'. in_cases. discriminate.
  - repeat constructor. intros [].
Qed.
Lemma ex_root_wf : site_wf ex_root.
Proof.
  constructor; [|intros x H; in_cases; exact ex_mid_wf]. apply ex_node_wf.
  - intros pg H. in_cases; repeat split; try (vm_compute; reflexivity); cbn; lia.
  - intros pg pg' H H'. in_cases; cbn; intros; try reflexivity; discriminate.
  - intros x H. in_cases. reflexivity.
  - intros x pg H H'. in_cases; discriminate.
  - repeat constructor. intros [].
Qed.

Lemma ex_chain : chain ex_root ex_leaf ex_up ([47; 99] ++ [47; 100]).
Proof.
  exact (ChainSub ex_root ex_mid _ _ 0%nat ([100], [47; 100], ex_leaf)
           (ChainSub ex_root ex_root [] [] 0%nat ([99], [47; 99], ex_mid) (ChainRoot ex_root) eq_refl) eq_refl).
Qed.

Lemma ex_reach : reach ex_root (([47; 99] ++ [47; 100]) ++ route_fill (page_route ex_page) ex_ps) (snd ex_page) ex_ps.
Proof.
  change (([47; 99] ++ [47; 100]) ++ route_fill (page_route ex_page) ex_ps)
    with ([47; 99] ++ ([47; 100] ++ route_fill (page_route ex_page) ex_ps)).
  eapply (ReachSub _ _ 0%nat [99] [47; 99] ex_mid); [reflexivity | | discriminate | reflexivity | | ].
  - eapply (ReachSub _ _ 0%nat [100] [47; 100] ex_leaf); [reflexivity | | discriminate | reflexivity | | ].
    + eapply (ReachPage _ _ 0%nat [113]); [reflexivity | reflexivity | reflexivity |].
      intros j pg Hj. inversion Hj.
    + intros pg H. in_cases. reflexivity.
    + intros j x Hj. inversion Hj.
  - intros pg H. in_cases; reflexivity.
  - intros j x Hj. inversion Hj.
Qed.

Example map_dispatch_instance :
  site_wf ex_root /\ chain ex_root ex_leaf ex_up ([47; 99] ++ [47; 100]) /\ In ex_page (site_pages ex_leaf) /\
  page_key ex_page <> [] /\ params_okb (page_route ex_page) ex_ps = true /\
  reach ex_root (([47; 99] ++ [47; 100]) ++ route_fill (page_route ex_page) ex_ps) (snd ex_page) ex_ps /\
  real_map (build ex_leaf, ex_up) [] (page_key ex_page) ex_ps = Ok ex_url /\
  dispatch (build ex_root) ex_url None = Fired 3 ex_ps /\
  (* the side condition matters: /c7 is also matched by the earlier page x of the root, which wins *)
  dispatch (build ex_root) [47; 99; 55] None = Fired 5 [[55]].
Proof.
  split; [exact ex_root_wf|]. split; [exact ex_chain|]. split; [left; reflexivity|].
  split; [discriminate|]. split; [reflexivity|]. split; [exact ex_reach|].
  split; [vm_compute; reflexivity|]. split; vm_compute; reflexivity.
Qed.

From CppcmsV Require Import C20.MapAbs.
Lemma ex_names_ok : Forall name_ok (map snd ex_up).
Proof. repeat constructor. Qed.
Lemma ex_chain_mid : chain ex_root ex_mid [(build ex_root, [99])] ([] ++ [47; 99]).
Proof. exact (ChainSub ex_root ex_root [] [] 0%nat ([99], [47; 99], ex_mid) (ChainRoot ex_root) eq_refl). Qed.
(* the absolute key /c/d/q used on the mapper of the middle node *)
Example map_dispatch_abs_instance :
  abs_key ex_up (page_key ex_page) = [47; 99; 47; 100; 47; 113] /\
  real_map (build ex_mid, [(build ex_root, [99])]) [] (abs_key ex_up (page_key ex_page)) ex_ps = Ok ex_url /\
  map_at (build ex_root) [] [0%nat] [47; 99; 47; 100; 47; 113] ex_ps = Ok ex_url.
Proof. vm_compute. repeat split; reflexivity. Qed.

From CppcmsV Require Import C20.MapRel.
Definition ex_page_mid : bytes * route * N := ([112], [RLit [47; 112; 47]; RPar cs_digits true], 2).
Lemma ex_rchain_leaf : rchain ex_root [] ex_leaf ex_up [[99]; [100]].
Proof.
  exact (RCS ex_root [] ex_mid _ _ 0%nat ([100], [47; 100], ex_leaf)
           (RCS ex_root [] ex_root [] [] 0%nat ([99], [47; 99], ex_mid) (RC0 ex_root []) eq_refl) eq_refl).
Qed.
Lemma ex_rchain_mid : rchain ex_root [] ex_mid [(build ex_root, [99])] [[99]].
Proof. exact (RCS ex_root [] ex_root [] [] 0%nat ([99], [47; 99], ex_mid) (RC0 ex_root []) eq_refl). Qed.
Lemma ex_rnames_ok : Forall rname_ok [[99]].
Proof. repeat constructor. discriminate. Qed.
Lemma ex_reach_mid : reach ex_root ([47; 99] ++ route_fill (page_route ex_page_mid) [[55]]) 2 [[55]].
Proof.
  eapply (ReachSub _ _ 0%nat [99] [47; 99] ex_mid); [reflexivity | | discriminate | reflexivity | | ].
  - eapply (ReachPage _ _ 0%nat [112]); [reflexivity | reflexivity | reflexivity |]. intros j pg Hj. inversion Hj.
  - intros pg H. in_cases; reflexivity.
  - intros j x Hj. inversion Hj.
Qed.
(* ../../c/p used on the mapper of the leaf *)
Example map_dispatch_rel_instance :
  rel_key 2 [[99]] (page_key ex_page_mid) = [46; 46; 47; 46; 46; 47; 99; 47; 112] /\
  real_map (build ex_leaf, ex_up) [] (rel_key 2 [[99]] (page_key ex_page_mid)) [[55]] = Ok [47; 99; 47; 112; 47; 55] /\
  dispatch (build ex_root) [47; 99; 47; 112; 47; 55] None = Fired 2 [[55]].
Proof. vm_compute. repeat split; reflexivity. Qed.
