(* C20 proofs, part 9: complete characterisation of routing over application trees and mounted pools:
   dispatch a url c = Fired hid args  <->  routed a url c hid args, where routed spells out "first option in registration
   order, at every level, whose pattern matches the whole string (and method filter / text validity for map-style
   handlers), arguments = exactly the selected groups, mounted child receives exactly the selected group". *)
From CppcmsV Require Import Base.Tac C20.Defs C20.Regex C20.Routes C20.Dispatch.
Local Open Scope N_scope.

Definition earlier_decline (a : app) (i : nat) (url : bytes) (c : ctx) : Prop :=
  forall j o, (j < i)%nat -> nth_error (app_opts a) j = Some o ->
              try_opt (kid_fns (app_kids a)) o url c = None.

Inductive routed : app -> bytes -> ctx -> N -> list bytes -> Prop :=
| RoutedH a i k p mf hid sel url c gs args :
    nth_error (app_opts a) i = Some (DH k p mf hid sel) ->
    earlier_decline a i url c ->
    lang (pat_re p) url -> pat_match p url = Some gs ->
    arg_conv k (map (grp gs) sel) = Some args ->
    (k <> KAssign -> exists m, c = Some m /\ meth_lang mf m) ->
    routed a url c hid args
| RoutedM a i p sel k kid url c gs hid args :
    nth_error (app_opts a) i = Some (DM p sel k) ->
    earlier_decline a i url c ->
    lang (pat_re p) url -> pat_match p url = Some gs ->
    nth_error (app_kids a) k = Some kid ->
    routed kid (grp gs sel) c hid args ->
    routed a url c hid args.

Theorem dispatch_routed : forall a url c hid args, dispatch a url c = Fired hid args -> routed a url c hid args.
Proof.
  induction a as [opts ments kids root IH] using app_ind'. intros url c hid args Hd.
  rewrite dispatch_unfold in Hd.
  destruct (scan_first_match (kid_fns kids) opts url c) as [(i & o & out & Hn & Ht & Hb & Hs) | [_ Hs]];
    [|congruence].
  rewrite Hs in Hd. subst out.
  destruct o as [k p mf h sel|p sel k].
  - apply handler_fires_iff in Ht. destruct Ht as (gs & args' & E & Ea & Ef & Hk). injection Ef as -> ->.
    eapply RoutedH; [exact Hn | exact Hb | eapply pat_match_whole; eassumption | exact E | exact Ea | exact Hk].
  - apply mount_takes_iff in Ht. destruct Ht as (gs & E & Ef).
    destruct (nth_error kids k) as [kid|] eqn:Ek; [|discriminate].
    symmetry in Ef. apply finish404_fired in Ef.
    eapply RoutedM; [exact Hn | exact Hb | eapply pat_match_whole; eassumption | exact E | exact Ek |].
    rewrite Forall_forall in IH. apply IH; [eapply nth_error_In; eassumption | exact Ef].
Qed.

Lemma scan_at kd opts i o url c out :
  nth_error opts i = Some o ->
  (forall j o', (j < i)%nat -> nth_error opts j = Some o' -> try_opt kd o' url c = None) ->
  try_opt kd o url c = Some out -> scan kd opts url c = out.
Proof.
  intros Hn Hb Ht. destruct (nth_error_split opts i Hn) as (l1 & l2 & -> & Hl).
  apply scan_prefix_irrelevant; [|exact Ht].
  intros o' Hin. apply In_nth_error in Hin. destruct Hin as [j Hj].
  assert (Hlt : (j < length l1)%nat) by (apply nth_error_Some; congruence).
  apply (Hb j o'); [lia | rewrite nth_error_app1; assumption].
Qed.

Theorem routed_dispatch : forall a url c hid args, routed a url c hid args -> dispatch a url c = Fired hid args.
Proof.
  induction 1 as [a i k p mf hid sel url c gs args Hn Hb Hl E Ea Hk
                 |a i p sel k kid url c gs hid args Hn Hb Hl E Ek Hr IH].
  - rewrite dispatch_unfold'. eapply scan_at; [exact Hn | exact Hb |].
    apply handler_fires_iff. exists gs, args. auto.
  - rewrite dispatch_unfold'. eapply scan_at; [exact Hn | exact Hb |].
    apply mount_takes_iff. exists gs. split; [exact E|]. rewrite Ek, IH. reflexivity.
Qed.

(* end to end: pool scan, then the application tree *)
Theorem request_routed pools h s p m i sub hid args :
  route_request pools h s p m = RApp i sub (Fired hid args) ->
  exists mp a, nth_error pools i = Some (mp, a) /\
               mp_match mp h s p = Some sub /\
               (forall j mp', (j < i)%nat -> nth_error (map fst pools) j = Some mp' -> mp_match mp' h s p = None) /\
               routed a sub (Some m) hid args.
Proof.
  unfold route_request. pose proof (pool_first_match (map fst pools) h s p) as Hp.
  destruct (pool_lookup (map fst pools) h s p) as [[i' sub']|]; [|discriminate].
  destruct Hp as (mp & Hn & Hm & Hb).
  destruct (nth_error pools i') as [[mp' a]|] eqn:En; [|discriminate].
  intros H. injection H as <- <- Hf.
  rewrite nth_error_map, En in Hn. cbn in Hn. injection Hn as ->.
  exists mp, a. split; [exact En|]. split; [exact Hm|]. split; [exact Hb|].
  apply dispatch_routed. unfold app_main in Hf. apply finish404_fired in Hf. exact Hf.
Qed.
