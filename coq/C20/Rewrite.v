(* C20 proofs, part 10: url rewriting rules (private/rewrite.h): ordered, whole-string, first final match stops *)
From CppcmsV Require Import Base.Tac C20.Defs C20.Regex C20.Routes.
Local Open Scope N_scope.

Theorem rw_no_match : forall rules url,
  (forall r, In r rules -> pat_match (rr_pat r) url = None) -> rw_apply rules url = url.
Proof.
  induction rules as [|r rules IH]; intros url H; [reflexivity|].
  cbn [rw_apply]. rewrite (H r (or_introl eq_refl)). apply IH. intros r' Hr'. apply H. right. exact Hr'.
Qed.

(* a url that is in the language of no rule (as a whole string) is left alone *)
Theorem rw_outside_languages_unchanged : forall rules url,
  (forall r, In r rules -> ~ lang (pat_re (rr_pat r)) url) -> rw_apply rules url = url.
Proof.
  intros rules url H. apply rw_no_match. intros r Hr.
  destruct (pat_match (rr_pat r) url) as [gs|] eqn:E; [|reflexivity].
  exfalso. apply (H r Hr). eapply pat_match_whole. eassumption.
Qed.

(* the first rule, in configuration order, that matches the whole url is the one applied; a final rule ends the
   rewriting, a non-final one hands its result to the rules after it *)
Theorem rw_first_match : forall pre r post url gs,
  (forall r', In r' pre -> pat_match (rr_pat r') url = None) -> pat_match (rr_pat r) url = Some gs ->
  lang (pat_re (rr_pat r)) url /\
  rw_apply (pre ++ r :: post) url = if rr_final r then rw_once r gs else rw_apply post (rw_once r gs).
Proof.
  intros pre r post url gs Hpre Hm. split; [eapply pat_match_whole; eassumption|].
  induction pre as [|x pre IH]; cbn [List.app rw_apply].
  - rewrite Hm. reflexivity.
  - rewrite (Hpre x (or_introl eq_refl)). apply IH. intros r' Hr'. apply Hpre. right. exact Hr'.
Qed.

(* the pattern scanner: without a dollar sign the pattern is one constant chunk *)
Lemma rwp_plain : forall s cur parts idx, forallb (fun c => negb (c =? 36)) s = true ->
  rwp s cur parts idx = Some (rev (rev (rev s ++ cur) :: parts), rev idx).
Proof.
  induction s as [|c s IH]; intros cur parts idx H; [reflexivity|].
  cbn [forallb] in H. apply andb_true_iff in H. destruct H as [Hc Hs]. apply negb_true_iff in Hc.
  cbn [rwp]. rewrite Hc, (IH _ _ _ Hs). cbn [rev]. rewrite <- app_assoc. reflexivity.
Qed.

Theorem rw_parse_plain s : forallb (fun c => negb (c =? 36)) s = true -> rw_parse s = Some ([s], []).
Proof.
  intros H. unfold rw_parse. rewrite (rwp_plain s [] [] [] H). cbn [rev List.app]. rewrite app_nil_r, rev_involutive. reflexivity.
Qed.

Example rewrite_nonvacuous :
  let p1 := PRoute [RLit [47]; RPar cs_digits true; RLit [47]; RPar cs_dot false] in
  let p2 := PRoute [RLit [47; 97]; RPar cs_dot false] in
  let p3 := PRoute [RLit [47; 98]; RPar cs_dot false] in
  (* /(\d+)/(.* ) -> /p/$2-$1?$$  *)
  rw_parse [47; 112; 47; 36; 50; 45; 36; 49; 63; 36; 36] = Some ([[47; 112; 47]; [45]; [63; 36]], [2%Z; 1%Z]) /\
  rw_parse [47; 36] = None /\
  (exists r1, mk_rule p1 [47; 112; 47; 36; 50; 45; 36; 49] true = Some r1 /\
     rw_apply [r1] [47; 52; 50; 47; 120] = [47; 112; 47; 120; 45; 52; 50] /\
     rw_apply [r1] [47; 52; 50; 47; 120; 10] = [47; 52; 50; 47; 120; 10]) /\
  (exists r2 r3, mk_rule p2 [47; 98; 36; 49] false = Some r2 /\ mk_rule p3 [47; 99; 36; 49] true = Some r3 /\
     rw_apply [r2; r3] [47; 97; 55] = [47; 99; 55] /\ rw_apply [r3; r2] [47; 97; 55] = [47; 98; 55]).
Proof.
  cbv zeta. split; [vm_compute; reflexivity|]. split; [vm_compute; reflexivity|]. split.
  - eexists. split; [vm_compute; reflexivity|]. split; vm_compute; reflexivity.
  - eexists. eexists. split; [vm_compute; reflexivity|]. split; [vm_compute; reflexivity|]. split; vm_compute; reflexivity.
Qed.
