(* C20 proofs, part 16: the embedded HTTP front end, end to end: request uri -> rewrite rules -> query split ->
   script name -> url-decoded PATH_INFO -> first mount point -> application -> first handler. *)
From CppcmsV Require Import Base.Tac C20.Defs C20.Regex C20.Routes C20.Dispatch C20.Routed C20.Rewrite C20.RewriteSpec.
Local Open Scope N_scope.

Lemma strip_prefix_some : forall p s r, strip_prefix p s = Some r -> s = p ++ r.
Proof.
  induction p as [|a p IH]; intros s r H.
  - cbn in H. injection H as <-. reflexivity.
  - destruct s as [|b s]; [discriminate|]. cbn [strip_prefix] in H.
    destruct (a =? b) eqn:E; [|discriminate]. apply N.eqb_eq in E. subst b.
    rewrite (IH s r H). reflexivity.
Qed.

(* a name is a component prefix of the path: the path continues with a slash or ends there *)
Definition comp_prefix (n path : bytes) : Prop :=
  exists rest, path = n ++ rest /\ (rest = [] \/ exists t, rest = 47 :: t).

Lemma pick_script_spec : forall names path sn rest, pick_script names path = (sn, rest) ->
  path = sn ++ rest /\
  ((exists pre post, names = pre ++ sn :: post /\ comp_prefix sn path /\ forall n, In n pre -> ~ comp_prefix n path)
   \/ (sn = [] /\ forall n, In n names -> ~ comp_prefix n path)).
Proof.
  induction names as [|n names IH]; intros path sn rest H.
  - cbn in H. injection H as <- <-. split; [reflexivity|]. right. split; [reflexivity | intros n []].
  - cbn [pick_script] in H.
    assert (Hskip : pick_script names path = (sn, rest) -> ~ comp_prefix n path ->
              path = sn ++ rest /\
              ((exists pre post, n :: names = pre ++ sn :: post /\ comp_prefix sn path /\ forall x, In x pre -> ~ comp_prefix x path)
               \/ (sn = [] /\ forall x, In x (n :: names) -> ~ comp_prefix x path))).
    { intros Hp Hn. destruct (IH path sn rest Hp) as [E [(pre & post & En & Hc & Hpre) | [E0 Hall]]].
      - split; [exact E|]. left. exists (n :: pre), post. split; [cbn; rewrite En; reflexivity|]. split; [exact Hc|].
        intros x [<-|Hx]; [exact Hn | apply Hpre; exact Hx].
      - split; [exact E|]. right. split; [exact E0|]. intros x [<-|Hx]; [exact Hn | apply Hall; exact Hx]. }
    destruct (strip_prefix n path) as [r|] eqn:Es.
    + pose proof (strip_prefix_some n path r Es) as Ep.
      destruct r as [|c r'].
      * injection H as <- <-. split; [exact Ep|]. left. exists [], names. split; [reflexivity|].
        split; [exists []; split; [exact Ep | left; reflexivity] | intros x []].
      * destruct (c =? 47) eqn:Ec.
        -- apply N.eqb_eq in Ec. subst c. injection H as <- <-. split; [exact Ep|]. left. exists [], names.
           split; [reflexivity|]. split; [exists (47 :: r'); split; [exact Ep | right; eauto] | intros x []].
        -- apply Hskip; [exact H|]. intros (rest' & Er & Hr). rewrite Ep in Er. apply app_inv_head in Er. subst rest'.
           destruct Hr as [Hr | [t Hr]]; [discriminate|]. injection Hr as -> _. rewrite N.eqb_refl in Ec. discriminate.
    + apply Hskip; [exact H|]. intros (rest' & Er & _).
      assert (strip_prefix n (n ++ rest') = Some rest').
      { clear. induction n as [|a n IH]; [reflexivity|]. cbn [List.app strip_prefix]. rewrite N.eqb_refl. exact IH. }
      rewrite <- Er in H0. congruence.
Qed.

(* url decoding leaves text without percent and plus signs alone *)
Lemma urldecode_plain : forall s, forallb (fun c => negb (c =? 37) && negb (c =? 43)) s = true -> urldecode s = s.
Proof.
  induction s as [|c s IH]; intros H; [reflexivity|].
  cbn [forallb] in H. apply andb_true_iff in H. destruct H as [Hc Hs]. apply andb_true_iff in Hc. destruct Hc as [H37 H43].
  apply negb_true_iff in H37. apply negb_true_iff in H43. cbn [urldecode]. rewrite H43, H37, (IH Hs). reflexivity.
Qed.

(* end to end: a handler runs for an HTTP request only through this chain, every link of it a whole-string /
   first-in-order decision *)
Theorem serve_end_to_end rules names pools host uri m i sub hid args :
  serve rules names pools host uri m = Served (RApp i sub (Fired hid args)) ->
  exists u q sn rest mp a,
    rw_steps rules uri u /\ cut_at 63 u = (sn ++ rest, q) /\ hd 0 u = 47 /\
    pick_script names (sn ++ rest) = (sn, rest) /\
    nth_error pools i = Some (mp, a) /\
    mp_match mp host sn (urldecode rest) = Some sub /\
    (forall j mp', (j < i)%nat -> nth_error (map fst pools) j = Some mp' -> mp_match mp' host sn (urldecode rest) = None) /\
    routed a sub (Some m) hid args.
Proof.
  unfold serve. pose proof (rw_apply_steps rules uri) as Hrw.
  destruct (rw_apply rules uri) as [|c u'] eqn:Eu; [discriminate|].
  destruct (c =? 47) eqn:Ec; [|discriminate]. apply N.eqb_eq in Ec. subst c.
  destruct (cut_at 63 (47 :: u')) as [path q] eqn:Ecut.
  destruct (pick_script names path) as [sn rest] eqn:Ep.
  intros H. injection H as H.
  destruct (pick_script_spec names path sn rest Ep) as [Epath _]. subst path.
  destruct (request_routed pools host sn (urldecode rest) m i sub hid args H) as (mp & a & Hn & Hm & Hb & Hr).
  exists (47 :: u'), q, sn, rest, mp, a. repeat split; try assumption.
Qed.

(* 400: the rewritten uri does not start with a slash *)
Theorem serve_bad_request rules names pools host uri m :
  serve rules names pools host uri m = Bad400 <-> hd 0 (rw_apply rules uri) <> 47.
Proof.
  unfold serve. destruct (rw_apply rules uri) as [|c u']; cbn [hd].
  - split; [intros _; discriminate | reflexivity].
  - destruct (c =? 47) eqn:Ec.
    + apply N.eqb_eq in Ec. subst c. destruct (cut_at 63 (47 :: u')) as [path q]. destruct (pick_script names path).
      split; [discriminate | congruence].
    + split; [intros _; apply N.eqb_neq; exact Ec | reflexivity].
Qed.
