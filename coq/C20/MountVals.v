(* C20 -- executable model only: helper values set on a mapper BEFORE its application is mounted into the parent mapper.
   url_mapper::mount(name, url, app) copies every value of the child mapper to root_mapper() of the parent (set_value) and clears
   the child's map; at construction time every application is the topmost one of its own subtree, so after the whole tree has
   been built all values of mapper-connected nodes sit in the topmost mapper: the values of the children in the order of the
   mounts (a later mount overwrites an earlier one on the same key - kv_find takes the last assignment), then the node's own. *)
From Coq Require Import NArith List.
From CppcmsV Require Import C20.Defs.
Import ListNotations.

Inductive vtree := VT (own : kv) (kids : list vtree).

Fixpoint collect_vals (fuel : nat) (a : app) (v : vtree) : kv :=
  match fuel with
  | O => []
  | S f =>
      match v with
      | VT own vk =>
          flat_map (fun m => match m with
                             | MMount _ _ k => match nth_error (app_kids a) k, nth_error vk k with
                                               | Some kid, Some kv' => collect_vals f kid kv'
                                               | _, _ => []
                                               end
                             | MUrl _ _ => []
                             end) (app_ments a) ++ own
      end
  end.
