(* C20 proofs, part 6: url_mapper key navigation on sites.  An absolute key /n1/.../nk/pagekey, used on the mapper of ANY
   node of a well-formed site, is resolved (get_mapper_for_key: topmost, child walk) to the node reached through the
   mounts named n1..nk, and the generated url routes back from the root to that page (map_dispatch for absolute keys). *)
From CppcmsV Require Import Base.Tac C20.Defs C20.Regex C20.Routes C20.Dispatch C20.Sites C20.Mapper.
Local Open Scope N_scope.

Definition no47 (s : bytes) : bool := forallb (fun x => negb (x =? 47)) s.

Fixpoint join47 (l : list bytes) : bytes :=
  match l with
  | [] => []
  | [x] => x
  | x :: t => x ++ 47 :: join47 t
  end.

Lemma split_on_sep : forall x r, no47 x = true -> split_on 47 (x ++ 47 :: r) = x :: split_on 47 r.
Proof.
  induction x as [|c x IH]; intros r H.
  - reflexivity.
  - unfold no47 in H. cbn [forallb] in H. apply andb_true_iff in H. destruct H as [Hc Hx]. apply negb_true_iff in Hc.
    cbn [List.app split_on]. rewrite Hc, (IH r Hx). reflexivity.
Qed.

Lemma split_on_join : forall l, l <> [] -> (forall x, In x l -> no47 x = true) -> split_on 47 (join47 l) = l.
Proof.
  induction l as [|x l IH]; intros Hne H; [congruence|].
  destruct l as [|y l].
  - cbn [join47]. apply split_on_none. apply (H x). left. reflexivity.
  - change (join47 (x :: y :: l)) with (x ++ 47 :: join47 (y :: l)).
    rewrite split_on_sep by (apply H; left; reflexivity).
    rewrite IH; [reflexivity | discriminate | intros z Hz; apply H; right; exact Hz].
Qed.

Lemma walk_app : forall a b l, walk l (a ++ b) = match walk l a with Ok l' => walk l' b | Err e => Err e end.
Proof.
  induction a as [|ch a IH]; intros b l; [reflexivity|].
  cbn [List.app walk]. destruct (beq ch [46]); [apply IH|].
  destruct (beq ch [46; 46]).
  - destruct (go_parent l) as [l'|e]; [apply IH | reflexivity].
  - destruct (go_child l ch) as [l'|e]; [apply IH | reflexivity].
Qed.

Definition name_ok (n : bytes) : Prop := key_bad n = false.

Lemma go_child_mount pages subs up i x : node_wf pages subs -> nth_error subs i = Some x ->
  go_child (build (Site pages subs), up) (sub_name x) =
  Ok (build (snd x), (build (Site pages subs), sub_name x) :: up).
Proof.
  intros Hwf Hn. unfold go_child. cbn [fst snd]. rewrite (get_entry_mount pages subs i x Hwf Hn). cbn [e_child].
  rewrite build_kids, nth_error_map, Hn. reflexivity.
Qed.

(* walking down from the root along the mount names of a chain arrives at the node of the chain *)
Lemma walk_chain root : site_wf root -> forall node up pre, chain root node up pre ->
  Forall name_ok (map snd up) ->
  walk (build root, []) (rev (map snd up)) = Ok (build node, up).
Proof.
  intros Hr node up pre Hc. induction Hc as [|parent up pre i x Hc IH Hn]; intros Hnames.
  - reflexivity.
  - cbn [map rev snd]. inversion Hnames as [|n l Hn1 Hn2]; subst. rewrite walk_app, (IH Hn2).
    pose proof (chain_wf _ _ _ _ Hr Hc) as Hw. inversion Hw as [pages subs Hnode Hsubs E]. rewrite <- E in *.
    cbn [site_subs] in Hn. cbn [walk].
    destruct (key_bad_false _ Hn1) as (_ & _ & Hd & Hdd). rewrite Hd, Hdd.
    rewrite (go_child_mount pages subs up i x Hnode Hn). reflexivity.
Qed.

Lemma chain_top root node up pre : chain root node up pre ->
  up = [] /\ node = root \/ exists n rest, rev up = (build root, n) :: rest.
Proof.
  intros Hc. induction Hc as [|parent up pre i x Hc IH Hn]; [left; auto|].
  right. cbn [rev]. destruct IH as [[-> ->]|(n & rest & E)].
  - cbn. eauto.
  - rewrite E. cbn. eauto.
Qed.

Lemma topmost_chain root node up pre : chain root node up pre -> topmost (build node, up) = (build root, []).
Proof.
  intros Hc. unfold topmost. cbn [fst snd].
  destruct (chain_top _ _ _ _ Hc) as [[-> ->]|(n & rest & E)]; [reflexivity | rewrite E; reflexivity].
Qed.

Definition abs_key (up : list (app * bytes)) (pk : bytes) : bytes := 47 :: join47 (rev (map snd up) ++ [pk]).

Lemma key_bad_no47 n : key_bad n = false -> no47 n = true.
Proof. intros H. destruct (key_bad_false n H) as (H47 & _). exact H47. Qed.

(* get_mapper_for_key for an absolute key, from any node *)
Theorem mapper_for_abs_key root from upf pref node up pre pg :
  site_wf root -> chain root from upf pref -> chain root node up pre -> Forall name_ok (map snd up) ->
  In pg (site_pages node) ->
  mapper_for_key (build from, upf) (abs_key up (page_key pg)) = Ok ((build node, up), page_key pg, []).
Proof.
  intros Hr Hcf Hc Hnames Hin.
  pose proof (chain_wf _ _ _ _ Hr Hc) as Hw. inversion Hw as [pages subs Hnode Hsubs E].
  rewrite <- E in *. cbn [site_pages] in Hin.
  assert (Hkb : key_bad (page_key pg) = false) by (destruct Hnode as (Hp & _); apply (Hp pg Hin)).
  destruct (key_bad_false _ Hkb) as (H47 & H59 & Hd & Hdd).
  unfold mapper_for_key, abs_key. cbn [N.eqb Pos.eqb]. cbn beta iota zeta.
  rewrite (topmost_chain _ _ _ _ Hcf).
  rewrite split_on_join.
  - rewrite removelast_last, last_last. rewrite (walk_chain root Hr _ _ _ Hc Hnames).
    rewrite (cut_at_none 59 _ H59). rewrite Hd, Hdd. cbn [fst].
    rewrite (child_of_page pages subs pg Hnode Hin). reflexivity.
  - intros X. apply app_eq_nil in X. destruct X as [_ X]. discriminate.
  - intros z Hz. apply in_app_or in Hz. destruct Hz as [Hz|[<-|[]]]; [|exact H47].
    apply in_rev in Hz. rewrite Forall_forall in Hnames. apply key_bad_no47. apply Hnames. exact Hz.
Qed.

(* map_dispatch for absolute keys: url_mapper::map called on the mapper of ANY node with the absolute key of a page
   anywhere in the site generates the url that routes, from the root, to that page with exactly the parameters *)
Theorem map_dispatch_abs root from upf pref node up pre pg ps vals c :
  site_wf root -> chain root from upf pref -> chain root node up pre -> Forall name_ok (map snd up) ->
  In pg (site_pages node) -> params_okb (page_route pg) ps = true ->
  reach root (pre ++ route_fill (page_route pg) ps) (snd pg) ps ->
  exists url, real_map (build from, upf) vals (abs_key up (page_key pg)) ps = Ok url /\
              dispatch (build root) url c = Fired (snd pg) ps.
Proof.
  intros Hr Hcf Hc Hnames Hin Hps Hreach.
  destruct (site_map_dispatch root node up pre pg ps vals [] c Hr Hc Hin Hps Hreach) as (url & Hm & Hd).
  exists url. split; [|exact Hd].
  unfold real_map. rewrite (mapper_for_abs_key root from upf pref node up pre pg Hr Hcf Hc Hnames Hin).
  cbn [length Nat.ltb Nat.leb skipn zip_kw fst snd]. destruct (length ps); exact Hm.
Qed.

(* the local-key theorem without the non-empty-key restriction: the empty key is resolved to the mapper itself *)
Theorem map_dispatch_local root node up pre pg ps vals c :
  site_wf root -> chain root node up pre -> In pg (site_pages node) ->
  params_okb (page_route pg) ps = true ->
  reach root (pre ++ route_fill (page_route pg) ps) (snd pg) ps ->
  exists url, real_map (build node, up) vals (page_key pg) ps = Ok url /\
              dispatch (build root) url c = Fired (snd pg) ps.
Proof.
  intros Hr Hc Hin Hps Hreach. destruct (page_key pg) as [|c0 k] eqn:Ek.
  - destruct (site_map_dispatch root node up pre pg ps vals [] c Hr Hc Hin Hps Hreach) as (url & Hm & Hd).
    exists url. split; [|exact Hd]. rewrite Ek in Hm. unfold real_map. cbn [mapper_for_key].
    cbn [length Nat.ltb Nat.leb skipn zip_kw fst snd]. destruct (length ps); exact Hm.
  - rewrite <- Ek. apply (map_dispatch root node up pre pg ps vals c); try assumption. congruence.
Qed.
