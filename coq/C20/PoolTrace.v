(* C20 proofs, part 24: the pool over a whole HISTORY of operations - mounts of both kinds, destruction of legacy
   applications, unmounts and lookups in any interleaving.  The real lookups purge dead legacy entries as a side effect
   (run); in the reference semantics a lookup is a pure first-match scan of order st and never touches the state (run_ref).
   Both give the same answers for every history: when and whether purges happen is unobservable. *)
From CppcmsV Require Import Base.Tac C20.Defs C20.PoolDefs C20.PoolProofs.
Local Open Scope N_scope.

(* two states are equivalent when they agree on the list apps and on the live legacy entries *)
Definition same_live (a b : pstate) : Prop :=
  ps_apps a = ps_apps b /\ filter le_live (ps_legacy a) = filter le_live (ps_legacy b).

Lemma same_live_order a b : same_live a b -> order a = order b.
Proof. intros [Ha Hl]. unfold order, live_mounts. rewrite Ha, Hl. reflexivity. Qed.

Lemma same_live_purge a : same_live (purge a) a.
Proof. split; [reflexivity|]. unfold purge. cbn [ps_legacy]. apply filter_idem. Qed.

Lemma same_live_trans a b c : same_live a b -> same_live b c -> same_live a c.
Proof. intros [A1 A2] [B1 B2]. split; congruence. Qed.

Lemma filter_live_kill id l :
  filter le_live (map (kill_entry id) l) = filter (fun e => negb (Nat.eqb (le_id e) id)) (filter le_live l).
Proof.
  induction l as [|[mp i lv] l IH]; [reflexivity|]. cbn [map]. rewrite kill_entry_eq. cbn [filter le_live].
  destruct lv; cbn [andb]; [|exact IH].
  cbn [filter le_id]. destruct (negb (Nat.eqb i id)); cbn [le_live filter]; [f_equal|]; exact IH.
Qed.

Lemma same_live_step a b :
  same_live a b ->
  (forall mp id, same_live (mount_app a mp id) (mount_app b mp id)) /\
  (forall mp id, same_live (mount_legacy a mp id) (mount_legacy b mp id)) /\
  (forall id, same_live (kill a id) (kill b id)) /\
  (forall id, same_live (unmount a id) (unmount b id)).
Proof.
  intros [Ha Hl]. repeat split; intros; unfold mount_app, mount_legacy, kill, unmount; cbn [ps_apps ps_legacy]; try congruence.
  - rewrite !filter_app, Hl. reflexivity.
  - rewrite !filter_live_kill, Hl. reflexivity.
Qed.

Lemma run_same_live : forall ops a b, same_live a b -> run a ops = run_ref b ops.
Proof.
  induction ops as [|o ops IH]; intros a b R; [reflexivity|].
  destruct (same_live_step a b R) as (S1 & S2 & S3 & S4).
  destruct o as [mp id|mp id|id|id|h s p]; cbn [run run_ref].
  - apply IH, S1.
  - apply IH, S2.
  - apply IH, S3.
  - apply IH, S4.
  - destruct (lookup a h s p) as [r a'] eqn:E.
    assert (Hr : r = scan_apps (order a) h s p) by (rewrite <- lookup_fst, E; reflexivity).
    assert (Ha' : a' = match scan_apps (ps_apps a) h s p with Some _ => a | None => purge a end)
      by (rewrite <- lookup_snd, E; reflexivity).
    rewrite Hr, (same_live_order a b R). f_equal. apply IH.
    rewrite Ha'. destruct (scan_apps (ps_apps a) h s p); [exact R|].
    eapply same_live_trans; [apply same_live_purge | exact R].
Qed.

(* the answers along any history are those of the reference semantics: purging is unobservable *)
Theorem history_answers_ignore_purges ops st : run st ops = run_ref st ops.
Proof. apply run_same_live. split; reflexivity. Qed.

(* in the reference semantics (hence in the real one) every answer is the first match in the order of the state that the
   mounts, destructions and unmounts BEFORE it produced *)
Lemma run_ref_app : forall ops1 ops2 st, run_ref st (ops1 ++ ops2) = run_ref st ops1 ++ run_ref (state_after st ops1) ops2.
Proof.
  induction ops1 as [|o ops1 IH]; intros ops2 st; [reflexivity|].
  destruct o; cbn [List.app run_ref state_after]; try apply IH. rewrite IH. reflexivity.
Qed.

Theorem history_lookup_answer before h s p after st :
  run st (before ++ OLookup h s p :: after) =
  run st before ++ scan_apps (order (state_after st before)) h s p :: run (state_after st before) after.
Proof.
  rewrite !history_answers_ignore_purges, run_ref_app. cbn [run_ref]. reflexivity.
Qed.

(* the order after a history, spelled out: mounts append to their list, unmount removes the first entry of that pool from apps,
   destruction removes the entries of that application from the live legacy mounts *)
Lemma order_mount_app st mp id : order (mount_app st mp id) = ps_apps st ++ (mp, id) :: live_mounts (ps_legacy st).
Proof. unfold order, mount_app. cbn [ps_apps ps_legacy]. rewrite <- app_assoc. reflexivity. Qed.
Lemma order_unmount st id : order (unmount st id) = remove_first id (ps_apps st) ++ live_mounts (ps_legacy st).
Proof. reflexivity. Qed.
Lemma order_kill st id : order (kill st id) = ps_apps st ++ filter (other id) (live_mounts (ps_legacy st)).
Proof. unfold order, kill. cbn [ps_apps ps_legacy]. rewrite live_mounts_kill_eq. reflexivity. Qed.

Theorem order_of_operations st :
  (forall mp id, order (mount_app st mp id) = ps_apps st ++ (mp, id) :: live_mounts (ps_legacy st)) /\
  (forall mp id, order (mount_legacy st mp id) = order st ++ [(mp, id)]) /\
  (forall id, order (unmount st id) = remove_first id (ps_apps st) ++ live_mounts (ps_legacy st)) /\
  (forall id, order (kill st id) = ps_apps st ++ filter (other id) (live_mounts (ps_legacy st))) /\
  (forall h s p, order (snd (lookup st h s p)) = order st).
Proof.
  repeat split; intros.
  - apply order_mount_app.
  - apply order_mount_legacy.
  - apply order_kill.
  - apply order_after_lookup.
Qed.
