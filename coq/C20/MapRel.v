(* C20 proofs, part 7: relative mapper keys.  From a node F below a common ancestor A, the key
   ../../n1/.../nk/pagekey (one dot-dot per level between F and A, then the mount names from A down to N) is resolved by
   get_mapper_for_key to the mapper of N, and the url generated routes back from the root to the page. *)
From CppcmsV Require Import Base.Tac C20.Defs C20.Regex C20.Routes C20.Dispatch C20.Sites C20.Mapper C20.MapAbs.
Local Open Scope N_scope.

(* rchain a0 up0 n up names: n is reached from a0 (whose mapper-parent chain is up0) through the mounts `names` *)
Inductive rchain (a0 : site) (up0 : list (app * bytes)) : site -> list (app * bytes) -> list bytes -> Prop :=
| RC0 : rchain a0 up0 a0 up0 []
| RCS parent up names i x :
    rchain a0 up0 parent up names -> nth_error (site_subs parent) i = Some x ->
    rchain a0 up0 (snd x) ((build parent, sub_name x) :: up) (names ++ [sub_name x]).


Lemma rchain_chain root a0 up0 pre0 n up names :
  chain root a0 up0 pre0 -> rchain a0 up0 n up names -> exists pre, chain root n up pre.
Proof.
  intros H0 H. induction H as [|parent up names i x H IH Hn].
  - eauto.
  - destruct IH as [pre Hc]. eexists. eapply ChainSub; eassumption.
Qed.

Definition dd : bytes := [46; 46].

Lemma walk_up a0 up0 n up names rest : rchain a0 up0 n up names ->
  walk (build n, up) (repeat dd (length names) ++ rest) = walk (build a0, up0) rest.
Proof.
  intros H. induction H as [|parent up names i x H IH Hn].
  - reflexivity.
  - rewrite app_length. cbn [length]. rewrite Nat.add_1_r. cbn [repeat List.app walk].
    change (beq dd [46]) with false. change (beq dd [46; 46]) with true. cbn [go_parent snd]. exact IH.
Qed.

Definition rname_ok (n : bytes) : Prop := key_bad n = false /\ n <> [].

Lemma walk_down root a0 up0 pre0 n up names rest :
  site_wf root -> chain root a0 up0 pre0 -> rchain a0 up0 n up names -> Forall rname_ok names ->
  walk (build a0, up0) (names ++ rest) = walk (build n, up) rest.
Proof.
  intros Hr H0 H. revert rest. induction H as [|parent up names i x H IH Hn]; intros rest Hnames.
  - reflexivity.
  - apply Forall_app in Hnames. destruct Hnames as [Hn1 Hn2]. inversion Hn2 as [|nm l [Hkb _] _]; subst.
    rewrite <- app_assoc. rewrite (IH _ Hn1). cbn [List.app walk].
    destruct (rchain_chain root a0 up0 pre0 parent up names H0 H) as [pre Hc].
    pose proof (chain_wf _ _ _ _ Hr Hc) as Hw. inversion Hw as [pages subs Hnode Hsubs E]. rewrite <- E in *.
    cbn [site_subs] in Hn.
    destruct (key_bad_false _ Hkb) as (_ & _ & Hd & Hdd). rewrite Hd, Hdd.
    rewrite (go_child_mount pages subs up i x Hnode Hn). reflexivity.
Qed.

(* the relative key: m dot-dots, the names downwards, the page key *)
Definition rel_key (m : nat) (names : list bytes) (pk : bytes) : bytes := join47 (repeat dd m ++ names ++ [pk]).

Lemma join47_head_not_slash : forall l x, l = x :: tl l -> x <> [] -> no47 x = true ->
  exists c0 k, join47 l = c0 :: k /\ (c0 =? 47) = false.
Proof.
  intros l x El Hx H47. destruct x as [|c0 x']; [congruence|].
  unfold no47 in H47. cbn [forallb] in H47. apply andb_true_iff in H47. destruct H47 as [Hc _]. apply negb_true_iff in Hc.
  rewrite El. destruct (tl l); cbn [join47 List.app]; eauto.
Qed.

Theorem mapper_for_rel_key root a0 up0 pre0 from upf namesF node up names pg :
  site_wf root -> chain root a0 up0 pre0 ->
  rchain a0 up0 from upf namesF -> rchain a0 up0 node up names -> Forall rname_ok names ->
  In pg (site_pages node) -> (length namesF + length names > 0)%nat ->
  mapper_for_key (build from, upf) (rel_key (length namesF) names (page_key pg)) = Ok ((build node, up), page_key pg, []).
Proof.
  intros Hr H0 HF HN Hnames Hin Hpos.
  destruct (rchain_chain root a0 up0 pre0 node up names H0 HN) as [pre Hc].
  pose proof (chain_wf _ _ _ _ Hr Hc) as Hw. inversion Hw as [pages subs Hnode Hsubs E].
  rewrite <- E in *. cbn [site_pages] in Hin.
  assert (Hkb : key_bad (page_key pg) = false) by (destruct Hnode as (Hp & _); apply (Hp pg Hin)).
  destruct (key_bad_false _ Hkb) as (H47 & H59 & Hd & Hdd).
  set (chunks := repeat dd (length namesF) ++ names ++ [page_key pg]).
  assert (Hall : forall z, In z chunks -> no47 z = true).
  { intros z Hz. unfold chunks in Hz. apply in_app_or in Hz. destruct Hz as [Hz|Hz].
    - apply repeat_spec in Hz. subst. reflexivity.
    - apply in_app_or in Hz. destruct Hz as [Hz|[<-|[]]]; [|exact H47].
      rewrite Forall_forall in Hnames. apply key_bad_no47. apply (Hnames z Hz). }
  assert (Hhead : exists c0 k, join47 chunks = c0 :: k /\ (c0 =? 47) = false).
  { unfold chunks. destruct (length namesF) as [|m] eqn:Em.
    - destruct names as [|n0 names']; [cbn in Hpos; lia|].
      inversion Hnames as [|? ? [Hk0 Hne0] _]; subst.
      apply (join47_head_not_slash _ n0); [reflexivity | exact Hne0 | apply key_bad_no47; exact Hk0].
    - apply (join47_head_not_slash _ dd); [reflexivity | discriminate | reflexivity]. }
  destruct Hhead as (c0 & k & Ej & Hc0).
  unfold rel_key. fold chunks. unfold mapper_for_key. rewrite Ej, Hc0. cbn beta iota zeta. rewrite <- Ej.
  rewrite split_on_join; [| | exact Hall].
  2:{ unfold chunks. intros X. apply app_eq_nil in X. destruct X as [_ X]. apply app_eq_nil in X. destruct X as [_ X]. discriminate. }
  unfold chunks. rewrite app_assoc, removelast_last, last_last.
  rewrite (walk_up a0 up0 from upf namesF names HF).
  rewrite <- (app_nil_r names) at 1. rewrite (walk_down root a0 up0 pre0 _ up names [] Hr H0 HN Hnames).
  cbn [walk]. rewrite (cut_at_none 59 _ H59). rewrite Hd, Hdd. cbn [fst].
  rewrite (child_of_page pages subs pg Hnode Hin). reflexivity.
Qed.

Theorem map_dispatch_rel root a0 up0 pre0 from upf namesF node up names pg ps vals c pre :
  site_wf root -> chain root a0 up0 pre0 ->
  rchain a0 up0 from upf namesF -> rchain a0 up0 node up names -> Forall rname_ok names ->
  chain root node up pre ->
  In pg (site_pages node) -> (length namesF + length names > 0)%nat ->
  params_okb (page_route pg) ps = true ->
  reach root (pre ++ route_fill (page_route pg) ps) (snd pg) ps ->
  exists url, real_map (build from, upf) vals (rel_key (length namesF) names (page_key pg)) ps = Ok url /\
              dispatch (build root) url c = Fired (snd pg) ps.
Proof.
  intros Hr H0 HF HN Hnames Hc Hin Hpos Hps Hreach.
  destruct (site_map_dispatch root node up pre pg ps vals [] c Hr Hc Hin Hps Hreach) as (url & Hm & Hd).
  exists url. split; [|exact Hd].
  unfold real_map. rewrite (mapper_for_rel_key root a0 up0 pre0 from upf namesF node up names pg Hr H0 HF HN Hnames Hin Hpos).
  cbn [length Nat.ltb Nat.leb skipn zip_kw fst snd]. destruct (length ps); exact Hm.
Qed.
