(* C20 proofs, part 13: the bare path of a mounted child.  A relative key whose FINAL component is the name of a
   mounted application (../../n1/.../nk, no trailing slash) is resolved by get_mapper_for_key through is_app to the
   mapper of that child with the empty key, i.e. it names the default page of the child. *)
From CppcmsV Require Import Base.Tac C20.Defs C20.Regex C20.Routes C20.Dispatch C20.Sites C20.Mapper C20.MapAbs C20.MapRel.
Local Open Scope N_scope.

Lemma child_of_mount pages subs i x : node_wf pages subs -> nth_error subs i = Some x ->
  child_of (tbl (build (Site pages subs))) (sub_name x) = Some i.
Proof.
  intros Hwf Hn. rewrite (tbl_build _ _ Hwf). destruct Hwf as (_ & _ & _ & Hk & Hnd).
  unfold child_of. rewrite (find_unique _ _ (mount_te i x)); [reflexivity | | |].
  - apply in_or_app. left. apply in_rev. rewrite rev_involutive. apply (mount_tes_nth subs 0 i x Hn).
  - cbn [mount_te t_key]. apply beq_refl.
  - intros y Hy Hf1. apply beq_eq in Hf1.
    apply in_app_or in Hy. destruct Hy as [Hy|Hy].
    + apply in_rev in Hy. apply mount_tes_in in Hy. destruct Hy as (j & z & Hj & ->).
      cbn [mount_te t_key Nat.add] in *.
      assert (j = i).
      { rewrite NoDup_nth_error in Hnd. apply Hnd.
        - rewrite map_length. apply nth_error_Some. congruence.
        - rewrite !nth_error_map, Hj, Hn. cbn [option_map]. f_equal. exact Hf1. }
      subst j. congruence.
    + apply in_rev in Hy. apply in_map_iff in Hy. destruct Hy as (pg & <- & Hpg).
      cbn [page_te t_key] in Hf1. exfalso. apply (Hk x pg); [eapply nth_error_In; eassumption | exact Hpg | exact Hf1].
Qed.

Definition bare_key (m : nat) (names : list bytes) (last : bytes) : bytes := join47 (repeat dd m ++ names ++ [last]).

Theorem mapper_for_bare_path root a0 up0 pre0 from upf namesF parent upP namesP i x :
  site_wf root -> chain root a0 up0 pre0 ->
  rchain a0 up0 from upf namesF -> rchain a0 up0 parent upP namesP ->
  Forall rname_ok namesP -> rname_ok (sub_name x) -> nth_error (site_subs parent) i = Some x ->
  mapper_for_key (build from, upf) (bare_key (length namesF) namesP (sub_name x)) =
  Ok ((build (snd x), (build parent, sub_name x) :: upP), [], []).
Proof.
  intros Hr H0 HF HN Hnames [Hkb Hxne] Hn.
  destruct (rchain_chain root a0 up0 pre0 parent upP namesP H0 HN) as [pre Hc].
  pose proof (chain_wf _ _ _ _ Hr Hc) as Hw. inversion Hw as [pages subs Hnode Hsubs E].
  rewrite <- E in *. cbn [site_subs] in Hn.
  destruct (key_bad_false _ Hkb) as (H47 & H59 & Hd & Hdd).
  set (chunks := repeat dd (length namesF) ++ namesP ++ [sub_name x]).
  assert (Hall : forall z, In z chunks -> no47 z = true).
  { intros z Hz. unfold chunks in Hz. apply in_app_or in Hz. destruct Hz as [Hz|Hz].
    - apply repeat_spec in Hz. subst. reflexivity.
    - apply in_app_or in Hz. destruct Hz as [Hz|[<-|[]]]; [|exact H47].
      rewrite Forall_forall in Hnames. apply key_bad_no47. apply (Hnames z Hz). }
  assert (Hhead : exists c0 k, join47 chunks = c0 :: k /\ (c0 =? 47) = false).
  { unfold chunks. destruct (length namesF) as [|m] eqn:Em.
    - destruct namesP as [|n0 names'].
      + apply (join47_head_not_slash _ (sub_name x)); [reflexivity | exact Hxne | exact H47].
      + inversion Hnames as [|? ? [Hk0 Hne0] _]; subst.
        apply (join47_head_not_slash _ n0); [reflexivity | exact Hne0 | apply key_bad_no47; exact Hk0].
    - apply (join47_head_not_slash _ dd); [reflexivity | discriminate | reflexivity]. }
  destruct Hhead as (c0 & k & Ej & Hc0).
  unfold bare_key. fold chunks. unfold mapper_for_key. rewrite Ej, Hc0. cbn beta iota zeta. rewrite <- Ej.
  rewrite split_on_join; [| | exact Hall].
  2:{ unfold chunks. intros X. apply app_eq_nil in X. destruct X as [_ X]. apply app_eq_nil in X. destruct X as [_ X]. discriminate. }
  unfold chunks. rewrite app_assoc, removelast_last, last_last.
  rewrite (walk_up a0 up0 from upf namesF namesP HF).
  rewrite <- (app_nil_r namesP) at 1. rewrite (walk_down root a0 up0 pre0 _ upP namesP [] Hr H0 HN Hnames).
  cbn [walk]. rewrite (cut_at_none 59 _ H59). rewrite Hd, Hdd. cbn [fst snd].
  rewrite (child_of_mount pages subs i x Hnode Hn). rewrite build_kids, nth_error_map, Hn. reflexivity.
Qed.

(* map_dispatch through the bare path: it generates the url of the child's default page (the page with the empty key) *)
Theorem map_dispatch_bare root a0 up0 pre0 from upf namesF parent upP namesP i x pg ps vals c pre :
  site_wf root -> chain root a0 up0 pre0 ->
  rchain a0 up0 from upf namesF -> rchain a0 up0 parent upP namesP ->
  Forall rname_ok namesP -> rname_ok (sub_name x) -> nth_error (site_subs parent) i = Some x ->
  chain root (snd x) ((build parent, sub_name x) :: upP) pre ->
  In pg (site_pages (snd x)) -> page_key pg = [] ->
  params_okb (page_route pg) ps = true ->
  reach root (pre ++ route_fill (page_route pg) ps) (snd pg) ps ->
  exists url, real_map (build from, upf) vals (bare_key (length namesF) namesP (sub_name x)) ps = Ok url /\
              dispatch (build root) url c = Fired (snd pg) ps.
Proof.
  intros Hr H0 HF HN Hnames Hx Hn Hc Hin Hk Hps Hreach.
  destruct (site_map_dispatch root (snd x) _ pre pg ps vals [] c Hr Hc Hin Hps Hreach) as (url & Hm & Hd).
  exists url. split; [|exact Hd].
  unfold real_map. rewrite (mapper_for_bare_path root a0 up0 pre0 from upf namesF parent upP namesP i x Hr H0 HF HN Hnames Hx Hn).
  cbn [length Nat.ltb Nat.leb skipn zip_kw fst snd]. rewrite Hk in Hm. destruct (length ps); exact Hm.
Qed.

(* ---------- instance: the key c, used on the root mapper, names the default page of the child mounted as c ---------- *)
From CppcmsV Require Import C20.Examples.
Definition bx_leaf : site := Site [([], [RLit [47]; RPar cs_digits true], 1)] [].
Definition bx_sub : bytes * bytes * site := ([99], [47; 99], bx_leaf).
Definition bx_root : site := Site [([104], [RLit [47]], 2)] [bx_sub].
Definition bx_page : bytes * route * N := ([], [RLit [47]; RPar cs_digits true], 1).

Lemma bx_leaf_wf : site_wf bx_leaf.
Proof.
  constructor; [|intros x []]. apply ex_node_wf.
  - intros pg H. in_cases; repeat split; try (vm_compute; reflexivity); cbn; lia.
  - intros pg pg' H H'. in_cases; reflexivity.
  - intros x [].
  - intros x pg [].
  - constructor.
Qed.
Lemma bx_root_wf : site_wf bx_root.
Proof.
  constructor; [|intros x H; in_cases; exact bx_leaf_wf]. apply ex_node_wf.
  - intros pg H. in_cases; repeat split; try (vm_compute; reflexivity); cbn; lia.
  - intros pg pg' H H'. in_cases; reflexivity.
  - intros x H. in_cases. reflexivity.
  - intros x pg H H'. in_cases; discriminate.
  - repeat constructor. intros [].
Qed.
Lemma bx_chain : chain bx_root (snd bx_sub) ((build bx_root, sub_name bx_sub) :: []) ([] ++ sub_prefix bx_sub).
Proof. exact (ChainSub bx_root bx_root [] [] 0%nat bx_sub (ChainRoot bx_root) eq_refl). Qed.
Lemma bx_reach : reach bx_root (([] ++ sub_prefix bx_sub) ++ route_fill (page_route bx_page) [[55]]) (snd bx_page) [[55]].
Proof.
  change (([] ++ sub_prefix bx_sub) ++ route_fill (page_route bx_page) [[55]])
    with ([47; 99] ++ route_fill (page_route bx_page) [[55]]).
  eapply (ReachSub _ _ 0%nat [99] [47; 99] bx_leaf); [reflexivity | | discriminate | reflexivity | | ].
  - eapply (ReachPage _ _ 0%nat []); [reflexivity | reflexivity | reflexivity |]. intros j pg Hj. inversion Hj.
  - intros pg H. in_cases; reflexivity.
  - intros j x Hj. inversion Hj.
Qed.
Example bare_path_instance :
  site_wf bx_root /\ chain bx_root bx_root [] [] /\ rchain bx_root [] bx_root [] [] /\
  Forall rname_ok [] /\ rname_ok (sub_name bx_sub) /\ nth_error (site_subs bx_root) 0 = Some bx_sub /\
  chain bx_root (snd bx_sub) ((build bx_root, sub_name bx_sub) :: []) ([] ++ sub_prefix bx_sub) /\
  In bx_page (site_pages (snd bx_sub)) /\ page_key bx_page = [] /\ params_okb (page_route bx_page) [[55]] = true /\
  reach bx_root (([] ++ sub_prefix bx_sub) ++ route_fill (page_route bx_page) [[55]]) (snd bx_page) [[55]] /\
  bare_key 0 [] (sub_name bx_sub) = [99] /\
  real_map (build bx_root, []) [] [99] [[55]] = Ok [47; 99; 47; 55] /\
  dispatch (build bx_root) [47; 99; 47; 55] None = Fired 1 [[55]].
Proof.
  split; [exact bx_root_wf|]. split; [constructor|]. split; [constructor|]. split; [constructor|].
  split; [split; [reflexivity | discriminate]|]. split; [reflexivity|]. split; [exact bx_chain|].
  split; [left; reflexivity|]. split; [reflexivity|]. split; [reflexivity|]. split; [exact bx_reach|].
  vm_compute. repeat split; reflexivity.
Qed.
