(* C20 proofs, part 21: declarative specification of the integer parameter conversion (parse_num = istream >> T with
   everything consumed): the accepted texts are exactly  white-space* sign? digit+  and the value is determined by the
   sign, the digits and the type. *)
From CppcmsV Require Import Base.Tac C20.Defs.
Local Open Scope N_scope.

Lemma skip_ws_split s : exists ws, s = ws ++ skip_ws s /\ forallb is_space ws = true.
Proof.
  induction s as [|c s IH]; [exists []; split; reflexivity|].
  cbn [skip_ws]. destruct (is_space c) eqn:Ec.
  - destruct IH as (ws & E & Hw). exists (c :: ws). split; [cbn; rewrite <- E; reflexivity | cbn; rewrite Ec; exact Hw].
  - exists []. split; reflexivity.
Qed.

Lemma skip_ws_app ws r : forallb is_space ws = true ->
  match r with [] => True | c :: _ => is_space c = false end -> skip_ws (ws ++ r) = r.
Proof.
  intros Hw Hr. induction ws as [|w ws IH].
  - cbn. destruct r as [|c r]; [reflexivity|]. cbn [skip_ws]. rewrite Hr. reflexivity.
  - cbn in Hw. apply andb_true_iff in Hw. destruct Hw as [Hw1 Hw2]. cbn [List.app skip_ws]. rewrite Hw1. apply IH. exact Hw2.
Qed.

Lemma digit_facts c : dec_digit c = true -> is_space c = false /\ (c =? 45) = false /\ (c =? 43) = false.
Proof.
  unfold dec_digit, is_space. intros H. apply andb_true_iff in H. destruct H as [H1 H2].
  apply N.leb_le in H1. apply N.leb_le in H2.
  repeat split.
  - apply orb_false_iff. split; [apply andb_false_iff; right; apply N.leb_gt; lia | apply N.eqb_neq; lia].
  - apply N.eqb_neq; lia.
  - apply N.eqb_neq; lia.
Qed.

(* s = white space, optional sign (neg tells which), digits ds *)
Definition num_text (neg : bool) (ds s : bytes) : Prop :=
  exists ws sg, s = ws ++ sg ++ ds /\ forallb is_space ws = true /\
                ((neg = true /\ sg = [45]) \/ (neg = false /\ (sg = [] \/ sg = [43]))) /\
                ds <> [] /\ forallb dec_digit ds = true.

Definition num_value (t : numty) (neg : bool) (ds : bytes) (z : Z) : Prop :=
  let v := Z.of_N (dec_val ds) in
  if nt_signed t then
    z = (if neg then (- v)%Z else v) /\ (- 2 ^ (nt_bits t - 1) <= z <= 2 ^ (nt_bits t - 1) - 1)%Z
  else
    (v <= 2 ^ nt_bits t - 1)%Z /\ z = (if neg then ((2 ^ nt_bits t - v) mod 2 ^ nt_bits t)%Z else v).

Lemma parse_num_split s :
  let r := match skip_ws s with
           | [] => (false, skip_ws s)
           | c :: t0 => if c =? 45 then (true, t0) else if c =? 43 then (false, t0) else (false, skip_ws s)
           end in
  is_nil (snd r) = false -> forallb dec_digit (snd r) = true -> num_text (fst r) (snd r) s.
Proof.
  cbn zeta. destruct (skip_ws_split s) as (ws & E & Hw).
  destruct (skip_ws s) as [|c t0] eqn:Es; [cbn; discriminate|].
  destruct (c =? 45) eqn:E45; [|destruct (c =? 43) eqn:E43]; cbn [fst snd]; intros Hn Hd.
  - apply N.eqb_eq in E45. subst c. exists ws, [45]. split; [exact E|]. split; [exact Hw|]. split; [left; auto|].
    split; [destruct t0; [discriminate | discriminate] | exact Hd].
  - apply N.eqb_eq in E43. subst c. exists ws, [43]. split; [exact E|]. split; [exact Hw|]. split; [right; auto|].
    split; [destruct t0; [discriminate | discriminate] | exact Hd].
  - exists ws, []. split; [exact E|]. split; [exact Hw|]. split; [right; auto|]. split; [discriminate | exact Hd].
Qed.

Lemma parse_num_of_text t neg ds s :
  num_text neg ds s ->
  parse_num t s =
  let v := Z.of_N (dec_val ds) in
  if nt_signed t then
    let z := if neg then (- v)%Z else v in
    if ((z <? - 2 ^ (nt_bits t - 1)) || (2 ^ (nt_bits t - 1) - 1 <? z))%Z then None else Some z
  else
    if (2 ^ nt_bits t - 1 <? v)%Z then None
    else Some (if neg then ((2 ^ nt_bits t - v) mod 2 ^ nt_bits t)%Z else v).
Proof.
  intros (ws & sg & -> & Hw & Hs & Hne & Hd).
  destruct ds as [|d ds]; [congruence|].
  assert (Hd0 : dec_digit d = true) by (cbn in Hd; apply andb_true_iff in Hd; tauto).
  destruct (digit_facts d Hd0) as (Hsp & H45 & H43).
  unfold parse_num.
  destruct Hs as [[-> ->] | [-> [-> | ->]]].
  - rewrite skip_ws_app; [|exact Hw | reflexivity]. cbn [List.app]. rewrite N.eqb_refl. cbn [is_nil]. rewrite Hd. reflexivity.
  - rewrite skip_ws_app; [|exact Hw | exact Hsp]. cbn [List.app]. rewrite H45, H43. cbn [is_nil]. rewrite Hd. reflexivity.
  - rewrite skip_ws_app; [|exact Hw | reflexivity]. cbn [List.app].
    replace (43 =? 45) with false by reflexivity. rewrite N.eqb_refl. cbn [is_nil]. rewrite Hd. reflexivity.
Qed.

Theorem parse_num_spec t s z :
  parse_num t s = Some z <-> exists neg ds, num_text neg ds s /\ num_value t neg ds z.
Proof.
  split.
  - intros H. pose proof (parse_num_split s) as Hs. cbn zeta in Hs. unfold parse_num in H.
    destruct (match skip_ws s with
              | [] => (false, skip_ws s)
              | c :: t0 => if c =? 45 then (true, t0) else if c =? 43 then (false, t0) else (false, skip_ws s)
              end) as [neg ds].
    cbn [fst snd] in Hs. destruct (is_nil ds) eqn:En; [discriminate|].
    destruct (forallb dec_digit ds) eqn:Ed; [|discriminate]. cbn [negb] in H.
    exists neg, ds. split; [apply Hs; reflexivity|]. unfold num_value. cbn zeta.
    destruct (nt_signed t).
    + destruct ((((if neg then - Z.of_N (dec_val ds) else Z.of_N (dec_val ds)) <? - 2 ^ (nt_bits t - 1))
                 || (2 ^ (nt_bits t - 1) - 1 <? (if neg then - Z.of_N (dec_val ds) else Z.of_N (dec_val ds))))%Z) eqn:E; [discriminate|].
      injection H as <-. apply orb_false_iff in E. destruct E as [E1 E2]. apply Z.ltb_ge in E1. apply Z.ltb_ge in E2.
      split; [reflexivity | lia].
    + destruct (2 ^ nt_bits t - 1 <? Z.of_N (dec_val ds))%Z eqn:E; [discriminate|]. apply Z.ltb_ge in E.
      injection H as <-. split; [exact E | reflexivity].
  - intros (neg & ds & Ht & Hv). rewrite (parse_num_of_text t neg ds s Ht). cbn zeta. unfold num_value in Hv. cbn zeta in Hv.
    destruct (nt_signed t).
    + destruct Hv as [-> Hr].
      destruct ((((if neg then - Z.of_N (dec_val ds) else Z.of_N (dec_val ds)) <? - 2 ^ (nt_bits t - 1))
                 || (2 ^ (nt_bits t - 1) - 1 <? (if neg then - Z.of_N (dec_val ds) else Z.of_N (dec_val ds))))%Z) eqn:E; [|reflexivity].
      apply orb_true_iff in E. destruct E as [E|E]; apply Z.ltb_lt in E; lia.
    + destruct Hv as [Hr ->]. destruct (2 ^ nt_bits t - 1 <? Z.of_N (dec_val ds))%Z eqn:E; [apply Z.ltb_lt in E; lia | reflexivity].
Qed.

(* the text of a number determines sign and digits: two readings of the same string coincide *)
Theorem num_text_unique neg1 ds1 neg2 ds2 s : num_text neg1 ds1 s -> num_text neg2 ds2 s -> neg1 = neg2 /\ ds1 = ds2.
Proof.
  intros H1 H2.
  pose proof (parse_num_of_text TULLong neg1 ds1 s H1) as P1.
  pose proof (parse_num_split s) as Hs. cbn zeta in Hs.
  assert (G : forall neg ds, num_text neg ds s ->
              (neg, ds) = match skip_ws s with
                          | [] => (false, skip_ws s)
                          | c :: t0 => if c =? 45 then (true, t0) else if c =? 43 then (false, t0) else (false, skip_ws s)
                          end).
  { clear. intros neg ds (ws & sg & -> & Hw & Hsg & Hne & Hd).
    destruct ds as [|d ds]; [congruence|].
    assert (Hd0 : dec_digit d = true) by (cbn in Hd; apply andb_true_iff in Hd; tauto).
    destruct (digit_facts d Hd0) as (Hsp & H45 & H43).
    destruct Hsg as [[-> ->] | [-> [-> | ->]]].
    - rewrite skip_ws_app; [|exact Hw | reflexivity]. cbn [List.app]. rewrite N.eqb_refl. reflexivity.
    - rewrite skip_ws_app; [|exact Hw | exact Hsp]. cbn [List.app]. rewrite H45, H43. reflexivity.
    - rewrite skip_ws_app; [|exact Hw | reflexivity]. cbn [List.app]. replace (43 =? 45) with false by reflexivity.
      rewrite N.eqb_refl. reflexivity. }
  pose proof (G _ _ H1) as E1. pose proof (G _ _ H2) as E2. rewrite <- E2 in E1. injection E1 as -> ->. split; reflexivity.
Qed.
