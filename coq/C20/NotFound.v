(* C20 proofs, part 15: complete characterisation of the 404 outcome over application trees: a request ends in
   not-found iff, following the first option that takes it at every level (necessarily mounts), a level is reached at
   which NO option takes the request. *)
From CppcmsV Require Import Base.Tac C20.Defs C20.Regex C20.Routes C20.Dispatch C20.Routed.
Local Open Scope N_scope.

Inductive notfound : app -> bytes -> ctx -> Prop :=
| NfHere a url c :
    (forall o, In o (app_opts a) -> try_opt (kid_fns (app_kids a)) o url c = None) -> notfound a url c
| NfKid a i p sel k kid url m gs :
    nth_error (app_opts a) i = Some (DM p sel k) ->
    earlier_decline a i url (Some m) ->
    lang (pat_re p) url -> pat_match p url = Some gs ->
    nth_error (app_kids a) k = Some kid ->
    notfound kid (grp gs sel) (Some m) ->
    notfound a url (Some m).

Lemma finish404_notfound c o : finish404 c o = NotFound <-> o = NotFound /\ exists m, c = Some m.
Proof.
  destruct o; cbn [finish404]; split; try discriminate; try (intros [H _]; discriminate).
  - destruct c as [m|]; [eauto | discriminate].
  - intros [_ [m ->]]. reflexivity.
Qed.

Theorem dispatch_notfound : forall a url c, dispatch a url c = NotFound -> notfound a url c.
Proof.
  induction a as [opts ments kids root IH] using app_ind'. intros url c Hd.
  rewrite dispatch_unfold in Hd.
  destruct (scan_first_match (kid_fns kids) opts url c) as [(i & o & out & Hn & Ht & Hb & Hs) | [Hall _]].
  - rewrite Hs in Hd. subst out. destruct o as [k p mf h sel|p sel k].
    + apply handler_fires_iff in Ht. destruct Ht as (gs & args & _ & _ & Ef & _). discriminate.
    + apply mount_takes_iff in Ht. destruct Ht as (gs & E & Ef).
      destruct (nth_error kids k) as [kid|] eqn:Ek; [|discriminate].
      symmetry in Ef. apply finish404_notfound in Ef. destruct Ef as [Ef [m ->]].
      eapply (NfKid (App opts ments kids root) i p sel k kid url m gs);
        [exact Hn | exact Hb | eapply pat_match_whole; eassumption | exact E | exact Ek |].
      rewrite Forall_forall in IH. apply IH; [eapply nth_error_In; eassumption | exact Ef].
  - apply NfHere. exact Hall.
Qed.

Theorem notfound_dispatch : forall a url c, notfound a url c -> dispatch a url c = NotFound.
Proof.
  induction 1 as [a url c Hall | a i p sel k kid url m gs Hn Hb Hl E Ek Hr IH].
  - rewrite dispatch_unfold'. apply scan_none_not_found. exact Hall.
  - rewrite dispatch_unfold'. eapply scan_at; [exact Hn | exact Hb |].
    apply mount_takes_iff. exists gs. split; [exact E|]. rewrite Ek, IH. reflexivity.
Qed.

(* application::main answers 404 (with a request context) exactly in these cases *)
Theorem main_notfound_iff a url m : app_main a url (Some m) = NotFound <-> notfound a url (Some m).
Proof.
  unfold app_main. rewrite finish404_notfound. split.
  - intros [H _]. apply dispatch_notfound. exact H.
  - intros H. split; [apply notfound_dispatch; exact H | eauto].
Qed.
