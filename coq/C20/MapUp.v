(* C20 proofs, part 17: a key that ends in a dot-dot component (.., ../.., ...) names the default page (empty key) of the
   ancestor that many levels up. *)
From CppcmsV Require Import Base.Tac C20.Defs C20.Regex C20.Routes C20.Dispatch C20.Sites C20.Mapper C20.MapAbs C20.MapRel.
Local Open Scope N_scope.

Lemma child_of_empty_key pages subs : node_wf pages subs -> (forall x, In x subs -> sub_name x <> []) ->
  child_of (tbl (build (Site pages subs))) [] = None.
Proof.
  intros Hwf Hne. rewrite (tbl_build _ _ Hwf). apply child_of_none. intros y Hy Hb. apply beq_eq in Hb.
  apply in_app_or in Hy. destruct Hy as [Hy|Hy].
  - apply in_rev in Hy. apply mount_tes_in in Hy. destruct Hy as (j & x & Hj & ->).
    cbn [mount_te t_key] in Hb. exfalso. apply (Hne x); [eapply nth_error_In; eassumption | exact Hb].
  - apply in_rev in Hy. apply in_map_iff in Hy. destruct Hy as (pg & <- & _). reflexivity.
Qed.

Lemma repeat_snoc {A} (x : A) n : repeat x (S n) = repeat x n ++ [x].
Proof. induction n as [|n IH]; [reflexivity|]. cbn [repeat List.app] in *. rewrite <- IH. reflexivity. Qed.

Lemma no47_dd : no47 dd = true.
Proof. reflexivity. Qed.

Theorem mapper_for_up_key root a0 up0 pre0 from upf namesF :
  site_wf root -> chain root a0 up0 pre0 -> rchain a0 up0 from upf namesF -> namesF <> [] ->
  (forall x, In x (site_subs a0) -> sub_name x <> []) ->
  mapper_for_key (build from, upf) (join47 (repeat dd (length namesF))) = Ok ((build a0, up0), [], []).
Proof.
  intros Hr H0 HF Hne Hsub.
  pose proof (chain_wf _ _ _ _ Hr H0) as Hw. inversion Hw as [pages subs Hnode Hsubs E]. rewrite <- E in *.
  cbn [site_subs] in Hsub.
  destruct (length namesF) as [|m] eqn:Em; [destruct namesF; [congruence | discriminate]|].
  assert (Hwalk : walk (build from, upf) (repeat dd (S m)) = Ok (build (Site pages subs), up0)).
  { rewrite <- Em. rewrite <- (app_nil_r (repeat dd (length namesF))). rewrite (walk_up _ _ _ _ _ [] HF). reflexivity. }
  assert (Hall : forall z, In z (repeat dd (S m)) -> no47 z = true).
  { intros z Hz. apply repeat_spec in Hz. subst. reflexivity. }
  assert (Hhead : exists c0 k, join47 (repeat dd (S m)) = c0 :: k /\ (c0 =? 47) = false).
  { apply (join47_head_not_slash _ dd); [reflexivity | discriminate | reflexivity]. }
  destruct Hhead as (c0 & k & Ej & Hc0).
  unfold mapper_for_key. rewrite Ej, Hc0. cbn beta iota zeta. rewrite <- Ej.
  rewrite split_on_join; [| discriminate | exact Hall].
  rewrite repeat_snoc in *. rewrite removelast_last, last_last.
  rewrite walk_app in Hwalk.
  destruct (walk (build from, upf) (repeat dd m)) as [l1|e]; [|discriminate].
  cbn [walk] in Hwalk. change (beq dd [46]) with false in Hwalk. change (beq dd [46; 46]) with true in Hwalk. cbv iota in Hwalk.
  change (cut_at 59 dd) with (dd, @None bytes). cbv iota beta.
  change (beq dd [46]) with false. change (beq dd [46; 46]) with true. cbv iota.
  destruct (go_parent l1) as [l2|e]; [|discriminate].
  assert (El2 : l2 = (build (Site pages subs), up0)) by (injection Hwalk as H; exact H).
  rewrite El2. cbn [fst].
  rewrite (child_of_empty_key pages subs Hnode Hsub). reflexivity.
Qed.

Theorem map_dispatch_up root a0 up0 pre0 from upf namesF pg ps vals c :
  site_wf root -> chain root a0 up0 pre0 -> rchain a0 up0 from upf namesF -> namesF <> [] ->
  (forall x, In x (site_subs a0) -> sub_name x <> []) ->
  In pg (site_pages a0) -> page_key pg = [] ->
  params_okb (page_route pg) ps = true ->
  reach root (pre0 ++ route_fill (page_route pg) ps) (snd pg) ps ->
  exists url, real_map (build from, upf) vals (join47 (repeat dd (length namesF))) ps = Ok url /\
              dispatch (build root) url c = Fired (snd pg) ps.
Proof.
  intros Hr H0 HF Hne Hsub Hin Hk Hps Hreach.
  destruct (site_map_dispatch root a0 up0 pre0 pg ps vals [] c Hr H0 Hin Hps Hreach) as (url & Hm & Hd).
  exists url. split; [|exact Hd].
  unfold real_map. rewrite (mapper_for_up_key root a0 up0 pre0 from upf namesF Hr H0 HF Hne Hsub).
  cbn [length Nat.ltb Nat.leb skipn zip_kw fst snd]. rewrite Hk in Hm. destruct (length ps); exact Hm.
Qed.

(* ---------- instance: .. used on a child names the default page of the root ---------- *)
From CppcmsV Require Import C20.Examples.
Definition ux_leaf : site := Site [([113], [RLit [47; 113]], 8)] [].
Definition ux_sub : bytes * bytes * site := ([99], [47; 99], ux_leaf).
Definition ux_page : bytes * route * N := ([], [RLit [47; 104; 47]; RPar cs_digits true], 9).
Definition ux_root : site := Site [ux_page] [ux_sub].
Lemma ux_leaf_wf : site_wf ux_leaf.
Proof.
  constructor; [|intros x []]. apply ex_node_wf.
  - intros pg H. in_cases; repeat split; try (vm_compute; reflexivity); cbn; lia.
  - intros pg pg' H H'. in_cases; reflexivity.
  - intros x [].
  - intros x pg [].
  - constructor.
Qed.
Lemma ux_root_wf : site_wf ux_root.
Proof.
  constructor; [|intros x H; in_cases; exact ux_leaf_wf]. apply ex_node_wf.
  - intros pg H. in_cases; repeat split; try (vm_compute; reflexivity); cbn; lia.
  - intros pg pg' H H'. in_cases; reflexivity.
  - intros x H. in_cases. reflexivity.
  - intros x pg H H'. in_cases; discriminate.
  - repeat constructor. intros [].
Qed.
Lemma ux_rchain : rchain ux_root [] ux_leaf [(build ux_root, [99])] [[99]].
Proof. exact (RCS ux_root [] ux_root [] [] 0%nat ux_sub (RC0 ux_root []) eq_refl). Qed.
Lemma ux_reach : reach ux_root ([] ++ route_fill (page_route ux_page) [[55]]) (snd ux_page) [[55]].
Proof.
  eapply (ReachPage _ _ 0%nat []); [reflexivity | reflexivity | reflexivity |]. intros j pg Hj. inversion Hj.
Qed.
Example up_key_instance :
  site_wf ux_root /\ chain ux_root ux_root [] [] /\ rchain ux_root [] ux_leaf [(build ux_root, [99])] [[99]] /\
  (forall x, In x (site_subs ux_root) -> sub_name x <> []) /\ In ux_page (site_pages ux_root) /\ page_key ux_page = [] /\
  params_okb (page_route ux_page) [[55]] = true /\
  reach ux_root ([] ++ route_fill (page_route ux_page) [[55]]) (snd ux_page) [[55]] /\
  join47 (repeat dd (length [[99]])) = [46; 46] /\
  real_map (build ux_leaf, [(build ux_root, [99])]) [] [46; 46] [[55]] = Ok [47; 104; 47; 55] /\
  dispatch (build ux_root) [47; 104; 47; 55] None = Fired 9 [[55]].
Proof.
  split; [exact ux_root_wf|]. split; [constructor|]. split; [exact ux_rchain|].
  split; [intros x H; cbn in H; destruct H as [<-|[]]; intros E; vm_compute in E; discriminate|]. split; [left; reflexivity|]. split; [reflexivity|]. split; [reflexivity|].
  split; [exact ux_reach|]. vm_compute. repeat split; reflexivity.
Qed.
