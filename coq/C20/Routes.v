(* C20 proofs, part 2: the route family.  The linear capture-extracting matcher route_match returns exactly
   the parse of the whole string: sound for every route, complete and unique for routes with unambiguous
   parameter boundaries (route_ok); and it agrees with the declarative language of the printed regex. *)
From CppcmsV Require Import Base.Tac C20.Defs C20.Regex.
Local Open Scope N_scope.

Definition starts_outside (cs : cset) (rest : bytes) : Prop :=
  match rest with [] => True | c :: _ => cmem cs c = false end.

Lemma span_spec cs : forall s a b, span cs s = (a, b) ->
  s = a ++ b /\ forallb (cmem cs) a = true /\ starts_outside cs b.
Proof.
  induction s as [|c s IH]; intros a b H; cbn [span] in H.
  - injection H as <- <-. cbn. auto.
  - destruct (cmem cs c) eqn:Hc.
    + destruct (span cs s) as [a' b'] eqn:E. injection H as <- <-.
      destruct (IH a' b' eq_refl) as (E1 & E2 & E3). subst s. cbn [List.app forallb]. rewrite Hc, E2. auto.
    + injection H as <- <-. cbn. auto.
Qed.

Lemma span_app cs : forall p rest, forallb (cmem cs) p = true -> starts_outside cs rest ->
  span cs (p ++ rest) = (p, rest).
Proof.
  induction p as [|c p IH]; intros rest Hp Hr.
  - cbn [List.app]. destruct rest as [|c rest]; cbn [span]; [reflexivity|].
    cbn in Hr. rewrite Hr. reflexivity.
  - cbn [forallb] in Hp. apply andb_true_iff in Hp. destruct Hp as [Hc Hp].
    cbn [List.app span]. rewrite Hc, (IH rest Hp Hr). reflexivity.
Qed.

Lemma strip_prefix_spec : forall p s s', strip_prefix p s = Some s' <-> s = p ++ s'.
Proof.
  induction p as [|x p IH]; intros s s'; cbn [strip_prefix List.app].
  - split; [intros H; injection H as ->; reflexivity | intros ->; reflexivity].
  - destruct s as [|y s].
    + split; [discriminate | discriminate].
    + destruct (N.eqb_spec x y) as [->|Hne].
      * rewrite IH. split; [intros ->; reflexivity | intros H; injection H as ->; reflexivity].
      * split; [discriminate | intros H; injection H as -> _; congruence].
Qed.

Lemma strip_prefix_app p s : strip_prefix p (p ++ s) = Some s.
Proof. apply strip_prefix_spec. reflexivity. Qed.

Lemma is_nil_true {A} (l : list A) : is_nil l = true <-> l = [].
Proof. destruct l; cbn; split; congruence. Qed.
Lemma is_nil_false {A} (l : list A) : is_nil l = false <-> l <> [].
Proof. destruct l; cbn; split; congruence. Qed.

(* ---------- soundness (every route) ---------- *)
Lemma route_match_sound : forall r s caps, route_match r s = Some caps ->
  s = route_fill r caps /\ params_okb r caps = true.
Proof.
  induction r as [|e r IH]; intros s caps H; cbn [route_match] in H.
  - destruct (is_nil s) eqn:E; [|discriminate]. injection H as <-. apply is_nil_true in E. subst. auto.
  - destruct e as [l|cs plus].
    + destruct (strip_prefix l s) as [s'|] eqn:E; [|discriminate].
      apply strip_prefix_spec in E. subst s. destruct (IH _ _ H) as [E1 E2].
      cbn [route_fill params_okb]. rewrite <- E1. auto.
    + destruct (span cs s) as [a b] eqn:E.
      destruct (plus && is_nil a) eqn:Hp; [discriminate|].
      destruct (route_match r b) as [caps'|] eqn:Hm; [|discriminate].
      injection H as <-. destruct (IH _ _ Hm) as [E1 E2].
      destruct (span_spec _ _ _ _ E) as (E3 & E4 & _). subst s.
      cbn [route_fill params_okb]. rewrite <- E1, E4, Hp, E2. auto.
Qed.

(* ---------- completeness and uniqueness (route_ok) ---------- *)
Lemma route_ok_tail_start cs plus r ps :
  route_ok (RPar cs plus :: r) = true -> starts_outside cs (route_fill r ps) /\ route_ok r = true.
Proof.
  cbn [route_ok]. destruct r as [|[l|cs' p'] r'].
  - intros _. cbn. auto.
  - destruct l as [|c l]; [discriminate|]. intros H. apply andb_true_iff in H. destruct H as [H1 H2].
    split; [|exact H2]. cbn [route_fill List.app starts_outside]. apply negb_true_iff in H1. exact H1.
  - discriminate.
Qed.

Lemma route_match_fill : forall r ps, route_ok r = true -> params_okb r ps = true ->
  route_match r (route_fill r ps) = Some ps.
Proof.
  induction r as [|e r IH]; intros ps Hok Hps.
  - cbn in Hps. apply is_nil_true in Hps. subst. reflexivity.
  - destruct e as [l|cs plus].
    + cbn [route_ok] in Hok. apply andb_true_iff in Hok. destruct Hok as [_ Hok].
      cbn [params_okb] in Hps. cbn [route_fill route_match]. rewrite strip_prefix_app. apply IH; assumption.
    + destruct (route_ok_tail_start cs plus r (tl ps) Hok) as [Hst Hok'].
      cbn [params_okb] in Hps. destruct ps as [|p ps]; [discriminate|]. cbn [tl] in Hst.
      apply andb_true_iff in Hps. destruct Hps as [Hps H3].
      apply andb_true_iff in Hps. destruct Hps as [H1 H2].
      cbn [route_fill route_match]. rewrite (span_app cs p _ H1 Hst).
      apply negb_true_iff in H2. rewrite H2, (IH ps Hok' H3). reflexivity.
Qed.

Theorem route_captures_unique r ps ps' : route_ok r = true ->
  params_okb r ps = true -> params_okb r ps' = true -> route_fill r ps = route_fill r ps' -> ps = ps'.
Proof.
  intros Hok H1 H2 E. pose proof (route_match_fill r ps Hok H1) as M1.
  pose proof (route_match_fill r ps' Hok H2) as M2. rewrite E in M1. congruence.
Qed.

(* ---------- agreement with the language of the printed regex ---------- *)
Lemma fill_lang : forall r ps, params_okb r ps = true -> lang (route_re r) (route_fill r ps).
Proof.
  induction r as [|e r IH]; intros ps H.
  - cbn. constructor.
  - destruct e as [l|cs plus]; cbn [route_re route_fill elem_re params_okb] in *.
    + constructor; [apply lang_lit; reflexivity | apply IH; assumption].
    + destruct ps as [|p ps]; [discriminate|].
      apply andb_true_iff in H. destruct H as [H H3].
      apply andb_true_iff in H. destruct H as [H1 H2].
      constructor; [|apply IH; assumption].
      destruct plus; constructor.
      * apply lang_plus_cls. split; [assumption|]. cbn [andb] in H2. apply negb_true_iff in H2.
        apply is_nil_false. exact H2.
      * apply lang_star_cls. assumption.
Qed.

Lemma lang_fill : forall r s, lang (route_re r) s -> exists ps, params_okb r ps = true /\ s = route_fill r ps.
Proof.
  induction r as [|e r IH]; intros s H.
  - cbn in H. apply lang_eps in H. subst. exists []. auto.
  - cbn [route_re] in H. apply lang_cat in H. destruct H as (x & t & -> & Hx & Ht).
    destruct (IH _ Ht) as (ps & Hps & ->).
    destruct e as [l|cs plus]; cbn [elem_re] in Hx.
    + apply lang_lit in Hx. subst. exists ps. auto.
    + exists (x :: ps). cbn [params_okb route_fill]. split; [|reflexivity].
      destruct plus; apply (proj1 (lang_grp _ _)) in Hx.
      * apply lang_plus_cls in Hx. destruct Hx as [H1 H2]. apply is_nil_false in H2.
        rewrite H1, H2, Hps. reflexivity.
      * apply lang_star_cls in Hx. rewrite Hx, Hps. reflexivity.
Qed.

Theorem route_match_lang r s caps : route_match r s = Some caps -> lang (route_re r) s.
Proof.
  intros H. destruct (route_match_sound _ _ _ H) as [-> Hps]. apply fill_lang. exact Hps.
Qed.

Theorem route_lang_match r s : route_ok r = true -> lang (route_re r) s ->
  exists caps, route_match r s = Some caps /\ s = route_fill r caps /\ params_okb r caps = true.
Proof.
  intros Hok H. destruct (lang_fill _ _ H) as (ps & Hps & ->). exists ps.
  split; [apply route_match_fill; assumption | auto].
Qed.

(* ---------- patterns ---------- *)
Definition pat_ok (p : pattern) : Prop := match p with PRoute r => route_ok r = true | PRe _ => True end.

(* a successful match means the WHOLE string is in the language; group 0 is the whole string *)
Theorem pat_match_whole p s gs : pat_match p s = Some gs -> lang (pat_re p) s /\ grp gs 0 = s.
Proof.
  destruct p as [r|e]; cbn [pat_match pat_re].
  - destruct (route_match r s) as [caps|] eqn:E; [|discriminate]. intros H. injection H as <-.
    split; [eapply route_match_lang; eassumption | reflexivity].
  - destruct (full_match e s) eqn:E; [|discriminate]. intros H. injection H as <-.
    split; [apply full_match_spec; assumption | reflexivity].
Qed.

Theorem pat_lang_match p s : pat_ok p -> lang (pat_re p) s -> exists gs, pat_match p s = Some gs.
Proof.
  destruct p as [r|e]; cbn [pat_match pat_re pat_ok]; intros Hok H.
  - destruct (route_lang_match r s Hok H) as (caps & E & _). rewrite E. eauto.
  - apply full_match_spec in H. rewrite H. eauto.
Qed.

Corollary pat_match_none p s : pat_ok p -> (pat_match p s = None <-> ~ lang (pat_re p) s).
Proof.
  intros Hok. split.
  - intros E H. destruct (pat_lang_match p s Hok H) as [gs E']. congruence.
  - intros H. destruct (pat_match p s) as [gs|] eqn:E; [|reflexivity].
    exfalso. apply H. eapply pat_match_whole. eassumption.
Qed.

(* the groups of a route pattern: 0 = whole string, i = i-th parameter *)
Lemma pat_match_route_groups r ps : route_ok r = true -> params_okb r ps = true ->
  pat_match (PRoute r) (route_fill r ps) = Some (route_fill r ps :: ps).
Proof. intros Hok Hps. cbn [pat_match]. rewrite route_match_fill; auto. Qed.
