(* C20 proofs, part 8: the tree-position form map_at (the function the correspondence harness runs against the
   implementation: "the mapper of the application at position pos below the root") agrees, on well-formed sites, with
   real_map at the location used by the map_dispatch theorems. *)
From CppcmsV Require Import Base.Tac C20.Defs C20.Regex C20.Routes C20.Dispatch C20.Sites C20.Mapper C20.MapAbs.
Local Open Scope N_scope.

(* nested induction over sites *)
Section SiteInd.
  Variable P : site -> Prop.
  Hypothesis H : forall pages subs, Forall (fun x => P (snd x)) subs -> P (Site pages subs).
  Fixpoint site_ind' (s : site) : P s :=
    match s with
    | Site pages subs =>
        H pages subs ((fix go (l : list (bytes * bytes * site)) : Forall (fun x => P (snd x)) l :=
                         match l with
                         | [] => Forall_nil _
                         | x :: t => Forall_cons x (site_ind' (snd x)) (go t)
                         end) subs)
    end.
End SiteInd.

Lemma app_table_build pages subs : node_wf pages subs ->
  app_table (build (Site pages subs)) = Some (rev (mount_tes 0 subs) ++ rev (map page_te pages)).
Proof.
  intros (Hp & _ & Hb & Hk & Hnd). unfold app_table. cbn [build app_ments].
  rewrite table_build_app, (build_pages pages []); [|intros x [] | exact Hp].
  rewrite app_nil_r. rewrite build_mounts; [reflexivity | exact Hb | | exact Hnd].
  intros x y Hx Hy. apply in_rev in Hy. apply in_map_iff in Hy. destruct Hy as (pg & <- & Hpg).
  cbn [page_te t_key]. apply Hk; assumption.
Qed.

Lemma build_ok_unfold pages subs : build_ok (build (Site pages subs)) =
  (match app_table (build (Site pages subs)) with Some _ => true | None => false end) &&
  forallb build_ok (map (fun x => build (snd x)) subs).
Proof. reflexivity. Qed.

(* registering the mapper entries of a well-formed site never throws *)
Theorem build_ok_site : forall s, site_wf s -> build_ok (build s) = true.
Proof.
  induction s as [pages subs IH] using site_ind'. intros Hw. inversion Hw as [p b Hnode Hsubs]; subst.
  rewrite build_ok_unfold, (app_table_build pages subs Hnode). cbn [andb].
  apply forallb_forall. intros a Ha. apply in_map_iff in Ha. destruct Ha as (x & <- & Hx).
  rewrite Forall_forall in IH. apply (IH x Hx). apply Hsubs. exact Hx.
Qed.

Lemma mounted_name_site pages subs i x : node_wf pages subs -> nth_error subs i = Some x ->
  mounted_name (build (Site pages subs)) i = Some (sub_name x).
Proof.
  intros Hwf Hn. unfold mounted_name. rewrite (tbl_build _ _ Hwf).
  rewrite (find_unique _ _ (mount_te i x)); [reflexivity | | |].
  - apply in_or_app. left. apply in_rev. rewrite rev_involutive. apply (mount_tes_nth subs 0 i x Hn).
  - cbn [mount_te t_e e_child]. apply Nat.eqb_refl.
  - intros y Hy Hf. apply in_app_or in Hy. destruct Hy as [Hy|Hy].
    + apply in_rev in Hy. apply mount_tes_in in Hy. destruct Hy as (j & z & Hj & ->).
      cbn [mount_te t_e e_child Nat.add] in *. apply Nat.eqb_eq in Hf. subst j. congruence.
    + apply in_rev in Hy. apply in_map_iff in Hy. destruct Hy as (pg & <- & _). cbn in Hf. discriminate.
Qed.

Lemma loc_of_app : forall p q l f, loc_of l f (p ++ q) =
  match loc_of l f p with Some (l', f') => loc_of l' f' q | None => None end.
Proof.
  induction p as [|k p IH]; intros q l f; [reflexivity|].
  cbn [List.app loc_of]. destruct (nth_error (app_kids (fst l)) k) as [kid|]; [|reflexivity].
  destruct (mounted_name (fst l) k); apply IH.
Qed.

(* every node of the site sits at some tree position, and loc_of finds the location of the chain there *)
Theorem loc_of_chain root : site_wf root -> forall node up pre, chain root node up pre ->
  exists pos, loc_of (build root, []) true pos = Some ((build node, up), true).
Proof.
  intros Hr node up pre Hc. induction Hc as [|parent up pre i x Hc IH Hn].
  - exists []. reflexivity.
  - destruct IH as [pos Hpos]. exists (pos ++ [i]). rewrite loc_of_app, Hpos.
    pose proof (chain_wf _ _ _ _ Hr Hc) as Hw. inversion Hw as [pages subs Hnode Hsubs E]. rewrite <- E in *.
    cbn [site_subs] in Hn. cbn [loc_of fst snd]. rewrite build_kids, nth_error_map, Hn. cbn [option_map].
    rewrite (mounted_name_site pages subs i x Hnode Hn). reflexivity.
Qed.

Definition nul_free (s : bytes) : bool := forallb (fun c => negb (c =? 0)) s.
Lemma cstr_id : forall s, nul_free s = true -> cstr s = s.
Proof.
  induction s as [|c s IH]; intros H; [reflexivity|].
  unfold nul_free in H. cbn [forallb] in H. apply andb_true_iff in H. destruct H as [Hc Hs]. apply negb_true_iff in Hc.
  cbn [cstr]. rewrite Hc, (IH Hs). reflexivity.
Qed.

(* map_at at that position is real_map at the chain location (for keys without NUL) *)
Theorem map_at_is_real_map root node up pre : site_wf root -> chain root node up pre ->
  exists pos, forall vals key ps, nul_free key = true ->
    map_at (build root) vals pos key ps = real_map (build node, up) vals key ps.
Proof.
  intros Hr Hc. destruct (loc_of_chain root Hr node up pre Hc) as [pos Hpos]. exists pos.
  intros vals key ps Hk. unfold map_at. rewrite (build_ok_site root Hr). cbn [negb]. rewrite Hpos, (cstr_id key Hk).
  reflexivity.
Qed.
