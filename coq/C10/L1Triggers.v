(* C10 proofs, part 8: trigger sets returned by nodes WITH an L1.  Invariant (over all histories, also with foreign raw
   frames): an L1 record whose generation is that of the responsible server's record for the key contains every trigger
   name of that record (when those names are NUL-free, i.e. can be carried by the wire format).  Hence a
   fetch-with-triggers by any node returns a superset of the server record's trigger set. *)
From CppcmsV Require Import Base.Tac C10.Defs C10.Proofs C10.Coherence C10.Codec C10.Effects C10.Refine C10.Placement
  C10.Triggers.
Local Open Scope N_scope.

Definition KU (w : world) : Prop := forall i s, nth_error (w_srv w) i = Some s -> keys_unique s.
Definition Jw (w : world) : Prop :=
  forall j l k e1 s e,
    nth_error (w_cli w) j = Some (Some l) -> In (k, e1) (c_items l) ->
    nth_error (w_srv w) (server_of (nsrv w) k) = Some s -> In (k, e) (c_items s) ->
    e_gen e = e_gen e1 -> Forall nul_free (e_trg e) -> incl (e_trg e) (e_trg e1).
Definition Full (w : world) : Prop := (exists logs, Inv w logs) /\ KU w /\ Jw w.

Lemma srv_change_unique c c1 : srv_change c c1 -> keys_unique c -> keys_unique c1.
Proof.
  intros CH U. destruct CH as [|t| |k v trg lo hi]; [exact U|apply keys_unique_rise; exact U|apply keys_unique_clear|
    apply keys_unique_store; exact U].
Qed.
Lemma unique_in (l : list (bytes * entry)) k e e2 :
  NoDup (map fst l) -> In (k, e) l -> In (k, e2) l -> e = e2.
Proof.
  induction l as [|[k1 x] r IH]; intros ND H1 H2; [contradiction|].
  cbn [map fst] in ND. inversion ND as [|? ? NI ND1]; subst.
  destruct H1 as [H1|H1], H2 as [H2|H2].
  - congruence.
  - inversion H1; subst. exfalso. apply NI. apply in_map_iff. exists (k, e2). split; [reflexivity|exact H2].
  - inversion H2; subst. exfalso. apply NI. apply in_map_iff. exists (k, e). split; [reflexivity|exact H1].
  - apply IH; assumption.
Qed.

(* ---------- one RPC ---------- *)
Lemma rpc_full w i rq h p w1 : Full w -> rpc w i rq = (h, p, w1) -> Full w1.
Proof.
  intros ([logs I] & KUw & J) H.
  destruct (rpc_inv w logs i rq h p w1 I H) as (logs1 & I1 & _ & _).
  split; [exists logs1; exact I1|].
  unfold rpc in H. destruct (nth_error (w_srv w) i) as [c|] eqn:Ei.
  2: { inversion H; subst. split; assumption. }
  destruct (srv_handle (w_now w) (fst rq) (snd rq) c) as [[h2 p2] c1] eqn:Eh.
  inversion H; subst h2 p2 w1; clear H. apply srv_handle_change in Eh.
  split.
  - intros j s Hj. cbn [w_srv] in Hj. apply nth_upd_inv in Hj. destruct Hj as [[_ ->]|[_ Hj]].
    + eapply srv_change_unique; [exact Eh|eapply KUw; exact Ei].
    + eapply KUw; exact Hj.
  - intros j l k e1 s e Hj Hin Hs Hse G NF. cbn [w_cli] in Hj. unfold nsrv in Hs. cbn [w_srv] in Hs.
    rewrite upd_length in Hs. apply nth_upd_inv in Hs. destruct Hs as [[Ei2 ->]|[Ne Hs]].
    + assert (nth_error (w_srv w) (server_of (nsrv w) k) = Some c) as Ec by (unfold nsrv; rewrite <- Ei2; exact Ei).
      destruct Eh as [|t| |k0 v trg lo hi].
      * eapply (J j l k e1 c e); eassumption.
      * apply c_rise_sub in Hse. eapply (J j l k e1 c e); eassumption.
      * contradiction.
      * cbn [c_store c_items] in Hse. destruct Hse as [Hse|Hse].
        -- exfalso. inversion Hse; subst k0 e. cbn [e_gen] in G.
           destruct I as [[IS IC] _].
           pose proof (IC j l Hj k e1 Hin) as HL. unfold nsrv in HL. rewrite <- Ei2 in HL.
           destruct (IS i c Ei) as (_ & LT & _). apply LT in HL. destruct HL as [HL _].
           unfold ev_gen, ev_of in HL. cbn [fst snd] in HL. lia.
        -- apply a_remove_In in Hse. eapply (J j l k e1 c e); eassumption.
    + eapply (J j l k e1 s e); try eassumption.
Qed.

Lemma broadcast_full n w rq : Full w -> Full (broadcast n w rq).
Proof.
  intros F. induction n as [|m IH]; cbn [broadcast]; [exact F|].
  destruct (rpc (broadcast m w rq) m rq) as [[h p] w2] eqn:E. eapply rpc_full; eassumption.
Qed.
Lemma stats_sum_full n w k t w1 : Full w -> stats_sum n w = (k, t, w1) -> Full w1.
Proof.
  revert k t w1. induction n as [|m IH]; intros k t w1 F H; cbn [stats_sum] in H.
  - inversion H; subst. exact F.
  - destruct (stats_sum m w) as [[k0 t0] w0] eqn:E0. specialize (IH _ _ _ F eq_refl).
    destruct (rpc w0 m enc_stats) as [[h p] w2] eqn:E. pose proof (rpc_full _ _ _ _ _ _ IH E) as F2.
    destruct (h_op h =? op_out_stats); inversion H; subst; exact F2.
Qed.

(* ---------- L1 updates ---------- *)
Definition l1_J (w : world) (l : cache) : Prop :=
  forall k e1 s e, In (k, e1) (c_items l) ->
    nth_error (w_srv w) (server_of (nsrv w) k) = Some s -> In (k, e) (c_items s) ->
    e_gen e = e_gen e1 -> Forall nul_free (e_trg e) -> incl (e_trg e) (e_trg e1).

Lemma set_l1_full w c l :
  Full w -> (forall logs, Inv w logs -> l1_ok (nsrv w) logs l) -> l1_J w l -> Full (set_l1 w c l).
Proof.
  intros ([logs I] & KUw & J) OK LJ. split; [exists logs; apply set_l1_inv; [exact I|apply OK; exact I]|].
  split; [exact KUw|].
  intros j l2 k e1 s e Hj Hin Hs Hse G NF. unfold set_l1 in Hj, Hs. unfold nsrv in Hs. cbn [w_cli w_srv] in Hj, Hs.
  apply nth_upd_inv in Hj. destruct Hj as [[_ E]|[_ Hj]].
  - inversion E; subst l2. eapply (LJ k e1 s e); eassumption.
  - eapply (J j l2 k e1 s e); eassumption.
Qed.

Lemma on_l1_full w c f w1 :
  Full w -> on_l1 w c f = Some w1 -> (forall l p, In p (c_items (f l)) -> In p (c_items l)) -> Full w1.
Proof.
  intros F H S. unfold on_l1 in H. destruct (nth_error (w_cli w) c) as [[l|]|] eqn:E; inversion H; subst; clear H; [|exact F].
  apply set_l1_full; [exact F| |].
  - intros logs I. destruct I as [[_ IC] _]. eapply l1_ok_sub; [apply (IC c l E)|apply S].
  - destruct F as (_ & _ & J). intros k e1 s e Hin. apply S in Hin. eapply (J c l k e1 s e); eassumption.
Qed.

(* the record put into an L1 after a data answer for server record e0 contains e0's names *)
Lemma refill_J w c l1 k s e0 tt :
  Full w -> nth_error (w_cli w) c = Some (Some l1) ->
  nth_error (w_srv w) (server_of (nsrv w) k) = Some s -> In (k, e0) (c_items s) ->
  (Forall nul_free (e_trg e0) -> incl (e_trg e0) tt) ->
  l1_J w (c_store k (e_val e0) tt (e_dl e0) (Some (e_gen e0)) l1).
Proof.
  intros (_ & KUw & J) Ec Es Hin0 SUP k1 e1 s1 e Hin Hs Hse G NF.
  cbn [c_store c_items] in Hin. destruct Hin as [Hin|Hin].
  - inversion Hin; subst k1 e1. cbn [e_gen e_trg] in *.
    rewrite Es in Hs. inversion Hs; subst s1.
    assert (e = e0) as -> by (eapply unique_in; [apply (KUw _ _ Es)|exact Hse|exact Hin0]).
    intros y Hy. apply sins_In. right. apply (SUP NF). exact Hy.
  - apply a_remove_In in Hin. eapply (J c l1 k1 e1 s1 e); eassumption.
Qed.

(* ---------- a client fetch ---------- *)
Definition sup_claim (w : world) (k : bytes) (x : obs) : Prop :=
  forall v tt dl s e, x = ObsFetch (Some (v, tt, dl)) ->
    nth_error (w_srv w) (server_of (nsrv w) k) = Some s -> c_fetch (w_now w) k s = Some e ->
    Forall nul_free (e_trg e) -> incl (e_trg e) tt.

Lemma client_fetch_full w c k x w1 :
  Full w -> client_fetch w c k true = (x, w1) -> Full w1 /\ sup_claim w k x.
Proof.
  intros F H. pose proof F as ([logs I] & KUw & J). unfold client_fetch in H. unfold sup_claim.
  set (i := server_of (nsrv w) k) in *.
  destruct (nth_error (w_cli w) c) as [[l1|]|] eqn:Ec.
  - destruct (c_fetch (w_now w) k l1) as [e1|] eqn:E1.
    + (* L1 hit *)
      destruct (nth_error (w_srv w) i) as [s|] eqn:Ei.
      * destruct (rpc_fetch_some w i s k (e_gen e1) true true Ei) as (h & p & R & D).
        rewrite R, D in H. unfold fetch_answer in H.
        destruct (c_fetch (w_now w) k s) as [e|] eqn:Es.
        -- destruct (srv_entry_int64 w logs i s k e I Ei Es) as [Hlog H64].
           pose proof (c_fetch_In _ _ _ _ Es) as HinS. pose proof (c_fetch_In _ _ _ _ E1) as HinL.
           cbn [andb] in H. destruct (e_gen e =? e_gen e1) eqn:Eg.
           ++ (* up to date: the invariant *)
              inversion H; subst x w1; clear H. split; [exact F|].
              intros v tt dl s0 e0 Hx Hs0 He0 NF. inversion Hx; subst v tt dl. inversion Hs0; subst s0.
              rewrite Es in He0; inversion He0; subst e0. apply N.eqb_eq in Eg.
              eapply (J c l1 k e1 s e); eassumption.
           ++ (* newer data: union, refill *)
              rewrite z64_roundtrip in H by exact H64. inversion H; subst x w1; clear H.
              assert (Forall nul_free (e_trg e) -> incl (e_trg e) (sunion (walk_triggers [] (enc_trigs (e_trg e))) (e_trg e1))) as SUP.
              { intros NF y Hy. apply sunion_In. left. rewrite (walk_enc_trigs _ NF). exact Hy. }
              split.
              ** apply set_l1_full; [exact F| |].
                 --- intros logs0 I0. apply l1_store_ok; [apply (proj2 (proj1 I0) c l1 Ec)|].
                     destruct (srv_entry_int64 w logs0 i s k e I0 Ei Es) as [Hl _]. exact Hl.
                 --- apply (refill_J w c l1 k s e _ F Ec Ei HinS SUP).
              ** intros v tt dl s0 e0 Hx Hs0 He0 NF. inversion Hx; subst v tt dl. inversion Hs0; subst s0.
                 rewrite Es in He0; inversion He0; subst e0. apply SUP. exact NF.
        -- inversion H; subst x w1; clear H. split.
           ** apply set_l1_full; [exact F| |].
              --- intros logs0 I0. eapply l1_ok_sub; [apply (proj2 (proj1 I0) c l1 Ec)|apply c_remove_sub].
              --- intros k1 e2 s1 e Hin. apply c_remove_sub in Hin. eapply (J c l1 k1 e2 s1 e); eassumption.
           ** intros v tt dl s0 e0 Hx. discriminate Hx.
      * destruct (rpc_fetch_none w i k (e_gen e1) true true Ei) as (h & p & R & D).
        rewrite R, D in H. inversion H; subst x w1; clear H. split.
        ** apply set_l1_full; [exact F| |].
           --- intros logs0 I0. eapply l1_ok_sub; [apply (proj2 (proj1 I0) c l1 Ec)|apply c_remove_sub].
           --- intros k1 e2 s1 e Hin. apply c_remove_sub in Hin. eapply (J c l1 k1 e2 s1 e); eassumption.
        ** intros v tt dl s0 e0 Hx. discriminate Hx.
    + (* L1 miss *)
      destruct (nth_error (w_srv w) i) as [s|] eqn:Ei.
      * destruct (rpc_fetch_some w i s k 0 true false Ei) as (h & p & R & D).
        rewrite R, D in H. unfold fetch_answer in H. cbn [andb] in H.
        destruct (c_fetch (w_now w) k s) as [e|] eqn:Es.
        -- destruct (srv_entry_int64 w logs i s k e I Ei Es) as [Hlog H64].
           pose proof (c_fetch_In _ _ _ _ Es) as HinS.
           rewrite z64_roundtrip in H by exact H64. inversion H; subst x w1; clear H.
           assert (Forall nul_free (e_trg e) -> incl (e_trg e) (mkset (walk_triggers [] (enc_trigs (e_trg e))))) as SUP.
           { intros NF y Hy. apply mkset_In. rewrite (walk_enc_trigs _ NF). exact Hy. }
           split.
           ** apply set_l1_full; [exact F| |].
              --- intros logs0 I0. apply l1_store_ok; [apply (proj2 (proj1 I0) c l1 Ec)|].
                  destruct (srv_entry_int64 w logs0 i s k e I0 Ei Es) as [Hl _]. exact Hl.
              --- apply (refill_J w c l1 k s e _ F Ec Ei HinS SUP).
           ** intros v tt dl s0 e0 Hx Hs0 He0 NF. inversion Hx; subst v tt dl. inversion Hs0; subst s0.
              rewrite Es in He0; inversion He0; subst e0. apply SUP. exact NF.
        -- inversion H; subst x w1; clear H. split; [exact F|]. intros v tt dl s0 e0 Hx. discriminate Hx.
      * destruct (rpc_fetch_none w i k 0 true false Ei) as (h & p & R & D).
        rewrite R, D in H. inversion H; subst x w1; clear H. split; [exact F|]. intros v tt dl s0 e0 Hx. discriminate Hx.
  - (* no L1 *)
    destruct (nth_error (w_srv w) i) as [s|] eqn:Ei.
    + destruct (rpc_fetch_some w i s k 0 true false Ei) as (h & p & R & D).
      rewrite R, D in H. unfold fetch_answer in H. cbn [andb] in H.
      destruct (c_fetch (w_now w) k s) as [e|] eqn:Es.
      * destruct (srv_entry_int64 w logs i s k e I Ei Es) as [Hlog H64].
        rewrite z64_roundtrip in H by exact H64. inversion H; subst x w1; clear H. split; [exact F|].
        intros v tt dl s0 e0 Hx Hs0 He0 NF. inversion Hx; subst v tt dl. inversion Hs0; subst s0.
        rewrite Es in He0; inversion He0; subst e0. intros y Hy. apply mkset_In. rewrite (walk_enc_trigs _ NF). exact Hy.
      * inversion H; subst x w1; clear H. split; [exact F|]. intros v tt dl s0 e0 Hx. discriminate Hx.
    + destruct (rpc_fetch_none w i k 0 true false Ei) as (h & p & R & D).
      rewrite R, D in H. inversion H; subst x w1; clear H. split; [exact F|]. intros v tt dl s0 e0 Hx. discriminate Hx.
  - inversion H; subst x w1. split; [exact F|]. intros v tt dl s0 e0 Hx. discriminate Hx.
Qed.

(* ---------- every operation preserves the invariant ---------- *)
Lemma step_full w o : Full w -> Full (snd (step w o)).
Proof.
  intros F. destruct (step w o) as [x w1] eqn:H. cbn [snd].
  destruct o as [c k v trg dl|c k tags|c t|c|c k|c|d|s h p]; cbn [step] in H.
  - destruct (on_l1 w c (c_remove k)) as [w0|] eqn:E0.
    + destruct (rpc w0 (server_of (nsrv w0) k) (enc_store k v (mkset trg) dl)) as [[h1 p1] w2] eqn:E.
      inversion H; subst. eapply rpc_full; [eapply on_l1_full; [exact F|exact E0|apply c_remove_sub]|exact E].
    + inversion H; subst. exact F.
  - destruct tags.
    + destruct (client_fetch w c k true) as [x0 w0] eqn:E. destruct (client_fetch_full w c k x0 w0 F E) as [F2 _].
      assert (w1 = w0) as -> by (destruct x0 as [|[[[v t] d]|]| | |]; inversion H; reflexivity). exact F2.
    + (* the trigger set is only dropped from the answer: the world changes as with tags *)
      assert (snd (client_fetch w c k false) = snd (client_fetch w c k true) \/
              nth_error (w_cli w) c = Some None) as [E|E].
      { unfold client_fetch. destruct (nth_error (w_cli w) c) as [[l1|]|]; [left; reflexivity|right; reflexivity|left; reflexivity]. }
      * destruct (client_fetch w c k false) as [x0 w0] eqn:E1. destruct (client_fetch w c k true) as [x2 w2] eqn:E2.
        cbn [snd] in E. subst w2. destruct (client_fetch_full w c k x2 w0 F E2) as [F2 _].
        assert (w1 = w0) as -> by (destruct x0 as [|[[[v t] d]|]| | |]; inversion H; reflexivity). exact F2.
      * (* no L1: the world does not change *)
        destruct (client_fetch w c k false) as [x0 w0] eqn:E1.
        assert (w1 = w0) as -> by (destruct x0 as [|[[[v t] d]|]| | |]; inversion H; reflexivity).
        assert (w0 = w) as ->; [|exact F].
        unfold client_fetch in E1. rewrite E in E1.
        destruct (nth_error (w_srv w) (server_of (nsrv w) k)) as [s0|] eqn:Ei.
        -- destruct (rpc_fetch_some w _ s0 k 0 false false Ei) as (h0 & p0 & R0 & _). rewrite R0 in E1.
           destruct (dec_fetch false false h0 p0); inversion E1; reflexivity.
        -- destruct (rpc_fetch_none w _ k 0 false false Ei) as (h0 & p0 & R0 & _). rewrite R0 in E1.
           destruct (dec_fetch false false h0 p0); inversion E1; reflexivity.
  - destruct (on_l1 w c (c_rise t)) as [w0|] eqn:E0.
    + inversion H; subst. apply broadcast_full. eapply on_l1_full; [exact F|exact E0|apply c_rise_sub].
    + inversion H; subst. exact F.
  - destruct (on_l1 w c c_clear) as [w0|] eqn:E0.
    + inversion H; subst. apply broadcast_full. eapply on_l1_full; [exact F|exact E0|apply c_clear_sub].
    + inversion H; subst. exact F.
  - destruct (on_l1 w c (c_remove k)) as [w0|] eqn:E0.
    + inversion H; subst. eapply on_l1_full; [exact F|exact E0|apply c_remove_sub].
    + inversion H; subst. exact F.
  - destruct (nth_error (w_cli w) c).
    + destruct (stats_sum (nsrv w) w) as [[k t] w0] eqn:E. inversion H; subst. eapply stats_sum_full; eassumption.
    + inversion H; subst. exact F.
  - inversion H; subst. destruct F as ([logs I] & KUw & J). split; [|split; [exact KUw|exact J]].
    exists logs. destruct I as [[IS IC] ND]. split; [split; [exact IS|exact IC]|exact ND].
  - destruct (nth_error (w_srv w) s).
    + destruct (rpc w s (h, p)) as [[h1 p1] w0] eqn:E. inversion H; subst. eapply rpc_full; eassumption.
    + inversion H; subst. exact F.
Qed.

Lemma init_full ns l1 : Full (init_world ns l1).
Proof.
  split; [eexists; apply init_inv|]. split.
  - intros i s H. unfold init_world in H. cbn [w_srv] in H. apply nth_error_In in H. apply repeat_spec in H. subst. constructor.
  - intros j l k e1 s e Hj Hin. unfold init_world in Hj. cbn [w_cli] in Hj.
    apply nth_error_In in Hj. apply in_map_iff in Hj. destruct Hj as (b & E & _).
    destruct b; inversion E; subst. contradiction.
Qed.
Lemma reachable_full w : reachable w -> Full w.
Proof. induction 1 as [ns l1|w o R IH]; [apply init_full|apply step_full; exact IH]. Qed.

(* a fetch-with-triggers by ANY node (with or without L1) returns at least the trigger set of the server's record *)
Lemma fetch_triggers_superset w c k v tt dl w1 s e :
  reachable w -> step w (OFetch c k true) = (ObsFetch (Some (v, tt, dl)), w1) ->
  nth_error (w_srv w) (server_of (nsrv w) k) = Some s -> c_fetch (w_now w) k s = Some e ->
  Forall nul_free (e_trg e) -> incl (e_trg e) tt.
Proof.
  intros R H Es Ef NF. pose proof (reachable_full w R) as F. cbn [step] in H.
  destruct (client_fetch w c k true) as [x0 w0] eqn:E. destruct (client_fetch_full w c k x0 w0 F E) as [_ SUP].
  destruct x0 as [|[[[v0 t0] d0]|]| | |]; inversion H; subst.
  eapply (SUP v tt dl s e); [reflexivity|exact Es|exact Ef|exact NF].
Qed.
