(* C10 proofs, part 17: the quantification over transfer schedules, lifted into the world histories.
   For EVERY adversary `pick` that chooses, for each RPC of a history, the chunk sizes of the writev calls, of the readv calls
   (all positive: no failure) and the memory behind the request string - as a function of the whole state, the target and the
   frame - the history executed with messenger::transmit over those schedules (grun (sched_rpc pick)) is the atomic history
   (Defs.run): same observations, same final world - provided every frame the atomic execution exchanges fits the 32-bit
   fields of the header (call_fits: request well-formed, answer header representable; i.e. no record of 4 GiB, no generation
   of 2^64). *)
From CppcmsV Require Import Base.Tac C10.Defs C10.Proofs C10.Codec C10.NetDefs C10.NetProofs C10.SchedDefs.
Local Open Scope N_scope.

Definition agrees (R : rpc_t) (cl : call) : Prop := match cl with (w, i, rq) => R w i rq = rpc w i rq end.

(* ---------- congruence: a history run with R is the atomic history when R agrees with rpc on the calls it makes ---------- *)
Lemma gbroadcast_eq R n w rq : Forall (agrees R) (calls_bcast n w rq) -> gbroadcast R n w rq = broadcast n w rq.
Proof.
  induction n as [|m IH]; intros F; cbn [gbroadcast broadcast calls_bcast] in *; [reflexivity|].
  apply Forall_app in F. destruct F as [F1 F2]. rewrite (IH F1).
  inversion F2 as [|? ? A _]; subst. unfold agrees in A. rewrite A. reflexivity.
Qed.
Lemma gstats_sum_eq R n w : Forall (agrees R) (calls_stats n w) -> gstats_sum R n w = stats_sum n w.
Proof.
  induction n as [|m IH]; intros F; cbn [gstats_sum stats_sum calls_stats] in *; [reflexivity|].
  apply Forall_app in F. destruct F as [F1 F2]. rewrite (IH F1).
  inversion F2 as [|? ? A _]; subst. unfold agrees in A.
  destruct (stats_sum m w) as [[k t] w1]. cbn [snd] in A. rewrite A. reflexivity.
Qed.
Lemma gclient_fetch_eq R w c k tags :
  Forall (agrees R) (calls_fetch w c k tags) -> gclient_fetch R w c k tags = client_fetch w c k tags.
Proof.
  unfold calls_fetch, gclient_fetch, client_fetch. intros F.
  destruct (nth_error (w_cli w) c) as [[l1|]|]; [|inversion F as [|? ? A _]; subst; unfold agrees in A; rewrite A; reflexivity|reflexivity].
  destruct (c_fetch (w_now w) k l1) as [e|]; inversion F as [|? ? A _]; subst; unfold agrees in A; rewrite A; reflexivity.
Qed.
Lemma gstep_eq R w o : Forall (agrees R) (calls_step w o) -> gstep R w o = step w o.
Proof.
  destruct o as [c k v trg dl|c k tags|c t|c|c k|c|d|s h p]; cbn [gstep step calls_step]; intros F; try reflexivity.
  - destruct (on_l1 w c (c_remove k)) as [w1|]; [|reflexivity].
    inversion F as [|? ? A _]; subst. unfold agrees in A. rewrite A. reflexivity.
  - rewrite (gclient_fetch_eq R w c k tags F). reflexivity.
  - destruct (on_l1 w c (c_rise t)) as [w1|]; [|reflexivity]. rewrite (gbroadcast_eq R _ _ _ F). reflexivity.
  - destruct (on_l1 w c c_clear) as [w1|]; [|reflexivity]. rewrite (gbroadcast_eq R _ _ _ F). reflexivity.
  - destruct (nth_error (w_cli w) c); [|reflexivity]. rewrite (gstats_sum_eq R _ _ F). reflexivity.
Qed.
Lemma grun_eq R h : forall w, Forall (agrees R) (calls_run w h) -> grun R w h = run w h.
Proof.
  induction h as [|o r IH]; intros w F; cbn [grun run calls_run] in *; [reflexivity|].
  apply Forall_app in F. destruct F as [F1 F2]. rewrite (gstep_eq R w o F1).
  destruct (step w o) as [x w1]. cbn [snd] in F2. rewrite (IH w1 F2). reflexivity.
Qed.

(* ---------- the scheduled RPC agrees with the atomic one on every call that fits ---------- *)
Lemma hdr_okb_ok h : hdr_okb h = true -> hdr_ok h.
Proof.
  unfold hdr_okb, hdr_ok. intros H. repeat (apply andb_true_iff in H; destruct H as [H ?]).
  repeat match goal with X : (_ <? _) = true |- _ => apply N.ltb_lt in X end. repeat split; assumption.
Qed.

Definition positive_pick (pick : pick_t) : Prop :=
  forall w i rq, positive_sched (fst (fst (pick w i rq))) /\ positive_sched (snd (fst (pick w i rq))).

Lemma sched_rpc_agrees pick cl : positive_pick pick -> call_fits cl = true -> agrees (sched_rpc pick) cl.
Proof.
  destruct cl as [[w i] [h data]]. unfold call_fits, agrees, sched_rpc, rpc. cbn [fst snd]. intros PP F.
  destruct (nth_error (w_srv w) i) as [c|]; [|reflexivity].
  apply andb_true_iff in F. destruct F as [F F3]. apply andb_true_iff in F. destruct F as [F1 F2].
  apply hdr_okb_ok in F1. apply N.eqb_eq in F2.
  destruct (srv_handle (w_now w) h data c) as [[rh rp] c1] eqn:S. cbn [fst] in F3. apply hdr_okb_ok in F3.
  specialize (PP w i (h, data)). destruct (pick w i (h, data)) as [[ws rs] pad]. cbn [fst snd] in PP. destruct PP as [P1 P2].
  rewrite (transmit_schedule_independent ws rs false [] [] h data pad (w_now w) c rh rp c1 P1 P2 F1 F2 S F3). reflexivity.
Qed.

(* ---------- the lifted statement ---------- *)
Lemma scheduled_history_is_atomic pick w h :
  positive_pick pick -> forallb call_fits (calls_run w h) = true -> grun (sched_rpc pick) w h = run w h.
Proof.
  intros PP F. apply grun_eq. rewrite forallb_forall in F. apply Forall_forall. intros cl Hin.
  apply sched_rpc_agrees; [exact PP|apply F; exact Hin].
Qed.
