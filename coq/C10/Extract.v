Require Extraction.
Require Import ExtrOcamlBasic.
From Coq Require Import NArith ZArith List.
From CppcmsV Require Import C10.Defs C10.NetDefs.
Definition keep_types : (N * Z * nat) := (0%N, 0%Z, 0%nat).
Extraction "c10m.ml" keep_types init_world run step truth hdr_parse hdr_bytes enc_fetch enc_store enc_rise enc_clear
  enc_stats dec_fetch mkset server_of hash_raw srv_handle restart
  take drop nstep nrun ninit overlay retry_request second_request restore attempt transmit sock_xfer first_down rstep rev_srv phys.
