(* C10: the world histories of Defs.v with the RPC as a parameter (no proofs here).
   gstep R / grun R are step / run of Defs.v with every client RPC (fetch, store, rise, clear, stats - the calls that go through
   messenger::transmit) made by R instead of the atomic Defs.rpc; raw frames of a foreign peer stay atomic (its transport is not
   ours).  sched_rpc pick is the RPC made by messenger::transmit (NetDefs.transmit) over the transfer schedules and the memory
   behind the request string that an adversary `pick` chooses for each call as a function of the whole state, the target and the
   request.  calls_step / calls_run list the RPCs the atomic execution makes (world at the call, server, request frame). *)
From Coq Require Import NArith ZArith List Bool.
From CppcmsV Require Import C10.Defs C10.NetDefs.
Import ListNotations.
Local Open Scope N_scope.

Definition rpc_t := world -> nat -> hdr * bytes -> hdr * bytes * world.
Definition call := (world * nat * (hdr * bytes))%type.

Section G.
Variable R : rpc_t.

Fixpoint gbroadcast (n : nat) (w : world) (rq : hdr * bytes) : world :=
  match n with
  | O => w
  | S m => let w1 := gbroadcast m w rq in match R w1 m rq with (_, _, w2) => w2 end
  end.

Definition gclient_fetch (w : world) (c : nat) (k : bytes) (tags : bool) : obs * world :=
  match nth_error (w_cli w) c with
  | None => (ObsBad, w)
  | Some None =>
      match R w (server_of (nsrv w) k) (enc_fetch k 0 tags false) with
      | (h, p, w1) =>
          match dec_fetch false tags h p with
          | FData v t dl _ => (ObsFetch (Some (v, mkset t, dl)), w1)
          | _ => (ObsFetch None, w1)
          end
      end
  | Some (Some l1) =>
      match c_fetch (w_now w) k l1 with
      | Some e =>
          match R w (server_of (nsrv w) k) (enc_fetch k (e_gen e) true true) with
          | (h, p, w1) =>
              match dec_fetch true true h p with
              | FUpToDate => (ObsFetch (Some (e_val e, e_trg e, e_dl e)), w1)
              | FNotFound => (ObsFetch None, set_l1 w1 c (c_remove k l1))
              | FData v t dl g =>
                  let tt := sunion t (e_trg e) in
                  (ObsFetch (Some (v, tt, dl)), set_l1 w1 c (c_store k v tt dl (Some g) l1))
              end
          end
      | None =>
          match R w (server_of (nsrv w) k) (enc_fetch k 0 true false) with
          | (h, p, w1) =>
              match dec_fetch false true h p with
              | FData v t dl g =>
                  let tt := mkset t in
                  (ObsFetch (Some (v, tt, dl)), set_l1 w1 c (c_store k v tt dl (Some g) l1))
              | _ => (ObsFetch None, w1)
              end
          end
      end
  end.

Fixpoint gstats_sum (n : nat) (w : world) : N * N * world :=
  match n with
  | O => (0, 0, w)
  | S m =>
      match gstats_sum m w with
      | (k, t, w1) =>
          match R w1 m enc_stats with
          | (h, _, w2) =>
              if h_op h =? op_out_stats then ((k + h_u0 h) mod W32, (t + h_u1 h) mod W32, w2) else (k, t, w2)
          end
      end
  end.

Definition gstep (w : world) (o : op) : obs * world :=
  match o with
  | OStore c k v trg dl =>
      match on_l1 w c (c_remove k) with
      | None => (ObsBad, w)
      | Some w1 =>
          match R w1 (server_of (nsrv w1) k) (enc_store k v (mkset trg) dl) with
          | (_, _, w2) => (ObsNone, w2)
          end
      end
  | OFetch c k tags =>
      match gclient_fetch w c k tags with
      | (ObsFetch (Some (v, t, dl)), w1) => (ObsFetch (Some (v, if tags then t else [], dl)), w1)
      | r => r
      end
  | ORise c t =>
      match on_l1 w c (c_rise t) with
      | None => (ObsBad, w)
      | Some w1 => (ObsNone, gbroadcast (nsrv w1) w1 (enc_rise t))
      end
  | OClear c =>
      match on_l1 w c c_clear with
      | None => (ObsBad, w)
      | Some w1 => (ObsNone, gbroadcast (nsrv w1) w1 enc_clear)
      end
  | OStats c =>
      match nth_error (w_cli w) c with
      | None => (ObsBad, w)
      | Some _ => match gstats_sum (nsrv w) w with (k, t, w1) => (ObsStats k t, w1) end
      end
  | o1 => step w o1        (* evict, tick: no RPC; raw frame of a foreign peer: atomic *)
  end.

Fixpoint grun (w : world) (h : list op) : list obs * world :=
  match h with
  | [] => ([], w)
  | o :: r => let (x, w1) := gstep w o in let (xs, w2) := grun w1 r in (x :: xs, w2)
  end.
End G.

(* ---------- the RPCs the atomic execution makes ---------- *)
Fixpoint calls_bcast (n : nat) (w : world) (rq : hdr * bytes) : list call :=
  match n with
  | O => []
  | S m => calls_bcast m w rq ++ [(broadcast m w rq, m, rq)]
  end.
Fixpoint calls_stats (n : nat) (w : world) : list call :=
  match n with
  | O => []
  | S m => calls_stats m w ++ [(snd (stats_sum m w), m, enc_stats)]
  end.
Definition calls_fetch (w : world) (c : nat) (k : bytes) (tags : bool) : list call :=
  match nth_error (w_cli w) c with
  | None => []
  | Some None => [(w, server_of (nsrv w) k, enc_fetch k 0 tags false)]
  | Some (Some l1) =>
      match c_fetch (w_now w) k l1 with
      | Some e => [(w, server_of (nsrv w) k, enc_fetch k (e_gen e) true true)]
      | None => [(w, server_of (nsrv w) k, enc_fetch k 0 true false)]
      end
  end.
Definition calls_step (w : world) (o : op) : list call :=
  match o with
  | OStore c k v trg dl =>
      match on_l1 w c (c_remove k) with
      | None => []
      | Some w1 => [(w1, server_of (nsrv w1) k, enc_store k v (mkset trg) dl)]
      end
  | OFetch c k tags => calls_fetch w c k tags
  | ORise c t => match on_l1 w c (c_rise t) with None => [] | Some w1 => calls_bcast (nsrv w1) w1 (enc_rise t) end
  | OClear c => match on_l1 w c c_clear with None => [] | Some w1 => calls_bcast (nsrv w1) w1 enc_clear end
  | OStats c => match nth_error (w_cli w) c with None => [] | Some _ => calls_stats (nsrv w) w end
  | _ => []
  end.
Fixpoint calls_run (w : world) (h : list op) : list call :=
  match h with
  | [] => []
  | o :: r => calls_step w o ++ calls_run (snd (step w o)) r
  end.

(* ---------- the RPC over adversarial transfer schedules ---------- *)
(* pick: for each call the schedule of the request's writev calls, the schedule of the answer's readv calls, and the memory
   behind the request string *)
Definition pick_t := world -> nat -> hdr * bytes -> list N * list N * bytes.
Definition sched_rpc (pick : pick_t) : rpc_t := fun w i rq =>
  match nth_error (w_srv w) i with
  | None => (hdr0 op_error, [], w)
  | Some c =>
      match pick w i rq with
      | (ws, rs, pad) =>
          match transmit ws rs false [] [] (fst rq) (snd rq ++ pad) (w_now w) c with
          | (TxReply rh rp, c1) => (rh, rp, mkW (upd i c1 (w_srv w)) (w_cli w) (w_now w))
          | (TxExn, c1) => (hdr0 op_error, [], mkW (upd i c1 (w_srv w)) (w_cli w) (w_now w))
          end
      end
  end.

(* a call whose frames fit the 32-bit fields of the header: request well-formed, answer header representable *)
Definition hdr_okb (h : hdr) : bool :=
  (h_op h <? W32) && (h_size h <? W32) && (h_f0 h <? W32) && (h_f1 h <? W32) && (h_u0 h <? W32) && (h_u1 h <? W32) &&
  (h_u2 h <? W32) && (h_u3 h <? W32) && (h_u4 h <? W32) && (h_u5 h <? W32).
Definition call_fits (cl : call) : bool :=
  match cl with
  | (w, i, rq) => hdr_okb (fst rq) && (h_size (fst rq) =? lenN (snd rq)) && hdr_okb (fst (fst (rpc w i rq)))
  end.
