(* C10 proofs, part 13: cache servers that are down (connection refused).  nstep (NetDefs.v) = step of Defs.v when the
   servers an operation needs are up; an RPC to a server that is down is an exception in the calling node.
   - With all servers up nstep IS step (conservative extension).
   - In every world reachable by node operations, servers going down and coming up again (same process: its cache is
     kept), operations that fail half-way included, a fetch that returns an answer returns what the responsible server
     holds now; a fetch that throws changes nothing; a store that throws changes no server. *)
From CppcmsV Require Import Base.Tac C10.Defs C10.Proofs C10.Coherence C10.Effects C10.Restart C10.NetDefs.
Local Open Scope N_scope.

Definition all_up (x : nworld) : Prop := forall i, (i < nsrv (nw x))%nat -> is_up (nw_up x) i = true.

Lemma first_down_all u n : (forall i, (i < n)%nat -> is_up u i = true) -> first_down u n = n.
Proof.
  induction n as [|m IH]; intros A; cbn [first_down]; [reflexivity|].
  rewrite IH by (intros i Hi; apply A; lia). rewrite Nat.eqb_refl. rewrite A by lia. reflexivity.
Qed.
Lemma first_down_le u n : (first_down u n <= n)%nat.
Proof.
  induction n as [|m IH]; cbn [first_down]; [lia|].
  destruct (Nat.eqb_spec (first_down u m) m) as [E|E]; [destruct (is_up u m); lia|lia].
Qed.

Lemma on_l1_nsrv w c f w1 : on_l1 w c f = Some w1 -> nsrv w1 = nsrv w.
Proof. intros H. unfold nsrv. rewrite (on_l1_srv _ _ _ _ H). reflexivity. Qed.

Lemma nstep_all_up x o :
  all_up x -> (0 < nsrv (nw x))%nat ->
  nstep x (NOp o) = let (r, w2) := step (nw x) o in (NObs r, mkNW w2 (nw_up x)).
Proof.
  destruct x as [w u]. unfold all_up. cbn [nw nw_up]. intros A NZ.
  destruct o as [c k v trg dl|c k tags|c t|c|c k|c|d|s h p]; cbn [nstep nw nw_up].
  - destruct (on_l1 w c (c_remove k)) as [w1|] eqn:E.
    + rewrite A by (rewrite (on_l1_nsrv _ _ _ _ E); apply server_of_lt; exact NZ). reflexivity.
    + cbn [step]. rewrite E. reflexivity.
  - destruct (nth_error (w_cli w) c) as [l|] eqn:E.
    + rewrite A by (apply server_of_lt; exact NZ). reflexivity.
    + cbn [step]. unfold client_fetch. rewrite E. reflexivity.
  - cbn [step]. destruct (on_l1 w c (c_rise t)) as [w1|] eqn:E; [|reflexivity].
    rewrite first_down_all by (intros i Hi; apply A; rewrite <- (on_l1_nsrv _ _ _ _ E); exact Hi).
    rewrite Nat.eqb_refl. reflexivity.
  - cbn [step]. destruct (on_l1 w c c_clear) as [w1|] eqn:E; [|reflexivity].
    rewrite first_down_all by (intros i Hi; apply A; rewrite <- (on_l1_nsrv _ _ _ _ E); exact Hi).
    rewrite Nat.eqb_refl. reflexivity.
  - reflexivity.
  - destruct (nth_error (w_cli w) c) as [l|] eqn:E.
    + rewrite first_down_all by exact A. rewrite Nat.eqb_refl. reflexivity.
    + cbn [step]. rewrite E. reflexivity.
  - reflexivity.
  - destruct (nth_error (w_srv w) s) eqn:E.
    + assert (s < nsrv w)%nat as L by (unfold nsrv; apply nth_error_Some; congruence).
      rewrite A by exact L. reflexivity.
    + cbn [step]. rewrite E. reflexivity.
Qed.

(* the invariant of Coherence.v survives every nstep, also the operations that fail half-way *)
Definition ncoherent (x : nworld) : Prop := coherent (nw x).

Lemma step_coherent w o : coherent w -> coherent (snd (step w o)).
Proof.
  intros [logs I]. destruct (step w o) as [a w1] eqn:E.
  destruct (step_inv w logs o a w1 I E) as (l1 & I1 & _). exists l1. exact I1.
Qed.

Lemma nstep_coherent x o : ncoherent x -> ncoherent (snd (nstep x o)).
Proof.
  destruct x as [w u]. unfold ncoherent. cbn [nw]. intros C.
  assert (forall o1, coherent (nw (snd (let (r, w2) := step w o1 in (NObs r, mkNW w2 u))))) as ST.
  { intros o1. pose proof (step_coherent w o1 C) as S. destruct (step w o1). exact S. }
  destruct o as [[c k v trg dl|c k tags|c t|c|c k|c|d|s h p]|s|s]; cbn [nstep nw nw_up]; try exact C; try apply ST.
  - destruct (on_l1 w c (c_remove k)) as [w1|] eqn:E; [|exact C].
    destruct (is_up u (server_of (nsrv w1) k)); [apply ST|].
    destruct C as [logs I]. exists logs. apply (on_l1_inv w logs c _ w1 I E (c_remove_sub k)).
  - destruct (nth_error (w_cli w) c); [|exact C]. destruct (is_up u (server_of (nsrv w) k)); [apply ST|exact C].
  - destruct (on_l1 w c (c_rise t)) as [w1|] eqn:E; [|exact C]. cbn [snd nw].
    destruct C as [logs I]. destruct (on_l1_inv w logs c _ w1 I E (c_rise_sub t)) as (I1 & _).
    destruct (broadcast_inv (first_down u (nsrv w1)) w1 logs (enc_rise t) I1) as (l2 & I2 & _). exists l2. exact I2.
  - destruct (on_l1 w c c_clear) as [w1|] eqn:E; [|exact C]. cbn [snd nw].
    destruct C as [logs I]. destruct (on_l1_inv w logs c _ w1 I E c_clear_sub) as (I1 & _).
    destruct (broadcast_inv (first_down u (nsrv w1)) w1 logs enc_clear I1) as (l2 & I2 & _). exists l2. exact I2.
  - destruct (nth_error (w_cli w) c); [|exact C].
    destruct (Nat.eqb (first_down u (nsrv w)) (nsrv w)); [apply ST|].
    destruct (stats_sum (first_down u (nsrv w)) w) as [[a b] w2] eqn:E. cbn [snd nw].
    destruct C as [logs I]. destruct (stats_sum_inv _ _ _ _ _ _ I E) as (l2 & I2 & _). exists l2. exact I2.
  - destruct (nth_error (w_srv w) s); [|exact C]. destruct (is_up u s); [apply ST|exact C].
Qed.

Inductive nreachable : nworld -> Prop :=
| nr_init ns l1 : nreachable (ninit ns l1)
| nr_step x o : nreachable x -> nreachable (snd (nstep x o)).

Lemma nreachable_coherent x : nreachable x -> ncoherent x.
Proof.
  induction 1 as [ns l1|x o R IH].
  - exists (fun _ => []). apply init_inv.
  - apply nstep_coherent. exact IH.
Qed.

(* a fetch that returns returns the current record; a fetch that throws changes nothing *)
Lemma nfetch_current x c k tags r x1 :
  nreachable x -> nstep x (NOp (OFetch c k tags)) = (NObs (ObsFetch r), x1) -> current (nw x) k r.
Proof.
  intros R H. pose proof (nreachable_coherent x R) as C. destruct x as [w u]. cbn [nstep nw nw_up] in *.
  destruct (nth_error (w_cli w) c); [|discriminate H].
  destruct (is_up u (server_of (nsrv w) k)); [|discriminate H].
  destruct (step w (OFetch c k tags)) as [a w2] eqn:E. inversion H; subst a x1.
  eapply coherent_fetch; [exact C|exact E].
Qed.
Lemma nfetch_exn x c k tags x1 : nstep x (NOp (OFetch c k tags)) = (NExn, x1) -> x1 = x.
Proof.
  destruct x as [w u]. cbn [nstep nw nw_up]. destruct (nth_error (w_cli w) c); [|discriminate].
  destruct (is_up u (server_of (nsrv w) k)).
  - destruct (step w (OFetch c k tags)). discriminate.
  - intros H. inversion H. reflexivity.
Qed.
(* a store that throws has changed no server (only dropped the key from the L1 of the calling node) *)
Lemma nstore_exn x c k v trg dl x1 :
  nstep x (NOp (OStore c k v trg dl)) = (NExn, x1) -> w_srv (nw x1) = w_srv (nw x) /\ nw_up x1 = nw_up x.
Proof.
  destruct x as [w u]. cbn [nstep nw nw_up]. destruct (on_l1 w c (c_remove k)) as [w1|] eqn:E; [|discriminate].
  destruct (is_up u (server_of (nsrv w1) k)).
  - destruct (step w (OStore c k v trg dl)). discriminate.
  - intros H. inversion H; subst. cbn [nw nw_up]. split; [apply (on_l1_srv _ _ _ _ E)|reflexivity].
Qed.
(* a rise or clear that throws has reached exactly the servers before the first one that is down *)
Lemma nrise_exn x c t x1 :
  nstep x (NOp (ORise c t)) = (NExn, x1) ->
  exists w1, on_l1 (nw x) c (c_rise t) = Some w1 /\ (first_down (nw_up x) (nsrv w1) < nsrv w1)%nat /\
             nw x1 = broadcast (first_down (nw_up x) (nsrv w1)) w1 (enc_rise t).
Proof.
  destruct x as [w u]. cbn [nstep nw nw_up]. destruct (on_l1 w c (c_rise t)) as [w1|] eqn:E; [|discriminate].
  destruct (Nat.eqb_spec (first_down u (nsrv w1)) (nsrv w1)) as [EQ|NE]; [discriminate|].
  intros H. inversion H; subst. exists w1. split; [reflexivity|]. split; [|reflexivity].
  pose proof (first_down_le u (nsrv w1)). lia.
Qed.
