(* C10: the loop body of tcp_connector::hash regenerated from /repo's current source (coq/gen/Gen_tcphash.v,
   written by checks/C10.py:gen_hash with the cxx2v statement translator) is the model's hash_step, for every
   32-bit state and every byte; hence the whole fold is.  (checks/C10.py also checks that the loop is preceded by
   `if(conns==1) return 0;` and followed by `return h % conns;`.) *)
From CppcmsV Require Import Base.Tac Base.CSem C10.Defs gen.Gen_tcphash.
Local Open Scope N_scope.

Lemma wrapu32_of_N n : wrapu 32 (Z.of_N n) = Z.of_N (n mod W32).
Proof. unfold wrapu, W32. rewrite N2Z.inj_mod. reflexivity. Qed.
Lemma wrapu8_of_N n : wrapu 8 (Z.of_N n) = Z.of_N (n mod 256).
Proof. unfold wrapu. rewrite N2Z.inj_mod. reflexivity. Qed.

Lemma inj_land a b : Z.land (Z.of_N a) (Z.of_N b) = Z.of_N (N.land a b).
Proof. destruct a, b; reflexivity. Qed.
Lemma inj_lxor a b : Z.lxor (Z.of_N a) (Z.of_N b) = Z.of_N (N.lxor a b).
Proof. destruct a, b; reflexivity. Qed.
Lemma inj_shiftl5 a : Z.shiftl (Z.of_N a) 5 = Z.of_N (N.shiftl a 5).
Proof. rewrite Z.shiftl_mul_pow2, N.shiftl_mul_pow2, N2Z.inj_mul by lia. reflexivity. Qed.
Lemma inj_shiftr27 a : Z.shiftr (Z.of_N a) 27 = Z.of_N (N.shiftr a 27).
Proof. rewrite Z.shiftr_div_pow2, N.shiftr_div_pow2, N2Z.inj_div by lia. reflexivity. Qed.

Lemma link_hash_step h c : g_hash_step (Z.of_N h) (Z.of_N c) = Z.of_N (hash_step h c).
Proof.
  unfold g_hash_step, hash_step. cbv zeta.
  change 4160749568%Z with (Z.of_N 4160749568).
  rewrite wrapu8_of_N.
  rewrite inj_land, wrapu32_of_N.
  rewrite inj_shiftl5, wrapu32_of_N.
  rewrite inj_shiftr27, wrapu32_of_N.
  rewrite inj_lxor, wrapu32_of_N.
  rewrite inj_lxor, wrapu32_of_N.
  reflexivity.
Qed.

Lemma link_hash_init : g_hash_init = Z.of_N 0.
Proof. reflexivity. Qed.

Lemma link_hash_fold key h :
  fold_left g_hash_step (map Z.of_N key) (Z.of_N h) = Z.of_N (fold_left hash_step key h).
Proof.
  revert h. induction key as [|c r IH]; intros h; [reflexivity|].
  cbn [map fold_left]. rewrite link_hash_step. apply IH.
Qed.

(* the hash of the source, folded over the key bytes from its initial value, is the model's hash_raw *)
Lemma link_hash_raw key : fold_left g_hash_step (map Z.of_N key) g_hash_init = Z.of_N (hash_raw key).
Proof. unfold hash_raw. rewrite link_hash_init. apply link_hash_fold. Qed.

(* the state stays a 32-bit value *)
Lemma hash_step_lt h c : hash_step h c < W32.
Proof. unfold hash_step. cbv zeta. apply N.mod_lt. unfold W32. discriminate. Qed.

(* ---------- opcode numbering and header layout of private/tcp_cache_protocol.h (coq/gen/Gen_tcpproto.v) ---------- *)
From CppcmsV Require Import C10.Proofs C10.Codec gen.Gen_tcpproto.

Lemma link_opcodes :
  g_op_fetch = Z.of_N op_fetch /\ g_op_rise = Z.of_N op_rise /\ g_op_clear = Z.of_N op_clear /\
  g_op_store = Z.of_N op_store /\ g_op_stats = Z.of_N op_stats /\ g_op_error = Z.of_N op_error /\
  g_op_done = Z.of_N op_done /\ g_op_data = Z.of_N op_data /\ g_op_no_data = Z.of_N op_no_data /\
  g_op_uptodate = Z.of_N op_uptodate /\ g_op_out_stats = Z.of_N op_out_stats /\
  NoDup g_opcodes.
Proof.
  repeat (split; [reflexivity|]).
  unfold g_opcodes. repeat (constructor; [cbn; intuition discriminate|]). constructor.
Qed.

Lemma words_hdr_bytes h : hdr_ok h ->
  words (hdr_bytes h) = [h_op h; h_size h; h_f0 h; h_f1 h; h_u0 h; h_u1 h; h_u2 h; h_u3 h; h_u4 h; h_u5 h].
Proof.
  destruct h as [a b c d e f g i j k]. unfold hdr_ok. cbn [h_op h_size h_f0 h_f1 h_u0 h_u1 h_u2 h_u3 h_u4 h_u5].
  intros (Ha & Hb & Hc & Hd & He & Hf & Hg & Hi & Hj & Hk).
  unfold hdr_bytes, le32. cbn [h_op h_size h_f0 h_f1 h_u0 h_u1 h_u2 h_u3 h_u4 h_u5 app words].
  rewrite !de32_le32 by assumption. reflexivity.
Qed.

(* the 32-bit word of the model's frame that sits at byte offset o of the C struct *)
Definition word_at (h : hdr) (o : Z) : N := nth (Z.to_nat (o / 4)) (words (hdr_bytes h)) 0.

(* every accessor of the model reads the header word at the offset the source declares for the field it stands for;
   64-bit fields (generation, timeout) are the two words from their offset on; the frame is sizeof(header) bytes;
   time_t is 64 bit (to_time_t is the identity) *)
Lemma link_layout h : hdr_ok h ->
  Z.of_nat (length (hdr_bytes h)) = g_size_of_header /\ g_size_of_time_t = 8%Z /\
  word_at h g_off_opcode = h_op h /\ word_at h g_off_size = h_size h /\
  word_at h g_off_filler = h_f0 h /\ word_at h (g_off_filler + 4) = h_f1 h /\
  word_at h g_off_fetch_current_gen = h_u0 h /\ word_at h (g_off_fetch_current_gen + 4) = h_u1 h /\
  word_at h g_off_fetch_key_len = h_u2 h /\ word_at h (g_off_fetch_key_len + 4) = h_u3 h /\
  word_at h g_off_rise_trigger_len = h_u0 h /\
  word_at h g_off_store_timeout = h_u0 h /\ word_at h (g_off_store_timeout + 4) = h_u1 h /\
  word_at h g_off_store_key_len = h_u2 h /\ word_at h g_off_store_data_len = h_u3 h /\
  word_at h g_off_store_triggers_len = h_u4 h /\
  word_at h g_off_data_generation = h_u0 h /\ word_at h (g_off_data_generation + 4) = h_u1 h /\
  word_at h g_off_data_timeout = h_u2 h /\ word_at h (g_off_data_timeout + 4) = h_u3 h /\
  word_at h g_off_data_data_len = h_u4 h /\ word_at h g_off_data_triggers_len = h_u5 h /\
  word_at h g_off_out_stats_keys = h_u0 h /\ word_at h g_off_out_stats_triggers = h_u1 h.
Proof.
  intros OK. unfold word_at. rewrite (words_hdr_bytes h OK). repeat split; reflexivity.
Qed.

(* the SIZES of the fields as the source declares them now: every length / opcode field is one 32-bit word (le32 in the
   model), generation and timeout are 64 bit (two words), the fields of each union member are adjacent (no padding the model
   does not know of), the union starts right after the filler and ends with the header.  A changed field type breaks this
   lemma even when no offset moves (e.g. the last field of a member). *)
Lemma link_field_sizes :
  (  g_size_of_opcode = 4 /\ g_size_of_size = 4 /\ g_size_of_filler = 8 /\ g_size_of_operations = 24 /\
  g_size_of_fetch_current_gen = 8 /\ g_size_of_fetch_key_len = 4 /\ g_size_of_rise_trigger_len = 4 /\
  g_size_of_store_timeout = 8 /\ g_size_of_store_key_len = 4 /\ g_size_of_store_data_len = 4 /\ g_size_of_store_triggers_len = 4 /\
  g_size_of_data_generation = 8 /\ g_size_of_data_timeout = 8 /\ g_size_of_data_data_len = 4 /\ g_size_of_data_triggers_len = 4 /\
  g_size_of_out_stats_keys = 4 /\ g_size_of_out_stats_triggers = 4 /\
  g_off_size = g_off_opcode + g_size_of_opcode /\ g_off_filler = g_off_size + g_size_of_size /\
  g_off_operations = g_off_filler + g_size_of_filler /\ g_size_of_header = g_off_operations + g_size_of_operations /\
  g_off_fetch_current_gen = g_off_operations /\ g_off_fetch_key_len = g_off_fetch_current_gen + g_size_of_fetch_current_gen /\
  g_size_of_fetch_struct = g_size_of_fetch_current_gen + g_size_of_fetch_key_len + 4 /\
  g_off_rise_trigger_len = g_off_operations /\
  g_off_store_timeout = g_off_operations /\ g_off_store_key_len = g_off_store_timeout + g_size_of_store_timeout /\
  g_off_store_data_len = g_off_store_key_len + g_size_of_store_key_len /\
  g_off_store_triggers_len = g_off_store_data_len + g_size_of_store_data_len /\
  g_off_store_triggers_len + g_size_of_store_triggers_len + 4 = g_off_operations + g_size_of_store_struct /\
  g_off_data_generation = g_off_operations /\ g_off_data_timeout = g_off_data_generation + g_size_of_data_generation /\
  g_off_data_data_len = g_off_data_timeout + g_size_of_data_timeout /\
  g_off_data_triggers_len = g_off_data_data_len + g_size_of_data_data_len /\
  g_off_data_triggers_len + g_size_of_data_triggers_len = g_off_operations + g_size_of_data_struct /\
  g_off_out_stats_keys = g_off_operations /\ g_off_out_stats_triggers = g_off_out_stats_keys + g_size_of_out_stats_keys)%Z.
Proof. repeat split; reflexivity. Qed.
