(* C10: the loop body of tcp_connector::hash regenerated from /repo's current source (coq/gen/Gen_tcphash.v,
   written by checks/C10.py:gen_hash with the cxx2v statement translator) is the model's hash_step, for every
   32-bit state and every byte; hence the whole fold is.  (checks/C10.py also checks that the loop is preceded by
   `if(conns==1) return 0;` and followed by `return h % conns;`.) *)
From CppcmsV Require Import Base.Tac Base.CSem C10.Defs gen.Gen_tcphash.
Local Open Scope N_scope.

Lemma wrapu32_of_N n : wrapu 32 (Z.of_N n) = Z.of_N (n mod W32).
Proof. unfold wrapu, W32. rewrite N2Z.inj_mod. reflexivity. Qed.
Lemma wrapu8_of_N n : wrapu 8 (Z.of_N n) = Z.of_N (n mod 256).
Proof. unfold wrapu. rewrite N2Z.inj_mod. reflexivity. Qed.

Lemma inj_land a b : Z.land (Z.of_N a) (Z.of_N b) = Z.of_N (N.land a b).
Proof. destruct a, b; reflexivity. Qed.
Lemma inj_lxor a b : Z.lxor (Z.of_N a) (Z.of_N b) = Z.of_N (N.lxor a b).
Proof. destruct a, b; reflexivity. Qed.
Lemma inj_shiftl5 a : Z.shiftl (Z.of_N a) 5 = Z.of_N (N.shiftl a 5).
Proof. rewrite Z.shiftl_mul_pow2, N.shiftl_mul_pow2, N2Z.inj_mul by lia. reflexivity. Qed.
Lemma inj_shiftr27 a : Z.shiftr (Z.of_N a) 27 = Z.of_N (N.shiftr a 27).
Proof. rewrite Z.shiftr_div_pow2, N.shiftr_div_pow2, N2Z.inj_div by lia. reflexivity. Qed.

Lemma link_hash_step h c : g_hash_step (Z.of_N h) (Z.of_N c) = Z.of_N (hash_step h c).
Proof.
  unfold g_hash_step, hash_step. cbv zeta.
  change 4160749568%Z with (Z.of_N 4160749568).
  rewrite wrapu8_of_N.
  rewrite inj_land, wrapu32_of_N.
  rewrite inj_shiftl5, wrapu32_of_N.
  rewrite inj_shiftr27, wrapu32_of_N.
  rewrite inj_lxor, wrapu32_of_N.
  rewrite inj_lxor, wrapu32_of_N.
  reflexivity.
Qed.

Lemma link_hash_init : g_hash_init = Z.of_N 0.
Proof. reflexivity. Qed.

Lemma link_hash_fold key h :
  fold_left g_hash_step (map Z.of_N key) (Z.of_N h) = Z.of_N (fold_left hash_step key h).
Proof.
  revert h. induction key as [|c r IH]; intros h; [reflexivity|].
  cbn [map fold_left]. rewrite link_hash_step. apply IH.
Qed.

(* the hash of the source, folded over the key bytes from its initial value, is the model's hash_raw *)
Lemma link_hash_raw key : fold_left g_hash_step (map Z.of_N key) g_hash_init = Z.of_N (hash_raw key).
Proof. unfold hash_raw. rewrite link_hash_init. apply link_hash_fold. Qed.

(* the state stays a 32-bit value *)
Lemma hash_step_lt h c : hash_step h c < W32.
Proof. unfold hash_step. cbv zeta. apply N.mod_lt. unfold W32. discriminate. Qed.
