(* C10: executable model of the transport under the RPCs of Defs.v (no proofs here).
   1. booster::aio::stream_socket::read / write as used by messenger::transmit and by the server session: loops over
      read_some / write_some (::readv / ::writev), each of which transfers at most as many bytes as the adversarial
      transfer schedule says (entry k >= 1: at most k bytes; entry 0: the call fails - error or end of stream;
      exhausted schedule: everything that was asked for).
   2. messenger::transmit: keep a copy of the request header; every attempt first restores the header object from that copy
      (since /repo d350cd9), writes header + h.size payload bytes, reads the 40 byte answer header INTO THE SAME header
      object, reads h.size payload bytes; on a failure anywhere: close, reconnect (may fail), and run the same loop ONCE
      more.  (Before d350cd9 the second attempt started from the header object as the failed read had left it.)
   3. servers that are down (connection refused on reconnect): nworld / nstep on top of Defs.step; an RPC to a server that is
      down is a cppcms_error exception in the calling node. *)
From Coq Require Import NArith ZArith List Bool.
From CppcmsV Require Import C10.Defs.
Import ListNotations.
Local Open Scope N_scope.

(* ---------- stream_socket::read / ::write over a transfer schedule ---------- *)
(* result: complete?, bytes transferred (already in the destination), rest of the schedule, rest of the stream.
   The fuel is the number of bytes asked for: every successful read_some transfers at least one byte. *)
Fixpoint xfer (fuel : nat) (sched : list N) (stream : bytes) (need : N) : bool * bytes * list N * bytes :=
  if need =? 0 then (true, [], sched, stream)
  else match fuel with
       | O => (false, [], sched, stream)
       | S f =>
           let k := match sched with [] => need | k :: _ => N.min k need end in
           let k1 := N.min k (lenN stream) in
           if k1 =? 0 then (false, [], tl sched, stream)       (* schedule says fail, or end of stream *)
           else match xfer f (tl sched) (drop k1 stream) (need - k1) with
                | (ok, got, s2, rest) => (ok, take k1 stream ++ got, s2, rest)
                end
       end.
Definition sock_xfer (sched : list N) (stream : bytes) (need : N) := xfer (N.to_nat need) sched stream need.

(* ---------- one attempt of messenger::transmit ---------- *)
(* the header object is 40 bytes of memory; `mem` is the request payload string followed by whatever lies behind it in
   memory (the code sends h.size bytes starting at data.c_str(), whatever h.size is at that moment) *)
Definition overlay (got old : bytes) : bytes := got ++ drop (lenN got) old.

Inductive attempt_res :=
| AReply (h : hdr) (p : bytes)        (* complete answer received *)
| AFail (hb : bytes) (dm : bytes).    (* system_error; the header object now holds hb, the memory of the request string dm *)

(* the answer body is received into a temporary vector (`std::vector<char> d(h.size); socket_.read(buffer(d));`) and assigned to
   the caller's string - which is also the REQUEST payload of a retry - only once it is complete: a failure inside the body
   leaves the request string as it was, whatever part of the body (got) had arrived *)
Definition body_failure_leaves (got mem : bytes) : bytes := mem.

(* schedules: client write, client read.  The server handles a frame only when it has arrived completely. *)
Definition attempt (ws rs : list N) (hb mem : bytes) (now : Z) (c : cache) : attempt_res * cache :=
  match hdr_parse hb with
  | None => (AFail hb mem, c)
  | Some h =>
      let packet := hb ++ take (h_size h) mem in
      match sock_xfer ws packet (40 + h_size h) with
      | (false, _, _, _) => (AFail hb mem, c)                   (* request not delivered: the server drops the partial frame *)
      | (true, _, _, _) =>
          match srv_handle now h (take (h_size h) mem) c with
          | (rh, rp, c1) =>
              let stream := hdr_bytes rh ++ rp in
              match sock_xfer rs stream 40 with
              | (false, got, _, _) => (AFail (overlay got hb) mem, c1)
              | (true, got, rs1, rest) =>
                  match sock_xfer rs1 rest (h_size rh) with
                  | (false, gotb, _, _) => (AFail got (body_failure_leaves gotb mem), c1)   (* header object = answer header *)
                  | (true, p, _, _) => (AReply rh p, c1)
                  end
              end
          end
      end
  end.

Inductive tx_res := TxReply (h : hdr) (p : bytes) | TxExn.

(* `h=request;` at the top of the try block: whatever a failed attempt left in the header object, the next attempt starts
   from the saved copy of the request header *)
Definition restore (request after_failure : bytes) : bytes := request.

(* messenger::transmit: second attempt (after a successful reconnect) *)
Definition transmit (ws1 rs1 : list N) (up : bool) (ws2 rs2 : list N) (h : hdr) (mem : bytes) (now : Z) (c : cache)
  : tx_res * cache :=
  match attempt ws1 rs1 (restore (hdr_bytes h) (hdr_bytes h)) mem now c with
  | (AReply rh rp, c1) => (TxReply rh rp, c1)
  | (AFail hb dm, c1) =>
      if up then
        match attempt ws2 rs2 (restore (hdr_bytes h) hb) dm now c1 with      (* the retry sends what the request string holds NOW *)
        | (AReply rh rp, c2) => (TxReply rh rp, c2)
        | (AFail _ _, c2) => (TxExn, c2)
        end
      else (TxExn, c1)
  end.

(* the request an attempt sends when the header object holds hb (for the probe: what a capturing server sees) *)
Definition retry_request (hb mem : bytes) : option (hdr * bytes) :=
  match hdr_parse hb with Some h => Some (h, take (h_size h) mem) | None => None end.
(* the request the SECOND attempt sends after a first attempt that left hb in the header object *)
Definition second_request (h : hdr) (hb mem : bytes) : option (hdr * bytes) :=
  retry_request (restore (hdr_bytes h) hb) mem.

(* ---------- servers that are down ---------- *)
Record nworld := mkNW { nw : world; nw_up : list bool }.
Definition is_up (u : list bool) (i : nat) : bool := nth i u false.
(* index of the first server that is down among 0..n-1 (n if all are up) *)
Fixpoint first_down (u : list bool) (n : nat) : nat :=
  match n with
  | O => O
  | S m => let j := first_down u m in if Nat.eqb j m then (if is_up u m then S m else m) else j
  end.

Inductive nop := NOp (o : op) | NDown (s : nat) | NUp (s : nat).
Inductive nobs := NObs (x : obs) | NExn.

Definition set_up (u : list bool) (s : nat) (b : bool) : list bool := upd s b u.

Definition nstep (x : nworld) (o : nop) : nobs * nworld :=
  let w := nw x in let u := nw_up x in
  match o with
  | NDown s => (NObs ObsNone, mkNW w (set_up u s false))
  | NUp s => (NObs ObsNone, mkNW w (set_up u s true))
  | NOp (OStore c k v trg dl) =>
      match on_l1 w c (c_remove k) with
      | None => (NObs ObsBad, x)
      | Some w1 =>
          if is_up u (server_of (nsrv w1) k) then let (r, w2) := step w (OStore c k v trg dl) in (NObs r, mkNW w2 u)
          else (NExn, mkNW w1 u)
      end
  | NOp (OFetch c k tags) =>
      match nth_error (w_cli w) c with
      | None => (NObs ObsBad, x)
      | Some _ =>
          if is_up u (server_of (nsrv w) k) then let (r, w2) := step w (OFetch c k tags) in (NObs r, mkNW w2 u)
          else (NExn, x)
      end
  | NOp (ORise c t) =>
      match on_l1 w c (c_rise t) with
      | None => (NObs ObsBad, x)
      | Some w1 =>
          let j := first_down u (nsrv w1) in
          (if Nat.eqb j (nsrv w1) then NObs ObsNone else NExn, mkNW (broadcast j w1 (enc_rise t)) u)
      end
  | NOp (OClear c) =>
      match on_l1 w c c_clear with
      | None => (NObs ObsBad, x)
      | Some w1 =>
          let j := first_down u (nsrv w1) in
          (if Nat.eqb j (nsrv w1) then NObs ObsNone else NExn, mkNW (broadcast j w1 enc_clear) u)
      end
  | NOp (OStats c) =>
      match nth_error (w_cli w) c with
      | None => (NObs ObsBad, x)
      | Some _ =>
          let j := first_down u (nsrv w) in
          if Nat.eqb j (nsrv w) then let (r, w2) := step w (OStats c) in (NObs r, mkNW w2 u)
          else match stats_sum j w with (_, _, w2) => (NExn, mkNW w2 u) end
      end
  | NOp (ORaw s h p) =>
      match nth_error (w_srv w) s with
      | None => (NObs ObsBad, x)
      | Some _ => if is_up u s then let (r, w2) := step w (ORaw s h p) in (NObs r, mkNW w2 u) else (NExn, x)
      end
  | NOp o1 => let (r, w2) := step w o1 in (NObs r, mkNW w2 u)
  end.

Fixpoint nrun (x : nworld) (h : list nop) : list nobs * nworld :=
  match h with
  | [] => ([], x)
  | o :: r => let (a, x1) := nstep x o in let (l, x2) := nrun x1 r in (a :: l, x2)
  end.
Definition ninit (ns : nat) (l1 : list bool) : nworld := mkNW (init_world ns l1) (repeat true ns).

(* ---------- a node whose server list is in the reverse order ----------
   tcp_connector::hash gives an INDEX into the node's own server list.  A node configured with the same servers in reverse
   order executes every operation against the world with the servers reversed. *)
Definition rev_srv (w : world) : world := mkW (rev (w_srv w)) (w_cli w) (w_now w).
Definition rstep (w : world) (o : op) : obs * world :=
  let (x, w1) := step (rev_srv w) o in (x, rev_srv w1).
(* the physical server a node with server list `order` (physical numbers, in its configured order) uses for a key *)
Definition phys (order : list nat) (k : bytes) : nat := nth (server_of (length order) k) order O.
