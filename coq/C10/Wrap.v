(* C10 proofs, part 10: the length check of tcp_cache_service::session::store

       if( key_len + data_len + triggers_len != hin_.size || key_len == 0 )  -> error

   is evaluated in uint32 (the model keeps the wrap: srv_store).  session::on_header_in has read exactly hin_.size
   payload bytes before store() runs (frame_ok).  Without wrap-around the check is exact: the three regions the code
   reads afterwards partition the payload.  With wrap-around it passes for frames whose regions lie outside the
   payload (the code then reads data_in_.begin()+key_len+data_len past the end of the vector): refutation witness
   below, replayed on the implementation (docs/C10_wrap.case).  A frame built by tcp_cache::store for contents shorter
   than 2^32 bytes never wraps. *)
From CppcmsV Require Import Base.Tac C10.Defs C10.Proofs C10.Codec.
Local Open Scope N_scope.

Definition frame_ok (h : hdr) (p : bytes) : Prop := hdr_ok h /\ lenN p = h_size h.
(* the check of session::store passes (same expression as in srv_store) *)
Definition store_check (h : hdr) : bool :=
  negb (negb ((h_u2 h + h_u3 h + h_u4 h) mod W32 =? h_size h) || (h_u2 h =? 0)).
Definition store_sum (h : hdr) : N := h_u2 h + h_u3 h + h_u4 h.

Lemma srv_store_refuses h p c : store_check h = false -> srv_store h p c = (hdr0 op_error, [], c).
Proof.
  unfold store_check, srv_store. cbv zeta. intros H.
  destruct (negb ((h_u2 h + h_u3 h + h_u4 h) mod W32 =? h_size h) || (h_u2 h =? 0)); [reflexivity|discriminate H].
Qed.
Lemma srv_store_accepts h p c :
  store_check h = true ->
  srv_store h p c =
    match load_triggers [] (take (h_u4 h) (drop (h_u2 h + h_u3 h) p)) with
    | None => (hdr0 op_error, [], c)
    | Some trg => (hdr0 op_done, [],
                   c_store (take (h_u2 h) p) (take (h_u3 h) (drop (h_u2 h) p)) (mkset trg) (z64_of (h_u0 h) (h_u1 h)) None c)
    end.
Proof.
  unfold store_check, srv_store. cbv zeta. intros H.
  destruct (negb ((h_u2 h + h_u3 h + h_u4 h) mod W32 =? h_size h) || (h_u2 h =? 0)); [discriminate H|reflexivity].
Qed.

Lemma store_check_mod h : store_check h = true -> store_sum h mod W32 = h_size h /\ h_u2 h <> 0.
Proof.
  unfold store_check, store_sum. intros H. apply negb_true_iff in H. apply orb_false_iff in H. destruct H as [H1 H2].
  apply negb_false_iff in H1. apply N.eqb_eq in H1. apply N.eqb_neq in H2. split; assumption.
Qed.

(* the check passes exactly when the (unbounded) sum is the payload length, or exceeds it by 2^32 or 2^33 *)
Lemma store_check_cases h p :
  frame_ok h p -> store_check h = true ->
  store_sum h = lenN p \/ store_sum h = lenN p + W32 \/ store_sum h = lenN p + 2 * W32.
Proof.
  intros [(_ & Hs & _ & _ & _ & _ & H2 & H3 & H4 & _) L] C. apply store_check_mod in C. destruct C as [C _].
  rewrite L. unfold store_sum in *. unfold W32 in *. lia.
Qed.

Lemma skipn_add {A} a b (l : list A) : skipn (a + b) l = skipn b (skipn a l).
Proof.
  revert l. induction a as [|a IH]; intros l; [reflexivity|].
  destruct l as [|x r]; cbn [Nat.add skipn]; [destruct b; reflexivity|apply IH].
Qed.
Lemma split3 (p : bytes) a b c :
  a + b + c = lenN p -> p = take a p ++ take b (drop a p) ++ take c (drop (a + b) p).
Proof.
  unfold take, drop, lenN. intros H. rewrite N2Nat.inj_add, skipn_add.
  rewrite (firstn_all2 (n := N.to_nat c)).
  - rewrite (firstn_skipn (N.to_nat b)), (firstn_skipn (N.to_nat a)). reflexivity.
  - rewrite !skipn_length. lia.
Qed.

(* without wrap-around the check is exact *)
Lemma store_check_exact h p :
  frame_ok h p -> store_check h = true -> store_sum h < W32 ->
  store_sum h = lenN p /\
  p = take (h_u2 h) p ++ take (h_u3 h) (drop (h_u2 h) p) ++ take (h_u4 h) (drop (h_u2 h + h_u3 h) p) /\
  take (h_u2 h) p <> [].
Proof.
  intros F C LT. pose proof (store_check_mod h C) as [M NZ]. destruct F as [OK L].
  rewrite N.mod_small in M by exact LT.
  assert (store_sum h = lenN p) as E by congruence.
  split; [exact E|]. split; [apply split3; exact E|].
  intros H. apply (f_equal (@length N)) in H. unfold take in H. rewrite firstn_length in H. cbn [length] in H.
  unfold store_sum, lenN in E. lia.
Qed.

(* a size limit under which no wrap is possible: frames shorter than 2^31 bytes whose three length fields do not exceed
   the frame size each (a per-field check); at 2^31 the per-field check is not enough (witness below, not replayable) *)
Lemma store_check_exact_small h p :
  frame_ok h p -> store_check h = true -> h_size h < 2147483648 ->
  h_u2 h <= h_size h -> h_u3 h <= h_size h -> h_u4 h <= h_size h -> store_sum h = lenN p.
Proof.
  intros F C S A B D. destruct (store_check_cases h p F C) as [E|[E|E]]; [exact E| |];
    destruct F as [_ L]; rewrite L in E; unfold store_sum, W32 in E; lia.
Qed.

(* refutation: a frame of one payload byte passes the check although its value region would end 2^32 bytes after the frame *)
Definition wrap_hdr : hdr := mkH op_store 1 0 0 2000 0 1 4294967295 1 0.
Lemma store_check_wraps :
  exists h p, frame_ok h p /\ store_check h = true /\ lenN p < h_u2 h + h_u3 h /\
              fst (fst (srv_handle 1000 h p c_empty)) = hdr0 op_done.
Proof.
  exists wrap_hdr, [107]. split; [|split; [vm_compute; reflexivity|split; [vm_compute; reflexivity|]]].
  - split; [|reflexivity]. vm_compute. repeat split; reflexivity.
  - unfold srv_handle. change (h_op wrap_hdr =? op_fetch) with false. change (h_op wrap_hdr =? op_rise) with false.
    change (h_op wrap_hdr =? op_clear) with false. change (h_op wrap_hdr =? op_store) with true. cbv iota.
    rewrite srv_store_accepts by (vm_compute; reflexivity).
    unfold take, drop. change (N.to_nat (h_u2 wrap_hdr)) with 1%nat.
    assert (skipn (N.to_nat (h_u2 wrap_hdr + h_u3 wrap_hdr)) [107] = []) as ->.
    { apply skipn_all2. cbn [length]. change (h_u2 wrap_hdr + h_u3 wrap_hdr) with 4294967296. lia. }
    rewrite firstn_nil. reflexivity.
Qed.
(* the per-field bound does not help from 2^31 on: key, value and trigger region of 2^31 bytes each in a 2^31 byte frame *)
Lemma store_check_wraps_with_bounded_fields :
  let h := mkH op_store 2147483648 0 0 0 0 2147483648 2147483648 2147483648 0 in
  hdr_ok h /\ store_check h = true /\ h_u2 h <= h_size h /\ h_u3 h <= h_size h /\ h_u4 h <= h_size h /\
  store_sum h = 3 * h_size h.
Proof. cbv zeta. vm_compute. repeat split; try reflexivity; discriminate. Qed.

(* the frames tcp_cache::store builds never wrap when the contents are shorter than 2^32 bytes *)
Lemma client_store_frame_exact k v trg dl :
  lenN (k ++ v ++ enc_trigs trg) < W32 ->
  let h := fst (enc_store k v trg dl) in let p := snd (enc_store k v trg dl) in
  frame_ok h p /\ store_sum h = lenN p /\ store_sum h < W32.
Proof.
  intros LEN. cbv zeta. unfold enc_store, frame_ok, hdr_ok, store_sum. cbn [fst snd h_op h_size h_f0 h_f1 h_u0 h_u1 h_u2 h_u3 h_u4 h_u5].
  rewrite !lenN_app in *.
  assert (z64_lo dl < W32) as A.
  { unfold z64_lo, W32. pose proof (Z.mod_pos_bound dl 4294967296 ltac:(lia)). lia. }
  assert (z64_hi dl < W32) as B.
  { unfold z64_hi, W32. pose proof (Z.mod_pos_bound (dl / 4294967296) 4294967296 ltac:(lia)). lia. }
  unfold op_store, W32 in *. repeat split; try lia.
Qed.
