(* C10 proofs, part 10: the length check of tcp_cache_service::session::store

       if( uint64_t(key_len) + data_len + triggers_len != hin_.size || key_len == 0 )  -> error

   Since /repo b527961 the sum is evaluated in 64 bits (three 32-bit fields cannot overflow it): the model's srv_store
   compares the integers.  session::on_header_in has read exactly hin_.size payload bytes before store() runs (frame_ok).
   The check is exact for EVERY frame: when it passes, the three regions the code reads afterwards partition the payload and
   the key is non-empty.  (Before the repair the sum was taken in uint32 and a 41-byte frame whose sum wrapped made the
   server read 4 GiB behind the frame: finding store-length-sum-wraps, now `fixed:`; that frame is kept as a regression
   Example and as corpus/C10/wrap_regress.case - it must be answered `error` with the server alive.) *)
From CppcmsV Require Import Base.Tac C10.Defs C10.Proofs C10.Codec.
Local Open Scope N_scope.

Definition frame_ok (h : hdr) (p : bytes) : Prop := hdr_ok h /\ lenN p = h_size h.
(* the check of session::store passes (same expression as in srv_store) *)
Definition store_check (h : hdr) : bool :=
  negb (negb (h_u2 h + h_u3 h + h_u4 h =? h_size h) || (h_u2 h =? 0)).
Definition store_sum (h : hdr) : N := h_u2 h + h_u3 h + h_u4 h.

Lemma srv_store_refuses h p c : store_check h = false -> srv_store h p c = (hdr0 op_error, [], c).
Proof.
  unfold store_check, srv_store. cbv zeta. intros H.
  destruct (negb (h_u2 h + h_u3 h + h_u4 h =? h_size h) || (h_u2 h =? 0)); [reflexivity|discriminate H].
Qed.
Lemma srv_store_accepts h p c :
  store_check h = true ->
  srv_store h p c =
    match load_triggers [] (take (h_u4 h) (drop (h_u2 h + h_u3 h) p)) with
    | None => (hdr0 op_error, [], c)
    | Some trg => (hdr0 op_done, [],
                   c_store (take (h_u2 h) p) (take (h_u3 h) (drop (h_u2 h) p)) (mkset trg) (z64_of (h_u0 h) (h_u1 h)) None c)
    end.
Proof.
  unfold store_check, srv_store. cbv zeta. intros H.
  destruct (negb (h_u2 h + h_u3 h + h_u4 h =? h_size h) || (h_u2 h =? 0)); [discriminate H|reflexivity].
Qed.

Lemma store_check_eq h : store_check h = true -> store_sum h = h_size h /\ h_u2 h <> 0.
Proof.
  unfold store_check, store_sum. intros H. apply negb_true_iff in H. apply orb_false_iff in H. destruct H as [H1 H2].
  apply negb_false_iff in H1. apply N.eqb_eq in H1. apply N.eqb_neq in H2. split; assumption.
Qed.

Lemma skipn_add {A} a b (l : list A) : skipn (a + b) l = skipn b (skipn a l).
Proof.
  revert l. induction a as [|a IH]; intros l; [reflexivity|].
  destruct l as [|x r]; cbn [Nat.add skipn]; [destruct b; reflexivity|apply IH].
Qed.
Lemma split3 (p : bytes) a b c :
  a + b + c = lenN p -> p = take a p ++ take b (drop a p) ++ take c (drop (a + b) p).
Proof.
  unfold take, drop, lenN. intros H. rewrite N2Nat.inj_add, skipn_add.
  rewrite (firstn_all2 (n := N.to_nat c)).
  - rewrite (firstn_skipn (N.to_nat b)), (firstn_skipn (N.to_nat a)). reflexivity.
  - rewrite !skipn_length. lia.
Qed.

(* the check is exact, for every frame (no hypothesis on the sizes) *)
Lemma store_check_exact h p :
  lenN p = h_size h -> store_check h = true ->
  store_sum h = lenN p /\
  p = take (h_u2 h) p ++ take (h_u3 h) (drop (h_u2 h) p) ++ take (h_u4 h) (drop (h_u2 h + h_u3 h) p) /\
  take (h_u2 h) p <> [].
Proof.
  intros L C. pose proof (store_check_eq h C) as [M NZ].
  assert (store_sum h = lenN p) as E by congruence.
  split; [exact E|]. split; [apply split3; exact E|].
  intros H. apply (f_equal (@length N)) in H. unfold take in H. rewrite firstn_length in H. cbn [length] in H.
  unfold store_sum, lenN in E. lia.
Qed.
(* and complete: a frame whose three lengths add up to its payload, with a non-empty key, passes *)
Lemma store_check_complete h : store_sum h = h_size h -> h_u2 h <> 0 -> store_check h = true.
Proof.
  unfold store_check, store_sum. intros E NZ. rewrite E, N.eqb_refl. apply N.eqb_neq in NZ. rewrite NZ. reflexivity.
Qed.

(* regression: the frame that crashed the server before b527961 (key_len=1, data_len=2^32-1, triggers_len=1, one payload
   byte) is refused and changes nothing - on every server state *)
Definition wrap_hdr : hdr := mkH op_store 1 0 0 2000 0 1 4294967295 1 0.
Lemma wrapping_frame_refused now c : srv_handle now wrap_hdr [107] c = (hdr0 op_error, [], c).
Proof.
  unfold srv_handle. change (h_op wrap_hdr =? op_fetch) with false. change (h_op wrap_hdr =? op_rise) with false.
  change (h_op wrap_hdr =? op_clear) with false. change (h_op wrap_hdr =? op_store) with true. cbv iota.
  apply srv_store_refuses. vm_compute. reflexivity.
Qed.
(* more generally: no frame whose sum exceeds its payload is accepted, whatever the sum is modulo 2^32 *)
Lemma oversized_sum_refused now h p c :
  h_op h = op_store -> lenN p = h_size h -> lenN p < store_sum h -> srv_handle now h p c = (hdr0 op_error, [], c).
Proof.
  intros O L G. unfold srv_handle. rewrite O.
  change (op_store =? op_fetch) with false. change (op_store =? op_rise) with false.
  change (op_store =? op_clear) with false. change (op_store =? op_store) with true. cbv iota.
  apply srv_store_refuses. unfold store_check, store_sum in *.
  destruct (N.eqb_spec (h_u2 h + h_u3 h + h_u4 h) (h_size h)) as [E|E]; [lia|reflexivity].
Qed.

(* the frames tcp_cache::store builds (contents shorter than 2^32 bytes) are well-formed and pass *)
Lemma client_store_frame_exact k v trg dl :
  lenN (k ++ v ++ enc_trigs trg) < W32 ->
  let h := fst (enc_store k v trg dl) in let p := snd (enc_store k v trg dl) in
  frame_ok h p /\ store_sum h = lenN p /\ store_sum h < W32.
Proof.
  intros LEN. cbv zeta. unfold enc_store, frame_ok, hdr_ok, store_sum. cbn [fst snd h_op h_size h_f0 h_f1 h_u0 h_u1 h_u2 h_u3 h_u4 h_u5].
  rewrite !lenN_app in *.
  assert (z64_lo dl < W32) as A.
  { unfold z64_lo, W32. pose proof (Z.mod_pos_bound dl 4294967296 ltac:(lia)). lia. }
  assert (z64_hi dl < W32) as B.
  { unfold z64_hi, W32. pose proof (Z.mod_pos_bound (dl / 4294967296) 4294967296 ltac:(lia)). lia. }
  unfold op_store, W32 in *. repeat split; try lia.
Qed.
