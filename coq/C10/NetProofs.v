(* C10 proofs, part 12: the transport.  Short transfers (any schedule of positive chunk sizes) do not change what is
   sent and received; with failures anywhere (any schedule) messenger::transmit returns the genuine answer to the genuine
   request or throws - the second attempt sends exactly the original request bytes (since /repo d350cd9) - and the server
   has executed the genuine request at most twice and nothing else; one failure followed by a working reconnect is masked. *)
From CppcmsV Require Import Base.Tac C10.Defs C10.Proofs C10.Codec C10.Wrap C10.NetDefs.
Local Open Scope N_scope.

Definition positive_sched (s : list N) : Prop := Forall (fun k => 0 < k) s.
Lemma positive_tl s : positive_sched s -> positive_sched (tl s).
Proof. destruct s; [intros H; exact H|intros H; inversion H; assumption]. Qed.

Lemma take_add a b (l : bytes) : take (a + b) l = take a l ++ take b (drop a l).
Proof.
  unfold take, drop. rewrite N2Nat.inj_add. generalize (N.to_nat a) as x. generalize (N.to_nat b) as y. clear a b.
  intros y x. revert l. induction x as [|x IH]; intros l; [reflexivity|].
  destruct l as [|z r]; cbn [Nat.add firstn skipn app]; [rewrite firstn_nil; reflexivity|]. rewrite IH. reflexivity.
Qed.
Lemma drop_add a b (l : bytes) : drop (a + b) l = drop b (drop a l).
Proof. unfold drop. rewrite N2Nat.inj_add. apply skipn_add. Qed.
Lemma lenN_drop a (l : bytes) : lenN (drop a l) = lenN l - a.
Proof. unfold lenN, drop. rewrite skipn_length. lia. Qed.
Lemma lenN_take a (l : bytes) : lenN (take a l) = N.min a (lenN l).
Proof. unfold lenN, take. rewrite firstn_length. lia. Qed.
Lemma take_0 (l : bytes) : take 0 l = [].
Proof. reflexivity. Qed.
Lemma drop_0 (l : bytes) : drop 0 l = l.
Proof. reflexivity. Qed.

(* ---------- short transfers ---------- *)
(* if the loop completes, the destination holds exactly the bytes asked for - whatever the schedule *)
Lemma xfer_true fuel : forall sched stream need got s2 rest,
  xfer fuel sched stream need = (true, got, s2, rest) ->
  got = take need stream /\ rest = drop need stream /\ need <= lenN stream.
Proof.
  induction fuel as [|f IH]; intros sched stream need got s2 rest H; cbn [xfer] in H.
  - destruct (N.eqb_spec need 0) as [E|E]; [|discriminate H]. inversion H; subst. repeat split; lia.
  - destruct (N.eqb_spec need 0) as [E|E]; [inversion H; subst; repeat split; lia|].
    set (k := match sched with [] => need | k :: _ => N.min k need end) in *.
    set (k1 := N.min k (lenN stream)) in *.
    destruct (N.eqb_spec k1 0) as [E1|E1]; [discriminate H|].
    destruct (xfer f (tl sched) (drop k1 stream) (need - k1)) as [[[ok g] s3] r3] eqn:X.
    inversion H; subst ok got s2 rest; clear H.
    destruct (IH _ _ _ _ _ _ X) as (G & R & L). rewrite lenN_drop in L.
    assert (k1 <= need) as K by (subst k1 k; destruct sched; lia).
    assert (k1 <= lenN stream) as K2 by (subst k1; lia).
    replace need with (k1 + (need - k1)) at 1 2 by lia. rewrite take_add, drop_add. subst g r3. repeat split; lia.
Qed.
(* if it fails, the destination holds a proper prefix of them *)
Lemma xfer_false fuel : forall sched stream need got s2 rest,
  xfer fuel sched stream need = (false, got, s2, rest) ->
  exists j, j < need /\ got = take j stream /\ j <= lenN stream.
Proof.
  induction fuel as [|f IH]; intros sched stream need got s2 rest H; cbn [xfer] in H.
  - destruct (N.eqb_spec need 0) as [E|E]; [discriminate H|]. inversion H; subst. exists 0. repeat split; lia.
  - destruct (N.eqb_spec need 0) as [E|E]; [discriminate H|].
    set (k := match sched with [] => need | k :: _ => N.min k need end) in *.
    set (k1 := N.min k (lenN stream)) in *.
    destruct (N.eqb_spec k1 0) as [E1|E1]; [inversion H; subst; exists 0; repeat split; lia|].
    destruct (xfer f (tl sched) (drop k1 stream) (need - k1)) as [[[ok g] s3] r3] eqn:X.
    inversion H; subst ok got s2 rest; clear H.
    destruct (IH _ _ _ _ _ _ X) as (j & J1 & J2 & J3). rewrite lenN_drop in J3.
    assert (k1 <= need) as K by (subst k1 k; destruct sched; lia).
    assert (k1 <= lenN stream) as K2 by (subst k1; lia).
    exists (k1 + j). rewrite take_add. subst g. repeat split; lia.
Qed.
(* with a schedule of positive chunk sizes and enough bytes in the stream the loop completes *)
Lemma xfer_ok fuel : forall sched stream need,
  positive_sched sched -> need <= lenN stream -> (N.to_nat need <= fuel)%nat ->
  exists s2, xfer fuel sched stream need = (true, take need stream, s2, drop need stream) /\ positive_sched s2.
Proof.
  induction fuel as [|f IH]; intros sched stream need P L F; cbn [xfer].
  - assert (need = 0) as -> by lia. exists sched. split; [reflexivity|exact P].
  - destruct (N.eqb_spec need 0) as [E|E]; [subst; exists sched; split; [reflexivity|exact P]|].
    set (k := match sched with [] => need | k :: _ => N.min k need end).
    set (k1 := N.min k (lenN stream)).
    assert (0 < k) as K0 by (subst k; destruct sched as [|x r]; [lia|inversion P; subst; lia]).
    assert (k <= need) as K by (subst k; destruct sched; lia).
    assert (0 < k1 /\ k1 <= need /\ k1 <= lenN stream) as (A & B & C) by (subst k1; lia).
    destruct (N.eqb_spec k1 0) as [E1|E1]; [lia|].
    destruct (IH (tl sched) (drop k1 stream) (need - k1) (positive_tl _ P)) as (s2 & X & P2).
    + rewrite lenN_drop. lia.
    + lia.
    + rewrite X. exists s2. split; [|exact P2].
      rewrite <- take_add, <- drop_add. replace (k1 + (need - k1)) with need by lia. reflexivity.
Qed.
Lemma sock_xfer_ok sched stream need :
  positive_sched sched -> need <= lenN stream ->
  exists s2, sock_xfer sched stream need = (true, take need stream, s2, drop need stream) /\ positive_sched s2.
Proof. intros P L. apply xfer_ok; [exact P|exact L|lia]. Qed.

(* ---------- the answers of the server ---------- *)
Definition reply_op (o : N) : Prop := 5 <= o <= 10.
Lemma srv_handle_reply now h p c rh rp c1 :
  srv_handle now h p c = (rh, rp, c1) -> reply_op (h_op rh) /\ lenN rp = h_size rh.
Proof.
  unfold srv_handle, reply_op. intros H.
  assert (forall o, reply_op o -> 5 <= h_op (hdr0 o) <= 10 /\ lenN [] = h_size (hdr0 o)) as Z
    by (intros o R; split; [exact R|reflexivity]).
  assert (reply_op op_error /\ reply_op op_done /\ reply_op op_no_data /\ reply_op op_uptodate) as (R1 & R2 & R3 & R4)
    by (unfold reply_op; vm_compute; intuition discriminate).
  destruct (h_op h =? op_fetch).
  - unfold srv_fetch in H. destruct (c_fetch now p c) as [e|].
    + destruct (((h_u3 h / 2) mod 2 =? 1) && (e_gen e =? h_u0 h + W32 * h_u1 h)); inversion H; subst.
      * apply Z. exact R4.
      * split; [vm_compute; intuition discriminate|reflexivity].
    + inversion H; subst. apply Z. exact R3.
  - destruct (h_op h =? op_rise); [inversion H; subst; apply Z; exact R2|].
    destruct (h_op h =? op_clear); [inversion H; subst; apply Z; exact R2|].
    destruct (h_op h =? op_store).
    + unfold srv_store in H.
      destruct (negb (h_u2 h + h_u3 h + h_u4 h =? h_size h) || (h_u2 h =? 0)); [inversion H; subst; apply Z; exact R1|].
      destruct (load_triggers [] (take (h_u4 h) (drop (h_u2 h + h_u3 h) p))); inversion H; subst; apply Z; assumption.
    + destruct (h_op h =? op_stats).
      * destruct (c_stats c). inversion H; subst. split; [vm_compute; intuition discriminate|reflexivity].
      * inversion H; subst. apply Z. exact R1.
Qed.
(* a frame whose opcode is an ANSWER opcode is refused and changes nothing *)
Lemma srv_handle_refuses_reply_op now h p c : reply_op (h_op h) -> srv_handle now h p c = (hdr0 op_error, [], c).
Proof.
  unfold reply_op, srv_handle, op_fetch, op_rise, op_clear, op_store, op_stats. intros R.
  destruct (N.eqb_spec (h_op h) 0); [lia|]. destruct (N.eqb_spec (h_op h) 1); [lia|].
  destruct (N.eqb_spec (h_op h) 2); [lia|]. destruct (N.eqb_spec (h_op h) 3); [lia|].
  destruct (N.eqb_spec (h_op h) 4); [lia|]. reflexivity.
Qed.

(* ---------- one attempt without failures ---------- *)
Lemma attempt_ok ws rs h mem now c rh rp c1 :
  positive_sched ws -> positive_sched rs -> hdr_ok h -> h_size h <= lenN mem ->
  srv_handle now h (take (h_size h) mem) c = (rh, rp, c1) -> hdr_ok rh ->
  attempt ws rs (hdr_bytes h) mem now c = (AReply rh rp, c1).
Proof.
  intros PW PR OK L S OKR. unfold attempt. rewrite (hdr_roundtrip h OK).
  destruct (sock_xfer_ok ws (hdr_bytes h ++ take (h_size h) mem) (40 + h_size h) PW) as (s2 & X & _).
  { rewrite lenN_app, lenN_take. unfold lenN at 1. rewrite hdr_bytes_length. lia. }
  rewrite X, S.
  destruct (srv_handle_reply _ _ _ _ _ _ _ S) as [_ LR].
  destruct (sock_xfer_ok rs (hdr_bytes rh ++ rp) 40 PR) as (s3 & X2 & P3).
  { rewrite lenN_app. unfold lenN at 1. rewrite hdr_bytes_length. lia. }
  rewrite X2.
  change 40 with (lenN (hdr_bytes rh)). rewrite take_app, drop_app.
  destruct (sock_xfer_ok s3 rp (h_size rh) P3) as (s4 & X3 & _); [lia|].
  rewrite X3. rewrite <- LR, take_all. reflexivity.
Qed.

(* messenger::transmit over any schedules of positive chunk sizes = the atomic RPC of Defs.v, whatever the schedules *)
Lemma transmit_schedule_independent ws1 rs1 up ws2 rs2 h data pad now c rh rp c1 :
  positive_sched ws1 -> positive_sched rs1 -> hdr_ok h -> h_size h = lenN data ->
  srv_handle now h data c = (rh, rp, c1) -> hdr_ok rh ->
  transmit ws1 rs1 up ws2 rs2 h (data ++ pad) now c = (TxReply rh rp, c1).
Proof.
  intros P1 P2 OK SZ S OKR. unfold transmit.
  unfold restore. rewrite (attempt_ok ws1 rs1 h (data ++ pad) now c rh rp c1); try assumption; [reflexivity| |].
  - rewrite lenN_app. lia.
  - rewrite SZ, take_app. exact S.
Qed.

(* ---------- failures anywhere ---------- *)
(* the second attempt sends exactly the original request: header and payload, whatever the failed first attempt left in
   the header object (hb) and whatever lies behind the request string in memory (pad) *)
Lemma retry_sends_exactly_the_request h data pad hb :
  hdr_ok h -> h_size h = lenN data -> second_request h hb (data ++ pad) = Some (h, data).
Proof.
  intros OK SZ. unfold second_request, restore, retry_request. rewrite (hdr_roundtrip h OK), SZ, take_app. reflexivity.
Qed.

(* a schedule for the answer that fails exactly j bytes into it (header: j < 40; body: j >= 40) *)
Definition fail_at (j : N) : list N := if j =? 0 then [0] else if j <=? 40 then [j; 0] else [40; j - 40; 0].

(* one attempt under ANY schedules, started from the request header: a complete answer is the genuine one; after a failure the
   server has handled the request or not, nothing else *)
Lemma attempt_any ws rs h data pad now cc a b cc1 :
  hdr_ok h -> h_size h = lenN data -> srv_handle now h data cc = (a, b, cc1) -> hdr_ok a ->
  match attempt ws rs (hdr_bytes h) (data ++ pad) now cc with
  | (AReply x y, c') => x = a /\ y = b /\ c' = cc1
  | (AFail _ dm, c') => dm = data ++ pad /\ (c' = cc \/ c' = cc1)
  end.
Proof.
  intros OK SZ S OKA. destruct (srv_handle_reply _ _ _ _ _ _ _ S) as [_ LR].
  unfold attempt. rewrite (hdr_roundtrip h OK). rewrite SZ, take_app, S.
  destruct (sock_xfer ws (hdr_bytes h ++ data) (40 + lenN data)) as [[[ok g] s2] r] eqn:X.
  destruct ok; [|split; [reflexivity|left; reflexivity]].
  destruct (sock_xfer rs (hdr_bytes a ++ b) 40) as [[[ok2 g2] s3] r3] eqn:X2.
  destruct ok2; [|split; [reflexivity|right; reflexivity]].
  apply xfer_true in X2. destruct X2 as (G2 & R3 & _).
  change 40 with (lenN (hdr_bytes a)) in G2, R3. rewrite take_app in G2. rewrite drop_app in R3. subst g2 r3.
  destruct (sock_xfer s3 b (h_size a)) as [[[ok3 g3] s4] r4] eqn:X3.
  destruct ok3; [|split; [reflexivity|right; reflexivity]].
  apply xfer_true in X3. destruct X3 as (G3 & _ & _). rewrite <- LR, take_all in G3. subst g3. repeat split.
Qed.

(* messenger::transmit under ANY transfer schedules (failures anywhere, reconnect refused or not): with
   (rh,rp,c1) the server's handling of the genuine request and (rh2,rp2,c2) its handling a second time,
   - an answer that transmit returns is the genuine answer to the first or to the second execution - nothing else;
   - whatever happens the server has executed the genuine request zero, one or two times and nothing else. *)
Lemma transmit_any_schedule ws1 rs1 up ws2 rs2 h data pad now c rh rp c1 rh2 rp2 c2 :
  hdr_ok h -> h_size h = lenN data ->
  srv_handle now h data c = (rh, rp, c1) -> hdr_ok rh ->
  srv_handle now h data c1 = (rh2, rp2, c2) -> hdr_ok rh2 ->
  match transmit ws1 rs1 up ws2 rs2 h (data ++ pad) now c with
  | (TxReply a b, c') => (a = rh /\ b = rp /\ c' = c1) \/ (a = rh2 /\ b = rp2 /\ c' = c2)
  | (TxExn, c') => c' = c \/ c' = c1 \/ c' = c2
  end.
Proof.
  intros OK SZ S1 OK1 S2 OK2. unfold transmit, restore.
  pose proof (attempt_any ws1 rs1 h data pad now c rh rp c1 OK SZ S1 OK1) as A1.
  destruct (attempt ws1 rs1 (hdr_bytes h) (data ++ pad) now c) as [[x y|hb dm] c'] eqn:E1.
  - destruct A1 as (-> & -> & ->). left. repeat split.
  - destruct A1 as [-> A1]. destruct up.
    + destruct A1 as [-> | ->].
      * pose proof (attempt_any ws2 rs2 h data pad now c rh rp c1 OK SZ S1 OK1) as A2.
        destruct (attempt ws2 rs2 (hdr_bytes h) (data ++ pad) now c) as [[x y|hb2 dm2] c''].
        -- destruct A2 as (-> & -> & ->). left. repeat split.
        -- destruct A2 as [_ [-> | ->]]; [left; reflexivity|right; left; reflexivity].
      * pose proof (attempt_any ws2 rs2 h data pad now c1 rh2 rp2 c2 OK SZ S2 OK2) as A2.
        destruct (attempt ws2 rs2 (hdr_bytes h) (data ++ pad) now c1) as [[x y|hb2 dm2] c''].
        -- destruct A2 as (-> & -> & ->). right. repeat split.
        -- destruct A2 as [_ [-> | ->]]; [right; left; reflexivity|right; right; reflexivity].
    + destruct A1 as [-> | ->]; [left; reflexivity|right; left; reflexivity].
Qed.

(* ONE failure anywhere in the first attempt, followed by a reconnect that works and a second attempt without failure, is
   masked: the caller gets the genuine answer (to the first execution if the request had not reached the server, else to the
   second), never an exception, never an `error` *)
Lemma one_failure_is_masked ws1 rs1 ws2 rs2 h data pad now c rh rp c1 rh2 rp2 c2 :
  positive_sched ws2 -> positive_sched rs2 -> hdr_ok h -> h_size h = lenN data ->
  srv_handle now h data c = (rh, rp, c1) -> hdr_ok rh ->
  srv_handle now h data c1 = (rh2, rp2, c2) -> hdr_ok rh2 ->
  transmit ws1 rs1 true ws2 rs2 h (data ++ pad) now c = (TxReply rh rp, c1) \/
  transmit ws1 rs1 true ws2 rs2 h (data ++ pad) now c = (TxReply rh2 rp2, c2).
Proof.
  intros P1 P2 OK SZ S1 OK1 S2 OK2. unfold transmit, restore.
  pose proof (attempt_any ws1 rs1 h data pad now c rh rp c1 OK SZ S1 OK1) as A1.
  assert (h_size h <= lenN (data ++ pad)) as LE by (rewrite lenN_app; lia).
  destruct (attempt ws1 rs1 (hdr_bytes h) (data ++ pad) now c) as [[x y|hb dm] c'] eqn:E1.
  - destruct A1 as (-> & -> & ->). left. reflexivity.
  - destruct A1 as [-> [-> | ->]].
    + left. rewrite (attempt_ok ws2 rs2 h (data ++ pad) now c rh rp c1); try assumption; [reflexivity|].
      rewrite SZ, take_app. exact S1.
    + right. rewrite (attempt_ok ws2 rs2 h (data ++ pad) now c1 rh2 rp2 c2); try assumption; [reflexivity|].
      rewrite SZ, take_app. exact S2.
Qed.

Definition request_op (o : N) : Prop := o < 5.

(* what tcp_cache::fetch makes of an `error` answer (unknown opcode, refused frame): not found - never a value *)
Lemma error_answer_is_a_miss tif want : dec_fetch tif want (hdr0 op_error) [] = FNotFound.
Proof. destruct tif; reflexivity. Qed.

(* ANY single failure point of the first attempt - while the request goes out, anywhere in the answer header, anywhere in the
   answer BODY (every schedule: every point) - leaves header copy and request string such that the retry re-sends exactly the
   original request: header AND payload *)
Lemma retry_after_any_failure_resends_the_request ws rs h data pad now c hb dm c' :
  hdr_ok h -> h_size h = lenN data ->
  (forall rh rp c1, srv_handle now h data c = (rh, rp, c1) -> hdr_ok rh) ->
  attempt ws rs (hdr_bytes h) (data ++ pad) now c = (AFail hb dm, c') ->
  dm = data ++ pad /\ second_request h hb dm = Some (h, data).
Proof.
  intros OK SZ OKR E. destruct (srv_handle now h data c) as [[rh rp] c1] eqn:S.
  pose proof (attempt_any ws rs h data pad now c rh rp c1 OK SZ S (OKR _ _ _ eq_refl)) as A. rewrite E in A.
  destruct A as [-> _]. split; [reflexivity|]. apply retry_sends_exactly_the_request; assumption.
Qed.
