(* C10 proofs, part 11: cache server restarts (outside the quantifier of the property, which has no restart event).
   What holds across restarts and what does not, precisely:
   - reachable_r = reachable + any number of restarts of any servers at any time (Defs.restart: the server comes back empty
     with its generation counter at 0).
   - fetch_across_restarts: in every such world a fetch by any node answers EITHER what the responsible server holds now
     (the statement of the property) OR - only for a node with an L1 - the record of the node's own L1, and then the server's
     current record for that key carries the same generation number as the L1 copy (the handshake was fooled).
     Corollary: nodes without an L1 are never affected by restarts.
   - restart_harmless: a restart of server s in a reachable world in which no L1 holds a record for a key of server s leaves
     the world coherent (the invariant of Coherence.v holds again, so every theorem about reachable worlds applies to
     all further histories).
   - The remaining case is real: Props.restart_breaks_handshake (replayed on the implementation). *)
From CppcmsV Require Import Base.Tac C10.Defs C10.Proofs C10.Coherence.
Local Open Scope N_scope.

Inductive reachable_r : world -> Prop :=
| rr_init ns l1 : reachable_r (init_world ns l1)
| rr_step w o : reachable_r w -> reachable_r (snd (step w o))
| rr_restart w s : reachable_r w -> reachable_r (restart w s).

(* the only invariant that survives restarts: deadlines held by servers are int64 values *)
Definition all64S (srv : list cache) : Prop :=
  forall i s k e, nth_error srv i = Some s -> In (k, e) (c_items s) -> int64 (e_dl e).
Definition all64 (w : world) : Prop := all64S (w_srv w).

Lemma srv_change_64 c c1 :
  srv_change c c1 -> (forall k e, In (k, e) (c_items c) -> int64 (e_dl e)) ->
  forall k e, In (k, e) (c_items c1) -> int64 (e_dl e).
Proof.
  intros CH A k e H. destruct CH as [|t| |k0 v trg lo hi].
  - apply (A k e H).
  - apply (A k e). eapply c_rise_sub. exact H.
  - contradiction.
  - cbn [c_store c_items] in H. destruct H as [H|H].
    + inversion H; subst. cbn [e_dl]. apply z64_of_int64.
    + apply (A k e). eapply a_remove_In. exact H.
Qed.

Lemma rpc_64 w i rq h p w1 : all64 w -> rpc w i rq = (h, p, w1) -> all64 w1 /\ w_cli w1 = w_cli w /\ w_now w1 = w_now w /\ nsrv w1 = nsrv w.
Proof.
  unfold all64, rpc. intros A H. destruct (nth_error (w_srv w) i) as [c|] eqn:Ei.
  - destruct (srv_handle (w_now w) (fst rq) (snd rq) c) as [[h2 p2] c1] eqn:Eh. inversion H; subst; clear H.
    unfold nsrv. cbn [w_srv w_cli w_now]. rewrite upd_length. split; [|repeat split].
    intros j s k e Hj Hin. apply nth_upd_inv in Hj. destruct Hj as [[E1 E2]|[E1 E2]].
    + subst. eapply srv_change_64; [eapply srv_handle_change; exact Eh| |exact Hin].
      intros k1 e1 H1. eapply A; eassumption.
    + eapply A; eassumption.
  - inversion H; subst. split; [exact A|repeat split].
Qed.
Lemma rpc_64a w i rq h p w1 : all64 w -> rpc w i rq = (h, p, w1) -> all64 w1.
Proof. intros A H. apply (rpc_64 w i rq h p w1 A H). Qed.
Lemma broadcast_64 n w rq : all64 w -> all64 (broadcast n w rq).
Proof.
  induction n as [|m IH]; intros A; cbn [broadcast]; [exact A|].
  destruct (rpc (broadcast m w rq) m rq) as [[h p] w2] eqn:E. eapply rpc_64a; [apply IH; exact A|exact E].
Qed.
Lemma stats_sum_64 n w k t w1 : all64 w -> stats_sum n w = (k, t, w1) -> all64 w1.
Proof.
  revert k t w1. induction n as [|m IH]; intros k t w1 A H; cbn [stats_sum] in H.
  - inversion H; subst. exact A.
  - destruct (stats_sum m w) as [[k0 t0] w0] eqn:E0. specialize (IH _ _ _ A eq_refl).
    destruct (rpc w0 m enc_stats) as [[h p] w2] eqn:E.
    assert (w1 = w2) as -> by (destruct (h_op h =? op_out_stats); inversion H; reflexivity).
    exact (rpc_64a _ _ _ _ _ _ IH E).
Qed.
Lemma on_l1_srv w c f w1 : on_l1 w c f = Some w1 -> w_srv w1 = w_srv w.
Proof. unfold on_l1. destruct (nth_error (w_cli w) c) as [[l|]|]; intros H; inversion H; reflexivity. Qed.

(* one fetch, with nothing but all64 known about the world *)
Definition fooled (w : world) (c : nat) (k : bytes) (r : option (bytes * list bytes * Z)) : Prop :=
  exists l e s e1, nth_error (w_cli w) c = Some (Some l) /\ c_fetch (w_now w) k l = Some e /\
    nth_error (w_srv w) (server_of (nsrv w) k) = Some s /\ c_fetch (w_now w) k s = Some e1 /\
    e_gen e1 = e_gen e /\ exists t, r = Some (e_val e, t, e_dl e).

Lemma all64_fetch w i s k e : all64 w -> nth_error (w_srv w) i = Some s -> c_fetch (w_now w) k s = Some e -> int64 (e_dl e).
Proof. intros A Ei Ef. eapply A; [exact Ei|eapply c_fetch_In; exact Ef]. Qed.

Lemma client_fetch_r w c k tags x w1 :
  all64 w -> client_fetch w c k tags = (x, w1) ->
  w_srv w1 = w_srv w /\ forall r, x = ObsFetch r -> current w k r \/ fooled w c k r.
Proof.
  intros A H. unfold client_fetch in H. unfold current.
  set (i := server_of (nsrv w) k) in *.
  destruct (nth_error (w_cli w) c) as [[l1|]|] eqn:Ec.
  - destruct (c_fetch (w_now w) k l1) as [e1|] eqn:E1.
    + destruct (nth_error (w_srv w) i) as [s|] eqn:Ei.
      * destruct (rpc_fetch_some w i s k (e_gen e1) true true Ei) as (h & p & R & D).
        rewrite R in H. rewrite D in H. unfold fetch_answer in H.
        destruct (c_fetch (w_now w) k s) as [e|] eqn:Es.
        -- pose proof (all64_fetch w i s k e A Ei Es) as H64.
           cbn [andb] in H. destruct (e_gen e =? e_gen e1) eqn:Eg.
           ++ inversion H; subst x w1; clear H. split; [reflexivity|].
              intros r Hr. inversion Hr; subst r; clear Hr. right.
              apply N.eqb_eq in Eg. exists l1, e1, s, e. repeat split; try assumption. eexists. reflexivity.
           ++ rewrite z64_roundtrip in H by exact H64. inversion H; subst x w1; clear H.
              split; [reflexivity|]. intros r Hr. inversion Hr; subst r. left. split; reflexivity.
        -- inversion H; subst x w1; clear H. split; [reflexivity|]. intros r Hr. inversion Hr; subst r. left. exact Logic.I.
      * destruct (rpc_fetch_none w i k (e_gen e1) true true Ei) as (h & p & R & D).
        rewrite R in H. rewrite D in H. inversion H; subst x w1; clear H.
        split; [reflexivity|]. intros r Hr. inversion Hr; subst r. left. reflexivity.
    + destruct (nth_error (w_srv w) i) as [s|] eqn:Ei.
      * destruct (rpc_fetch_some w i s k 0 true false Ei) as (h & p & R & D).
        rewrite R in H. rewrite D in H. unfold fetch_answer in H. cbn [andb] in H.
        destruct (c_fetch (w_now w) k s) as [e|] eqn:Es.
        -- pose proof (all64_fetch w i s k e A Ei Es) as H64.
           rewrite z64_roundtrip in H by exact H64. inversion H; subst x w1; clear H.
           split; [reflexivity|]. intros r Hr. inversion Hr; subst r. left. split; reflexivity.
        -- inversion H; subst x w1; clear H. split; [reflexivity|]. intros r Hr. inversion Hr; subst r. left. exact Logic.I.
      * destruct (rpc_fetch_none w i k 0 true false Ei) as (h & p & R & D).
        rewrite R in H. rewrite D in H. inversion H; subst x w1; clear H.
        split; [reflexivity|]. intros r Hr. inversion Hr; subst r. left. reflexivity.
  - destruct (nth_error (w_srv w) i) as [s|] eqn:Ei.
    + destruct (rpc_fetch_some w i s k 0 tags false Ei) as (h & p & R & D).
      rewrite R in H. rewrite D in H. unfold fetch_answer in H. cbn [andb] in H.
      destruct (c_fetch (w_now w) k s) as [e|] eqn:Es.
      * pose proof (all64_fetch w i s k e A Ei Es) as H64.
        rewrite z64_roundtrip in H by exact H64. inversion H; subst x w1; clear H.
        split; [reflexivity|]. intros r Hr. inversion Hr; subst r. left. split; reflexivity.
      * inversion H; subst x w1; clear H. split; [reflexivity|]. intros r Hr. inversion Hr; subst r. left. exact Logic.I.
    + destruct (rpc_fetch_none w i k 0 tags false Ei) as (h & p & R & D).
      rewrite R in H. rewrite D in H. inversion H; subst x w1; clear H.
      split; [reflexivity|]. intros r Hr. inversion Hr; subst r. left. reflexivity.
  - inversion H; subst x w1. split; [reflexivity|]. intros r Hr. discriminate.
Qed.

Lemma step_64 w o : all64 w -> all64 (snd (step w o)).
Proof.
  intros A. destruct o as [c k v trg dl|c k tags|c t|c|c k|c|d|s h p]; cbn [step].
  - destruct (on_l1 w c (c_remove k)) as [w0|] eqn:E0; [|exact A].
    assert (all64 w0) as A0 by (unfold all64; rewrite (on_l1_srv _ _ _ _ E0); exact A).
    destruct (rpc w0 (server_of (nsrv w0) k) (enc_store k v (mkset trg) dl)) as [[h1 p1] w2] eqn:E.
    cbn [snd]. exact (rpc_64a _ _ _ _ _ _ A0 E).
  - destruct (client_fetch w c k tags) as [x0 w0] eqn:E.
    destruct (client_fetch_r w c k tags x0 w0 A E) as [S _].
    assert (all64 w0) as A0 by (unfold all64; rewrite S; exact A).
    destruct x0 as [|[[[v t] d]|]| | |]; exact A0.
  - destruct (on_l1 w c (c_rise t)) as [w0|] eqn:E0; [|exact A].
    cbn [snd]. apply broadcast_64. unfold all64. rewrite (on_l1_srv _ _ _ _ E0). exact A.
  - destruct (on_l1 w c c_clear) as [w0|] eqn:E0; [|exact A].
    cbn [snd]. apply broadcast_64. unfold all64. rewrite (on_l1_srv _ _ _ _ E0). exact A.
  - destruct (on_l1 w c (c_remove k)) as [w0|] eqn:E0; [|exact A].
    cbn [snd]. unfold all64. rewrite (on_l1_srv _ _ _ _ E0). exact A.
  - destruct (nth_error (w_cli w) c); [|exact A].
    destruct (stats_sum (nsrv w) w) as [[k t] w0] eqn:E. cbn [snd]. eapply stats_sum_64; eassumption.
  - exact A.
  - destruct (nth_error (w_srv w) s); [|exact A].
    destruct (rpc w s (h, p)) as [[h1 p1] w0] eqn:E. cbn [snd]. exact (rpc_64a _ _ _ _ _ _ A E).
Qed.

Lemma restart_64 w s : all64 w -> all64 (restart w s).
Proof.
  unfold all64, restart. cbn [w_srv]. intros A j c k e Hj Hin. apply nth_upd_inv in Hj. destruct Hj as [[E1 E2]|[E1 E2]].
  - subst. contradiction.
  - eapply A; eassumption.
Qed.

Lemma reachable_r_64 w : reachable_r w -> all64 w.
Proof.
  induction 1 as [ns l1|w o R IH|w s R IH].
  - unfold all64, init_world. cbn [w_srv]. intros i s k e H Hin.
    apply nth_error_In in H. apply repeat_spec in H. subst s. contradiction.
  - apply step_64. exact IH.
  - apply restart_64. exact IH.
Qed.

Lemma reachable_is_reachable_r w : reachable w -> reachable_r w.
Proof. induction 1; [constructor|constructor; assumption]. Qed.

(* the precise statement across restarts *)
Lemma fetch_across_restarts w c k tags r w1 :
  reachable_r w -> step w (OFetch c k tags) = (ObsFetch r, w1) -> current w k r \/ fooled w c k r.
Proof.
  intros R H. pose proof (reachable_r_64 w R) as A. cbn [step] in H.
  destruct (client_fetch w c k tags) as [x0 w0] eqn:E.
  destruct (client_fetch_r w c k tags x0 w0 A E) as [_ C].
  destruct x0 as [|[[[v t] d]|]| | |]; inversion H; subst.
  - destruct (C _ eq_refl) as [C1|C1].
    + left. unfold current in *. destruct (nth_error (w_srv w) (server_of (nsrv w) k)); [|discriminate].
      destruct (c_fetch (w_now w) k c0); exact C1.
    + right. destruct C1 as (l & e & s & e1 & H1 & H2 & H3 & H4 & H5 & (t0 & H6)).
      inversion H6; subst. exists l, e, s, e1. repeat split; try assumption. eexists. reflexivity.
  - apply C. reflexivity.
Qed.

Lemma fetch_without_l1_across_restarts w c k tags r w1 :
  reachable_r w -> nth_error (w_cli w) c = Some None ->
  step w (OFetch c k tags) = (ObsFetch r, w1) -> current w k r.
Proof.
  intros R N H. destruct (fetch_across_restarts w c k tags r w1 R H) as [C|(l & e & s & e1 & H1 & _)]; [exact C|congruence].
Qed.

(* a restart is harmless when no L1 holds a record for a key of the restarted server *)
Definition coherent (w : world) : Prop := exists logs, Inv w logs.
Lemma coherent_run w h : coherent w -> coherent (snd (run w h)).
Proof. intros [logs I]. destruct (run_inv w logs h I) as (l1 & I1 & _). exists l1. exact I1. Qed.
Lemma coherent_fetch w c k tags r w1 :
  coherent w -> step w (OFetch c k tags) = (ObsFetch r, w1) -> current w k r.
Proof.
  intros [logs I] H. cbn [step] in H.
  destruct (client_fetch w c k tags) as [x0 w0] eqn:E.
  destruct (client_fetch_inv w logs c k tags x0 w0 I E) as (_ & _ & _ & _ & C).
  destruct x0 as [|[[[v t] d]|]| | |]; inversion H; subst.
  - specialize (C _ eq_refl). unfold current in *.
    destruct (nth_error (w_srv w) (server_of (nsrv w) k)); [|discriminate].
    destruct (c_fetch (w_now w) k c0); exact C.
  - apply C. reflexivity.
Qed.

Definition l1s_hold_nothing_of (w : world) (s : nat) : Prop :=
  forall j l k e, nth_error (w_cli w) j = Some (Some l) -> In (k, e) (c_items l) -> server_of (nsrv w) k <> s.

Lemma restart_coherent w s : coherent w -> l1s_hold_nothing_of w s -> coherent (restart w s).
Proof.
  intros [logs [[IS IC] ND]] NO. exists (fun i => if Nat.eqb i s then [] else logs i).
  split; [split|].
  - unfold restart. cbn [w_srv]. intros i c Hi. apply nth_upd_inv in Hi. destruct Hi as [[E1 E2]|[E1 E2]].
    + subst. rewrite Nat.eqb_refl. split; [constructor|]. split; intros; contradiction.
    + destruct (Nat.eqb_spec i s) as [E|E]; [congruence|]. apply IS. exact E2.
  - unfold restart, nsrv. cbn [w_cli w_srv]. rewrite upd_length. intros j l Hj k e Hin.
    pose proof (NO j l k e Hj Hin) as NE. unfold nsrv in NE.
    destruct (Nat.eqb_spec (server_of (length (w_srv w)) k) s) as [E|E]; [congruence|].
    apply (IC j l Hj k e Hin).
  - intros i. destruct (Nat.eqb i s); [constructor|apply ND].
Qed.

Lemma restart_harmless w s h c k tags r w1 :
  reachable w -> l1s_hold_nothing_of w s ->
  step (snd (run (restart w s) h)) (OFetch c k tags) = (ObsFetch r, w1) -> current (snd (run (restart w s) h)) k r.
Proof.
  intros R NO H. eapply coherent_fetch; [|exact H]. apply coherent_run. apply restart_coherent; [|exact NO].
  destruct (reachable_inv w R) as [logs I]. exists logs. exact I.
Qed.
