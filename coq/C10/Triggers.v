(* C10 proofs, part 7: trigger sets at system level.  Every record on every server of every reachable world has a
   trigger set in std::set normal form; a fetch-with-triggers by a node without L1 (and by a node with L1 on an L1
   miss) returns the server's trigger set unchanged when its names are NUL-free; a node with an L1 returns a superset. *)
From CppcmsV Require Import Base.Tac C10.Defs C10.Proofs C10.Coherence C10.Codec C10.Effects C10.Refine C10.Placement.
Local Open Scope N_scope.

(* ---------- a property of server caches that every request preserves holds in every reachable world ---------- *)
Lemma Forall_upd {A} (P : A -> Prop) i x l : Forall P l -> P x -> Forall P (upd i x l).
Proof.
  revert i. induction l as [|y r IH]; intros i F Px; [destruct i; constructor|].
  inversion F; subst. destruct i; cbn [upd]; constructor; auto.
Qed.

Section ServerPredicate.
  Variable P : cache -> Prop.
  Hypothesis P_handle : forall now h p c, P c -> P (snd (srv_handle now h p c)).

  Lemma rpc_pred w i rq h p w1 : Forall P (w_srv w) -> rpc w i rq = (h, p, w1) -> Forall P (w_srv w1).
  Proof.
    intros F H. unfold rpc in H. destruct (nth_error (w_srv w) i) as [c|] eqn:E.
    - pose proof (P_handle (w_now w) (fst rq) (snd rq) c) as PH.
      destruct (srv_handle (w_now w) (fst rq) (snd rq) c) as [[h2 p2] c1]. inversion H; subst. cbn [w_srv].
      apply Forall_upd; [exact F|]. apply PH. rewrite Forall_forall in F. apply F. eapply nth_error_In. exact E.
    - inversion H; subst. exact F.
  Qed.
  Lemma broadcast_pred n w rq : Forall P (w_srv w) -> Forall P (w_srv (broadcast n w rq)).
  Proof.
    intros F. induction n as [|m IH]; cbn [broadcast]; [exact F|].
    destruct (rpc (broadcast m w rq) m rq) as [[h p] w2] eqn:E. eapply rpc_pred; eassumption.
  Qed.
  Lemma stats_sum_pred n w k t w1 : Forall P (w_srv w) -> stats_sum n w = (k, t, w1) -> Forall P (w_srv w1).
  Proof.
    revert k t w1. induction n as [|m IH]; intros k t w1 F H; cbn [stats_sum] in H.
    - inversion H; subst. exact F.
    - destruct (stats_sum m w) as [[k0 t0] w0] eqn:E0. specialize (IH _ _ _ F eq_refl).
      destruct (rpc w0 m enc_stats) as [[h p] w2] eqn:E. pose proof (rpc_pred _ _ _ _ _ _ IH E) as F2.
      destruct (h_op h =? op_out_stats); inversion H; subst; exact F2.
  Qed.
  Lemma client_fetch_pred w c k tags x w1 : Forall P (w_srv w) -> client_fetch w c k tags = (x, w1) -> Forall P (w_srv w1).
  Proof.
    intros F H. unfold client_fetch in H. destruct (nth_error (w_cli w) c) as [[l1|]|].
    - destruct (c_fetch (w_now w) k l1) as [e|].
      + destruct (rpc w (server_of (nsrv w) k) (enc_fetch k (e_gen e) true true)) as [[h p] w2] eqn:E.
        pose proof (rpc_pred _ _ _ _ _ _ F E) as F2.
        destruct (dec_fetch true true h p); inversion H; subst; exact F2.
      + destruct (rpc w (server_of (nsrv w) k) (enc_fetch k 0 true false)) as [[h p] w2] eqn:E.
        pose proof (rpc_pred _ _ _ _ _ _ F E) as F2.
        destruct (dec_fetch false true h p); inversion H; subst; exact F2.
    - destruct (rpc w (server_of (nsrv w) k) (enc_fetch k 0 tags false)) as [[h p] w2] eqn:E.
      pose proof (rpc_pred _ _ _ _ _ _ F E) as F2.
      destruct (dec_fetch false tags h p); inversion H; subst; exact F2.
    - inversion H; subst. exact F.
  Qed.
  Lemma on_l1_pred w c f w0 : Forall P (w_srv w) -> on_l1 w c f = Some w0 -> Forall P (w_srv w0).
  Proof. intros F H. destruct (on_l1_frame _ _ _ _ H) as [S _]. rewrite S. exact F. Qed.

  Lemma step_pred w o : Forall P (w_srv w) -> Forall P (w_srv (snd (step w o))).
  Proof.
    intros F. destruct (step w o) as [x w1] eqn:H. cbn [snd].
    destruct o as [c k v trg dl|c k tags|c t|c|c k|c|d|s h p]; cbn [step] in H.
    - destruct (on_l1 w c (c_remove k)) as [w0|] eqn:E0.
      + destruct (rpc w0 (server_of (nsrv w0) k) (enc_store k v (mkset trg) dl)) as [[h1 p1] w2] eqn:E.
        inversion H; subst. eapply rpc_pred; [eapply on_l1_pred; eassumption|exact E].
      + inversion H; subst. exact F.
    - destruct (client_fetch w c k tags) as [x0 w0] eqn:E. pose proof (client_fetch_pred _ _ _ _ _ _ F E) as F2.
      assert (w1 = w0) as -> by (destruct x0 as [|[[[v t] d]|]| | |]; inversion H; reflexivity). exact F2.
    - destruct (on_l1 w c (c_rise t)) as [w0|] eqn:E0.
      + inversion H; subst. apply broadcast_pred. eapply on_l1_pred; eassumption.
      + inversion H; subst. exact F.
    - destruct (on_l1 w c c_clear) as [w0|] eqn:E0.
      + inversion H; subst. apply broadcast_pred. eapply on_l1_pred; eassumption.
      + inversion H; subst. exact F.
    - destruct (on_l1 w c (c_remove k)) as [w0|] eqn:E0.
      + inversion H; subst. eapply on_l1_pred; eassumption.
      + inversion H; subst. exact F.
    - destruct (nth_error (w_cli w) c).
      + destruct (stats_sum (nsrv w) w) as [[k t] w0] eqn:E. inversion H; subst. eapply stats_sum_pred; eassumption.
      + inversion H; subst. exact F.
    - inversion H; subst. exact F.
    - destruct (nth_error (w_srv w) s).
      + destruct (rpc w s (h, p)) as [[h1 p1] w0] eqn:E. inversion H; subst. eapply rpc_pred; eassumption.
      + inversion H; subst. exact F.
  Qed.

  Lemma reachable_pred : P c_empty -> forall w, reachable w -> Forall P (w_srv w).
  Proof.
    intros P0 w R. induction R as [ns l1|w o R IH].
    - unfold init_world. cbn [w_srv]. apply Forall_forall. intros c H. apply repeat_spec in H. subst. exact P0.
    - apply step_pred. exact IH.
  Qed.
End ServerPredicate.

(* ---------- trigger sets on the servers are in normal form ---------- *)
Definition trigs_sorted (c : cache) : Prop := forall k e, In (k, e) (c_items c) -> ssorted (e_trg e).

Lemma srv_handle_sorted now h p c : trigs_sorted c -> trigs_sorted (snd (srv_handle now h p c)).
Proof.
  intros S. unfold srv_handle.
  destruct (h_op h =? op_fetch); [exact S|].
  destruct (h_op h =? op_rise); [cbn [snd]; intros k e H; apply c_rise_sub in H; eapply S; exact H|].
  destruct (h_op h =? op_clear); [cbn [snd]; intros k e H; contradiction|].
  destruct (h_op h =? op_store).
  - unfold srv_store.
    destruct (negb (h_u2 h + h_u3 h + h_u4 h =? h_size h) || (h_u2 h =? 0)); [exact S|].
    destruct (load_triggers [] (take (h_u4 h) (drop (h_u2 h + h_u3 h) p))) as [trg|]; [|exact S].
    cbn [snd c_store]. intros k e [H|H].
    + inversion H; subst. cbn [e_trg]. apply sins_sorted, mkset_sorted.
    + eapply S. eapply a_remove_In. exact H.
  - destruct (h_op h =? op_stats); [destruct (c_stats c)|]; exact S.
Qed.

Lemma reachable_sorted w i s k e :
  reachable w -> nth_error (w_srv w) i = Some s -> In (k, e) (c_items s) -> ssorted (e_trg e).
Proof.
  intros R Hi Hin.
  pose proof (reachable_pred trigs_sorted srv_handle_sorted (fun k e H => False_ind _ H) w R) as F.
  rewrite Forall_forall in F. eapply (F s); [eapply nth_error_In; exact Hi|exact Hin].
Qed.

(* ---------- what a fetch-with-triggers returns ---------- *)
(* a node without L1: exactly the trigger set of the server record, when its names are NUL-free *)
Lemma fetch_triggers_no_l1 w c k r w1 s e :
  reachable w -> nth_error (w_cli w) c = Some None ->
  nth_error (w_srv w) (server_of (nsrv w) k) = Some s -> c_fetch (w_now w) k s = Some e ->
  Forall nul_free (e_trg e) ->
  step w (OFetch c k true) = (ObsFetch r, w1) -> r = Some (e_val e, e_trg e, e_dl e).
Proof.
  intros R Ec Es Ef NF H.
  destruct (reachable_inv w R) as [logs I].
  destruct (srv_entry_int64 w logs _ s k e I Es Ef) as [_ I64].
  pose proof (reachable_sorted w _ s k e R Es (c_fetch_In _ _ _ _ Ef)) as SO.
  cbn [step] in H. unfold client_fetch in H. rewrite Ec in H.
  destruct (rpc_fetch_some w _ s k 0 true false Es) as (h & p & Rq & D). rewrite Rq, D in H.
  rewrite (fetch_data_roundtrip (w_now w) k 0 true false s e Ef eq_refl I64 NF) in H.
  rewrite (mkset_id _ SO) in H. inversion H. reflexivity.
Qed.

(* a node with an L1: value and deadline as always (fetch_current); the trigger set is a superset of the server record's *)
Lemma sunion_In a b y : In y (sunion a b) <-> In y a \/ In y b.
Proof.
  unfold sunion. induction a as [|x a IH]; cbn [fold_right In]; [tauto|]. rewrite sins_In, IH. intuition congruence.
Qed.
